(* Proofs/RouteProofs.v — property C04 at the ARRAY / ELEMENT level: the value
   of a fermionic contraction (model `f_tensordot`, blockwise strategy) does not
   depend on the route.  Everything is stated for wf operands (`wf_fermi`), at
   the level of the observable value `V x cs = sem (f_value x) cs` and of the
   odd-position labels.

   part 1   sector_parity: the number of odd charges of a stored sector has the
            parity of the total charge
   part 2   the sign algebra on words of axes (`wsg` = inversion parity of a word
            of axes of one sector, `wcr` crossings of two words; concatenation,
            block exchange, reversal); `inv_parity_wsg` ties it to the code's sign
   part 3   bridge: `Fermi.resolve_oddpos` (hand model inside f_tensordot) IS the
            `Oddpos.resolve` of the label-level theorems of Props/C04.v
   part 3b  the sign between two arrangements does not depend on the reference
            order (`winv_diff_canon`); sums / products under permutations
   part 4   value-level tools: commutative ring laws, `same_val` (the values and
            contraction signs only depend on blocks, pending signs, labels, charge
            and leg directions, not on the index tables), the contraction result
            before unused charges are dropped is wf (`tdot_main`), `V_transpose`
   part 5   swap_operands
   part 6   axis_listing
   part 7   pre_transpose_a (transposed first operand)
   part 8   assoc_chain ((a.b).c = a.(b.c), general position of all axes)
   part 9   pre_transpose_b (transposed second operand)
   examples Z2 instances with odd charges, mixed directions, pending signs and
            distinct labels on which every hypothesis holds and every sign matters *)
From SV Require Import Base.Prelude Base.Sym Base.Tensor Gen.PhasePerm Gen.OpOrder Model.SymInst Model.Sectors
  Model.Array Model.Arith Model.Fermi Model.Graded Model.Oddpos Model.Wf
  Proofs.SymLaws Proofs.GroupFacts Proofs.GradedProofs Proofs.OddposProofs Proofs.Tdot Proofs.StructProofs
  Proofs.SectorsProofs Proofs.WfProofs Proofs.FermiProofs.
From Coq Require Import Permutation Sorted.
Local Open Scope nat_scope.

(* ================================================================ part 1 *)
Lemma xorb_list_odd_countb {A} (f : A -> bool) l : xorb_list (map f l) = Nat.odd (countb f l).
Proof.
  induction l as [|x l IH]; [reflexivity|]. cbn [map]. rewrite xorb_list_cons, countb_cons, Nat.odd_add, IH.
  destruct (f x); reflexivity.
Qed.

Section SectorParity.
  Context (G : Symmetry) (GL : GroupLaws G).
  Notation sector := (list (C G)).

  Lemma count_odd_bpar (s : sector) axs : count_odd G s axs = bpar (odd_at G s) axs.
  Proof. unfold count_odd, bpar. now rewrite xorb_list_odd_countb. Qed.

  Lemma count_odd_app (s : sector) u v : count_odd G s (u ++ v) = xorb (count_odd G s u) (count_odd G s v).
  Proof. rewrite !count_odd_bpar. unfold bpar. now rewrite map_app, xorb_list_app. Qed.

  Lemma count_odd_perm (s : sector) u v : Permutation u v -> count_odd G s u = count_odd G s v.
  Proof. intros H. rewrite !count_odd_bpar. unfold bpar. apply xorb_list_perm, Permutation_map, H. Qed.

  Lemma map_parity_seq (s : sector) :
    map (odd_at G s) (seq 0 (length s)) = map (parity G) s.
  Proof.
    unfold odd_at. rewrite <- (map_map (fun i => nth i s (ident G)) (parity G)). f_equal.
    apply (nth_ext _ _ (ident G) (ident G)); [now rewrite map_length, seq_length|].
    intros i Hi. rewrite map_length, seq_length in Hi.
    rewrite (map_nth_lt _ _ 0) by (now rewrite seq_length). now rewrite seq_nth.
  Qed.

  (* the combined form: signed charges combine to q, hence the parities add up to the parity of q *)
  Lemma sector_parity_raw (ds : list bool) (q : C G) (s : sector) :
    valid_all G s = true -> length s = length ds ->
    combine G (signed_sector G false s ds) = q ->
    xorb_list (map (parity G) s) = parity G q.
  Proof.
    intros Hv Hl <-. rewrite (parity_combine G GL).
    2:{ unfold signed_sector. apply (valid_all_map_sign2 G GL). rewrite Tdot.map_fst_combine by exact Hl. exact Hv. }
    f_equal. unfold signed_sector. rewrite map_map.
    rewrite <- (Tdot.map_fst_combine s ds Hl) at 1. rewrite map_map.
    apply map_ext_in. intros [c d] Hin. cbn [fst snd]. symmetry. apply (parity_sign G GL).
    apply (proj1 (valid_all_In G GL s) Hv). apply in_combine_l in Hin. exact Hin.
  Qed.

  Theorem sector_parity_SecOK (R : Ring) ixs (q : C G) (s : sector) :
    IxsOK G ixs -> SecOK G ixs q s -> count_odd G s (seq 0 (length ixs)) = parity G q.
  Proof.
    intros Hix Hs. pose proof (SecOK_valid G GL ixs q s Hix Hs) as Hv. destruct Hs as (Hl & _ & Hc).
    rewrite count_odd_bpar. unfold bpar. rewrite <- Hl, map_parity_seq.
    apply (sector_parity_raw (map (idual G) ixs)); [exact Hv|now rewrite map_length|exact Hc].
  Qed.

  (* for a wf array: every stored sector *)
  Theorem sector_parity (R : Ring) (x : aarray G R) (s : sector) :
    wf_array G R x = true -> In s (sectors G R x) ->
    count_odd G s (seq 0 (ndim G R x)) = parity G (charge G R x)
    /\ Nat.odd (n_odd (par_of G s)) = parity G (charge G R x).
  Proof.
    intros Hw Hs. apply (wf_array_iff G GL R) in Hw. destruct Hw as [H1 H2 H3 H4].
    apply in_map_iff in Hs. destruct Hs as ([s0 t] & <- & Hin). cbn [fst].
    destruct (H4 _ _ Hin) as (Hs & _).
    pose proof (sector_parity_SecOK R _ _ _ H1 Hs) as E. split; [exact E|].
    rewrite <- E. destruct Hs as (Hl & _). unfold ndim. rewrite <- Hl.
    rewrite count_odd_bpar. unfold bpar. rewrite map_parity_seq.
    unfold n_odd, par_of. rewrite countb_map. rewrite xorb_list_odd_countb. reflexivity.
  Qed.

  (* any listing of all the axes will do *)
  Corollary sector_parity_perm (R : Ring) (x : aarray G R) (s : sector) w :
    wf_array G R x = true -> In s (sectors G R x) -> Permutation w (seq 0 (ndim G R x)) ->
    count_odd G s w = parity G (charge G R x).
  Proof. intros Hw Hs HP. rewrite (count_odd_perm s _ _ HP). apply (sector_parity R x s Hw Hs). Qed.
End SectorParity.

(* ================================================================ part 2 *)
(* Signs of words of axes.  A word is a list of axis numbers; its sign is the
   parity of the number of odd-odd inversions (`winv` against the numerical
   order of the axes). *)
Definition tri (k : nat) : bool := Nat.odd (k * (k - 1) / 2).

Section AxisWords.
  Context (par : nat -> bool).
  Definition wsg (w : list nat) : bool := winv par (fun i : nat => i) w.
  Definition wcr (u v : list nat) : bool := cross par (fun i : nat => i) u v.
  Definition wpar (u : list nat) : bool := bpar par u.

  Lemma wsg_nil : wsg [] = false. Proof. reflexivity. Qed.
  Lemma wcr_nil_l v : wcr [] v = false. Proof. reflexivity. Qed.
  Lemma wcr_nil_r u : wcr u [] = false. Proof. apply cross_nil_r. Qed.
  Lemma wpar_nil : wpar [] = false. Proof. reflexivity. Qed.
  Lemma wpar_app u v : wpar (u ++ v) = xorb (wpar u) (wpar v).
  Proof. unfold wpar, bpar. now rewrite map_app, xorb_list_app. Qed.
  Lemma wpar_perm u v : Permutation u v -> wpar u = wpar v.
  Proof. intros H. unfold wpar, bpar. apply xorb_list_perm, Permutation_map, H. Qed.
  Lemma wpar_rev u : wpar (rev u) = wpar u.
  Proof. apply wpar_perm. symmetry. apply Permutation_rev. Qed.
  Lemma wpar_nodd u : wpar u = Nat.odd (nodd par u).
  Proof. unfold wpar, bpar, nodd. apply xorb_list_odd_countb. Qed.

  Lemma wsg_app u v : wsg (u ++ v) = xorb (xorb (wsg u) (wsg v)) (wcr u v).
  Proof. apply winv_app. Qed.
  Lemma wcr_app_l u v m : wcr (u ++ v) m = xorb (wcr u m) (wcr v m).
  Proof. apply cross_app_l. Qed.
  Lemma wcr_app_r m u v : wcr m (u ++ v) = xorb (wcr m u) (wcr m v).
  Proof. apply cross_app_r. Qed.
  Lemma wcr_comm u v : (forall x y, In x u -> In y v -> x <> y) ->
    wcr u v = xorb (wcr v u) (wpar u && wpar v).
  Proof.
    intros H. pose proof (cross_comm par (fun i : nat => i) u v H) as E. unfold wcr, wpar.
    rewrite <- E. now destruct (cross par (fun i : nat => i) u v), (cross par (fun i : nat => i) v u).
  Qed.
  Lemma wcr_perm_l u u' v : Permutation u u' -> wcr u v = wcr u' v.
  Proof. intros H. unfold wcr, cross. apply xorb_list_perm, Permutation_map, H. Qed.
  Lemma wcr_perm_r u v v' : Permutation v v' -> wcr u v = wcr u v'.
  Proof.
    intros H. unfold wcr, cross. f_equal. apply map_ext. intros x. unfold cross1.
    apply xorb_list_perm, Permutation_map, H.
  Qed.
  Lemma wcr_single x y : wcr [x] [y] = par x && par y && Nat.ltb y x.
  Proof. unfold wcr, cross, cross1. cbn. now rewrite !xorb_false_r. Qed.
  (* every axis of u is smaller than every axis of v: no crossing *)
  Lemma wcr_before u v : (forall x y, In x u -> In y v -> x < y) -> wcr u v = false.
  Proof. apply cross_before. Qed.

  Lemma wsg_cons x t : wsg (x :: t) = xorb (wcr [x] t) (wsg t).
  Proof. unfold wsg, wcr, cross. cbn [winv map]. now rewrite xorb_list_cons, xorb_false_r. Qed.

  Lemma wsg_sorted w : StronglySorted lt w -> wsg w = false.
  Proof. apply winv_sorted. Qed.

  (* reversing a word of distinct axes *)
  Lemma wsg_rev w : NoDup w -> wsg (rev w) = xorb (wsg w) (tri (nodd par w)).
  Proof.
    induction w as [|x t IH]; intros ND; [reflexivity|]. inversion ND as [|? ? Hx Ht]; subst.
    cbn [rev]. rewrite wsg_app, IH by exact Ht. rewrite (wsg_cons x t).
    rewrite (wcr_perm_l (rev t) t [x]) by (symmetry; apply Permutation_rev).
    rewrite (wcr_comm t [x]) by (intros a b Ha [<-|[]] E; subst; contradiction).
    change (wsg [x]) with false. rewrite xorb_false_r.
    unfold nodd. rewrite countb_cons. fold (nodd par t).
    assert (E : wpar [x] = par x) by (unfold wpar, bpar; cbn; now rewrite xorb_false_r).
    rewrite E, wpar_nodd. unfold tri.
    destruct (par x).
    - change (1 + nodd par t) with (S (nodd par t)). rewrite tri_succ, Nat.odd_add.
      rewrite andb_true_r.
      now destruct (wsg t), (wcr [x] t), (Nat.odd (nodd par t * (nodd par t - 1) / 2)), (Nat.odd (nodd par t)).
    - rewrite andb_false_r. cbn [Nat.add].
      now destruct (wsg t), (wcr [x] t), (Nat.odd (nodd par t * (nodd par t - 1) / 2)).
  Qed.
End AxisWords.

Lemma winv_ext_in {L} (par par' : L -> bool) (canon : L -> nat) w :
  (forall x, In x w -> par x = par' x) -> winv par canon w = winv par' canon w.
Proof.
  induction w as [|x t IH]; intros H; [reflexivity|]. cbn [winv]. rewrite IH by (intros y Hy; apply H; now right).
  f_equal. unfold cross1. rewrite (H x (or_introl eq_refl)). apply xorb_list_map_ext_in.
  intros y Hy. rewrite (H y (or_intror Hy)). reflexivity.
Qed.

Lemma cross_ext_in {L} (par par' : L -> bool) (canon : L -> nat) u v :
  (forall x, In x u -> par x = par' x) -> (forall x, In x v -> par x = par' x) ->
  cross par canon u v = cross par' canon u v.
Proof.
  intros Hu Hv. unfold cross. apply xorb_list_map_ext_in. intros x Hx. unfold cross1. rewrite (Hu x Hx).
  apply xorb_list_map_ext_in. intros y Hy. now rewrite (Hv y Hy).
Qed.

Lemma wsg_ext_in par par' w : (forall x, In x w -> par x = par' x) -> wsg par w = wsg par' w.
Proof. apply winv_ext_in. Qed.
Lemma wcr_ext_in par par' u v :
  (forall x, In x u -> par x = par' x) -> (forall x, In x v -> par x = par' x) -> wcr par u v = wcr par' u v.
Proof. apply cross_ext_in. Qed.
Lemma wpar_ext_in par par' u : (forall x, In x u -> par x = par' x) -> wpar par u = wpar par' u.
Proof. intros H. unfold wpar, bpar. apply xorb_list_map_ext_in, H. Qed.

(* renaming the axes by a map that preserves the order *)
Lemma winv_map {L L'} (f : L -> L') (par : L' -> bool) (canon : L' -> nat) w :
  winv par canon (map f w) = winv (fun x => par (f x)) (fun x => canon (f x)) w.
Proof.
  induction w as [|x t IH]; [reflexivity|]. cbn [map winv]. rewrite IH. f_equal.
  unfold cross1. now rewrite map_map.
Qed.
Lemma cross_map {L L'} (f : L -> L') (par : L' -> bool) (canon : L' -> nat) u v :
  cross par canon (map f u) (map f v) = cross (fun x => par (f x)) (fun x => canon (f x)) u v.
Proof. unfold cross. rewrite map_map. f_equal. apply map_ext. intros x. unfold cross1. now rewrite map_map. Qed.

(* the inversion parity computed by the code = the sign of the word of axes *)
Lemma inv_parity_wsg_raw (par : list Z) (w : list nat) :
  inv_parity par (map Z.of_nat w) = wsg (fun i => oddZ par (Z.of_nat i)) w.
Proof.
  unfold inv_parity. induction w as [|x t IH]; [reflexivity|].
  cbn [map inv_count]. rewrite Nat.odd_add, IH, wsg_cons. f_equal.
  unfold wcr, cross. cbn [map]. rewrite xorb_list_cons, xorb_false_r. unfold cross1.
  destruct (oddZ par (Z.of_nat x)) eqn:Ex.
  - cbn [andb]. rewrite xorb_list_odd_countb, countb_map. f_equal. apply countb_ext_in. intros y _.
    rewrite andb_comm. f_equal.
    destruct (Z.ltb_spec (Z.of_nat y) (Z.of_nat x)); [symmetry; apply Nat.ltb_lt | symmetry; apply Nat.ltb_ge]; lia.
  - symmetry. apply xorb_list_false. reflexivity.
Qed.

Section SectorWords.
  Context (G : Symmetry).
  Notation sector := (list (C G)).

  Lemma oddZ_par_of (s : sector) i : i < length s -> oddZ (par_of G s) (Z.of_nat i) = odd_at G s i.
  Proof.
    intros Hi. unfold oddZ, nthZ, par_of, odd_at, parity. rewrite Nat2Z.id.
    rewrite (map_nth_lt _ _ (ident G)) by exact Hi. reflexivity.
  Qed.

  Lemma inv_parity_wsg (s : sector) (w : list nat) :
    (forall i, In i w -> i < length s) ->
    inv_parity (par_of G s) (map Z.of_nat w) = wsg (odd_at G s) w.
  Proof.
    intros H. rewrite inv_parity_wsg_raw. apply wsg_ext_in. intros i Hi. apply oddZ_par_of, H, Hi.
  Qed.

  Lemma count_odd_wpar (s : sector) u : count_odd G s u = wpar (odd_at G s) u.
  Proof. apply count_odd_bpar. Qed.

  (* aligned words: the same parities position by position *)
  Lemma aligned_nodd (sa sb : sector) aa ab :
    take_axes (ident G) sa aa = take_axes (ident G) sb ab ->
    nodd (odd_at G sa) aa = nodd (odd_at G sb) ab.
  Proof.
    intros H. unfold nodd, countb, odd_at.
    pose proof (f_equal (fun l => length (filter (parity G) l)) H) as E. cbn beta in E.
    unfold take_axes in E. rewrite !filter_map_comm, !map_length in E. exact E.
  Qed.
  Lemma aligned_wpar (sa sb : sector) aa ab :
    take_axes (ident G) sa aa = take_axes (ident G) sb ab ->
    wpar (odd_at G sa) aa = wpar (odd_at G sb) ab.
  Proof. intros H. rewrite !wpar_nodd. f_equal. now apply aligned_nodd. Qed.
End SectorWords.

(* ================================================================ part 3 *)
(* The hand model `resolve_oddpos` inside `f_tensordot` IS the `resolve` of the
   label-level theorems (Props/C04.v): same loop, index form, more fuel. *)
Lemma lex_ltb_list_ltb a : forall b, lex_ltb a b = list_ltb Z.ltb Z.eqb a b.
Proof.
  induction a as [|x a IH]; intros [|y b]; cbn [lex_ltb list_ltb]; try reflexivity. now rewrite IH.
Qed.

Lemma op_lt_fop_ltb (a b : op) : op_lt a b = fop_ltb a b.
Proof. unfold op_lt, fop_ltb, lab_ltb. now rewrite !lex_ltb_list_ltb. Qed.

Lemma resolve_go_idx fuel : forall s i l k,
  resolve_idx fuel s i l <> OutOfFuel ->
  resolve_go (S fuel + k) i s l
  = match resolve_idx fuel s i l with Done s' w => Some (s', w) | _ => None end.
Proof.
  induction fuel as [|fuel IH]; intros s i l k HN.
  - cbn [resolve_idx] in *. cbn [Nat.add resolve_go]. rewrite Nat.add_1_r in *.
    unfold fop, flabel, op, label in *.
    destruct (Nat.ltb (S i) (length l)); [congruence|reflexivity].
  - change (S (S fuel) + k) with (S (S fuel + k)). cbn [resolve_go]. cbn [resolve_idx] in *.
    rewrite Nat.add_1_r in *. unfold fop, flabel, op, label in *.
    destruct (Nat.ltb (S i) (length l)) eqn:E; [|reflexivity].
    apply Nat.ltb_lt in E.
    rewrite (nth_error_nth' l ([], false)) in * by lia. rewrite (nth_error_nth' l ([], false)) in * by lia.
    set (a := nth i l ([], false)) in *. set (b := nth (S i) l ([], false)) in *.
    replace (i + 2) with (S (S i)) in * by lia.
    unfold lab_eqb. change (list_eqb Z.eqb (fst a) (fst b)) with (label_eqb (fst a) (fst b)).
    destruct (label_eqb (fst a) (fst b)).
    + destruct (negb (Bool.eqb (snd a) (snd b))); [|reflexivity]. apply IH. exact HN.
    + rewrite <- op_lt_fop_ltb. destruct (op_lt b a); apply IH; exact HN.
Qed.

Lemma resolve_go_enough (w : list op) (s : bool) :
  resolve_idx (fuel_bound (length w)) s 0 w <> OutOfFuel ->
  resolve_go (length w * length w + 2 * length w + 4) 0 s w
  = match resolve_idx (fuel_bound (length w)) s 0 w with Done s' w' => Some (s', w') | _ => None end.
Proof.
  intros HT. set (n := length w) in *.
  replace (n * n + 2 * n + 4) with (S (fuel_bound n) + (2 * n + 2)) by (unfold fuel_bound; lia).
  apply resolve_go_idx. exact HT.
Qed.

Theorem resolve_oddpos_is_resolve (p : bool) (l r : list op) : resolve_oddpos p l r = resolve l r p.
Proof.
  unfold resolve. rewrite <- resolve_raw_idx_eq. pose proof (resolve_terminates l r p) as HT.
  rewrite <- resolve_raw_idx_eq in HT. unfold resolve_raw_idx in *. unfold resolve_oddpos.
  destruct l as [|x l]; [destruct r as [|y r]; [reflexivity|]|].
  - cbn [is_nil andb] in *. apply (resolve_go_enough ([] ++ y :: r)). exact HT.
  - cbn [is_nil andb] in *. apply (resolve_go_enough ((x :: l) ++ r)). exact HT.
Qed.

Lemma Forall2_nth_P {A B} (P : A -> B -> Prop) la lb da db k :
  Forall2 P la lb -> k < length la -> P (nth k la da) (nth k lb db).
Proof.
  intros H. revert k. induction H as [|x y la lb Hxy H IH]; intros k Hk; cbn [length] in Hk; [lia|].
  destruct k as [|k]; cbn [nth]; [exact Hxy|]. apply IH. lia.
Qed.

(* ================================================================ part 3b *)
(* The sign BETWEEN two arrangements of the same legs does not depend on the
   reference order (`canon`) the inversions are counted against. *)
Lemma winv_diff_canon {L} (P : L -> bool) (c c' : L -> nat) (u v : list L) :
  Permutation u v ->
  (forall x y, In x u -> In y u -> c x = c y -> x = y) ->
  (forall x y, In x u -> In y u -> c' x = c' y -> x = y) ->
  xorb (winv P c u) (winv P c v) = xorb (winv P c' u) (winv P c' v).
Proof.
  intros HP. induction HP as [|x u v HP IH|x y l|u v w HP1 IH1 HP2 IH2]; intros Hc Hc'.
  - reflexivity.
  - cbn [winv].
    assert (E1 : cross1 P c x u = cross1 P c x v) by (unfold cross1; apply xorb_list_perm, Permutation_map, HP).
    assert (E2 : cross1 P c' x u = cross1 P c' x v) by (unfold cross1; apply xorb_list_perm, Permutation_map, HP).
    rewrite E1, E2.
    specialize (IH (fun a b Ha Hb => Hc a b (or_intror Ha) (or_intror Hb))
                   (fun a b Ha Hb => Hc' a b (or_intror Ha) (or_intror Hb))).
    revert IH. generalize (winv P c u) (winv P c v) (winv P c' u) (winv P c' v) (cross1 P c x v) (cross1 P c' x v).
    intros b1 b2 b3 b4 b5 b6. destruct b1, b2, b3, b4, b5, b6; cbn; congruence.
  - cbn [winv]. unfold cross1. cbn [map]. rewrite !xorb_list_cons.
    fold (cross1 P c x l) (cross1 P c y l) (cross1 P c' x l) (cross1 P c' y l).
    assert (E : xorb (P y && P x && Nat.ltb (c x) (c y)) (P x && P y && Nat.ltb (c y) (c x))
              = xorb (P y && P x && Nat.ltb (c' x) (c' y)) (P x && P y && Nat.ltb (c' y) (c' x))).
    { destruct (Nat.eq_dec (c y) (c x)) as [Ec|Ec].
      - assert (Exy : y = x) by (apply Hc; [left; reflexivity|right; left; reflexivity|exact Ec]).
        subst y. now rewrite !Nat.ltb_irrefl.
      - assert (Ec' : c' y <> c' x).
        { intros E'. apply Ec. f_equal. apply Hc'; [left; reflexivity|right; left; reflexivity|exact E']. }
        destruct (Nat.ltb_spec (c x) (c y)), (Nat.ltb_spec (c y) (c x)), (Nat.ltb_spec (c' x) (c' y)),
          (Nat.ltb_spec (c' y) (c' x)); try lia; now destruct (P x), (P y). }
    revert E. generalize (P y && P x && Nat.ltb (c x) (c y)) (P x && P y && Nat.ltb (c y) (c x))
      (P y && P x && Nat.ltb (c' x) (c' y)) (P x && P y && Nat.ltb (c' y) (c' x))
      (cross1 P c x l) (cross1 P c y l) (cross1 P c' x l) (cross1 P c' y l) (winv P c l) (winv P c' l).
    intros b1 b2 b3 b4 b5 b6 b7 b8 b9 b10.
    destruct b1, b2, b3, b4, b5, b6, b7, b8, b9, b10; cbn; congruence.
  - assert (Hv : forall x, In x v -> In x u) by (intros x; apply Permutation_in; now symmetry).
    specialize (IH1 Hc Hc').
    specialize (IH2 (fun a b Ha Hb => Hc a b (Hv a Ha) (Hv b Hb)) (fun a b Ha Hb => Hc' a b (Hv a Ha) (Hv b Hb))).
    revert IH1 IH2. generalize (winv P c u) (winv P c v) (winv P c w) (winv P c' u) (winv P c' v) (winv P c' w).
    intros b1 b2 b3 b4 b5 b6. destruct b1, b2, b3, b4, b5, b6; cbn; congruence.
Qed.

(* only the comparisons between the legs of the word matter *)
Lemma winv_canon_ext {L} (P : L -> bool) (c c' : L -> nat) (w : list L) :
  (forall x y, In x w -> In y w -> Nat.ltb (c y) (c x) = Nat.ltb (c' y) (c' x)) ->
  winv P c w = winv P c' w.
Proof.
  induction w as [|x t IH]; intros H; [reflexivity|]. cbn [winv].
  rewrite IH by (intros a b Ha Hb; apply H; now right). f_equal.
  unfold cross1. apply xorb_list_map_ext_in. intros y Hy. now rewrite (H x y (or_introl eq_refl) (or_intror Hy)).
Qed.
Lemma cross_canon_ext {L} (P : L -> bool) (c c' : L -> nat) (u v : list L) :
  (forall x y, In x u -> In y v -> Nat.ltb (c y) (c x) = Nat.ltb (c' y) (c' x)) ->
  cross P c u v = cross P c' u v.
Proof.
  intros H. unfold cross. apply xorb_list_map_ext_in. intros x Hx. unfold cross1.
  apply xorb_list_map_ext_in. intros y Hy. now rewrite (H x y Hx Hy).
Qed.

(* ---------- sums and products under permutations ---------- *)
Lemma rsum_perm (R : Ring) (RL : SumLaws R) (l l' : list (RT R)) : Permutation l l' -> rsum R l = rsum R l'.
Proof.
  induction 1 as [|x l l' HP IH|x y l|l l' l'' H1 IH1 H2 IH2]; cbn [rsum fold_right].
  - reflexivity.
  - fold (rsum R l) (rsum R l'). now rewrite IH.
  - fold (rsum R l). rewrite !(radd_assoc R RL). f_equal. apply (radd_comm R RL).
  - congruence.
Qed.

Lemma permuted_Permutation {A} (d : A) (l : list A) p :
  Permutation p (seq 0 (length l)) -> Permutation (permuted d l p) l.
Proof.
  intros H. unfold permuted. transitivity (map (fun j => nth j l d) (seq 0 (length l))).
  - apply Permutation_map, H.
  - now rewrite StructProofs.map_nth_seq.
Qed.

Lemma nprod_perm l l' : Permutation l l' -> nprod l = nprod l'.
Proof.
  induction 1 as [|x l l' HP IH|x y l|l l' l'' H1 IH1 H2 IH2]; cbn [nprod fold_right].
  - reflexivity.
  - fold (nprod l) (nprod l'). now rewrite IH.
  - fold (nprod l). lia.
  - congruence.
Qed.

Lemma length_product {A} (ls : list (list A)) : length (product ls) = nprod (map (@length A) ls).
Proof.
  induction ls as [|l ls IH]; [reflexivity|]. cbn [product map nprod fold_right]. fold (nprod (map (@length A) ls)).
  rewrite <- IH. generalize (product ls). intros q. induction l as [|x l IHl]; [reflexivity|].
  cbn [flat_map length]. rewrite app_length, map_length, IHl. reflexivity.
Qed.

Lemma NoDup_map_inj_in {A B} (f : A -> B) l :
  (forall x y, In x l -> In y l -> f x = f y -> x = y) -> NoDup l -> NoDup (map f l).
Proof.
  intros Hf ND. induction ND as [|x l Hx ND IH]; cbn [map]; constructor.
  - intros Hin. apply in_map_iff in Hin. destruct Hin as [y [E Hy]]. apply Hx.
    rewrite (Hf x y (or_introl eq_refl) (or_intror Hy) (eq_sym E)). exact Hy.
  - apply IH. intros a b Ha Hb. apply Hf; now right.
Qed.

Lemma product_permuted {A} (d : A) (ls : list (list A)) p :
  Forall (@NoDup A) ls -> Permutation p (seq 0 (length ls)) ->
  Permutation (map (fun x => permuted d x p) (product ls)) (product (permuted [] ls p)).
Proof.
  intros ND HP. apply NoDup_Permutation_bis.
  - apply NoDup_map_inj_in; [|apply NoDup_product, ND].
    intros x y Hx Hy E. apply length_product_entry in Hx, Hy.
    apply (StructProofs.permuted_inj d (length ls) p x y); try assumption.
    intros i Hi. apply (Permutation_in _ (Permutation_sym HP)), in_seq. lia.
  - rewrite map_length, !length_product. apply Nat.eq_le_incl. apply nprod_perm.
    rewrite permuted_map. apply permuted_Permutation. now rewrite map_length.
  - intros x Hx. apply in_map_iff in Hx. destruct Hx as [kc [<- Hk]].
    pose proof (length_product_entry _ _ Hk) as Lk. apply in_product in Hk. apply in_product.
    unfold permuted. apply Tdot.Forall2_map_same. intros i Hi.
    apply (Permutation_in _ HP), in_seq in Hi.
    apply (Forall2_nth_P (fun c cs => In c cs) kc ls d [] i Hk). lia.
Qed.

(* ================================================================ part 4 *)
(* the ring is commutative (numbers): needed as soon as two operands change places *)
Record CommLaws (R : Ring) : Prop := {
  rmul_comm : forall x y, rmul R x y = rmul R y x;
  rmul_assoc : forall x y z, rmul R x (rmul R y z) = rmul R (rmul R x y) z;
  rmul_add_l : forall x y z, rmul R x (radd R y z) = radd R (rmul R x y) (rmul R x z)
}.

Lemma ZRing_comm_laws : CommLaws ZRing.
Proof. constructor; cbn; intros; lia. Qed.
Lemma GRing_comm_laws : CommLaws GRing.
Proof. constructor; cbn; intros; f_equal; lia. Qed.

Definition spar (G : Symmetry) (s : list (C G)) : bool := xorb_list (map (parity G) s).

Section Route.
  Context (G : Symmetry) (GL : GroupLaws G) (OL : OrderProofs.OrderLaws G).
  Context (R : Ring) (NL : NegLaws R) (RL : SumLaws R).
  Notation sector := (list (C G)).
  Notation keq := (list_eqb (ceqb G)).
  Notation arr := (aarray G R).
  Notation farr := (farray G R).
  Notation ch_d := (ident G).
  Notation ix_d := (dflt_index G).
  Notation dcoord := (ident G, 0).
  Notation cspec := (ceqb_eq G GL).
  Notation rsg := (rsgn R).

  (* the value of a fermionic array at a (charge, offset) coordinate *)
  Definition V (x : farr) (cs : list (coord G)) : RT R := sem G R (f_value G R x) cs.

  (* ---------- signs on scalars ---------- *)
  Lemma rsgn_rsgn b c v : rsg b (rsg c v) = rsg (xorb b c) v.
  Proof. destruct b, c; cbn [rsgn xorb]; try reflexivity. apply (rneg_invol R NL). Qed.
  Lemma rmul_rsgn b c x y : rmul R (rsg b x) (rsg c y) = rsg (xorb b c) (rmul R x y).
  Proof.
    destruct b, c; cbn [rsgn xorb]; try reflexivity.
    - now rewrite (rmul_neg_l R NL), (rmul_neg_r R NL), (rneg_invol R NL).
    - apply (rmul_neg_l R NL).
    - apply (rmul_neg_r R NL).
  Qed.
  Lemma rsgn_rsum {A} b (f : A -> RT R) l : rsg b (rsum R (map f l)) = rsum R (map (fun x => rsg b (f x)) l).
  Proof. destruct b; cbn [rsgn]; [symmetry; apply (rsum_neg R NL) | reflexivity]. Qed.
  Lemma rsgn_r0 b : rsg b (r0 R) = r0 R.
  Proof. destruct b; [apply (rneg_zero R NL) | reflexivity]. Qed.

  (* ---------- parities of lists of charges ---------- *)
  Lemma wpar_spar (s : sector) w : wpar (odd_at G s) w = spar G (take_axes ch_d s w).
  Proof. unfold wpar, bpar, spar, take_axes, odd_at. now rewrite map_map. Qed.
  Lemma spar_app (u v : sector) : spar G (u ++ v) = xorb (spar G u) (spar G v).
  Proof. unfold spar. now rewrite map_app, xorb_list_app. Qed.

  (* ---------- what a wf fermionic array provides ---------- *)
  Lemma wff_base x : wf_fermi G R x = true -> wf_array G R (fbase G R x) = true.
  Proof. unfold wf_fermi. rewrite !andb_true_iff. tauto. Qed.
  Lemma wff_blocks_ok x : wf_fermi G R x = true -> blocks_ok G R (fbase G R x).
  Proof. intros H. apply (wf_blocks_ok G R cspec), wff_base, H. Qed.
  Lemma wff_nodup x : wf_fermi G R x = true -> NoDup (fsectors G R x).
  Proof. intros H. apply (bo_nodup _ _ _ (wff_blocks_ok x H)). Qed.
  Lemma wff_len x : wf_fermi G R x = true -> sectors_len G R x.
  Proof.
    intros H t Ht. apply in_map_iff in Ht. destruct Ht as [sb [<- Hsb]].
    apply (bo_len _ _ _ (wff_blocks_ok x H) sb Hsb).
  Qed.
  Lemma wff_par x : wf_fermi G R x = true -> Nat.odd (length (foddpos G R x)) = fparity G R x.
  Proof. intros H. apply (wf_fermi_iff G GL R) in H. apply (ff_par _ _ _ H). Qed.
  Lemma wff_sector_par x s w : wf_fermi G R x = true -> In s (fsectors G R x) ->
    Permutation w (seq 0 (ndim G R (fbase G R x))) -> wpar (odd_at G s) w = fparity G R x.
  Proof.
    intros H Hs HP. rewrite <- count_odd_wpar. apply (sector_parity_perm G GL R _ s w (wff_base x H) Hs HP).
  Qed.
  Lemma wff_ix_nodup x axes : wf_fermi G R x = true ->
    Forall (fun ix => NoDup (icharges G ix)) (take_axes ix_d (indices G R (fbase G R x)) axes).
  Proof.
    intros H. apply wff_base, (wf_array_iff G GL R) in H. destruct H as [H1 _ _ _].
    apply Forall_forall. intros ix Hin. apply in_map_iff in Hin. destruct Hin as [i [<- _]].
    destruct (Nat.lt_ge_cases i (length (indices G R (fbase G R x)))) as [Hi|Hi].
    - unfold IxsOK in H1. rewrite Forall_forall in H1.
      apply (wf_index_nodup G (OrderProofs.st_irrefl _ OL) (OrderProofs.st_trans _ OL)). apply H1, nth_In, Hi.
    - rewrite nth_overflow by exact Hi. constructor.
  Qed.

  Lemma V_zero_or x cs : V x cs = r0 R \/ In (map fst cs) (fsectors G R x).
  Proof.
    unfold V, sem. destruct (lookup keq (map fst cs) (blocks G R (f_value G R x))) eqn:E; [right|now left].
    rewrite <- (sectors_f_value G R). apply (lookup_In_sectors G cspec _ _ _ E).
  Qed.

  (* ---------- the contraction of two wf abelian arrays BEFORE the unused charges are dropped ---------- *)
  Lemma tdot_unpruned_wf (a b : arr) (aa ab : list nat) :
    wf_array G R a = true -> wf_array G R b = true ->
    NoDup aa -> (forall i, In i aa -> i < ndim G R a) ->
    NoDup ab -> (forall i, In i ab -> i < ndim G R b) ->
    length aa = length ab ->
    (forall k, k < length aa ->
       idual G (nth (nth k aa 0) (indices G R a) ix_d) = negb (idual G (nth (nth k ab 0) (indices G R b) ix_d))) ->
    wf_array G R (mkA G R (without_axes (indices G R a) aa ++ without_axes (indices G R b) ab)
                    (combine G [charge G R a; charge G R b])
                    (blocks G R (tdot_blockwise G R a b (rest_axes (ndim G R a) aa) aa ab (rest_axes (ndim G R b) ab)))) = true.
  Proof.
    intros Ha Hb Haa_nd Haa_lt Hab_nd Hab_lt Hlen Hdual.
    apply (wf_array_iff G GL R) in Ha. apply (wf_array_iff G GL R) in Hb. unfold ndim in *.
    unfold tdot_blockwise. cbv zeta. cbn [blocks]. apply (wf_mk G GL R).
    rewrite (without_axes_take ix_d (indices G R a)), (without_axes_take ix_d (indices G R b)).
    set (ixs := take_axes ix_d (indices G R a) _ ++ take_axes ix_d (indices G R b) _).
    set (q := combine G [charge G R a; charge G R b]).
    set (ps := tdot_pairs G R a b _ aa ab _).
    assert (Hps : forall s t, In (s, t) ps -> BlkOK G R ixs q s t).
    { intros s t Hin. unfold ps, tdot_pairs in Hin. apply in_flat_map in Hin.
      destruct Hin as ([sa ta] & Hina & Hin). apply in_flat_map in Hin. destruct Hin as ([sb tb] & Hinb & Hin).
      cbn [fst snd] in Hin.
      destruct (keq (take_axes ch_d sa aa) (take_axes ch_d sb ab)) eqn:E; [|destruct Hin].
      destruct Hin as [Hin|[]]. inversion Hin; subst s t. apply (keq_spec G cspec) in E.
      apply (pair_BlkOK G GL R (indices G R a) (indices G R b) (charge G R a) (charge G R b) aa ab
               (wf_ix _ _ _ _ _ Ha) (wf_ix _ _ _ _ _ Hb) Haa_nd Haa_lt Hab_nd Hab_lt Hlen Hdual sa ta sb tb).
      - apply (wf_bl _ _ _ _ _ Ha). exact Hina.
      - apply (wf_bl _ _ _ _ _ Hb). exact Hinb.
      - exact E. }
    destruct (acc_add_inv G GL R ixs q ps [] Hps (NoDup_nil _) (fun s t (H : In (s, t) []) => match H with end)) as [Hnd Hall].
    constructor.
    - unfold ixs, IxsOK. apply Forall_app. split; apply Forall_forall; intros ix Hin;
        apply in_map_iff in Hin; destruct Hin as (i & <- & Hi); apply In_rest_axes in Hi.
      + pose proof (wf_ix _ _ _ _ _ Ha) as H. unfold IxsOK in H. rewrite Forall_forall in H. apply H. apply nth_In. exact Hi.
      + pose proof (wf_ix _ _ _ _ _ Hb) as H. unfold IxsOK in H. rewrite Forall_forall in H. apply H. apply nth_In. exact Hi.
    - apply (gadd_valid G GL); [apply (wf_q _ _ _ _ _ Ha)|apply (wf_q _ _ _ _ _ Hb)].
    - exact Hnd.
    - exact Hall.
  Qed.

  (* ---------- the same array with other index tables ---------- *)
  Definition reindex (x : farr) (ixs : list (index G)) : farr :=
    mkF G R (mkA G R ixs (charge G R (fbase G R x)) (blocks G R (fbase G R x))) (fphases G R x) (foddpos G R x).

  (* equal blocks, pending signs, labels, charge and leg directions: everything
     the values and the contraction signs depend on *)
  Record same_val (x y : farr) : Prop := {
    sv_blocks : blocks G R (fbase G R x) = blocks G R (fbase G R y);
    sv_phases : fphases G R x = fphases G R y;
    sv_oddpos : foddpos G R x = foddpos G R y;
    sv_charge : charge G R (fbase G R x) = charge G R (fbase G R y);
    sv_duals : map (idual G) (indices G R (fbase G R x)) = map (idual G) (indices G R (fbase G R y)) }.

  Lemma same_val_refl x : same_val x x.
  Proof. constructor; reflexivity. Qed.
  Lemma same_val_sym x y : same_val x y -> same_val y x.
  Proof. intros [H1 H2 H3 H4 H5]. constructor; now symmetry. Qed.
  Lemma same_val_reindex x ixs : map (idual G) ixs = map (idual G) (indices G R (fbase G R x)) -> same_val (reindex x ixs) x.
  Proof. intros H. constructor; try reflexivity. exact H. Qed.

  Lemma same_val_V x y : same_val x y -> forall cs, V x cs = V y cs.
  Proof. intros [H1 H2 _ _ _] cs. unfold V, sem. rewrite !(blocks_f_value G R), H1, H2. reflexivity. Qed.
  Lemma same_val_ndim x y : same_val x y -> ndim G R (fbase G R x) = ndim G R (fbase G R y).
  Proof. intros H. unfold ndim. rewrite <- (map_length (idual G)), (sv_duals _ _ H). apply map_length. Qed.
  Lemma same_val_fsectors x y : same_val x y -> fsectors G R x = fsectors G R y.
  Proof. intros H. unfold fsectors, sectors. now rewrite (sv_blocks _ _ H). Qed.
  Lemma same_val_fparity x y : same_val x y -> fparity G R x = fparity G R y.
  Proof. intros H. unfold fparity. now rewrite (sv_charge _ _ H). Qed.
  Lemma same_val_idual x y i : same_val x y ->
    idual G (nth i (indices G R (fbase G R x)) ix_d) = idual G (nth i (indices G R (fbase G R y)) ix_d).
  Proof. intros H. rewrite <- !(map_nth (idual G)). now rewrite (sv_duals _ _ H). Qed.
  Lemma same_val_sectors_len x y : same_val x y -> sectors_len G R x -> sectors_len G R y.
  Proof. intros H Hx t Ht. rewrite <- (same_val_ndim x y H). apply Hx. now rewrite (same_val_fsectors x y H). Qed.

  Lemma same_val_transpose x y p : same_val x y -> same_val (f_transpose G R x p true) (f_transpose G R y p true).
  Proof.
    intros H. pose proof (same_val_fsectors x y H) as Hs. destruct H as [H1 H2 H3 H4 H5].
    unfold f_transpose. constructor; cbn [fbase fphases foddpos a_transpose blocks charge indices].
    - now rewrite H1.
    - now rewrite Hs, H2.
    - exact H3.
    - exact H4.
    - now rewrite !permuted_map, H5.
  Qed.

  Lemma same_val_ketbra_a x y aa s : same_val x y -> ketbra_a G R x aa s = ketbra_a G R y aa s.
  Proof. intros H. unfold ketbra_a. f_equal. apply filter_ext. intros ax. now rewrite (same_val_idual x y ax H). Qed.
  Lemma same_val_ketbra_b x y ab s : same_val x y -> ketbra_b G R x ab s = ketbra_b G R y ab s.
  Proof. intros H. unfold ketbra_b. f_equal. apply filter_ext. intros ax. now rewrite (same_val_idual x y ax H). Qed.

  Lemma same_val_opA fl x y la aa : same_val x y ->
    blocks G R (tdot_opA G R fl x la aa) = blocks G R (tdot_opA G R fl y la aa).
  Proof.
    intros H. unfold tdot_opA, signed_transpose. cbn [blocks]. rewrite !(blocks_f_value G R).
    rewrite (sv_blocks _ _ H), (sv_phases _ _ H). apply map_ext. intros sb.
    now rewrite (same_val_ketbra_a x y aa _ H).
  Qed.
  Lemma same_val_opB fl x y ab rb : same_val x y ->
    blocks G R (tdot_opB G R fl x ab rb) = blocks G R (tdot_opB G R fl y ab rb).
  Proof.
    intros H. unfold tdot_opB, signed_transpose. cbn [blocks]. rewrite !(blocks_f_value G R).
    rewrite (sv_blocks _ _ H), (sv_phases _ _ H). apply map_ext. intros sb.
    now rewrite (same_val_ketbra_b x y ab _ H).
  Qed.

  Lemma same_val_opposite a a' b b' aa ab : same_val a a' -> same_val b b' ->
    opposite_dirs G R a b aa ab -> opposite_dirs G R a' b' aa ab.
  Proof.
    intros Ha Hb H. unfold opposite_dirs in *. induction H as [|i j aa ab Hij H IH]; constructor; [|exact IH].
    now rewrite <- (same_val_idual a a' i Ha), <- (same_val_idual b b' j Hb).
  Qed.

  Lemma charge_opA fl x la aa : charge G R (tdot_opA G R fl x la aa) = charge G R (fbase G R x).
  Proof. reflexivity. Qed.
  Lemma charge_opB fl x ab rb : charge G R (tdot_opB G R fl x ab rb) = charge G R (fbase G R x).
  Proof. reflexivity. Qed.
  Lemma indices_opA fl x la aa : indices G R (tdot_opA G R fl x la aa) = permuted ix_d (indices G R (fbase G R x)) (la ++ aa).
  Proof. reflexivity. Qed.
  Lemma indices_opB fl x ab rb : indices G R (tdot_opB G R fl x ab rb) = permuted ix_d (indices G R (fbase G R x)) (ab ++ rb).
  Proof. reflexivity. Qed.

  (* contracting arrays with the same values gives the same values and labels *)
  Lemma same_val_tdot a a' b b' axes aa ab y :
    same_val a a' -> same_val b b' ->
    parse_axes (ndim G R (fbase G R a)) (ndim G R (fbase G R b)) axes = Some (aa, ab) ->
    NoDup (fsectors G R a) -> sectors_len G R a -> NoDup (fsectors G R b) -> sectors_len G R b ->
    NoDup aa -> (forall i, In i aa -> i < ndim G R (fbase G R a)) ->
    NoDup ab -> (forall i, In i ab -> i < ndim G R (fbase G R b)) ->
    opposite_dirs G R a b aa ab ->
    f_tensordot G R a b axes MBlockwise = Some y ->
    exists y', f_tensordot G R a' b' axes MBlockwise = Some y' /\ foddpos G R y' = foddpos G R y
               /\ fparity G R y' = fparity G R y /\ forall cs, V y' cs = V y cs.
  Proof.
    intros Sa Sb Hp NDa La NDb Lb NDaa Haa NDab Hab Hd Hy.
    pose proof (same_val_ndim a a' Sa) as Na. pose proof (same_val_ndim b b' Sb) as Nb.
    pose proof (tensordot_blockwise_value G R NL cspec a b axes aa ab Hp NDa La NDb Lb NDaa Haa NDab Hab Hd) as E.
    cbv zeta in E. rewrite Hy in E.
    assert (Hp' : parse_axes (ndim G R (fbase G R a')) (ndim G R (fbase G R b')) axes = Some (aa, ab))
      by (rewrite <- Na, <- Nb; exact Hp).
    pose proof (tensordot_blockwise_value G R NL cspec a' b' axes aa ab Hp'
                  ltac:(rewrite <- (same_val_fsectors a a' Sa); exact NDa) (same_val_sectors_len a a' Sa La)
                  ltac:(rewrite <- (same_val_fsectors b b' Sb); exact NDb) (same_val_sectors_len b b' Sb Lb)
                  NDaa ltac:(rewrite <- Na; exact Haa) NDab ltac:(rewrite <- Nb; exact Hab)
                  (same_val_opposite a a' b b' aa ab Sa Sb Hd)) as E'.
    cbv zeta in E'. rewrite <- Na, <- Nb in E'. rewrite E'. unfold fermi_finish in *.
    rewrite <- (same_val_fparity a a' Sa), <- (sv_oddpos _ _ Sa), <- (sv_oddpos _ _ Sb).
    destruct (resolve_oddpos (fparity G R a) (foddpos G R a) (foddpos G R b)) as [[minus odd]|]; [|discriminate].
    injection E as E. eexists. split; [reflexivity|]. subst y.
    split; [destruct minus; reflexivity|]. split.
    - unfold fparity. f_equal.
      assert (Hm : forall (m : bool) (y0 : farr),
                charge G R (fbase G R (if m then f_phase_global G R y0 else y0)) = charge G R (fbase G R y0))
        by (intros [] ?; reflexivity).
      rewrite !Hm. cbn [fbase]. rewrite !(blockwise_charge G R). rewrite !charge_opA, !charge_opB.
      now rewrite (sv_charge _ _ Sa), (sv_charge _ _ Sb).
    - intros cs. unfold V. rewrite !(sem_finish G R NL cspec) by apply (tdot_blockwise_nodup G R cspec).
      f_equal. unfold sem, tdot_blockwise. cbn [blocks]. unfold tdot_pairs.
      now rewrite (same_val_opA true a a' _ aa Sa), (same_val_opB false b b' ab _ Sb).
  Qed.

  (* ---------- list facts about transposed operands ---------- *)
  Lemma without_permuted_tail {A} (d : A) (l : list A) la aa :
    without_axes (permuted d l (la ++ aa)) (seq (length la) (length aa)) = permuted d l la.
  Proof.
    rewrite (without_axes_take d). rewrite permuted_length, app_length.
    replace (length la) with (length la + length aa - length aa) at 2 by lia.
    rewrite rest_axes_tail by lia. replace (length la + length aa - length aa) with (length la) by lia.
    apply (take_permuted_mid_gen d l [] la aa).
  Qed.
  Lemma without_permuted_head {A} (d : A) (l : list A) ab rb :
    without_axes (permuted d l (ab ++ rb)) (seq 0 (length ab)) = permuted d l rb.
  Proof.
    rewrite (without_axes_take d). rewrite permuted_length, app_length.
    rewrite rest_axes_head by lia. replace (length ab + length rb - length ab) with (length rb) by lia.
    pose proof (take_permuted_mid_gen d l ab rb []) as H. rewrite app_nil_r in H. exact H.
  Qed.

  Lemma map_idual_prune ixs secs : map (idual G) (prune_indices G ixs secs) = map (idual G) ixs.
  Proof.
    unfold prune_indices. rewrite map_map.
    erewrite map_ext; [|intros p; apply (idual_drop G)].
    rewrite <- (map_map snd (idual G)). unfold enumerate. now rewrite Tdot.map_snd_combine by (now rewrite seq_length).
  Qed.

  (* ---------- a contractible pair ---------- *)
  Record pair_ok (a b : farr) (aa ab : list nat) : Prop := {
    po_nda : NoDup aa;
    po_lta : forall i, In i aa -> i < ndim G R (fbase G R a);
    po_ndb : NoDup ab;
    po_ltb : forall i, In i ab -> i < ndim G R (fbase G R b);
    po_len : length aa = length ab;
    po_dirs : opposite_dirs G R a b aa ab;
    po_tabs : map (chargemap G) (take_axes ix_d (indices G R (fbase G R a)) aa)
              = map (chargemap G) (take_axes ix_d (indices G R (fbase G R b)) ab) }.

  Definition naxes (aa ab : list nat) : nat + (list Z * list Z) := inr (map Z.of_nat aa, map Z.of_nat ab).
  Definition free_ixs (a b : farr) (aa ab : list nat) : list (index G) :=
    without_axes (indices G R (fbase G R a)) aa ++ without_axes (indices G R (fbase G R b)) ab.

  Lemma parse_naxes a b aa ab : pair_ok a b aa ab ->
    parse_axes (ndim G R (fbase G R a)) (ndim G R (fbase G R b)) (naxes aa ab) = Some (aa, ab).
  Proof.
    intros P. unfold naxes, parse_axes. rewrite !map_length, (po_len _ _ _ _ P), Nat.eqb_refl.
    now rewrite (norm_axes_of_nat _ aa (po_lta _ _ _ _ P)), (norm_axes_of_nat _ ab (po_ltb _ _ _ _ P)).
  Qed.

  Lemma opposite_dirs_sym a b aa ab : opposite_dirs G R a b aa ab -> opposite_dirs G R b a ab aa.
  Proof.
    unfold opposite_dirs. intros H. induction H as [|i j aa ab Hij H IH]; constructor; [|exact IH].
    rewrite Hij. now rewrite negb_involutive.
  Qed.
  Lemma pair_ok_sym a b aa ab : pair_ok a b aa ab -> pair_ok b a ab aa.
  Proof.
    intros [H1 H2 H3 H4 H5 H6 H7]. constructor; try assumption; [now symmetry|now apply opposite_dirs_sym|now symmetry].
  Qed.

  Lemma wff_opA a aa : wf_fermi G R a = true -> NoDup aa -> (forall i, In i aa -> i < ndim G R (fbase G R a)) ->
    wf_array G R (tdot_opA G R true a (rest_axes (ndim G R (fbase G R a)) aa) aa) = true.
  Proof.
    intros W ND Hlt.
    rewrite <- (tdot_opA_correct G R NL cspec a aa true (wff_nodup a W) (wff_len a W) ND Hlt).
    unfold f_value. apply wff_base. apply (f_phase_sync_wf G GL). apply (f_phase_flip_wf G GL).
    apply (f_transpose_wf G GL); [exact W|]. apply perm_rest_axes; assumption.
  Qed.
  Lemma wff_opB b ab : wf_fermi G R b = true -> NoDup ab -> (forall i, In i ab -> i < ndim G R (fbase G R b)) ->
    wf_array G R (tdot_opB G R false b ab (rest_axes (ndim G R (fbase G R b)) ab)) = true.
  Proof.
    intros W ND Hlt.
    rewrite <- (tdot_opB_correct G R NL cspec b ab (length ab) false (wff_nodup b W) (wff_len b W) ND Hlt eq_refl).
    unfold f_value. apply wff_base. apply (f_phase_sync_wf G GL). apply (f_phase_transpose_wf G GL).
    apply (f_transpose_wf G GL); [exact W|]. apply perm_axes_rest; assumption.
  Qed.

  (* ---------- the contraction of a contractible pair of wf arrays ---------- *)
  Lemma tdot_main a b aa ab :
    wf_fermi G R a = true -> wf_fermi G R b = true -> pair_ok a b aa ab ->
    distinct (foddpos G R a ++ foddpos G R b) ->
    exists y minus,
      f_tensordot G R a b (naxes aa ab) MBlockwise = Some y
      /\ resolve (foddpos G R a) (foddpos G R b) (fparity G R a) = Some (minus, foddpos G R y)
      /\ Permutation (foddpos G R y) (foddpos G R a ++ foddpos G R b)
      /\ wf_fermi G R (reindex y (free_ixs a b aa ab)) = true
      /\ map (idual G) (free_ixs a b aa ab) = map (idual G) (indices G R (fbase G R y))
      /\ fparity G R y = xorb (fparity G R a) (fparity G R b)
      /\ forall cl cr,
          coords_ok G (without_axes (indices G R (fbase G R a)) aa) cl = true ->
          coords_ok G (without_axes (indices G R (fbase G R b)) ab) cr = true ->
          V y (cl ++ cr)
          = rsg minus (rsum R (map (fun kc =>
              rmul R (rsg (sigma_a G R a aa (map fst (merge G (ndim G R (fbase G R a)) aa cl kc)))
                          (V a (merge G (ndim G R (fbase G R a)) aa cl kc)))
                     (rsg (sigma_b G R b ab (map fst (merge G (ndim G R (fbase G R b)) ab cr kc)))
                          (V b (merge G (ndim G R (fbase G R b)) ab cr kc))))
              (all_coords G (take_axes ix_d (indices G R (fbase G R a)) aa)))).
  Proof.
    intros Wa Wb P D. pose proof (parse_naxes a b aa ab P) as Hp. destruct P as [NDaa Haa NDab Hab Hlen Hd Htab].
    set (na := ndim G R (fbase G R a)) in *. set (nb := ndim G R (fbase G R b)) in *.
    destruct (resolve_distinct (foddpos G R a) (foddpos G R b) (fparity G R a) D) as [w [Hres [_ Hperm]]].
    set (minus := xorb (fparity G R a && Nat.odd (length (foddpos G R b)))
                       (Nat.odd (op_inv (foddpos G R a ++ foddpos G R b)))) in *.
    assert (Hres' : resolve_oddpos (fparity G R a) (foddpos G R a) (foddpos G R b) = Some (minus, w))
      by (rewrite resolve_oddpos_is_resolve; exact Hres).
    destruct (tensordot_blockwise_element G R NL cspec RL a b (naxes aa ab) aa ab minus w Hp
                (wff_blocks_ok a Wa) (wff_blocks_ok b Wb) NDaa Haa NDab Hab Hd (wff_ix_nodup a aa Wa) Htab Hres')
      as [y [Hy [Hodd Hsem]]].
    exists y, minus. split; [exact Hy|]. split; [rewrite Hodd; exact Hres|]. split; [rewrite Hodd; exact Hperm|].
    pose proof (tensordot_blockwise_value G R NL cspec a b (naxes aa ab) aa ab Hp (wff_nodup a Wa) (wff_len a Wa)
                  (wff_nodup b Wb) (wff_len b Wb) NDaa Haa NDab Hab Hd) as Hv.
    cbv zeta in Hv. fold na nb in Hv. rewrite Hy in Hv. unfold fermi_finish in Hv. rewrite Hres' in Hv.
    injection Hv as Hv.
    set (la := rest_axes na aa) in *. set (rb := rest_axes nb ab) in *. set (ncon := length aa) in *.
    set (A' := tdot_opA G R true a la aa) in *. set (B' := tdot_opB G R false b ab rb) in *.
    pose proof (length_rest_axes na aa NDaa Haa) as Lla. fold la ncon in Lla.
    pose proof (length_rest_axes nb ab NDab Hab) as Lrb. fold rb in Lrb. rewrite <- Hlen in Lrb. fold ncon in Lrb.
    assert (Hna : ncon <= na).
    { pose proof (Permutation_length (perm_rest_axes na aa NDaa Haa)) as H. rewrite app_length, seq_length in H. unfold ncon. lia. }
    assert (Hnb : ncon <= nb).
    { pose proof (Permutation_length (perm_axes_rest nb ab NDab Hab)) as H. rewrite app_length, seq_length in H. unfold ncon. lia. }
    assert (NA : ndim G R A' = na).
    { unfold ndim, A'. rewrite indices_opA, permuted_length, app_length. fold ncon. lia. }
    assert (NB : ndim G R B' = nb).
    { unfold ndim, B'. rewrite indices_opB, permuted_length, app_length. rewrite <- Hlen. fold ncon. lia. }
    assert (WA : without_axes (indices G R A') (seq (na - ncon) ncon) = without_axes (indices G R (fbase G R a)) aa).
    { unfold A'. rewrite indices_opA. replace (na - ncon) with (length la) by lia. unfold ncon.
      rewrite without_permuted_tail. rewrite (without_axes_take ix_d). reflexivity. }
    assert (WB : without_axes (indices G R B') (seq 0 ncon) = without_axes (indices G R (fbase G R b)) ab).
    { unfold B'. rewrite indices_opB. rewrite Hlen.
      rewrite without_permuted_head. rewrite (without_axes_take ix_d). reflexivity. }
    set (Cc := tdot_blockwise G R A' B' (rest_axes na (seq (na - ncon) ncon)) (seq (na - ncon) ncon)
                 (seq 0 ncon) (rest_axes nb (seq 0 ncon))) in *.
    set (y0 := mkF G R Cc [] w) in *.
    assert (Hq : parity G (charge G R Cc) = xorb (fparity G R a) (fparity G R b)).
    { unfold Cc. rewrite (blockwise_charge G R). unfold A', B'. rewrite charge_opA, charge_opB.
      apply (parity_gadd G GL).
      - pose proof (proj1 (wf_array_iff G GL R _) (wff_base a Wa)) as H. apply (wf_q _ _ _ _ _ H).
      - pose proof (proj1 (wf_array_iff G GL R _) (wff_base b Wb)) as H. apply (wf_q _ _ _ _ _ H). }
    assert (W0 : wf_fermi G R (reindex y0 (free_ixs a b aa ab)) = true).
    { unfold wf_fermi, reindex, y0. cbn [fbase fphases foddpos indices charge blocks nodupb forallb andb].
      apply andb_true_iff. split.
      - rewrite andb_true_r.
        pose proof (tdot_unpruned_wf A' B' (seq (na - ncon) ncon) (seq 0 ncon)
                      (wff_opA a aa Wa NDaa Haa) (wff_opB b ab Wb NDab Hab)
                      (seq_NoDup _ _) ltac:(intros i Hi; apply in_seq in Hi; rewrite NA; lia)
                      (seq_NoDup _ _) ltac:(intros i Hi; apply in_seq in Hi; rewrite NB; lia)
                      ltac:(now rewrite !seq_length)) as HW.
        rewrite NA, NB, WA, WB in HW. apply HW. clear HW.
        rewrite seq_length. intros k Hk. rewrite !seq_nth by exact Hk. cbn [Nat.add].
        unfold A', B'. rewrite indices_opA, indices_opB. unfold permuted.
        rewrite (map_nth_lt _ _ 0) by (rewrite app_length; fold ncon; lia).
        rewrite (map_nth_lt _ _ 0) by (rewrite app_length, <- Hlen; fold ncon; lia).
        rewrite app_nth2 by lia. replace (na - ncon + k - length la) with k by lia.
        rewrite app_nth1 by (rewrite <- Hlen; exact Hk).
        apply (Forall2_nth_P _ aa ab 0 0 k Hd Hk).
      - apply eqb_true_iff. unfold fparity. cbn [fbase charge]. rewrite Hq.
        change (@length fop w) with (@length op w).
        rewrite (Permutation_length Hperm), app_length, Nat.odd_add.
        change (@length op (foddpos G R a)) with (@length fop (foddpos G R a)).
        change (@length op (foddpos G R b)) with (@length fop (foddpos G R b)).
        rewrite (wff_par a Wa), (wff_par b Wb). reflexivity. }
    split.
    { subst y. destruct minus; [|exact W0].
      change (reindex (f_phase_global G R y0) (free_ixs a b aa ab)) with (f_phase_global G R (reindex y0 (free_ixs a b aa ab))).
      apply (f_phase_global_wf G GL). exact W0. }
    split.
    { assert (E : indices G R (fbase G R y) = indices G R Cc) by (subst y; destruct minus; reflexivity).
      rewrite E. unfold Cc, tdot_blockwise. cbn [indices]. rewrite map_idual_prune, WA, WB. reflexivity. }
    split.
    { assert (E : charge G R (fbase G R y) = charge G R Cc) by (subst y; destruct minus; reflexivity).
      unfold fparity at 1. rewrite E. exact Hq. }
    intros cl cr Hcl Hcr. apply (Hsem cl cr Hcl Hcr).
  Qed.

  (* ---------- the value of a fermionic transpose ---------- *)
  Lemma V_transpose x p cs :
    wf_fermi G R x = true -> Permutation p (seq 0 (ndim G R (fbase G R x))) ->
    coords_ok G (indices G R (fbase G R x)) cs = true ->
    V (f_transpose G R x p true) (permuted dcoord cs p) = rsg (wsg (odd_at G (map fst cs)) p) (V x cs).
  Proof.
    intros W HP Hc. unfold V.
    rewrite (f_value_signed G R NL x (f_transpose G R x p true) p
               (fun s => inv_parity (par_of G s) (map Z.of_nat p)) eq_refl).
    2:{ intros s Hs. apply (ph_has_transpose G R cspec x p s (wff_nodup x W) (wff_len x W) HP Hs). }
    rewrite (sem_signed_transpose G R NL cspec (f_value G R x) p _ cs
               (blocks_ok_f_value G R x (wff_blocks_ok x W)) HP Hc).
    f_equal. apply inv_parity_wsg. intros i Hi. rewrite map_length.
    pose proof (Tdot.coords_ok_length G _ _ Hc) as Lc. unfold coord in *.
    apply (Permutation_in _ HP), in_seq in Hi. unfold ndim in Hi. lia.
  Qed.

  Lemma SS_seq s n : StronglySorted lt (seq s n).
  Proof.
    revert s. induction n as [|n IH]; intros s; cbn [seq]; constructor; [apply IH|].
    apply Forall_forall. intros y Hy. apply in_seq in Hy. lia.
  Qed.

  Lemma take_app_l {A} (d : A) (u v : list A) : take_axes d (u ++ v) (seq 0 (length u)) = u.
  Proof. apply (map_nth_mid d [] u v). Qed.
  Lemma take_app_r {A} (d : A) (u v : list A) : take_axes d (u ++ v) (seq (length u) (length v)) = v.
  Proof. pose proof (map_nth_mid d u v []) as H. rewrite app_nil_r in H. exact H. Qed.
  Lemma permuted_swap {A} (d : A) (u v : list A) :
    permuted d (u ++ v) (seq (length u) (length v) ++ seq 0 (length u)) = v ++ u.
  Proof.
    rewrite permuted_app. f_equal; [apply (take_app_r d u v) | apply (take_app_l d u v)].
  Qed.
  Lemma perm_swap_seq n m : Permutation (seq n m ++ seq 0 n) (seq 0 (n + m)).
  Proof. rewrite seq_app. apply Permutation_app_comm. Qed.

  (* moving the second block of legs in front of the first *)
  Lemma wsg_swap_blocks (u v : sector) :
    wsg (odd_at G (u ++ v)) (seq (length u) (length v) ++ seq 0 (length u)) = spar G u && spar G v.
  Proof.
    rewrite wsg_app, !wsg_sorted by apply SS_seq.
    rewrite wcr_comm by (intros x y Hx Hy; apply in_seq in Hx; apply in_seq in Hy; lia).
    rewrite wcr_before by (intros x y Hx Hy; apply in_seq in Hx; apply in_seq in Hy; lia).
    rewrite !wpar_spar, take_app_l, take_app_r. now destruct (spar G u), (spar G v).
  Qed.

  (* ---------- the sectors of a merged coordinate ---------- *)
  Lemma merge_take_axes n axes (cl kc : list (coord G)) :
    NoDup axes -> (forall i, In i axes -> i < n) -> length kc = length axes ->
    take_axes ch_d (map fst (merge G n axes cl kc)) axes = map fst kc.
  Proof.
    intros ND Hlt Lk. unfold merge. rewrite map_scatterA. cbn [fst].
    apply take_scatterA_axes; [exact ND|exact Hlt|now rewrite map_length].
  Qed.
  Lemma merge_take_rest n axes (cl kc : list (coord G)) :
    length cl = length (rest_axes n axes) ->
    take_axes ch_d (map fst (merge G n axes cl kc)) (rest_axes n axes) = map fst cl.
  Proof.
    intros Lc. unfold merge. rewrite map_scatterA. cbn [fst].
    apply take_scatterA_rest. now rewrite map_length.
  Qed.
  Lemma merge_length n axes (cl kc : list (coord G)) : length (merge G n axes cl kc) = n.
  Proof. unfold merge, scatterA. apply length_scatterA_go. Qed.

  (* each odd contracted index is a ket on exactly one side *)
  Lemma ketbra_split a aa (s : sector) :
    xorb (ketbra_a G R a aa s) (ketbra_b G R a aa s) = wpar (odd_at G s) aa.
  Proof.
    unfold ketbra_a, ketbra_b. rewrite <- count_odd_app, <- count_odd_wpar. apply count_odd_perm.
    apply (filter_split_perm (fun ax => idual G (nth ax (indices G R (fbase G R a)) ix_d)) aa).
  Qed.

  Lemma rest_axes_disjoint n axes x : In x (rest_axes n axes) -> ~ In x axes.
  Proof.
    unfold rest_axes. intros H Hx. apply filter_In in H. destruct H as [_ H].
    apply (FermiProofs.memN_In x axes) in Hx. rewrite Hx in H. discriminate.
  Qed.

  (* ================================================================ part 5 *)
  (* operand exchange: the sign identity for one pair of aligned sectors *)
  Lemma swap_sign a b aa ab (sa sb : sector) (m1 m2 : bool) :
    wf_fermi G R a = true -> wf_fermi G R b = true -> pair_ok a b aa ab ->
    In sa (fsectors G R a) -> In sb (fsectors G R b) ->
    take_axes ch_d sa aa = take_axes ch_d sb ab ->
    xorb m1 m2 = fparity G R a && fparity G R b ->
    xorb m2 (xorb (sigma_a G R b ab sb) (sigma_b G R a aa sa))
    = xorb (spar G (take_axes ch_d sa (rest_axes (ndim G R (fbase G R a)) aa))
            && spar G (take_axes ch_d sb (rest_axes (ndim G R (fbase G R b)) ab)))
           (xorb m1 (xorb (sigma_a G R a aa sa) (sigma_b G R b ab sb))).
  Proof.
    intros Wa Wb P Sa Sb Hal Hm. destruct P as [NDaa Haa NDab Hab Hlen Hd Htab].
    set (na := ndim G R (fbase G R a)) in *. set (nb := ndim G R (fbase G R b)) in *.
    set (la := rest_axes na aa). set (rb := rest_axes nb ab).
    pose proof (wff_len a Wa sa Sa) as La. pose proof (wff_len b Wb sb Sb) as Lb. fold na in La. fold nb in Lb.
    pose proof (perm_rest_axes na aa NDaa Haa) as PA. fold la in PA.
    pose proof (perm_axes_rest nb ab NDab Hab) as PB. fold rb in PB.
    assert (IA : forall i, In i (la ++ aa) -> i < length sa).
    { intros i Hi. apply (Permutation_in _ PA), in_seq in Hi. lia. }
    assert (IB : forall i, In i (ab ++ rb) -> i < length sb).
    { intros i Hi. apply (Permutation_in _ PB), in_seq in Hi. lia. }
    unfold sigma_a, sigma_b. fold na nb la rb.
    rewrite (inv_parity_wsg G sa (la ++ aa) IA).
    rewrite (inv_parity_wsg G sb (rev ab ++ rb))
      by (intros i Hi; apply IB; apply in_app_iff in Hi; apply in_app_iff; destruct Hi as [Hi|Hi]; [left; now apply in_rev|now right]).
    rewrite (inv_parity_wsg G sb (rb ++ ab))
      by (intros i Hi; apply IB; apply in_app_iff in Hi; apply in_app_iff; tauto).
    rewrite (inv_parity_wsg G sa (rev aa ++ la))
      by (intros i Hi; apply IA; apply in_app_iff in Hi; apply in_app_iff; destruct Hi as [Hi|Hi]; [right; now apply in_rev|now left]).
    set (pa := odd_at G sa). set (pb := odd_at G sb).
    rewrite !wsg_app. rewrite (wsg_rev pb ab NDab), (wsg_rev pa aa NDaa).
    rewrite (wcr_perm_l pb (rev ab) ab rb), (wcr_perm_l pa (rev aa) aa la) by (symmetry; apply Permutation_rev).
    rewrite (wcr_comm pb rb ab) by (intros x y Hx Hy E; subst; exact (rest_axes_disjoint nb ab y Hx Hy)).
    rewrite (wcr_comm pa aa la) by (intros x y Hx Hy E; subst; exact (rest_axes_disjoint na aa y Hy Hx)).
    unfold pa, pb. rewrite <- (aligned_nodd G sa sb aa ab Hal). fold pa pb.
    assert (Ek : ketbra_a G R b ab sb = xorb (ketbra_a G R a aa sa) (wpar pa aa)).
    { rewrite (ketbra_aligned G R b a ab aa sb sa (opposite_dirs_sym a b aa ab Hd) (eq_sym Hal)).
      unfold pa. rewrite <- (ketbra_split a aa sa). now destruct (ketbra_a G R a aa sa), (ketbra_b G R a aa sa). }
    rewrite Ek.
    pose proof (wff_sector_par a sa (la ++ aa) Wa Sa PA) as Epa. rewrite wpar_app in Epa.
    pose proof (wff_sector_par b sb (ab ++ rb) Wb Sb PB) as Epb. rewrite wpar_app in Epb.
    rewrite <- !wpar_spar. fold pa pb. fold pa in Epa. fold pb in Epb.
    assert (Ec : wpar pb ab = wpar pa aa) by (symmetry; apply (aligned_wpar G sa sb aa ab Hal)).
    rewrite Ec in *.
    assert (Hm2 : m2 = xorb m1 (fparity G R a && fparity G R b)) by (rewrite <- Hm; now destruct m1, m2).
    rewrite Hm2, <- Epa, <- Epb.
    generalize (wsg pa la) (wsg pa aa) (wcr pa la aa) (wsg pb rb) (wsg pb ab) (wcr pb ab rb)
               (tri (nodd pa aa)) (ketbra_a G R a aa sa) (wpar pa la) (wpar pb rb) (wpar pa aa).
    intros b1 b2 b3 b4 b5 b6 b7 b8 b9 b10 b11.
    destruct m1, b1, b2, b3, b4, b5, b6, b7, b8, b9, b10, b11; reflexivity.
  Qed.

  Lemma distinct_comm (u v : list op) : distinct (u ++ v) -> distinct (v ++ u).
  Proof. apply distinct_perm, Permutation_app_comm. Qed.

  Lemma free_ixs_length a b aa ab : pair_ok a b aa ab ->
    length (without_axes (indices G R (fbase G R a)) aa) = ndim G R (fbase G R a) - length aa
    /\ length (without_axes (indices G R (fbase G R b)) ab) = ndim G R (fbase G R b) - length ab.
  Proof.
    intros P. rewrite !(without_axes_take ix_d), !(length_take_axes ix_d). split.
    - apply (length_rest_axes _ aa (po_nda _ _ _ _ P) (po_lta _ _ _ _ P)).
    - apply (length_rest_axes _ ab (po_ndb _ _ _ _ P) (po_ltb _ _ _ _ P)).
  Qed.

  Context (CL : CommLaws R).

  (* swap_operands: b.a is a.b with b's free legs moved in front of a's free
     legs by the fermionic transpose *)
  Theorem swap_operands a b aa ab :
    wf_fermi G R a = true -> wf_fermi G R b = true -> pair_ok a b aa ab ->
    distinct (foddpos G R a ++ foddpos G R b) ->
    exists y1 y2,
      f_tensordot G R a b (naxes aa ab) MBlockwise = Some y1
      /\ f_tensordot G R b a (naxes ab aa) MBlockwise = Some y2
      /\ let nl := ndim G R (fbase G R a) - length aa in
         let nr := ndim G R (fbase G R b) - length ab in
         let t := f_transpose G R y1 (seq nl nr ++ seq 0 nl) true in
         foddpos G R y2 = foddpos G R t
         /\ forall cl cr,
              coords_ok G (without_axes (indices G R (fbase G R a)) aa) cl = true ->
              coords_ok G (without_axes (indices G R (fbase G R b)) ab) cr = true ->
              V y2 (cr ++ cl) = V t (cr ++ cl).
  Proof.
    intros Wa Wb P D.
    destruct (tdot_main a b aa ab Wa Wb P D) as [y1 [m1 (E1 & R1 & _ & W1 & D1 & _ & S1)]].
    destruct (tdot_main b a ab aa Wb Wa (pair_ok_sym a b aa ab P) (distinct_comm _ _ D))
      as [y2 [m2 (E2 & R2 & _ & _ & _ & _ & S2)]].
    exists y1, y2. split; [exact E1|]. split; [exact E2|]. cbv zeta.
    destruct (resolve_swap (foddpos G R a) (foddpos G R b) (fparity G R a) (fparity G R b) D)
      as [s [t [w (Q1 & Q2 & Q3)]]].
    rewrite R1 in Q1. rewrite R2 in Q2. injection Q1 as Q1 Q1'. injection Q2 as Q2 Q2'. subst s t.
    split; [cbn [f_transpose foddpos]; congruence|].
    assert (Hm : xorb m1 m2 = fparity G R a && fparity G R b).
    { rewrite Q3.
      change (@length op (foddpos G R a)) with (@length fop (foddpos G R a)).
      change (@length op (foddpos G R b)) with (@length fop (foddpos G R b)).
      rewrite (wff_par a Wa), (wff_par b Wb). now destruct (fparity G R a), (fparity G R b). }
    intros cl cr Hcl Hcr.
    destruct (free_ixs_length a b aa ab P) as [Ll Lr].
    pose proof (Tdot.coords_ok_length G _ _ Hcl) as Lcl. pose proof (Tdot.coords_ok_length G _ _ Hcr) as Lcr.
    rewrite Ll in Lcl. rewrite Lr in Lcr.
    set (nl := ndim G R (fbase G R a) - length aa) in *. set (nr := ndim G R (fbase G R b) - length ab) in *.
    set (y1' := reindex y1 (free_ixs a b aa ab)).
    pose proof (same_val_reindex y1 (free_ixs a b aa ab) D1) as SV. fold y1' in SV.
    rewrite <- (same_val_V _ _ (same_val_transpose y1' y1 (seq nl nr ++ seq 0 nl) SV)).
    assert (Ep : cr ++ cl = permuted dcoord (cl ++ cr) (seq nl nr ++ seq 0 nl)).
    { rewrite <- Lcl, <- Lcr. symmetry. apply permuted_swap. }
    rewrite Ep at 2.
    rewrite (V_transpose y1' (seq nl nr ++ seq 0 nl) (cl ++ cr) W1).
    2:{ unfold y1', reindex, ndim. cbn [fbase indices]. unfold free_ixs. rewrite app_length, Ll, Lr. fold nl nr.
        apply perm_swap_seq. }
    2:{ unfold y1', reindex. cbn [fbase indices]. apply coords_ok_app; assumption. }
    rewrite (same_val_V y1' y1 SV).
    rewrite (S1 cl cr Hcl Hcr), (S2 cr cl Hcr Hcl).
    rewrite <- (all_coords_agree G _ _ (po_tabs _ _ _ _ P)).
    rewrite !rsgn_rsum. apply (Tdot.rsum_ext R). intros kc Hkc.
    pose proof (In_all_coords G cspec _ kc (wff_ix_nodup a aa Wa) Hkc) as Hk.
    pose proof (Tdot.coords_ok_length G _ _ Hk) as Lk. rewrite (length_take_axes ix_d) in Lk.
    set (na := ndim G R (fbase G R a)) in *. set (nb := ndim G R (fbase G R b)) in *.
    set (A := merge G na aa cl kc). set (B := merge G nb ab cr kc).
    rewrite !rmul_rsgn, !rsgn_rsgn, (rmul_comm R CL (V b B) (V a A)).
    destruct (V_zero_or a A) as [Za|Sa]; [rewrite Za, (rmul_0_l R RL), !rsgn_r0; reflexivity|].
    destruct (V_zero_or b B) as [Zb|Sb]; [rewrite Zb, (rmul_0_r R RL), !rsgn_r0; reflexivity|].
    f_equal.
    pose proof (po_nda _ _ _ _ P) as NDaa. pose proof (po_lta _ _ _ _ P) as Haa.
    pose proof (po_ndb _ _ _ _ P) as NDab. pose proof (po_ltb _ _ _ _ P) as Hab.
    pose proof (po_len _ _ _ _ P) as Hlen.
    assert (Hal : take_axes ch_d (map fst A) aa = take_axes ch_d (map fst B) ab).
    { unfold A, B. rewrite (merge_take_axes na aa cl kc NDaa Haa Lk).
      rewrite (merge_take_axes nb ab cr kc NDab Hab) by congruence. reflexivity. }
    assert (Tl : take_axes ch_d (map fst A) (rest_axes na aa) = map fst cl).
    { unfold A. apply merge_take_rest. rewrite (length_rest_axes na aa NDaa Haa). exact Lcl. }
    assert (Tr : take_axes ch_d (map fst B) (rest_axes nb ab) = map fst cr).
    { unfold B. apply merge_take_rest. rewrite (length_rest_axes nb ab NDab Hab). exact Lcr. }
    rewrite (swap_sign a b aa ab (map fst A) (map fst B) m1 m2 Wa Wb P Sa Sb Hal Hm).
    fold na nb. rewrite Tl, Tr.
    assert (El : length (map fst cl) = nl) by (rewrite map_length; exact Lcl).
    assert (Er : length (map fst cr) = nr) by (rewrite map_length; exact Lcr).
    rewrite <- El, <- Er, map_app, wsg_swap_blocks.
    symmetry. apply xorb_assoc.
  Qed.

  (* ================================================================ part 6 *)
  (* the order in which the contracted axis pairs are listed *)
  Lemma rest_axes_perm n aa aa' : Permutation aa aa' -> rest_axes n aa = rest_axes n aa'.
  Proof.
    intros H. unfold rest_axes. apply filter_ext. intros i. f_equal.
    destruct (mem Nat.eqb i aa) eqn:E1, (mem Nat.eqb i aa') eqn:E2; try reflexivity.
    - apply FermiProofs.memN_In in E1. apply (Permutation_in _ H), FermiProofs.memN_In in E1. congruence.
    - apply FermiProofs.memN_In in E2. apply (Permutation_in _ (Permutation_sym H)), FermiProofs.memN_In in E2. congruence.
  Qed.

  Lemma take_permuted {A} (d : A) (M : list A) aa p :
    (forall i, In i p -> i < length aa) ->
    take_axes d M (permuted 0 aa p) = permuted d (take_axes d M aa) p.
  Proof.
    intros H. unfold take_axes, permuted. rewrite map_map. apply map_ext_in. intros i Hi.
    now rewrite (map_nth_lt _ _ 0) by (apply H, Hi).
  Qed.

  Lemma perm_lt p k : Permutation p (seq 0 k) -> forall i, In i p -> i < k.
  Proof. intros H i Hi. apply (Permutation_in _ H), in_seq in Hi. lia. Qed.

  Lemma pair_ok_permuted a b aa ab p : pair_ok a b aa ab -> Permutation p (seq 0 (length aa)) ->
    pair_ok a b (permuted 0 aa p) (permuted 0 ab p).
  Proof.
    intros [NDaa Haa NDab Hab Hlen Hd Htab] HP.
    pose proof (permuted_Permutation 0 aa p HP) as Pa.
    assert (HP' : Permutation p (seq 0 (length ab))) by (rewrite <- Hlen; exact HP).
    pose proof (permuted_Permutation 0 ab p HP') as Pb.
    constructor.
    - apply (Permutation_NoDup (Permutation_sym Pa) NDaa).
    - intros i Hi. apply Haa, (Permutation_in _ Pa), Hi.
    - apply (Permutation_NoDup (Permutation_sym Pb) NDab).
    - intros i Hi. apply Hab, (Permutation_in _ Pb), Hi.
    - now rewrite !permuted_length.
    - unfold opposite_dirs, permuted. apply Tdot.Forall2_map_same. intros i Hi.
      apply (Forall2_nth_P _ aa ab 0 0 i Hd). apply (perm_lt p _ HP i Hi).
    - rewrite (take_permuted ix_d _ aa p (perm_lt p _ HP)), (take_permuted ix_d _ ab p (perm_lt p _ HP')).
      rewrite (permuted_map (chargemap G) ix_d (take_axes ix_d (indices G R (fbase G R a)) aa) p).
      rewrite (permuted_map (chargemap G) ix_d (take_axes ix_d (indices G R (fbase G R b)) ab) p).
      now rewrite Htab.
  Qed.

  Lemma merge_permuted_axes n aa p (cl kc : list (coord G)) :
    NoDup aa -> (forall i, In i aa -> i < n) -> Permutation p (seq 0 (length aa)) ->
    length kc = length aa -> length cl = length (rest_axes n aa) ->
    merge G n (permuted 0 aa p) cl (permuted dcoord kc p) = merge G n aa cl kc.
  Proof.
    intros ND Hlt HP Lk Lc. pose proof (permuted_Permutation 0 aa p HP) as Pa.
    unfold merge.
    apply (proj2 (scatterA_eq_iff dcoord n (permuted 0 aa p) (permuted dcoord kc p) cl (scatterA dcoord n aa kc cl)
                    (Permutation_NoDup (Permutation_sym Pa) ND)
                    ltac:(intros i Hi; apply Hlt, (Permutation_in _ Pa), Hi)
                    ltac:(now rewrite !permuted_length)
                    ltac:(rewrite (rest_axes_perm n _ aa Pa); exact Lc)
                    ltac:(unfold scatterA; apply length_scatterA_go))).
    split.
    - rewrite (take_permuted dcoord _ aa p (perm_lt p _ HP)). f_equal. symmetry.
      apply take_scatterA_axes; assumption.
    - rewrite (rest_axes_perm n _ aa Pa). symmetry. apply take_scatterA_rest. exact Lc.
  Qed.

  Lemma count_odd_filter_perm (s : sector) (f : nat -> bool) l l' :
    Permutation l l' -> count_odd G s (filter f l) = count_odd G s (filter f l').
  Proof.
    intros H. unfold count_odd. f_equal. rewrite !filter_filter.
    apply (countb_perm (fun x => f x && odd_at G s x) l l' H).
  Qed.

  (* re-listing a word: the sign changes by the inversion parity of the
     re-listing among the odd positions -- a function of the parities only *)
  Lemma listing_key (pa pb : nat -> bool) aa ab p :
    NoDup aa -> NoDup ab -> length aa = length ab -> Permutation p (seq 0 (length aa)) ->
    (forall i, i < length aa -> pa (nth i aa 0) = pb (nth i ab 0)) ->
    xorb (wsg pa (permuted 0 aa p)) (wsg pa aa) = xorb (wsg pb (permuted 0 ab p)) (wsg pb ab).
  Proof.
    intros NDa NDb Hlen HP Hal.
    assert (K : forall (q : nat -> bool) (w : list nat), NoDup w -> Permutation p (seq 0 (length w)) ->
              xorb (wsg q (permuted 0 w p)) (wsg q w)
              = xorb (winv (fun i => q (nth i w 0)) (fun i : nat => i) p)
                     (winv (fun i => q (nth i w 0)) (fun i : nat => i) (seq 0 (length w)))).
    { intros q w ND HPw. unfold wsg, permuted.
      replace (winv q (fun i : nat => i) w)
        with (winv q (fun i : nat => i) (map (fun j => nth j w 0) (seq 0 (length w))))
        by (now rewrite StructProofs.map_nth_seq).
      rewrite !winv_map.
      apply winv_diff_canon; [exact HPw| |intros x y _ _ E; exact E].
      intros x y Hx Hy E. apply (proj1 (NoDup_nth w 0) ND); [apply (perm_lt p _ HPw x Hx)|apply (perm_lt p _ HPw y Hy)|exact E]. }
    rewrite (K pa aa NDa HP), (K pb ab NDb ltac:(rewrite <- Hlen; exact HP)). rewrite <- Hlen.
    f_equal; apply winv_ext_in; intros i Hi; apply Hal.
    - apply (perm_lt p _ HP i Hi).
    - apply in_seq in Hi. lia.
  Qed.

  Lemma listing_sign a b aa ab p (sa sb : sector) :
    pair_ok a b aa ab -> Permutation p (seq 0 (length aa)) ->
    length sa = ndim G R (fbase G R a) -> length sb = ndim G R (fbase G R b) ->
    take_axes ch_d sa aa = take_axes ch_d sb ab ->
    xorb (sigma_a G R a (permuted 0 aa p) sa) (sigma_b G R b (permuted 0 ab p) sb)
    = xorb (sigma_a G R a aa sa) (sigma_b G R b ab sb).
  Proof.
    intros P HP La Lb Hal. pose proof (pair_ok_permuted a b aa ab p P HP) as P'.
    destruct P as [NDaa Haa NDab Hab Hlen Hd Htab]. destruct P' as [NDaa' Haa' NDab' Hab' _ _ _].
    set (na := ndim G R (fbase G R a)) in *. set (nb := ndim G R (fbase G R b)) in *.
    pose proof (permuted_Permutation 0 aa p HP) as Pa.
    pose proof (permuted_Permutation 0 ab p ltac:(rewrite <- Hlen; exact HP)) as Pb.
    set (aa' := permuted 0 aa p) in *. set (ab' := permuted 0 ab p) in *.
    unfold sigma_a, sigma_b. fold na nb.
    rewrite (rest_axes_perm na aa' aa Pa), (rest_axes_perm nb ab' ab Pb).
    set (la := rest_axes na aa). set (rb := rest_axes nb ab).
    pose proof (perm_rest_axes na aa NDaa Haa) as PA. fold la in PA.
    pose proof (perm_axes_rest nb ab NDab Hab) as PB. fold rb in PB.
    assert (IA : forall i, In i (la ++ aa) -> i < length sa) by (intros i Hi; rewrite La; apply (perm_lt _ _ PA i Hi)).
    assert (IB : forall i, In i (ab ++ rb) -> i < length sb) by (intros i Hi; rewrite Lb; apply (perm_lt _ _ PB i Hi)).
    rewrite (inv_parity_wsg G sa (la ++ aa) IA).
    rewrite (inv_parity_wsg G sa (la ++ aa'))
      by (intros i Hi; apply IA; apply in_app_iff in Hi; apply in_app_iff; destruct Hi as [Hi|Hi]; [now left|right; apply (Permutation_in _ Pa), Hi]).
    rewrite (inv_parity_wsg G sb (rev ab ++ rb))
      by (intros i Hi; apply IB; apply in_app_iff in Hi; apply in_app_iff; destruct Hi as [Hi|Hi]; [left; now apply in_rev|now right]).
    rewrite (inv_parity_wsg G sb (rev ab' ++ rb))
      by (intros i Hi; apply IB; apply in_app_iff in Hi; apply in_app_iff; destruct Hi as [Hi|Hi];
          [left; apply (Permutation_in _ Pb); now apply in_rev|now right]).
    set (pa := odd_at G sa). set (pb := odd_at G sb).
    rewrite !wsg_app, (wsg_rev pb ab NDab), (wsg_rev pb ab' NDab').
    rewrite (wcr_perm_r pa la aa' aa Pa).
    rewrite (wcr_perm_l pb (rev ab') ab rb) by (rewrite <- Pb; symmetry; apply Permutation_rev).
    rewrite (wcr_perm_l pb (rev ab) ab rb) by (symmetry; apply Permutation_rev).
    unfold nodd. rewrite (countb_perm pb ab' ab Pb). fold (nodd pb ab).
    assert (Ek : ketbra_a G R a aa' sa = ketbra_a G R a aa sa) by (unfold ketbra_a; apply count_odd_filter_perm, Pa).
    rewrite Ek.
    assert (Hkey : xorb (wsg pa aa') (wsg pa aa) = xorb (wsg pb ab') (wsg pb ab)).
    { apply (listing_key pa pb aa ab p NDaa NDab Hlen HP). intros i Hi. unfold pa, pb, odd_at. f_equal.
      pose proof (f_equal (fun l => nth i l ch_d) Hal) as E. cbn beta in E. unfold take_axes in E.
      rewrite !(map_nth_lt _ _ 0) in E by lia. exact E. }
    revert Hkey.
    generalize (wsg pa aa') (wsg pa aa) (wsg pb ab') (wsg pb ab) (wsg pa la) (wcr pa la aa) (ketbra_a G R a aa sa)
               (tri (nodd pb ab)) (wsg pb rb) (wcr pb ab rb).
    intros b1 b2 b3 b4 b5 b6 b7 b8 b9 b10.
    destruct b1, b2, b3, b4, b5, b6, b7, b8, b9, b10; cbn; congruence.
  Qed.

  (* axis_listing: listing the contracted axis pairs in another order changes nothing *)
  Theorem axis_listing a b aa ab p :
    wf_fermi G R a = true -> wf_fermi G R b = true -> pair_ok a b aa ab ->
    distinct (foddpos G R a ++ foddpos G R b) -> Permutation p (seq 0 (length aa)) ->
    exists y y',
      f_tensordot G R a b (naxes aa ab) MBlockwise = Some y
      /\ f_tensordot G R a b (naxes (permuted 0 aa p) (permuted 0 ab p)) MBlockwise = Some y'
      /\ foddpos G R y' = foddpos G R y
      /\ forall cl cr,
           coords_ok G (without_axes (indices G R (fbase G R a)) aa) cl = true ->
           coords_ok G (without_axes (indices G R (fbase G R b)) ab) cr = true ->
           V y' (cl ++ cr) = V y (cl ++ cr).
  Proof.
    intros Wa Wb P D HP. pose proof (pair_ok_permuted a b aa ab p P HP) as P'.
    destruct (tdot_main a b aa ab Wa Wb P D) as [y [m (E1 & R1 & _ & _ & _ & _ & S1)]].
    destruct (tdot_main a b _ _ Wa Wb P' D) as [y' [m' (E2 & R2 & _ & _ & _ & _ & S2)]].
    exists y, y'. split; [exact E1|]. split; [exact E2|].
    rewrite R1 in R2. injection R2 as Em El. subst m'. split; [now symmetry|].
    intros cl cr Hcl Hcr.
    pose proof (po_nda _ _ _ _ P) as NDaa. pose proof (po_lta _ _ _ _ P) as Haa.
    pose proof (po_ndb _ _ _ _ P) as NDab. pose proof (po_ltb _ _ _ _ P) as Hab.
    pose proof (po_len _ _ _ _ P) as Hlen.
    pose proof (permuted_Permutation 0 aa p HP) as Pa.
    pose proof (permuted_Permutation 0 ab p ltac:(rewrite <- Hlen; exact HP)) as Pb.
    set (na := ndim G R (fbase G R a)) in *. set (nb := ndim G R (fbase G R b)) in *.
    assert (Wl : without_axes (indices G R (fbase G R a)) (permuted 0 aa p) = without_axes (indices G R (fbase G R a)) aa).
    { rewrite !(without_axes_take ix_d). now rewrite (rest_axes_perm _ _ aa Pa). }
    assert (Wr : without_axes (indices G R (fbase G R b)) (permuted 0 ab p) = without_axes (indices G R (fbase G R b)) ab).
    { rewrite !(without_axes_take ix_d). now rewrite (rest_axes_perm _ _ ab Pb). }
    rewrite (S1 cl cr Hcl Hcr). rewrite (S2 cl cr ltac:(rewrite Wl; exact Hcl) ltac:(rewrite Wr; exact Hcr)).
    f_equal.
    rewrite (take_permuted ix_d _ aa p (perm_lt p _ HP)).
    set (cixs := take_axes ix_d (indices G R (fbase G R a)) aa).
    assert (Lcx : length cixs = length aa) by apply (length_take_axes ix_d).
    assert (NDc : Forall (fun ix => NoDup (icharges G ix)) cixs) by apply (wff_ix_nodup a aa Wa).
    unfold all_coords at 1. rewrite permuted_map.
    assert (NDic : Forall (@NoDup (coord G)) (map (index_coords G) cixs)).
    { apply Forall_forall. intros l Hl. apply in_map_iff in Hl. destruct Hl as [ix [<- Hix]].
      rewrite Forall_forall in NDc. specialize (NDc ix Hix). unfold index_coords.
      apply NoDup_flat_map_disjoint.
      - unfold icharges in NDc. apply (NoDup_map_inv fst). exact NDc.
      - intros q _. apply NoDup_map_inj_in; [intros o1 o2 _ _ E; now injection E|apply seq_NoDup].
      - intros q1 q2 z Hq1 Hq2 Hz1 Hz2. apply in_map_iff in Hz1, Hz2.
        destruct Hz1 as [o1 [<- _]]. destruct Hz2 as [o2 [E _]]. injection E as E _.
        destruct q1 as [c1 d1], q2 as [c2 d2]. cbn [fst] in E. subst c2.
        assert (F1 : lookup (ceqb G) c1 (chargemap G ix) = Some d1) by
          (apply (Tdot.lookup_nodup_In (ceqb G) cspec); assumption).
        assert (F2 : lookup (ceqb G) c1 (chargemap G ix) = Some d2) by
          (apply (Tdot.lookup_nodup_In (ceqb G) cspec); assumption).
        congruence. }
    rewrite <- (rsum_perm R RL _ _ (Permutation_map _ (product_permuted dcoord (map (index_coords G) cixs) p NDic
                                      ltac:(rewrite map_length, Lcx; exact HP)))).
    rewrite map_map. apply (Tdot.rsum_ext R). intros kc Hkc.
    pose proof (In_all_coords G cspec _ kc NDc Hkc) as Hk.
    pose proof (Tdot.coords_ok_length G _ _ Hk) as Lk. rewrite Lcx in Lk.
    pose proof (Tdot.coords_ok_length G _ _ Hcl) as Lcl. rewrite (without_axes_take ix_d), (length_take_axes ix_d) in Lcl.
    pose proof (Tdot.coords_ok_length G _ _ Hcr) as Lcr. rewrite (without_axes_take ix_d), (length_take_axes ix_d) in Lcr.
    fold (ndim G R (fbase G R a)) in Lcl. fold (ndim G R (fbase G R b)) in Lcr. fold na in Lcl. fold nb in Lcr.
    rewrite (merge_permuted_axes na aa p cl kc NDaa Haa HP Lk Lcl).
    rewrite (merge_permuted_axes nb ab p cr kc NDab Hab ltac:(rewrite <- Hlen; exact HP) ltac:(congruence) Lcr).
    set (A := merge G na aa cl kc). set (B := merge G nb ab cr kc).
    rewrite !rmul_rsgn. f_equal.
    apply (listing_sign a b aa ab p (map fst A) (map fst B) P HP).
    - rewrite map_length. apply merge_length.
    - rewrite map_length. apply merge_length.
    - unfold A, B. rewrite (merge_take_axes na aa cl kc NDaa Haa Lk).
      now rewrite (merge_take_axes nb ab cr kc NDab Hab ltac:(congruence)).
  Qed.

  (* ================================================================ part 7 *)
  (* a fermionic transpose applied to the first operand beforehand *)
  Lemma index_of_spec j p : In j p -> index_of j p < length p /\ nth (index_of j p) p 0 = j.
  Proof.
    induction p as [|x p IH]; intros H; [destruct H|]. cbn [index_of]. destruct (Nat.eqb x j) eqn:E.
    - apply Nat.eqb_eq in E. cbn [length nth]. split; [lia|exact E].
    - destruct H as [H|H]; [subst; rewrite Nat.eqb_refl in E; discriminate|].
      destruct (IH H) as [H1 H2]. cbn [length nth]. split; [lia|exact H2].
  Qed.
  Lemma index_of_nth p i : NoDup p -> i < length p -> index_of (nth i p 0) p = i.
  Proof.
    intros ND Hi. assert (Hin : In (nth i p 0) p) by (apply nth_In, Hi).
    destruct (index_of_spec _ _ Hin) as [H1 H2]. apply (proj1 (NoDup_nth p 0) ND _ _ H1 Hi H2).
  Qed.
  Lemma map_index_of_self l : NoDup l -> map (fun j => index_of j l) l = seq 0 (length l).
  Proof.
    intros ND. apply (nth_ext _ _ 0 0); [now rewrite map_length, seq_length|]. intros i Hi. rewrite map_length in Hi.
    rewrite (map_nth_lt _ _ 0) by exact Hi. rewrite seq_nth by exact Hi. now apply index_of_nth.
  Qed.
  Lemma SS_nth_mono l i j : StronglySorted lt l -> i < j -> j < length l -> nth i l 0 < nth j l 0.
  Proof.
    intros HS. revert i j. induction HS as [|x l HS IH HF]; intros i j Hij Hj; cbn [length] in Hj; [lia|].
    destruct j as [|j]; [lia|]. destruct i as [|i]; cbn [nth].
    - rewrite Forall_forall in HF. apply HF, nth_In. lia.
    - apply IH; lia.
  Qed.
  Lemma SS_rest_axes n aa : StronglySorted lt (rest_axes n aa).
  Proof. unfold rest_axes. apply OrderProofs.SS_filter, SS_seq. Qed.
  Lemma NoDup_rest_axes n aa : NoDup (rest_axes n aa).
  Proof. unfold rest_axes. apply NoDup_filter, seq_NoDup. Qed.

  Lemma Forall2_impl_map_l {A A' B} (f : A -> A') (P0 : A -> B -> Prop) (Q0 : A' -> B -> Prop) la lb :
    (forall x y, In x la -> P0 x y -> Q0 (f x) y) -> Forall2 P0 la lb -> Forall2 Q0 (map f la) lb.
  Proof.
    intros H F. induction F as [|x y la lb Hxy F IH]; cbn [map]; constructor.
    - apply H; [now left|exact Hxy].
    - apply IH. intros x' y' Hx'. apply H. now right.
  Qed.

  Section PreTranspose.
    Context (a b : farr) (aa ab p : list nat).
    Context (Wa : wf_fermi G R a = true) (Wb : wf_fermi G R b = true) (P : pair_ok a b aa ab).
    Context (HP : Permutation p (seq 0 (ndim G R (fbase G R a)))).
    Let na := ndim G R (fbase G R a).
    Let nb := ndim G R (fbase G R b).
    Let g (i : nat) : nat := nth i p 0.
    Let h (j : nat) : nat := index_of j p.
    Let a' := f_transpose G R a p true.
    Let aa' := map h aa.
    Let la := rest_axes na aa.
    Let la' := rest_axes na aa'.
    Let lp := map g la'.
    Let ql := map (fun j => index_of j la) lp.
    Let nl := length la.
    Let nr := nb - length ab.

    Lemma pt_len_p : length p = na.
    Proof. rewrite (Permutation_length HP). apply seq_length. Qed.
    Lemma pt_nd_p : NoDup p.
    Proof. apply (Permutation_NoDup (Permutation_sym HP)), seq_NoDup. Qed.
    Lemma pt_in_p j : j < na -> In j p.
    Proof. intros H. apply (Permutation_in _ (Permutation_sym HP)), in_seq. fold na. lia. Qed.
    Lemma pt_g_lt i : i < na -> g i < na.
    Proof. intros H. apply (perm_lt p _ HP). apply nth_In. now rewrite pt_len_p. Qed.
    Lemma pt_gh j : j < na -> g (h j) = j.
    Proof. intros H. apply (index_of_spec j p (pt_in_p j H)). Qed.
    Lemma pt_hg i : i < na -> h (g i) = i.
    Proof. intros H. apply index_of_nth; [apply pt_nd_p|now rewrite pt_len_p]. Qed.
    Lemma pt_h_lt j : j < na -> h j < na.
    Proof. intros H. rewrite <- pt_len_p. apply (index_of_spec j p (pt_in_p j H)). Qed.
    Lemma pt_ndim : ndim G R (fbase G R a') = na.
    Proof. unfold a', f_transpose, a_transpose, ndim. cbn [fbase indices]. rewrite permuted_length. apply pt_len_p. Qed.
    Lemma pt_map_g_aa' : map g aa' = aa.
    Proof.
      unfold aa'. rewrite map_map. rewrite <- (map_id aa) at 2. apply map_ext_in. intros j Hj.
      apply pt_gh, (po_lta _ _ _ _ P), Hj.
    Qed.
    Lemma pt_nd_aa' : NoDup aa'.
    Proof.
      unfold aa'. apply NoDup_map_inj_in; [|apply (po_nda _ _ _ _ P)]. intros x y Hx Hy E.
      rewrite <- (pt_gh x), <- (pt_gh y) by (apply (po_lta _ _ _ _ P); assumption). now rewrite E.
    Qed.
    Lemma pt_lt_aa' i : In i aa' -> i < na.
    Proof. unfold aa'. intros H. apply in_map_iff in H. destruct H as [j [<- Hj]]. apply pt_h_lt, (po_lta _ _ _ _ P), Hj. Qed.
    Lemma pt_nth_ix' {B} (d : B) (l : list B) j :
      j < na -> nth (h j) (map (fun i => nth i l d) p) d = nth j l d.
    Proof. intros H. apply (StructProofs.nth_index_of_map (fun i => nth i l d) j p d (pt_in_p j H)). Qed.

    Lemma pt_perm_lp : Permutation lp la.
    Proof.
      apply (Permutation_app_inv_r aa).
      pose proof (perm_rest_axes na aa' pt_nd_aa' pt_lt_aa') as H1. fold la' in H1.
      apply (Permutation_map g) in H1. rewrite map_app, pt_map_g_aa' in H1. fold lp in H1.
      rewrite H1. unfold g. rewrite <- pt_len_p, StructProofs.map_nth_seq. rewrite HP.
      symmetry. apply (perm_rest_axes na aa (po_nda _ _ _ _ P) (po_lta _ _ _ _ P)).
    Qed.
    Lemma pt_lp_la : map (fun t => nth t la 0) ql = lp.
    Proof.
      unfold ql. rewrite map_map. rewrite <- (map_id lp) at 2. apply map_ext_in. intros j Hj.
      apply index_of_spec. apply (Permutation_in _ pt_perm_lp), Hj.
    Qed.
    Lemma pt_perm_ql : Permutation ql (seq 0 nl).
    Proof.
      unfold ql, nl. rewrite <- (map_index_of_self la (NoDup_rest_axes na aa)). apply Permutation_map, pt_perm_lp.
    Qed.
    Lemma pt_len_la' : length la' = nl.
    Proof.
      unfold nl. rewrite <- (Permutation_length pt_perm_lp). unfold lp. now rewrite map_length.
    Qed.

    Lemma pt_pair_ok : pair_ok a' b aa' ab.
    Proof.
      destruct P as [NDaa Haa NDab Hab Hlen Hd Htab]. constructor.
      - apply pt_nd_aa'.
      - intros i Hi. rewrite pt_ndim. now apply pt_lt_aa'.
      - exact NDab.
      - exact Hab.
      - unfold aa'. now rewrite map_length.
      - unfold opposite_dirs in *. unfold aa'. revert Hd. apply Forall2_impl_map_l. intros i j Hi Hij.
        rewrite <- Hij. f_equal. unfold a', f_transpose, a_transpose. cbn [fbase indices]. unfold permuted.
        apply pt_nth_ix'. apply Haa, Hi.
      - rewrite <- Htab. f_equal. unfold a', f_transpose, a_transpose, aa', take_axes. cbn [fbase indices].
        rewrite map_map. apply map_ext_in. intros j Hj. unfold permuted. apply pt_nth_ix'. apply Haa, Hj.
    Qed.

    Lemma pt_cixs : take_axes ix_d (indices G R (fbase G R a')) aa' = take_axes ix_d (indices G R (fbase G R a)) aa.
    Proof.
      unfold a', f_transpose, a_transpose, aa', take_axes. cbn [fbase indices]. rewrite map_map.
      apply map_ext_in. intros j Hj. unfold permuted. apply pt_nth_ix'. apply (po_lta _ _ _ _ P), Hj.
    Qed.
    Lemma pt_take_la' {B} (d : B) (l : list B) :
      take_axes d (permuted d l p) la' = permuted d (take_axes d l la) ql.
    Proof.
      unfold take_axes, permuted.
      transitivity (map (fun j => nth j l d) lp).
      - unfold lp. rewrite map_map. apply map_ext_in. intros i Hi.
        apply (map_nth_lt (fun i => nth i l d) p 0 d). rewrite pt_len_p. apply (In_rest_axes na aa' i Hi).
      - rewrite <- pt_lp_la at 1. rewrite map_map. apply map_ext_in. intros t Ht.
        symmetry. apply (map_nth_lt (fun j => nth j l d) la 0 d). apply (perm_lt ql _ pt_perm_ql t Ht).
    Qed.
    Lemma pt_take_aa' {B} (d : B) (l : list B) : length l = na ->
      take_axes d (permuted d l p) aa' = take_axes d l aa.
    Proof.
      intros _. unfold aa', take_axes, permuted. rewrite map_map. apply map_ext_in. intros j Hj.
      apply pt_nth_ix'. apply (po_lta _ _ _ _ P), Hj.
    Qed.

    Lemma pt_merge (cl kc : list (coord G)) :
      length kc = length aa -> length cl = nl ->
      merge G na aa' (permuted dcoord cl ql) kc = permuted dcoord (merge G na aa cl kc) p.
    Proof.
      intros Lk Lc. set (M := merge G na aa cl kc).
      assert (LM : length M = na) by apply merge_length.
      unfold merge.
      apply (proj2 (scatterA_eq_iff dcoord na aa' kc (permuted dcoord cl ql) (permuted dcoord M p)
                      pt_nd_aa' pt_lt_aa' ltac:(unfold aa'; rewrite map_length; exact Lk)
                      ltac:(fold la'; rewrite permuted_length, pt_len_la', (Permutation_length pt_perm_ql); apply seq_length)
                      ltac:(rewrite permuted_length; apply pt_len_p))).
      split.
      - rewrite (pt_take_aa' dcoord M LM). unfold M, merge. symmetry.
        apply take_scatterA_axes; [apply (po_nda _ _ _ _ P)|apply (po_lta _ _ _ _ P)|exact Lk].
      - fold la'. rewrite (pt_take_la' dcoord M). f_equal. unfold M, merge, la. symmetry.
        apply take_scatterA_rest. fold la. exact Lc.
    Qed.

    (* the sign identity: for every sector sa of a (as a list of na charges) *)
    Lemma pt_sign (sa Kr : sector) : length sa = na -> length Kr = nr ->
      xorb (sigma_a G R a' aa' (permuted ch_d sa p)) (wsg (odd_at G sa) p)
      = xorb (wsg (odd_at G (take_axes ch_d sa la ++ Kr)) (ql ++ seq nl nr)) (sigma_a G R a aa sa).
    Proof.
      intros La Lr. unfold sigma_a. rewrite pt_ndim. fold na la la'.
      set (sa' := permuted ch_d sa p).
      assert (Lsa' : length sa' = na) by (unfold sa'; rewrite permuted_length; apply pt_len_p).
      assert (Hodd : forall i, i < na -> odd_at G sa' i = odd_at G sa (g i)).
      { intros i Hi. unfold odd_at, sa', permuted. f_equal.
        apply (map_nth_lt (fun i => nth i sa ch_d) p 0 ch_d). now rewrite pt_len_p. }
      pose proof (perm_rest_axes na aa' pt_nd_aa' pt_lt_aa') as PA'. fold la' in PA'.
      pose proof (perm_rest_axes na aa (po_nda _ _ _ _ P) (po_lta _ _ _ _ P)) as PA. fold la in PA.
      rewrite (inv_parity_wsg G sa' (la' ++ aa')) by (intros i Hi; rewrite Lsa'; apply (perm_lt _ _ PA' i Hi)).
      rewrite (inv_parity_wsg G sa (la ++ aa)) by (intros i Hi; rewrite La; apply (perm_lt _ _ PA i Hi)).
      (* ket-bra counts agree *)
      assert (Ek : ketbra_a G R a' aa' sa' = ketbra_a G R a aa sa).
      { unfold ketbra_a, count_odd, aa'. f_equal. rewrite filter_map_comm, filter_map_comm, map_length, !filter_filter.
        f_equal. apply filter_ext_in. intros j Hj. pose proof (po_lta _ _ _ _ P j Hj) as Hjl. fold na in Hjl.
        rewrite (Hodd (h j) (pt_h_lt j Hjl)), (pt_gh j Hjl). f_equal. f_equal. f_equal.
        unfold a', f_transpose, a_transpose. cbn [fbase indices]. unfold permuted. apply pt_nth_ix'. exact Hjl. }
      rewrite Ek.
      (* the transposed word *)
      set (P' := fun i => odd_at G sa (g i)).
      assert (E1 : wsg (odd_at G sa') (la' ++ aa') = xorb (wsg (odd_at G sa) (lp ++ aa)) (wsg (odd_at G sa) p)).
      { rewrite (wsg_ext_in (odd_at G sa') P' (la' ++ aa')) by (intros i Hi; apply Hodd, (perm_lt _ _ PA' i Hi)).
        pose proof (winv_diff_canon P' (fun i : nat => i) g (la' ++ aa') (seq 0 na) PA'
                      ltac:(intros x y _ _ E; exact E)
                      ltac:(intros x y Hx Hy E; apply (proj1 (NoDup_nth p 0) pt_nd_p);
                            [rewrite pt_len_p; apply (perm_lt _ _ PA' x Hx)|rewrite pt_len_p; apply (perm_lt _ _ PA' y Hy)|exact E])) as D.
        rewrite (winv_sorted P' (fun i : nat => i) (seq 0 na) (SS_seq 0 na)) in D. rewrite xorb_false_r in D.
        unfold wsg at 1. rewrite D.
        assert (Wm : forall w, winv P' g w = wsg (odd_at G sa) (map g w)) by (intros w; unfold wsg; rewrite winv_map; reflexivity).
        rewrite !Wm. rewrite map_app, pt_map_g_aa'. fold lp. f_equal. f_equal.
        unfold g. rewrite <- pt_len_p. apply StructProofs.map_nth_seq. }
      rewrite E1.
      assert (E2 : xorb (wsg (odd_at G sa) (lp ++ aa)) (wsg (odd_at G sa) (la ++ aa)) = wsg (odd_at G sa) lp).
      { rewrite !wsg_app. rewrite (wcr_perm_l (odd_at G sa) lp la aa pt_perm_lp).
        rewrite (wsg_sorted (odd_at G sa) la (SS_rest_axes na aa)).
        now destruct (wsg (odd_at G sa) lp), (wsg (odd_at G sa) aa), (wcr (odd_at G sa) la aa). }
      assert (E3 : wsg (odd_at G (take_axes ch_d sa la ++ Kr)) (ql ++ seq nl nr) = wsg (odd_at G sa) lp).
      { rewrite wsg_app, (wsg_sorted _ (seq nl nr) (SS_seq nl nr)).
        rewrite wcr_before by (intros x y Hx Hy; apply (perm_lt ql _ pt_perm_ql) in Hx; apply in_seq in Hy; lia).
        rewrite !xorb_false_r. rewrite <- pt_lp_la. unfold wsg. rewrite winv_map.
        rewrite (winv_canon_ext _ (fun x => nth x la 0) (fun i : nat => i) ql).
        - apply winv_ext_in. intros t Ht. apply (perm_lt ql _ pt_perm_ql) in Ht. unfold odd_at. f_equal.
          rewrite app_nth1 by (now rewrite (length_take_axes ch_d)).
          unfold take_axes. apply (map_nth_lt (fun i => nth i sa ch_d) la 0 ch_d t Ht).
        - intros x y Hx Hy. apply (perm_lt ql _ pt_perm_ql) in Hx. apply (perm_lt ql _ pt_perm_ql) in Hy. fold nl in Hx, Hy.
          destruct (Nat.lt_trichotomy y x) as [H|[H|H]].
          + pose proof (SS_nth_mono la y x (SS_rest_axes na aa) H Hx) as Hm.
            rewrite (proj2 (Nat.ltb_lt _ _) Hm). symmetry. now apply Nat.ltb_lt.
          + subst. now rewrite !Nat.ltb_irrefl.
          + pose proof (SS_nth_mono la x y (SS_rest_axes na aa) H Hy) as Hm.
            rewrite (proj2 (Nat.ltb_ge _ _) (Nat.lt_le_incl _ _ Hm)). symmetry. apply Nat.ltb_ge. lia. }
      rewrite E3. rewrite <- E2.
      generalize (wsg (odd_at G sa) (lp ++ aa)) (wsg (odd_at G sa) p) (wsg (odd_at G sa) (la ++ aa)) (ketbra_a G R a aa sa).
      intros b1 b2 b3 b4. now destruct b1, b2, b3, b4.
    Qed.

    (* pre_transpose: contracting the transposed operand (axes relabelled) gives
       the contraction of the original one, its free legs of a re-ordered the
       way the transposed operand lists them *)
    Theorem pre_transpose_a : distinct (foddpos G R a ++ foddpos G R b) ->
      exists y y',
        f_tensordot G R a b (naxes aa ab) MBlockwise = Some y
        /\ f_tensordot G R a' b (naxes aa' ab) MBlockwise = Some y'
        /\ let t := f_transpose G R y (ql ++ seq nl nr) true in
           foddpos G R y' = foddpos G R t
           /\ forall cl cr,
                coords_ok G (without_axes (indices G R (fbase G R a)) aa) cl = true ->
                coords_ok G (without_axes (indices G R (fbase G R b)) ab) cr = true ->
                V y' (permuted dcoord cl ql ++ cr) = V t (permuted dcoord cl ql ++ cr).
    Proof.
      intros D. pose proof (f_transpose_wf G GL R a p true Wa HP) as Wa'. fold a' in Wa'.
      destruct (tdot_main a b aa ab Wa Wb P D) as [y [m (E1 & R1 & _ & W1 & D1 & _ & S1)]].
      destruct (tdot_main a' b aa' ab Wa' Wb pt_pair_ok D) as [y' [m' (E2 & R2 & _ & _ & _ & _ & S2)]].
      exists y, y'. split; [exact E1|]. split; [exact E2|]. cbv zeta.
      change (foddpos G R a') with (foddpos G R a) in R2. change (fparity G R a') with (fparity G R a) in R2.
      rewrite R1 in R2. injection R2 as Em El. subst m'. split; [cbn [f_transpose foddpos]; now symmetry|].
      intros cl cr Hcl Hcr.
      pose proof (po_nda _ _ _ _ P) as NDaa. pose proof (po_lta _ _ _ _ P) as Haa.
      pose proof (po_ndb _ _ _ _ P) as NDab. pose proof (po_ltb _ _ _ _ P) as Hab.
      pose proof (po_len _ _ _ _ P) as Hlen.
      destruct (free_ixs_length a b aa ab P) as [Ll Lr].
      pose proof (Tdot.coords_ok_length G _ _ Hcl) as Lcl. pose proof (Tdot.coords_ok_length G _ _ Hcr) as Lcr.
      rewrite Ll in Lcl. rewrite Lr in Lcr. fold na nb in Lcl, Lcr.
      assert (Lla : nl = na - length aa) by apply (length_rest_axes na aa NDaa Haa).
      rewrite <- Lla in Lcl. fold nr in Lcr.
      set (q := ql ++ seq nl nr).
      set (y0 := reindex y (free_ixs a b aa ab)).
      pose proof (same_val_reindex y (free_ixs a b aa ab) D1) as SV. fold y0 in SV.
      rewrite <- (same_val_V _ _ (same_val_transpose y0 y q SV)).
      assert (Ep : permuted dcoord cl ql ++ cr = permuted dcoord (cl ++ cr) q).
      { unfold q. rewrite permuted_app. f_equal.
        - unfold permuted. apply map_ext_in. intros t Ht. apply (perm_lt ql _ pt_perm_ql) in Ht.
          now rewrite app_nth1 by (rewrite Lcl; exact Ht).
        - rewrite <- Lcl, <- Lcr. symmetry. apply (take_app_r dcoord cl cr). }
      rewrite Ep at 2.
      rewrite (V_transpose y0 q (cl ++ cr) W1).
      2:{ unfold y0, reindex, ndim. cbn [fbase indices]. unfold free_ixs. rewrite app_length, Ll, Lr. fold na nb nr.
          rewrite <- Lla. unfold q. rewrite seq_app. apply Permutation_app; [apply pt_perm_ql|reflexivity]. }
      2:{ unfold y0, reindex. cbn [fbase indices]. apply coords_ok_app; assumption. }
      rewrite (same_val_V y0 y SV). rewrite (S1 cl cr Hcl Hcr).
      assert (Hcl' : coords_ok G (without_axes (indices G R (fbase G R a')) aa') (permuted dcoord cl ql) = true).
      { rewrite (without_axes_take ix_d). fold (ndim G R (fbase G R a')). rewrite pt_ndim. fold la'.
        unfold a', f_transpose, a_transpose. cbn [fbase indices]. rewrite (pt_take_la' ix_d).
        apply StructProofs.coords_ok_permuted.
        - rewrite (without_axes_take ix_d) in Hcl. exact Hcl.
        - intros t Ht. rewrite (length_take_axes ix_d). apply (perm_lt ql _ pt_perm_ql t Ht). }
      etransitivity; [apply (S2 _ cr Hcl' Hcr)|]. rewrite pt_cixs, pt_ndim. fold na nb.
      rewrite !rsgn_rsum. apply (Tdot.rsum_ext R). intros kc Hkc.
      pose proof (In_all_coords G cspec _ kc (wff_ix_nodup a aa Wa) Hkc) as Hk.
      pose proof (Tdot.coords_ok_length G _ _ Hk) as Lk. rewrite (length_take_axes ix_d) in Lk.
      rewrite (pt_merge cl kc Lk Lcl).
      set (M := merge G na aa cl kc). set (B := merge G nb ab cr kc).
      pose proof (V_transpose a p M Wa HP (coords_ok_merge G (indices G R (fbase G R a)) aa cl kc NDaa Haa Hk Hcl)) as HV.
      fold a' in HV. rewrite HV. clear HV.
      rewrite !rsgn_rsgn, !rmul_rsgn, !rsgn_rsgn. f_equal.
      rewrite (permuted_map fst dcoord M p). cbn [fst].
      pose proof (pt_sign (map fst M) (map fst cr) ltac:(rewrite map_length; apply merge_length)
                    ltac:(rewrite map_length; exact Lcr)) as HS.
      assert (Tl : take_axes ch_d (map fst M) la = map fst cl).
      { unfold M, la. apply merge_take_rest. fold la. exact Lcl. }
      rewrite Tl, <- map_app in HS. fold q in HS.
      set (X := wsg (odd_at G (map fst (cl ++ cr))) q) in *.
      change (wsg (odd_at G (map fst (cl ++ cr))) q) with X in HS.
      rewrite HS.
      now destruct m, X, (sigma_a G R a aa (map fst M)), (sigma_b G R b ab (map fst B)).
    Qed.
  End PreTranspose.
End Route.

(* ================================================================ part 8 *)
(* associativity: geometry of the axes of a chain a - b - c *)
Lemma SS_lt_NoDup (l : list nat) : StronglySorted lt l -> NoDup l.
Proof.
  intros HS. induction HS as [|x t HS IH HF]; constructor; [|exact IH]. intros Hin.
  rewrite Forall_forall in HF. specialize (HF x Hin). lia.
Qed.

Section Embed.
  (* positions inside a sorted list of axes *)
  Context (l : list nat) (SSl : StronglySorted lt l).

  Lemma SS_NoDup_lt : NoDup l.
  Proof. apply SS_lt_NoDup, SSl. Qed.

  Lemma index_of_mono x y : In x l -> In y l -> Nat.ltb (index_of y l) (index_of x l) = Nat.ltb y x.
  Proof.
    intros Hx Hy. destruct (index_of_spec x l Hx) as [Lx Ex]. destruct (index_of_spec y l Hy) as [Ly Ey].
    destruct (Nat.lt_trichotomy (index_of y l) (index_of x l)) as [H|[H|H]].
    - pose proof (SS_nth_mono l _ _ SSl H Lx) as Hm. rewrite Ex, Ey in Hm.
      rewrite (proj2 (Nat.ltb_lt _ _) H). symmetry. now apply Nat.ltb_lt.
    - assert (E : x = y) by (rewrite <- Ex, <- Ey; now rewrite H). subst. now rewrite !Nat.ltb_irrefl.
    - pose proof (SS_nth_mono l _ _ SSl H Ly) as Hm. rewrite Ex, Ey in Hm.
      rewrite (proj2 (Nat.ltb_ge _ _) (Nat.lt_le_incl _ _ H)). symmetry. apply Nat.ltb_ge. lia.
  Qed.

  Lemma index_of_inj x y : In x l -> In y l -> index_of x l = index_of y l -> x = y.
  Proof.
    intros Hx Hy E. destruct (index_of_spec x l Hx) as [_ Ex]. destruct (index_of_spec y l Hy) as [_ Ey].
    rewrite <- Ex, <- Ey. now rewrite E.
  Qed.

  (* the axes of l not in `sub`, as positions in l shifted by `off` *)
  Lemma rest_embed off sub : (forall j, In j sub -> In j l) ->
    filter (fun i => negb (mem Nat.eqb i (map (fun j => off + index_of j l) sub))) (seq off (length l))
    = map (fun j => off + index_of j l) (filter (fun j => negb (mem Nat.eqb j sub)) l).
  Proof.
    intros Hsub.
    assert (E : seq off (length l) = map (fun j => off + index_of j l) l).
    { rewrite <- (map_map (fun j => index_of j l) (fun i => off + i)).
      rewrite (map_index_of_self l SS_NoDup_lt). apply seq_add_map. }
    rewrite E, filter_map_comm. f_equal. apply filter_ext_in. intros j Hj. f_equal.
    destruct (mem Nat.eqb j sub) eqn:E1.
    - apply FermiProofs.memN_In in E1. apply FermiProofs.memN_In. apply in_map_iff. now exists j.
    - destruct (mem Nat.eqb (off + index_of j l) (map (fun j0 => off + index_of j0 l) sub)) eqn:E2; [|reflexivity].
      apply FermiProofs.memN_In in E2. apply in_map_iff in E2. destruct E2 as [j' [E2 Hj']].
      assert (j' = j) by (apply index_of_inj; [apply Hsub, Hj'|exact Hj|lia]). subst j'.
      apply FermiProofs.memN_In in Hj'. congruence.
  Qed.

  Lemma take_embed {A} (d : A) (pre X : list A) (w : list nat) : (forall j, In j w -> In j l) ->
    take_axes d (pre ++ take_axes d X l) (map (fun j => length pre + index_of j l) w) = take_axes d X w.
  Proof.
    intros Hw. unfold take_axes at 1 3. rewrite map_map. apply map_ext_in. intros j Hj.
    rewrite app_nth2 by lia. replace (length pre + index_of j l - length pre) with (index_of j l) by lia.
    unfold take_axes. apply (StructProofs.nth_index_of_map (fun i => nth i X d) j l d (Hw j Hj)).
  Qed.
End Embed.

Section EmbedWords.
  Context (G : Symmetry).
  Notation sector := (list (C G)).

  (* a word of axes of s, read inside (pre ++ s restricted to l ++ post) *)
  Lemma wsg_embed (s pre post : sector) (l w : list nat) :
    StronglySorted lt l -> (forall j, In j w -> In j l) ->
    wsg (odd_at G (pre ++ take_axes (ident G) s l ++ post)) (map (fun j => length pre + index_of j l) w)
    = wsg (odd_at G s) w.
  Proof.
    intros SSl Hw. unfold wsg. rewrite winv_map.
    rewrite (winv_canon_ext _ (fun x => length pre + index_of x l) (fun i : nat => i) w).
    - apply winv_ext_in. intros j Hj. unfold odd_at. f_equal.
      destruct (index_of_spec j l (Hw j Hj)) as [Lj Ej].
      rewrite app_nth2 by lia. replace (length pre + index_of j l - length pre) with (index_of j l) by lia.
      rewrite app_nth1 by (now rewrite (length_take_axes (ident G))).
      unfold take_axes. apply (StructProofs.nth_index_of_map (fun i => nth i s (ident G)) j l (ident G) (Hw j Hj)).
    - intros x y Hx Hy. rewrite <- (index_of_mono l SSl x y (Hw x Hx) (Hw y Hy)).
      destruct (Nat.ltb_spec (index_of y l) (index_of x l)); [apply Nat.ltb_lt|apply Nat.ltb_ge]; lia.
  Qed.

  (* E4: the identity inside b *)
  Lemma chain_words (par : nat -> bool) (ab bb mb rb lb : list nat) :
    StronglySorted lt rb -> StronglySorted lt lb -> StronglySorted lt mb ->
    Permutation rb (mb ++ bb) -> Permutation lb (mb ++ ab) ->
    xorb (wsg par (mb ++ bb)) (wsg par (rev ab ++ rb)) = xorb (wsg par (rev ab ++ mb)) (wsg par (lb ++ bb)).
  Proof.
    intros Srb Slb Smb Prb Plb. rewrite !wsg_app.
    rewrite (wsg_sorted par rb Srb), (wsg_sorted par lb Slb), (wsg_sorted par mb Smb).
    rewrite (wcr_perm_r par (rev ab) rb (mb ++ bb) Prb), (wcr_perm_l par lb (mb ++ ab) bb Plb).
    rewrite wcr_app_r, wcr_app_l.
    rewrite (wcr_perm_l par (rev ab) ab mb), (wcr_perm_l par (rev ab) ab bb) by (symmetry; apply Permutation_rev).
    generalize (wsg par bb) (wcr par mb bb) (wsg par (rev ab)) (wcr par ab mb) (wcr par ab bb).
    intros b1 b2 b3 b4 b5. now destruct b1, b2, b3, b4, b5.
  Qed.
End EmbedWords.

Lemma filter_all_in {A} (f : A -> bool) l : (forall x, In x l -> f x = true) -> filter f l = l.
Proof.
  induction l as [|x l IH]; intros H; [reflexivity|]. cbn [filter]. rewrite (H x (or_introl eq_refl)). f_equal.
  apply IH. intros y Hy. apply H. now right.
Qed.

(* ---------- sums of products of three factors ---------- *)
Section ChainSums.
  Context (R : Ring) (NL : NegLaws R) (RL : SumLaws R) (CL : CommLaws R).
  Notation rsg := (rsgn R).

  Lemma rmul_rsum_r {A} (x : RT R) (f : A -> RT R) l :
    rmul R x (rsum R (map f l)) = rsum R (map (fun y => rmul R x (f y)) l).
  Proof.
    induction l as [|y l IH]; cbn [map rsum fold_right]; [apply (rmul_0_r R RL)|].
    fold (rsum R (map f l)) (rsum R (map (fun y => rmul R x (f y)) l)). now rewrite (rmul_add_l R CL), IH.
  Qed.
  Lemma rmul_rsum_l {A} (u : RT R) (f : A -> RT R) l :
    rmul R (rsum R (map f l)) u = rsum R (map (fun y => rmul R (f y) u) l).
  Proof.
    rewrite (rmul_comm R CL), rmul_rsum_r. apply (Tdot.rsum_ext R). intros y _. apply (rmul_comm R CL).
  Qed.

  Lemma rmul_rsgn_l b x y : rmul R (rsg b x) y = rsg b (rmul R x y).
  Proof. destruct b; cbn [rsgn]; [apply (rmul_neg_l R NL)|reflexivity]. Qed.
  Lemma rmul_rsgn_r c x y : rmul R x (rsg c y) = rsg c (rmul R x y).
  Proof. destruct c; cbn [rsgn]; [apply (rmul_neg_r R NL)|reflexivity]. Qed.
  Ltac push_signs := repeat first [rewrite rmul_rsgn_l | rewrite rmul_rsgn_r | rewrite (rsgn_rsgn R NL)].

  Lemma chain_sums {A B} (K1 : list A) (K2 : list B) (m12 m1 m21 m2 : bool)
        (s1 sc : B -> bool) (sa s2 : A -> bool) (sb sb2 : A -> B -> bool)
        (va : A -> RT R) (vb : A -> B -> RT R) (vc : B -> RT R) :
    (forall k1 k2, In k1 K1 -> In k2 K2 ->
       xorb m12 (xorb (s1 k2) (xorb m1 (xorb (sa k1) (xorb (sb k1 k2) (sc k2)))))
       = xorb m21 (xorb (sa k1) (xorb (s2 k1) (xorb m2 (xorb (sb2 k1 k2) (sc k2)))))) ->
    rsg m12 (rsum R (map (fun k2 =>
      rmul R (rsg (s1 k2) (rsg m1 (rsum R (map (fun k1 =>
                rmul R (rsg (sa k1) (va k1)) (rsg (sb k1 k2) (vb k1 k2))) K1))))
             (rsg (sc k2) (vc k2))) K2))
    = rsg m21 (rsum R (map (fun k1 =>
      rmul R (rsg (sa k1) (va k1))
             (rsg (s2 k1) (rsg m2 (rsum R (map (fun k2 =>
                rmul R (rsg (sb2 k1 k2) (vb k1 k2)) (rsg (sc k2) (vc k2))) K2))))) K1)).
  Proof.
    intros H.
    transitivity (rsum R (map (fun k2 => rsum R (map (fun k1 =>
        rsg (xorb m12 (xorb (s1 k2) (xorb m1 (xorb (sa k1) (xorb (sb k1 k2) (sc k2))))))
            (rmul R (va k1) (rmul R (vb k1 k2) (vc k2)))) K1)) K2)).
    - rewrite (rsgn_rsum R NL). apply (Tdot.rsum_ext R). intros k2 _.
      rewrite !(rsgn_rsum R NL), rmul_rsum_l, (rsgn_rsum R NL). apply (Tdot.rsum_ext R). intros k1 _.
      push_signs. rewrite <- (rmul_assoc R CL). f_equal.
      now destruct m12, (s1 k2), m1, (sa k1), (sb k1 k2), (sc k2).
    - rewrite (Tdot.rsum_swap R RL). rewrite (rsgn_rsum R NL). apply (Tdot.rsum_ext R). intros k1 Hk1.
      rewrite !(rsgn_rsum R NL), rmul_rsum_r, (rsgn_rsum R NL). apply (Tdot.rsum_ext R). intros k2 Hk2.
      rewrite (H k1 k2 Hk1 Hk2).
      push_signs. f_equal.
      now destruct m21, (s2 k1), m2, (sa k1), (sb2 k1 k2), (sc k2).
  Qed.
End ChainSums.

Lemma take_via {A} (d : A) (X : list A) (l w : list nat) : (forall j, In j w -> In j l) ->
  take_axes d (take_axes d X l) (map (fun j => index_of j l) w) = take_axes d X w.
Proof.
  intros Hw. unfold take_axes at 1 3. rewrite map_map. apply map_ext_in. intros j Hj.
  unfold take_axes. apply (StructProofs.nth_index_of_map (fun i => nth i X d) j l d (Hw j Hj)).
Qed.
Lemma take_shift {A} (d : A) (pre X : list A) (w : list nat) :
  take_axes d (pre ++ X) (map (fun i => length pre + i) w) = take_axes d X w.
Proof.
  unfold take_axes. rewrite map_map. apply map_ext. intros i. rewrite app_nth2 by lia. f_equal. lia.
Qed.
Lemma take_prefix {A} (d : A) (pre X : list A) (w : list nat) : (forall i, In i w -> i < length pre) ->
  take_axes d (pre ++ X) w = take_axes d pre w.
Proof. intros H. unfold take_axes. apply map_ext_in. intros i Hi. apply app_nth1, H, Hi. Qed.
Lemma take_axes_app {A} (d : A) (X : list A) (u v : list nat) :
  take_axes d X (u ++ v) = take_axes d X u ++ take_axes d X v.
Proof. unfold take_axes. apply map_app. Qed.

Lemma NoDup_app_keep_l {A} (l l' : list A) : NoDup (l ++ l') -> NoDup l.
Proof.
  induction l as [|x l IH]; cbn [app]; intros H; [constructor|]. inversion H as [|? ? Hx Hl]; subst.
  constructor; [intros Hin; apply Hx, in_app_iff; now left|apply IH, Hl].
Qed.
Lemma NoDup_app_keep_r {A} (l l' : list A) : NoDup (l ++ l') -> NoDup l'.
Proof.
  induction l as [|x l IH]; cbn [app]; intros H; [exact H|]. inversion H; subst. now apply IH.
Qed.

Lemma mem_app_nat j (u v : list nat) : mem Nat.eqb j (u ++ v) = mem Nat.eqb j u || mem Nat.eqb j v.
Proof. induction u as [|x l IH]; cbn [app mem]; [reflexivity|]. now rewrite IH, orb_assoc. Qed.

Section Assoc.
  Context (G : Symmetry) (GL : GroupLaws G) (OL : OrderProofs.OrderLaws G).
  Context (R : Ring) (NL : NegLaws R) (RL : SumLaws R) (CL : CommLaws R).
  Notation sector := (list (C G)).
  Notation farr := (farray G R).
  Notation ch_d := (ident G).
  Notation ix_d := (dflt_index G).
  Notation dcoord := (ident G, 0).
  Notation cspec := (ceqb_eq G GL).
  Notation rsg := (rsgn R).
  Notation Vv := (V G R).

  Context (a b c : farr) (aa ab bb cb : list nat).
  Context (Wa : wf_fermi G R a = true) (Wb : wf_fermi G R b = true) (Wc : wf_fermi G R c = true).
  Context (Pab : pair_ok G R a b aa ab) (Pbc : pair_ok G R b c bb cb).
  Context (Hdisj : forall j, In j ab -> ~ In j bb).
  Context (D : distinct (foddpos G R a ++ foddpos G R b ++ foddpos G R c)).

  Let na := ndim G R (fbase G R a).
  Let nb := ndim G R (fbase G R b).
  Let nc := ndim G R (fbase G R c).
  Let ixa := indices G R (fbase G R a).
  Let ixb := indices G R (fbase G R b).
  Let ixc := indices G R (fbase G R c).
  Let la := rest_axes na aa.
  Let rb := rest_axes nb ab.
  Let lb := rest_axes nb bb.
  Let rc := rest_axes nc cb.
  Let mb := rest_axes nb (ab ++ bb).
  Let nl := length la.
  Let prb (j : nat) : nat := nl + index_of j rb.
  Let plb (j : nat) : nat := index_of j lb.
  Let bb1 := map prb bb.
  Let ab2 := map plb ab.
  Let n1 := nl + length rb.
  Let n2 := length lb + length rc.

  (* ---------- the axes of b ---------- *)
  Lemma as_bb_rb j : In j bb -> In j rb.
  Proof.
    intros H. unfold rb, rest_axes. apply filter_In. split.
    - apply in_seq. pose proof (po_lta _ _ _ _ _ _ Pbc j H). fold nb in H0. lia.
    - apply negb_true_iff. apply FermiProofs.memN_false. intros Hab. exact (Hdisj j Hab H).
  Qed.
  Lemma as_ab_lb j : In j ab -> In j lb.
  Proof.
    intros H. unfold lb, rest_axes. apply filter_In. split.
    - apply in_seq. pose proof (po_ltb _ _ _ _ _ _ Pab j H). fold nb in H0. lia.
    - apply negb_true_iff. apply FermiProofs.memN_false. intros Hbb. exact (Hdisj j H Hbb).
  Qed.
  Lemma as_mem_app j : mem Nat.eqb j (ab ++ bb) = mem Nat.eqb j ab || mem Nat.eqb j bb.
  Proof. apply mem_app_nat. Qed.
  Lemma as_mb_rb : mb = filter (fun j => negb (mem Nat.eqb j bb)) rb.
  Proof.
    unfold mb, rb, rest_axes. rewrite filter_filter. apply filter_ext. intros j.
    now rewrite as_mem_app, negb_orb.
  Qed.
  Lemma as_mb_lb : mb = filter (fun j => negb (mem Nat.eqb j ab)) lb.
  Proof.
    unfold mb, lb, rest_axes. rewrite filter_filter. apply filter_ext. intros j.
    now rewrite as_mem_app, negb_orb, andb_comm.
  Qed.
  Lemma as_mb_in_rb j : In j mb -> In j rb.
  Proof. rewrite as_mb_rb. intros H. apply filter_In in H. apply H. Qed.
  Lemma as_mb_in_lb j : In j mb -> In j lb.
  Proof. rewrite as_mb_lb. intros H. apply filter_In in H. apply H. Qed.
  Lemma as_nd_abbb : NoDup (ab ++ bb).
  Proof.
    apply NoDup_app'; [apply (po_ndb _ _ _ _ _ _ Pab)|apply (po_nda _ _ _ _ _ _ Pbc)|exact Hdisj].
  Qed.
  Lemma as_lt_abbb j : In j (ab ++ bb) -> j < nb.
  Proof.
    intros H. apply in_app_iff in H. destruct H as [H|H];
      [apply (po_ltb _ _ _ _ _ _ Pab j H)|apply (po_lta _ _ _ _ _ _ Pbc j H)].
  Qed.

  Lemma as_perm_sub (l sub : list nat) : NoDup l -> NoDup sub -> (forall j, In j sub -> In j l) ->
    Permutation l (filter (fun j => negb (mem Nat.eqb j sub)) l ++ sub).
  Proof.
    intros NDl NDs Hs. rewrite <- (filter_split_perm (fun j => mem Nat.eqb j sub) l) at 1.
    apply Permutation_app_head. apply NoDup_Permutation; [apply NoDup_filter, NDl|exact NDs|].
    intros j. rewrite filter_In, FermiProofs.memN_In. split; [tauto|]. intros H. split; [apply Hs, H|exact H].
  Qed.
  Lemma as_perm_rb : Permutation rb (mb ++ bb).
  Proof.
    rewrite as_mb_rb. apply as_perm_sub; [apply NoDup_rest_axes|apply (po_nda _ _ _ _ _ _ Pbc)|apply as_bb_rb].
  Qed.
  Lemma as_perm_lb : Permutation lb (mb ++ ab).
  Proof.
    rewrite as_mb_lb. apply as_perm_sub; [apply NoDup_rest_axes|apply (po_ndb _ _ _ _ _ _ Pab)|apply as_ab_lb].
  Qed.

  (* the free axes of the two intermediate results *)
  Lemma as_rest1 : rest_axes n1 bb1 = seq 0 nl ++ map prb mb.
  Proof.
    unfold rest_axes, n1. rewrite seq_app, filter_app. cbn [Nat.add]. f_equal.
    - apply filter_all_in. intros i Hi. apply in_seq in Hi. apply negb_true_iff, FermiProofs.memN_false.
      unfold bb1, prb. intros H. apply in_map_iff in H. destruct H as [j [E _]]. lia.
    - unfold bb1, prb. rewrite (rest_embed rb (SS_rest_axes nb ab) nl bb as_bb_rb). now rewrite <- as_mb_rb.
  Qed.
  Lemma as_rest2 : rest_axes n2 ab2 = map plb mb ++ seq (length lb) (length rc).
  Proof.
    unfold rest_axes, n2. rewrite seq_app, filter_app. cbn [Nat.add]. f_equal.
    - unfold ab2, plb. pose proof (rest_embed lb (SS_rest_axes nb bb) 0 ab as_ab_lb) as H. cbn [Nat.add] in H.
      rewrite H. now rewrite <- as_mb_lb.
    - apply filter_all_in. intros i Hi. apply in_seq in Hi. apply negb_true_iff, FermiProofs.memN_false.
      unfold ab2, plb. intros H. apply in_map_iff in H. destruct H as [j [E Hj]].
      destruct (index_of_spec j lb (as_ab_lb j Hj)) as [Lj _]. lia.
  Qed.

  (* ---------- positions of b's legs inside the intermediate results ---------- *)
  Let y1ix := free_ixs G R a b aa ab.
  Let y2ix := free_ixs G R b c bb cb.
  Let posbb := map (fun j => index_of j rb) bb.
  Let posab := map (fun j => index_of j lb) ab.

  Lemma as_len_la : length (without_axes ixa aa) = nl.
  Proof. rewrite (without_axes_take ix_d). apply (length_take_axes ix_d). Qed.
  Lemma as_len_y1ix : length y1ix = n1.
  Proof. unfold y1ix, free_ixs. rewrite app_length, !(without_axes_take ix_d), !(length_take_axes ix_d). reflexivity. Qed.
  Lemma as_len_y2ix : length y2ix = n2.
  Proof. unfold y2ix, free_ixs. rewrite app_length, !(without_axes_take ix_d), !(length_take_axes ix_d). reflexivity. Qed.
  Lemma as_nth1 j : In j rb -> nth (prb j) y1ix ix_d = nth j ixb ix_d.
  Proof.
    intros Hj. unfold prb, y1ix, free_ixs. fold ixa ixb. rewrite app_nth2 by (rewrite as_len_la; lia).
    rewrite as_len_la. replace (nl + index_of j rb - nl) with (index_of j rb) by lia.
    rewrite (without_axes_take ix_d). fold (ndim G R (fbase G R b)). fold nb rb.
    apply (StructProofs.nth_index_of_map (fun i => nth i ixb ix_d) j rb ix_d Hj).
  Qed.
  Lemma as_nth2 j : In j lb -> nth (plb j) y2ix ix_d = nth j ixb ix_d.
  Proof.
    intros Hj. unfold plb, y2ix, free_ixs. fold ixb ixc.
    destruct (index_of_spec j lb Hj) as [Lj _].
    rewrite app_nth1 by (rewrite (without_axes_take ix_d), (length_take_axes ix_d); exact Lj).
    rewrite (without_axes_take ix_d). fold (ndim G R (fbase G R b)). fold nb lb.
    apply (StructProofs.nth_index_of_map (fun i => nth i ixb ix_d) j lb ix_d Hj).
  Qed.

  Lemma as_nd_bb1 : NoDup bb1.
  Proof.
    unfold bb1. apply NoDup_map_inj_in; [|apply (po_nda _ _ _ _ _ _ Pbc)]. intros x y Hx Hy E. unfold prb in E.
    apply (index_of_inj rb x y (as_bb_rb x Hx) (as_bb_rb y Hy)). lia.
  Qed.
  Lemma as_lt_bb1 i : In i bb1 -> i < n1.
  Proof.
    unfold bb1, prb, n1. intros H. apply in_map_iff in H. destruct H as [j [<- Hj]].
    destruct (index_of_spec j rb (as_bb_rb j Hj)) as [Lj _]. lia.
  Qed.
  Lemma as_nd_ab2 : NoDup ab2.
  Proof.
    unfold ab2. apply NoDup_map_inj_in; [|apply (po_ndb _ _ _ _ _ _ Pab)]. intros x y Hx Hy E.
    apply (index_of_inj lb x y (as_ab_lb x Hx) (as_ab_lb y Hy) E).
  Qed.
  Lemma as_lt_ab2 i : In i ab2 -> i < n2.
  Proof.
    unfold ab2, plb, n2. intros H. apply in_map_iff in H. destruct H as [j [<- Hj]].
    destruct (index_of_spec j lb (as_ab_lb j Hj)) as [Lj _]. lia.
  Qed.

  Lemma as_take1 {A} (d : A) (pre X : list A) (w : list nat) : length pre = nl -> (forall j, In j w -> In j rb) ->
    take_axes d (pre ++ take_axes d X rb) (map prb w) = take_axes d X w.
  Proof.
    intros Lp Hw. unfold prb. rewrite <- Lp. apply (take_embed rb d pre X w Hw).
  Qed.
  Lemma as_take_y1 (w : list nat) : (forall j, In j w -> In j rb) ->
    take_axes ix_d y1ix (map prb w) = take_axes ix_d ixb w.
  Proof.
    intros Hw. unfold take_axes. rewrite map_map. apply map_ext_in. intros j Hj. apply as_nth1, Hw, Hj.
  Qed.
  Lemma as_take_y2 (w : list nat) : (forall j, In j w -> In j lb) ->
    take_axes ix_d y2ix (map plb w) = take_axes ix_d ixb w.
  Proof.
    intros Hw. unfold take_axes. rewrite map_map. apply map_ext_in. intros j Hj. apply as_nth2, Hw, Hj.
  Qed.

  (* ---------- the two intermediate pairs are contractible ---------- *)
  Lemma as_pair1 (y1 : farr) : indices G R (fbase G R y1) = y1ix -> pair_ok G R y1 c bb1 cb.
  Proof.
    intros Ei. destruct Pbc as [NDbb Hbb NDcb Hcb Hlen Hd Htab]. constructor.
    - apply as_nd_bb1.
    - intros i Hi. unfold ndim. rewrite Ei, as_len_y1ix. now apply as_lt_bb1.
    - exact NDcb.
    - exact Hcb.
    - unfold bb1. now rewrite map_length.
    - unfold opposite_dirs in *. unfold bb1. revert Hd. apply Forall2_impl_map_l. intros i j Hi Hij.
      rewrite Ei, (as_nth1 i (as_bb_rb i Hi)). exact Hij.
    - rewrite Ei. unfold bb1. rewrite (as_take_y1 bb as_bb_rb). exact Htab.
  Qed.

  Lemma Forall2_impl_map_r {A B B'} (f : B -> B') (P0 : A -> B -> Prop) (Q0 : A -> B' -> Prop) la0 lb0 :
    (forall x y, In y lb0 -> P0 x y -> Q0 x (f y)) -> Forall2 P0 la0 lb0 -> Forall2 Q0 la0 (map f lb0).
  Proof.
    intros H F. induction F as [|x y la0 lb0 Hxy F IH]; cbn [map]; constructor.
    - apply H; [now left|exact Hxy].
    - apply IH. intros x' y' Hy'. apply H. now right.
  Qed.

  Lemma as_pair2 (y2 : farr) : indices G R (fbase G R y2) = y2ix -> pair_ok G R a y2 aa ab2.
  Proof.
    intros Ei. destruct Pab as [NDaa Haa NDab Hab Hlen Hd Htab]. constructor.
    - exact NDaa.
    - exact Haa.
    - apply as_nd_ab2.
    - intros i Hi. unfold ndim. rewrite Ei, as_len_y2ix. now apply as_lt_ab2.
    - unfold ab2. now rewrite map_length.
    - unfold opposite_dirs in *. unfold ab2. revert Hd. apply Forall2_impl_map_r. intros i j Hj Hij.
      rewrite Ei, (as_nth2 j (as_ab_lb j Hj)). exact Hij.
    - rewrite Ei. unfold ab2. rewrite (as_take_y2 ab as_ab_lb). exact Htab.
  Qed.

  (* ---------- the coordinates of b assembled along the two routes ---------- *)
  Definition B0 (cm k2 : list (coord G)) : list (coord G) := merge G (length rb) posbb cm k2.
  Definition L0 (cm k1 : list (coord G)) : list (coord G) := merge G (length lb) posab cm k1.
  Definition Bf1 (cm k1 k2 : list (coord G)) : list (coord G) := merge G nb ab (B0 cm k2) k1.
  Definition Bf2 (cm k1 k2 : list (coord G)) : list (coord G) := merge G nb bb (L0 cm k1) k2.

  Lemma as_nd_posbb : NoDup posbb.
  Proof.
    unfold posbb. apply NoDup_map_inj_in; [|apply (po_nda _ _ _ _ _ _ Pbc)]. intros x y Hx Hy E.
    apply (index_of_inj rb x y (as_bb_rb x Hx) (as_bb_rb y Hy) E).
  Qed.
  Lemma as_lt_posbb i : In i posbb -> i < length rb.
  Proof.
    unfold posbb. intros H. apply in_map_iff in H. destruct H as [j [<- Hj]]. apply (index_of_spec j rb (as_bb_rb j Hj)).
  Qed.
  Lemma as_nd_posab : NoDup posab.
  Proof. exact as_nd_ab2. Qed.
  Lemma as_lt_posab i : In i posab -> i < length lb.
  Proof.
    unfold posab. intros H. apply in_map_iff in H. destruct H as [j [<- Hj]]. apply (index_of_spec j lb (as_ab_lb j Hj)).
  Qed.
  Lemma as_posbb_rest : rest_axes (length rb) posbb = map (fun j => index_of j rb) mb.
  Proof.
    unfold rest_axes, posbb. pose proof (rest_embed rb (SS_rest_axes nb ab) 0 bb as_bb_rb) as H. cbn [Nat.add] in H.
    rewrite H. now rewrite <- as_mb_rb.
  Qed.
  Lemma as_posab_rest : rest_axes (length lb) posab = map (fun j => index_of j lb) mb.
  Proof.
    unfold rest_axes, posab. pose proof (rest_embed lb (SS_rest_axes nb bb) 0 ab as_ab_lb) as H. cbn [Nat.add] in H.
    rewrite H. now rewrite <- as_mb_lb.
  Qed.

  Section Coords.
    Context (cm k1 k2 : list (coord G)).
    Context (Lm : length cm = length mb) (L1 : length k1 = length ab) (L2 : length k2 = length bb).

    Lemma as_B0_len : length (B0 cm k2) = length rb. Proof. apply merge_length. Qed.
    Lemma as_L0_len : length (L0 cm k1) = length lb. Proof. apply merge_length. Qed.
    Lemma as_B0_bb : take_axes dcoord (B0 cm k2) posbb = k2.
    Proof.
      unfold B0, merge. apply take_scatterA_axes; [apply as_nd_posbb|apply as_lt_posbb|].
      unfold posbb. now rewrite map_length.
    Qed.
    Lemma as_B0_mb : take_axes dcoord (B0 cm k2) (map (fun j => index_of j rb) mb) = cm.
    Proof.
      rewrite <- as_posbb_rest. unfold B0, merge. apply take_scatterA_rest.
      rewrite as_posbb_rest, map_length. exact Lm.
    Qed.
    Lemma as_L0_ab : take_axes dcoord (L0 cm k1) posab = k1.
    Proof.
      unfold L0, merge. apply take_scatterA_axes; [apply as_nd_posab|apply as_lt_posab|].
      unfold posab. now rewrite map_length.
    Qed.
    Lemma as_L0_mb : take_axes dcoord (L0 cm k1) (map (fun j => index_of j lb) mb) = cm.
    Proof.
      rewrite <- as_posab_rest. unfold L0, merge. apply take_scatterA_rest.
      rewrite as_posab_rest, map_length. exact Lm.
    Qed.

    Lemma as_Bf1_len : length (Bf1 cm k1 k2) = nb. Proof. apply merge_length. Qed.
    Lemma as_Bf2_len : length (Bf2 cm k1 k2) = nb. Proof. apply merge_length. Qed.
    Lemma as_Bf1_ab : take_axes dcoord (Bf1 cm k1 k2) ab = k1.
    Proof.
      unfold Bf1, merge. apply take_scatterA_axes; [apply (po_ndb _ _ _ _ _ _ Pab)|apply (po_ltb _ _ _ _ _ _ Pab)|exact L1].
    Qed.
    Lemma as_Bf1_rb : take_axes dcoord (Bf1 cm k1 k2) rb = B0 cm k2.
    Proof. unfold Bf1, merge, rb. apply take_scatterA_rest. fold rb. apply as_B0_len. Qed.
    Lemma as_Bf1_bb : take_axes dcoord (Bf1 cm k1 k2) bb = k2.
    Proof. rewrite <- (take_via dcoord (Bf1 cm k1 k2) rb bb as_bb_rb). rewrite as_Bf1_rb. apply as_B0_bb. Qed.
    Lemma as_Bf1_mb : take_axes dcoord (Bf1 cm k1 k2) mb = cm.
    Proof. rewrite <- (take_via dcoord (Bf1 cm k1 k2) rb mb as_mb_in_rb). rewrite as_Bf1_rb. apply as_B0_mb. Qed.
    Lemma as_Bf2_bb : take_axes dcoord (Bf2 cm k1 k2) bb = k2.
    Proof.
      unfold Bf2, merge. apply take_scatterA_axes; [apply (po_nda _ _ _ _ _ _ Pbc)|apply (po_lta _ _ _ _ _ _ Pbc)|exact L2].
    Qed.
    Lemma as_Bf2_lb : take_axes dcoord (Bf2 cm k1 k2) lb = L0 cm k1.
    Proof. unfold Bf2, merge, lb. apply take_scatterA_rest. fold lb. apply as_L0_len. Qed.
    Lemma as_Bf2_ab : take_axes dcoord (Bf2 cm k1 k2) ab = k1.
    Proof. rewrite <- (take_via dcoord (Bf2 cm k1 k2) lb ab as_ab_lb). rewrite as_Bf2_lb. apply as_L0_ab. Qed.
    Lemma as_Bf2_mb : take_axes dcoord (Bf2 cm k1 k2) mb = cm.
    Proof. rewrite <- (take_via dcoord (Bf2 cm k1 k2) lb mb as_mb_in_lb). rewrite as_Bf2_lb. apply as_L0_mb. Qed.

    Lemma as_Bf_eq : Bf1 cm k1 k2 = Bf2 cm k1 k2.
    Proof.
      apply (StructProofs.permuted_inj dcoord nb ((ab ++ bb) ++ mb)); [|apply as_Bf1_len|apply as_Bf2_len|].
      - intros i Hi. apply (Permutation_in _ (Permutation_sym (perm_axes_rest nb (ab ++ bb) as_nd_abbb as_lt_abbb))).
        apply in_seq. lia.
      - change (take_axes dcoord (Bf1 cm k1 k2) ((ab ++ bb) ++ mb) = take_axes dcoord (Bf2 cm k1 k2) ((ab ++ bb) ++ mb)).
        rewrite !take_axes_app. now rewrite as_Bf1_ab, as_Bf1_bb, as_Bf1_mb, as_Bf2_ab, as_Bf2_bb, as_Bf2_mb.
    Qed.

    Lemma as_merge1 (cl : list (coord G)) : length cl = nl ->
      merge G n1 bb1 (cl ++ cm) k2 = cl ++ B0 cm k2.
    Proof.
      intros Lc. unfold merge at 1.
      apply (proj2 (scatterA_eq_iff dcoord n1 bb1 k2 (cl ++ cm) (cl ++ B0 cm k2) as_nd_bb1 as_lt_bb1
                      ltac:(unfold bb1; rewrite map_length; exact L2)
                      ltac:(rewrite as_rest1, !app_length, seq_length, map_length; lia)
                      ltac:(rewrite app_length, as_B0_len; unfold n1; lia))).
      split.
      - unfold bb1, prb. rewrite <- (map_map (fun j => index_of j rb) (fun i => nl + i)). rewrite <- Lc.
        rewrite take_shift. symmetry. apply as_B0_bb.
      - rewrite as_rest1, take_axes_app. f_equal.
        + rewrite <- Lc. symmetry. apply (take_app_l dcoord cl (B0 cm k2)).
        + unfold prb. rewrite <- (map_map (fun j => index_of j rb) (fun i => nl + i)). rewrite <- Lc.
          rewrite take_shift. symmetry. apply as_B0_mb.
    Qed.

    Lemma as_merge2 (cr : list (coord G)) : length cr = length rc ->
      merge G n2 ab2 (cm ++ cr) k1 = L0 cm k1 ++ cr.
    Proof.
      intros Lc. unfold merge at 1.
      apply (proj2 (scatterA_eq_iff dcoord n2 ab2 k1 (cm ++ cr) (L0 cm k1 ++ cr) as_nd_ab2 as_lt_ab2
                      ltac:(unfold ab2; rewrite map_length; exact L1)
                      ltac:(rewrite as_rest2, !app_length, seq_length, map_length; lia)
                      ltac:(rewrite app_length, as_L0_len; unfold n2; lia))).
      split.
      - rewrite take_prefix by (intros i Hi; pose proof as_L0_len as E; unfold coord in *; rewrite E; exact (as_lt_posab i Hi)).
        symmetry. exact as_L0_ab.
      - rewrite as_rest2, take_axes_app. f_equal.
        + unfold plb. rewrite take_prefix.
          * symmetry. apply as_L0_mb.
          * intros i Hi. apply in_map_iff in Hi. destruct Hi as [j [<- Hj]].
            pose proof as_L0_len as E. unfold coord in *. rewrite E.
            apply (index_of_spec j lb (as_mb_in_lb j Hj)).
        + rewrite <- as_L0_len, <- Lc. symmetry. apply (take_app_r dcoord (L0 cm k1) cr).
    Qed.
  End Coords.

  (* ---------- the sign identity of one term ---------- *)
  Lemma as_sign (y1 y2 : farr) (Kl Kr sb : sector) :
    indices G R (fbase G R y1) = y1ix -> indices G R (fbase G R y2) = y2ix ->
    length sb = nb -> length Kl = nl -> length Kr = length rc ->
    xorb (sigma_a G R y1 bb1 (Kl ++ take_axes ch_d sb rb)) (sigma_b G R b ab sb)
    = xorb (sigma_b G R y2 ab2 (take_axes ch_d sb lb ++ Kr)) (sigma_a G R b bb sb).
  Proof.
    intros E1 E2 Lb Ll Lr.
    set (s1 := Kl ++ take_axes ch_d sb rb). set (s2 := take_axes ch_d sb lb ++ Kr).
    assert (Ls1 : length s1 = n1) by (unfold s1, n1; rewrite app_length, (length_take_axes ch_d); lia).
    assert (Ls2 : length s2 = n2) by (unfold s2, n2; rewrite app_length, (length_take_axes ch_d); lia).
    unfold sigma_a, sigma_b. unfold ndim. rewrite E1, E2, as_len_y1ix, as_len_y2ix.
    fold (ndim G R (fbase G R b)). fold nb rb lb.
    pose proof (perm_rest_axes n1 bb1 as_nd_bb1 as_lt_bb1) as P1.
    pose proof (perm_axes_rest n2 ab2 as_nd_ab2 as_lt_ab2) as P2.
    pose proof (perm_axes_rest nb ab (po_ndb _ _ _ _ _ _ Pab) (po_ltb _ _ _ _ _ _ Pab)) as P3. fold rb in P3.
    pose proof (perm_rest_axes nb bb (po_nda _ _ _ _ _ _ Pbc) (po_lta _ _ _ _ _ _ Pbc)) as P4. fold lb in P4.
    rewrite (inv_parity_wsg G s1 (rest_axes n1 bb1 ++ bb1)) by (intros i Hi; rewrite Ls1; apply (perm_lt _ _ P1 i Hi)).
    rewrite (inv_parity_wsg G sb (rev ab ++ rb))
      by (intros i Hi; rewrite Lb; apply (perm_lt _ _ P3); apply in_app_iff in Hi; apply in_app_iff;
          destruct Hi as [Hi|Hi]; [left; now apply in_rev|now right]).
    rewrite (inv_parity_wsg G s2 (rev ab2 ++ rest_axes n2 ab2))
      by (intros i Hi; rewrite Ls2; apply (perm_lt _ _ P2); apply in_app_iff in Hi; apply in_app_iff;
          destruct Hi as [Hi|Hi]; [left; now apply in_rev|now right]).
    rewrite (inv_parity_wsg G sb (lb ++ bb)) by (intros i Hi; rewrite Lb; apply (perm_lt _ _ P4 i Hi)).
    (* the ket-bra counts agree *)
    assert (Ek : ketbra_a G R y1 bb1 s1 = ketbra_a G R b bb sb).
    { unfold ketbra_a, count_odd, bb1. f_equal. rewrite filter_map_comm, filter_map_comm, map_length, !filter_filter.
      f_equal. apply filter_ext_in. intros j Hj. pose proof (as_bb_rb j Hj) as Hjr. f_equal.
      - rewrite E1, (as_nth1 j Hjr). reflexivity.
      - unfold odd_at, s1, prb. f_equal. rewrite app_nth2 by lia. rewrite Ll.
        replace (nl + index_of j rb - nl) with (index_of j rb) by lia.
        unfold take_axes. apply (StructProofs.nth_index_of_map (fun i => nth i sb ch_d) j rb ch_d Hjr). }
    rewrite Ek.
    (* route 1: the word of y1 read in b *)
    assert (W1 : wsg (odd_at G s1) (rest_axes n1 bb1 ++ bb1) = wsg (odd_at G sb) (mb ++ bb)).
    { rewrite as_rest1. unfold bb1. rewrite <- app_assoc, <- map_app.
      rewrite wsg_app, (wsg_sorted _ (seq 0 nl) (SS_seq 0 nl)).
      rewrite wcr_before.
      2:{ intros x y Hx Hy. apply in_seq in Hx. apply in_map_iff in Hy. destruct Hy as [j [<- _]]. unfold prb. lia. }
      rewrite xorb_false_r, xorb_false_l. unfold s1, prb. rewrite <- Ll.
      rewrite <- (app_nil_r (take_axes ch_d sb rb)).
      apply (wsg_embed G sb Kl [] rb (mb ++ bb) (SS_rest_axes nb ab)).
      intros j Hj. apply in_app_iff in Hj. destruct Hj as [Hj|Hj]; [now apply as_mb_in_rb|now apply as_bb_rb]. }
    (* route 2: the word of y2 read in b *)
    assert (W2 : wsg (odd_at G s2) (rev ab2 ++ rest_axes n2 ab2) = wsg (odd_at G sb) (rev ab ++ mb)).
    { rewrite as_rest2. unfold ab2. rewrite <- map_rev, app_assoc, <- map_app.
      rewrite wsg_app, (wsg_sorted _ (seq (length lb) (length rc)) (SS_seq _ _)).
      rewrite wcr_before.
      2:{ intros x y Hx Hy. apply in_seq in Hy. apply in_map_iff in Hx. destruct Hx as [j [<- Hj]]. unfold plb.
          assert (Hjl : In j lb).
          { apply in_app_iff in Hj. destruct Hj as [Hj|Hj]; [apply as_ab_lb; now apply in_rev|now apply as_mb_in_lb]. }
          destruct (index_of_spec j lb Hjl). lia. }
      rewrite !xorb_false_r. unfold s2, plb.
      apply (wsg_embed G sb [] Kr lb (rev ab ++ mb) (SS_rest_axes nb bb)).
      intros j Hj. apply in_app_iff in Hj. destruct Hj as [Hj|Hj]; [apply as_ab_lb; now apply in_rev|now apply as_mb_in_lb]. }
    rewrite W1, W2.
    pose proof (chain_words (odd_at G sb) ab bb mb rb lb (SS_rest_axes nb ab) (SS_rest_axes nb bb)
                  (SS_rest_axes nb (ab ++ bb)) as_perm_rb as_perm_lb) as HC.
    revert HC.
    generalize (wsg (odd_at G sb) (mb ++ bb)) (wsg (odd_at G sb) (rev ab ++ rb)) (wsg (odd_at G sb) (rev ab ++ mb))
               (wsg (odd_at G sb) (lb ++ bb)) (ketbra_a G R b bb sb).
    intros b1 b2 b3 b4 b5 HC. destruct b1, b2, b3, b4, b5; cbn in *; congruence.
  Qed.

  Lemma as_D_ab : distinct (foddpos G R a ++ foddpos G R b).
  Proof.
    unfold distinct, labels in *. rewrite !map_app in *. rewrite app_assoc in D. apply (NoDup_app_keep_l _ _ D).
  Qed.
  Lemma as_D_bc : distinct (foddpos G R b ++ foddpos G R c).
  Proof. unfold distinct, labels in *. rewrite !map_app in *. apply (NoDup_app_keep_r _ _ D). Qed.

  Lemma map_fst_take (X : list (coord G)) w : map fst (take_axes dcoord X w) = take_axes ch_d (map fst X) w.
  Proof. unfold take_axes. rewrite !map_map. apply map_ext. intros i. symmetry. apply (map_nth fst X dcoord i). Qed.

  (* assoc_chain: (a.b).c and a.(b.c) have the same labels and the same value at every coordinate *)
  Theorem assoc_chain :
    exists y1 y12 y2 y21,
      f_tensordot G R a b (naxes aa ab) MBlockwise = Some y1
      /\ f_tensordot G R y1 c (naxes bb1 cb) MBlockwise = Some y12
      /\ f_tensordot G R b c (naxes bb cb) MBlockwise = Some y2
      /\ f_tensordot G R a y2 (naxes aa ab2) MBlockwise = Some y21
      /\ foddpos G R y12 = foddpos G R y21
      /\ forall cl cm cr,
           coords_ok G (without_axes ixa aa) cl = true ->
           coords_ok G (without_axes ixb (ab ++ bb)) cm = true ->
           coords_ok G (without_axes ixc cb) cr = true ->
           Vv y12 (cl ++ cm ++ cr) = Vv y21 (cl ++ cm ++ cr).
  Proof.
    (* ---- route 1 ---- *)
    destruct (tdot_main G GL OL R NL RL a b aa ab Wa Wb Pab as_D_ab) as [y1 [m1 (E1 & R1 & PL1 & W1 & Du1 & Q1 & S1)]].
    set (y1' := reindex G R y1 y1ix) in *.
    pose proof (same_val_reindex G R y1 y1ix Du1) as SV1. fold y1' in SV1.
    pose proof (as_pair1 y1' eq_refl) as P1.
    assert (D1c : distinct (foddpos G R y1' ++ foddpos G R c)).
    { apply (distinct_perm ((foddpos G R a ++ foddpos G R b) ++ foddpos G R c)).
      - apply Permutation_app_tail. symmetry. exact PL1.
      - rewrite <- app_assoc. exact D. }
    destruct (tdot_main G GL OL R NL RL y1' c bb1 cb W1 Wc P1 D1c) as [y12' [m12 (E12' & R12 & _ & _ & _ & _ & S12)]].
    destruct (same_val_tdot G GL R NL y1' y1 c c (naxes bb1 cb) bb1 cb y12' SV1 (same_val_refl G R c)
                (parse_naxes G R y1' c bb1 cb P1) (wff_nodup G GL R y1' W1) (wff_len G GL R y1' W1)
                (wff_nodup G GL R c Wc) (wff_len G GL R c Wc)
                (po_nda _ _ _ _ _ _ P1) (po_lta _ _ _ _ _ _ P1) (po_ndb _ _ _ _ _ _ P1) (po_ltb _ _ _ _ _ _ P1)
                (po_dirs _ _ _ _ _ _ P1) E12') as [y12 (E12 & O12 & _ & V12)].
    (* ---- route 2 ---- *)
    destruct (tdot_main G GL OL R NL RL b c bb cb Wb Wc Pbc as_D_bc) as [y2 [m2 (E2 & R2 & PL2 & W2 & Du2 & Q2 & S2)]].
    set (y2' := reindex G R y2 y2ix) in *.
    pose proof (same_val_reindex G R y2 y2ix Du2) as SV2. fold y2' in SV2.
    pose proof (as_pair2 y2' eq_refl) as P2.
    assert (Da2 : distinct (foddpos G R a ++ foddpos G R y2')).
    { apply (distinct_perm (foddpos G R a ++ foddpos G R b ++ foddpos G R c)).
      - apply Permutation_app_head. symmetry. exact PL2.
      - exact D. }
    destruct (tdot_main G GL OL R NL RL a y2' aa ab2 Wa W2 P2 Da2) as [y21' [m21 (E21' & R21 & _ & _ & _ & _ & S21)]].
    destruct (same_val_tdot G GL R NL a a y2' y2 (naxes aa ab2) aa ab2 y21' (same_val_refl G R a) SV2
                (parse_naxes G R a y2' aa ab2 P2) (wff_nodup G GL R a Wa) (wff_len G GL R a Wa)
                (wff_nodup G GL R y2' W2) (wff_len G GL R y2' W2)
                (po_nda _ _ _ _ _ _ P2) (po_lta _ _ _ _ _ _ P2) (po_ndb _ _ _ _ _ _ P2) (po_ltb _ _ _ _ _ _ P2)
                (po_dirs _ _ _ _ _ _ P2) E21') as [y21 (E21 & O21 & _ & V21)].
    exists y1, y12, y2, y21. split; [exact E1|]. split; [exact E12|]. split; [exact E2|]. split; [exact E21|].
    (* ---- labels and global signs ---- *)
    destruct (resolve_assoc (foddpos G R a) (foddpos G R b) (foddpos G R c) (fparity G R a) (fparity G R b) D)
      as [s1 [lab [s2 [t1 [lbc [t2 [labc (A1 & A2 & A3 & A4 & A5 & _ & _)]]]]]]].
    rewrite R1 in A1. injection A1 as A1 A1'. subst s1.
    change (foddpos G R y1') with (foddpos G R y1) in R12.
    change (fparity G R y1') with (fparity G R y1) in R12. rewrite Q1, A1' in R12.
    rewrite R12 in A2. injection A2 as A2 A2'. subst s2.
    rewrite R2 in A3. injection A3 as A3 A3'. subst t1.
    change (foddpos G R y2') with (foddpos G R y2) in R21. rewrite A3' in R21.
    rewrite R21 in A4. injection A4 as A4 A4'. subst t2.
    split; [congruence|].
    (* ---- values ---- *)
    intros cl cm cr Hcl Hcm Hcr.
    pose proof (Tdot.coords_ok_length G _ _ Hcl) as Lcl. rewrite as_len_la in Lcl.
    pose proof (Tdot.coords_ok_length G _ _ Hcm) as Lcm.
    rewrite (without_axes_take ix_d), (length_take_axes ix_d) in Lcm.
    fold (ndim G R (fbase G R b)) in Lcm. fold nb mb in Lcm.
    pose proof (Tdot.coords_ok_length G _ _ Hcr) as Lcr.
    rewrite (without_axes_take ix_d), (length_take_axes ix_d) in Lcr.
    fold (ndim G R (fbase G R c)) in Lcr. fold nc rc in Lcr.
    assert (Hcm' : coords_ok G (take_axes ix_d ixb mb) cm = true).
    { rewrite (without_axes_take ix_d) in Hcm. exact Hcm. }
    set (K1 := all_coords G (take_axes ix_d ixa aa)).
    set (K2 := all_coords G (take_axes ix_d ixb bb)).
    assert (HK1 : forall k1, In k1 K1 -> coords_ok G (take_axes ix_d ixa aa) k1 = true)
      by (intros k1 H; apply (In_all_coords G cspec _ k1 (wff_ix_nodup G GL OL R a aa Wa) H)).
    assert (HK2 : forall k2, In k2 K2 -> coords_ok G (take_axes ix_d ixb bb) k2 = true)
      by (intros k2 H; apply (In_all_coords G cspec _ k2 (wff_ix_nodup G GL OL R b bb Wb) H)).
    assert (LK1 : forall k1, In k1 K1 -> length k1 = length ab).
    { intros k1 H. rewrite (Tdot.coords_ok_length G _ _ (HK1 k1 H)), (length_take_axes ix_d). apply (po_len _ _ _ _ _ _ Pab). }
    assert (LK2 : forall k2, In k2 K2 -> length k2 = length bb).
    { intros k2 H. rewrite (Tdot.coords_ok_length G _ _ (HK2 k2 H)). apply (length_take_axes ix_d). }
    (* coordinates of b restricted to rb / lb are inside the tables *)
    assert (HB0 : forall k2, In k2 K2 -> coords_ok G (without_axes ixb ab) (B0 cm k2) = true).
    { intros k2 H. rewrite (without_axes_take ix_d). fold (ndim G R (fbase G R b)). fold nb rb.
      set (Irb := take_axes ix_d ixb rb).
      assert (LI : length Irb = length rb) by apply (length_take_axes ix_d).
      unfold B0. rewrite <- LI. apply (coords_ok_merge G Irb posbb cm k2 as_nd_posbb).
      - intros i Hi. rewrite LI. now apply as_lt_posbb.
      - unfold Irb, posbb. rewrite (take_via ix_d ixb rb bb as_bb_rb). apply HK2, H.
      - rewrite (without_axes_take ix_d), LI, as_posbb_rest. unfold Irb.
        rewrite (take_via ix_d ixb rb mb as_mb_in_rb). exact Hcm'. }
    assert (HL0 : forall k1, In k1 K1 -> coords_ok G (without_axes ixb bb) (L0 cm k1) = true).
    { intros k1 H. rewrite (without_axes_take ix_d). fold (ndim G R (fbase G R b)). fold nb lb.
      set (Ilb := take_axes ix_d ixb lb).
      assert (LI : length Ilb = length lb) by apply (length_take_axes ix_d).
      unfold L0. rewrite <- LI. apply (coords_ok_merge G Ilb posab cm k1 as_nd_posab).
      - intros i Hi. rewrite LI. now apply as_lt_posab.
      - unfold Ilb, posab. rewrite (take_via ix_d ixb lb ab as_ab_lb).
        pose proof (coords_ok_agree G _ _ k1 (po_tabs _ _ _ _ _ _ Pab)) as EA. fold ixa ixb in EA.
        rewrite <- EA. apply HK1, H.
      - rewrite (without_axes_take ix_d), LI, as_posab_rest. unfold Ilb.
        rewrite (take_via ix_d ixb lb mb as_mb_in_lb). exact Hcm'. }
    (* ---- the left-hand side as a double sum ---- *)
    assert (LHS : Vv y12 (cl ++ cm ++ cr)
      = rsg m12 (rsum R (map (fun k2 =>
          rmul R (rsg (sigma_a G R y1' bb1 (map fst (cl ++ B0 cm k2)))
                      (rsg m1 (rsum R (map (fun k1 =>
                         rmul R (rsg (sigma_a G R a aa (map fst (merge G na aa cl k1))) (Vv a (merge G na aa cl k1)))
                                (rsg (sigma_b G R b ab (map fst (Bf1 cm k1 k2))) (Vv b (Bf1 cm k1 k2)))) K1))))
                 (rsg (sigma_b G R c cb (map fst (merge G nc cb cr k2))) (Vv c (merge G nc cb cr k2)))) K2))).
    { rewrite V12, app_assoc.
      assert (Hc1 : coords_ok G (without_axes (indices G R (fbase G R y1')) bb1) (cl ++ cm) = true).
      { change (indices G R (fbase G R y1')) with y1ix. rewrite (without_axes_take ix_d), as_len_y1ix, as_rest1, take_axes_app.
        apply coords_ok_app.
        - unfold y1ix, free_ixs. fold ixa ixb. rewrite <- as_len_la, (take_app_l ix_d). exact Hcl.
        - rewrite (as_take_y1 mb as_mb_in_rb). exact Hcm'. }
      rewrite (S12 (cl ++ cm) cr Hc1 Hcr). f_equal.
      change (indices G R (fbase G R y1')) with y1ix. unfold bb1 at 4. rewrite (as_take_y1 bb as_bb_rb). fold K2.
      apply (Tdot.rsum_ext R). intros k2 Hk2.
      assert (N1 : ndim G R (fbase G R y1') = n1) by (unfold ndim; change (indices G R (fbase G R y1')) with y1ix; apply as_len_y1ix).
      rewrite N1, (as_merge1 cm (repeat dcoord (length ab)) k2 Lcm (repeat_length _ _) (LK2 k2 Hk2) cl Lcl). fold nc. f_equal. f_equal.
      rewrite (same_val_V G R y1' y1 SV1). rewrite (S1 cl (B0 cm k2) Hcl (HB0 k2 Hk2)). fold na nb K1. reflexivity. }
    (* ---- the right-hand side as a double sum ---- *)
    assert (RHS : Vv y21 (cl ++ cm ++ cr)
      = rsg m21 (rsum R (map (fun k1 =>
          rmul R (rsg (sigma_a G R a aa (map fst (merge G na aa cl k1))) (Vv a (merge G na aa cl k1)))
                 (rsg (sigma_b G R y2' ab2 (map fst (L0 cm k1 ++ cr)))
                      (rsg m2 (rsum R (map (fun k2 =>
                         rmul R (rsg (sigma_a G R b bb (map fst (Bf1 cm k1 k2))) (Vv b (Bf1 cm k1 k2)))
                                (rsg (sigma_b G R c cb (map fst (merge G nc cb cr k2))) (Vv c (merge G nc cb cr k2)))) K2))))) K1))).
    { rewrite V21.
      assert (Hc2 : coords_ok G (without_axes (indices G R (fbase G R y2')) ab2) (cm ++ cr) = true).
      { change (indices G R (fbase G R y2')) with y2ix. rewrite (without_axes_take ix_d), as_len_y2ix, as_rest2, take_axes_app.
        apply coords_ok_app.
        - rewrite (as_take_y2 mb as_mb_in_lb). exact Hcm'.
        - unfold y2ix, free_ixs. fold ixb ixc.
          assert (Ll : length (without_axes ixb bb) = length lb)
            by (rewrite (without_axes_take ix_d); apply (length_take_axes ix_d)).
          assert (Lr : length (without_axes ixc cb) = length rc)
            by (rewrite (without_axes_take ix_d); apply (length_take_axes ix_d)).
          rewrite <- Ll, <- Lr, (take_app_r ix_d). exact Hcr. }
      rewrite (S21 cl (cm ++ cr) Hcl Hc2). f_equal. fold na K1.
      apply (Tdot.rsum_ext R). intros k1 Hk1.
      assert (N2 : ndim G R (fbase G R y2') = n2) by (unfold ndim; change (indices G R (fbase G R y2')) with y2ix; apply as_len_y2ix).
      rewrite N2, (as_merge2 cm k1 (repeat dcoord (length bb)) Lcm (LK1 k1 Hk1) (repeat_length _ _) cr Lcr). f_equal. f_equal.
      rewrite (same_val_V G R y2' y2 SV2). rewrite (S2 (L0 cm k1) cr (HL0 k1 Hk1) Hcr). fold nb nc K2. f_equal.
      apply (Tdot.rsum_ext R). intros k2 Hk2.
      change (merge G nb bb (L0 cm k1) k2) with (Bf2 cm k1 k2).
      now rewrite <- (as_Bf_eq cm k1 k2 Lcm (LK1 k1 Hk1) (LK2 k2 Hk2)). }
    rewrite LHS, RHS.
    apply (chain_sums R NL RL CL K1 K2 m12 m1 m21 m2). intros k1 k2 Hk1 Hk2.
    (* ---- the sign of one term ---- *)
    pose proof (as_sign y1' y2' (map fst cl) (map fst cr) (map fst (Bf1 cm k1 k2)) eq_refl eq_refl
                  ltac:(rewrite map_length; apply as_Bf1_len) ltac:(rewrite map_length; exact Lcl)
                  ltac:(rewrite map_length; exact Lcr)) as HS.
    rewrite <- !map_fst_take in HS.
    rewrite (as_Bf1_rb cm k1 k2) in HS.
    rewrite (as_Bf_eq cm k1 k2 Lcm (LK1 k1 Hk1) (LK2 k2 Hk2)) in HS at 2.
    rewrite (as_Bf2_lb cm k1 k2) in HS. rewrite <- !map_app in HS.
    set (X1 := sigma_a G R y1' bb1 (map fst (cl ++ B0 cm k2))).
    set (X2 := sigma_b G R b ab (map fst (Bf1 cm k1 k2))).
    set (X3 := sigma_b G R y2' ab2 (map fst (L0 cm k1 ++ cr))).
    set (X4 := sigma_a G R b bb (map fst (Bf1 cm k1 k2))).
    change (xorb X1 X2 = xorb X3 X4) in HS.
    revert HS A5.
    generalize X1 X2 X3 X4 (sigma_a G R a aa (map fst (merge G na aa cl k1))) (sigma_b G R c cb (map fst (merge G nc cb cr k2))).
    intros b1 b2 b3 b4 b5 b6 HS A5.
    destruct m1, m12, m2, m21, b1, b2, b3, b4, b5, b6; cbn in *; congruence.
  Qed.
End Assoc.

(* ================================================================ part 9 *)
(* a fermionic transpose applied to the SECOND operand beforehand *)
Section PreTransposeB.
  Context (G : Symmetry) (GL : GroupLaws G) (OL : OrderProofs.OrderLaws G).
  Context (R : Ring) (NL : NegLaws R) (RL : SumLaws R).
  Notation sector := (list (C G)).
  Notation farr := (farray G R).
  Notation ch_d := (ident G).
  Notation ix_d := (dflt_index G).
  Notation dcoord := (ident G, 0).
  Notation cspec := (ceqb_eq G GL).
  Notation rsg := (rsgn R).
  Notation Vv := (V G R).

  Context (a b : farr) (aa ab p : list nat).
  Context (Wa : wf_fermi G R a = true) (Wb : wf_fermi G R b = true) (P : pair_ok G R a b aa ab).
  Context (HP : Permutation p (seq 0 (ndim G R (fbase G R b)))).
  Let na := ndim G R (fbase G R a).
  Let nb := ndim G R (fbase G R b).
  Let g (i : nat) : nat := nth i p 0.
  Let h (j : nat) : nat := index_of j p.
  Let b' := f_transpose G R b p true.
  Let ab' := map h ab.
  Let rb := rest_axes nb ab.
  Let rb' := rest_axes nb ab'.
  Let rp := map g rb'.
  Let qr := map (fun j => index_of j rb) rp.
  Let nl := na - length aa.
  Let nr := length rb.
  Let q := seq 0 nl ++ map (fun i => nl + i) qr.
  Let P' := pair_ok_sym G R a b aa ab P.

  Lemma ptb_perm_rp : Permutation rp rb. Proof. exact (pt_perm_lp G R b a ab aa p P' HP). Qed.
  Lemma ptb_rp_rb : map (fun t => nth t rb 0) qr = rp. Proof. exact (pt_lp_la G R b a ab aa p P' HP). Qed.
  Lemma ptb_perm_qr : Permutation qr (seq 0 nr). Proof. exact (pt_perm_ql G R b a ab aa p P' HP). Qed.
  Lemma ptb_pair_ok : pair_ok G R a b' aa ab'.
  Proof. apply pair_ok_sym. exact (pt_pair_ok G R b a ab aa p P' HP). Qed.
  Lemma ptb_ndim : ndim G R (fbase G R b') = nb. Proof. exact (pt_ndim G R b p HP). Qed.
  Lemma ptb_len_p : length p = nb. Proof. exact (pt_len_p G R b p HP). Qed.

  Lemma ptb_perm_q : Permutation q (seq 0 (nl + nr)).
  Proof.
    unfold q. rewrite seq_app. apply Permutation_app_head. cbn [Nat.add].
    rewrite (seq_add_map nr nl). apply Permutation_map, ptb_perm_qr.
  Qed.

  Lemma ptb_sign (sb Kl : sector) : length sb = nb -> length Kl = nl ->
    xorb (sigma_b G R b' ab' (permuted ch_d sb p)) (wsg (odd_at G sb) p)
    = xorb (wsg (odd_at G (Kl ++ take_axes ch_d sb rb)) q) (sigma_b G R b ab sb).
  Proof.
    intros Lb Ll. unfold sigma_b. rewrite ptb_ndim. fold nb rb rb'.
    set (sb' := permuted ch_d sb p).
    assert (Lsb' : length sb' = nb) by (unfold sb'; rewrite permuted_length; apply ptb_len_p).
    assert (Hodd : forall i, i < nb -> odd_at G sb' i = odd_at G sb (g i)).
    { intros i Hi. unfold odd_at, sb', permuted. f_equal.
      apply (map_nth_lt (fun i => nth i sb ch_d) p 0 ch_d). now rewrite ptb_len_p. }
    pose proof (po_ndb _ _ _ _ _ _ P) as NDab. pose proof (po_ltb _ _ _ _ _ _ P) as Hab. fold nb in Hab.
    pose proof (po_nda _ _ _ _ _ _ ptb_pair_ok) as _.
    pose proof (po_ndb _ _ _ _ _ _ ptb_pair_ok) as NDab'. pose proof (po_ltb _ _ _ _ _ _ ptb_pair_ok) as Hab'.
    rewrite ptb_ndim in Hab'.
    pose proof (perm_axes_rest nb ab' NDab' Hab') as PB'. fold rb' in PB'.
    pose proof (perm_axes_rest nb ab NDab Hab) as PB. fold rb in PB.
    assert (PR' : Permutation (rev ab' ++ rb') (seq 0 nb)).
    { rewrite <- PB'. apply Permutation_app_tail. symmetry. apply Permutation_rev. }
    assert (PR : Permutation (rev ab ++ rb) (seq 0 nb)).
    { rewrite <- PB. apply Permutation_app_tail. symmetry. apply Permutation_rev. }
    rewrite (inv_parity_wsg G sb' (rev ab' ++ rb')) by (intros i Hi; rewrite Lsb'; apply (perm_lt _ _ PR' i Hi)).
    rewrite (inv_parity_wsg G sb (rev ab ++ rb)) by (intros i Hi; rewrite Lb; apply (perm_lt _ _ PR i Hi)).
    set (P0 := fun i => odd_at G sb (g i)).
    assert (Mg : map g ab' = ab) by exact (pt_map_g_aa' G R b a ab aa p P' HP).
    assert (E1 : wsg (odd_at G sb') (rev ab' ++ rb') = xorb (wsg (odd_at G sb) (rev ab ++ rp)) (wsg (odd_at G sb) p)).
    { rewrite (wsg_ext_in (odd_at G sb') P0 (rev ab' ++ rb')) by (intros i Hi; apply Hodd, (perm_lt _ _ PR' i Hi)).
      pose proof (winv_diff_canon P0 (fun i : nat => i) g (rev ab' ++ rb') (seq 0 nb) PR'
                    ltac:(intros x y _ _ E; exact E)
                    ltac:(intros x y Hx Hy E; apply (proj1 (NoDup_nth p 0) (pt_nd_p G R b p HP));
                          [rewrite ptb_len_p; apply (perm_lt _ _ PR' x Hx)|rewrite ptb_len_p; apply (perm_lt _ _ PR' y Hy)|exact E])) as Dd.
      rewrite (winv_sorted P0 (fun i : nat => i) (seq 0 nb) (SS_seq 0 nb)) in Dd. rewrite xorb_false_r in Dd.
      unfold wsg at 1. rewrite Dd.
      assert (Wm : forall w, winv P0 g w = wsg (odd_at G sb) (map g w)) by (intros w; unfold wsg; rewrite winv_map; reflexivity).
      rewrite !Wm. rewrite map_app, map_rev, Mg. fold rp. f_equal. f_equal.
      unfold g. rewrite <- ptb_len_p. apply StructProofs.map_nth_seq. }
    rewrite E1.
    assert (E2 : xorb (wsg (odd_at G sb) (rev ab ++ rp)) (wsg (odd_at G sb) (rev ab ++ rb)) = wsg (odd_at G sb) rp).
    { rewrite !wsg_app. rewrite (wcr_perm_r (odd_at G sb) (rev ab) rp rb ptb_perm_rp).
      rewrite (wsg_sorted (odd_at G sb) rb (SS_rest_axes nb ab)).
      now destruct (wsg (odd_at G sb) rp), (wsg (odd_at G sb) (rev ab)), (wcr (odd_at G sb) (rev ab) rb). }
    assert (E3 : wsg (odd_at G (Kl ++ take_axes ch_d sb rb)) q = wsg (odd_at G sb) rp).
    { unfold q. rewrite wsg_app, (wsg_sorted _ (seq 0 nl) (SS_seq 0 nl)).
      rewrite wcr_before.
      2:{ intros x y Hx Hy. apply in_seq in Hx. apply in_map_iff in Hy. destruct Hy as [j [<- _]]. lia. }
      rewrite xorb_false_r, xorb_false_l. unfold qr. rewrite map_map. rewrite <- Ll.
      rewrite <- (app_nil_r (take_axes ch_d sb rb)).
      apply (wsg_embed G sb Kl [] rb rp (SS_rest_axes nb ab)).
      intros j Hj. apply (Permutation_in _ ptb_perm_rp), Hj. }
    rewrite E3, <- E2.
    generalize (wsg (odd_at G sb) (rev ab ++ rp)) (wsg (odd_at G sb) p) (wsg (odd_at G sb) (rev ab ++ rb)).
    intros b1 b2 b3. now destruct b1, b2, b3.
  Qed.

  Theorem pre_transpose_b : distinct (foddpos G R a ++ foddpos G R b) ->
    exists y y',
      f_tensordot G R a b (naxes aa ab) MBlockwise = Some y
      /\ f_tensordot G R a b' (naxes aa ab') MBlockwise = Some y'
      /\ let t := f_transpose G R y q true in
         foddpos G R y' = foddpos G R t
         /\ forall cl cr,
              coords_ok G (without_axes (indices G R (fbase G R a)) aa) cl = true ->
              coords_ok G (without_axes (indices G R (fbase G R b)) ab) cr = true ->
              Vv y' (cl ++ permuted dcoord cr qr) = Vv t (cl ++ permuted dcoord cr qr).
  Proof.
    intros D. pose proof (f_transpose_wf G GL R b p true Wb HP) as Wb'. fold b' in Wb'.
    destruct (tdot_main G GL OL R NL RL a b aa ab Wa Wb P D) as [y [m (E1 & R1 & _ & W1 & D1 & _ & S1)]].
    destruct (tdot_main G GL OL R NL RL a b' aa ab' Wa Wb' ptb_pair_ok D) as [y' [m' (E2 & R2 & _ & _ & _ & _ & S2)]].
    exists y, y'. split; [exact E1|]. split; [exact E2|]. cbv zeta.
    change (foddpos G R b') with (foddpos G R b) in R2.
    rewrite R1 in R2. injection R2 as Em El. subst m'. split; [cbn [f_transpose foddpos]; now symmetry|].
    intros cl cr Hcl Hcr.
    pose proof (po_nda _ _ _ _ _ _ P) as NDaa. pose proof (po_lta _ _ _ _ _ _ P) as Haa.
    pose proof (po_ndb _ _ _ _ _ _ P) as NDab. pose proof (po_ltb _ _ _ _ _ _ P) as Hab.
    pose proof (po_len _ _ _ _ _ _ P) as Hlen.
    destruct (free_ixs_length G R a b aa ab P) as [Ll Lr].
    pose proof (Tdot.coords_ok_length G _ _ Hcl) as Lcl. pose proof (Tdot.coords_ok_length G _ _ Hcr) as Lcr.
    rewrite Ll in Lcl. rewrite Lr in Lcr. fold na nb in Lcl, Lcr. fold nl in Lcl.
    assert (Lrb : nr = nb - length ab) by apply (length_rest_axes nb ab NDab Hab).
    rewrite <- Lrb in Lcr.
    set (y0 := reindex G R y (free_ixs G R a b aa ab)).
    pose proof (same_val_reindex G R y (free_ixs G R a b aa ab) D1) as SV. fold y0 in SV.
    rewrite <- (same_val_V G R _ _ (same_val_transpose G R y0 y q SV)).
    assert (Ep : cl ++ permuted dcoord cr qr = permuted dcoord (cl ++ cr) q).
    { unfold q. rewrite permuted_app. f_equal.
      - rewrite <- Lcl. symmetry. apply (take_app_l dcoord cl cr).
      - rewrite <- Lcl. symmetry. apply (take_shift dcoord cl cr qr). }
    rewrite Ep at 2.
    rewrite (V_transpose G GL R NL y0 q (cl ++ cr) W1).
    2:{ unfold y0, reindex, ndim. cbn [fbase indices]. unfold free_ixs. rewrite app_length, Ll, Lr. fold na nb nl.
        rewrite <- Lrb. apply ptb_perm_q. }
    2:{ unfold y0, reindex. cbn [fbase indices]. apply coords_ok_app; assumption. }
    rewrite (same_val_V G R y0 y SV). rewrite (S1 cl cr Hcl Hcr).
    assert (Hcr' : coords_ok G (without_axes (indices G R (fbase G R b')) ab') (permuted dcoord cr qr) = true).
    { rewrite (without_axes_take ix_d). fold (ndim G R (fbase G R b')). rewrite ptb_ndim. fold rb'.
      unfold b', f_transpose, a_transpose. cbn [fbase indices].
      rewrite (pt_take_la' G R b a ab aa p P' HP ix_d). fold nb rb. fold g h ab' rb' rp qr.
      apply StructProofs.coords_ok_permuted.
      - rewrite (without_axes_take ix_d) in Hcr. exact Hcr.
      - intros t Ht. rewrite (length_take_axes ix_d). apply (perm_lt qr _ ptb_perm_qr t Ht). }
    etransitivity; [apply (S2 cl _ Hcl Hcr')|]. rewrite ptb_ndim. fold na nb.
    rewrite !(rsgn_rsum R NL). apply (Tdot.rsum_ext R). intros kc Hkc.
    pose proof (In_all_coords G cspec _ kc (wff_ix_nodup G GL OL R a aa Wa) Hkc) as Hk.
    pose proof (Tdot.coords_ok_length G _ _ Hk) as Lk. rewrite (length_take_axes ix_d) in Lk.
    assert (Hkb : coords_ok G (take_axes ix_d (indices G R (fbase G R b)) ab) kc = true).
    { rewrite <- (coords_ok_agree G _ _ kc (po_tabs _ _ _ _ _ _ P)). exact Hk. }
    pose proof (pt_merge G R b a ab aa p P' HP cr kc ltac:(congruence) ltac:(fold nb rb nr; exact Lcr)) as HM.
    fold nb g h ab' rb rb' rp qr in HM. rewrite HM. clear HM.
    set (A := merge G na aa cl kc). set (B := merge G nb ab cr kc).
    pose proof (V_transpose G GL R NL b p B Wb HP
                  (coords_ok_merge G (indices G R (fbase G R b)) ab cr kc NDab Hab Hkb Hcr)) as HV.
    fold b' in HV. rewrite HV. clear HV.
    rewrite !(rsgn_rsgn R NL), !(rmul_rsgn R NL), !(rsgn_rsgn R NL). f_equal.
    rewrite (permuted_map fst dcoord B p). cbn [fst].
    pose proof (ptb_sign (map fst B) (map fst cl) ltac:(rewrite map_length; apply merge_length)
                  ltac:(rewrite map_length; exact Lcl)) as HS.
    assert (Tr : take_axes ch_d (map fst B) rb = map fst cr).
    { unfold B, rb. apply merge_take_rest. fold rb nr. exact Lcr. }
    rewrite Tr, <- map_app in HS.
    set (X := wsg (odd_at G (map fst (cl ++ cr))) q) in *.
    change (wsg (odd_at G (map fst (cl ++ cr))) q) with X in HS.
    revert HS.
    generalize (sigma_b G R b' ab' (permuted ch_d (map fst B) p)) (wsg (odd_at G (map fst B)) p)
               (sigma_a G R a aa (map fst A)) (sigma_b G R b ab (map fst B)).
    intros b1 b2 b3 b4 HS. destruct m, X, b1, b2, b3, b4; cbn in *; congruence.
  Qed.
End PreTransposeB.

(* ================================================================ examples *)
(* The hypotheses of the theorems above hold on a concrete non-trivial instance:
   Z2, both operands of odd total charge, mixed directions, pending signs,
   distinct odd-position labels, two free legs on the first operand; and on
   it every sign in the statements matters (dropping the phase of the
   transposes breaks the equalities). *)
Module RouteEx.
  Import Ex.
  Definition ixD := ixA ++ [Index Z2 [(0%Z, 1); (1%Z, 2)] true None].
  Definition xD : farray Z2 ZRing :=
    mkF Z2 ZRing (mkarr ixD 1%Z [[0; 0; 1; 0]; [1; 1; 1; 0]; [1; 0; 1; 1]; [0; 1; 1; 1]; [1; 1; 0; 1]]%Z 5)
        [[1; 1; 1; 0]%Z; [0; 1; 1; 1]%Z] [([7%Z], false)].

  Lemma pair_ok_ex : pair_ok Z2 ZRing xD xB [2; 1] [0; 2].
  Proof.
    constructor.
    - apply nodup_nats. reflexivity.
    - apply all_lt. reflexivity.
    - apply nodup_nats. reflexivity.
    - apply all_lt. reflexivity.
    - reflexivity.
    - unfold opposite_dirs. repeat constructor.
    - reflexivity.
  Qed.

  Example sector_parity_hyps :
    wf_array Z2 ZRing (fbase Z2 ZRing xD) = true
    /\ In [1; 0; 1; 1]%Z (sectors Z2 ZRing (fbase Z2 ZRing xD))
    /\ count_odd Z2 [1; 0; 1; 1]%Z (seq 0 4) = true /\ parity Z2 (charge Z2 ZRing (fbase Z2 ZRing xD)) = true.
  Proof. split; [reflexivity|]. split; [cbn; tauto|]. split; reflexivity. Qed.

  Example resolve_bridge_example :
    resolve_oddpos true [([7%Z], false)] [([5%Z], false)] = Some (false, [([5%Z], false); ([7%Z], false)])
    /\ resolve [([7%Z], false)] [([5%Z], false)] true = Some (false, [([5%Z], false); ([7%Z], false)]).
  Proof. split; reflexivity. Qed.

  Example route_hyps :
    GroupLaws Z2 /\ OrderProofs.OrderLaws Z2 /\ NegLaws ZRing /\ SumLaws ZRing /\ CommLaws ZRing
    /\ wf_fermi Z2 ZRing xD = true /\ wf_fermi Z2 ZRing xB = true
    /\ pair_ok Z2 ZRing xD xB [2; 1] [0; 2]
    /\ distinct (foddpos Z2 ZRing xD ++ foddpos Z2 ZRing xB)
    /\ Permutation [1; 0] (seq 0 (length [2; 1]))
    /\ Permutation [3; 1; 0; 2] (seq 0 (ndim Z2 ZRing (fbase Z2 ZRing xD))).
  Proof.
    split; [exact Z2_laws|]. split; [exact OrderProofs.Z2_order|]. split; [exact ZRing_neg_laws|].
    split; [exact ZRing_sum_laws|]. split; [exact ZRing_comm_laws|].
    split; [reflexivity|]. split; [reflexivity|]. split; [exact pair_ok_ex|].
    split; [unfold distinct, labels; cbn; repeat constructor; cbn; intuition discriminate|].
    split.
    - cbn. apply perm_swap.
    - cbn. apply Permutation_sym.
      apply (perm_trans (l' := [1; 0; 2; 3])); [apply perm_swap|].
      apply (perm_trans (l' := [1; 2; 0; 3])); [apply perm_skip, perm_swap|].
      apply (perm_trans (l' := [1; 2; 3; 0])); [apply perm_skip, perm_skip, perm_swap|].
      apply (perm_trans (l' := [1; 3; 2; 0])); [apply perm_skip, perm_swap|].
      apply (perm_trans (l' := [3; 1; 2; 0])); [apply perm_swap|].
      apply perm_skip, perm_skip, perm_swap.
  Qed.

  (* the statements computed on the instance; with phase := false in the
     transposes the first, third and fourth comparison fail *)
  Example route_values :
    let y := f_tensordot Z2 ZRing xD xB (naxes [2; 1] [0; 2]) MBlockwise in
    let ys := f_tensordot Z2 ZRing xB xD (naxes [0; 2] [2; 1]) MBlockwise in
    let yl := f_tensordot Z2 ZRing xD xB (naxes (permuted 0 [2; 1] [1; 0]) (permuted 0 [0; 2] [1; 0])) MBlockwise in
    let p := [3; 1; 0; 2] in
    let yt := f_tensordot Z2 ZRing (f_transpose Z2 ZRing xD p true) xB (naxes (map (fun j => index_of j p) [2; 1]) [0; 2]) MBlockwise in
    match y, ys, yl, yt with
    | Some y, Some ys, Some yl, Some yt =>
        farray_eqb Z2 ZRing (f_transpose Z2 ZRing y [2; 0; 1] true) ys = true
        /\ farray_eqb Z2 ZRing (f_transpose Z2 ZRing y [2; 0; 1] false) ys = false
        /\ farray_eqb Z2 ZRing yl y = true
        /\ farray_eqb Z2 ZRing (f_transpose Z2 ZRing y [1; 0; 2] true) yt = true
        /\ farray_eqb Z2 ZRing (f_transpose Z2 ZRing y [1; 0; 2] false) yt = false
        /\ length (blocks Z2 ZRing (fbase Z2 ZRing y)) = 4
    | _, _, _, _ => False
    end.
  Proof. vm_compute. repeat split; reflexivity. Qed.

  (* a transposed SECOND operand (xD as second operand, transposed by [3;1;0;2]) *)
  Example pre_transpose_b_values :
    let p := [3; 1; 0; 2] in
    let ab' := map (fun j => index_of j p) [2; 1] in
    let qr := map (fun j => index_of j (rest_axes 4 [2; 1])) (map (fun i => nth i p 0) (rest_axes 4 ab')) in
    pair_ok Z2 ZRing xB xD [0; 2] [2; 1] /\ qr = [1; 0] /\
    match f_tensordot Z2 ZRing xB xD (naxes [0; 2] [2; 1]) MBlockwise,
          f_tensordot Z2 ZRing xB (f_transpose Z2 ZRing xD p true) (naxes [0; 2] ab') MBlockwise with
    | Some y, Some y' =>
        farray_eqb Z2 ZRing (f_transpose Z2 ZRing y (seq 0 1 ++ map (fun i => 1 + i) qr) true) y' = true
        /\ farray_eqb Z2 ZRing (f_transpose Z2 ZRing y (seq 0 1 ++ map (fun i => 1 + i) qr) false) y' = false
    | _, _ => False
    end.
  Proof. split; [exact (pair_ok_sym Z2 ZRing xD xB [2; 1] [0; 2] pair_ok_ex)|]. vm_compute. repeat split; reflexivity. Qed.

  (* associativity: three odd tensors, b in the middle with one leg to each side *)
  Definition ixC := [Index Z2 [(0%Z, 1); (1%Z, 3)] false None; Index Z2 [(0%Z, 2); (1%Z, 1)] false None;
                     Index Z2 [(0%Z, 1); (1%Z, 1)] true None].
  Definition xC : farray Z2 ZRing :=
    mkF Z2 ZRing (mkarr ixC 1%Z [[1; 0; 0]; [0; 1; 0]; [1; 1; 1]; [0; 0; 1]]%Z 40)
        [[0; 1; 0]%Z; [1; 1; 1]%Z] [([9%Z], false)].

  Lemma pair_ok_bc : pair_ok Z2 ZRing xB xC [1] [0].
  Proof.
    constructor.
    - apply nodup_nats. reflexivity.
    - apply all_lt. reflexivity.
    - apply nodup_nats. reflexivity.
    - apply all_lt. reflexivity.
    - reflexivity.
    - unfold opposite_dirs. repeat constructor.
    - reflexivity.
  Qed.

  Example assoc_hyps :
    wf_fermi Z2 ZRing xD = true /\ wf_fermi Z2 ZRing xB = true /\ wf_fermi Z2 ZRing xC = true
    /\ pair_ok Z2 ZRing xD xB [2; 1] [0; 2] /\ pair_ok Z2 ZRing xB xC [1] [0]
    /\ (forall j, In j [0; 2] -> ~ In j [1])
    /\ distinct (foddpos Z2 ZRing xD ++ foddpos Z2 ZRing xB ++ foddpos Z2 ZRing xC).
  Proof.
    split; [reflexivity|]. split; [reflexivity|]. split; [reflexivity|].
    split; [exact pair_ok_ex|]. split; [exact pair_ok_bc|]. split.
    - cbn. intros j [<-|[<-|[]]] [H|[]]; discriminate.
    - unfold distinct, labels. cbn. repeat constructor; cbn; intuition discriminate.
  Qed.

  (* the two routes computed: equal, 8 blocks, labels [5; 7; 9] *)
  Example assoc_values :
    let na := 4 in let nb := 3 in
    let bb1 := map (fun j => length (rest_axes na [2; 1]) + index_of j (rest_axes nb [0; 2])) [1] in
    let ab2 := map (fun j => index_of j (rest_axes nb [1])) [0; 2] in
    bb1 = [2] /\ ab2 = [0; 1] /\
    match f_tensordot Z2 ZRing xD xB (naxes [2; 1] [0; 2]) MBlockwise, f_tensordot Z2 ZRing xB xC (naxes [1] [0]) MBlockwise with
    | Some y1, Some y2 =>
        match f_tensordot Z2 ZRing y1 xC (naxes bb1 [0]) MBlockwise, f_tensordot Z2 ZRing xD y2 (naxes [2; 1] ab2) MBlockwise with
        | Some y12, Some y21 =>
            farray_eqb Z2 ZRing y12 y21 = true /\ length (blocks Z2 ZRing (fbase Z2 ZRing y12)) = 8
            /\ foddpos Z2 ZRing y12 = [([5%Z], false); ([7%Z], false); ([9%Z], false)]
        | _, _ => False
        end
    | _, _ => False
    end.
  Proof. vm_compute. repeat split; reflexivity. Qed.
End RouteEx.
