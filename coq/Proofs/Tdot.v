(* Proofs/Tdot.v — property C02, blockwise strategy: the block-sparse
   contraction `tdot_blockwise` equals, element for element in (charge, offset)
   coordinates, the dense contraction of the operands. *)
From SV Require Import Base.Prelude Base.Sym Base.Tensor Model.Sectors Model.Array Model.Wf
  Proofs.TensorProofs.
Local Open Scope nat_scope.

(* ------------------------------------------------------------------ *)
(* the laws of the coefficient ring that the value theorem uses: a commutative
   additive monoid with an annihilating zero (no distributivity is needed) *)
Record SumLaws (R : Ring) : Prop := {
  radd_assoc : forall x y z, radd R x (radd R y z) = radd R (radd R x y) z;
  radd_comm : forall x y, radd R x y = radd R y x;
  radd_0_l : forall x, radd R (r0 R) x = x;
  rmul_0_l : forall x, rmul R (r0 R) x = r0 R;
  rmul_0_r : forall x, rmul R x (r0 R) = r0 R
}.

Lemma ZRing_sum_laws : SumLaws ZRing.
Proof. split; cbn [ZRing RT r0 radd rmul]; intros; lia. Qed.

Lemma GRing_sum_laws : SumLaws GRing.
Proof.
  split; cbn [GRing RT r0 radd rmul]; intros.
  - destruct x, y, z; cbn [fst snd]; f_equal; lia.
  - destruct x, y; cbn [fst snd]; f_equal; lia.
  - destruct x; cbn [fst snd]; f_equal; lia.
  - destruct x; cbn [fst snd]; f_equal; lia.
  - destruct x; cbn [fst snd]; f_equal; lia.
Qed.

(* ------------------------------------------------------------------ *)
(* boolean equalities that reflect Leibniz equality *)
Section Eqb.
  Context {A : Type} (e : A -> A -> bool) (e_spec : forall a b, e a b = true <-> a = b).

  Lemma eqb_refl a : e a a = true.
  Proof. now apply e_spec. Qed.

  Lemma eqb_false a b : e a b = false <-> a <> b.
  Proof.
    split.
    - intros H Heq. apply e_spec in Heq. congruence.
    - intros H. destruct (e a b) eqn:E; [|reflexivity]. apply e_spec in E. contradiction.
  Qed.

  Lemma eqb_sym a b : e a b = e b a.
  Proof.
    destruct (e a b) eqn:E.
    - apply e_spec in E. subst. now rewrite eqb_refl.
    - symmetry. apply eqb_false. apply eqb_false in E. congruence.
  Qed.

  Lemma list_eqb_spec l1 l2 : list_eqb e l1 l2 = true <-> l1 = l2.
  Proof.
    revert l2. induction l1 as [|x l1 IH]; intros [|y l2]; cbn [list_eqb]; try (split; congruence).
    rewrite andb_true_iff, e_spec, IH. split; [intros [-> ->]; reflexivity | intros H; inversion H; auto].
  Qed.

  Lemma mem_In x l : mem e x l = true <-> In x l.
  Proof.
    induction l as [|y l IH]; cbn [mem In]; [split; [discriminate | tauto]|].
    rewrite orb_true_iff, e_spec, IH. split; intros [H|H]; auto.
  Qed.

  Lemma mem_false x l : mem e x l = false <-> ~ In x l.
  Proof.
    rewrite <- mem_In. destruct (mem e x l); split; congruence.
  Qed.

  Lemma nodupb_NoDup l : nodupb e l = true -> NoDup l.
  Proof.
    induction l as [|x l IH]; cbn [nodupb]; intros H; [constructor|].
    apply andb_true_iff in H. destruct H as [H1 H2]. constructor; [|auto].
    apply negb_true_iff in H1. now apply mem_false in H1.
  Qed.
End Eqb.

(* ------------------------------------------------------------------ *)
(* finite sums in the ring *)
Section Sums.
  Context (R : Ring) (RL : SumLaws R).
  Notation T := (RT R).
  Notation "x +r y" := (radd R x y) (at level 50, left associativity).
  Notation "0r" := (r0 R).
  Notation Sum := (rsum R).

  Lemma radd_0_r x : x +r 0r = x.
  Proof. rewrite (radd_comm R RL). apply (radd_0_l R RL). Qed.

  Lemma rsum_cons x l : Sum (x :: l) = x +r Sum l.
  Proof. reflexivity. Qed.

  Lemma rsum_app l1 l2 : Sum (l1 ++ l2) = Sum l1 +r Sum l2.
  Proof.
    induction l1 as [|x l1 IH]; cbn [app]; [cbn [rsum fold_right]; now rewrite (radd_0_l R RL)|].
    rewrite !rsum_cons, IH. apply (radd_assoc R RL).
  Qed.

  Lemma rsum_ext {A} (f g : A -> T) l : (forall x, In x l -> f x = g x) -> Sum (map f l) = Sum (map g l).
  Proof. intros H. f_equal. now apply map_ext_in. Qed.

  Lemma rsum_zero {A} (f : A -> T) l : (forall x, In x l -> f x = 0r) -> Sum (map f l) = 0r.
  Proof.
    induction l as [|x l IH]; intros H; [reflexivity|]. cbn [map]. rewrite rsum_cons.
    rewrite H by (now left). rewrite IH by (intros; apply H; now right). apply (radd_0_l R RL).
  Qed.

  Lemma radd_swap4 a b c d : (a +r b) +r (c +r d) = (a +r c) +r (b +r d).
  Proof.
    rewrite <- !(radd_assoc R RL). f_equal. rewrite !(radd_assoc R RL). f_equal. apply (radd_comm R RL).
  Qed.

  Lemma rsum_add {A} (f g : A -> T) l :
    Sum (map (fun x => f x +r g x) l) = Sum (map f l) +r Sum (map g l).
  Proof.
    induction l as [|x l IH]; cbn [map]; [cbn [rsum fold_right]; now rewrite (radd_0_l R RL)|].
    rewrite !rsum_cons, IH. apply radd_swap4.
  Qed.

  Lemma rsum_swap {A B} (f : A -> B -> T) lx ly :
    Sum (map (fun x => Sum (map (f x) ly)) lx) = Sum (map (fun y => Sum (map (fun x => f x y) lx)) ly).
  Proof.
    induction lx as [|x lx IH]; cbn [map].
    - symmetry. now apply rsum_zero.
    - rewrite rsum_cons, IH, <- rsum_add. reflexivity.
  Qed.

  Lemma rsum_flat_map {A B} (f : B -> T) (g : A -> list B) l :
    Sum (map f (flat_map g l)) = Sum (map (fun x => Sum (map f (g x))) l).
  Proof.
    induction l as [|x l IH]; [reflexivity|]. cbn [flat_map map]. now rewrite map_app, rsum_app, IH, rsum_cons.
  Qed.

  Lemma rsum_filter {A} (f : A -> T) (P : A -> bool) l :
    Sum (map f (filter P l)) = Sum (map (fun x => if P x then f x else 0r) l).
  Proof.
    induction l as [|x l IH]; [reflexivity|]. cbn [filter map]. rewrite rsum_cons.
    destruct (P x); [cbn [map]; now rewrite rsum_cons, IH | now rewrite IH, (radd_0_l R RL)].
  Qed.

  Lemma rsum_single x : Sum [x] = x.
  Proof. cbn [rsum fold_right]. apply radd_0_r. Qed.

  Lemma fold_left_radd l x : fold_left (radd R) l x = x +r Sum l.
  Proof.
    revert x. induction l as [|y l IH]; intros x; cbn [fold_left]; [now rewrite radd_0_r|].
    rewrite IH, rsum_cons. symmetry. apply (radd_assoc R RL).
  Qed.

  (* picking the unique matching entry of a duplicate-free list / dict *)
  Section Pick.
    Context {A : Type} (e : A -> A -> bool) (e_spec : forall a b, e a b = true <-> a = b).

    Lemma rsum_pick (l : list A) x (v : T) :
      NoDup l -> In x l -> Sum (map (fun c => if e c x then v else 0r) l) = v.
    Proof.
      induction l as [|y l IH]; intros Hnd Hin; [destruct Hin|].
      inversion Hnd as [|? ? Hny Hnd']; subst. cbn [map]. rewrite rsum_cons.
      destruct (e y x) eqn:E.
      - apply e_spec in E. subst y. rewrite rsum_zero; [apply radd_0_r|].
        intros c Hc. destruct (e c x) eqn:E2; [|reflexivity]. apply e_spec in E2. subst. contradiction.
      - rewrite (radd_0_l R RL). apply IH; [assumption|]. destruct Hin as [->|Hin]; [|assumption].
        rewrite (eqb_refl e e_spec) in E. discriminate.
    Qed.

    Lemma rsum_lookup {V} (d : list (A * V)) k (g : V -> T) :
      NoDup (map fst d) ->
      Sum (map (fun p => if e k (fst p) then g (snd p) else 0r) d)
      = match lookup e k d with Some v => g v | None => 0r end.
    Proof.
      induction d as [|[k' v] d IH]; intros Hnd; [reflexivity|].
      cbn [map fst] in Hnd. inversion Hnd as [|? ? Hny Hnd']; subst.
      cbn [map lookup fst snd]. rewrite rsum_cons. destruct (e k k') eqn:E.
      - apply e_spec in E. subst k'. rewrite rsum_zero; [apply radd_0_r|].
        intros p Hp. destruct (e k (fst p)) eqn:E2; [|reflexivity]. apply e_spec in E2. subst.
        exfalso. apply Hny. now apply in_map.
      - rewrite (radd_0_l R RL). now apply IH.
    Qed.
  End Pick.

  (* picking one tuple out of a cartesian product of duplicate-free lists *)
  Lemma rsum_product_pick {A} (e : A -> A -> bool) (e_spec : forall a b, e a b = true <-> a = b)
        (ls : list (list A)) : forall (x : list A) (g : list A -> T),
    Forall (fun l => NoDup l) ls -> Forall2 (fun c l => In c l) x ls ->
    Sum (map (fun y => if list_eqb e y x then g y else 0r) (product ls)) = g x.
  Proof.
    induction ls as [|l ls IH]; intros x g Hnd Hin.
    - inversion Hin; subst. cbn [product map list_eqb]. apply rsum_single.
    - inversion Hin as [|x0 ? x' ? Hx0 Hx']; subst. inversion Hnd as [|? ? Hl Hls]; subst.
      cbn [product]. rewrite rsum_flat_map.
      rewrite (rsum_ext _ (fun c => if e c x0 then g (x0 :: x') else 0r)).
      + now apply (rsum_pick e e_spec).
      + intros c Hc. rewrite map_map. cbn [list_eqb]. destruct (e c x0) eqn:E; cbn [andb].
        * apply e_spec in E. subst c. now apply (IH x' (fun r => g (x0 :: r))).
        * now apply rsum_zero.
  Qed.
End Sums.

(* ------------------------------------------------------------------ *)
(* dictionaries with Leibniz keys *)
Section DictLemmas.
  Context {K V : Type} (e : K -> K -> bool) (e_spec : forall a b, e a b = true <-> a = b).

  Lemma lookup_dset_present k k' (v v0 : V) d :
    lookup e k' d = Some v0 -> lookup e k (dset e k' v d) = if e k k' then Some v else lookup e k d.
  Proof.
    induction d as [|[k1 v1] d IH]; cbn [lookup dset]; [discriminate|].
    destruct (e k' k1) eqn:E1.
    - intros _. apply e_spec in E1. subst k1. cbn [lookup]. now destruct (e k k').
    - intros H. cbn [lookup]. destruct (e k k1) eqn:E2.
      + apply e_spec in E2. subst k1. destruct (e k k') eqn:E3; [|reflexivity].
        apply e_spec in E3. subst. rewrite (eqb_refl e e_spec) in E1. discriminate.
      + now apply IH.
  Qed.

  Lemma lookup_app k (d1 d2 : list (K * V)) :
    lookup e k (d1 ++ d2) = match lookup e k d1 with Some v => Some v | None => lookup e k d2 end.
  Proof.
    induction d1 as [|[k1 v1] d1 IH]; cbn [app lookup]; [reflexivity|]. now destruct (e k k1).
  Qed.

  Lemma lookup_In k v (d : list (K * V)) : lookup e k d = Some v -> In (k, v) d.
  Proof.
    induction d as [|[k1 v1] d IH]; cbn [lookup]; [discriminate|].
    destruct (e k k1) eqn:E; [|intros H; right; auto].
    apply e_spec in E. subst. intros H. inversion H. now left.
  Qed.

  Lemma lookup_nodup_In k v (d : list (K * V)) : NoDup (map fst d) -> In (k, v) d -> lookup e k d = Some v.
  Proof.
    induction d as [|[k1 v1] d IH]; intros Hnd Hin; [destruct Hin|].
    cbn [map fst] in Hnd. inversion Hnd as [|? ? Hny Hnd']; subst. cbn [lookup].
    destruct Hin as [Heq|Hin].
    - inversion Heq; subst. now rewrite (eqb_refl e e_spec).
    - destruct (e k k1) eqn:E; [|auto]. apply e_spec in E. subst k1. exfalso. apply Hny.
      change k with (fst (k, v)). now apply in_map.
  Qed.
End DictLemmas.

(* ------------------------------------------------------------------ *)
(* the accumulated dictionary of `tdot_blockwise`: the value stored under a key
   is the sum of all contributions with that key *)
Section Acc.
  Context (G : Symmetry) (R : Ring) (RL : SumLaws R).
  Context (ceqb_spec : forall a b : C G, ceqb G a b = true <-> a = b).
  Notation sector := (list (C G)).
  Notation keq := (list_eqb (ceqb G)).

  Lemma keq_spec (a b : sector) : keq a b = true <-> a = b.
  Proof. apply list_eqb_spec. exact ceqb_spec. Qed.

  Definition sel (k : sector) (ps : list (sector * tensor R)) : list (tensor R) :=
    map snd (filter (fun p => keq k (fst p)) ps).

  Lemma sel_cons k p ps : sel k (p :: ps) = if keq k (fst p) then snd p :: sel k ps else sel k ps.
  Proof. unfold sel. cbn [filter]. now destruct (keq k (fst p)). Qed.

  Lemma lookup_fold_acc ps : forall acc k,
    lookup keq k (fold_left (acc_add G R) ps acc) =
    match lookup keq k acc with
    | Some t => Some (fold_left (tadd R) (sel k ps) t)
    | None => match sel k ps with [] => None | t :: ts => Some (fold_left (tadd R) ts t) end
    end.
  Proof.
    induction ps as [|[kp tp] ps IH]; intros acc k; cbn [fold_left].
    - unfold sel. cbn [filter map fold_left]. now destruct (lookup keq k acc).
    - rewrite IH, sel_cons. unfold acc_add. cbn [fst snd].
      destruct (lookup keq kp acc) as [t0|] eqn:E0.
      + rewrite (lookup_dset_present keq keq_spec _ _ _ _ _ E0).
        destruct (keq k kp) eqn:E1.
        * apply keq_spec in E1. subst k. rewrite E0. reflexivity.
        * reflexivity.
      + rewrite (lookup_app keq). cbn [lookup]. destruct (keq k kp) eqn:E1.
        * apply keq_spec in E1. subst k. rewrite E0. reflexivity.
        * destruct (lookup keq k acc); reflexivity.
  Qed.

  Lemma tshape_fold_tadd ts : forall t, tshape (fold_left (tadd R) ts t) = tshape t.
  Proof. induction ts as [|t1 ts IH]; intros t; cbn [fold_left]; [reflexivity|]. now rewrite IH. Qed.

  Lemma get_fold_tadd idx ts : forall t, inb (tshape t) idx = true ->
    get R (fold_left (tadd R) ts t) idx = fold_left (radd R) (map (fun t => get R t idx) ts) (get R t idx).
  Proof.
    induction ts as [|t1 ts IH]; intros t Hin; cbn [fold_left map]; [reflexivity|].
    rewrite IH by exact Hin. f_equal. unfold tadd. now rewrite get_build.
  Qed.

  (* the value of the accumulated dictionary at a key and an in-bounds multi-index *)
  Lemma lookup_acc_get ps k idx :
    (forall t, In t (sel k ps) -> inb (tshape t) idx = true) ->
    match lookup keq k (fold_left (acc_add G R) ps []) with Some t => get R t idx | None => r0 R end
    = rsum R (map (fun t => get R t idx) (sel k ps)).
  Proof.
    intros Hin. rewrite lookup_fold_acc. cbn [lookup].
    destruct (sel k ps) as [|t ts]; [reflexivity|].
    rewrite get_fold_tadd by (apply Hin; now left).
    rewrite (fold_left_radd R RL). reflexivity.
  Qed.
End Acc.

(* ------------------------------------------------------------------ *)
(* scatter / take_axes / without_axes, for any element type *)
Section Scatter.
  Context {A : Type} (d : A).

  Fixpoint scatterA_go (n pos : nat) (axes : list nat) (at_axes rest : list A) : list A :=
    match n with
    | O => []
    | S n' =>
        if mem Nat.eqb pos axes
        then nth (index_of pos axes) at_axes d :: scatterA_go n' (S pos) axes at_axes rest
        else match rest with
             | r :: rest' => r :: scatterA_go n' (S pos) axes at_axes rest'
             | [] => d :: scatterA_go n' (S pos) axes at_axes []
             end
    end.
  Definition scatterA (n : nat) (axes : list nat) (at_axes rest : list A) : list A :=
    scatterA_go n 0 axes at_axes rest.

  Lemma length_scatterA_go n : forall pos axes at_axes rest, length (scatterA_go n pos axes at_axes rest) = n.
  Proof.
    induction n as [|n IH]; intros pos axes at_axes rest; cbn [scatterA_go]; [reflexivity|].
    destruct (mem Nat.eqb pos axes); [|destruct rest]; cbn [length]; now rewrite IH.
  Qed.

  Lemma memN_In x l : mem Nat.eqb x l = true <-> In x l.
  Proof. apply mem_In. apply Nat.eqb_eq. Qed.

  (* reading the scattered list at a position that belongs to `axes` *)
  Lemma nth_scatterA_go_axes axes at_axes a n : forall pos rest,
    pos <= a -> a < pos + n -> In a axes ->
    nth (a - pos) (scatterA_go n pos axes at_axes rest) d = nth (index_of a axes) at_axes d.
  Proof.
    induction n as [|n IH]; intros pos rest Hle Hlt Hin; [lia|].
    cbn [scatterA_go]. destruct (Nat.eq_dec a pos) as [->|Hne].
    - rewrite Nat.sub_diag. apply memN_In in Hin. rewrite Hin. reflexivity.
    - replace (a - pos) with (S (a - S pos)) by lia.
      destruct (mem Nat.eqb pos axes); [|destruct rest]; cbn [nth]; apply IH; auto; lia.
  Qed.

  Lemma map_index_of axes : forall (ks : list A), NoDup axes -> length ks = length axes ->
    map (fun a => nth (index_of a axes) ks d) axes = ks.
  Proof.
    induction axes as [|a axes IH]; intros [|k ks] Hnd Hlen; cbn [length] in Hlen; try discriminate; [reflexivity|].
    inversion Hnd as [|? ? Hna Hnd']; subst. cbn [map index_of]. rewrite Nat.eqb_refl. cbn [nth]. f_equal.
    etransitivity; [|apply (IH ks Hnd'); lia]. apply map_ext_in. intros b Hb.
    destruct (Nat.eqb a b) eqn:E; [apply Nat.eqb_eq in E; subst; contradiction|]. reflexivity.
  Qed.

  Lemma take_scatterA_axes n axes ks rest :
    NoDup axes -> (forall a, In a axes -> a < n) -> length ks = length axes ->
    take_axes d (scatterA n axes ks rest) axes = ks.
  Proof.
    intros Hnd Hlt Hlen. unfold take_axes, scatterA.
    etransitivity; [|apply (map_index_of axes ks Hnd Hlen)]. apply map_ext_in. intros a Ha.
    rewrite <- (nth_scatterA_go_axes axes ks a n 0 rest); [now rewrite Nat.sub_0_r | lia | | exact Ha].
    cbn [Nat.add]. now apply Hlt.
  Qed.

  Definition free_from (axes : list nat) (pos n : nat) : list nat :=
    filter (fun i => negb (mem Nat.eqb i axes)) (seq pos n).

  Lemma take_scatterA_go_rest axes ks n : forall pos rest,
    length rest = length (free_from axes pos n) ->
    map (fun i => nth (i - pos) (scatterA_go n pos axes ks rest) d) (free_from axes pos n) = rest.
  Proof.
    unfold free_from.
    induction n as [|n IH]; intros pos rest Hlen; cbn [seq filter] in *.
    - destruct rest; [reflexivity | discriminate].
    - assert (Hshift : forall L, map (fun i => nth (i - pos) L d)
                (filter (fun i => negb (mem Nat.eqb i axes)) (seq (S pos) n)) =
              map (fun i => nth (i - S pos) (tl L) d)
                (filter (fun i => negb (mem Nat.eqb i axes)) (seq (S pos) n))).
      { intros L. apply map_ext_in. intros i Hi. apply filter_In in Hi. destruct Hi as [Hi _].
        apply in_seq in Hi. replace (i - pos) with (S (i - S pos)) by lia.
        destruct L; [cbn [tl nth]; now destruct (i - S pos) | reflexivity]. }
      cbn [scatterA_go]. destruct (mem Nat.eqb pos axes); cbn [negb] in *.
      + rewrite Hshift. cbn [tl]. now apply IH.
      + destruct rest as [|r rest]; [discriminate|]. cbn [length] in Hlen.
        cbn [map]. rewrite Hshift. cbn [tl]. rewrite Nat.sub_diag. f_equal. apply IH. lia.
  Qed.

  Lemma take_scatterA_rest n axes ks rest :
    length rest = length (rest_axes n axes) ->
    take_axes d (scatterA n axes ks rest) (rest_axes n axes) = rest.
  Proof.
    intros Hlen. unfold take_axes, scatterA.
    etransitivity; [|apply (take_scatterA_go_rest axes ks n 0 rest Hlen)].
    apply map_ext. intros i. now rewrite Nat.sub_0_r.
  Qed.

  Lemma nth_index_of_map (f : nat -> A) axes a :
    In a axes -> nth (index_of a axes) (map f axes) d = f a.
  Proof.
    induction axes as [|b axes IH]; intros Hin; [destruct Hin|]. cbn [index_of map].
    destruct (Nat.eqb b a) eqn:E; [apply Nat.eqb_eq in E; now subst|].
    cbn [nth]. apply IH. destruct Hin as [->|Hin]; [rewrite Nat.eqb_refl in E; discriminate | exact Hin].
  Qed.

  Lemma skipn_nth_cons (s : list A) pos : pos < length s -> skipn pos s = nth pos s d :: skipn (S pos) s.
  Proof.
    revert pos. induction s as [|x s IH]; intros pos Hlt; cbn [length] in Hlt; [lia|].
    destruct pos as [|pos]; [reflexivity|]. cbn [skipn nth]. apply IH. lia.
  Qed.

  Lemma scatterA_go_take (s : list A) axes n : forall pos,
    pos + n = length s ->
    scatterA_go n pos axes (take_axes d s axes) (map (fun i => nth i s d) (free_from axes pos n)) = skipn pos s.
  Proof.
    unfold free_from.
    induction n as [|n IH]; intros pos Hlen.
    - cbn [scatterA_go]. rewrite skipn_all2; [reflexivity | lia].
    - cbn [scatterA_go seq filter]. rewrite (skipn_nth_cons s pos) by lia.
      destruct (mem Nat.eqb pos axes) eqn:E; cbn [negb].
      + apply memN_In in E. unfold take_axes at 1. rewrite (nth_index_of_map (fun a => nth a s d) axes pos E).
        f_equal. apply IH. lia.
      + cbn [map]. f_equal. apply IH. lia.
  Qed.

  Lemma scatterA_take (s : list A) axes :
    scatterA (length s) axes (take_axes d s axes) (take_axes d s (rest_axes (length s) axes)) = s.
  Proof. unfold scatterA. apply (scatterA_go_take s axes (length s) 0). reflexivity. Qed.

  Lemma without_axes_go (P : nat -> bool) (l : list A) : forall pos,
    map snd (filter (fun p => P (fst p)) (List.combine (seq pos (length l)) l)) =
    map (fun i => nth (i - pos) l d) (filter P (seq pos (length l))).
  Proof.
    induction l as [|x l IH]; intros pos; [reflexivity|].
    cbn [length seq List.combine filter fst].
    assert (Hshift : map (fun i => nth (i - pos) (x :: l) d) (filter P (seq (S pos) (length l))) =
                     map (fun i => nth (i - S pos) l d) (filter P (seq (S pos) (length l)))).
    { apply map_ext_in. intros i Hi. apply filter_In in Hi. destruct Hi as [Hi _].
      apply in_seq in Hi. now replace (i - pos) with (S (i - S pos)) by lia. }
    destruct (P pos); cbn [map snd].
    - rewrite Hshift, Nat.sub_diag. f_equal. apply IH.
    - rewrite Hshift. apply IH.
  Qed.

  Lemma without_axes_take (l : list A) axes :
    without_axes l axes = take_axes d l (rest_axes (length l) axes).
  Proof.
    unfold without_axes, take_axes, rest_axes.
    rewrite (without_axes_go (fun i => negb (mem Nat.eqb i axes)) l 0).
    apply map_ext. intros i. now rewrite Nat.sub_0_r.
  Qed.

  Lemma length_take_axes (l : list A) axes : length (take_axes d l axes) = length axes.
  Proof. apply map_length. Qed.

  (* the scattered list equals s exactly when its two parts are the two parts of s *)
  Lemma scatterA_eq_iff n axes ks rest (s : list A) :
    NoDup axes -> (forall a, In a axes -> a < n) ->
    length ks = length axes -> length rest = length (rest_axes n axes) -> length s = n ->
    scatterA n axes ks rest = s <-> ks = take_axes d s axes /\ rest = take_axes d s (rest_axes n axes).
  Proof.
    intros Hnd Hlt Hk Hr Hs. split.
    - intros <-. split; symmetry; [now apply take_scatterA_axes | now apply take_scatterA_rest].
    - intros [-> ->]. subst n. apply scatterA_take.
  Qed.
End Scatter.

Lemma scatter_go_scatterA n : forall pos axes at_axes rest,
  scatter_go n pos axes at_axes rest = scatterA_go 0 n pos axes at_axes rest.
Proof.
  induction n as [|n IH]; intros pos axes at_axes rest; cbn [scatter_go scatterA_go]; [reflexivity|].
  destruct (mem Nat.eqb pos axes); [|destruct rest]; now rewrite IH.
Qed.

Lemma scatter_scatterA n axes at_axes rest : scatter n axes at_axes rest = scatterA 0 n axes at_axes rest.
Proof. apply scatter_go_scatterA. Qed.

Lemma map_scatterA_go {A B} (f : A -> B) (d : A) n : forall pos axes at_axes rest,
  map f (scatterA_go d n pos axes at_axes rest) = scatterA_go (f d) n pos axes (map f at_axes) (map f rest).
Proof.
  induction n as [|n IH]; intros pos axes at_axes rest; cbn [scatterA_go]; [reflexivity|].
  destruct (mem Nat.eqb pos axes); [|destruct rest]; cbn [map]; rewrite IH; [|reflexivity..].
  now rewrite map_nth.
Qed.

Lemma map_scatterA {A B} (f : A -> B) (d : A) n axes at_axes rest :
  map f (scatterA d n axes at_axes rest) = scatterA (f d) n axes (map f at_axes) (map f rest).
Proof. apply map_scatterA_go. Qed.

(* ------------------------------------------------------------------ *)
(* multi-indices and the dense tensordot at one element *)
Lemma inb_app sh1 : forall i1 sh2 i2,
  inb sh1 i1 = true -> inb sh2 i2 = true -> inb (sh1 ++ sh2) (i1 ++ i2) = true.
Proof.
  induction sh1 as [|d sh1 IH]; intros [|i i1] sh2 i2 H1 H2; cbn [inb app] in *; try discriminate; [exact H2|].
  apply andb_true_iff in H1. destruct H1 as [Ha Hb]. rewrite Ha. cbn [andb]. now apply IH.
Qed.

Lemma inb_length sh : forall idx, inb sh idx = true -> length idx = length sh.
Proof.
  induction sh as [|d sh IH]; intros [|i idx] H; cbn [inb] in H; try discriminate; [reflexivity|].
  apply andb_true_iff in H. destruct H as [_ H]. cbn [length]. f_equal. now apply IH.
Qed.

Lemma all_idx_length sh : forall k, In k (all_idx sh) -> length k = length sh.
Proof.
  induction sh as [|d sh IH]; intros k Hk; cbn [all_idx] in Hk.
  - destruct Hk as [<-|[]]. reflexivity.
  - apply in_flat_map in Hk. destruct Hk as [i [_ Hk]]. apply in_map_iff in Hk.
    destruct Hk as [k' [<- Hk']]. cbn [length]. f_equal. now apply IH.
Qed.

Lemma product_length {A} (ls : list (list A)) : forall x, In x (product ls) -> length x = length ls.
Proof.
  induction ls as [|l ls IH]; intros x Hx; cbn [product] in Hx.
  - destruct Hx as [<-|[]]. reflexivity.
  - apply in_flat_map in Hx. destruct Hx as [c [_ Hx]]. apply in_map_iff in Hx.
    destruct Hx as [x' [<- Hx']]. cbn [length]. f_equal. now apply IH.
Qed.

Section Tdot1.
  Context (R : Ring).

  Lemma get_ttensordot (ta tb : tensor R) aa ab il ir :
    length il = length (without_axes (tshape ta) aa) ->
    inb (without_axes (tshape ta) aa ++ without_axes (tshape tb) ab) (il ++ ir) = true ->
    get R (ttensordot R ta tb aa ab) (il ++ ir) =
    rsum R (map (fun k => rmul R (get R ta (scatter (length (tshape ta)) aa k il))
                                 (get R tb (scatter (length (tshape tb)) ab k ir)))
                (all_idx (take_axes 0 (tshape ta) aa))).
  Proof.
    intros Hlen Hin. unfold ttensordot. rewrite get_build by exact Hin.
    rewrite <- Hlen. rewrite firstn_app, Nat.sub_diag, firstn_all. cbn [firstn]. rewrite app_nil_r.
    rewrite skipn_app, Nat.sub_diag, skipn_all. cbn [skipn app]. reflexivity.
  Qed.
End Tdot1.

(* ------------------------------------------------------------------ *)
(* block shapes and index tables *)
Section Tables.
  Context (G : Symmetry).
  Notation sector := (list (C G)).
  Notation idx_d := (dflt_index G).
  Notation ch_d := (ident G).

  Lemma block_shape_cons ix ixs c (s : sector) :
    block_shape G (ix :: ixs) (c :: s) = size_of G ix c :: block_shape G ixs s.
  Proof. reflexivity. Qed.

  Lemma length_block_shape ixs : forall (s : sector), length s = length ixs -> length (block_shape G ixs s) = length ixs.
  Proof.
    intros s H. unfold block_shape. rewrite map_length, combine_length. lia.
  Qed.

  Lemma nth_block_shape ixs : forall (s : sector) i, i < length ixs -> length s = length ixs ->
    nth i (block_shape G ixs s) 0 = size_of G (nth i ixs idx_d) (nth i s ch_d).
  Proof.
    induction ixs as [|ix ixs IH]; intros [|c s] i Hi Hlen; cbn [length] in *; try lia.
    rewrite block_shape_cons. destruct i as [|i]; [reflexivity|]. cbn [nth]. apply IH; lia.
  Qed.

  Lemma take_block_shape ixs (s : sector) axes :
    (forall a, In a axes -> a < length ixs) -> length s = length ixs ->
    take_axes 0 (block_shape G ixs s) axes = block_shape G (take_axes idx_d ixs axes) (take_axes ch_d s axes).
  Proof.
    intros Hlt Hlen. induction axes as [|a axes IH]; [reflexivity|].
    unfold take_axes in *. cbn [map]. rewrite block_shape_cons. f_equal.
    - apply nth_block_shape; [apply Hlt; now left | exact Hlen].
    - apply IH. intros b Hb. apply Hlt. now right.
  Qed.

  Lemma inb_block_shape ixs : forall cs : list (coord G), coords_ok G ixs cs = true ->
    inb (block_shape G ixs (map fst cs)) (map snd cs) = true.
  Proof.
    unfold coords_ok. induction ixs as [|ix ixs IH]; intros [|c cs] H; apply andb_true_iff in H;
      destruct H as [Hl Hf]; cbn [length] in Hl; try discriminate; [reflexivity|].
    cbn [map]. rewrite block_shape_cons. cbn [inb]. cbn [List.combine forallb fst snd] in Hf.
    apply andb_true_iff in Hf. destruct Hf as [Hc Hf]. rewrite Hc. cbn [andb].
    apply IH. apply andb_true_iff. split; [exact Hl | exact Hf].
  Qed.

  Lemma coords_ok_length ixs (cs : list (coord G)) : coords_ok G ixs cs = true -> length cs = length ixs.
  Proof. unfold coords_ok. intros H. apply andb_true_iff in H. destruct H as [H _]. now apply Nat.eqb_eq in H. Qed.

  Lemma forallb_combine_nth {A B} (f : A * B -> bool) d1 d2 (l1 : list A) : forall (l2 : list B) i,
    forallb f (List.combine l1 l2) = true -> i < length l1 -> i < length l2 ->
    f (nth i l1 d1, nth i l2 d2) = true.
  Proof.
    induction l1 as [|x l1 IH]; intros [|y l2] i H H1 H2; cbn [length] in *; try lia.
    cbn [List.combine forallb] in H. apply andb_true_iff in H. destruct H as [Hx H].
    destruct i as [|i]; [exact Hx|]. cbn [nth]. apply IH; [exact H | lia | lia].
  Qed.
End Tables.

(* ------------------------------------------------------------------ *)
(* a sum over all coordinates of some indices = sum over charge tuples of the
   sum over the offsets inside the corresponding block *)
Section Coords.
  Context (G : Symmetry) (R : Ring) (RL : SumLaws R).
  Context (ceqb_spec : forall a b : C G, ceqb G a b = true <-> a = b).
  Notation T := (RT R).
  Notation Sum := (rsum R).

  Lemma size_of_in ix c d : NoDup (icharges G ix) -> In (c, d) (chargemap G ix) -> size_of G ix c = d.
  Proof.
    intros Hnd Hin. unfold size_of. unfold icharges in Hnd.
    now rewrite (lookup_nodup_In (ceqb G) ceqb_spec c d _ Hnd Hin).
  Qed.

  Lemma rsum_index_coords ix (f : coord G -> T) :
    Sum (map f (index_coords G ix)) =
    Sum (map (fun p => Sum (map (fun o => f (fst p, o)) (seq 0 (snd p)))) (chargemap G ix)).
  Proof.
    unfold index_coords. rewrite (rsum_flat_map R RL). apply rsum_ext. intros p _. now rewrite map_map.
  Qed.

  Lemma coords_split ixs : forall f : list (coord G) -> T,
    Forall (fun ix => NoDup (icharges G ix)) ixs ->
    Sum (map f (all_coords G ixs)) =
    Sum (map (fun kq => Sum (map (fun ko => f (List.combine kq ko)) (all_idx (block_shape G ixs kq))))
             (product (map (icharges G) ixs))).
  Proof.
    induction ixs as [|ix ixs IH]; intros f Hnd.
    { unfold all_coords, block_shape. cbn [map product List.combine all_idx].
      now rewrite !(rsum_single R RL). }
    inversion Hnd as [|? ? Hix Hixs]; subst.
    unfold all_coords. cbn [map product]. fold (all_coords G ixs).
    rewrite (rsum_flat_map R RL).
    rewrite (rsum_ext R _ (fun x => Sum (map (fun kq => Sum (map (fun ko => f (x :: List.combine kq ko))
                 (all_idx (block_shape G ixs kq)))) (product (map (icharges G) ixs))))).
    2:{ intros x _. rewrite map_map. exact (IH (fun r => f (x :: r)) Hixs). }
    rewrite rsum_index_coords.
    rewrite (rsum_flat_map R RL).
    replace (icharges G ix) with (map fst (chargemap G ix)) by reflexivity. rewrite map_map.
    apply rsum_ext. intros p Hp. rewrite map_map.
    rewrite (rsum_swap R RL).
    apply rsum_ext. intros rq _. rewrite block_shape_cons.
    rewrite (size_of_in ix (fst p) (snd p) Hix) by (now destruct p).
    cbn [all_idx]. rewrite (rsum_flat_map R RL). apply rsum_ext. intros o _.
    rewrite map_map. reflexivity.
  Qed.
End Coords.

(* ------------------------------------------------------------------ *)
(* small list facts *)
Lemma app_eq_length {A} (a : list A) : forall b c d, length a = length c -> a ++ b = c ++ d -> a = c /\ b = d.
Proof.
  induction a as [|x a IH]; intros b [|y c] d Hlen H; cbn [length app] in *; try discriminate; [auto|].
  inversion H; subst. destruct (IH b c d) as [-> ->]; auto.
Qed.

Lemma map_fst_combine {A B} (l1 : list A) : forall l2 : list B, length l1 = length l2 -> map fst (List.combine l1 l2) = l1.
Proof.
  induction l1 as [|x l1 IH]; intros [|y l2] H; cbn [length] in H; try discriminate; [reflexivity|].
  cbn [List.combine map fst]. f_equal. apply IH. lia.
Qed.

Lemma map_snd_combine {A B} (l1 : list A) : forall l2 : list B, length l1 = length l2 -> map snd (List.combine l1 l2) = l2.
Proof.
  induction l1 as [|x l1 IH]; intros [|y l2] H; cbn [length] in H; try discriminate; [reflexivity|].
  cbn [List.combine map snd]. f_equal. apply IH. lia.
Qed.

Lemma Forall2_map_same {A B C} (P : B -> C -> Prop) (f : A -> B) (g : A -> C) l :
  (forall a, In a l -> P (f a) (g a)) -> Forall2 P (map f l) (map g l).
Proof.
  induction l as [|a l IH]; intros H; cbn [map]; constructor; [apply H; now left|].
  apply IH. intros b Hb. apply H. now right.
Qed.

Lemma In_rest_axes n axes i : In i (rest_axes n axes) -> i < n.
Proof. unfold rest_axes. intros H. apply filter_In in H. destruct H as [H _]. apply in_seq in H. lia. Qed.

(* ------------------------------------------------------------------ *)
(* C02, blockwise strategy *)
Section Blockwise.
  Context (G : Symmetry) (R : Ring) (RL : SumLaws R).
  Context (ceqb_spec : forall a b : C G, ceqb G a b = true <-> a = b).
  Notation T := (RT R).
  Notation Sum := (rsum R).
  Notation sector := (list (C G)).
  Notation keq := (list_eqb (ceqb G)).
  Notation idx_d := (dflt_index G).
  Notation ch_d := (ident G).

  (* a full coordinate from the coordinates of the free axes and of the axes `axes` *)
  Definition merge (n : nat) (axes : list nat) (free con : list (coord G)) : list (coord G) :=
    scatterA (ident G, 0) n axes con free.

  (* the part of `wf_array` that the value theorem uses *)
  Record blocks_ok (x : aarray G R) : Prop := {
    bo_nodup : NoDup (sectors G R x);
    bo_len : forall sb, In sb (blocks G R x) -> length (fst sb) = ndim G R x;
    bo_tab : forall sb i, In sb (blocks G R x) -> i < ndim G R x ->
             In (nth i (fst sb) ch_d) (icharges G (nth i (indices G R x) idx_d));
    bo_shape : forall sb, In sb (blocks G R x) -> tshape (snd sb) = block_shape G (indices G R x) (fst sb)
  }.

  Lemma wf_blocks_ok x : wf_array G R x = true -> blocks_ok x.
  Proof.
    unfold wf_array. intros H. repeat (apply andb_true_iff in H; destruct H as [H ?]).
    rename H0 into Hall, H1 into Hnd. rewrite forallb_forall in Hall.
    assert (Hsb : forall sb, In sb (blocks G R x) ->
              sector_ok G (indices G R x) (charge G R x) (fst sb) = true /\
              tshape (snd sb) = block_shape G (indices G R x) (fst sb)).
    { intros sb Hin. specialize (Hall sb Hin).
      apply andb_true_iff in Hall. destruct Hall as [Hall _].
      apply andb_true_iff in Hall. destruct Hall as [Hs Hsh].
      split; [exact Hs|]. apply (list_eqb_spec Nat.eqb Nat.eqb_eq). exact Hsh. }
    split.
    - apply (nodupb_NoDup keq (keq_spec G ceqb_spec)). exact Hnd.
    - intros sb Hin. destruct (Hsb sb Hin) as [Hs _]. unfold sector_ok in Hs.
      repeat (apply andb_true_iff in Hs; destruct Hs as [Hs ?]). now apply Nat.eqb_eq in Hs.
    - intros sb i Hin Hi. destruct (Hsb sb Hin) as [Hs _]. unfold sector_ok in Hs.
      repeat (apply andb_true_iff in Hs; destruct Hs as [Hs ?]). apply Nat.eqb_eq in Hs.
      apply (mem_In (ceqb G) ceqb_spec).
      apply (forallb_combine_nth (fun p => mem (ceqb G) (snd p) (icharges G (fst p))) idx_d ch_d
               (indices G R x) (fst sb) i); [assumption | exact Hi | unfold ndim in Hi; lia].
    - intros sb Hin. now destruct (Hsb sb Hin).
  Qed.
  (* the multi-index of the free axes is inside every stored block whose free
     charges are the ones of the coordinate *)
  Lemma free_inb x axes sb (cs : list (coord G)) :
    blocks_ok x -> In sb (blocks G R x) ->
    coords_ok G (without_axes (indices G R x) axes) cs = true ->
    map fst cs = take_axes ch_d (fst sb) (rest_axes (ndim G R x) axes) ->
    inb (without_axes (tshape (snd sb)) axes) (map snd cs) = true.
  Proof.
    intros Hx Hin Hcs Hk.
    pose proof (bo_len x Hx sb Hin) as Hlen. pose proof (bo_shape x Hx sb Hin) as Hsh.
    unfold ndim in *.
    rewrite Hsh, (without_axes_take 0), length_block_shape by exact Hlen.
    rewrite take_block_shape; [| intros i Hi; now apply In_rest_axes in Hi | exact Hlen].
    rewrite <- Hk. rewrite <- (without_axes_take idx_d). now apply inb_block_shape.
  Qed.

  Section Main.
    Context (a b : aarray G R) (aa ab : list nat) (cl cr : list (coord G)).
    Let na := ndim G R a.
    Let nb := ndim G R b.
    Let la := rest_axes na aa.
    Let rb := rest_axes nb ab.
    Let cixs := take_axes idx_d (indices G R a) aa.
    Let Kl := map fst cl.
    Let Kr := map fst cr.
    Let il := map snd cl.
    Let ir := map snd cr.
    Context (Ha : blocks_ok a) (Hb : blocks_ok b).
    Context (Haa_nd : NoDup aa) (Haa_lt : forall i, In i aa -> i < na).
    Context (Hab_nd : NoDup ab) (Hab_lt : forall i, In i ab -> i < nb).
    Context (Hlen_ax : length aa = length ab).
    Context (Hcn : Forall (fun ix => NoDup (icharges G ix)) cixs).
    Context (Hcl : coords_ok G (without_axes (indices G R a) aa) cl = true).
    Context (Hcr : coords_ok G (without_axes (indices G R b) ab) cr = true).

    Let Ka (kq : sector) : sector := scatterA ch_d na aa kq Kl.
    Let Kb (kq : sector) : sector := scatterA ch_d nb ab kq Kr.
    Let P := product (map (icharges G) cixs).
    (* the inner sum for one pair of blocks and one tuple of contracted charges *)
    Let W (kq : sector) (ta tb : tensor R) : T :=
      Sum (map (fun ko => rmul R (get R ta (scatter na aa ko il)) (get R tb (scatter nb ab ko ir)))
               (all_idx (block_shape G cixs kq))).

    Lemma len_Kl : length Kl = length la.
    Proof.
      pose proof (coords_ok_length G _ _ Hcl) as E. unfold coord in E.
      unfold Kl, la, na, ndim. rewrite map_length, E, (without_axes_take idx_d).
      apply length_take_axes.
    Qed.

    Lemma len_Kr : length Kr = length rb.
    Proof.
      pose proof (coords_ok_length G _ _ Hcr) as E. unfold coord in E.
      unfold Kr, rb, nb, ndim. rewrite map_length, E, (without_axes_take idx_d).
      apply length_take_axes.
    Qed.

    Lemma len_P kq : In kq P -> length kq = length aa.
    Proof.
      intros H. apply product_length in H. rewrite H. unfold cixs. now rewrite map_length, length_take_axes.
    Qed.

    (* one term of the dense sum, for a tuple of contracted charges *)
    Lemma dense_term kq ko : In kq P -> In ko (all_idx (block_shape G cixs kq)) ->
      rmul R (sem G R a (merge na aa cl (List.combine kq ko))) (sem G R b (merge nb ab cr (List.combine kq ko)))
      = rmul R (match lookup keq (Ka kq) (blocks G R a) with
                | Some ta => get R ta (scatter na aa ko il) | None => r0 R end)
               (match lookup keq (Kb kq) (blocks G R b) with
                | Some tb => get R tb (scatter nb ab ko ir) | None => r0 R end).
    Proof.
      intros Hkq Hko. pose proof (len_P kq Hkq) as Hl1.
      assert (Hl2 : length kq = length ko).
      { apply all_idx_length in Hko. rewrite Hko, length_block_shape; unfold cixs; rewrite length_take_axes; auto. }
      unfold sem, merge. rewrite !map_scatterA. cbn [fst snd].
      rewrite (map_fst_combine kq ko Hl2), (map_snd_combine kq ko Hl2), <- !scatter_scatterA.
      reflexivity.
    Qed.

    Lemma R1 kq : In kq P ->
      Sum (map (fun ko => rmul R (sem G R a (merge na aa cl (List.combine kq ko)))
                                 (sem G R b (merge nb ab cr (List.combine kq ko))))
               (all_idx (block_shape G cixs kq)))
      = Sum (map (fun sa => Sum (map (fun sb =>
                 if keq (Ka kq) (fst sa) && keq (Kb kq) (fst sb) then W kq (snd sa) (snd sb) else r0 R)
               (blocks G R b))) (blocks G R a)).
    Proof.
      intros Hkq.
      rewrite (rsum_ext R _ _ _ (fun ko Hko => dense_term kq ko Hkq Hko)).
      rewrite (rsum_ext R _ (fun sa => if keq (Ka kq) (fst sa)
                 then (fun ta => match lookup keq (Kb kq) (blocks G R b) with
                                 | Some tb => W kq ta tb | None => r0 R end) (snd sa)
                 else r0 R) (blocks G R a)).
      2:{ intros sa _. destruct (keq (Ka kq) (fst sa)); cbn [andb].
          - apply (rsum_lookup R RL keq (keq_spec G ceqb_spec) (blocks G R b) (Kb kq) (W kq (snd sa))).
            exact (bo_nodup b Hb).
          - now apply rsum_zero. }
      rewrite (rsum_lookup R RL keq (keq_spec G ceqb_spec) (blocks G R a) (Ka kq)
                 (fun ta => match lookup keq (Kb kq) (blocks G R b) with
                            | Some tb => W kq ta tb | None => r0 R end)) by exact (bo_nodup a Ha).
      destruct (lookup keq (Ka kq) (blocks G R a)) as [ta|].
      - destruct (lookup keq (Kb kq) (blocks G R b)) as [tb|]; [reflexivity|].
        apply rsum_zero; [exact RL|]. intros ko _. apply (rmul_0_r R RL).
      - apply rsum_zero; [exact RL|]. intros ko _. apply (rmul_0_l R RL).
    Qed.
      Lemma key_iff kq sa sb : In kq P -> In sa (blocks G R a) -> In sb (blocks G R b) ->
      keq (Ka kq) (fst sa) && keq (Kb kq) (fst sb)
      = (keq (take_axes ch_d (fst sa) aa) (take_axes ch_d (fst sb) ab)
         && keq (Kl ++ Kr) (take_axes ch_d (fst sa) la ++ take_axes ch_d (fst sb) rb))
        && keq kq (take_axes ch_d (fst sa) aa).
    Proof.
      intros Hkq Hsa Hsb. pose proof (len_P kq Hkq) as Hl.
      apply Bool.eq_iff_eq_true. rewrite !andb_true_iff, !(keq_spec G ceqb_spec). unfold Ka, Kb.
      rewrite (scatterA_eq_iff ch_d na aa kq Kl (fst sa) Haa_nd Haa_lt Hl len_Kl (bo_len a Ha sa Hsa)).
      rewrite (scatterA_eq_iff ch_d nb ab kq Kr (fst sb) Hab_nd Hab_lt (eq_trans Hl Hlen_ax) len_Kr (bo_len b Hb sb Hsb)).
      fold la rb. split.
      - intros [[H1 H2] [H3 H4]]. subst kq. rewrite <- H2, <- H4. auto.
      - intros [[H1 H2] H3]. apply app_eq_length in H2; [|rewrite len_Kl; symmetry; apply length_take_axes].
        destruct H2 as [H2 H4]. subst kq. rewrite <- H1. auto.
    Qed.

    (* the multi-index il ++ ir is inside the product block of every aligned pair with the right key *)
    Lemma pair_inb sa sb : In sa (blocks G R a) -> In sb (blocks G R b) ->
      Kl ++ Kr = take_axes ch_d (fst sa) la ++ take_axes ch_d (fst sb) rb ->
      length il = length (without_axes (tshape (snd sa)) aa) /\
      inb (without_axes (tshape (snd sa)) aa ++ without_axes (tshape (snd sb)) ab) (il ++ ir) = true.
    Proof.
      intros Hsa Hsb HK. apply app_eq_length in HK; [|rewrite len_Kl; symmetry; apply length_take_axes].
      destruct HK as [H1 H2].
      pose proof (free_inb a aa sa cl Ha Hsa Hcl H1) as I1.
      pose proof (free_inb b ab sb cr Hb Hsb Hcr H2) as I2.
      split; [now apply inb_length in I1 | now apply inb_app].
    Qed.

    Lemma L1 sa sb : In sa (blocks G R a) -> In sb (blocks G R b) ->
      Sum (map (fun p : sector * tensor R => if keq (Kl ++ Kr) (fst p) then get R (snd p) (il ++ ir) else r0 R)
               (if keq (take_axes ch_d (fst sa) aa) (take_axes ch_d (fst sb) ab)
                then [(take_axes ch_d (fst sa) la ++ take_axes ch_d (fst sb) rb,
                       ttensordot R (snd sa) (snd sb) aa ab)]
                else []))
      = Sum (map (fun kq => if keq (Ka kq) (fst sa) && keq (Kb kq) (fst sb)
                            then W kq (snd sa) (snd sb) else r0 R) P).
    Proof.
      intros Hsa Hsb.
      rewrite (rsum_ext R _ (fun kq =>
                 if (keq (take_axes ch_d (fst sa) aa) (take_axes ch_d (fst sb) ab)
                     && keq (Kl ++ Kr) (take_axes ch_d (fst sa) la ++ take_axes ch_d (fst sb) rb))
                    && keq kq (take_axes ch_d (fst sa) aa)
                 then W kq (snd sa) (snd sb) else r0 R) P)
        by (intros kq Hkq; now rewrite (key_iff kq sa sb Hkq Hsa Hsb)).
      destruct (keq (take_axes ch_d (fst sa) aa) (take_axes ch_d (fst sb) ab)) eqn:E1; cbn [andb map].
      2:{ symmetry. now apply rsum_zero. }
      cbn [fst snd].
      destruct (keq (Kl ++ Kr) (take_axes ch_d (fst sa) la ++ take_axes ch_d (fst sb) rb)) eqn:E2; cbn [andb].
      2:{ rewrite (rsum_single R RL). symmetry. now apply rsum_zero. }
      rewrite (rsum_single R RL).
      apply (keq_spec G ceqb_spec) in E2. destruct (pair_inb sa sb Hsa Hsb E2) as [Hlen Hinb].
      rewrite (get_ttensordot R (snd sa) (snd sb) aa ab il ir Hlen Hinb).
      unfold P.
      rewrite (rsum_product_pick R RL (ceqb G) ceqb_spec (map (icharges G) cixs)
                 (take_axes ch_d (fst sa) aa) (fun kq => W kq (snd sa) (snd sb))).
      - unfold W. rewrite (bo_shape a Ha sa Hsa), (bo_shape b Hb sb Hsb).
        rewrite !length_block_shape by (first [exact (bo_len a Ha sa Hsa) | exact (bo_len b Hb sb Hsb)]).
        rewrite take_block_shape by (first [exact Haa_lt | exact (bo_len a Ha sa Hsa)]).
        reflexivity.
      - apply Forall_map. exact Hcn.
      - unfold cixs, take_axes. rewrite map_map. apply Forall2_map_same. intros i Hi.
        apply (bo_tab a Ha sa i Hsa). now apply Haa_lt.
    Qed.

    Theorem blockwise_sem_core :
      sem G R (tdot_blockwise G R a b la aa ab rb) (cl ++ cr) =
      Sum (map (fun kc => rmul R (sem G R a (merge na aa cl kc)) (sem G R b (merge nb ab cr kc)))
               (all_coords G cixs)).
    Proof.
      rewrite (coords_split G R RL ceqb_spec cixs _ Hcn). fold P.
      rewrite (rsum_ext R _ _ _ R1).
      rewrite (rsum_swap R RL).
      rewrite (rsum_ext R _ (fun sa => Sum (map (fun sb => Sum (map (fun kq =>
                 if keq (Ka kq) (fst sa) && keq (Kb kq) (fst sb) then W kq (snd sa) (snd sb) else r0 R) P))
                 (blocks G R b))) (blocks G R a))
        by (intros sa _; apply (rsum_swap R RL)).
      unfold sem, tdot_blockwise. cbn [blocks]. rewrite !map_app. fold Kl Kr il ir.
      rewrite (lookup_acc_get G R RL ceqb_spec).
      - unfold sel. rewrite map_map, (rsum_filter R RL). unfold tdot_pairs.
        rewrite (rsum_flat_map R RL). apply rsum_ext. intros sa Hsa.
        rewrite (rsum_flat_map R RL). apply rsum_ext. intros sb Hsb.
        exact (L1 sa sb Hsa Hsb).
      - intros t Ht. unfold sel in Ht. apply in_map_iff in Ht. destruct Ht as [p [<- Hp]].
        apply filter_In in Hp. destruct Hp as [Hp HK]. apply (keq_spec G ceqb_spec) in HK.
        unfold tdot_pairs in Hp. apply in_flat_map in Hp. destruct Hp as [sa [Hsa Hp]].
        apply in_flat_map in Hp. destruct Hp as [sb [Hsb Hp]].
        destruct (keq (take_axes ch_d (fst sa) aa) (take_axes ch_d (fst sb) ab)); [|destruct Hp].
        destruct Hp as [<-|[]]. cbn [fst snd] in *.
        exact (proj2 (pair_inb sa sb Hsa Hsb HK)).
    Qed.
  End Main.
End Blockwise.

(* ------------------------------------------------------------------ *)
(* charge tables are duplicate-free when `cltb` is a strict order *)
Section StrictOrder.
  Context (G : Symmetry).
  Context (cltb_irrefl : forall c : C G, cltb G c c = false).
  Context (cltb_trans : forall a b c : C G, cltb G a b = true -> cltb G b c = true -> cltb G a c = true).

  Lemma sorted_by_head l : forall x y, sorted_by (cltb G) (x :: l) = true -> In y l -> cltb G x y = true.
  Proof.
    induction l as [|z l IH]; intros x y Hs Hin; [destruct Hin|].
    cbn [sorted_by] in Hs. apply andb_true_iff in Hs. destruct Hs as [Hxz Hs].
    destruct Hin as [->|Hin]; [exact Hxz|]. apply (cltb_trans x z y Hxz). now apply IH.
  Qed.

  Lemma sorted_by_tail x l : sorted_by (cltb G) (x :: l) = true -> sorted_by (cltb G) l = true.
  Proof.
    destruct l as [|z l]; [reflexivity|]. cbn [sorted_by]. intros Hs. apply andb_true_iff in Hs. tauto.
  Qed.

  Lemma sorted_by_NoDup l : sorted_by (cltb G) l = true -> NoDup l.
  Proof.
    induction l as [|x l IH]; intros Hs; constructor.
    - intros Hin. pose proof (sorted_by_head l x x Hs Hin) as H. rewrite cltb_irrefl in H. discriminate.
    - apply IH. now apply sorted_by_tail in Hs.
  Qed.

  Lemma wf_index_nodup ix : wf_index G ix = true -> NoDup (icharges G ix).
  Proof.
    destruct ix as [cm d sub]. cbn [wf_index]. intros H. apply andb_true_iff in H. destruct H as [H _].
    unfold cm_ok in H. apply andb_true_iff in H. destruct H as [H _]. unfold icharges, chargemap.
    now apply sorted_by_NoDup.
  Qed.
End StrictOrder.

(* ------------------------------------------------------------------ *)
(* the statements of property C02 (blockwise strategy) in executable hypotheses *)
Section Final.
  Context (G : Symmetry) (R : Ring).
  Notation idx_d := (dflt_index G).
  Notation ch_d := (ident G).

  (* the axes are distinct and in range *)
  Definition axes_ok (n : nat) (axes : list nat) : bool :=
    nodupb Nat.eqb axes && forallb (fun i => Nat.ltb i n) axes.
  (* no charge is listed twice in a table *)
  Definition charges_nodup (ixs : list (index G)) : bool :=
    forallb (fun ix => nodupb (ceqb G) (icharges G ix)) ixs.

  Lemma axes_ok_spec n axes : axes_ok n axes = true -> NoDup axes /\ (forall i, In i axes -> i < n).
  Proof.
    unfold axes_ok. intros H. apply andb_true_iff in H. destruct H as [H1 H2]. split.
    - now apply (nodupb_NoDup Nat.eqb Nat.eqb_eq).
    - rewrite forallb_forall in H2. intros i Hi. apply Nat.ltb_lt. now apply H2.
  Qed.

  Section WithLaws.
    Context (RL : SumLaws R).
    Context (ceqb_spec : forall a b : C G, ceqb G a b = true <-> a = b).

    Theorem blockwise_sem (a b : aarray G R) (la aa ab rb : list nat) (cl cr : list (coord G)) :
      wf_array G R a = true -> wf_array G R b = true ->
      axes_ok (ndim G R a) aa = true -> axes_ok (ndim G R b) ab = true -> length aa = length ab ->
      la = rest_axes (ndim G R a) aa -> rb = rest_axes (ndim G R b) ab ->
      charges_nodup (take_axes idx_d (indices G R a) aa) = true ->
      coords_ok G (without_axes (indices G R a) aa) cl = true ->
      coords_ok G (without_axes (indices G R b) ab) cr = true ->
      sem G R (tdot_blockwise G R a b la aa ab rb) (cl ++ cr) =
      rsum R (map (fun kc => rmul R (sem G R a (merge G (ndim G R a) aa cl kc))
                                    (sem G R b (merge G (ndim G R b) ab cr kc)))
                  (all_coords G (take_axes idx_d (indices G R a) aa))).
    Proof.
      intros Hwa Hwb Haa Hab Hlen -> -> Hcn Hcl Hcr.
      apply axes_ok_spec in Haa. destruct Haa as [Haa1 Haa2].
      apply axes_ok_spec in Hab. destruct Hab as [Hab1 Hab2].
      apply (blockwise_sem_core G R RL ceqb_spec a b aa ab cl cr); auto using wf_blocks_ok.
      unfold charges_nodup in Hcn. rewrite forallb_forall in Hcn. apply Forall_forall. intros ix Hix.
      apply (nodupb_NoDup (ceqb G) ceqb_spec). now apply Hcn.
    Qed.

    (* the same, the duplicate-freeness of the tables coming from `wf_array`
       when the order on charge labels is a strict order *)
    Theorem blockwise_sem_wf (a b : aarray G R) (la aa ab rb : list nat) (cl cr : list (coord G)) :
      (forall c : C G, cltb G c c = false) ->
      (forall x y z : C G, cltb G x y = true -> cltb G y z = true -> cltb G x z = true) ->
      wf_array G R a = true -> wf_array G R b = true ->
      axes_ok (ndim G R a) aa = true -> axes_ok (ndim G R b) ab = true -> length aa = length ab ->
      la = rest_axes (ndim G R a) aa -> rb = rest_axes (ndim G R b) ab ->
      coords_ok G (without_axes (indices G R a) aa) cl = true ->
      coords_ok G (without_axes (indices G R b) ab) cr = true ->
      sem G R (tdot_blockwise G R a b la aa ab rb) (cl ++ cr) =
      rsum R (map (fun kc => rmul R (sem G R a (merge G (ndim G R a) aa cl kc))
                                    (sem G R b (merge G (ndim G R b) ab cr kc)))
                  (all_coords G (take_axes idx_d (indices G R a) aa))).
    Proof.
      intros Hirr Htr Hwa Hwb Haa Hab Hlen -> -> Hcl Hcr.
      pose proof (axes_ok_spec _ _ Haa) as [Haa1 Haa2]. pose proof (axes_ok_spec _ _ Hab) as [Hab1 Hab2].
      apply (blockwise_sem_core G R RL ceqb_spec a b aa ab cl cr); auto using wf_blocks_ok.
      apply Forall_forall. intros ix Hix. apply (wf_index_nodup G Hirr Htr).
      unfold take_axes in Hix. apply in_map_iff in Hix. destruct Hix as [i [<- Hi]].
      unfold wf_array in Hwa. repeat (apply andb_true_iff in Hwa; destruct Hwa as [Hwa ?]).
      rewrite forallb_forall in Hwa. apply Hwa. apply nth_In. now apply Haa2.
    Qed.
  End WithLaws.

  Theorem blockwise_charge (a b : aarray G R) (la aa ab rb : list nat) :
    charge G R (tdot_blockwise G R a b la aa ab rb) = combine G [charge G R a; charge G R b].
  Proof. reflexivity. Qed.

  (* ---- the result's index tables ---- *)
  Lemma nth_map_enumerate {A B} (f : nat * A -> B) (d : A) (d' : B) (l : list A) : forall s i,
    i < length l -> nth i (map f (List.combine (seq s (length l)) l)) d' = f (s + i, nth i l d).
  Proof.
    induction l as [|x l IH]; intros s i Hi; cbn [length] in Hi; [lia|].
    cbn [length seq List.combine map]. destruct i as [|i]; cbn [nth]; [now rewrite Nat.add_0_r|].
    rewrite IH by lia. f_equal. f_equal. lia.
  Qed.

  Lemma length_prune_indices ixs secs : length (prune_indices G ixs secs) = length ixs.
  Proof. unfold prune_indices, enumerate. now rewrite map_length, combine_length, seq_length, Nat.min_id. Qed.

  Lemma nth_prune_indices ixs secs i : i < length ixs ->
    nth i (prune_indices G ixs secs) idx_d =
    let ix := nth i ixs idx_d in
    drop_charges G ix (filter (fun c => negb (mem (ceqb G) c (map (fun s => nth i s ch_d) secs))) (icharges G ix)).
  Proof.
    intros Hi. unfold prune_indices, enumerate. rewrite (nth_map_enumerate _ idx_d idx_d ixs 0 i Hi).
    reflexivity.
  Qed.

  Lemma chargemap_drop ix cs :
    chargemap G (drop_charges G ix cs) = filter (fun p => negb (mem (ceqb G) (fst p) cs)) (chargemap G ix).
  Proof. now destruct ix. Qed.

  Lemma idual_drop ix cs : idual G (drop_charges G ix cs) = idual G ix.
  Proof. now destruct ix. Qed.

  Theorem blockwise_indices (ceqb_spec : forall a b : C G, ceqb G a b = true <-> a = b)
          (a b : aarray G R) (la aa ab rb : list nat) :
    let res := tdot_blockwise G R a b la aa ab rb in
    let ixs := without_axes (indices G R a) aa ++ without_axes (indices G R b) ab in
    indices G R res = prune_indices G ixs (sectors G R res) /\
    length (indices G R res) = length ixs /\
    forall i, i < length ixs ->
      idual G (nth i (indices G R res) idx_d) = idual G (nth i ixs idx_d) /\
      chargemap G (nth i (indices G R res) idx_d) =
        filter (fun p => mem (ceqb G) (fst p) (map (fun s => nth i s ch_d) (sectors G R res)))
               (chargemap G (nth i ixs idx_d)).
  Proof.
    intros res ixs.
    assert (E : indices G R res = prune_indices G ixs (sectors G R res)) by reflexivity.
    split; [exact E|]. rewrite E. split; [apply length_prune_indices|].
    intros i Hi. rewrite (nth_prune_indices ixs _ i Hi). cbv zeta.
    rewrite idual_drop, chargemap_drop. split; [reflexivity|].
    apply filter_ext_in. intros p Hp.
    set (present := map (fun s => nth i s ch_d) (sectors G R res)).
    destruct (mem (ceqb G) (fst p) present) eqn:E1.
    - apply negb_true_iff. apply (mem_false (ceqb G) ceqb_spec). intros Hin.
      apply filter_In in Hin. destruct Hin as [_ Hin]. rewrite E1 in Hin. discriminate.
    - apply negb_false_iff. apply (mem_In (ceqb G) ceqb_spec). apply filter_In. split.
      + unfold icharges. now apply in_map.
      + now rewrite E1.
  Qed.
End Final.

(* The dense sum above runs over the contracted tables of the left operand.  When
   the contracted tables of the two operands agree (same charges, same sizes),
   it is equally the sum over the right operand's contracted tables. *)
Lemma all_coords_agree G (ixs1 ixs2 : list (index G)) :
  map (chargemap G) ixs1 = map (chargemap G) ixs2 -> all_coords G ixs1 = all_coords G ixs2.
Proof.
  intros H. unfold all_coords. f_equal.
  change (index_coords G) with (fun ix => (fun cm => flat_map (fun p : C G * nat => map (fun o => (fst p, o)) (seq 0 (snd p))) cm) (chargemap G ix)).
  rewrite <- !(map_map (chargemap G)). now rewrite H.
Qed.

(* ------------------------------------------------------------------ *)
(* the public entry points that run the blockwise strategy *)
Section FrontEnd.
  Context (G : Symmetry) (R : Ring) (RL : SumLaws R).
  Context (ceqb_spec : forall a b : C G, ceqb G a b = true <-> a = b).
  Notation idx_d := (dflt_index G).

  (* tensordot(a, b, axes, mode="blockwise") *)
  Theorem tensordot_blockwise_sem (a b : aarray G R) axes (aa ab : list nat) (cl cr : list (coord G)) :
    parse_axes (ndim G R a) (ndim G R b) axes = Some (aa, ab) ->
    wf_array G R a = true -> wf_array G R b = true ->
    axes_ok (ndim G R a) aa = true -> axes_ok (ndim G R b) ab = true -> length aa = length ab ->
    charges_nodup G (take_axes idx_d (indices G R a) aa) = true ->
    coords_ok G (without_axes (indices G R a) aa) cl = true ->
    coords_ok G (without_axes (indices G R b) ab) cr = true ->
    exists res, a_tensordot G R a b axes MBlockwise = Some res /\
      sem G R res (cl ++ cr) =
      rsum R (map (fun kc => rmul R (sem G R a (merge G (ndim G R a) aa cl kc))
                                    (sem G R b (merge G (ndim G R b) ab cr kc)))
                  (all_coords G (take_axes idx_d (indices G R a) aa))).
  Proof.
    intros Hp Hwa Hwb Haa Hab Hlen Hcn Hcl Hcr. unfold a_tensordot. rewrite Hp.
    eexists. split; [reflexivity|].
    now apply (blockwise_sem G R RL ceqb_spec).
  Qed.

  (* a @ b for two matrices: the matrix product in (charge, offset) coordinates *)
  Theorem matmul_sem (a b : aarray G R) (l r : coord G) :
    ndim G R a = 2 -> ndim G R b = 2 ->
    wf_array G R a = true -> wf_array G R b = true ->
    charges_nodup G [nth 1 (indices G R a) idx_d] = true ->
    coords_ok G [nth 0 (indices G R a) idx_d] [l] = true ->
    coords_ok G [nth 1 (indices G R b) idx_d] [r] = true ->
    exists res, a_matmul G R a b = Some res /\
      sem G R res [l; r] =
      rsum R (map (fun k => rmul R (sem G R a [l; k]) (sem G R b [k; r]))
                  (index_coords G (nth 1 (indices G R a) idx_d))).
  Proof.
    intros Hna Hnb Hwa Hwb Hcn Hcl Hcr. unfold a_matmul. rewrite Hna, Hnb.
    eexists. split; [reflexivity|].
    destruct a as [ixa qa bla]. destruct b as [ixb qb blb]. unfold ndim in Hna, Hnb. cbn [indices] in *.
    destruct ixa as [|i0 [|i1 [|? ?]]]; try discriminate.
    destruct ixb as [|j0 [|j1 [|? ?]]]; try discriminate.
    cbn [nth] in *. change [l; r] with ([l] ++ [r]) at 1.
    rewrite (blockwise_sem G R RL ceqb_spec (mkA G R [i0; i1] qa bla) (mkA G R [j0; j1] qb blb)
               [0] [1] [0] [1] [l] [r] Hwa Hwb eq_refl eq_refl eq_refl eq_refl eq_refl Hcn Hcl Hcr).
    unfold all_coords, ndim. cbn [indices length take_axes map nth product].
    rewrite (rsum_flat_map R RL). apply rsum_ext. intros k _. cbn [map]. now rewrite (rsum_single R RL).
  Qed.
End FrontEnd.
