(* Proofs/ReshapeArrayProofs2.v — property C07, ARRAY level, continuation of
   Proofs/ReshapeArrayProofs.v:
   A. a fuse call with SEVERAL groups keeps the multiset of non-zero stored
      entries (the boxes of the stored sectors partition the non-zero part of
      every fused block: Proofs/FuseGroups.v), hence
   B. `a_reshape` never changes the content, for EVERY plan that executes;
   C. merging runs of adjacent axes and reshaping back restores the array. *)
From SV Require Import Base.Prelude Base.Sym Base.Tensor Model.Sectors Model.Array Model.Wf Model.Arith
  Model.SymInst Proofs.SymLaws Proofs.TensorProofs Proofs.OrderProofs Proofs.FuseTensor Proofs.FuseProofs
  Proofs.GroupFacts Proofs.SectorsProofs Proofs.StructProofs Proofs.WfProofs Proofs.WfProofs2
  Proofs.FuseGroups Proofs.FuseGroupsWf.
From SV Require Model.ReshapeArgs Proofs.ReshapeArgsProofs Proofs.ReshapePlanProofs.
From SV Require Import Model.ReshapeArray Proofs.ReshapeArrayProofs.
From Coq Require Import Permutation Sorting.
Local Open Scope nat_scope.

(* ------------------------------------------------------------------ *)
(* Part A0: a box of a tensor *)
Lemma perm_filter_split {A} (f : A -> bool) l :
  Permutation l (filter f l ++ filter (fun a => negb (f a)) l).
Proof.
  induction l as [|a l IH]; [apply Permutation_refl|]. cbn [filter].
  destruct (f a); cbn [negb app].
  - now apply perm_skip.
  - eapply perm_trans; [apply perm_skip; exact IH|]. apply Permutation_middle.
Qed.

Lemma in_range_length_shift (sl : list (nat * nat)) : forall idx,
  length idx = length sl -> in_range sl idx = true ->
  inb (map snd sl) (shift_idx sl idx) = true /\ shift_in sl (shift_idx sl idx) = idx.
Proof.
  induction sl as [|[st len] sl IH]; intros [|i idx] Hl Hr; cbn [length] in Hl; try discriminate.
  - split; reflexivity.
  - rewrite in_range_cons in Hr. cbn [fst snd] in Hr. apply andb_true_iff in Hr. destruct Hr as [Hr1 Hr].
    apply andb_true_iff in Hr1. destruct Hr1 as [H1 H2]. apply Nat.leb_le in H1. apply Nat.ltb_lt in H2.
    destruct (IH idx) as [I1 I2]; [lia|exact Hr|].
    unfold shift_idx in *. rewrite shift_cons. cbn [fst map snd inb]. split.
    + rewrite I1. apply andb_true_iff. split; [apply Nat.ltb_lt; lia|reflexivity].
    + unfold shift_in in *. cbn [List.combine map fst snd]. rewrite I2. f_equal. lia.
Qed.

Lemma box_idx_perm (sl : list (nat * nat)) (sh : list nat) :
  Forall2 (fun r d => fst r + snd r <= d) sl sh ->
  Permutation (map (shift_idx sl) (filter (in_range sl) (all_idx sh))) (all_idx (map snd sl)).
Proof.
  intros HF. pose proof (Forall2_length' _ _ _ HF) as Hlen.
  assert (Hin : forall a, In a (filter (in_range sl) (all_idx sh)) ->
            inb sh a = true /\ in_range sl a = true /\ length a = length sl).
  { intros a Ha. apply filter_In in Ha. destruct Ha as [Ha Hr]. apply in_all_idx_inb in Ha.
    split; [exact Ha|]. split; [exact Hr|]. rewrite (inb_length _ _ Ha). now symmetry. }
  apply NoDup_Permutation.
  - apply NoDup_map_inj_in.
    + intros a b Ha Hb E. destruct (Hin a Ha) as (_ & Ra & La). destruct (Hin b Hb) as (_ & Rb & Lb).
      rewrite <- (proj2 (in_range_length_shift sl a La Ra)), <- (proj2 (in_range_length_shift sl b Lb Rb)).
      now rewrite E.
    + apply NoDup_filter. apply NoDup_all_idx.
  - apply NoDup_all_idx.
  - intros y. split.
    + intros Hy. apply in_map_iff in Hy. destruct Hy as (a & <- & Ha). destruct (Hin a Ha) as (_ & Ra & La).
      apply inb_in_all_idx. apply (in_range_length_shift sl a La Ra).
    + intros Hy. apply in_all_idx_inb in Hy. destruct (box_shift sl sh y HF Hy) as (B1 & B2 & B3).
      apply in_map_iff. exists (shift_in sl y). split; [exact B3|]. apply filter_In. split; [|exact B2].
      now apply inb_in_all_idx.
Qed.

Section BoxContent.
  Context (R : Ring) (ZT : ZeroTest R).

  (* writing a source into an all-zero box *)
  Lemma tassign_box_content (t : tensor R) (sl : list (nat * nat)) (src : tensor R) :
    well_shaped R t -> Forall2 (fun r d => fst r + snd r <= d) sl (tshape t) ->
    tshape src = map snd sl -> well_shaped R src ->
    (forall idx, inb (tshape t) idx = true -> in_range sl idx = true -> get R t idx = r0 R) ->
    Permutation (nz R (tdata (tassign R t sl src))) (nz R (tdata t) ++ nz R (tdata src)).
  Proof.
    intros Hw HF Hsrc Hwsrc Hzero.
    set (sh := tshape t) in *.
    set (F := fun idx => if in_range sl idx then get R src (shift_idx sl idx) else get R t idx).
    set (Lin := filter (in_range sl) (all_idx sh)).
    set (Lout := filter (fun a => negb (in_range sl a)) (all_idx sh)).
    assert (Hsplit : Permutation (all_idx sh) (Lin ++ Lout)) by apply perm_filter_split.
    assert (E1 : tdata (tassign R t sl src) = map F (all_idx sh)) by reflexivity.
    assert (E2 : map F Lin = map (get R src) (map (shift_idx sl) Lin)).
    { rewrite map_map. apply map_ext_in. intros a Ha. apply filter_In in Ha. unfold F. now rewrite (proj2 Ha). }
    assert (E3 : map F Lout = map (get R t) Lout).
    { apply map_ext_in. intros a Ha. apply filter_In in Ha. unfold F.
      destruct (in_range sl a); [destruct Ha as [_ Ha]; discriminate Ha|reflexivity]. }
    assert (Z1 : nz R (map (get R t) Lin) = []).
    { apply (nz_zeros R ZT). apply Forall_forall. intros v Hv. apply in_map_iff in Hv. destruct Hv as (a & <- & Ha).
      apply filter_In in Ha. destruct Ha as [Ha Hr]. apply Hzero; [now apply in_all_idx_inb|exact Hr]. }
    assert (P1 : Permutation (nz R (tdata t)) (nz R (map (get R t) Lout))).
    { rewrite (tdata_all_idx R t Hw). fold sh.
      eapply perm_trans; [apply nz_perm; apply Permutation_map; exact Hsplit|].
      rewrite map_app, nz_app, Z1. apply Permutation_refl. }
    assert (P2 : Permutation (nz R (tdata src)) (nz R (map F Lin))).
    { rewrite E2, (tdata_all_idx R src Hwsrc), Hsrc. apply nz_perm. apply Permutation_map.
      apply Permutation_sym. now apply box_idx_perm. }
    rewrite E1.
    eapply perm_trans; [apply nz_perm; apply Permutation_map; exact Hsplit|].
    rewrite map_app, nz_app, E3.
    eapply perm_trans; [apply Permutation_app_comm|].
    apply Permutation_app; apply Permutation_sym; assumption.
  Qed.

  Context {K I : Type} (keqb : K -> K -> bool) (Hk : eqb_spec_on keqb).
  Context (key : I -> K) (sel : I -> list (nat * nat)) (src : I -> tensor R) (shape : K -> list nat).
  Notation bfold := (box_fold R keqb key sel src shape).

  Definition bitem_ok (i : I) : Prop :=
    Forall2 (fun r d => fst r + snd r <= d) (sel i) (shape (key i)) /\
    tshape (src i) = map snd (sel i) /\ well_shaped R (src i).

  (* the box scatter of _fuse_blocks_via_insert keeps the non-zero entries *)
  Lemma box_content (items : list I) :
    NoDup items -> (forall i, In i items -> bitem_ok i) ->
    (forall i j, In i items -> In j items -> i <> j -> key i = key j ->
       forall idx, inb (shape (key i)) idx = true -> in_range (sel i) idx = true -> in_range (sel j) idx = false) ->
    Permutation (dict_entries R (bfold items)) (flat_map (fun i => nz R (tdata (src i))) items).
  Proof.
    induction items as [|i0 P IH] using rev_ind; intros Hnd Hok Hdis.
    - apply Permutation_refl.
    - pose proof Hnd as Hnd0. apply NoDup_remove in Hnd. rewrite app_nil_r in Hnd. destruct Hnd as [Hnd Hnew].
      assert (HokP : forall i, In i P -> bitem_ok i) by (intros i Hi; apply Hok; apply in_or_app; now left).
      assert (HdisP : forall i j, In i P -> In j P -> i <> j -> key i = key j ->
                forall idx, inb (shape (key i)) idx = true -> in_range (sel i) idx = true -> in_range (sel j) idx = false).
      { intros i j Hi Hj. apply Hdis; apply in_or_app; now left. }
      specialize (IH Hnd HokP HdisP).
      destruct (box_spec R keqb Hk key sel src shape P Hnd HdisP) as (_ & _ & Sshape & _ & Szero).
      unfold box_fold. rewrite fold_left_app. cbn [fold_left]. fold (bfold P).
      set (acc := bfold P) in *. set (k0 := key i0).
      assert (Hin0 : In i0 (P ++ [i0])) by (apply in_or_app; right; now left).
      destruct (Hok i0 Hin0) as (Hfit & Hsrc & Hwsrc). fold k0 in Hfit.
      unfold box_step. fold k0. rewrite flat_map_app. cbn [flat_map]. rewrite app_nil_r.
      destruct (lookup keqb k0 acc) as [T0|] eqn:E0.
      + destruct (Sshape k0 T0 E0) as [HT0 HdT0].
        assert (HwT0 : well_shaped R T0) by (unfold well_shaped; now rewrite HT0).
        set (T' := tassign R T0 (sel i0) (src i0)).
        assert (HT' : Permutation (nz R (tdata T')) (nz R (tdata T0) ++ nz R (tdata (src i0)))).
        { unfold T'. apply tassign_box_content; try assumption; rewrite HT0; [exact Hfit|].
          intros idx Hinb Hr. apply (Szero k0 T0 idx E0 Hinb). intros i Hi Hki.
          apply (Hdis i0 i Hin0); [apply in_or_app; now left| |now symmetry|exact Hinb|exact Hr].
          intros <-. contradiction. }
        destruct (dset_some_split keqb k0 T' T0 acc E0) as (d1 & d2 & k' & Eacc & Edset).
        rewrite Edset. rewrite Eacc in IH. rewrite !dict_entries_app in *.
        change (dict_entries R ((k', T') :: d2)) with (nz R (tdata T') ++ dict_entries R d2).
        change (dict_entries R ((k', T0) :: d2)) with (nz R (tdata T0) ++ dict_entries R d2) in IH.
        eapply perm_trans; [|apply Permutation_app_tail; exact IH].
        eapply perm_trans; [apply Permutation_app_head; apply Permutation_app_tail; exact HT'|].
        rewrite <- !app_assoc. apply Permutation_app_head. apply Permutation_app_head.
        apply Permutation_app_comm.
      + set (Z0 := tzeros R (shape k0)).
        set (T' := tassign R Z0 (sel i0) (src i0)).
        assert (HwZ : well_shaped R Z0) by (unfold Z0, tzeros, well_shaped; apply length_tdata_build).
        assert (HT' : Permutation (nz R (tdata T')) (nz R (tdata Z0) ++ nz R (tdata (src i0)))).
        { unfold T'. apply tassign_box_content; try assumption.
          intros idx Hinb _. now apply get_tzeros. }
        rewrite (nz_zeros R ZT (tdata Z0)) in HT' by apply all_zero_tzeros. cbn [app] in HT'.
        rewrite (keys_dset_notin keqb Hk) by (now apply (lookup_None_iff keqb Hk)).
        rewrite dict_entries_app. apply Permutation_app; [exact IH|].
        unfold dict_entries. cbn [flat_map snd]. rewrite app_nil_r. exact HT'.
  Qed.
End BoxContent.

(* ------------------------------------------------------------------ *)
(* Part A: a fuse call with several groups *)
Section FuseGroupsContent.
  Context (G : Symmetry) (R : Ring) (GL : GroupLaws G) (OL : OrderLaws G) (ZT : ZeroTest R).
  Notation arr := (aarray G R).
  Notation keq := (list_eqb (ceqb G)).

  Theorem fuse_core_content_groups (x : arr) (groups : list (list nat)) :
    wf_array G R x = true ->
    Forall (fun g => g <> []) groups -> NoDup (concat groups) ->
    Forall (fun ax => ax < length (indices G R x)) (concat groups) ->
    Permutation (stored_entries G R (fuse_core G R x groups)) (stored_entries G R x).
  Proof.
    intros Hwf Hne Hnd Hrng. unfold stored_entries.
    rewrite (fuse_core_box G R x groups).
    pose proof (wfp G R GL x Hwf) as (_ & _ & Hb).
    eapply perm_trans.
    - apply (box_content R ZT keq (Hkq' G GL)).
      + apply (blocks_NoDup' G R GL x Hwf).
      + intros [s b] Hsb. pose proof (FuseProofs.In_secs G R x s b Hsb) as Hs.
        unfold bitem_ok, Fkey, Fsel, Fsrc, Fshape. cbn [fst snd]. split; [|split].
        * rewrite (NS_eq' G R x groups), (block_shape_FI G R x). apply Forall2_map_both. intros g Hg.
          destruct (rng_ok G R GL OL x groups Hwf Hne Hnd Hrng s g Hs Hg) as [H1 H2]. rewrite H1. exact H2.
        * cbn [treshape tshape]. rewrite map_map. symmetry. apply map_ext_in. intros g Hg.
          apply (rng_ok G R GL OL x groups Hwf Hne Hnd Hrng s g Hs Hg).
        * unfold well_shaped. cbn [treshape tshape tdata]. unfold ttranspose.
          rewrite length_tdata_build, (tshape_perm' G R GL x groups Hwf Hrng s b Hsb).
          rewrite shape_size_concat, map_map. reflexivity.
      + apply (Fdisj G R GL OL x groups Hwf Hne Hnd Hrng).
    - unfold dict_entries. apply perm_flat_map_ext. intros [s b] Hsb. cbn [snd]. apply nz_perm.
      unfold Fsrc, treshape. cbn [tdata fst snd].
      destruct (Hb s b Hsb) as (Hl & _ & Hsh & Hdata).
      apply ttranspose_perm.
      + apply (Pperm' G R x groups Hnd Hrng).
      + rewrite (Plen' G R x groups Hnd Hrng), Hsh. now apply block_shape_length.
      + exact Hdata.
  Qed.

  Lemma fold_expand_content (E : list (nat * list nat)) g0 : forall y : arr,
    stored_entries G R (fold_left (fun acc p => if is_nil (snd p) then a_expand_dims G R acc (g0 + fst p) else acc) E y)
    = stored_entries G R y.
  Proof.
    induction E as [|p E IH]; intros y; [reflexivity|]. cbn [fold_left]. rewrite IH.
    destruct (is_nil (snd p)); [apply expand_dims_content|reflexivity].
  Qed.

  (* x.fuse( *groups ) with ANY list of groups of distinct in-range axes (several
     groups at once, singlet groups, empty groups (expanded), any order) keeps the
     multiset of non-zero stored entries *)
  Theorem fuse_content_groups (x : arr) (groups : list (list nat)) :
    wf_array G R x = true -> NoDup (concat groups) -> Forall (fun ax => ax < ndim G R x) (concat groups) ->
    Permutation (stored_entries G R (a_fuse G R x groups)) (stored_entries G R x).
  Proof.
    intros Hwf Hnd Hrng. unfold a_fuse. rewrite fold_expand_content.
    destruct (filter (fun g => negb (is_nil g)) groups) as [|g0 gs0] eqn:E; [apply Permutation_refl|]. rewrite <- E.
    apply fuse_core_content_groups; [exact Hwf|apply nonnil_ne|now rewrite concat_nonnil|now rewrite concat_nonnil].
  Qed.
End FuseGroupsContent.

(* ------------------------------------------------------------------ *)
(* Part B: every plan that executes, and reshape *)
Section ReshapeContentFull.
  Context (G : Symmetry) (R : Ring) (GL : GroupLaws G) (OL : OrderLaws G) (ZT : ZeroTest R) (RL : RingLaws R).
  Notation arr := (aarray G R).

  Theorem fuse_content_groups_norm (x : arr) (groups : list (list nat)) :
    wf_array G R x = true -> NoDup (concat groups) -> Forall (fun ax => ax < ndim G R x) (concat groups) ->
    wf_array G R (a_fuse G R x groups) = true /\
    a_norm2 G R (a_fuse G R x groups) = a_norm2 G R x /\
    Permutation (stored_entries G R (a_fuse G R x groups)) (stored_entries G R x).
  Proof.
    intros Hwf Hnd Hrng. split; [now apply (a_fuse_wf G R GL OL)|].
    apply (same_content_of_perm G R ZT RL). now apply (fuse_content_groups G R GL OL ZT).
  Qed.

  Theorem fuse_step_content_groups (x y : arr) (grouping : list (list nat)) :
    wf_array G R x = true -> fuse_step G R x grouping = Some y ->
    wf_array G R y = true /\ same_content G R y x /\ y = a_fuse G R x grouping /\
    NoDup (concat grouping) /\ Forall (fun ax => ax < ndim G R x) (concat grouping).
  Proof.
    intros Hwf H. unfold fuse_step, fuse_axes_ok in H.
    destruct (ReshapeArgs.nodupb (concat grouping)) eqn:Hnd; [|discriminate]. cbn [andb] in H.
    destruct (forallb (fun ax => Nat.ltb ax (ndim G R x)) (concat grouping)) eqn:Hrng; [|discriminate].
    inversion H. subst y. clear H. apply nodupb_NoDup_nat in Hnd.
    assert (Hr : Forall (fun ax => ax < ndim G R x) (concat grouping)).
    { apply Forall_forall. intros ax Hax. rewrite forallb_forall in Hrng. apply Nat.ltb_lt. now apply Hrng. }
    destruct (fuse_content_groups_norm x grouping Hwf Hnd Hr) as (W & N & P).
    split; [exact W|]. split; [split; assumption|]. now repeat split.
  Qed.

  Lemma fuse_seq_content_groups fs : forall x y,
    wf_array G R x = true -> fuse_seq G R fs x = Some y -> wf_array G R y = true /\ same_content G R y x.
  Proof.
    induction fs as [|gr fs IH]; intros x y Hwf H; cbn [fuse_seq] in H.
    - inversion H. subst y. split; [exact Hwf|apply (same_content_refl G R ZT RL)].
    - destruct (fuse_step G R x gr) as [x1|] eqn:E; [|discriminate].
      destruct (fuse_step_content_groups x x1 gr Hwf E) as (Hw1 & Hc1 & _).
      destruct (IH x1 y Hw1 H) as (Hw & Hc). split; [exact Hw|]. eapply same_content_trans; eassumption.
  Qed.

  (* any plan that executes: no restriction on the fuse calls *)
  Theorem exec_plan_content_full (p : ReshapeArgs.plan) (x y : arr) :
    wf_array G R x = true -> a_exec_plan G R p x = Some y ->
    wf_array G R y = true /\ same_content G R y x.
  Proof.
    destruct p as [[us fs] es]. unfold a_exec_plan. intros Hwf H.
    destruct (unfuse_seq G R us x) as [x1|] eqn:E1; [|discriminate].
    destruct (fuse_seq G R fs x1) as [x2|] eqn:E2; [|discriminate].
    destruct (unfuse_seq_content G R GL OL ZT RL us x x1 Hwf E1) as (W1 & C1).
    destruct (fuse_seq_content_groups fs x1 x2 W1 E2) as (W2 & C2).
    destruct (expand_seq_content G R GL ZT RL es x2 y W2 H) as (W3 & C3).
    split; [exact W3|]. eapply same_content_trans; [exact C3|]. eapply same_content_trans; eassumption.
  Qed.

  (* reshaping never changes an array's content *)
  Theorem reshape_content (x y : arr) (shp : list Z) :
    wf_array G R x = true -> a_reshape G R x shp = Some y ->
    wf_array G R y = true /\
    a_norm2 G R y = a_norm2 G R x /\ Permutation (stored_entries G R y) (stored_entries G R x).
  Proof.
    intros Hwf H. destruct (reshape_some G R x shp y H) as (p & Hp & He).
    exact (exec_plan_content_full p x y Hwf He).
  Qed.
End ReshapeContentFull.

Theorem reshape_content_full_proved : reshape_content_full.
Proof.
  intros G R GL OL ZT RL x y shp Hwf H. exact (proj2 (reshape_content G R GL OL ZT RL x y shp Hwf H)).
Qed.

(* ------------------------------------------------------------------ *)
(* Part C: merging a run of adjacent axes and reshaping back *)
Lemma permuted_seq_id {A} (d : A) (l : list A) n : length l = n -> permuted d l (seq 0 n) = l.
Proof. intros H. unfold permuted. now apply map_nth_seq0. Qed.

Lemma is_perm_seq n : is_perm (seq 0 n).
Proof. unfold is_perm. rewrite seq_length. apply Permutation_refl. Qed.

Lemma ttranspose_id (R : Ring) (b : tensor R) n :
  length (tshape b) = n -> length (tdata b) = shape_size (tshape b) -> ttranspose R b (seq 0 n) = b.
Proof.
  intros Hn Hd. unfold ttranspose. rewrite (permuted_seq_id 0 (tshape b) n Hn).
  rewrite <- (build_get_id R b Hd) at 2. apply build_ext. intros idx Hidx.
  pose proof (inb_length _ _ Hidx) as Hl.
  rewrite <- (permuted_seq_id 0 idx n) at 1 by lia.
  rewrite FuseTensor.unpermute_permuted; [reflexivity|apply is_perm_seq|rewrite seq_length; lia].
Qed.

Lemma fold_min_lb l : forall a, (forall b, In b l -> a <= b) -> fold_left Nat.min l a = a.
Proof.
  induction l as [|c l IH]; intros a H; [reflexivity|]. cbn [fold_left].
  rewrite Nat.min_l by (apply H; now left). apply IH. intros b Hb. apply H. now right.
Qed.

Lemma list_min_seq i s : 0 < s -> list_min (seq i s) = i.
Proof.
  destruct s as [|s]; [lia|]. intros _. cbn [seq list_min]. apply fold_min_lb.
  intros b Hb. apply in_seq in Hb. lia.
Qed.

Lemma mem_seq ax i s : mem Nat.eqb ax (seq i s) = (Nat.leb i ax && Nat.ltb ax (i + s)).
Proof.
  destruct (mem Nat.eqb ax (seq i s)) eqn:E.
  - apply nat_mem_In in E. apply in_seq in E. symmetry. apply andb_true_iff.
    split; [apply Nat.leb_le|apply Nat.ltb_lt]; lia.
  - symmetry. apply andb_false_iff. destruct (Nat.leb i ax) eqn:E1; [right|now left].
    apply Nat.leb_le in E1. apply Nat.ltb_ge. destruct (Nat.lt_ge_cases ax (i + s)) as [H|H]; [|exact H].
    exfalso. assert (Hin : In ax (seq i s)) by (apply in_seq; lia). apply nat_mem_In in Hin. congruence.
Qed.

(* fusing ONE run of adjacent axes does not move any axis *)
Lemma fuse_perm_run n i s : 0 < s -> i + s <= n -> fuse_perm n [seq i s] = seq 0 n.
Proof.
  intros Hs Hle. unfold fuse_perm, axes_before, axes_after, fuse_position. cbn [concat]. rewrite !app_nil_r.
  rewrite (list_min_seq i s Hs).
  assert (P : forall ax, is_none (group_of [seq i s] ax) = negb (Nat.leb i ax && Nat.ltb ax (i + s))).
  { intros ax. rewrite group_of_single, mem_seq. now destruct (Nat.leb i ax && Nat.ltb ax (i + s)). }
  rewrite (filter_all _ (seq 0 i)).
  2:{ intros ax Hax. apply in_seq in Hax. rewrite P. apply negb_true_iff. apply andb_false_iff. left.
      apply Nat.leb_gt. lia. }
  replace (n - i) with (s + (n - i - s)) by lia. rewrite seq_app, filter_app.
  rewrite (filter_nil_all _ (seq i s)).
  2:{ intros ax Hax. apply in_seq in Hax. rewrite P. apply negb_false_iff. apply andb_true_iff.
      split; [apply Nat.leb_le|apply Nat.ltb_lt]; lia. }
  rewrite (filter_all _ (seq (i + s) (n - i - s))).
  2:{ intros ax Hax. apply in_seq in Hax. rewrite P. apply negb_true_iff. apply andb_false_iff. right.
      apply Nat.ltb_ge. lia. }
  cbn [app]. replace (seq 0 n) with (seq 0 (i + (s + (n - i - s)))) by (f_equal; lia). now rewrite !seq_app.
Qed.

Section MergeOne.
  Context (G : Symmetry) (R : Ring) (GL : GroupLaws G) (OL : OrderLaws G).
  Notation arr := (aarray G R).
  Notation keq := (list_eqb (ceqb G)).

  (* x' is x up to explicit zero blocks: same indices and charge, every stored
     block of x stored bit for bit, every other stored block all-zero, the same
     value at every coordinate *)
  Definition restores (x' x : arr) : Prop :=
    indices G R x' = indices G R x /\ charge G R x' = charge G R x /\
    (forall s b, In (s, b) (blocks G R x) -> lookup keq s (blocks G R x') = Some b) /\
    (forall k t, In (k, t) (blocks G R x') -> In (k, t) (blocks G R x) \/ Forall (fun v => v = r0 R) (tdata t)) /\
    (forall cs, coords_ok G (indices G R x) cs = true -> sem G R x' cs = sem G R x cs).

  Lemma nodupb_seq i s : ReshapeArgs.nodupb (seq i s) = true.
  Proof. apply NoDup_nodupb_nat. apply seq_NoDup. Qed.

  (* the round trip over the PLANS: fuse the run [i, i+s), then unfuse axis i *)
  Theorem roundtrip_merge_one_plans (x : arr) (i s : nat) :
    wf_array G R x = true -> 2 <= s -> i + s <= ndim G R x ->
    exists y x',
      a_exec_plan G R ([], [[seq i s]], []) x = Some y /\
      a_exec_plan G R ([i], [], []) y = Some x' /\
      y = fuse_core G R x [seq i s] /\
      wf_array G R y = true /\ wf_array G R x' = true /\ restores x' x.
  Proof.
    intros Hwf Hs Hle. unfold ndim in Hle. set (n := length (indices G R x)) in *.
    set (g := seq i s).
    assert (Hne : Forall (fun g : list nat => g <> []) [g]).
    { constructor; [|constructor]. unfold g. destruct s; [lia|discriminate]. }
    assert (Hnd : NoDup (concat [g])) by (cbn [concat]; rewrite app_nil_r; apply seq_NoDup).
    assert (Hrng : Forall (fun ax => ax < n) (concat [g])).
    { cbn [concat]. rewrite app_nil_r. apply Forall_forall. intros ax Hax. apply in_seq in Hax. lia. }
    destruct (unfuse_fuse_groups_thm G R GL OL x [g] Hwf Hne Hnd Hrng) as (x' & Hu & Hix & Hq & Hown & Hall & Hsem).
    fold n in Hix, Hown, Hall, Hsem.
    assert (Hperm : fuse_perm n [g] = seq 0 n) by (apply fuse_perm_run; lia).
    rewrite Hperm in *.
    assert (Hpos : fuse_position [g] = i).
    { unfold fuse_position. cbn [concat]. rewrite app_nil_r. apply list_min_seq. lia. }
    assert (Hsing : is_singlet g = false).
    { unfold is_singlet, g. rewrite seq_length. apply Nat.eqb_neq. lia. }
    unfold unfuse_groups in Hu. cbn [enumerate length seq List.combine fold_right] in Hu.
    unfold unfuse_step in Hu. cbn [fst snd] in Hu. rewrite Hsing, Hpos, Nat.add_0_r in Hu.
    set (y := fuse_core G R x [g]) in *.
    assert (Wy : wf_array G R y = true) by (apply (fuse_groups_wf G GL OL R x [g] Hwf Hne Hnd Hrng)).
    assert (Wx' : wf_array G R x' = true) by (apply (unfuse_wf G GL R y x' i Wy Hu)).
    exists y, x'. split; [|split; [|split; [reflexivity|split; [exact Wy|split; [exact Wx'|]]]]].
    - unfold a_exec_plan. cbn [unfuse_seq fuse_seq]. unfold fuse_step, fuse_axes_ok. cbn [concat].
      rewrite app_nil_r. fold g. unfold g at 1. rewrite nodupb_seq. cbn [andb].
      replace (forallb (fun ax => Nat.ltb ax (ndim G R x)) g) with true.
      2:{ symmetry. apply forallb_forall. intros ax Hax. apply in_seq in Hax. apply Nat.ltb_lt. unfold ndim. fold n. lia. }
      rewrite a_fuse_single by (unfold g; destruct s; [lia|discriminate]). reflexivity.
    - unfold a_exec_plan. cbn [unfuse_seq fuse_seq expand_seq]. now rewrite Hu.
    - destruct (wfp G R GL x Hwf) as (_ & _ & Hb).
      assert (Hid : forall s0 b, In (s0, b) (blocks G R x) ->
                permuted (ident G) s0 (seq 0 n) = s0 /\ ttranspose R b (seq 0 n) = b).
      { intros s0 b Hsb. destruct (Hb s0 b Hsb) as (Hl & _ & Hsh & Hd). split; [now apply permuted_seq_id|].
        apply ttranspose_id; [|exact Hd]. rewrite Hsh. now apply block_shape_length. }
      split; [rewrite Hix; now apply permuted_seq_id|]. split; [exact Hq|]. split; [|split].
      + intros s0 b Hsb. destruct (Hid s0 b Hsb) as [E1 E2]. rewrite <- E1 at 1. rewrite <- E2 at 1. now apply Hown.
      + intros k t Hin. destruct (Hall k t Hin) as [(s0 & b & Hsb & -> & ->)|Hz]; [left|now right].
        destruct (Hid s0 b Hsb) as [-> ->]. exact Hsb.
      + intros cs Hc. rewrite <- (Hsem cs Hc). f_equal. symmetry. apply permuted_seq_id.
        unfold coords_ok in Hc. apply andb_true_iff in Hc. destruct Hc as [Hl _]. now apply Nat.eqb_eq in Hl.
  Qed.
End MergeOne.

(* ------------------------------------------------------------------ *)
(* Part C2: the plans `calc_reshape_args` returns for a merge of ONE run of
   adjacent axes (every merged axis of size >= 2) and for the way back *)
Section MergePlans.
  Import ReshapeArgs.
  Local Open Scope Z_scope.

  Definition nones (l : list Z) : list (option (list Z)) := map (fun _ => None) l.

  Lemma nones_app a b : nones (a ++ b) = nones a ++ nones b.
  Proof. apply map_app. Qed.

  Lemma skipn_nones k l : skipn k (nones l) = nones (skipn k l).
  Proof. unfold nones. now rewrite skipn_map. Qed.

  (* equal leading dimensions of plain axes are matched one to one *)
  Lemma match_loop_prefix : forall (pre : list Z) sh subs nw fuel st,
    match_loop (length pre + fuel) (pre ++ sh) (nones pre ++ subs) (pre ++ nw) st =
    match_loop fuel sh subs nw
      (MState (m_k st + length pre) (m_term st ++ repeat Lo (length pre)) (m_unf st) (m_fus st)
              (m_exp st) (m_sing st) (m_fused st)).
  Proof.
    induction pre as [|d pre IH]; intros sh subs nw fuel st.
    - cbn [length app repeat nones map Nat.add]. rewrite Nat.add_0_r, app_nil_r. now destruct st.
    - cbn [length app nones map Nat.add match_loop]. rewrite Z.eqb_refl.
      change (map (fun _ : Z => @None (list Z)) pre) with (nones pre).
      rewrite IH. cbn [m_k m_term m_unf m_fus m_exp m_sing m_fused repeat].
      rewrite <- app_assoc. cbn [app]. do 2 f_equal. lia.
  Qed.

  Lemma zprod_ge2 (l : list Z) : l <> [] -> Forall (fun d => 2 <= d) l -> 2 <= zprod l.
  Proof.
    intros Hne H. induction H as [|d l Hd H IH]; [congruence|]. unfold zprod. cbn [fold_right]. fold (zprod l).
    destruct l as [|e l]; [cbn; lia|]. specialize (IH ltac:(discriminate)). nia.
  Qed.

  Lemma fuse_scan_run (post : list Z) : forall (run : list Z) di s,
    0 < di -> Forall (fun d => 2 <= d) run ->
    fuse_scan (di * zprod run) di (run ++ post) s = Ok (post, (s + length run)%nat).
  Proof.
    induction run as [|e run IH]; intros di s Hdi Hall.
    - cbn [zprod fold_right app length]. rewrite Z.mul_1_r, Nat.add_0_r.
      destruct post; cbn [fuse_scan]; rewrite Z.ltb_irrefl, Z.eqb_refl; reflexivity.
    - inversion Hall as [|? ? He Hrun]; subst. unfold zprod. cbn [fold_right app fuse_scan length]. fold (zprod run).
      assert (Hp : 1 <= zprod run).
      { destruct run as [|f run]; [cbn; lia|]. pose proof (zprod_ge2 (f :: run) ltac:(discriminate) Hrun). lia. }
      assert (Hq : 2 <= e * zprod run) by nia.
      replace (di <? di * (e * zprod run)) with true by (symmetry; apply Z.ltb_lt; nia).
      replace (di * (e * zprod run)) with (di * e * zprod run) by ring.
      rewrite IH by (try assumption; nia). do 2 f_equal. lia.
  Qed.

  Lemma no_match_nones l : ReshapeArgsProofs.no_match l (nones l).
  Proof. apply ReshapeArgsProofs.no_match_none. Qed.

  (* ---- forward: pre ++ run ++ post  ->  pre ++ [prod run] ++ post ---- *)
  Lemma fuse_loop_skip (fus : list nat) (term : list label) acc : forall a fuel i,
    (forall j, (i <= j < i + a)%nat -> nth_error term j = Some Lo) ->
    fuse_loop (a + fuel) i term fus [] acc = fuse_loop fuel (i + a) term fus [] acc.
  Proof.
    induction a as [|a IH]; intros fuel i H.
    - now rewrite Nat.add_0_r.
    - cbn [Nat.add fuse_loop]. rewrite (H i) by lia. rewrite IH by (intros j Hj; apply H; lia).
      f_equal. lia.
  Qed.

  Lemma nth_error_repeat_mid {A} (a b c : A) i m j :
    nth_error (repeat a i ++ repeat b 1 ++ repeat c m) j =
    if Nat.ltb j i then Some a else if Nat.eqb j i then Some b else if Nat.ltb j (i + 1 + m) then Some c else None.
  Proof.
    destruct (Nat.ltb j i) eqn:E1.
    - apply Nat.ltb_lt in E1. rewrite nth_error_app1 by (now rewrite repeat_length).
      apply nth_error_repeat. exact E1.
    - apply Nat.ltb_ge in E1. rewrite nth_error_app2 by (now rewrite repeat_length). rewrite repeat_length.
      destruct (Nat.eqb j i) eqn:E2.
      + apply Nat.eqb_eq in E2. subst j. now rewrite Nat.sub_diag.
      + apply Nat.eqb_neq in E2. destruct (j - i)%nat as [|q] eqn:Eq; [lia|]. cbn [repeat app nth_error].
        destruct (Nat.ltb j (i + 1 + m)) eqn:E3.
        * apply Nat.ltb_lt in E3. apply nth_error_repeat. lia.
        * apply Nat.ltb_ge in E3. apply nth_error_None. rewrite repeat_length. lia.
  Qed.

  Lemma merge_one_forward_plan (pre run post : list Z) :
    (2 <= length run)%nat -> Forall (fun d => 2 <= d) run ->
    calc_reshape_args (pre ++ run ++ post) (pre ++ zprod run :: post) (nones (pre ++ run ++ post))
    = Ok ([], [[seq (length pre) (length run)]], []).
  Proof.
    intros Hlen Hall. unfold calc_reshape_args, main_fuel.
    destruct run as [|d run]; [cbn [length] in Hlen; lia|].
    inversion Hall as [|? ? Hd Hrun]; subst.
    assert (Hrne : run <> []) by (intros ->; cbn [length] in Hlen; lia).
    pose proof (zprod_ge2 run Hrne Hrun) as Hp.
    set (s := S (length run)). set (m := length post).
    rewrite !nones_app.
    replace (S (length (pre ++ (d :: run) ++ post) + length (pre ++ zprod (d :: run) :: post)))%nat
      with (length pre + S (S (m + (length pre + s + m))))%nat.
    2:{ repeat (rewrite app_length; cbn [length]). unfold s, m. lia. }
    rewrite match_loop_prefix. set (i := length pre).
    remember (S (m + (i + s + m)))%nat as f2 eqn:Ef2.
    cbn [app nones map match_loop mstate0 m_k m_term m_unf m_fus m_exp m_sing m_fused].
    change (zprod (d :: run)) with (d * zprod run).
    replace (d =? d * zprod run) with false by (symmetry; apply Z.eqb_neq; nia).
    replace (d =? 1) with false by (symmetry; apply Z.eqb_neq; lia).
    replace (d * zprod run =? 1) with false by (symmetry; apply Z.eqb_neq; nia).
    replace (d <? d * zprod run) with true by (symmetry; apply Z.ltb_lt; nia).
    rewrite (fuse_scan_run post run d 1) by (try assumption; lia).
    change (map (fun _ : Z => @None (list Z)) run) with (nones run).
    change (map (fun _ : Z => @None (list Z)) post) with (nones post).
    change (None :: nones run ++ nones post) with (nones (d :: run) ++ nones post).
    rewrite skipn_app, skipn_all2 by (unfold nones; rewrite map_length; cbn [length]; lia).
    replace (1 + length run - length (nones (d :: run)))%nat with 0%nat by (unfold nones; rewrite map_length; cbn [length]; lia).
    cbn [skipn app length].
    rewrite (ReshapeArgsProofs.match_loop_same post (nones post)) by (try apply no_match_nones; fold m; lia).
    clear Ef2 f2.
    cbn [bind m_k m_term m_unf m_fus m_exp m_sing m_fused unfuse_rewrite orb rev app length].
    fold m. fold i. change (1 + length run)%nat with s.
    set (term := (repeat Lo i ++ repeat (Lg 0) s) ++ repeat Lo m).
    assert (Hlt : length term = (i + s + m)%nat) by (unfold term; rewrite !app_length, !repeat_length; lia).
    assert (Hn : forall j, nth_error term j =
              if Nat.ltb j i then Some Lo else if Nat.ltb j (i + s) then Some (Lg 0)
              else if Nat.ltb j (i + s + m) then Some Lo else None).
    { intros j. unfold term. destruct (Nat.ltb j i) eqn:E1.
      - apply Nat.ltb_lt in E1. rewrite <- app_assoc, nth_error_app1 by (now rewrite repeat_length).
        now apply nth_error_repeat.
      - apply Nat.ltb_ge in E1. destruct (Nat.ltb j (i + s)) eqn:E2.
        + apply Nat.ltb_lt in E2. rewrite nth_error_app1 by (rewrite app_length, !repeat_length; lia).
          rewrite nth_error_app2 by (now rewrite repeat_length). rewrite repeat_length. apply nth_error_repeat. lia.
        + apply Nat.ltb_ge in E2. rewrite nth_error_app2 by (rewrite app_length, !repeat_length; lia).
          rewrite app_length, !repeat_length. destruct (Nat.ltb j (i + s + m)) eqn:E3.
          * apply Nat.ltb_lt in E3. apply nth_error_repeat. lia.
          * apply Nat.ltb_ge in E3. apply nth_error_None. rewrite repeat_length. lia. }
    rewrite Hlt.
    replace (2 * (i + s + m) + 2)%nat with (i + S (S (m + S (i + s + s + m - 1))))%nat by (unfold s; lia).
    rewrite fuse_loop_skip.
    2:{ intros j Hj. rewrite Hn. replace (Nat.ltb j i) with true by (symmetry; apply Nat.ltb_lt; lia). reflexivity. }
    cbn [Nat.add].
    remember (S (m + S (i + s + s + m - 1)))%nat as F1 eqn:EF1.
    cbn [fuse_loop]. rewrite Hn, Nat.ltb_irrefl.
    replace (Nat.ltb i (i + s)) with true by (symmetry; apply Nat.ltb_lt; unfold s; lia).
    cbn [nth_error app].
    (* position i + s: the end, or a plain axis *)
    subst F1. remember (m + S (i + s + s + m - 1))%nat as F2 eqn:EF2.
    cbn [fuse_loop]. rewrite Hn.
    replace (Nat.ltb (i + s) i) with false by (symmetry; apply Nat.ltb_ge; lia).
    rewrite Nat.ltb_irrefl.
    destruct (Nat.ltb (i + s) (i + s + m)) eqn:E3; [|reflexivity].
    apply Nat.ltb_lt in E3.
    cbn [map length nat_sum fold_right app]. rewrite seq_length.
    replace (i + s - (s + 0))%nat with i by lia.
    set (term' := firstn i term ++ repeat Lo 1 ++ skipn (i + s) term).
    assert (Ht' : term' = repeat Lo i ++ repeat Lo 1 ++ repeat Lo m).
    { unfold term', term. rewrite <- app_assoc.
      rewrite firstn_app, firstn_all2 by (rewrite repeat_length; lia).
      rewrite repeat_length, Nat.sub_diag. cbn [firstn]. rewrite app_nil_r.
      rewrite skipn_app, skipn_all2 by (rewrite repeat_length; lia). rewrite repeat_length.
      rewrite skipn_app, skipn_all2 by (rewrite repeat_length; lia). rewrite repeat_length.
      replace (i + s - i - s)%nat with 0%nat by lia. reflexivity. }
    rewrite Ht'. subst F2.
    rewrite fuse_loop_skip.
    2:{ intros j Hj. rewrite nth_error_repeat_mid.
        replace (Nat.ltb j i) with false by (symmetry; apply Nat.ltb_ge; lia).
        replace (Nat.eqb j i) with false by (symmetry; apply Nat.eqb_neq; lia).
        replace (Nat.ltb j (i + 1 + m)) with true by (symmetry; apply Nat.ltb_lt; lia). reflexivity. }
    cbn [fuse_loop]. rewrite nth_error_repeat_mid.
    replace (Nat.ltb (i + 1 + m) i) with false by (symmetry; apply Nat.ltb_ge; lia).
    replace (Nat.eqb (i + 1 + m) i) with false by (symmetry; apply Nat.eqb_neq; lia).
    rewrite Nat.ltb_irrefl. reflexivity.
  Qed.
  (* ---- back: pre ++ [F] ++ post with sub-sizes `run` recorded on F  ->  pre ++ run ++ post ---- *)
  Lemma prefix_eqb_app run post : prefix_eqb run (run ++ post) = true.
  Proof. induction run as [|d run IH]; [reflexivity|]. cbn [app prefix_eqb]. now rewrite Z.eqb_refl, IH. Qed.

  Lemma index_of_Lu i rest : index_of (Lu 0) (repeat Lo i ++ Lu 0 :: rest) = Some i.
  Proof. induction i as [|i IH]; [reflexivity|]. cbn [repeat app index_of label_eqb]. now rewrite IH. Qed.

  Lemma merge_one_backward_plan (pre run post : list Z) (F : Z) : run <> [] ->
    calc_reshape_args (pre ++ F :: post) (pre ++ run ++ post) (nones pre ++ Some run :: nones post)
    = Ok ([length pre], [], []).
  Proof.
    intros Hne. destruct run as [|d0 run0]; [congruence|]. set (run := d0 :: run0).
    unfold calc_reshape_args, main_fuel.
    set (m := length post).
    replace (S (length (pre ++ F :: post) + length (pre ++ run ++ post)))%nat
      with (length pre + S (S (m + (length pre + length run + m))))%nat.
    2:{ repeat (rewrite app_length; cbn [length]). unfold m. lia. }
    rewrite match_loop_prefix. set (i := length pre).
    remember (S (m + (i + length run + m)))%nat as f2 eqn:Ef2.
    unfold run at 2. cbn [app]. cbn [match_loop mstate0 m_k m_term m_unf m_fus m_exp m_sing m_fused].
    change (d0 :: run0 ++ post) with (run ++ post).
    rewrite prefix_eqb_app.
    rewrite skipn_app. rewrite (skipn_all2 run) by apply Nat.le_refl. rewrite Nat.sub_diag. cbn [skipn app].
    rewrite (ReshapeArgsProofs.match_loop_same post (nones post)) by (try apply no_match_nones; fold m; lia).
    clear Ef2 f2.
    cbn [bind m_k m_term m_unf m_fus m_exp m_sing m_fused unfuse_rewrite orb rev app length].
    rewrite <- app_assoc. cbn [app]. rewrite index_of_Lu. reflexivity.
  Qed.
End MergePlans.

(* ------------------------------------------------------------------ *)
(* Part C3: the round trip of `a_reshape` itself for ONE merged run *)
Lemma axes_before_run n i s : 0 < s -> axes_before n [seq i s] = seq 0 i.
Proof.
  intros Hs. unfold axes_before, fuse_position. cbn [concat]. rewrite app_nil_r, (list_min_seq i s Hs).
  apply filter_all. intros ax Hax. apply in_seq in Hax. rewrite group_of_single, mem_seq.
  replace (Nat.leb i ax) with false by (symmetry; apply Nat.leb_gt; lia). reflexivity.
Qed.

Lemma axes_after_run n i s : 0 < s -> i + s <= n -> axes_after n [seq i s] = seq (i + s) (n - i - s).
Proof.
  intros Hs Hle. unfold axes_after, fuse_position. cbn [concat]. rewrite app_nil_r, (list_min_seq i s Hs).
  assert (P : forall ax, is_none (group_of [seq i s] ax) = negb (Nat.leb i ax && Nat.ltb ax (i + s))).
  { intros ax. rewrite group_of_single, mem_seq. now destruct (Nat.leb i ax && Nat.ltb ax (i + s)). }
  assert (E : seq i (n - i) = seq i s ++ seq (i + s) (n - i - s)).
  { rewrite <- seq_app. f_equal. lia. }
  rewrite E, filter_app.
  rewrite (filter_nil_all _ (seq i s)).
  2:{ intros ax Hax. apply in_seq in Hax. rewrite P. apply negb_false_iff. apply andb_true_iff.
      split; [apply Nat.leb_le|apply Nat.ltb_lt]; lia. }
  apply filter_all. intros ax Hax. apply in_seq in Hax. rewrite P. apply negb_true_iff. apply andb_false_iff. right.
  apply Nat.ltb_ge. lia.
Qed.

Lemma skipn_cons_nth {A} (d : A) : forall (l : list A) a, a < length l -> skipn a l = nth a l d :: skipn (S a) l.
Proof.
  induction l as [|x l IH]; intros a H; cbn [length] in H; [lia|].
  destruct a as [|a]; [reflexivity|]. cbn [skipn nth]. apply IH. lia.
Qed.

Lemma map_nth_seq_seg {A} (d : A) (l : list A) : forall k a, a + k <= length l ->
  map (fun ax => nth ax l d) (seq a k) = firstn k (skipn a l).
Proof.
  induction k as [|k IH]; intros a H; [reflexivity|].
  cbn [seq map]. rewrite (skipn_cons_nth d l a) by lia. cbn [firstn]. f_equal. apply IH. lia.
Qed.

Lemma skipn_add {A} : forall a (l : list A) b, skipn b (skipn a l) = skipn (a + b) l.
Proof.
  induction a as [|a IH]; intros l b; [reflexivity|]. destruct l as [|x l]; [now rewrite !skipn_nil|].
  cbn [skipn Nat.add]. apply IH.
Qed.

Section MergeOneReshape.
  Context (G : Symmetry) (R : Ring) (GL : GroupLaws G) (OL : OrderLaws G).
  Notation arr := (aarray G R).
  Notation szZ := (fun ix : index G => Z.of_nat (size_total G ix)).

  (* the target shape: the run [i, i+s) replaced by the product of its sizes *)
  Definition merged_shape (sh : list Z) (i s : nat) : list Z :=
    firstn i sh ++ ReshapeArgs.zprod (firstn s (skipn i sh)) :: skipn (i + s) sh.

  Lemma subsizes_plain (ixs : list (index G)) :
    Forall (fun ix => isub G ix = None) ixs -> map (index_subsizes G) ixs = nones (map szZ ixs).
  Proof.
    intros H. unfold nones. rewrite map_map. apply map_ext_in. intros ix Hix.
    rewrite Forall_forall in H. unfold index_subsizes. now rewrite (H ix Hix).
  Qed.

  Lemma shape_split (sh : list Z) i s : sh = firstn i sh ++ firstn s (skipn i sh) ++ skipn (i + s) sh.
  Proof.
    rewrite <- (firstn_skipn i sh) at 1. f_equal. rewrite <- (firstn_skipn s (skipn i sh)) at 1. f_equal.
    apply skipn_add.
  Qed.

  Theorem reshape_roundtrip_merge_one (x : arr) (i s : nat) :
    wf_array G R x = true -> Forall (fun ix => isub G ix = None) (indices G R x) ->
    2 <= s -> i + s <= ndim G R x ->
    Forall (fun ix => 2 <= size_total G ix) (firstn s (skipn i (indices G R x))) ->
    exists y x',
      a_reshape G R x (merged_shape (a_shape G R x) i s) = Some y /\
      a_reshape G R y (a_shape G R x) = Some x' /\
      reshape_plan G R x (merged_shape (a_shape G R x) i s) = ReshapeArgs.Ok ([], [[seq i s]], []) /\
      reshape_plan G R y (a_shape G R x) = ReshapeArgs.Ok ([i], [], []) /\
      wf_array G R y = true /\ wf_array G R x' = true /\ restores G R x' x.
  Proof.
    intros Hwf Hplain Hs Hle Hsz.
    destruct (roundtrip_merge_one_plans G R GL OL x i s Hwf Hs Hle) as (y & x' & Hf & Hb & Hy & Wy & Wx' & Hres).
    unfold ndim in Hle. set (ixs := indices G R x) in *. set (n := length ixs) in *.
    set (sh := a_shape G R x).
    assert (Hlsh : length sh = n) by (unfold sh, a_shape; now rewrite map_length).
    set (pre := firstn i sh). set (run := firstn s (skipn i sh)). set (post := skipn (i + s) sh).
    assert (Hsh : sh = pre ++ run ++ post) by apply shape_split.
    assert (Lpre : length pre = i) by (unfold pre; rewrite firstn_length; lia).
    assert (Lrun : length run = s) by (unfold run; rewrite firstn_length, skipn_length; lia).
    assert (Hrun : run = map szZ (firstn s (skipn i ixs))).
    { unfold run, sh, a_shape. now rewrite <- firstn_map, <- skipn_map. }
    assert (Hsub : a_subsizes G R x = nones sh) by (apply subsizes_plain; exact Hplain).
    assert (P1 : reshape_plan G R x (merged_shape sh i s) = ReshapeArgs.Ok ([], [[seq i s]], [])).
    { unfold reshape_plan, merged_shape. fold sh pre run post. rewrite Hsub, Hsh, <- Lpre, <- Lrun.
      apply merge_one_forward_plan; [lia|]. rewrite Hrun. apply Forall_forall. intros d Hd.
      apply in_map_iff in Hd. destruct Hd as (ix & <- & Hix). rewrite Forall_forall in Hsz.
      specialize (Hsz ix Hix). lia. }
    (* the fused array *)
    set (g := seq i s) in *.
    assert (Hsing : is_singlet g = false).
    { unfold is_singlet, g. rewrite seq_length. apply Nat.eqb_neq. lia. }
    set (FI := fused_index G ixs (sectors G R x) g).
    assert (Hiy : indices G R y = firstn i ixs ++ FI :: skipn (i + s) ixs).
    { rewrite Hy. change (indices G R (fuse_core G R x [g])) with (fused_indices G ixs (sectors G R x) [g]).
      unfold ixs. rewrite (nixs_eq G R x g). fold ixs n FI. unfold g.
      rewrite axes_before_run, axes_after_run by lia.
      rewrite (map_nth_seq_seg (dflt_index G) ixs i 0) by (fold n; lia).
      rewrite (map_nth_seq_seg (dflt_index G) ixs (n - i - s) (i + s)) by (fold n; lia).
      cbn [skipn]. rewrite (firstn_all2 (skipn (i + s) ixs)) by (rewrite skipn_length; fold n; lia). reflexivity. }
    assert (Hshy : a_shape G R y = pre ++ szZ FI :: post).
    { unfold a_shape. rewrite Hiy, map_app. cbn [map]. unfold pre, post, sh, a_shape.
      now rewrite firstn_map, skipn_map. }
    assert (Hsuby : a_subsizes G R y = nones pre ++ Some run :: nones post).
    { unfold a_subsizes. rewrite Hiy, map_app. cbn [map].
      rewrite !subsizes_plain.
      - unfold pre, post, sh, a_shape. rewrite firstn_map, skipn_map. f_equal. f_equal.
        unfold index_subsizes, FI. rewrite (fused_isub G ixs (sectors G R x) g Hsing).
        f_equal. unfold subs_of, g. rewrite Hrun. f_equal. apply map_nth_seq_seg. fold n. lia.
      - apply Forall_forall. intros ix Hix. rewrite Forall_forall in Hplain. apply Hplain.
        fold ixs. rewrite <- (firstn_skipn (i + s) ixs). apply in_or_app. now right.
      - apply Forall_forall. intros ix Hix. rewrite Forall_forall in Hplain. apply Hplain.
        fold ixs. rewrite <- (firstn_skipn i ixs). apply in_or_app. now left. }
    assert (P2 : reshape_plan G R y sh = ReshapeArgs.Ok ([i], [], [])).
    { unfold reshape_plan. rewrite Hshy, Hsuby. rewrite Hsh at 1. rewrite <- Lpre.
      apply merge_one_backward_plan. intros E. rewrite E in Lrun. cbn [length] in Lrun. lia. }
    exists y, x'. split; [|split; [|split; [exact P1|split; [exact P2|split; [exact Wy|split; [exact Wx'|exact Hres]]]]]].
    - unfold a_reshape. unfold reshape_plan in P1. fold sh in P1. fold sh. rewrite P1. exact Hf.
    - unfold a_reshape. unfold reshape_plan in P2. fold sh in P2. fold sh. rewrite P2. exact Hb.
  Qed.
End MergeOneReshape.

(* ------------------------------------------------------------------ *)
(* Part C4: the general case — several disjoint runs merged at once.
   NOT proved.  `calc_reshape_args` fuses adjacent runs in ONE fuse call and
   non-adjacent runs in successive calls (positions refer to the array after the
   previous calls), and on the way back unfuses the fused axes from the FIRST to
   the last (positions shifted by the axes already restored), whereas the C05
   round trip `unfuse_fuse_groups` unfuses from the last group to the first: what
   is missing is the commutation of unfuse steps on different axes (up to explicit
   zero blocks) resp. a left-to-right level invariant.  The statement is decided
   on concrete block-sparse arrays below (one call with two adjacent runs; two
   calls). *)
Fixpoint chunks {A} (ls : list nat) (l : list A) : list (list A) :=
  match ls with [] => [] | k :: ls' => firstn k l :: chunks ls' (skipn k l) end.
Definition merged_runs (sh : list Z) (ls : list nat) : list Z := map ReshapeArgs.zprod (chunks ls sh).

Definition reshape_roundtrip_merge_runs_full : Prop :=
  forall (G : Symmetry) (R : Ring), GroupLaws G -> OrderLaws G ->
  forall (x : aarray G R) (ls : list nat),
    wf_array G R x = true -> Forall (fun ix => isub G ix = None) (indices G R x) ->
    Forall (fun k => 1 <= k) ls -> nsum ls = ndim G R x ->
    Forall (fun ix => 2 <= size_total G ix) (indices G R x) ->
    exists y x',
      a_reshape G R x (merged_runs (a_shape G R x) ls) = Some y /\
      a_reshape G R y (a_shape G R x) = Some x' /\ restores G R x' x.

(* `restores` decided on a concrete pair of arrays over Z *)
Definition restores_b {G : Symmetry} (x' x : aarray G ZRing) : bool :=
  list_eqb (index_eqb G) (indices G ZRing x') (indices G ZRing x) &&
  ceqb G (charge G ZRing x') (charge G ZRing x) &&
  forallb (fun sb => match lookup (list_eqb (ceqb G)) (fst sb) (blocks G ZRing x') with
                     | Some t => tensor_eqb ZRing t (snd sb) | None => false end) (blocks G ZRing x) &&
  forallb (fun kt : list (C G) * tensor ZRing =>
             mem (list_eqb (ceqb G)) (fst kt) (sectors G ZRing x) || forallb (fun v => Z.eqb v 0) (tdata (snd kt)))
          (blocks G ZRing x') &&
  forallb (fun cs => Z.eqb (sem G ZRing x' cs) (sem G ZRing x cs)) (all_coords G (indices G ZRing x)).

(* forward reshape to `shp`, back to the own shape, everything decided:
   the shape of the intermediate array, the plan of the way back, the number of
   blocks that come back, whether the result is literally x, and `restores` *)
Definition rt_check {G : Symmetry} (x : aarray G ZRing) (shp yshape : list Z) (back : ReshapeArgs.plan)
           (nblocks : nat) (same : bool) : bool :=
  match a_reshape G ZRing x shp with
  | Some y =>
      list_eqb Z.eqb (a_shape G ZRing y) yshape &&
      ReshapeArgs.res_plan_eqb (reshape_plan G ZRing y (a_shape G ZRing x)) (ReshapeArgs.Ok back) &&
      match a_reshape G ZRing y (a_shape G ZRing x) with
      | Some x' => Nat.eqb (length (blocks G ZRing x')) nblocks && Bool.eqb (aarray_eqb G ZRing x' x) same && restores_b x' x
      | None => false
      end
  | None => false
  end.

Section MergeExamples.
  Local Open Scope Z_scope.

  (* several groups in one fuse call: the hypotheses of fuse_content_groups, and both sides *)
  Example fuse_content_groups_example :
    wf_array Z2 ZRing ex4 = true /\ NoDup (concat gA) /\ Forall (fun ax => (ax < ndim Z2 ZRing ex4)%nat) (concat gA) /\
    stored_entries Z2 ZRing (a_fuse Z2 ZRing ex4 gA) = [7; 5; 6; 8; 9; 1; 3; 2; 4; 10; 11; 12; 13] /\
    stored_entries Z2 ZRing ex4 = [7; 1; 2; 3; 4; 5; 6; 8; 9; 10; 11; 12; 13].
  Proof.
    destruct exA_hyps as (H1 & _ & H3 & H4). split; [exact H1|]. split; [exact H3|]. split; [exact H4|].
    split; vm_compute; reflexivity.
  Qed.

  (* reshape with a multi-group plan: (3,3,3,3) -> (9,9) on a block-sparse array *)
  Example reshape_content_example2 :
    wf_array Z2 ZRing ex4 = true /\
    reshape_plan Z2 ZRing ex4 [9; 9] = ReshapeArgs.Ok ([], [[[0%nat; 1%nat]; [2%nat; 3%nat]]], []) /\
    option_map (fun y => (a_shape Z2 ZRing y, stored_entries Z2 ZRing y, a_norm2 Z2 ZRing y)) (a_reshape Z2 ZRing ex4 [9; 9])
      = Some ([5; 5], [7; 1; 2; 10; 11; 3; 4; 12; 13; 5; 6; 8; 9], 819) /\
    a_norm2 Z2 ZRing ex4 = 819.
  Proof. repeat split; vm_compute; reflexivity. Qed.

  (* one merged run on the sparse U1 rank-3 array: the requested shape is the
     PRODUCT of the sizes (3, 4*3); the fused axis actually gets size 6 < 12, and
     asking for the actual size is rejected by the plan computation; the round
     trip returns ex3 itself *)
  Example merge_one_example :
    wf_array U1 ZRing ex3 = true /\ Forall (fun ix => isub U1 ix = None) (indices U1 ZRing ex3) /\
    (2 <= 2)%nat /\ (1 + 2 <= ndim U1 ZRing ex3)%nat /\
    Forall (fun ix => (2 <= size_total U1 ix)%nat) (firstn 2 (skipn 1 (indices U1 ZRing ex3))) /\
    a_shape U1 ZRing ex3 = [3; 4; 3] /\ merged_shape (a_shape U1 ZRing ex3) 1 2 = [3; 12] /\
    rt_check ex3 [3; 12] [3; 6] ([1%nat], [], []) 3 true = true /\
    option_map (a_subsizes U1 ZRing) (a_reshape U1 ZRing ex3 [3; 12]) = Some [None; Some [4; 3]] /\
    reshape_plan U1 ZRing ex3 [3; 6] = ReshapeArgs.ErrValue.
  Proof.
    split; [vm_compute; reflexivity|]. split; [repeat constructor|]. split; [lia|]. split; [cbn; lia|].
    split; [repeat constructor; cbn; lia|]. repeat split; vm_compute; reflexivity.
  Qed.

  (* explicit zero blocks do come back: (3,3,3,3) -> (9,3,3) -> (3,3,3,3) on ex4
     returns 5 blocks instead of 4, the extra one all-zero: not ex4 itself, but it restores ex4 *)
  Example merge_one_zero_block_example :
    merged_shape (a_shape Z2 ZRing ex4) 0 2 = [9; 3; 3] /\
    rt_check ex4 [9; 3; 3] [5; 3; 3] ([0%nat], [], []) 5 false = true /\
    match a_reshape Z2 ZRing ex4 [9; 3; 3] with
    | Some y => match a_reshape Z2 ZRing y [3; 3; 3; 3] with
                | Some x' => lookup (list_eqb Z.eqb) [1; 0; 0; 1] (blocks Z2 ZRing x')
                | None => None end
    | None => None end = Some (zt [2; 1; 1; 2]%nat [0; 0; 0; 0]).
  Proof. repeat split; vm_compute; reflexivity. Qed.

  (* the theorem applied *)
  Example merge_one_applies :
    exists y x', a_reshape Z2 ZRing ex4 (merged_shape (a_shape Z2 ZRing ex4) 0 2) = Some y /\
                 a_reshape Z2 ZRing y (a_shape Z2 ZRing ex4) = Some x' /\ restores Z2 ZRing x' ex4.
  Proof.
    destruct (reshape_roundtrip_merge_one Z2 ZRing Z2_laws Z2_order ex4 0 2) as (y & x' & H1 & H2 & _ & _ & _ & _ & H3).
    - vm_compute; reflexivity.
    - repeat constructor.
    - lia.
    - cbn; lia.
    - repeat constructor; cbn; lia.
    - exists y, x'. split; [exact H1|split; [exact H2|exact H3]].
  Qed.

  (* several runs: two ADJACENT runs are fused in one call and unfused first to last *)
  Example merge_runs_adjacent_example :
    merged_runs (a_shape Z2 ZRing ex4) [2; 2]%nat = [9; 9] /\
    reshape_plan Z2 ZRing ex4 [9; 9] = ReshapeArgs.Ok ([], [[[0%nat; 1%nat]; [2%nat; 3%nat]]], []) /\
    rt_check ex4 [9; 9] [5; 5] ([0%nat; 2%nat], [], []) 5 false = true.
  Proof. repeat split; vm_compute; reflexivity. Qed.

  (* two NON-adjacent runs: two fuse calls, two unfuse calls *)
  Definition j2 : index Z2 := Index Z2 [(0, 1%nat); (1, 1%nat)] false None.
  Definition ex5 : aarray Z2 ZRing := mkA Z2 ZRing [j2; j2; j2; j2; j2] 0
    [([0; 0; 0; 0; 0], zt [1; 1; 1; 1; 1]%nat [1]); ([1; 1; 0; 0; 0], zt [1; 1; 1; 1; 1]%nat [2]);
     ([0; 1; 1; 0; 0], zt [1; 1; 1; 1; 1]%nat [3]); ([1; 0; 0; 1; 0], zt [1; 1; 1; 1; 1]%nat [4]);
     ([0; 0; 0; 1; 1], zt [1; 1; 1; 1; 1]%nat [5])].

  Example merge_runs_two_calls_example :
    wf_array Z2 ZRing ex5 = true /\ Forall (fun ix => isub Z2 ix = None) (indices Z2 ZRing ex5) /\
    Forall (fun ix => (2 <= size_total Z2 ix)%nat) (indices Z2 ZRing ex5) /\
    merged_runs (a_shape Z2 ZRing ex5) [2; 1; 2]%nat = [4; 2; 4] /\
    reshape_plan Z2 ZRing ex5 [4; 2; 4] = ReshapeArgs.Ok ([], [[[0%nat; 1%nat]]; [[2%nat; 3%nat]]], []) /\
    rt_check ex5 [4; 2; 4] [4; 2; 3] ([0%nat; 3%nat], [], []) 10 false = true.
  Proof.
    split; [vm_compute; reflexivity|]. split; [repeat constructor|]. split; [repeat constructor|].
    repeat split; vm_compute; reflexivity.
  Qed.
End MergeExamples.
