(* Proofs/HeapProofs.v — C14: soundness of the ownership analysis of
   Model/Heap.v (frame property), preservation of Own, programs. *)
From SV Require Import Base.Prelude Model.Heap.
From Coq Require Import Arith PeanoNat Lia.
Open Scope nat_scope.

(* ------------------------------------------------------------ list facts *)
Lemma length_upd_nth {A} i (x : A) l : length (upd_nth i x l) = length l.
Proof. revert i; induction l as [|y l IH]; intros [|i]; cbn; auto. Qed.

Lemma nth_upd_nth_neq {A} i j (x d : A) l : j <> i -> nth j (upd_nth i x l) d = nth j l d.
Proof.
  revert i j; induction l as [|y l IH]; intros [|i] [|j] Hn; cbn; auto; try congruence.
Qed.

Lemma nth_upd_nth_eq {A} i (x d : A) l : i < length l -> nth i (upd_nth i x l) d = x.
Proof. revert i; induction l as [|y l IH]; intros [|i] Hl; cbn in *; try lia; auto. apply IH; lia. Qed.

Lemma nth_app_l {A} i (l1 l2 : list A) d : i < length l1 -> nth i (l1 ++ l2) d = nth i l1 d.
Proof. intros; apply app_nth1; auto. Qed.

Lemma nth_app_last {A} (l : list A) x d : nth (length l) (l ++ [x]) d = x.
Proof. rewrite app_nth2 by lia. rewrite Nat.sub_diag. reflexivity. Qed.

Lemma nth_setl {A} (dflt : A) i j x l :
  nth j (setl dflt i x l) dflt = if Nat.eqb j i then x else nth j l dflt.
Proof.
  revert j l; induction i as [|i IH]; intros j l.
  - destruct l as [|y l]; destruct j as [|j]; cbn; auto. destruct j; auto.
  - destruct l as [|y l]; destruct j as [|j]; cbn [setl nth Nat.eqb]; auto.
    rewrite IH. destruct (Nat.eqb j i); auto. destruct j; auto.
Qed.

Lemma upd_eq {A} (f : nat -> A) i x : upd f i x i = x.
Proof. unfold upd. rewrite Nat.eqb_refl. reflexivity. Qed.
Lemma upd_neq {A} (f : nat -> A) i j x : j <> i -> upd f i x j = f j.
Proof. unfold upd. intros H. apply Nat.eqb_neq in H. rewrite H. reflexivity. Qed.

(* values of a dict after the Python primitives *)
Section DictFacts.
  Context {K : Type} (keqb : K -> K -> bool).

  Lemma in_dset k v (d : dict K) x : In x (dset keqb k v d) -> In x d \/ snd x = v.
  Proof.
    induction d as [|[k' v'] d IH]; cbn.
    - intros [<-|[]]; auto.
    - destruct (keqb k k'); cbn; intros [<-|H]; auto. destruct (IH H); auto.
  Qed.

  Lemma in_dpop k (d : dict K) x : In x (dpop keqb k d) -> In x d.
  Proof.
    induction d as [|[k' v'] d IH]; cbn; auto.
    destruct (keqb k k'); cbn; auto. intros [<-|H]; auto.
  Qed.

  Lemma in_removelast {A} (l : list A) x : In x (removelast l) -> In x l.
  Proof.
    induction l as [|y l IH]; cbn; auto. destruct l; cbn in *; auto.
    intros [<-|H]; auto.
  Qed.

  Lemma in_dupdate (w d : dict K) x :
    In x (d_update keqb d w) -> In x d \/ exists y, In y w /\ snd x = snd y.
  Proof.
    unfold d_update. revert d; induction w as [|[k v] w IH]; intros d; cbn; auto.
    intros H. destruct (IH _ H) as [H1|[y [Hy1 Hy2]]].
    - unfold d_set in H1. destruct (in_dset _ _ _ _ H1); auto. right. exists (k, v); auto.
    - right; exists y; auto.
  Qed.

  Lemma lookup_in k (d : dict K) r : lookup keqb k d = Some r -> exists k', In (k', r) d.
  Proof.
    induction d as [|[k' v'] d IH]; cbn; [discriminate|].
    destruct (keqb k k'); [intros [= ->]; eexists; left; reflexivity|].
    intros H. destruct (IH H) as [k'' Hk]. eexists; right; exact Hk.
  Qed.

  Lemma last_item_in (d : dict K) x : last_item d = Some x -> In x d.
  Proof.
    unfold last_item. destruct (rev d) eqn:E; intros [= <-]. apply in_rev. rewrite E. left; auto.
  Qed.
End DictFacts.

(* --------------------------------------------------------- the invariant *)
Section Sound.
  Context {K : Type} (keqb : K -> K -> bool) (k0 : K).
  Notation st := (@st K). Notation cmd := (@cmd K). Notation heap := (heap K).

  (* sizes of the store when the call starts, the dicts (R) and objects (RO)
     an in-place call is entitled to write, and the initial store itself *)
  Context (nd0 nb0 no0 : nat) (R RO : list nat) (h0 : heap).

  Definition W (r : nat) : Prop := nd0 <= r \/ In r R.
  Definition WO (o : nat) : Prop := no0 <= o \/ In o RO.
  Definition referenced (h : heap) (r : nat) : Prop :=
    exists o f, o < length (ho h) /\ oget (obj_at h o) f = r.

  Record HInv (h : heap) : Prop := {
    sz_d : nd0 <= length (hd h);
    sz_b : nb0 <= length (hb h);
    sz_o : no0 <= length (ho h);
    own : Own h;
    inv_h : forall o f, WO o -> o < length (ho h) -> W (oget (obj_at h o) f);
    fr_d : forall d, d < nd0 -> ~ In d R -> dict_at h d = dict_at h0 d;
    fr_b : forall b, b < nb0 -> buf_at h b = buf_at h0 b;
    fr_o : forall o, o < no0 -> ~ In o RO -> obj_at h o = obj_at h0 o }.

  Definition DInv (a : aenv) (s : st) (v : nat) : Prop :=
    match gd a v with
    | DOther => True
    | DHeld => W (dv s v) /\ dv s v < length (hd (sh s))
    | DFree af =>
        nd0 <= dv s v /\ dv s v < length (hd (sh s)) /\
        ~ referenced (sh s) (dv s v) /\
        (forall w, w <> v -> gd a w <> DOther -> dv s w <> dv s v) /\
        (af = true -> forall k b, In (k, b) (dict_at (sh s) (dv s v)) -> nb0 <= b)
    end.

  Record Inv (a : aenv) (s : st) : Prop := {
    hinv : HInv (sh s);
    dinv : forall v, DInv a s v;
    oinv : forall v, go a v = OW -> WO (ov s v) /\ ov s v < length (ho (sh s));
    binv : forall v, gb a v = BFresh -> nb0 <= bv s v }.

  (* ------------------------------------------------ abstract environments *)
  Lemma gd_sd a v x w : gd (sd a v x) w = if Nat.eqb w v then x else gd a w.
  Proof. unfold gd, sd; cbn. apply nth_setl. Qed.
  Lemma go_sd a v x w : go (sd a v x) w = go a w.  Proof. reflexivity. Qed.
  Lemma gb_sd a v x w : gb (sd a v x) w = gb a w.  Proof. reflexivity. Qed.
  Lemma go_so a v x w : go (so a v x) w = if Nat.eqb w v then x else go a w.
  Proof. unfold go, so; cbn. apply nth_setl. Qed.
  Lemma gd_so a v x w : gd (so a v x) w = gd a w.  Proof. reflexivity. Qed.
  Lemma gb_so a v x w : gb (so a v x) w = gb a w.  Proof. reflexivity. Qed.
  Lemma gb_sb a v x w : gb (sb a v x) w = if Nat.eqb w v then x else gb a w.
  Proof. unfold gb, sb; cbn. apply nth_setl. Qed.
  Lemma gd_sb a v x w : gd (sb a v x) w = gd a w.  Proof. reflexivity. Qed.
  Lemma go_sb a v x w : go (sb a v x) w = go a w.  Proof. reflexivity. Qed.

  Definition Leq (a1 a2 : aenv) : Prop :=
    forall i, d_leb (gd a1 i) (gd a2 i) = true /\ o_leb (go a1 i) (go a2 i) = true /\ b_leb (gb a1 i) (gb a2 i) = true.

  Lemma forallb_seq_nth {A} (f : A -> A -> bool) (dflt : A) (l1 l2 : list A) :
    (forall y, f dflt y = true) ->
    forallb (fun i => f (nth i l1 dflt) (nth i l2 dflt)) (seq 0 (length l1)) = true ->
    forall i, f (nth i l1 dflt) (nth i l2 dflt) = true.
  Proof.
    intros Hd H i. destruct (Nat.lt_ge_cases i (length l1)) as [Hi|Hi].
    - rewrite forallb_forall in H. apply H. apply in_seq. lia.
    - rewrite (nth_overflow l1) by lia. apply Hd.
  Qed.

  Lemma a_leb_Leq a1 a2 : a_leb a1 a2 = true -> Leq a1 a2.
  Proof.
    unfold a_leb. rewrite !andb_true_iff. intros [[H1 H2] H3] i. repeat split.
    - apply (forallb_seq_nth d_leb DOther (ad a1) (ad a2)); auto.
    - apply (forallb_seq_nth o_leb OArg (ao a1) (ao a2)); auto.
    - apply (forallb_seq_nth b_leb BOther (ab a1) (ab a2)); auto.
  Qed.

  Lemma nth_map_seq {A} (f : nat -> A) n i dflt :
    nth i (map f (seq 0 n)) dflt = if Nat.ltb i n then f i else dflt.
  Proof.
    destruct (Nat.ltb_spec i n) as [Hi|Hi].
    - rewrite nth_indep with (d' := f 0) by (rewrite map_length, seq_length; lia).
      rewrite map_nth. rewrite seq_nth by lia. reflexivity.
    - apply nth_overflow. rewrite map_length, seq_length. lia.
  Qed.

  Lemma meet_Leq_l a1 a2 : Leq (a_meet a1 a2) a1.
  Proof.
    intros i. unfold a_meet, gd, go, gb; cbn. rewrite !nth_map_seq. repeat split.
    - destruct (Nat.ltb i (length (ad a1))); auto.
      fold (gd a1 i) (gd a2 i). destruct (gd a1 i) as [| |[]], (gd a2 i) as [| |[]]; reflexivity.
    - destruct (Nat.ltb i (length (ao a1))); auto.
      fold (go a1 i) (go a2 i). destruct (go a1 i), (go a2 i); reflexivity.
    - destruct (Nat.ltb i (length (ab a1))); auto.
      fold (gb a1 i) (gb a2 i). destruct (gb a1 i), (gb a2 i); reflexivity.
  Qed.

  Lemma meet_Leq_r a1 a2 : Leq (a_meet a1 a2) a2.
  Proof.
    intros i. unfold a_meet, gd, go, gb; cbn. rewrite !nth_map_seq. repeat split.
    - destruct (Nat.ltb i (length (ad a1))); auto.
      fold (gd a1 i) (gd a2 i). destruct (gd a1 i) as [| |[]], (gd a2 i) as [| |[]]; reflexivity.
    - destruct (Nat.ltb i (length (ao a1))); auto.
      fold (go a1 i) (go a2 i). destruct (go a1 i), (go a2 i); reflexivity.
    - destruct (Nat.ltb i (length (ab a1))); auto.
      fold (gb a1 i) (gb a2 i). destruct (gb a1 i), (gb a2 i); reflexivity.
  Qed.

  Lemma Leq_refl a : Leq a a.
  Proof.
    intros i. repeat split.
    - destruct (gd a i) as [| |[]]; reflexivity.
    - destruct (go a i); reflexivity.
    - destruct (gb a i); reflexivity.
  Qed.

  Lemma Leq_trans a1 a2 a3 : Leq a1 a2 -> Leq a2 a3 -> Leq a1 a3.
  Proof.
    intros L1 L2 i. destruct (L1 i) as (A1 & B1 & C1). destruct (L2 i) as (A2 & B2 & C2). repeat split.
    - destruct (gd a1 i) as [| |[]], (gd a2 i) as [| |[]], (gd a3 i) as [| |[]]; auto; discriminate.
    - destruct (go a1 i), (go a2 i), (go a3 i); auto; discriminate.
    - destruct (gb a1 i), (gb a2 i), (gb a3 i); auto; discriminate.
  Qed.

  Lemma loop_fix_spec (f : aenv -> option aenv) fuel : forall a r,
    loop_fix f fuel a = Some r -> Leq r a /\ exists a2, f r = Some a2 /\ Leq r a2.
  Proof.
    induction fuel as [|n IH]; intros a r; cbn [loop_fix]; destruct (f a) as [a2|] eqn:Ef; try discriminate;
      destruct (a_leb a a2) eqn:El; try discriminate.
    - intros [= <-]. split; [apply Leq_refl|]. exists a2. split; auto. apply a_leb_Leq; auto.
    - intros [= <-]. split; [apply Leq_refl|]. exists a2. split; auto. apply a_leb_Leq; auto.
    - intros H. destruct (IH _ _ H) as [L E]. split; auto.
      eapply Leq_trans; [exact L|apply meet_Leq_l].
  Qed.

  Lemma Inv_weaken a1 a2 s : Leq a1 a2 -> Inv a2 s -> Inv a1 s.
  Proof.
    intros L [Hh Hd Ho Hb]. split; auto.
    - intros v. specialize (Hd v). unfold DInv in *.
      destruct (L v) as [Lv _].
      destruct (gd a1 v) as [| |af1] eqn:E1; auto.
      + destruct (gd a2 v) as [| |af2]; try discriminate; auto.
        destruct Hd as (A & B & _). split; auto. left; auto.
      + destruct (gd a2 v) as [| |af2]; try (destruct af1; discriminate).
        destruct Hd as (A & B & C & D & E). repeat split; auto.
        * intros w Hw Hn. apply D; auto. intros Ew. destruct (L w) as [Lw _].
          rewrite Ew in Lw. destruct (gd a1 w) as [| |[]]; try discriminate; auto.
        * intros ->. destruct af2; [|cbn in Lv; discriminate]. apply E; reflexivity.
    - intros v Hv. apply Ho. destruct (L v) as (_ & Lo & _). rewrite Hv in Lo.
      destruct (go a2 v); auto; discriminate.
    - intros v Hv. apply Hb. destruct (L v) as (_ & _ & Lb). rewrite Hv in Lb.
      destruct (gb a2 v); auto; discriminate.
  Qed.

  (* ------------------------------------------------ updates of the locals *)
  Lemma Inv_with_k a s v k : Inv a s -> Inv a (with_k s v k).
  Proof. intros [H1 H2 H3 H4]; split; auto. Qed.

  Lemma Inv_with_b a s v r x :
    (x = BFresh -> nb0 <= r) -> Inv a s -> Inv (sb a v x) (with_b s v r).
  Proof.
    intros Hx [H1 H2 H3 H4]; split; auto.
    intros w. rewrite gb_sb. cbn [bv with_b]. unfold upd.
    destruct (Nat.eqb w v); auto.
  Qed.

  Lemma Inv_with_d a s v r x :
    (x = DOther \/ (x = DHeld /\ W r /\ r < length (hd (sh s)) /\ referenced (sh s) r)) ->
    Inv a s -> Inv (sd a v x) (with_d s v r).
  Proof.
    intros Hx [H1 H2 H3 H4]; split; auto.
    intros w. unfold DInv. rewrite gd_sd. cbn [dv sh with_d].
    destruct (Nat.eqb_spec w v) as [->|Hwv].
    - rewrite upd_eq. destruct Hx as [->|(-> & A & B & _)]; auto.
    - rewrite upd_neq by auto. specialize (H2 w). unfold DInv in H2.
      destruct (gd a w) as [| |af]; auto.
      destruct H2 as (A & B & C & D & E). repeat split; auto.
      intros w' Hw' Hs. rewrite gd_sd in Hs.
      destruct (Nat.eqb_spec w' v) as [->|Hw'v].
      + rewrite upd_eq. destruct Hx as [->|(-> & _ & _ & Rr)]; [congruence|].
        intros Er. apply C. rewrite <- Er. exact Rr.
      + rewrite upd_neq by auto. apply D; auto.
  Qed.

  (* --------------------------------------------------- allocation of a dict *)
  Lemma dict_at_push_old (h : heap) nd r : r < length (hd h) -> dict_at (push_dict h nd) r = dict_at h r.
  Proof. intros. unfold dict_at, push_dict; cbn. apply nth_app_l; auto. Qed.
  Lemma dict_at_push_new (h : heap) nd : dict_at (push_dict h nd) (length (hd h)) = nd.
  Proof. unfold dict_at, push_dict; cbn. apply nth_app_last. Qed.

  Lemma HInv_push_dict h nd : HInv h -> HInv (push_dict h nd).
  Proof.
    intros [A B C [D1 D2] E F G H]. split; auto.
    - cbn. rewrite app_length. cbn. lia.
    - split; auto. intros o f Ho.
      assert (Hl : length (hd (push_dict h nd)) = S (length (hd h))) by (cbn; rewrite app_length; cbn; lia).
      rewrite Hl. change (obj_at (push_dict h nd) o) with (obj_at h o). specialize (D2 o f Ho). lia.
    - intros d Hd Hn. rewrite dict_at_push_old by lia. auto.
  Qed.

  Lemma Inv_alloc_dict a s v nd af :
    Inv a s -> (af = true -> forall k b, In (k, b) nd -> nb0 <= b) ->
    Inv (sd a v (DFree af)) (with_d (with_h s (push_dict (sh s) nd)) v (length (hd (sh s)))).
  Proof.
    intros [H1 H2 H3 H4] Hnd. pose proof H1 as [A B C [D1 D2] E F G H]. split; auto.
    - apply HInv_push_dict; auto.
    - intros w. unfold DInv. rewrite gd_sd. cbn [dv sh with_d with_h].
      assert (Hlen : length (hd (push_dict (sh s) nd)) = S (length (hd (sh s)))).
      { cbn. rewrite app_length. cbn. lia. }
      destruct (Nat.eqb_spec w v) as [->|Hwv].
      + rewrite upd_eq. rewrite Hlen. repeat split; try lia.
        * intros (o & f & Ho & Er). specialize (D2 o f Ho).
          change (obj_at (push_dict (sh s) nd) o) with (obj_at (sh s) o) in Er. lia.
        * intros w' Hw' Hs. rewrite gd_sd in Hs. apply Nat.eqb_neq in Hw' as Hb. rewrite Hb in Hs.
          rewrite upd_neq by auto. specialize (H2 w'). unfold DInv in H2.
          destruct (gd a w') as [| |af']; [congruence| |]; lia.
        * intros Haf k b. rewrite dict_at_push_new. apply Hnd; auto.
      + rewrite upd_neq by auto. specialize (H2 w). unfold DInv in H2.
        destruct (gd a w) as [| |af']; auto.
        * rewrite Hlen. destruct H2; split; auto.
        * destruct H2 as (A' & B' & C' & D' & E'). rewrite Hlen. repeat split; auto.
          -- intros w' Hw' Hs. rewrite gd_sd in Hs.
             destruct (Nat.eqb_spec w' v) as [->|Hw'v].
             ++ rewrite upd_eq. lia.
             ++ rewrite upd_neq by auto. apply D'; auto.
          -- intros Haf k b. rewrite dict_at_push_old by lia. apply E'; auto.
  Qed.

  (* ---------------------------------------------- store into an owned dict *)
  Lemma dict_at_set_neq (h : heap) r x r' : r' <> r -> dict_at (set_dict h r x) r' = dict_at h r'.
  Proof. intros. unfold dict_at, set_dict; cbn. apply nth_upd_nth_neq; auto. Qed.
  Lemma dict_at_set_eq (h : heap) r x : r < length (hd h) -> dict_at (set_dict h r x) r = x.
  Proof. intros. unfold dict_at, set_dict; cbn. apply nth_upd_nth_eq; auto. Qed.

  Lemma HInv_set_dict h r x : HInv h -> W r -> HInv (set_dict h r x).
  Proof.
    intros [A B C [D1 D2] E F G H] Wr. split; auto.
    - cbn. rewrite length_upd_nth. auto.
    - split; auto. intros o f Ho. cbn. rewrite length_upd_nth. apply D2; auto.
    - intros d Hd Hn. rewrite dict_at_set_neq; auto.
      intros ->. destruct Wr; [lia|contradiction].
  Qed.

  Lemma Inv_write a s d nd c :
    Inv a s -> d_writable (gd a d) = true ->
    (c = true -> gd a d = DFree true -> forall k b, In (k, b) nd -> nb0 <= b) ->
    Inv (sd a d (d_and (gd a d) c)) (with_h s (set_dict (sh s) (dv s d) nd)).
  Proof.
    intros [H1 H2 H3 H4] Hw Hnd. split; auto.
    - cbn [sh with_h]. apply HInv_set_dict; auto.
      specialize (H2 d). unfold DInv in H2. destruct (gd a d) as [| |af]; [discriminate| |].
      + apply H2.
      + left. apply H2.
    - intros w. unfold DInv. rewrite gd_sd. cbn [dv sh with_h].
      assert (Hlen : length (hd (set_dict (sh s) (dv s d) nd)) = length (hd (sh s))).
      { cbn. apply length_upd_nth. }
      rewrite Hlen.
      destruct (Nat.eqb_spec w d) as [->|Hwd].
      + specialize (H2 d). unfold DInv in H2. destruct (gd a d) as [| |af] eqn:Ed; cbn [d_and]; auto.
        destruct H2 as (A & B & C & D & E). repeat split; auto.
        * intros w' Hw' Hs. rewrite gd_sd in Hs. apply Nat.eqb_neq in Hw' as Hb. rewrite Hb in Hs. apply D; auto.
        * intros Haf k b. apply andb_true_iff in Haf as [-> ->].
          rewrite dict_at_set_eq by auto. apply Hnd; auto.
      + pose proof (H2 w) as Hw2. unfold DInv in Hw2. destruct (gd a w) as [| |af] eqn:Ew; auto.
        destruct Hw2 as (A & B & C & D & E). repeat split; auto.
        * intros w' Hw' Hs. rewrite gd_sd in Hs.
          destruct (Nat.eqb_spec w' d) as [->|Hw'd].
          -- apply D; auto. intros Eo. rewrite Eo in Hw. discriminate.
          -- apply D; auto.
        * intros Haf k b. rewrite dict_at_set_neq. { apply E; auto. }
          intros Er. apply (D d); auto. intros Eo. rewrite Eo in Hw. discriminate.
  Qed.

  (* ------------------------------------------------------- buffers *)
  Lemma HInv_new_buf (h : heap) : HInv h -> HInv (mkH (hd h) (hb h ++ [0]) (ho h)).
  Proof.
    intros [A B C D E F G H]. split; auto.
    - cbn. rewrite app_length. cbn. lia.
    - intros b Hb. unfold buf_at; cbn. rewrite nth_app_l by lia. apply G; auto.
  Qed.

  Lemma HInv_write_buf (h : heap) b x : HInv h -> nb0 <= b -> HInv (mkH (hd h) (upd_nth b x (hb h)) (ho h)).
  Proof.
    intros [A B C D E F G H] Hb. split; auto.
    - cbn. rewrite length_upd_nth. auto.
    - intros b' Hb'. unfold buf_at; cbn. rewrite nth_upd_nth_neq by lia. apply G; auto.
  Qed.

  (* heap changes that keep dicts and objects: the locals' facts survive *)
  Lemma Inv_bufs a s hb' :
    HInv (mkH (hd (sh s)) hb' (ho (sh s))) -> Inv a s -> Inv a (with_h s (mkH (hd (sh s)) hb' (ho (sh s)))).
  Proof. intros Hh [H1 H2 H3 H4]. split; auto. Qed.

  (* ------------------------------------------------------- objects *)
  Lemma obj_at_upd_eq (h : heap) i x : i < length (ho h) ->
    obj_at (mkH (hd h) (hb h) (upd_nth i x (ho h))) i = x.
  Proof. intros. unfold obj_at; cbn. apply nth_upd_nth_eq; auto. Qed.
  Lemma obj_at_upd_neq (h : heap) i x o : o <> i ->
    obj_at (mkH (hd h) (hb h) (upd_nth i x (ho h))) o = obj_at h o.
  Proof. intros. unfold obj_at; cbn. apply nth_upd_nth_neq; auto. Qed.

  Lemma oget_oset ob f r f' : oget (oset ob f r) f' = if Bool.eqb f' f then r else oget ob f'.
  Proof. destruct ob, f, f'; reflexivity. Qed.

  Lemma Inv_rebind a s o f d :
    Inv a s -> go a o = OW -> d_isfree (gd a d) = true ->
    Inv (sd a d DHeld)
        (with_h s (mkH (hd (sh s)) (hb (sh s))
                       (upd_nth (ov s o) (oset (obj_at (sh s) (ov s o)) f (dv s d)) (ho (sh s))))).
  Proof.
    intros [H1 H2 H3 H4] Ho Hd.
    destruct (H3 o Ho) as [WOo Vo].
    pose proof (H2 d) as Hdd. unfold DInv in Hdd.
    destruct (gd a d) as [| |af] eqn:Ed; try discriminate.
    destruct Hdd as (A & B & C & D & E).
    set (h := sh s) in *. set (i := ov s o) in *. set (r := dv s d) in *.
    set (h' := mkH (hd h) (hb h) (upd_nth i (oset (obj_at h i) f r) (ho h))).
    assert (Hlen : length (ho h') = length (ho h)) by (cbn; apply length_upd_nth).
    assert (Hget : forall o' f', o' < length (ho h) ->
              oget (obj_at h' o') f' = if (Nat.eqb o' i && Bool.eqb f' f)%bool then r else oget (obj_at h o') f').
    { intros o' f' Ho'. destruct (Nat.eqb_spec o' i) as [->|Hn]; cbn [andb].
      - unfold h'. rewrite obj_at_upd_eq by auto. apply oget_oset.
      - unfold h'. rewrite obj_at_upd_neq by auto. reflexivity. }
    destruct H1 as [S1 S2 S3 [O1 O2] IH FD FB FO].
    assert (HH : HInv h').
    { split; auto.
      - rewrite Hlen; auto.
      - split.
        + intros o1 f1 o2 f2 L1 L2. rewrite Hlen in L1, L2. rewrite !Hget by auto.
          destruct (Nat.eqb_spec o1 i) as [->|N1]; destruct (Nat.eqb_spec o2 i) as [->|N2]; cbn [andb];
            destruct (Bool.eqb_spec f1 f) as [->|F1]; destruct (Bool.eqb_spec f2 f) as [->|F2]; auto;
            intros Eq; try (exfalso; apply C; eexists _, _; split; [|symmetry; exact Eq]; assumption);
            try (exfalso; apply C; eexists _, _; split; [|exact Eq]; assumption);
            try (apply O1; auto).
        + intros o' f' L. rewrite Hlen in L. rewrite Hget by auto.
          destruct (Nat.eqb o' i && Bool.eqb f' f)%bool; auto; try (apply O2; auto).
      - intros o' f' Wo' L. rewrite Hlen in L. rewrite Hget by auto.
        destruct (Nat.eqb o' i && Bool.eqb f' f)%bool; auto; try (left; auto; fail).
      - intros o' L N. unfold h'. rewrite obj_at_upd_neq; auto.
        intros ->. destruct WOo; [lia|contradiction]. }
    split; auto.
    - intros w. unfold DInv. rewrite gd_sd. cbn [dv sh with_h].
      destruct (Nat.eqb_spec w d) as [->|Hwd].
      + split; [left; auto|auto].
      + pose proof (H2 w) as Hw2. unfold DInv in Hw2. destruct (gd a w) as [| |af'] eqn:Ew; auto.
        destruct Hw2 as (A' & B' & C' & D' & E'). repeat split; auto.
        * intros (o' & f' & L & Eq). rewrite Hlen in L. rewrite Hget in Eq by auto.
          destruct (Nat.eqb o' i && Bool.eqb f' f)%bool.
          -- apply (D' d); auto. rewrite Ed. discriminate.
          -- apply C'. exists o', f'. auto.
        * intros w' Hw' Hs. rewrite gd_sd in Hs. destruct (Nat.eqb_spec w' d) as [->|N].
          -- apply D'; auto. rewrite Ed. discriminate.
          -- apply D'; auto.
    - intros v Hv. cbn [ov sh with_h]. rewrite Hlen. apply H3; auto.
  Qed.

  Lemma Inv_new_obj a s o d p :
    Inv a s -> d <> p -> d_isfree (gd a d) = true -> d_isfree (gd a p) = true ->
    Inv (so (sd (sd a d DHeld) p DHeld) o OW)
        (with_o (with_h s (mkH (hd (sh s)) (hb (sh s)) (ho (sh s) ++ [mkO (dv s d) (dv s p)]))) o (length (ho (sh s)))).
  Proof.
    intros [H1 H2 H3 H4] Hdp Fd Fp.
    pose proof (H2 d) as Hdd. pose proof (H2 p) as Hpp. unfold DInv in Hdd, Hpp.
    destruct (gd a d) as [| |afd] eqn:Ed; try discriminate.
    destruct (gd a p) as [| |afp] eqn:Ep; try discriminate.
    destruct Hdd as (Ad & Bd & Cd & Dd & _). destruct Hpp as (Ap & Bp & Cp & Dp & _).
    set (h := sh s) in *. set (rd := dv s d) in *. set (rp := dv s p) in *.
    set (h' := mkH (hd h) (hb h) (ho h ++ [mkO rd rp])).
    assert (Hlen : length (ho h') = S (length (ho h))) by (cbn; rewrite app_length; cbn; lia).
    assert (Hold : forall o', o' < length (ho h) -> obj_at h' o' = obj_at h o').
    { intros o' L. unfold obj_at, h'; cbn. apply nth_app_l; auto. }
    assert (Hnew : obj_at h' (length (ho h)) = mkO rd rp).
    { unfold obj_at, h'; cbn. apply nth_app_last. }
    assert (Hrdp : rd <> rp). { intros Er. apply (Dp d); auto. rewrite Ed; discriminate. }
    destruct H1 as [S1 S2 S3 [O1 O2] IH FD FB FO].
    assert (Hcase : forall o', o' < length (ho h') -> o' < length (ho h) \/ o' = length (ho h)) by (intros; lia).
    assert (HH : HInv h').
    { split; auto.
      - rewrite Hlen; lia.
      - split.
        + intros o1 f1 o2 f2 L1 L2.
          destruct (Hcase _ L1) as [L1'| ->]; destruct (Hcase _ L2) as [L2'| ->].
          * rewrite (Hold o1), (Hold o2) by auto. apply O1; auto.
          * rewrite (Hold o1) by auto. rewrite Hnew.
            intros Eq. exfalso. destruct f2; cbn [oget oblocks ophases] in Eq; [apply Cp|apply Cd]; exists o1, f1; auto.
          * rewrite (Hold o2) by auto. rewrite Hnew.
            intros Eq. exfalso. destruct f1; cbn [oget oblocks ophases] in Eq; [apply Cp|apply Cd]; exists o2, f2; (split; [auto|symmetry; exact Eq]).
          * rewrite Hnew. destruct f1, f2; cbn [oget oblocks ophases]; intros Eq; try (split; reflexivity); exfalso; congruence.
        + intros o' f' L. destruct (Hcase _ L) as [L'| ->]; rewrite ?Hold by auto; rewrite ?Hnew.
          * apply O2; auto.
          * destruct f'; cbn; auto.
      - intros o' f' Wo' L. destruct (Hcase _ L) as [L'| ->]; rewrite ?Hold by auto; rewrite ?Hnew.
        + apply IH; auto.
        + destruct f'; cbn; left; auto.
      - intros o' L N. rewrite Hold by lia. apply FO; auto. }
    assert (Href : forall r, referenced h' r -> referenced h r \/ r = rd \/ r = rp).
    { intros r (o' & f' & L & Eq). destruct (Hcase _ L) as [L'| ->].
      - rewrite Hold in Eq by auto. left. exists o', f'; auto.
      - rewrite Hnew in Eq. destruct f'; cbn in Eq; auto. }
    split; auto.
    - intros w. unfold DInv. rewrite gd_so, !gd_sd. cbn [dv sh with_o with_h].
      destruct (Nat.eqb_spec w p) as [->|Hwp].
      { split; [left; auto|auto]. }
      destruct (Nat.eqb_spec w d) as [->|Hwd].
      { split; [left; auto|auto]. }
      pose proof (H2 w) as Hw2. unfold DInv in Hw2. destruct (gd a w) as [| |af'] eqn:Ew; auto.
      destruct Hw2 as (A' & B' & C' & D' & E'). repeat split; auto.
      + intros Hr. destruct (Href _ Hr) as [Hr'|[Hr'|Hr']]; auto.
        * apply (D' d); auto. rewrite Ed; discriminate.
        * apply (D' p); auto. rewrite Ep; discriminate.
      + intros w' Hw' Hs. rewrite gd_so, !gd_sd in Hs.
        destruct (Nat.eqb_spec w' p) as [->|N1]; [apply D'; auto; rewrite Ep; discriminate|].
        destruct (Nat.eqb_spec w' d) as [->|N2]; [apply D'; auto; rewrite Ed; discriminate|].
        apply D'; auto.
    - intros v. rewrite go_so. cbn [ov sh with_o with_h]. rewrite Hlen.
      destruct (Nat.eqb_spec v o) as [->|N].
      + intros _. rewrite upd_eq. split; [left; lia|lia].
      + intros Hv. rewrite upd_neq by auto. destruct (H3 v Hv). split; auto.
  Qed.

  (* ------------------------------------------------------- main theorem *)
  Lemma guard_some c a a' : guard c a = Some a' -> c = true /\ a' = a.
  Proof. unfold guard. destruct c; intros [=]; auto. Qed.

  Lemma writable_cases x : d_writable x = true -> x = DHeld \/ exists af, x = DFree af.
  Proof. destruct x; try discriminate; eauto. Qed.

  Lemma allfresh_vals a s d :
    Inv a s -> d_allfresh (gd a d) = true -> forall k b, In (k, b) (dict_at (sh s) (dv s d)) -> nb0 <= b.
  Proof.
    intros [_ H2 _ _] Hf. specialize (H2 d). unfold DInv in H2.
    destruct (gd a d) as [| |[]]; try discriminate. apply H2; auto.
  Qed.

  Theorem safe_sound (c : cmd) : forall a a' s, safe c a = Some a' -> Inv a s -> Inv a' (exec keqb c s).
  Proof.
    induction c as [ | c1 IH1 c2 IH2 | v | v w | v o f | d k b | d k t | d k | b d k | d kx bx | d w
                    | o f d | o d p | o o' | b | b | b b' | d kx bx body IH | g k ky body IH
                    | d k c1 IH1 c2 IH2 | p k c1 IH1 c2 IH2 ]; intros a a' s Hs HI; cbn [safe] in Hs; cbn [exec].
    - (* Skip *) injection Hs as <-. auto.
    - (* Seq *) destruct (safe c1 a) as [a1|] eqn:E1; [|discriminate]. eauto.
    - (* NewDict *) injection Hs as <-. apply (Inv_alloc_dict a s v [] true); auto. intros _ k b [].
    - (* CopyDict *) injection Hs as <-. apply (Inv_alloc_dict a s v (dict_at (sh s) (dv s w)) (d_allfresh (gd a w))); auto.
      intros Hf. apply (allfresh_vals a s w); auto.
    - (* GetField *) injection Hs as <-. apply Inv_with_d; auto.
      destruct (go a o) eqn:Eo; cbn [o_isw]; auto. right.
      destruct HI as [H1 H2 H3 H4]. destruct (H3 o Eo) as [Wo Vo]. repeat split; auto.
      + apply (inv_h _ H1); auto.
      + destruct (own _ H1) as [_ O2]. apply O2; auto.
      + exists (ov s o), f; auto.
    - (* SetItem *) apply guard_some in Hs as [Hw ->]. apply Inv_write; auto.
      intros Hc Ef k' b' Hin. apply in_dset in Hin as [Hin|Hin].
      + eapply allfresh_vals; eauto. rewrite Ef; reflexivity.
      + cbn in Hin. subst b'. apply (binv _ _ HI). destruct (gb a b); auto; discriminate.
    - (* SetTok *) apply guard_some in Hs as [Hw ->]. apply Inv_write; auto. discriminate.
    - (* DelItem *) apply guard_some in Hs as [Hw ->]. apply Inv_write; auto.
      intros _ Ef k' b' Hin. apply in_dpop in Hin. eapply allfresh_vals; eauto. rewrite Ef; reflexivity.
    - (* GetItem *) injection Hs as <-.
      destruct (d_get keqb (keval s k) (dict_at (sh s) (dv s d))) as [r|] eqn:Eg.
      + apply Inv_with_b; auto. destruct (d_allfresh (gd a d)) eqn:Ef; [|discriminate]. intros _.
        destruct (lookup_in _ _ _ _ Eg) as [k' Hin]. eapply (allfresh_vals a s d); eauto.
      + apply Inv_with_b; auto. intros _. apply (sz_b _ (hinv _ _ HI)).
    - (* PopItem *) apply guard_some in Hs as [Hw ->].
      destruct (last_item (dict_at (sh s) (dv s d))) as [[k r]|] eqn:El.
      + apply Inv_with_b.
        * destruct (d_allfresh (gd a d)) eqn:Ef; [|discriminate]. intros _.
          apply last_item_in in El. eapply (allfresh_vals a s d); eauto.
        * apply Inv_with_k. apply Inv_write; auto.
          intros _ Ef k' b' Hin. apply in_removelast in Hin. eapply (allfresh_vals a s d); eauto. rewrite Ef; reflexivity.
      + apply Inv_with_b. { intros _. apply (sz_b _ (hinv _ _ HI)). }
        eapply Inv_weaken; [|exact HI].
        intros i. rewrite go_sd, gb_sd, gd_sd. repeat split.
        * destruct (Nat.eqb_spec i d) as [->|]; [destruct (gd a d) as [| |[]]; reflexivity|destruct (gd a i) as [| |[]]; reflexivity].
        * destruct (go a i); reflexivity.
        * destruct (gb a i); reflexivity.
    - (* Update *) apply guard_some in Hs as [Hw ->]. apply Inv_write; auto.
      intros Hc Ef k' b' Hin. apply in_dupdate in Hin as [Hin|[[k2 b2] [Hy1 Hy2]]].
      + eapply (allfresh_vals a s d); eauto. rewrite Ef; reflexivity.
      + cbn in Hy2. subst b'. eapply (allfresh_vals a s w); eauto.
    - (* Rebind *) apply guard_some in Hs as [Hw ->]. apply andb_true_iff in Hw as [Ho Hd].
      apply Inv_rebind; auto. destruct (go a o); auto; discriminate.
    - (* NewObj *) apply guard_some in Hs as [Hw ->]. apply andb_true_iff in Hw as [Hw Hp].
      apply andb_true_iff in Hw as [Hn Hd]. apply negb_true_iff in Hn. apply Nat.eqb_neq in Hn.
      apply Inv_new_obj; auto.
    - (* OAssign *) injection Hs as <-. destruct HI as [H1 H2 H3 H4]. split; auto.
      intros v. rewrite go_so. cbn [ov sh with_o]. unfold upd.
      destruct (Nat.eqb v o); auto.
    - (* NewBuf *) injection Hs as <-. apply Inv_with_b.
      + intros _. apply (sz_b _ (hinv _ _ HI)).
      + apply Inv_bufs; auto. apply HInv_new_buf. apply HI.
    - (* WriteBuf *) apply guard_some in Hs as [Hw ->].
      apply Inv_bufs; auto. apply HInv_write_buf. { apply HI. }
      apply (binv _ _ HI). destruct (gb a b); auto; discriminate.
    - (* Alias *) injection Hs as <-. apply Inv_with_b; auto.
      intros Hb. apply (binv _ _ HI); auto.
    - (* ForEach *)
      apply loop_fix_spec in Hs as (L0 & a2 & E2 & L2).
      assert (HI1 : Inv a' s).
      { eapply Inv_weaken; [exact L0|]. eapply Inv_weaken; [|exact HI]. intros i. rewrite gd_sb, go_sb, gb_sb. repeat split.
        - destruct (gd a i) as [| |[]]; reflexivity.
        - destruct (go a i); reflexivity.
        - destruct (Nat.eqb i bx); [reflexivity|destruct (gb a i); reflexivity]. }
      clear HI. generalize (dict_at (sh s) (dv s d)) as items. intros items.
      revert s HI1. induction items as [|it items IHi]; intros s HI1; cbn [fold_left]; auto.
      apply IHi. eapply Inv_weaken; [exact L2|]. eapply IH; [exact E2|].
      apply Inv_with_b; [discriminate|]. apply Inv_with_k; auto.
    - (* ForKeys *)
      apply loop_fix_spec in Hs as (L0 & a2 & E2 & L2).
      assert (HI1 : Inv a' s) by (eapply Inv_weaken; [exact L0|exact HI]).
      clear HI. generalize (g (keval s k)) as items. intros items.
      revert s HI1. induction items as [|it items IHi]; intros s HI1; cbn [fold_left]; auto.
      apply IHi. eapply Inv_weaken; [exact L2|]. eapply IH; [exact E2|]. apply Inv_with_k; auto.
    - (* IfHas *)
      destruct (safe c1 a) as [a1|] eqn:E1; [|discriminate].
      destruct (safe c2 a) as [a2|] eqn:E2; [|discriminate]. injection Hs as <-.
      destruct (d_get keqb (keval s k) (dict_at (sh s) (dv s d))).
      + eapply Inv_weaken; [apply meet_Leq_l|]. eauto.
      + eapply Inv_weaken; [apply meet_Leq_r|]. eauto.
    - (* IfKey *)
      destruct (safe c1 a) as [a1|] eqn:E1; [|discriminate].
      destruct (safe c2 a) as [a2|] eqn:E2; [|discriminate]. injection Hs as <-.
      destruct (p (keval s k)).
      + eapply Inv_weaken; [apply meet_Leq_l|]. eauto.
      + eapply Inv_weaken; [apply meet_Leq_r|]. eauto.
  Qed.
End Sound.

(* ------------------------------------------------------------- one call *)
Section Call.
  Context {K : Type} (keqb : K -> K -> bool) (k0 : K).
  Notation st := (@st K). Notation cmd := (@cmd K). Notation heap := (heap K).

  Definition recv_refs (h : heap) (RO : list nat) : list nat :=
    flat_map (fun o => ofields (obj_at h o)) RO.

  Lemma in_recv_refs h RO r : In r (recv_refs h RO) <-> exists o f, In o RO /\ oget (obj_at h o) f = r.
  Proof.
    unfold recv_refs. rewrite in_flat_map. split.
    - intros (o & Ho & Hr). unfold ofields in Hr. destruct Hr as [<-|[<-|[]]].
      + exists o, false; auto.
      + exists o, true; auto.
    - intros (o & f & Ho & <-). exists o. split; auto. destruct f; cbn; auto.
  Qed.

  Lemma gd_init n recv v : gd (init_aenv n recv) v = DOther.
  Proof. unfold gd, init_aenv; cbn. destruct v; reflexivity. Qed.
  Lemma gb_init n recv v : gb (init_aenv n recv) v = BOther.
  Proof. unfold gb, init_aenv; cbn. destruct v; reflexivity. Qed.
  Lemma go_init n recv v : go (init_aenv n recv) v = OW -> v < n /\ In v recv.
  Proof.
    unfold go, init_aenv; cbn. rewrite nth_map_seq. intros H.
    destruct (Nat.ltb_spec v n) as [L|L]; [|discriminate].
    split; auto.
    destruct (mem Nat.eqb v recv) eqn:E; [|discriminate].
    clear -E. induction recv as [|x l IH]; cbn in E; [discriminate|].
    apply orb_true_iff in E as [E|E]; [left; apply Nat.eqb_eq in E; auto|right; auto].
  Qed.

  Lemma Inv_init (h : heap) (s : st) n recv :
    sh s = h -> Own h ->
    (forall v, In v recv -> ov s v < length (ho h)) ->
    Inv (length (hd h)) (length (hb h)) (length (ho h))
        (recv_refs h (map (ov s) recv)) (map (ov s) recv) h (init_aenv n recv) s.
  Proof.
    intros Es Hown Hv. split.
    - rewrite Es. split; auto.
      intros o f [Wo|Wo] L; [lia|]. right. apply in_recv_refs. exists o, f; auto.
    - intros v. unfold DInv. rewrite gd_init. exact I.
    - intros v Hgo. apply go_init in Hgo as [_ Hin]. rewrite Es. split.
      + right. apply in_map; auto.
      + apply Hv; auto.
    - intros v Hb. rewrite gb_init in Hb. discriminate.
  Qed.

  (* everything a call (in place on the receivers RO, or out of place when
     RO = []) leaves alone *)
  Record frame (RO : list nat) (h h' : heap) : Prop := {
    f_own : Own h';
    f_szd : length (hd h) <= length (hd h');
    f_szb : length (hb h) <= length (hb h');
    f_szo : length (ho h) <= length (ho h');
    f_buf : forall b, b < length (hb h) -> buf_at h' b = buf_at h b;
    f_obj : forall o, o < length (ho h) -> ~ In o RO ->
              obj_at h' o = obj_at h o /\ shape h' o = shape h o;
    f_dict : forall d, d < length (hd h) -> ~ In d (recv_refs h RO) -> dict_at h' d = dict_at h d }.

  Theorem call_frame (c : cmd) (s : st) n recv a' :
    safe c (init_aenv n recv) = Some a' ->
    Own (sh s) ->
    (forall v, In v recv -> ov s v < length (ho (sh s))) ->
    frame (map (ov s) recv) (sh s) (sh (exec keqb c s)) /\
    (forall v, go a' v = OW -> ov (exec keqb c s) v < length (ho (sh (exec keqb c s)))).
  Proof.
    intros Hs Hown Hv.
    pose proof (Inv_init (sh s) s n recv eq_refl Hown Hv) as HI.
    pose proof (safe_sound keqb _ _ _ _ _ _ c _ _ _ Hs HI) as [[S1 S2 S3 O E FD FB FO] _ OI _].
    split; [|intros v Hg; apply (OI v Hg)].
    split; auto.
    intros o L N. rewrite (FO o L N). split; auto.
    unfold shape. rewrite (FO o L N). destruct Hown as [O1 O2].
    assert (Hf : forall f, dict_at (sh (exec keqb c s)) (oget (obj_at (sh s) o) f) = dict_at (sh s) (oget (obj_at (sh s) o) f)).
    { intros f. apply FD; [apply O2; auto|].
      rewrite in_recv_refs. intros (o' & f' & Ho' & Eq).
      assert (L' : o' < length (ho (sh s))).
      { apply in_map_iff in Ho' as (v & <- & Hin). apply Hv; auto. }
      destruct (O1 _ _ _ _ L' L Eq) as [-> _]. contradiction. }
    pose proof (Hf false) as Hb. pose proof (Hf true) as Hp. cbn [oget] in Hb, Hp.
    rewrite Hb, Hp. reflexivity.
  Qed.

  (* observable state: contents of the blocks in order, sign table in order *)
  Lemma obs_same (h h' : heap) o :
    obj_at h' o = obj_at h o -> shape h' o = shape h o ->
    (forall b, b < length (hb h) -> buf_at h' b = buf_at h b) ->
    bufs_valid h o -> obs h' o = obs h o.
  Proof.
    intros Eo Es Eb Hv. unfold obs. unfold shape in Es. injection Es as E1 E2.
    rewrite E1, E2. f_equal. apply map_ext_in. intros [k b] Hin. cbn. f_equal.
    apply Eb. apply (Hv k b). unfold shape; cbn. exact Hin.
  Qed.

  (* op_frame: an out-of-place call changes no dict, buffer or object that
     existed before it, and keeps the ownership invariant *)
  Theorem op_frame (c : cmd) (s : st) n a' :
    safe c (init_aenv n []) = Some a' -> Own (sh s) ->
    let h := sh s in let h' := sh (exec keqb c s) in
    Own h' /\
    (forall d, d < length (hd h) -> dict_at h' d = dict_at h d) /\
    (forall b, b < length (hb h) -> buf_at h' b = buf_at h b) /\
    (forall o, o < length (ho h) -> obj_at h' o = obj_at h o /\ shape h' o = shape h o /\
                                    (bufs_valid h o -> obs h' o = obs h o)).
  Proof.
    intros Hs Hown h h'.
    destruct (call_frame c s n [] a' Hs Hown) as [[F1 F2 F3 F4 F5 F6 F7] _]. { intros v []. }
    split; [exact F1|]. split; [|split; [exact F5|]].
    - intros d L. apply F7; auto.
    - intros o L. destruct (F6 o L) as [A B]; auto.
      split; [exact A|]. split; [exact B|]. intros Hv. apply obs_same; auto.
  Qed.

  (* in-place call: everything except what the receivers own is left alone *)
  Theorem inplace_frame (c : cmd) (s : st) n recv a' :
    safe c (init_aenv n recv) = Some a' -> Own (sh s) ->
    (forall v, In v recv -> ov s v < length (ho (sh s))) ->
    let h := sh s in let h' := sh (exec keqb c s) in
    Own h' /\
    (forall b, b < length (hb h) -> buf_at h' b = buf_at h b) /\
    (forall o, o < length (ho h) -> ~ In o (map (ov s) recv) ->
        obj_at h' o = obj_at h o /\ shape h' o = shape h o /\ (bufs_valid h o -> obs h' o = obs h o)).
  Proof.
    intros Hs Hown Hv h h'.
    destruct (call_frame c s n recv a' Hs Hown Hv) as [[F1 F2 F3 F4 F5 F6 F7] _].
    split; [exact F1|]. split; [exact F5|].
    intros o L N. destruct (F6 o L N) as [A B].
    split; [exact A|]. split; [exact B|]. intros Hb. apply obs_same; auto.
  Qed.
End Call.

(* ------------------------------------------------------------- programs *)
Section Programs.
  Context {K : Type} (keqb : K -> K -> bool) (k0 : K).
  Notation heap := (heap K). Notation instr := (@instr K). Notation pstate := (@pstate K).

  Definition regs_ok (p : pstate) : Prop := Forall (fun r => r < length (ho (ph p))) (regs p).

  Lemma Forall_upd_nth {A} (P : A -> Prop) i x l : Forall P l -> P x -> Forall P (upd_nth i x l).
  Proof.
    intros Hl Hx. revert i; induction Hl as [|y l Hy Hl IH]; intros [|i]; cbn; constructor; auto.
  Qed.

  Record step_spec (RO : list nat) (p p' : pstate) : Prop := {
    ss_own : Own (ph p');
    ss_regs : regs_ok p';
    ss_szb : length (hb (ph p)) <= length (hb (ph p'));
    ss_szo : length (ho (ph p)) <= length (ho (ph p'));
    ss_buf : forall b, b < length (hb (ph p)) -> buf_at (ph p') b = buf_at (ph p) b;
    ss_obj : forall o, o < length (ho (ph p)) -> ~ In o RO ->
               obj_at (ph p') o = obj_at (ph p) o /\ shape (ph p') o = shape (ph p) o }.

  Theorem step_frame (i : instr) (p : pstate) :
    instr_ok i = true -> Own (ph p) -> regs_ok p ->
    step_spec (receivers i p) p (step keqb k0 i p).
  Proof.
    intros Hok Hown Hregs. unfold step.
    destruct (forallb (fun r => Nat.ltb r (length (regs p))) (iargs i)) eqn:Eargs.
    2:{ split; auto. }
    unfold instr_ok in Hok.
    destruct (safe (iscript i) (init_aenv (length (iargs i)) (irecv i))) as [a'|] eqn:Es; [|discriminate].
    apply andb_true_iff in Hok as [Hrets Hrecv].
    set (s := init_st k0 (ph p) (regs p) (iargs i)).
    assert (Hv : forall v, In v (irecv i) -> ov s v < length (ho (sh s))).
    { intros v Hin. rewrite forallb_forall in Hrecv. specialize (Hrecv v Hin). apply Nat.ltb_lt in Hrecv.
      cbn. unfold load_env. unfold regs_ok in Hregs. rewrite Forall_forall in Hregs. apply Hregs.
      apply nth_In. rewrite forallb_forall in Eargs. apply Nat.ltb_lt. apply Eargs. apply nth_In; auto. }
    destruct (call_frame keqb (iscript i) s _ _ a' Es Hown Hv) as [[F1 F2 F3 F4 F5 F6 F7] Hvalid].
    split; cbn [ph regs]; auto.
    - unfold regs_ok; cbn [ph regs].
      assert (Hold : Forall (fun r => r < length (ho (sh (exec keqb (iscript i) s)))) (regs p)).
      { eapply Forall_impl; [|exact Hregs]. cbn. intros r Hr. cbn in F4. lia. }
      unfold store_rets. revert Hold. generalize (regs p) as rs.
      rewrite forallb_forall in Hrets.
      induction (irets i) as [|[v r] rets IH]; intros rs Hold; cbn [fold_left]; auto.
      apply IH.
      + intros x Hx. apply Hrets. right; auto.
      + apply Forall_upd_nth; auto. cbn [fst snd]. apply Hvalid.
        specialize (Hrets (v, r) (or_introl eq_refl)). cbn in Hrets. destruct (go a' v); auto; discriminate.
  Qed.

  Theorem programs_frame (prog : list instr) : forall (p : pstate) (o : nat),
    forallb instr_ok prog = true -> Own (ph p) -> regs_ok p ->
    o < length (ho (ph p)) -> untouched keqb k0 o prog p ->
    let p' := run keqb k0 prog p in
    Own (ph p') /\
    obj_at (ph p') o = obj_at (ph p) o /\
    shape (ph p') o = shape (ph p) o /\
    (forall b, b < length (hb (ph p)) -> buf_at (ph p') b = buf_at (ph p) b) /\
    (bufs_valid (ph p) o -> obs (ph p') o = obs (ph p) o).
  Proof.
    induction prog as [|i prog IH]; intros p o Hok Hown Hregs Ho Hun; cbn [run fold_left].
    - split; [exact Hown|]. split; [reflexivity|]. split; [reflexivity|]. split; intros; reflexivity.
    - cbn [forallb] in Hok. apply andb_true_iff in Hok as [Hi Hok].
      cbn [untouched] in Hun. destruct Hun as [Hn Hun].
      destruct (step_frame i p Hi Hown Hregs) as [S1 S2 S3 S4 S5 S6].
      destruct (S6 o Ho Hn) as [Eo Es].
      assert (Ho' : o < length (ho (ph (step keqb k0 i p)))) by lia.
      destruct (IH (step keqb k0 i p) o Hok S1 S2 Ho' Hun) as (A & B & C & D & _).
      fold (run keqb k0 prog (step keqb k0 i p)).
      assert (Hbuf : forall b, b < length (hb (ph p)) ->
                buf_at (ph (run keqb k0 prog (step keqb k0 i p))) b = buf_at (ph p) b).
      { intros b Hb. rewrite D by lia. apply S5; auto. }
      split; [exact A|]. split; [congruence|]. split; [congruence|]. split; [exact Hbuf|].
      intros Hv. apply obs_same; auto; congruence.
  Qed.
End Programs.
