(* Proofs/LocalAlgGenProofs.v — property C18, translator tie of the ALGORITHM.
   Gen/LocalAlgGen.v is regenerated on every run from the current source of
   `build_local_fermionic_elements` (and of the helpers it calls).  Here the
   generated function is proved EQUAL to the hand model `Model.LocalOps.elements`
   (for every fuel, term list and tuple of bases, `None` = out of fuel on both
   sides), piece by piece:
     generated inner `for k` pass      = `bubble` / `pass`,
     generated `while any_moves` loop  = `sort_loop` (same fuel convention),
     generated grouping + pattern test = `nonvanishing`,
     generated per-term body           = `term_contrib` + `add_entry` on the dict,
     generated per-location body       = `entry`,
     generated location enumeration    = `list_prod (cart dims) (cart dims)` with `bra_ops` / `ket_ops`,
     generated dict                    = the entry list of `collect`.
   Labels: the model uses `nat` (rank of the label), the generated code the
   `list Z` labels of Gen/OpOrder.v; the statements hold for EVERY injective
   order embedding `enc` of the ranks into `list Z` (Section), in particular
   for `fun n => [Z.of_nat n]`. *)
From SV Require Import Base.Prelude Base.PyList Gen.OpOrder Gen.LocalAlgGen.
From SV Require Import Model.LocalOps Proofs.LocalOpsProofs Proofs.LocalOpsProductProofs.
Open Scope Z_scope.

(* ================================================================ Python list primitives *)
Lemma py_nth_at {A} (d : A) (pre : list A) (x : A) (r : list A) :
  py_nth d (pre ++ x :: r) (Z.of_nat (length pre)) = x.
Proof.
  unfold py_nth. destruct (Z.ltb_spec (Z.of_nat (length pre)) 0) as [E|E]; [lia|].
  rewrite Nat2Z.id, app_nth2, Nat.sub_diag by lia. reflexivity.
Qed.

Lemma py_nth_at1 {A} (d : A) (pre : list A) (x y : A) (r : list A) :
  py_nth d (pre ++ x :: y :: r) (Z.of_nat (length pre) + 1) = y.
Proof.
  replace (pre ++ x :: y :: r) with ((pre ++ [x]) ++ y :: r) by (rewrite <- app_assoc; reflexivity).
  replace (Z.of_nat (length pre) + 1) with (Z.of_nat (length (pre ++ [x]))) by (rewrite app_length; cbn [length]; lia).
  apply py_nth_at.
Qed.

Lemma la_set_at {A} (pre : list A) (x v : A) (r : list A) :
  la_set (pre ++ x :: r) (Z.of_nat (length pre)) v = pre ++ v :: r.
Proof.
  unfold la_set. destruct (Z.ltb_spec (Z.of_nat (length pre)) 0) as [E|E]; [lia|]. rewrite Nat2Z.id.
  rewrite firstn_app, Nat.sub_diag, firstn_all, firstn_O, app_nil_r.
  replace (S (length pre)) with (length pre + 1)%nat by lia.
  rewrite skipn_app, skipn_all2 by lia. replace (length pre + 1 - length pre)%nat with 1%nat by lia. reflexivity.
Qed.

Lemma la_set_at1 {A} (pre : list A) (x y v : A) (r : list A) :
  la_set (pre ++ x :: y :: r) (Z.of_nat (length pre) + 1) v = pre ++ x :: v :: r.
Proof.
  replace (pre ++ x :: y :: r) with ((pre ++ [x]) ++ y :: r) by (rewrite <- app_assoc; reflexivity).
  replace (Z.of_nat (length pre) + 1) with (Z.of_nat (length (pre ++ [x]))) by (rewrite app_length; cbn [length]; lia).
  rewrite la_set_at, <- app_assoc. reflexivity.
Qed.

(* ================================================================ Python dict (association list) facts *)
Lemma leqZ_eq : forall a b : list Z, list_eqb Z.eqb a b = true <-> a = b.
Proof.
  induction a as [|x a IH]; intros [|y b]; cbn [list_eqb]; try (split; [discriminate | discriminate]); [tauto|].
  rewrite andb_true_iff, Z.eqb_eq, IH. split; [intros [-> ->]; reflexivity | intro E; inversion E; tauto].
Qed.

Lemma forallb_map' {A B} (f : A -> B) (p : B -> bool) (l : list A) : forallb p (map f l) = forallb (fun x => p (f x)) l.
Proof. induction l as [|x l IH]; cbn [map forallb]; [reflexivity | now rewrite IH]. Qed.

Section DictFacts.
  Context {K V : Type} (keqb : K -> K -> bool) (keqb_eq : forall a b, keqb a b = true <-> a = b).

  Lemma keqb_refl k : keqb k k = true.
  Proof. apply keqb_eq. reflexivity. Qed.

  Lemma keqb_neq a b : a <> b -> keqb a b = false.
  Proof. intro H. destruct (keqb a b) eqn:E; [apply keqb_eq in E; contradiction | reflexivity]. Qed.

  Lemma lookup_None_iff (k : K) (d : list (K * V)) : lookup keqb k d = None <-> ~ In k (map fst d).
  Proof.
    induction d as [|[k' v] d IH]; cbn [lookup map fst In]; [tauto|].
    destruct (keqb k k') eqn:E.
    - apply keqb_eq in E. subst k'. split; [discriminate | intro H; exfalso; apply H; now left].
    - rewrite IH. split; [intros H [H'|H']; [subst k'; rewrite keqb_refl in E; discriminate | contradiction] | tauto].
  Qed.

  Lemma lookup_Some_In (k : K) (v : V) (d : list (K * V)) : lookup keqb k d = Some v -> In (k, v) d.
  Proof.
    induction d as [|[k' v'] d IH]; cbn [lookup In]; [discriminate|].
    destruct (keqb k k') eqn:E; [|intro H; right; now apply IH].
    apply keqb_eq in E. subst k'. intro H. inversion H. now left.
  Qed.

  Lemma In_lookup_Some (k : K) (v : V) (d : list (K * V)) : NoDup (map fst d) -> In (k, v) d -> lookup keqb k d = Some v.
  Proof.
    induction d as [|[k' v'] d IH]; cbn [lookup In map fst]; [contradiction|]. intros Hnd [H|H].
    - inversion H; subst. rewrite keqb_refl. reflexivity.
    - inversion Hnd as [|? ? Hni Hnd']; subst. destruct (keqb k k') eqn:E; [|now apply IH].
      apply keqb_eq in E. subst k'. exfalso. apply Hni. change k with (fst (k, v)). now apply in_map.
  Qed.

  Lemma dset_absent (k : K) (v : V) (d : list (K * V)) : lookup keqb k d = None -> dset keqb k v d = d ++ [(k, v)].
  Proof.
    induction d as [|[k' v'] d IH]; cbn [lookup dset app]; [reflexivity|].
    destruct (keqb k k'); [discriminate|]. intro H. now rewrite IH.
  Qed.

  Lemma dset_keys_present (k : K) (v g : V) (d : list (K * V)) :
    lookup keqb k d = Some g -> map fst (dset keqb k v d) = map fst d.
  Proof.
    induction d as [|[k' v'] d IH]; cbn [lookup dset map fst]; [discriminate|].
    destruct (keqb k k'); cbn [map fst]; [reflexivity|]. intro H. now rewrite IH.
  Qed.

  Lemma In_dset_present (k : K) (v g : V) (d : list (K * V)) :
    NoDup (map fst d) -> lookup keqb k d = Some g ->
    forall k' g', In (k', g') (dset keqb k v d) <-> (k' = k /\ g' = v) \/ (k' <> k /\ In (k', g') d).
  Proof.
    induction d as [|[k0 v0] d IH]; cbn [lookup dset map fst]; [discriminate|]. intros Hnd Hl k' g'.
    inversion Hnd as [|? ? Hni Hnd']; subst.
    destruct (keqb k k0) eqn:E.
    - apply keqb_eq in E. subst k0. cbn [In]. split.
      + intros [H|H]; [inversion H; subst; now left|]. right. split; [|now right].
        intros ->. apply Hni. change k with (fst (k, g')). now apply in_map.
      + intros [[-> ->]|[Hne [H|H]]]; [now left | inversion H; subst; contradiction | now right].
    - cbn [In]. rewrite (IH Hnd' Hl). split.
      + intros [H|[H|[Hne H]]]; [inversion H; subst; right; split; [intros ->; rewrite keqb_refl in E; discriminate | now left] | now left | right; split; [exact Hne | now right]].
      + intros [H|[Hne [H|H]]]; [right; now left | now left | right; right; tauto].
  Qed.

  Lemma lookup_app_last (k : K) (v : V) (d : list (K * V)) :
    lookup keqb k d = None -> lookup keqb k (d ++ [(k, v)]) = Some v.
  Proof.
    induction d as [|[k' v'] d IH]; cbn [lookup app]; [now rewrite keqb_refl|].
    destruct (keqb k k'); [discriminate | exact IH].
  Qed.

  Lemma dset_app_last (k : K) (v w : V) (d : list (K * V)) :
    lookup keqb k d = None -> dset keqb k w (d ++ [(k, v)]) = d ++ [(k, w)].
  Proof.
    induction d as [|[k' v'] d IH]; cbn [lookup dset app]; [now rewrite keqb_refl|].
    destruct (keqb k k'); [discriminate|]. intro H. now rewrite IH.
  Qed.
End DictFacts.

(* ================================================================ list facts *)
Lemma flat_map_id_concat {A} (L : list (list A)) : flat_map (fun v => map (fun x => x) v) L = concat L.
Proof. induction L as [|v L IH]; cbn [flat_map concat]; [reflexivity|]. now rewrite map_id, IH. Qed.

Lemma map_snd_combine {A B} : forall (l : list A) (l' : list B), length l' = length l -> map snd (combine l l') = l'.
Proof.
  induction l as [|x l IH]; intros [|y l'] H; cbn [combine map snd length] in *; try reflexivity; try discriminate.
  f_equal. apply IH. lia.
Qed.

Lemma app_inj_len {A} : forall (a a' b b' : list A), length a = length a' -> a ++ b = a' ++ b' -> a = a' /\ b = b'.
Proof.
  induction a as [|x a IH]; intros [|y a'] b b' Hl H; cbn [length app] in *; try discriminate; [tauto|].
  inversion H; subst. destruct (IH a' b b' ltac:(lia) H2) as [-> ->]. tauto.
Qed.

Lemma NoDup_map_inj_on {A B} (f : A -> B) (l : list A) :
  (forall a b, In a l -> In b l -> f a = f b -> a = b) -> NoDup l -> NoDup (map f l).
Proof.
  intros Hf Hnd. induction Hnd as [|a l Hni Hnd IH]; cbn [map]; constructor.
  - intros Hin. apply in_map_iff in Hin. destruct Hin as (b & E & Hb).
    assert (b = a) by (apply Hf; [now right | now left | exact E]). subst b. contradiction.
  - apply IH. intros x y Hx Hy. apply Hf; now right.
Qed.

Lemma NoDup_list_prod {A B} (l1 : list A) (l2 : list B) : NoDup l1 -> NoDup l2 -> NoDup (list_prod l1 l2).
Proof.
  intros H1 H2. induction H1 as [|a l1 Hni H1 IH]; cbn [list_prod]; [constructor|].
  apply NoDup_app_intro; [|exact IH|].
  - apply NoDup_map_inj'; [intros x y E; now inversion E | exact H2].
  - intros [x y] Hx Hy. apply in_map_iff in Hx. destruct Hx as (y' & E & _). inversion E; subst.
    apply in_prod_iff in Hy. tauto.
Qed.

Lemma list_prod_map {A B A' B'} (f : A -> A') (g : B -> B') (l1 : list A) (l2 : list B) :
  list_prod (map f l1) (map g l2) = map (fun p => (f (fst p), g (snd p))) (list_prod l1 l2).
Proof.
  induction l1 as [|a l1 IH]; cbn [map list_prod]; [reflexivity|].
  rewrite map_app, IH, !map_map. reflexivity.
Qed.

Lemma cart_length : forall dims k, In k (cart dims) -> length k = length dims.
Proof.
  induction dims as [|d ds IH]; intros k Hk.
  - cbn in Hk. destruct Hk as [<-|[]]. reflexivity.
  - apply cart_cons_In in Hk. destruct Hk as (j & k' & -> & _ & Hk'). cbn [length]. f_equal. now apply IH.
Qed.

Lemma py_enum_from_seq {A} (d : A) : forall (l : list A) (k : Z),
  py_enum_from k l = map (fun i => (k + Z.of_nat i, nth i l d)) (seq 0 (length l)).
Proof.
  induction l as [|x l IH]; intros k; cbn [py_enum_from length seq map]; [reflexivity|].
  rewrite Z.add_0_r. f_equal. rewrite IH, <- seq_shift, map_map. apply map_ext. intro i. cbn [nth]. f_equal. lia.
Qed.

Lemma py_enumerate_seq {A} (d : A) (l : list A) : py_enumerate l = map (fun i => (Z.of_nat i, nth i l d)) (seq 0 (length l)).
Proof. unfold py_enumerate. rewrite (py_enum_from_seq d). apply map_ext. intro i. reflexivity. Qed.

Lemma flat_map_map {A B C} (f : A -> B) (g : B -> list C) (l : list A) : flat_map g (map f l) = flat_map (fun x => g (f x)) l.
Proof. induction l as [|x l IH]; cbn [map flat_map]; [reflexivity | now rewrite IH]. Qed.

Lemma map_flat_map {A B C} (f : B -> C) (g : A -> list B) (l : list A) : map f (flat_map g l) = flat_map (fun x => map f (g x)) l.
Proof. induction l as [|x l IH]; cbn [map flat_map]; [reflexivity | now rewrite map_app, IH]. Qed.

(* itertools.product( *[enumerate(b) for b in bases] ) = the index grid with the states looked up *)
Lemma product_star_enum {A B} (F : A -> B) (d : A) : forall (bases : list (list A)),
  la_product_star (map (fun b => py_enumerate (map F b)) bases)
  = map (fun il => map (fun bi => (Z.of_nat (snd bi), F (nth (snd bi) (fst bi) d))) (combine bases il))
        (cart (map (@length _) bases)).
Proof.
  induction bases as [|b bs IH]; [reflexivity|].
  cbn [map la_product_star cart]. rewrite IH, (py_enumerate_seq (F d)), map_length, flat_map_map, map_flat_map.
  apply flat_map_ext. intro i. rewrite !map_map. apply map_ext. intro il. cbn [combine map fst snd].
  rewrite map_nth. reflexivity.
Qed.

Section Enc.
  (* any injective, order preserving embedding of the ranks into the labels of Gen/OpOrder.v *)
  Context (enc : nat -> list Z).
  Context (enc_lt : forall a b : nat, lex_ltb (enc a) (enc b) = (a <? b)%nat).
  Context (enc_eq : forall a b : nat, list_eqb Z.eqb (enc a) (enc b) = (a =? b)%nat).

  Definition eop (o : LocalOps.op) : (list Z * bool) := (enc (label o), dag o).
  Definition eops (l : list LocalOps.op) : list (list Z * bool) := map eop l.
  Definition eterms (ts : list term) : list (Z * list (list Z * bool)) := map (fun t : term => (fst t, eops (snd t))) ts.
  Definition ebases (bs : list site_basis) : list (list (list (list Z * bool))) := map (map eops) bs.
  Definition ekey (k : list nat) : list Z := map Z.of_nat k.
  Definition eentry (e : list nat * Z) : list Z * Z := (ekey (fst e), snd e).

  (* ================================================================ the inner pass *)
  Definition zflip (f : bool) (ph : Z) : Z := if f then - ph else ph.

  Lemma eops_split pre x y t : eops (pre ++ x :: y :: t) = eops pre ++ eop x :: eop y :: eops t.
  Proof. unfold eops. rewrite map_app. reflexivity. Qed.

  Lemma for3_step (pre : list LocalOps.op) (x y : LocalOps.op) (t : list LocalOps.op) (ph : Z) (mv : bool) :
    blfe_for3_body (eops (pre ++ x :: y :: t), ph, mv) (Z.of_nat (length pre))
    = if (label y <? label x)%nat then (eops (pre ++ y :: x :: t), - ph, true) else (eops (pre ++ x :: y :: t), ph, mv).
  Proof.
    unfold blfe_for3_body. rewrite !eops_split.
    replace (length pre) with (length (eops pre)) by apply map_length.
    rewrite py_nth_at, py_nth_at1. cbn [fst eop]. rewrite enc_lt.
    destruct (label y <? label x)%nat; [|reflexivity].
    rewrite la_set_at, la_set_at1. reflexivity.
  Qed.

  Lemma for3_bubble : forall (t pre : list LocalOps.op) (x : LocalOps.op) (ph : Z) (mv : bool),
    fold_left blfe_for3_body (map Z.of_nat (seq (length pre) (length t))) (eops (pre ++ x :: t), ph, mv)
    = let '(f, m, r) := bubble x t in (eops (pre ++ r), zflip f ph, mv || m).
  Proof.
    induction t as [|y t IH]; intros pre x ph mv.
    - cbn [length seq map fold_left bubble]. rewrite orb_false_r. reflexivity.
    - cbn [length seq map fold_left bubble]. rewrite for3_step.
      destruct (label y <? label x)%nat eqn:E.
      + specialize (IH (pre ++ [y]) x (- ph) true).
        rewrite app_length in IH. cbn [length] in IH. replace (length pre + 1)%nat with (S (length pre)) in IH by lia.
        rewrite <- app_assoc in IH. cbn [app] in IH.
        rewrite IH. destruct (bubble x t) as [[f m] r]. rewrite <- app_assoc. cbn [app orb].
        rewrite orb_true_r. f_equal. f_equal. unfold zflip. destruct f; cbn [negb]; lia.
      + specialize (IH (pre ++ [x]) y ph mv).
        rewrite app_length in IH. cbn [length] in IH. replace (length pre + 1)%nat with (S (length pre)) in IH by lia.
        rewrite <- app_assoc in IH. cbn [app] in IH.
        rewrite IH. destruct (bubble y t) as [[f m] r]. rewrite <- app_assoc. reflexivity.
  Qed.

  Lemma while_body_pass (l : list LocalOps.op) (ph : Z) (mv : bool) :
    blfe_while1_body (eops l, ph, mv) = let '(f, m, r) := pass l in (eops r, zflip f ph, m).
  Proof.
    unfold blfe_while1_body. destruct l as [|x t].
    - cbn. reflexivity.
    - unfold eops at 1. rewrite map_length. cbn [length].
      replace (Z.of_nat (S (length t)) - 1) with (Z.of_nat (length t)) by lia.
      unfold zrange. rewrite Nat2Z.id.
      pose proof (for3_bubble t [] x ph false) as H. cbn [length app] in H. rewrite H.
      cbn [pass]. destruct (bubble x t) as [[f m] r]. reflexivity.
  Qed.

  (* ================================================================ the while loop = sort_loop, same fuel *)
  Lemma phase_z_flip (sg f : bool) : zflip f (phase_z sg) = phase_z (xorb sg f).
  Proof. destruct sg, f; reflexivity. Qed.

  Lemma la_while_stop {S} (c : S -> bool) (b : S -> S) fuel st : c st = false -> la_while c b fuel st = Some st.
  Proof. intro H. destruct fuel; cbn [la_while]; rewrite H; reflexivity. Qed.

  Lemma while_sort_loop : forall (fuel : nat) (sg : bool) (l : list LocalOps.op),
    la_while blfe_while1_cond blfe_while1_body fuel (eops l, phase_z sg, true)
    = match sort_loop fuel sg l with
      | None => None
      | Some (sg', r) => Some (eops r, phase_z sg', false)
      end.
  Proof.
    induction fuel as [|fuel IH]; intros sg l; [reflexivity|].
    cbn [la_while sort_loop]. change (blfe_while1_cond (eops l, phase_z sg, true)) with true. cbv iota.
    rewrite while_body_pass. destruct (pass l) as [[f m] r]. rewrite phase_z_flip. destruct m.
    - apply IH.
    - apply la_while_stop. reflexivity.
  Qed.

  (* ================================================================ the vanishing test *)
  Lemma enc_inj a b : enc a = enc b -> a = b.
  Proof. intro H. apply Nat.eqb_eq. rewrite <- enc_eq. apply leqZ_eq. exact H. Qed.

  Lemma enc_eq_iff a b : enc a = enc b <-> a = b.
  Proof. split; [apply enc_inj | now intros ->]. Qed.

  (* group[::2] and group[1::2] *)
  Lemma slice_step_from {A} (lo : Z) : forall (l : list A) (k : Z), 0 <= k -> (lo = 0 \/ lo = 1) ->
    map snd (filter (fun ix : Z * A => (lo <=? fst ix) && ((fst ix - lo) mod 2 =? 0)) (py_enum_from k l))
    = if (lo <=? k) && ((k - lo) mod 2 =? 0) then evens l else odds l.
  Proof.
    induction l as [|x l IH]; intros k Hk Hlo.
    - cbn. destruct ((lo <=? k) && ((k - lo) mod 2 =? 0)); reflexivity.
    - cbn [py_enum_from filter fst].
      assert (Hodds : odds (x :: l) = evens l) by reflexivity.
      assert (Hev : evens (x :: l) = x :: odds l) by (destruct l; reflexivity).
      assert (Hnext : ((lo <=? k + 1) && ((k + 1 - lo) mod 2 =? 0)) = negb ((lo <=? k) && ((k - lo) mod 2 =? 0))).
      { destruct (Z.leb_spec lo k) as [L|L]; destruct (Z.leb_spec lo (k + 1)) as [L'|L']; try lia; cbn [andb negb].
        - replace (k + 1 - lo) with ((k - lo) + 1) by lia.
          pose proof (Z.mod_pos_bound (k - lo) 2 ltac:(lia)) as B.
          rewrite <- Zplus_mod_idemp_l.
          destruct (Z.eqb_spec ((k - lo) mod 2) 0) as [E|E].
          + rewrite E. reflexivity.
          + assert ((k - lo) mod 2 = 1) as Y by lia. rewrite Y. reflexivity.
        - assert (k + 1 - lo = 0) as Z0 by lia. rewrite Z0. reflexivity. }
      destruct ((lo <=? k) && ((k - lo) mod 2 =? 0)); cbn [map snd]; rewrite (IH (k + 1)) by lia; rewrite Hnext; cbn [negb];
        [rewrite Hev | rewrite Hodds]; reflexivity.
  Qed.

  Lemma slice_evens {A} (l : list A) : la_slice_step l 0 2 = evens l.
  Proof. unfold la_slice_step, py_enumerate. rewrite (slice_step_from 0 l 0) by lia. reflexivity. Qed.

  Lemma slice_odds {A} (l : list A) : la_slice_step l 1 2 = odds l.
  Proof. unfold la_slice_step, py_enumerate. rewrite (slice_step_from 1 l 0) by lia. reflexivity. Qed.

  Lemma even_len_mod (n : nat) : (Z.of_nat n mod 2 =? 0) = Nat.even n.
  Proof.
    induction n as [n IH] using (well_founded_induction lt_wf). destruct n as [|[|n]]; [reflexivity | reflexivity|].
    change (Nat.even (S (S n))) with (Nat.even n). rewrite <- (IH n) by lia. replace (Z.of_nat (S (S n))) with (Z.of_nat n + 1 * 2) by lia. rewrite Z_mod_plus_full. reflexivity.
  Qed.

  Lemma evens_map {A B} (f : A -> B) : forall l, evens (map f l) = map f (evens l).
  Proof.
    fix IH 1. intros [|x [|y l]]; [reflexivity | reflexivity|]. cbn [map evens]. f_equal. apply IH.
  Qed.

  Lemma odds_map {A B} (f : A -> B) (l : list A) : odds (map f l) = map f (odds l).
  Proof. unfold odds. destruct l; [reflexivity|]. cbn [map tl]. apply evens_map. Qed.

  Definition gen_pattern (g : list (list Z * bool)) : bool :=
    (Z.of_nat (length g) mod 2 =? 0) && forallb (fun o => negb (snd o)) (la_slice_step g 0 2) && forallb (fun o => snd o) (la_slice_step g 1 2).

  Lemma gen_pattern_eops (g : list LocalOps.op) : gen_pattern (eops g) = pattern g.
  Proof.
    unfold gen_pattern, pattern. rewrite slice_evens, slice_odds. unfold eops.
    rewrite map_length, even_len_mod, evens_map, odds_map, !forallb_map'. reflexivity.
  Qed.

  (* groups.setdefault(x.label, []).append(x) over the sorted string *)
  Definition groups_inv (d : list (list Z * list (list Z * bool))) (p : list LocalOps.op) : Prop :=
    NoDup (map fst d) /\
    forall k g, In (k, g) d <-> exists m, k = enc m /\ In m (map label p) /\ g = eops (group m p).

  Lemma group_snoc m p o : group m (p ++ [o]) = group m p ++ (if (label o =? m)%nat then [o] else []).
  Proof. unfold group. rewrite filter_app. cbn [filter]. reflexivity. Qed.

  Lemma groups_step d p o : groups_inv d p -> groups_inv (blfe_for4_body d (eop o)) (p ++ [o]).
  Proof.
    intros [Hnd Hin]. unfold blfe_for4_body, la_setdefault_append. cbn [fst eop].
    destruct (lookup (list_eqb Z.eqb) (enc (label o)) d) as [g0|] eqn:L.
    - pose proof (lookup_Some_In _ leqZ_eq _ _ _ L) as Hg0. apply Hin in Hg0. destruct Hg0 as (m0 & Em & Hm0 & Hg0).
      apply enc_inj in Em. subst m0.
      split; [rewrite (dset_keys_present _ _ _ _ _ L); exact Hnd|].
      intros k g. rewrite (In_dset_present _ leqZ_eq _ _ _ _ Hnd L). rewrite Hin. split.
      + intros [[-> ->]|[Hne (m & -> & Hm & ->)]].
        * exists (label o). split; [reflexivity|]. split; [rewrite map_app, in_app_iff; now left|].
          rewrite group_snoc, Nat.eqb_refl, Hg0. unfold eops. rewrite map_app. reflexivity.
        * exists m. split; [reflexivity|]. split; [rewrite map_app, in_app_iff; now left|].
          rewrite group_snoc. destruct (Nat.eqb_spec (label o) m) as [E|E]; [subst m; contradiction|]. now rewrite app_nil_r.
      + intros (m & -> & Hm & ->). rewrite group_snoc. destruct (Nat.eqb_spec (label o) m) as [E|E].
        * subst m. left. split; [reflexivity|]. rewrite Hg0. unfold eops. rewrite map_app. reflexivity.
        * right. split; [intro X; apply enc_inj in X; congruence|]. exists m. split; [reflexivity|].
          rewrite app_nil_r. split; [|reflexivity]. rewrite map_app, in_app_iff in Hm. destruct Hm as [Hm|[Hm|[]]]; [exact Hm | congruence].
    - assert (Hni : ~ In (label o) (map label p)).
      { intro Hm. assert (In (enc (label o), eops (group (label o) p)) d) as X by (apply Hin; exists (label o); tauto).
        apply (In_lookup_Some _ leqZ_eq _ _ _ Hnd) in X. congruence. }
      rewrite (dset_absent _ _ _ _ L). split.
      + rewrite map_app. cbn [map fst]. apply NoDup_app_intro; [exact Hnd | constructor; [intros []|constructor]|].
        intros k Hk [<-|[]]. apply (lookup_None_iff _ leqZ_eq) in L. contradiction.
      + intros k g. rewrite in_app_iff, Hin. cbn [In]. split.
        * intros [(m & -> & Hm & ->)|[H|[]]].
          -- exists m. split; [reflexivity|]. split; [rewrite map_app, in_app_iff; now left|].
             rewrite group_snoc. destruct (Nat.eqb_spec (label o) m) as [E|E]; [subst m; contradiction|]. now rewrite app_nil_r.
          -- inversion H; subst. exists (label o). split; [reflexivity|]. split; [rewrite map_app, in_app_iff; right; now left|].
             rewrite group_snoc, Nat.eqb_refl, (group_not_in _ _ Hni). reflexivity.
        * intros (m & -> & Hm & ->). rewrite group_snoc. destruct (Nat.eqb_spec (label o) m) as [E|E].
          -- subst m. right. left. rewrite (group_not_in _ _ Hni). reflexivity.
          -- left. exists m. split; [reflexivity|]. rewrite app_nil_r. split; [|reflexivity].
             rewrite map_app, in_app_iff in Hm. destruct Hm as [Hm|[Hm|[]]]; [exact Hm | congruence].
  Qed.

  Lemma groups_fold : forall (q p : list LocalOps.op) d, groups_inv d p -> groups_inv (fold_left blfe_for4_body (eops q) d) (p ++ q).
  Proof.
    induction q as [|o q IH]; intros p d H; cbn [eops map fold_left]; [now rewrite app_nil_r|].
    replace (p ++ o :: q) with ((p ++ [o]) ++ q) by (rewrite <- app_assoc; reflexivity).
    apply IH. apply groups_step. exact H.
  Qed.

  Lemma groups_nonvanishing (ops : list LocalOps.op) :
    forallb gen_pattern (map snd (fold_left blfe_for4_body (eops ops) [])) = nonvanishing ops.
  Proof.
    assert (H0 : groups_inv [] []).
    { split; [constructor|]. intros k g. cbn [In map]. split; [intros [] | intros (m & _ & [] & _)]. }
    pose proof (groups_fold ops [] [] H0) as [_ Hin]. cbn [app] in Hin.
    unfold nonvanishing. apply eq_iff_eq_true. rewrite !forallb_forall. split.
    - intros H m Hm. rewrite <- gen_pattern_eops. apply H. apply in_map_iff.
      exists (enc m, eops (group m ops)). split; [reflexivity|]. apply Hin. exists m. tauto.
    - intros H g Hg. apply in_map_iff in Hg. destruct Hg as ([k g'] & <- & Hkg). apply Hin in Hkg.
      destruct Hkg as (m & -> & Hm & ->). cbn [snd]. rewrite gen_pattern_eops. apply H. exact Hm.
  Qed.

  (* ================================================================ helpers of the entry function *)
  Lemma ensure_id (l : list (list Z * bool)) : map la_ensure_fermionic_operator l = l.
  Proof. unfold la_ensure_fermionic_operator. apply map_id. Qed.

  Lemma parse_terms_id (ts : list (Z * list (list Z * bool))) : la_parse_terms ts = ts.
  Proof.
    unfold la_parse_terms. induction ts as [|[c t] ts IH]; cbn [map]; [reflexivity|]. now rewrite ensure_id, IH.
  Qed.

  Lemma parse_bases_id (bs : list (list (list (list Z * bool)))) : la_parse_bases bs = bs.
  Proof.
    unfold la_parse_bases. rewrite <- (map_id bs) at 2. apply map_ext. intro b.
    rewrite <- (map_id b) at 2. apply map_ext. intro x. apply ensure_id.
  Qed.

  Lemma op_dag_eop (o : LocalOps.op) : OpOrder.op_dag (eop o) = eop (LocalOps.op_dag o).
  Proof. reflexivity. Qed.

  Lemma dagger_basis_eops (b : list (list LocalOps.op)) :
    la_dagger_basis (map eops b) = map (fun x => eops (dagger_state x)) b.
  Proof.
    unfold la_dagger_basis. rewrite map_map. apply map_ext. intro x. unfold eops, dagger_state.
    rewrite <- map_rev, !map_map. apply map_ext. intro o. apply op_dag_eop.
  Qed.

  (* ================================================================ one term at one location *)
  Definition keqb := list_eqb Z.eqb.

  Lemma for2_spec (fuel : nat) (il ir : list Z) (bra ket : list LocalOps.op) (d : list (list Z * Z)) (t : term) :
    blfe_for2_body fuel il (eops bra) ir (eops ket) d (fst t, eops (snd t))
    = match term_contrib fuel bra ket t with
      | None => None
      | Some None => Some d
      | Some (Some v) => Some (dset keqb (il ++ ir) (dget keqb 0 d (il ++ ir) + v) d)
      end.
  Proof.
    unfold blfe_for2_body, term_contrib. cbn [fst snd]. destruct (fst t =? 0); [reflexivity|].
    unfold eops at 1 2 3. rewrite <- !map_app. fold (eops (bra ++ snd t ++ ket)).
    change 1 with (phase_z false) at 1. rewrite while_sort_loop. unfold phased_sort.
    destruct (sort_loop fuel false (bra ++ snd t ++ ket)) as [[sg r]|]; [|reflexivity].
    change (forallb _ (map snd (fold_left blfe_for4_body (eops r) [])))
      with (forallb gen_pattern (map snd (fold_left blfe_for4_body (eops r) []))).
    rewrite groups_nonvanishing. destruct (nonvanishing r); reflexivity.
  Qed.

  (* the dict while one location is being processed: its key is absent or last *)
  Definition dadd (d : list (list Z * Z)) (idx : list Z) (acc : option Z) : list (list Z * Z) :=
    match acc with None => d | Some a => d ++ [(idx, a)] end.

  Lemma accumulate_gen (fuel : nat) (il ir : list Z) (bra ket : list LocalOps.op) (d : list (list Z * Z)) :
    lookup keqb (il ++ ir) d = None ->
    forall (ts : list term) (acc : option Z),
    la_for (blfe_for2_body fuel il (eops bra) ir (eops ket)) (eterms ts) (dadd d (il ++ ir) acc)
    = match accumulate fuel bra ket ts acc with
      | None => None
      | Some acc' => Some (dadd d (il ++ ir) acc')
      end.
  Proof.
    intros Hd. induction ts as [|t ts IH]; intros acc; cbn [eterms map la_for accumulate]; [reflexivity|].
    rewrite for2_spec. destruct (term_contrib fuel bra ket t) as [[v|]|]; [| apply IH | reflexivity].
    cbn [add_entry]. rewrite <- IH. f_equal. unfold dget. destruct acc as [a|]; cbn [dadd].
    - rewrite (lookup_app_last _ leqZ_eq _ _ _ Hd), (dset_app_last _ leqZ_eq _ _ _ _ Hd). reflexivity.
    - unfold keqb in *. rewrite Hd, (dset_absent _ _ _ _ Hd). reflexivity.
  Qed.

  (* ================================================================ one location *)
  Definition gloc (f : list LocalOps.op -> list LocalOps.op) (bases : list site_basis) (il : list nat)
    : list (Z * list (list Z * bool)) :=
    map (fun bi => (Z.of_nat (snd bi), eops (f (nth (snd bi) (fst bi) [])))) (combine bases il).

  Lemma gloc_fst f bases il : length il = length bases -> map fst (gloc f bases il) = ekey il.
  Proof.
    intro H. unfold gloc, ekey. rewrite map_map. cbn [fst].
    rewrite <- (map_snd_combine bases il H) at 2. rewrite map_map. reflexivity.
  Qed.

  Lemma gloc_snd f bases il :
    concat (map snd (gloc f bases il)) = eops (concat (map (fun bi => f (nth (snd bi) (fst bi) [])) (combine bases il))).
  Proof. unfold gloc, eops. rewrite concat_map, !map_map. reflexivity. Qed.

  Lemma for1_spec (fuel : nat) (terms : list term) (bases : list site_basis) (il ir : list nat) (d : list (list Z * Z)) :
    length il = length bases -> length ir = length bases -> lookup keqb (ekey (il ++ ir)) d = None ->
    blfe_for1_body fuel (eterms terms) d (gloc dagger_state bases il, gloc (fun x => x) bases ir)
    = match entry fuel terms bases il ir with
      | None => None
      | Some e => Some (dadd d (ekey (il ++ ir)) e)
      end.
  Proof.
    intros Hl Hr Hd. unfold blfe_for1_body. rewrite !flat_map_id_concat, !gloc_snd, !gloc_fst by assumption.
    fold (bra_ops bases il) (ket_ops bases ir).
    unfold ekey in *. rewrite map_app in *.
    pose proof (accumulate_gen fuel (map Z.of_nat il) (map Z.of_nat ir) (bra_ops bases il) (ket_ops bases ir) d Hd terms None) as H.
    cbn [dadd] in H. rewrite H. unfold entry. destruct (accumulate fuel (bra_ops bases il) (ket_ops bases ir) terms None); reflexivity.
  Qed.

  (* ================================================================ all locations: the dict = the entry list of `collect` *)
  Lemma ekey_inj a b : ekey a = ekey b -> a = b.
  Proof.
    unfold ekey. revert b. induction a as [|x a IH]; intros [|y b] H; cbn [map] in H; try discriminate; [reflexivity|].
    inversion H. f_equal; [lia | now apply IH].
  Qed.

  Definition loc_key (p : list nat * list nat) : list nat := fst p ++ snd p.

  Lemma collect_gen (fuel : nat) (terms : list term) (bases : list site_basis) :
    forall (locs : list (list nat * list nat)) (d : list (list Z * Z)),
    (forall p, In p locs -> length (fst p) = length bases /\ length (snd p) = length bases) ->
    NoDup (map loc_key locs) ->
    (forall p, In p locs -> ~ In (ekey (loc_key p)) (map fst d)) ->
    la_for (blfe_for1_body fuel (eterms terms))
           (map (fun p => (gloc dagger_state bases (fst p), gloc (fun x => x) bases (snd p))) locs) d
    = match collect fuel terms bases locs with
      | None => None
      | Some es => Some (d ++ map eentry es)
      end.
  Proof.
    induction locs as [|[il ir] rest IH]; intros d Hlen Hnd Hfresh; cbn [map la_for collect fst snd].
    - now rewrite app_nil_r.
    - destruct (Hlen (il, ir) (or_introl eq_refl)) as [Hl Hr]. cbn [fst snd] in Hl, Hr.
      assert (Hd : lookup keqb (ekey (il ++ ir)) d = None).
      { apply (lookup_None_iff _ leqZ_eq). exact (Hfresh (il, ir) (or_introl eq_refl)). }
      rewrite (for1_spec fuel terms bases il ir d Hl Hr Hd).
      destruct (entry fuel terms bases il ir) as [e|]; [|reflexivity].
      inversion Hnd as [|? ? Hni Hnd']; subst.
      rewrite IH.
      + destruct (collect fuel terms bases rest) as [tl_|]; [|reflexivity].
        destruct e as [v|]; cbn [dadd map eentry fst snd]; [|reflexivity]. rewrite <- app_assoc. reflexivity.
      + intros p Hp. apply Hlen. now right.
      + exact Hnd'.
      + intros p Hp Hin. assert (Hin' : In (ekey (loc_key p)) (map fst d) \/ ekey (loc_key p) = ekey (il ++ ir)).
        { destruct e as [v|]; cbn [dadd] in Hin; [|now left]. rewrite map_app, in_app_iff in Hin. cbn [map fst In] in Hin.
          destruct Hin as [Hin|[Hin|[]]]; [now left | right; now symmetry]. }
        destruct Hin' as [Hin'|Hin'].
        * exact (Hfresh p (or_intror Hp) Hin').
        * apply ekey_inj in Hin'. apply Hni. replace (loc_key (il, ir)) with (loc_key p) by exact Hin'. now apply in_map.
  Qed.

  Lemma grid_keys_NoDup (dims : list nat) : NoDup (map loc_key (list_prod (cart dims) (cart dims))).
  Proof.
    apply NoDup_map_inj_on; [|apply NoDup_list_prod; apply NoDup_cart].
    intros [a b] [a' b'] H H' E. apply in_prod_iff in H, H'. unfold loc_key in E. cbn [fst snd] in E.
    destruct (app_inj_len a a' b b') as [-> ->]; [|exact E | reflexivity].
    rewrite (cart_length dims a), (cart_length dims a'); tauto.
  Qed.

  (* ================================================================ MAIN: generated algorithm = hand model *)
  Theorem gen_elements_eq (fuel : nat) (terms : list term) (bases : list site_basis) :
    build_local_fermionic_elements_gen fuel (eterms terms) (ebases bases)
    = match elements fuel terms bases with
      | None => None
      | Some es => Some (map eentry es)
      end.
  Proof.
    unfold build_local_fermionic_elements_gen, elements. rewrite parse_terms_id, parse_bases_id.
    unfold ebases. rewrite !map_map.
    rewrite (map_ext (fun x => py_enumerate (la_dagger_basis (map eops x))) (fun x => py_enumerate (map (fun y => eops (dagger_state y)) x)))
      by (intro x; now rewrite dagger_basis_eops).
    rewrite (product_star_enum (fun y => eops (dagger_state y)) []), (product_star_enum eops []).
    rewrite list_prod_map.
    set (dims := map (@length _) bases).
    match goal with |- match ?X with Some v => Some v | None => None end = _ =>
      assert (HX : X = match collect fuel terms bases (list_prod (cart dims) (cart dims)) with
                       | None => None | Some es => Some ([] ++ map eentry es) end) end.
    { apply (collect_gen fuel terms bases (list_prod (cart dims) (cart dims)) []).
      - intros [a b] Hp. apply in_prod_iff in Hp. cbn [fst snd].
        rewrite (cart_length dims a), (cart_length dims b) by tauto. unfold dims. rewrite map_length. tauto.
      - apply grid_keys_NoDup.
      - intros p _ []. }
    rewrite HX. destruct (collect fuel terms bases (list_prod (cart dims) (cart dims))); reflexivity.
  Qed.
End Enc.

(* ================================================================ consequences, outside the section *)
Notation gen_elements := build_local_fermionic_elements_gen.

(* the embedding the harness uses for rank labels: the int n is the label [n] *)
Definition enc0 (n : nat) : list Z := [Z.of_nat n].

Lemma enc0_lt (a b : nat) : lex_ltb (enc0 a) (enc0 b) = (a <? b)%nat.
Proof.
  unfold enc0. cbn [lex_ltb]. rewrite andb_false_r, orb_false_r.
  destruct (Z.ltb_spec (Z.of_nat a) (Z.of_nat b)); destruct (Nat.ltb_spec a b); try reflexivity; lia.
Qed.

Lemma enc0_eq (a b : nat) : list_eqb Z.eqb (enc0 a) (enc0 b) = (a =? b)%nat.
Proof.
  unfold enc0. cbn [list_eqb]. rewrite andb_true_r.
  destruct (Z.eqb_spec (Z.of_nat a) (Z.of_nat b)); destruct (Nat.eqb_spec a b); try reflexivity; lia.
Qed.

Definition order_embedding (enc : nat -> list Z) : Prop :=
  (forall a b : nat, lex_ltb (enc a) (enc b) = (a <? b)%nat) /\
  (forall a b : nat, list_eqb Z.eqb (enc a) (enc b) = (a =? b)%nat).

Lemma enc0_embedding : order_embedding enc0.
Proof. split; [exact enc0_lt | exact enc0_eq]. Qed.

(* (1) the generated `while any_moves` loop and the model's `sort_loop` use the same fuel convention:
   fuel = number of passes allowed; for EVERY fuel they agree, also on running out *)
Theorem gen_sort_eq_model (enc : nat -> list Z) : order_embedding enc ->
  forall (fuel : nat) (l : list LocalOps.op),
  la_while blfe_while1_cond blfe_while1_body fuel (eops enc l, 1, true)
  = match phased_sort fuel l with
    | None => None
    | Some (sg, r) => Some (eops enc r, phase_z sg, false)
    end.
Proof. intros [Hlt _] fuel l. exact (while_sort_loop enc Hlt fuel false l). Qed.

(* (2) the generated sort terminates within the bound the model uses (len^2 + 1 passes) *)
Theorem gen_sort_terminates (enc : nat -> list Z) : order_embedding enc ->
  forall (fuel : nat) (l : list LocalOps.op), (enough_fuel l <= fuel)%nat ->
  exists sg r, la_while blfe_while1_cond blfe_while1_body fuel (eops enc l, 1, true) = Some (eops enc r, phase_z sg, false)
               /\ phased_sort fuel l = Some (sg, r).
Proof.
  intros He fuel l H. destruct (fuel_sufficient fuel l H) as (sg & r & PS).
  exists sg, r. split; [|exact PS]. rewrite (gen_sort_eq_model enc He), PS. reflexivity.
Qed.

(* (3) the whole function: generated = hand model, for every fuel *)
Theorem gen_elements_eq_model (enc : nat -> list Z) : order_embedding enc ->
  forall (fuel : nat) (terms : list term) (bases : list site_basis),
  gen_elements fuel (eterms enc terms) (ebases enc bases)
  = match elements fuel terms bases with
    | None => None
    | Some es => Some (map eentry es)
    end.
Proof. intros [Hlt Heq]. exact (gen_elements_eq enc Hlt Heq). Qed.

(* enough fuel for every operator string of the index grid *)
Definition grid_fuel (fuel : nat) (terms : list term) (bases : list site_basis) : Prop :=
  forall il ir t, In il (cart (map (@length _) bases)) -> In ir (cart (map (@length _) bases)) -> In t terms ->
  (enough_fuel (bra_ops bases il ++ snd t ++ ket_ops bases ir) <= fuel)%nat.

Lemma collect_total (fuel : nat) (terms : list term) (bases : list site_basis) :
  forall locs : list (list nat * list nat),
  (forall p t, In p locs -> In t terms -> (enough_fuel (bra_ops bases (fst p) ++ snd t ++ ket_ops bases (snd p)) <= fuel)%nat) ->
  exists es, collect fuel terms bases locs = Some es.
Proof.
  induction locs as [|[il ir] rest IH]; intros H; cbn [collect]; [eauto|].
  destruct (accumulate_total fuel (bra_ops bases il) (ket_ops bases ir) terms None) as (e & A).
  { intros t Ht. exact (H (il, ir) t (or_introl eq_refl) Ht). }
  assert (E : entry fuel terms bases il ir = Some e) by exact A. rewrite E.
  destruct IH as (tl_ & C); [intros p t Hp Ht; apply H; [now right | exact Ht]|]. rewrite C. eauto.
Qed.

(* (4) the generated function returns a dict as soon as the fuel covers the grid *)
Theorem gen_elements_total (enc : nat -> list Z) : order_embedding enc ->
  forall (fuel : nat) (terms : list term) (bases : list site_basis),
  grid_fuel fuel terms bases -> exists d, gen_elements fuel (eterms enc terms) (ebases enc bases) = Some d.
Proof.
  intros He fuel terms bases H. rewrite (gen_elements_eq_model enc He). unfold elements.
  destruct (collect_total fuel terms bases (list_prod (cart (map (@length _) bases)) (cart (map (@length _) bases)))) as (es & C).
  - intros [il ir] t Hp Ht. apply in_prod_iff in Hp. apply H; tauto.
  - rewrite C. eauto.
Qed.

(* the dense element build_local_fermionic_dense reads from the dict: an absent key is 0 *)
Definition gen_dense (d : list (list Z * Z)) (il ir : list nat) : Z :=
  dget (list_eqb Z.eqb) 0 d (ekey (il ++ ir)).

(* (5) C18_elements_spec for the generated function: every element of the index grid read from the
   generated dict is the second-quantised matrix element *)
Theorem gen_elements_spec (enc : nat -> list Z) : order_embedding enc ->
  forall (fuel : nat) (terms : list term) (bases : list site_basis) (d : list (list Z * Z)) (il ir : list nat),
  gen_elements fuel (eterms enc terms) (ebases enc bases) = Some d ->
  In il (cart (map (@length _) bases)) -> In ir (cart (map (@length _) bases)) ->
  gen_dense d il ir = ref_element terms bases il ir.
Proof.
  intros He fuel terms bases d il ir Hg Hil Hir. rewrite (gen_elements_eq_model enc He) in Hg.
  destruct (elements fuel terms bases) as [es|] eqn:E; [|discriminate]. inversion Hg; subst d. clear Hg.
  destruct (elements_dict_spec fuel terms bases es E) as [Hsound Hcomplete].
  unfold gen_dense, dget. destruct (lookup (list_eqb Z.eqb) (ekey (il ++ ir)) (map eentry es)) as [v|] eqn:L.
  - apply (lookup_Some_In _ leqZ_eq) in L. apply in_map_iff in L. destruct L as ([k v'] & Ek & Hin).
    unfold eentry in Ek. cbn [fst snd] in Ek. inversion Ek; subst v'. apply ekey_inj in H0. subst k.
    destruct (Hsound _ _ Hin) as (il' & ir' & Hil' & Hir' & Hk & Hv).
    destruct (app_inj_len il il' ir ir') as [-> ->]; [|exact Hk | exact Hv].
    rewrite (cart_length _ _ Hil), (cart_length _ _ Hil'). reflexivity.
  - apply (lookup_None_iff _ leqZ_eq) in L. destruct (Hcomplete il ir Hil Hir) as [(v & Hin & Hv)|Hz]; [|now rewrite Hz].
    exfalso. apply L. rewrite map_map. apply in_map_iff. exists (il ++ ir, v). split; [reflexivity | exact Hin].
Qed.

(* (6) unconditional form *)
Theorem gen_elements_spec_total (enc : nat -> list Z) : order_embedding enc ->
  forall (fuel : nat) (terms : list term) (bases : list site_basis), grid_fuel fuel terms bases ->
  exists d, gen_elements fuel (eterms enc terms) (ebases enc bases) = Some d /\
            forall il ir, In il (cart (map (@length _) bases)) -> In ir (cart (map (@length _) bases)) ->
            gen_dense d il ir = ref_element terms bases il ir.
Proof.
  intros He fuel terms bases H. destruct (gen_elements_total enc He fuel terms bases H) as (d & Hd).
  exists d. split; [exact Hd|]. intros il ir. exact (gen_elements_spec enc He fuel terms bases d il ir Hd).
Qed.

(* ================================================================ examples: the statements are not vacuous *)
Module GenExamples.
  Import LocalOpsProofs.Examples.
  (* the docstring example of build_local_fermionic_elements, through the GENERATED function *)
  Example gen_docstring_ex :
    gen_elements 30 (eterms enc0 hub) (ebases enc0 bases2)
    = Some [([0; 1; 1; 0], -1); ([1; 0; 0; 1], -1); ([1; 1; 1; 1], -8)].
  Proof. vm_compute. reflexivity. Qed.
  (* too little fuel: both sides say so *)
  Example gen_out_of_fuel_ex : gen_elements 1 (eterms enc0 hub) (ebases enc0 bases2) = None /\ elements 1 hub bases2 = None.
  Proof. split; vm_compute; reflexivity. Qed.
  (* n.n on one mode (three hits with alternating daggers) on a partial basis *)
  Example gen_nn_ex :
    gen_elements 40 (eterms enc0 [(2, [ad; a; ad; a])]) (ebases enc0 [[[ad]]]) = Some [([0; 0], 2)].
  Proof. vm_compute. reflexivity. Qed.
  Example grid_fuel_ex : grid_fuel 70 hub bases2.
  Proof.
    intros il ir t Hil Hir Ht. cbn in Hil, Hir, Ht.
    repeat (destruct Hil as [<-|Hil]; [|]); try contradiction;
    repeat (destruct Hir as [<-|Hir]; [|]); try contradiction;
    repeat (destruct Ht as [<-|Ht]; [|]); try contradiction; apply Nat.leb_le; vm_compute; reflexivity.
  Qed.
End GenExamples.
