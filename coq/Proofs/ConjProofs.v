(* Proofs/ConjProofs.v — property C10, algebraic part: conjugation and adjoint
   of fermionic arrays (Model/Fermi.v: f_conj, f_dagger).

   Everything is stated at VALUE level: `f_value x` is the abelian array whose
   blocks already carry the pending signs, `feq x y` says that the two value
   arrays are EQUAL (same index tables, same charge, same sectors in the same
   order, same block data) and that the odd-position labels are equal.

   Contents
     oddpos_dag_involutive, oddpos_dag_rev_map, oddpos_dag_length
     phase_none_eq_reversal   calc_phase_permutation par None = … (Some reversal)   (proved here
                              from the GENERATED definition, for parities in {0,1})
     ph_has_toggle, ph_has_fold, ph_has_flat_map   the pending-sign table as a function sector -> bool
     axes_where, Dc, count_odd_axes, Dc_split, sector_parity   odd charges on bra / ket legs
     ttranspose_rev_rev       transposing a block twice by the reversal is the identity
     awf, wf_array_awf        the consequences of C01's `wf_array` the laws use
     sgn_conj, sgn_dagger, sgn_transpose_rev   the sign each operation puts on a sector
     conj_conj, conj_conj_pd, conj_conj_mixed_*  double conjugation
     dagger_eq_conj_transpose  adjoint = conjugate then fermionic reversal of the axes (both pd)
     dagger_dagger, dagger_dagger_pd             double adjoint
     conj_flips_duals, conj_charge, conj_parity, conj_labels, dagger_* bookkeeping
     conj_value               block of the conjugate = +/- conjugated block
     *_wf, conj_bookkeeping, dagger_bookkeeping   the forms quoted by Props/C10.v
     Examples (section 13): odd Z2 rank-3 and odd U1 rank-2 arrays with pending signs and labels
   Nothing is bounded: all ranks, all index tables, all symmetries with
   GroupLaws, all rings with the listed ring laws (ZRing, GRing have them). *)
From SV Require Import Base.Prelude Base.Sym Base.Tensor Gen.PhasePerm Model.SymInst Model.Sectors
  Model.Array Model.Arith Model.Wf Model.Fermi
  Proofs.TensorProofs Proofs.SymLaws Proofs.GroupFacts Proofs.StructProofs.
From Coq Require Import Permutation.
Local Open Scope nat_scope.

(* ------------------------------------------------------------------ *)
(* 1. odd-position labels *)

Lemma fop_dag_involutive a : fop_dag (fop_dag a) = a.
Proof. destruct a as [l d]. unfold fop_dag. cbn [fst snd]. now rewrite negb_involutive. Qed.

Lemma oddpos_dag_rev_map l : oddpos_dag l = rev (map fop_dag l).
Proof. unfold oddpos_dag. apply map_rev. Qed.

Theorem oddpos_dag_involutive l : oddpos_dag (oddpos_dag l) = l.
Proof.
  unfold oddpos_dag. rewrite <- map_rev, rev_involutive, map_map.
  rewrite (map_ext _ (fun a => a)) by apply fop_dag_involutive. apply map_id.
Qed.

Lemma oddpos_dag_length l : length (oddpos_dag l) = length l.
Proof. unfold oddpos_dag. now rewrite map_length, rev_length. Qed.

(* ------------------------------------------------------------------ *)
(* 2. the generated Koszul sign: perm = None is the sign of the full reversal *)
Section PhaseRev.
  Local Open Scope Z_scope.

  Definition nz (p : Z) : bool := negb (Z.eqb p 0).

  (* the two loops of calc_phase_permutation, named *)
  Definition pp_inner (par moved : list Z) (sw other : Z) : Z :=
    if negb (mem Z.eqb other moved) && nz (nthZ par other) then sw + 1 else sw.
  Definition pp_outer (par : list Z) : Z * list Z -> Z -> Z * list Z :=
    fun '(sw, moved) ax =>
    (if nz (nthZ par ax) then fold_left (pp_inner par moved) (zrange ax) sw else sw, ax :: moved).

  Lemma calc_phase_some par perm :
    calc_phase_permutation par (Some perm) =
    let '(sw, _) := fold_left (pp_outer par) perm (0, []) in if nz (sw mod 2) then -1 else 1.
  Proof. reflexivity. Qed.

  Lemma calc_phase_none par :
    calc_phase_permutation par None = if nz ((zsum par / 2) mod 2) then -1 else 1.
  Proof. reflexivity. Qed.

  (* number of odd entries among the first k, and the number of inversions among them *)
  Fixpoint cntZ (par : list Z) (k : nat) : Z :=
    match k with O => 0 | S k' => cntZ par k' + (if nz (nth k' par 0) then 1 else 0) end.
  Fixpoint invZ (par : list Z) (k : nat) : Z :=
    match k with O => 0 | S k' => invZ par k' + (if nz (nth k' par 0) then cntZ par k' else 0) end.

  Lemma mem_Z_ge x l : (forall m, In m l -> x < m) -> mem Z.eqb x l = false.
  Proof.
    induction l as [|y l IH]; intros H; [reflexivity|]. cbn [mem].
    rewrite IH by (intros m Hm; apply H; now right).
    assert (x < y) by (apply H; now left). destruct (Z.eqb_spec x y); [lia | reflexivity].
  Qed.

  Lemma pp_inner_fold par moved k : forall sw,
    (forall m, In m moved -> Z.of_nat k <= m) ->
    fold_left (pp_inner par moved) (zrange (Z.of_nat k)) sw = sw + cntZ par k.
  Proof.
    unfold zrange. rewrite Nat2Z.id.
    induction k as [|k IH]; intros sw Hm; [cbn; lia|].
    rewrite seq_S, map_app, fold_left_app. cbn [Nat.add map fold_left].
    rewrite IH by (intros m Hin; specialize (Hm m Hin); lia).
    unfold pp_inner at 1. rewrite mem_Z_ge by (intros m Hin; specialize (Hm m Hin); lia).
    unfold nthZ. rewrite Nat2Z.id. cbn [negb andb cntZ].
    destruct (nz (nth k par 0)); lia.
  Qed.

  Lemma pp_outer_fold par k : forall sw moved,
    (forall m, In m moved -> Z.of_nat k <= m) ->
    fst (fold_left (pp_outer par) (map Z.of_nat (rev (seq 0 k))) (sw, moved)) = sw + invZ par k.
  Proof.
    induction k as [|k IH]; intros sw moved Hm; [cbn; lia|].
    rewrite seq_S, rev_app_distr. cbn [Nat.add rev app map fold_left].
    unfold pp_outer at 2. rewrite IH.
    - unfold nthZ. rewrite Nat2Z.id. cbn [invZ]. destruct (nz (nth k par 0)); [|lia].
      rewrite pp_inner_fold by (intros m Hin; specialize (Hm m Hin); lia). lia.
    - intros m [<- | Hin]; [lia | specialize (Hm m Hin); lia].
  Qed.

  Lemma cntZ_zsum par : Forall (fun p => p = 0 \/ p = 1) par -> cntZ par (length par) = zsum par.
  Proof.
    induction par as [|p par IH] using rev_ind; intros H; [reflexivity|].
    apply Forall_app in H. destruct H as [H Hp]. inversion Hp as [|? ? Hp1 _]; subst.
    rewrite app_length, Nat.add_comm. cbn [length Nat.add cntZ].
    rewrite app_nth2, Nat.sub_diag by lia. cbn [nth].
    rewrite zsum_app, zsum_cons. cbn [zsum fold_right].
    assert (E : forall k, (k <= length par)%nat -> cntZ (par ++ [p]) k = cntZ par k).
    { induction k as [|k IHk]; intros Hk; [reflexivity|]. cbn [cntZ].
      rewrite IHk by lia. now rewrite app_nth1 by lia. }
    rewrite E, IH by (auto; lia). unfold nz. destruct Hp1 as [-> | ->]; cbn; lia.
  Qed.

  Lemma invZ_parity par k : (invZ par k) mod 2 = (cntZ par k / 2) mod 2.
  Proof.
    induction k as [|k IH]; [reflexivity|]. cbn [invZ cntZ].
    destruct (nz (nth k par 0)).
    - revert IH. generalize (invZ par k) (cntZ par k). intros a b IH.
      Z.to_euclidean_division_equations. lia.
    - now rewrite !Z.add_0_r.
  Qed.

  Theorem phase_none_eq_reversal par :
    Forall (fun p => p = 0 \/ p = 1) par ->
    calc_phase_permutation par None =
    calc_phase_permutation par (Some (rev (zrange (Z.of_nat (length par))))).
  Proof.
    intros H. rewrite calc_phase_none, calc_phase_some.
    unfold zrange. rewrite Nat2Z.id, <- map_rev.
    pose proof (pp_outer_fold par (length par) 0 [] (fun m (F : In m []) => match F with end)) as Hf.
    destruct (fold_left (pp_outer par) (map Z.of_nat (rev (seq 0 (length par)))) (0, [])) as [sw mv].
    cbn [fst] in Hf. rewrite Hf, Z.add_0_l, invZ_parity, cntZ_zsum by exact H. reflexivity.
  Qed.
End PhaseRev.

(* ------------------------------------------------------------------ *)
(* 3. generic list / boolean facts *)

Lemma odd_length_filter {A} (f : A -> bool) l : Nat.odd (length (filter f l)) = xorb_list (map f l).
Proof.
  induction l as [|a l IH]; [reflexivity|]. cbn [filter map xorb_list fold_right]. fold (xorb_list (map f l)).
  destruct (f a); cbn [length]; [rewrite Nat.odd_succ, <- Nat.negb_odd, IH; now destruct (xorb_list (map f l)) | now rewrite xorb_false_l].
Qed.

Lemma xorb_list_app l1 l2 : xorb_list (l1 ++ l2) = xorb (xorb_list l1) (xorb_list l2).
Proof.
  unfold xorb_list. induction l1 as [|a l1 IH]; cbn [app fold_right]; [now rewrite xorb_false_l|].
  rewrite IH. now rewrite xorb_assoc.
Qed.

Lemma xorb_list_rev l : xorb_list (rev l) = xorb_list l.
Proof.
  induction l as [|a l IH]; [reflexivity|]. cbn [rev]. rewrite xorb_list_app, IH.
  cbn [xorb_list fold_right]. fold (xorb_list l). rewrite xorb_false_r. apply xorb_comm.
Qed.

Lemma combine_snoc2 {A B} (l1 : list A) (l2 : list B) a b :
  length l1 = length l2 -> List.combine (l1 ++ [a]) (l2 ++ [b]) = List.combine l1 l2 ++ [(a, b)].
Proof.
  revert l2. induction l1 as [|x l1 IH]; intros [|y l2] H; cbn [length] in H; try discriminate; [reflexivity|].
  cbn [app List.combine]. rewrite IH by lia. reflexivity.
Qed.

Lemma combine_rev {A B} (l1 : list A) (l2 : list B) :
  length l1 = length l2 -> List.combine (rev l1) (rev l2) = rev (List.combine l1 l2).
Proof.
  revert l2. induction l1 as [|a l1 IH]; intros [|b l2] H; cbn [length] in H; try discriminate; [reflexivity|].
  cbn [rev List.combine]. rewrite <- IH by lia.
  apply combine_snoc2. rewrite !rev_length; lia.
Qed.

Lemma flat_map_ext_in {A B} (f g : A -> list B) l :
  (forall a, In a l -> f a = g a) -> flat_map f l = flat_map g l.
Proof.
  induction l as [|a l IH]; intros H; [reflexivity|]. cbn [flat_map].
  rewrite (H a) by now left. rewrite IH; [reflexivity|]. intros b Hb. apply H. now right.
Qed.

Lemma NoDup_map_inj {A B} (f : A -> B) l :
  (forall a b, f a = f b -> a = b) -> NoDup l -> NoDup (map f l).
Proof.
  intros Hf. induction 1 as [|a l Hn _ IH]; cbn [map]; constructor; [|exact IH].
  intros Hin. apply in_map_iff in Hin. destruct Hin as [b [Hb Hin]]. apply Hf in Hb. now subst.
Qed.

Lemma rev_inj {A} (a b : list A) : rev a = rev b -> a = b.
Proof. intros H. rewrite <- (rev_involutive a), H. apply rev_involutive. Qed.

(* ------------------------------------------------------------------ *)
(* 4. the pending-sign table as a function on sectors *)
Section SignTable.
  Context (G : Symmetry) (HG : GroupLaws G).
  Notation keq := (list_eqb (ceqb G)).
  Notation sector := (list (C G)).

  Lemma keq_refl (s : sector) : keq s s = true.
  Proof. now apply (keq_eq G HG). Qed.

  Lemma keq_sym (s t : sector) : keq s t = keq t s.
  Proof. apply bool_eq_iff. rewrite !(keq_eq G HG). split; congruence. Qed.

  Lemma mem_keq_In (s : sector) l : mem keq s l = true <-> In s l.
  Proof.
    induction l as [|t l IH]; cbn [mem In]; [split; [discriminate | tauto]|].
    rewrite orb_true_iff, IH, (keq_eq G HG). split; intros [H | H]; auto.
  Qed.

  Lemma mem_keq_app (s : sector) l1 l2 : mem keq s (l1 ++ l2) = mem keq s l1 || mem keq s l2.
  Proof. induction l1 as [|t l1 IH]; cbn [app mem]; [reflexivity | now rewrite IH, orb_assoc]. Qed.

  Lemma mem_keq_filter_ne (s t : sector) l :
    mem keq s (filter (fun u => negb (keq t u)) l) = mem keq s l && negb (keq t s).
  Proof.
    induction l as [|u l IH]; [reflexivity|]. cbn [filter mem].
    destruct (keq t u) eqn:Etu; cbn [negb mem]; rewrite IH.
    - apply (keq_eq G HG) in Etu. subst u. destruct (keq s t) eqn:Est.
      + rewrite keq_sym, Est. cbn. now rewrite andb_false_r.
      + reflexivity.
    - destruct (keq s u) eqn:Esu; [|reflexivity].
      apply (keq_eq G HG) in Esu. subst u. rewrite Etu. cbn. now destruct (mem keq s l).
  Qed.

  Theorem ph_has_toggle (s t : sector) ph :
    ph_has G s (ph_toggle G ph t) = xorb (ph_has G s ph) (keq s t).
  Proof.
    unfold ph_toggle. destruct (ph_has G t ph) eqn:Et; unfold ph_has, ph_del in *.
    - rewrite mem_keq_filter_ne, (keq_sym t s). destruct (keq s t) eqn:Est; cbn [negb].
      + apply (keq_eq G HG) in Est. subst t. rewrite Et. reflexivity.
      + now rewrite andb_true_r, xorb_false_r.
    - rewrite mem_keq_app. cbn [mem]. rewrite orb_false_r. destruct (keq s t) eqn:Est.
      + apply (keq_eq G HG) in Est. subst t. rewrite Et. reflexivity.
      + now rewrite orb_false_r, xorb_false_r.
  Qed.

  (* toggling the selected sectors of a duplicate-free sector list *)
  Theorem ph_has_fold (c : sector -> bool) (s : sector) secs : NoDup secs -> forall ph,
    ph_has G s (fold_left (fun ph t => if c t then ph_toggle G ph t else ph) secs ph)
    = xorb (ph_has G s ph) (mem keq s secs && c s).
  Proof.
    induction 1 as [|t secs Hn _ IH]; intros ph; cbn [fold_left mem]; [now rewrite xorb_false_r|].
    rewrite IH. destruct (keq s t) eqn:Est.
    - apply (keq_eq G HG) in Est. subst t.
      assert (Hm : mem keq s secs = false).
      { destruct (mem keq s secs) eqn:E; [|reflexivity]. apply mem_keq_In in E. contradiction. }
      rewrite Hm. cbn [orb andb]. rewrite xorb_false_r.
      destruct (c s); [|now rewrite xorb_false_r]. now rewrite ph_has_toggle, keq_refl.
    - cbn [orb]. destruct (c t); [|reflexivity]. now rewrite ph_has_toggle, Est, xorb_false_r.
  Qed.

  Lemma ph_has_fold_in (c : sector -> bool) (s : sector) secs ph : NoDup secs -> In s secs ->
    ph_has G s (fold_left (fun ph t => if c t then ph_toggle G ph t else ph) secs ph)
    = xorb (ph_has G s ph) (c s).
  Proof.
    intros Hn Hin. rewrite ph_has_fold by exact Hn.
    apply mem_keq_In in Hin. now rewrite Hin.
  Qed.

  Lemma ph_has_global (s : sector) secs ph : NoDup secs -> In s secs ->
    ph_has G s (fold_left (ph_toggle G) secs ph) = negb (ph_has G s ph).
  Proof.
    intros Hn Hin.
    change (fold_left (ph_toggle G) secs ph)
      with (fold_left (fun ph t => if (fun _ : sector => true) t then ph_toggle G ph t else ph) secs ph).
    rewrite ph_has_fold_in by assumption. apply xorb_true_r.
  Qed.

  (* the sector list pushed through an injective relabelling *)
  Lemma ph_has_flat_map (f : sector -> sector) (c : sector -> bool) (s : sector) secs :
    (forall a b, f a = f b -> a = b) ->
    ph_has G (f s) (flat_map (fun t => if c t then [f t] else []) secs) = mem keq s secs && c s.
  Proof.
    intros Hf. unfold ph_has. induction secs as [|t secs IH]; [reflexivity|].
    cbn [flat_map mem]. rewrite mem_keq_app, IH.
    destruct (keq s t) eqn:Est.
    - apply (keq_eq G HG) in Est. subst t. cbn [orb andb].
      destruct (c s); cbn [mem]; [now rewrite keq_refl | now rewrite andb_false_r].
    - cbn [orb]. destruct (c t); cbn [mem]; [|reflexivity].
      assert (E : keq (f s) (f t) = false).
      { destruct (keq (f s) (f t)) eqn:E; [|reflexivity].
        apply (keq_eq G HG) in E. apply Hf in E. subst t. now rewrite keq_refl in Est. }
      now rewrite E.
  Qed.
End SignTable.

(* ------------------------------------------------------------------ *)
(* 5. counting odd charges on selected axes *)
Section AxesCount.
  Context (G : Symmetry) (HG : GroupLaws G).
  Notation sector := (list (C G)).
  Notation e := (ident G).

  (* the axes whose index satisfies d (the lists f_conj / f_dagger build) *)
  Definition axes_where (d : index G -> bool) (ixs : list (index G)) : list nat :=
    map fst (filter (fun p => d (snd p)) (enumerate ixs)).
  (* canonical form of count_odd on such a list *)
  Definition Dc (d : index G -> bool) (ixs : list (index G)) (s : sector) : bool :=
    xorb_list (map (fun q => d (fst q) && parity G (snd q)) (List.combine ixs s)).

  Lemma count_odd_axes_gen d ixs : forall k (s1 s2 : sector),
    length s1 = k -> length s2 = length ixs ->
    count_odd G (s1 ++ s2) (map fst (filter (fun p => d (snd p)) (List.combine (seq k (length ixs)) ixs)))
    = Dc d ixs s2.
  Proof.
    unfold count_odd, Dc. induction ixs as [|ix ixs IH]; intros k s1 [|c s2] H1 H2; cbn [length] in H2; try discriminate.
    - reflexivity.
    - rewrite odd_length_filter.
      assert (E : s1 ++ c :: s2 = (s1 ++ [c]) ++ s2) by (now rewrite <- app_assoc).
      specialize (IH (S k) (s1 ++ [c]) s2). rewrite <- E, odd_length_filter in IH.
      cbn [length seq List.combine filter snd map fst].
      change (xorb_list ((d ix && parity G c) :: ?l)) with (xorb (d ix && parity G c) (xorb_list l)).
      rewrite <- IH by (rewrite ?app_length; cbn [length]; lia).
      destruct (d ix); cbn [andb map fst].
      + change (xorb_list (?a :: ?l)) with (xorb a (xorb_list l)). f_equal.
        unfold odd_at. rewrite app_nth2 by lia. now rewrite H1, Nat.sub_diag.
      + now rewrite xorb_false_l.
  Qed.

  Lemma count_odd_axes d ixs (s : sector) : length s = length ixs ->
    count_odd G s (axes_where d ixs) = Dc d ixs s.
  Proof. intros H. apply (count_odd_axes_gen d ixs 0 [] s); [reflexivity | exact H]. Qed.

  Lemma Dc_map d (f : index G -> index G) ixs : forall s : sector,
    Dc d (map f ixs) s = Dc (fun ix => d (f ix)) ixs s.
  Proof.
    unfold Dc. induction ixs as [|ix ixs IH]; intros [|c s]; cbn [map List.combine]; try reflexivity.
    cbn [xorb_list fold_right fst snd]. f_equal. apply IH.
  Qed.

  Lemma Dc_ext d d' ixs (s : sector) : (forall ix, d ix = d' ix) -> Dc d ixs s = Dc d' ixs s.
  Proof. intros H. unfold Dc. f_equal. apply map_ext. intros q. now rewrite H. Qed.

  Lemma Dc_iconj_dual ixs (s : sector) :
    Dc (idual G) (map (iconj G) ixs) s = Dc (fun ix => negb (idual G ix)) ixs s.
  Proof. rewrite Dc_map. apply Dc_ext. apply iconj_dual. Qed.

  Lemma Dc_iconj_nondual ixs (s : sector) :
    Dc (fun ix => negb (idual G ix)) (map (iconj G) ixs) s = Dc (idual G) ixs s.
  Proof. rewrite Dc_map. apply Dc_ext. intros ix. now rewrite iconj_dual, negb_involutive. Qed.

  Lemma Dc_split ixs : forall s : sector, length s = length ixs ->
    xorb (Dc (idual G) ixs s) (Dc (fun ix => negb (idual G ix)) ixs s) = xorb_list (map (parity G) s).
  Proof.
    unfold Dc. induction ixs as [|ix ixs IH]; intros [|c s] H; cbn [length] in H; try discriminate; [reflexivity|].
    cbn [List.combine map xorb_list fold_right fst snd].
    fold (xorb_list (map (parity G) s)). rewrite <- IH by lia. unfold xorb_list.
    destruct (idual G ix), (parity G c); cbn [negb andb];
      repeat match goal with |- context [fold_right xorb false ?l] => generalize (fold_right xorb false l); intro end;
      repeat match goal with b : bool |- _ => destruct b end; reflexivity.
  Qed.

  Lemma Dc_rev d ixs (s : sector) : length s = length ixs -> Dc d (rev ixs) (rev s) = Dc d ixs s.
  Proof. intros H. unfold Dc. rewrite combine_rev by lia. now rewrite map_rev, xorb_list_rev. Qed.

  Lemma axes_where_iconj_gen d ixs : forall k,
    map fst (filter (fun p => d (snd p)) (List.combine (seq k (length (map (iconj G) ixs))) (map (iconj G) ixs)))
    = map fst (filter (fun p => d (iconj G (snd p))) (List.combine (seq k (length ixs)) ixs)).
  Proof.
    induction ixs as [|ix ixs IH]; intros k; [reflexivity|].
    cbn [map length seq List.combine filter snd]. destruct (d (iconj G ix)); cbn [map fst]; now rewrite IH.
  Qed.

  Lemma axes_where_iconj ixs :
    axes_where (idual G) (map (iconj G) ixs) = axes_where (fun ix => negb (idual G ix)) ixs.
  Proof.
    unfold axes_where, enumerate. rewrite axes_where_iconj_gen. f_equal. apply filter_ext.
    intros p. apply iconj_dual.
  Qed.

  (* total parity of a charge-conserving sector *)
  Lemma map_fst_combine {A B} (l1 : list A) (l2 : list B) : length l1 <= length l2 -> map fst (List.combine l1 l2) = l1.
  Proof.
    revert l2. induction l1 as [|a l1 IH]; intros [|b l2] H; cbn [length] in H; try lia; try reflexivity.
    cbn [List.combine map fst]. f_equal. apply IH. lia.
  Qed.

  Lemma sector_parity duals q (s : sector) :
    length s = length duals -> Forall (fun c => valid G c = true) s ->
    is_valid_sector G duals q s = true -> xorb_list (map (parity G) s) = parity G q.
  Proof.
    intros Hl Hv H. unfold is_valid_sector in H. apply (ceqb_eq G HG) in H. subst q.
    assert (Hva : valid_all G (map fst (List.combine s duals)) = true).
    { rewrite map_fst_combine by lia. now apply (valid_all_forall G HG). }
    unfold signed_sector. rewrite (parity_combine G HG) by now apply (valid_all_map_sign2 G HG).
    rewrite map_map. rewrite <- (map_fst_combine s duals) at 1 by lia. rewrite map_map.
    f_equal. apply map_ext_in. intros [c d] Hin. cbn [fst snd]. symmetry. apply (parity_sign G HG).
    apply in_combine_l in Hin. rewrite Forall_forall in Hv. now apply Hv.
  Qed.
End AxesCount.

(* ------------------------------------------------------------------ *)
(* 6. tensors: conjugation and the reversal transposition *)
Section TensorRev.
  Context (R : Ring).

  Lemma tconj_tconj (Hcc : forall a, rconj R (rconj R a) = a) t : tconj R (tconj R t) = t.
  Proof.
    destruct t as [sh d]. unfold tconj, tmap. cbn [tshape tdata]. f_equal.
    rewrite map_map. rewrite (map_ext _ (fun a => a)) by exact Hcc. apply map_id.
  Qed.

  Lemma tneg_tneg (Hnn : forall a, rneg R (rneg R a) = a) t : tneg R (tneg R t) = t.
  Proof.
    destruct t as [sh d]. unfold tneg, tmap. cbn [tshape tdata]. f_equal.
    rewrite map_map. rewrite (map_ext _ (fun a => a)) by exact Hnn. apply map_id.
  Qed.

  Lemma tconj_tneg (Hcn : forall a, rconj R (rneg R a) = rneg R (rconj R a)) t :
    tconj R (tneg R t) = tneg R (tconj R t).
  Proof.
    unfold tconj, tneg, tmap. cbn [tshape tdata]. f_equal. rewrite !map_map. apply map_ext. exact Hcn.
  Qed.

  Lemma ttranspose_tmap f t p : f (r0 R) = r0 R -> ttranspose R (tmap R f t) p = tmap R f (ttranspose R t p).
  Proof.
    intros Hf. unfold ttranspose, build.
    change (tshape (tmap R f t)) with (tshape t). unfold tmap at 2. cbn [tshape tdata]. f_equal.
    rewrite map_map. apply map_ext. intros idx. now apply get_tmap.
  Qed.

  Lemma in_all_idx_inb sh : forall idx, In idx (all_idx sh) -> inb sh idx = true.
  Proof.
    induction sh as [|d sh IH]; intros idx H; cbn [all_idx] in H.
    - destruct H as [<- | []]. reflexivity.
    - apply in_flat_map in H. destruct H as [i [Hi H]]. apply in_map_iff in H. destruct H as [idx' [<- H]].
      cbn [inb]. apply in_seq in Hi. apply andb_true_iff. split; [apply Nat.ltb_lt; lia | now apply IH].
  Qed.

  Lemma unpermute_rev idx : unpermute (rev_axes (length idx)) idx = rev idx.
  Proof.
    unfold rev_axes.
    assert (E : permuted 0 (rev idx) (rev (seq 0 (length idx))) = idx).
    { rewrite <- (rev_length idx). rewrite permuted_rev_seq. apply rev_involutive. }
    pose proof (unpermute_permuted (rev (seq 0 (length idx))) (rev idx)) as H. rewrite E in H.
    apply H. rewrite rev_length. apply Permutation_sym, Permutation_rev.
  Qed.

  Lemma ttranspose_rev_rev t : length (tdata t) = shape_size (tshape t) ->
    ttranspose R (ttranspose R t (rev_axes (length (tshape t)))) (rev_axes (length (tshape t))) = t.
  Proof.
    intros Hl. destruct t as [sh d]. cbn [tshape tdata] in *.
    assert (Esh : permuted 0 (permuted 0 sh (rev_axes (length sh))) (rev_axes (length sh)) = sh).
    { unfold rev_axes. rewrite permuted_rev_seq.
      rewrite <- (rev_length sh) at 1. rewrite permuted_rev_seq. apply rev_involutive. }
    unfold ttranspose at 1. unfold build. cbn [tshape ttranspose build]. rewrite Esh. f_equal.
    transitivity (map (get R (mkT sh d)) (all_idx sh)); [|exact (map_get_all_idx R (mkT sh d) Hl)].
      apply map_ext_in. intros idx Hin.
      pose proof (in_all_idx_inb _ _ Hin) as Hinb.
      pose proof (all_idx_length _ _ Hin) as Hlen.
      rewrite <- Hlen, unpermute_rev.
      rewrite <- (permuted_rev_seq 0 idx). rewrite Hlen.
      change (rev (seq 0 (length sh))) with (rev_axes (length (tshape (mkT sh d)))).
      apply get_ttranspose; [|exact Hinb].
      cbn [tshape]. apply Permutation_sym, Permutation_rev.
  Qed.
End TensorRev.

(* ------------------------------------------------------------------ *)
(* 7. fermionic arrays: value-level equality, well-formedness facts used *)
Section Conj.
  Context (G : Symmetry) (HG : GroupLaws G) (R : Ring).
  Notation keq := (list_eqb (ceqb G)).
  Notation sector := (list (C G)).
  Notation arr := (aarray G R).
  Notation fa := (farray G R).
  Notation e := (ident G).
  Notation V c := (valid G c = true).

  (* the pending sign of sector s *)
  Definition sgn (x : fa) (s : sector) : bool := ph_has G s (fphases G R x).
  (* the odd global sign both operations add: odd array with an odd number of labels *)
  Definition glob_flag (x : fa) : bool := fparity G R x && Nat.odd (length (foddpos G R x)).
  (* the block stored for sector s, pending sign applied *)
  Definition value (x : fa) (s : sector) : option (tensor R) := lookup keq s (blocks G R (f_value G R x)).

  (* observable equality, and equality up to a global sign *)
  Definition feq (x y : fa) : Prop :=
    f_value G R x = f_value G R y /\ foddpos G R x = foddpos G R y.
  Definition feq_sign (minus : bool) (x y : fa) : Prop :=
    f_value G R x = (if minus then a_neg G R (f_value G R y) else f_value G R y) /\
    foddpos G R x = foddpos G R y.

  Lemma feq_value x y : feq x y -> forall s, value x s = value y s.
  Proof. intros [H _] s. unfold value. now rewrite H. Qed.

  Lemma feq_sign_value minus x y : feq_sign minus x y ->
    forall s, value x s = option_map (fun t => if minus then tneg R t else t) (value y s).
  Proof.
    intros [H _] s. unfold value. rewrite H. destruct minus.
    - unfold a_neg, with_blocks. cbn [blocks]. unfold dict_map. apply (lookup_map_val keq).
    - now destruct (lookup keq s (blocks G R (f_value G R y))).
  Qed.

  Lemma f_value_eq x :
    f_value G R x = mkA G R (indices G R (fbase G R x)) (charge G R (fbase G R x))
      (map (fun sb => if sgn x (fst sb) then (fst sb, tneg R (snd sb)) else sb) (blocks G R (fbase G R x))).
  Proof. reflexivity. Qed.

  (* two arrays over the same base whose sign tables agree up to a global sign *)
  Lemma f_value_ext (Hnn : forall a, rneg R (rneg R a) = a) (minus : bool) x y :
    fbase G R x = fbase G R y ->
    (forall s, In s (fsectors G R x) -> sgn x s = xorb (sgn y s) minus) ->
    f_value G R x = (if minus then a_neg G R (f_value G R y) else f_value G R y).
  Proof.
    intros Hb Hs. rewrite !f_value_eq. unfold fsectors, sectors in Hs. rewrite Hb in *.
    destruct minus.
    - unfold a_neg, with_blocks, dict_map. cbn [indices charge blocks]. f_equal.
      rewrite map_map. apply map_ext_in. intros [s t] Hin. cbn [fst snd].
      rewrite (Hs s) by (apply in_map_iff; exists (s, t); split; [reflexivity | exact Hin]).
      destruct (sgn y s); cbn [xorb negb fst snd]; [now rewrite (tneg_tneg R Hnn) | reflexivity].
    - f_equal. apply map_ext_in. intros [s t] Hin. cbn [fst snd].
      rewrite (Hs s) by (apply in_map_iff; exists (s, t); split; [reflexivity | exact Hin]).
      now rewrite xorb_false_r.
  Qed.

  Lemma f_value_ext0 x y :
    fbase G R x = fbase G R y ->
    (forall s, In s (fsectors G R x) -> sgn x s = sgn y s) ->
    f_value G R x = f_value G R y.
  Proof.
    intros Hb Hs. rewrite !f_value_eq. unfold fsectors, sectors in Hs. rewrite Hb in *.
    f_equal. apply map_ext_in. intros [s t] Hin. cbn [fst snd].
    now rewrite (Hs s) by (apply in_map_iff; exists (s, t); split; [reflexivity | exact Hin]).
  Qed.

  (* what the theorems use of C01's validity predicate *)
  Record awf (b : arr) : Prop := {
    awf_charge : V (charge G R b);
    awf_nodup : NoDup (sectors G R b);
    awf_len : forall s, In s (sectors G R b) -> length s = ndim G R b;
    awf_valid : forall s, In s (sectors G R b) -> Forall (fun c => V c) s;
    awf_cons : forall s, In s (sectors G R b) -> xorb_list (map (parity G) s) = parity G (charge G R b);
    awf_blocks : forall s t, In (s, t) (blocks G R b) ->
                   length (tshape t) = ndim G R b /\ length (tdata t) = shape_size (tshape t)
  }.

  Lemma in_combine_r_ex {A B} (l1 : list A) (l2 : list B) b :
    length l1 = length l2 -> In b l2 -> exists a, In (a, b) (List.combine l1 l2).
  Proof.
    revert l2. induction l1 as [|a l1 IH]; intros [|b' l2] H Hin; cbn [length] in H; try discriminate; [destruct Hin|].
    destruct Hin as [-> | Hin]; [exists a; now left|].
    destruct (IH l2 ltac:(lia) Hin) as [a' Ha]. exists a'. now right.
  Qed.

  Lemma wf_index_valid ix c : wf_index G ix = true -> In c (icharges G ix) -> V c.
  Proof.
    destruct ix as [cm d sub]. cbn [wf_index]. intros H Hin.
    apply andb_true_iff in H. destruct H as [H _]. unfold cm_ok in H.
    apply andb_true_iff in H. destruct H as [_ H]. rewrite forallb_forall in H.
    unfold icharges in Hin. cbn [chargemap] in Hin. apply in_map_iff in Hin. destruct Hin as [p [<- Hp]].
    specialize (H p Hp). apply andb_true_iff in H. tauto.
  Qed.

  Theorem wf_array_awf b : wf_array G R b = true -> awf b.
  Proof.
    unfold wf_array. intros H. repeat (apply andb_true_iff in H; destruct H as [H ?]).
    rename H into Hix, H2 into Hq, H1 into Hnd, H0 into Hb.
    rewrite forallb_forall in Hix, Hb.
    assert (Hsec : forall s, In s (sectors G R b) -> sector_ok G (indices G R b) (charge G R b) s = true).
    { intros s Hin. unfold sectors in Hin. apply in_map_iff in Hin. destruct Hin as [[s' t] [<- Hin]].
      specialize (Hb _ Hin). cbn [fst snd] in Hb.
      apply andb_true_iff in Hb. destruct Hb as [Hb _]. apply andb_true_iff in Hb. destruct Hb as [Hb _]. exact Hb. }
    assert (Hlen : forall s, In s (sectors G R b) -> length s = ndim G R b).
    { intros s Hin. specialize (Hsec s Hin). unfold sector_ok in Hsec.
      repeat (apply andb_true_iff in Hsec; destruct Hsec as [Hsec ?]). now apply Nat.eqb_eq in Hsec. }
    assert (Hval : forall s, In s (sectors G R b) -> Forall (fun c => V c) s).
    { intros s Hin. pose proof (Hlen s Hin) as Hl. specialize (Hsec s Hin). unfold sector_ok in Hsec.
      repeat (apply andb_true_iff in Hsec; destruct Hsec as [Hsec ?]).
      rewrite forallb_forall in H0. apply Forall_forall. intros c Hc.
      destruct (in_combine_r_ex (indices G R b) s c ltac:(unfold ndim in Hl; lia) Hc) as [ix Hix'].
      specialize (H0 _ Hix'). cbn [fst snd] in H0. apply (mem_ceqb_In G HG) in H0.
      apply (wf_index_valid ix); [|exact H0]. apply Hix. now apply in_combine_l in Hix'. }
    constructor.
    - exact Hq.
    - apply (nodupb_NoDup keq (keq_eq G HG)). exact Hnd.
    - exact Hlen.
    - exact Hval.
    - intros s Hin. pose proof (Hlen s Hin) as Hl. pose proof (Hval s Hin) as Hv. specialize (Hsec s Hin).
      unfold sector_ok in Hsec. repeat (apply andb_true_iff in Hsec; destruct Hsec as [Hsec ?]).
      apply (sector_parity G HG (map (idual G) (indices G R b))); [rewrite map_length; exact Hl | exact Hv | exact H].
    - intros s t Hin. specialize (Hb _ Hin). cbn [fst snd] in Hb.
      apply andb_true_iff in Hb. destruct Hb as [Hb H]. apply andb_true_iff in Hb. destruct Hb as [_ H0].
      apply (list_eqb_eq _ nat_eqb_iff) in H0. apply Nat.eqb_eq in H. split; [|exact H].
      rewrite H0. apply block_shape_length. apply Hlen. unfold sectors. apply in_map_iff. now exists (s, t).
  Qed.

  (* ---------------------------------------------------------------- *)
  (* 8. conjugation *)
  Notation dual_axes b := (axes_where G (idual G) (indices G R b)).
  Notation nondual_axes b := (axes_where G (fun ix => negb (idual G ix)) (indices G R b)).

  Lemma fbase_conj x pp pd : fbase G R (f_conj G R x pp pd) = a_conj G R (fbase G R x).
  Proof. unfold f_conj. match goal with |- context [if ?c then _ else _] => destruct c end; reflexivity. Qed.

  Theorem conj_labels x pp pd : foddpos G R (f_conj G R x pp pd) = rev (map fop_dag (foddpos G R x)).
  Proof.
    rewrite <- oddpos_dag_rev_map.
    unfold f_conj. match goal with |- context [if ?c then _ else _] => destruct c end; reflexivity.
  Qed.

  Lemma foddpos_conj x pp pd : foddpos G R (f_conj G R x pp pd) = oddpos_dag (foddpos G R x).
  Proof. rewrite conj_labels. symmetry. apply oddpos_dag_rev_map. Qed.

  Theorem conj_flips_duals x pp pd :
    duals G R (fbase G R (f_conj G R x pp pd)) = map negb (duals G R (fbase G R x)).
  Proof.
    rewrite fbase_conj. unfold duals, a_conj. cbn [indices]. rewrite !map_map. apply map_ext. apply iconj_dual.
  Qed.

  Theorem conj_indices x pp pd :
    indices G R (fbase G R (f_conj G R x pp pd)) = map (iconj G) (indices G R (fbase G R x)).
  Proof. now rewrite fbase_conj. Qed.

  Theorem conj_charge x pp pd :
    charge G R (fbase G R (f_conj G R x pp pd)) = gneg G (charge G R (fbase G R x)).
  Proof. now rewrite fbase_conj. Qed.

  Theorem conj_parity x pp pd : V (charge G R (fbase G R x)) ->
    fparity G R (f_conj G R x pp pd) = fparity G R x.
  Proof. intros Hv. unfold fparity. rewrite fbase_conj. cbn [a_conj charge]. now apply (parity_sign G HG). Qed.

  Lemma sectors_conj b : sectors G R (a_conj G R b) = sectors G R b.
  Proof. unfold sectors, a_conj. cbn [blocks]. rewrite map_map. reflexivity. Qed.

  Lemma fsectors_conj x pp pd : fsectors G R (f_conj G R x pp pd) = fsectors G R x.
  Proof. unfold fsectors. rewrite fbase_conj. apply sectors_conj. Qed.

  Lemma glob_flag_conj x pp pd : V (charge G R (fbase G R x)) -> glob_flag (f_conj G R x pp pd) = glob_flag x.
  Proof. intros Hv. unfold glob_flag. now rewrite conj_parity, foddpos_conj, oddpos_dag_length. Qed.

  (* the sign conj puts on a stored sector *)
  Theorem sgn_conj x pp pd s :
    V (charge G R (fbase G R x)) -> NoDup (fsectors G R x) -> In s (fsectors G R x) ->
    sgn (f_conj G R x pp pd) s =
    xorb (xorb (sgn x s) (xorb (pp && perm_minus G s None) (pd && count_odd G s (dual_axes (fbase G R x)))))
         (pp && glob_flag x).
  Proof.
    intros Hv Hn Hin. unfold sgn, f_conj.
    set (ph := fold_left _ (fsectors G R x) (fphases G R x)).
    set (y := mkF G R (a_conj G R (fbase G R x)) ph (oddpos_dag (foddpos G R x))).
    assert (Hy : fparity G R y && Nat.odd (length (foddpos G R y)) = glob_flag x).
    { unfold glob_flag, fparity, y. cbn [fbase foddpos a_conj charge].
      now rewrite oddpos_dag_length, (parity_sign G HG). }
    assert (Hs : ph_has G s ph =
                 xorb (sgn x s) (xorb (pp && perm_minus G s None) (pd && count_odd G s (dual_axes (fbase G R x))))).
    { unfold ph, sgn.
      apply (ph_has_fold_in G HG
               (fun s => xorb (pp && perm_minus G s None) (pd && count_odd G s (dual_axes (fbase G R x)))));
        assumption. }
    rewrite <- andb_assoc, Hy. destruct (pp && glob_flag x).
    - unfold f_phase_global, with_phases. cbn [fphases].
      assert (Hsec : fsectors G R y = fsectors G R x) by (unfold fsectors, y; cbn [fbase]; apply sectors_conj).
      rewrite Hsec, (ph_has_global G HG) by assumption.
      change (fphases G R y) with ph. rewrite Hs. now rewrite xorb_true_r.
    - change (fphases G R y) with ph. rewrite Hs. now rewrite xorb_false_r.
  Qed.

  Lemma sgn_phase_flip x axs s : NoDup (fsectors G R x) -> In s (fsectors G R x) ->
    sgn (f_phase_flip G R x axs) s = xorb (sgn x s) (count_odd G s axs).
  Proof.
    intros Hn Hin. unfold f_phase_flip. destruct axs as [|a axs]; cbn [is_nil].
    - unfold count_odd. cbn [filter length Nat.odd]. now rewrite xorb_false_r.
    - unfold sgn, with_phases. cbn [fphases].
      apply (ph_has_fold_in G HG (fun s => count_odd G s (a :: axs))); assumption.
  Qed.

  Lemma a_conj_invol (Hcc : forall a, rconj R (rconj R a) = a) b :
    V (charge G R b) -> a_conj G R (a_conj G R b) = b.
  Proof.
    intros Hv. destruct b as [ixs q bl]. unfold a_conj. cbn [indices charge blocks] in *. f_equal.
    - rewrite map_map. rewrite (map_ext _ (fun ix => ix)) by apply iconj_invol. apply map_id.
    - apply (gneg_involutive G HG). exact Hv.
    - rewrite map_map. rewrite (map_ext _ (fun sb => sb)); [apply map_id|].
      intros [s t]. cbn [fst snd]. now rewrite (tconj_tconj R Hcc).
  Qed.

  Section ConjLaws.
    Context (Hcc : forall a, rconj R (rconj R a) = a) (Hnn : forall a, rneg R (rneg R a) = a).

    (* double conjugation with independent dual-leg options: the two dual-leg signs remain *)
    Lemma sgn_conj_conj x pp pd1 pd2 s :
      V (charge G R (fbase G R x)) -> NoDup (fsectors G R x) -> In s (fsectors G R x) ->
      sgn (f_conj G R (f_conj G R x pp pd1) pp pd2) s =
      xorb (sgn x s) (xorb (pd1 && count_odd G s (dual_axes (fbase G R x)))
                           (pd2 && count_odd G s (nondual_axes (fbase G R x)))).
    Proof.
      intros Hv Hn Hin.
      rewrite sgn_conj; rewrite ?fsectors_conj, ?fbase_conj; try assumption.
      2: { cbn [a_conj charge]. apply (gneg_valid G HG). exact Hv. }
      rewrite sgn_conj by assumption.
      rewrite <- (fbase_conj x pp pd1), glob_flag_conj by exact Hv. rewrite fbase_conj.
      cbn [a_conj indices]. rewrite axes_where_iconj.
      destruct (sgn x s), pp, pd1, pd2, (perm_minus G s None), (glob_flag x),
        (count_odd G s (dual_axes (fbase G R x))), (count_odd G s (nondual_axes (fbase G R x))); reflexivity.
    Qed.

    Lemma fbase_conj_conj x pp pd1 pd2 : V (charge G R (fbase G R x)) ->
      fbase G R (f_conj G R (f_conj G R x pp pd1) pp pd2) = fbase G R x.
    Proof. intros Hv. rewrite !fbase_conj. now apply a_conj_invol. Qed.

    Lemma foddpos_conj_conj x pp pd1 pd2 :
      foddpos G R (f_conj G R (f_conj G R x pp pd1) pp pd2) = foddpos G R x.
    Proof. rewrite !foddpos_conj. apply oddpos_dag_involutive. Qed.

    (* conj (conj x) = x, default dual-leg option; any pp *)
    Theorem conj_conj x pp :
      V (charge G R (fbase G R x)) -> NoDup (fsectors G R x) ->
      feq (f_conj G R (f_conj G R x pp false) pp false) x.
    Proof.
      intros Hv Hn. split; [|apply foddpos_conj_conj].
      apply f_value_ext0; [now apply fbase_conj_conj|].
      intros s Hin. rewrite !fsectors_conj in Hin. rewrite sgn_conj_conj by assumption.
      cbn [andb xorb]. now rewrite xorb_false_r.
    Qed.

    (* with the dual-leg option on both: every block is multiplied by the parity sign of its
       sector, which for a valid array is the parity of the array *)
    Theorem conj_conj_pd x pp :
      awf (fbase G R x) ->
      feq_sign (fparity G R x) (f_conj G R (f_conj G R x pp true) pp true) x.
    Proof.
      intros Hw. pose proof (awf_charge _ Hw) as Hv. pose proof (awf_nodup _ Hw) as Hn.
      split; [|apply foddpos_conj_conj].
      apply (f_value_ext Hnn); [now apply fbase_conj_conj|].
      intros s Hin. rewrite !fsectors_conj in Hin. rewrite sgn_conj_conj by assumption.
      cbn [andb]. f_equal.
      pose proof (awf_len _ Hw s Hin) as Hl. unfold ndim in Hl.
      rewrite !(count_odd_axes G) by exact Hl. rewrite (Dc_split G) by exact Hl.
      apply (awf_cons _ Hw s Hin).
    Qed.

    (* mixed options: what remains is the sign flip on the legs the option acted on *)
    Theorem conj_conj_mixed_tf x pp :
      V (charge G R (fbase G R x)) -> NoDup (fsectors G R x) ->
      feq (f_conj G R (f_conj G R x pp true) pp false) (f_phase_flip G R x (dual_axes (fbase G R x))).
    Proof.
      intros Hv Hn. split.
      - apply f_value_ext0.
        + rewrite fbase_conj_conj by exact Hv. unfold f_phase_flip. now destruct (is_nil _).
        + intros s Hin. rewrite !fsectors_conj in Hin. rewrite sgn_conj_conj, sgn_phase_flip by assumption.
          cbn [andb]. now rewrite xorb_false_r.
      - rewrite foddpos_conj_conj. unfold f_phase_flip. now destruct (is_nil _).
    Qed.

    Theorem conj_conj_mixed_ft x pp :
      V (charge G R (fbase G R x)) -> NoDup (fsectors G R x) ->
      feq (f_conj G R (f_conj G R x pp false) pp true) (f_phase_flip G R x (nondual_axes (fbase G R x))).
    Proof.
      intros Hv Hn. split.
      - apply f_value_ext0.
        + rewrite fbase_conj_conj by exact Hv. unfold f_phase_flip. now destruct (is_nil _).
        + intros s Hin. rewrite !fsectors_conj in Hin. rewrite sgn_conj_conj, sgn_phase_flip by assumption.
          cbn [andb]. now rewrite xorb_false_l.
      - rewrite foddpos_conj_conj. unfold f_phase_flip. now destruct (is_nil _).
    Qed.
  End ConjLaws.

  (* ---------------------------------------------------------------- *)
  (* 9. the adjoint *)
  Definition lens_ok (b : arr) : Prop := forall s, In s (sectors G R b) -> length s = ndim G R b.

  Lemma permuted_rev_axes {A} (d : A) l n : length l = n -> permuted d l (rev_axes n) = rev l.
  Proof. intros <-. apply permuted_rev_seq. Qed.

  Lemma ndim_conj b : ndim G R (a_conj G R b) = ndim G R b.
  Proof. unfold ndim, a_conj. cbn [indices]. apply map_length. Qed.

  Lemma indices_dagger b : indices G R (a_dagger G R b) = rev (map (iconj G) (indices G R b)).
  Proof.
    unfold a_dagger, a_transpose. cbn [indices a_conj]. apply permuted_rev_axes. unfold ndim. apply map_length.
  Qed.

  Lemma ndim_dagger b : ndim G R (a_dagger G R b) = ndim G R b.
  Proof. unfold ndim. now rewrite indices_dagger, rev_length, map_length. Qed.

  Lemma sectors_dagger b : lens_ok b -> sectors G R (a_dagger G R b) = map (@rev _) (sectors G R b).
  Proof.
    intros Hl. unfold a_dagger, a_transpose, sectors at 1. cbn [blocks a_conj].
    rewrite !map_map. cbn [fst]. unfold sectors. rewrite map_map. apply map_ext_in.
    intros [s t] Hin. cbn [fst]. apply permuted_rev_axes. apply Hl.
    unfold sectors. apply in_map_iff. now exists (s, t).
  Qed.

  Lemma lens_ok_dagger b : lens_ok b -> lens_ok (a_dagger G R b).
  Proof.
    intros Hl s Hin. rewrite sectors_dagger in Hin by exact Hl. apply in_map_iff in Hin.
    destruct Hin as [s' [<- Hin]]. rewrite rev_length, ndim_dagger. now apply Hl.
  Qed.

  Lemma fbase_dagger x pd : fbase G R (f_dagger G R x pd) = a_dagger G R (fbase G R x).
  Proof.
    unfold f_dagger. destruct pd.
    - unfold f_phase_flip. destruct (is_nil _);
        match goal with |- context [if ?c then _ else _] => destruct c end; reflexivity.
    - match goal with |- context [if ?c then _ else _] => destruct c end; reflexivity.
  Qed.

  Lemma foddpos_dagger x pd : foddpos G R (f_dagger G R x pd) = oddpos_dag (foddpos G R x).
  Proof.
    unfold f_dagger. destruct pd.
    - unfold f_phase_flip. destruct (is_nil _);
        match goal with |- context [if ?c then _ else _] => destruct c end; reflexivity.
    - match goal with |- context [if ?c then _ else _] => destruct c end; reflexivity.
  Qed.

  Theorem dagger_labels x pd : foddpos G R (f_dagger G R x pd) = rev (map fop_dag (foddpos G R x)).
  Proof. rewrite foddpos_dagger. apply oddpos_dag_rev_map. Qed.

  Theorem dagger_indices x pd :
    indices G R (fbase G R (f_dagger G R x pd)) = rev (map (iconj G) (indices G R (fbase G R x))).
  Proof. rewrite fbase_dagger. apply indices_dagger. Qed.

  Theorem dagger_charge x pd :
    charge G R (fbase G R (f_dagger G R x pd)) = gneg G (charge G R (fbase G R x)).
  Proof. now rewrite fbase_dagger. Qed.

  Theorem dagger_parity x pd : V (charge G R (fbase G R x)) ->
    fparity G R (f_dagger G R x pd) = fparity G R x.
  Proof.
    intros Hv. unfold fparity. rewrite fbase_dagger. unfold a_dagger, a_transpose. cbn [a_conj charge].
    now apply (parity_sign G HG).
  Qed.

  Lemma glob_flag_dagger x pd : V (charge G R (fbase G R x)) -> glob_flag (f_dagger G R x pd) = glob_flag x.
  Proof. intros Hv. unfold glob_flag. now rewrite dagger_parity, foddpos_dagger, oddpos_dag_length. Qed.

  Lemma fsectors_dagger x pd : lens_ok (fbase G R x) ->
    fsectors G R (f_dagger G R x pd) = map (@rev _) (fsectors G R x).
  Proof. intros Hl. unfold fsectors. rewrite fbase_dagger. now apply sectors_dagger. Qed.

  Lemma NoDup_map_rev (l : list sector) : NoDup l -> NoDup (map (@rev _) l).
  Proof. apply NoDup_map_inj. apply rev_inj. Qed.

  (* the sign dagger puts on the reversed sector *)
  Theorem sgn_dagger x pd s :
    V (charge G R (fbase G R x)) -> NoDup (fsectors G R x) -> lens_ok (fbase G R x) ->
    In s (fsectors G R x) ->
    sgn (f_dagger G R x pd) (rev s) =
    xorb (xorb (sgn x s) (glob_flag x)) (pd && Dc G (idual G) (indices G R (fbase G R x)) s).
  Proof.
    intros Hv Hn Hl Hin. unfold f_dagger.
    set (ph := flat_map _ (fsectors G R x)).
    set (y0 := mkF G R (a_dagger G R (fbase G R x)) ph (oddpos_dag (foddpos G R x))).
    assert (Hsec0 : fsectors G R y0 = map (@rev _) (fsectors G R x))
      by (unfold fsectors, y0; cbn [fbase]; now apply sectors_dagger).
    assert (Hn0 : NoDup (fsectors G R y0)) by (rewrite Hsec0; now apply NoDup_map_rev).
    assert (Hin0 : In (rev s) (fsectors G R y0)) by (rewrite Hsec0; now apply in_map).
    assert (Hy : fparity G R y0 && Nat.odd (length (foddpos G R y0)) = glob_flag x).
    { unfold glob_flag, fparity, y0. cbn [fbase foddpos]. unfold a_dagger, a_transpose. cbn [a_conj charge].
      now rewrite oddpos_dag_length, (parity_sign G HG). }
    assert (Hs0 : sgn y0 (rev s) = sgn x s).
    { unfold sgn, y0. cbn [fphases]. unfold ph.
      rewrite (ph_has_flat_map G HG (@rev _) (fun t => ph_has G t (fphases G R x))) by apply rev_inj.
      apply (mem_keq_In G HG) in Hin. now rewrite Hin. }
    rewrite Hy.
    set (y1 := if glob_flag x then f_phase_global G R y0 else y0).
    assert (Hb1 : fbase G R y1 = fbase G R y0) by (unfold y1; now destruct (glob_flag x)).
    assert (Hsec1 : fsectors G R y1 = fsectors G R y0) by (unfold fsectors; now rewrite Hb1).
    assert (Hs1 : sgn y1 (rev s) = xorb (sgn x s) (glob_flag x)).
    { unfold y1. destruct (glob_flag x).
      - unfold sgn, f_phase_global, with_phases. cbn [fphases].
        rewrite (ph_has_global G HG) by assumption. fold (sgn y0 (rev s)). rewrite Hs0. now rewrite xorb_true_r.
      - rewrite Hs0. now rewrite xorb_false_r. }
    destruct pd; cbn [andb]; [|now rewrite xorb_false_r].
    rewrite sgn_phase_flip by (rewrite Hsec1; assumption). rewrite Hs1. f_equal.
    rewrite Hb1. unfold y0. cbn [fbase].
    fold (axes_where G (fun ix => negb (idual G ix)) (indices G R (a_dagger G R (fbase G R x)))).
    pose proof (Hl s Hin) as Hls. unfold ndim in Hls.
    rewrite (count_odd_axes G) by (rewrite indices_dagger, !rev_length, map_length; exact Hls).
    rewrite indices_dagger, (Dc_rev G) by (rewrite map_length; exact Hls).
    apply (Dc_iconj_nondual G).
  Qed.

  (* the sign the fermionic transposition by the full reversal puts on the reversed sector *)
  Theorem sgn_transpose_rev z s :
    lens_ok (fbase G R z) -> In s (fsectors G R z) ->
    sgn (f_transpose G R z (rev_axes (ndim G R (fbase G R z))) true) (rev s) =
    xorb (sgn z s) (perm_minus G s (Some (rev_axes (ndim G R (fbase G R z))))).
  Proof.
    intros Hl Hin. unfold sgn, f_transpose. cbn [fphases].
    set (n := ndim G R (fbase G R z)).
    rewrite (flat_map_ext_in _
      (fun t => if xorb (ph_has G t (fphases G R z)) (perm_minus G t (Some (rev_axes n))) then [rev t] else [])).
    - rewrite (ph_has_flat_map G HG (@rev _)
                 (fun t => xorb (ph_has G t (fphases G R z)) (perm_minus G t (Some (rev_axes n))))) by apply rev_inj.
      apply (mem_keq_In G HG) in Hin. now rewrite Hin.
    - intros t Ht. rewrite (permuted_rev_axes (ident G) t n) by (now apply Hl). reflexivity.
  Qed.

  (* the virtual reversal sign of conj is the sign of transposing by the reversal *)
  Theorem perm_minus_rev (s : sector) : Forall (fun c => V c) s ->
    perm_minus G s (Some (rev_axes (length s))) = perm_minus G s None.
  Proof.
    intros Hv. unfold perm_minus. f_equal.
    rewrite phase_none_eq_reversal.
    - f_equal. f_equal. unfold rev_axes, zrange, par_of. now rewrite map_length, Nat2Z.id, map_rev.
    - unfold par_of. apply Forall_forall. intros p Hp. apply in_map_iff in Hp. destruct Hp as [c [<- Hc]].
      apply (parity_01 G HG). rewrite Forall_forall in Hv. now apply Hv.
  Qed.

  Lemma lens_ok_conj b : lens_ok b -> lens_ok (a_conj G R b).
  Proof. intros Hl s Hin. rewrite sectors_conj in Hin. rewrite ndim_conj. now apply Hl. Qed.

  (* adjoint = conjugate, then fermionic reversal of the axes; both values of the dual-leg option *)
  Theorem dagger_eq_conj_transpose x pd :
    awf (fbase G R x) ->
    feq (f_dagger G R x pd)
        (f_transpose G R (f_conj G R x true pd) (rev_axes (ndim G R (fbase G R x))) true).
  Proof.
    intros Hw. pose proof (awf_charge _ Hw) as Hv. pose proof (awf_nodup _ Hw) as Hn.
    pose proof (awf_len _ Hw) as Hl. fold (lens_ok (fbase G R x)) in Hl.
    split.
    - apply f_value_ext0.
      + rewrite fbase_dagger. unfold f_transpose. cbn [fbase]. now rewrite fbase_conj.
      + intros s' Hin'. rewrite fsectors_dagger in Hin' by exact Hl.
        apply in_map_iff in Hin'. destruct Hin' as [s [<- Hin]].
        rewrite sgn_dagger by assumption.
        rewrite <- (ndim_conj (fbase G R x)), <- (fbase_conj x true pd).
        rewrite sgn_transpose_rev.
        2: { rewrite fbase_conj. now apply lens_ok_conj. }
        2: { now rewrite fsectors_conj. }
        rewrite sgn_conj by assumption.
        rewrite fbase_conj, ndim_conj.
        pose proof (Hl s Hin) as Hls. rewrite <- Hls.
        rewrite perm_minus_rev by (apply (awf_valid _ Hw s Hin)).
        unfold ndim in Hls. rewrite (count_odd_axes G) by exact Hls.
        cbn [andb].
        destruct (sgn x s), pd, (perm_minus G s None), (glob_flag x),
          (Dc G (idual G) (indices G R (fbase G R x)) s); reflexivity.
    - rewrite foddpos_dagger. unfold f_transpose. cbn [foddpos]. now rewrite foddpos_conj.
  Qed.

  (* ---------------- double adjoint ---------------- *)
  Section DaggerLaws.
    Context (Hcc : forall a, rconj R (rconj R a) = a) (Hnn : forall a, rneg R (rneg R a) = a)
            (Hc0 : rconj R (r0 R) = r0 R).

    Lemma a_dagger_invol b : awf b -> a_dagger G R (a_dagger G R b) = b.
    Proof.
      intros Hw. pose proof (awf_len _ Hw) as Hl. fold (lens_ok b) in Hl.
      unfold a_dagger at 1. rewrite ndim_dagger.
      destruct b as [ixs q bl]. unfold a_transpose. f_equal.
      - cbn [indices a_conj]. rewrite indices_dagger. cbn [indices].
        rewrite <- map_rev. rewrite map_map, (map_ext _ (fun ix => ix)) by apply iconj_invol. rewrite map_id.
        rewrite permuted_rev_axes by (unfold ndim; cbn [indices]; now rewrite rev_length). apply rev_involutive.
      - cbn [a_conj charge]. unfold a_dagger, a_transpose. cbn [a_conj charge].
        apply (gneg_involutive G HG). exact (awf_charge _ Hw).
      - cbn [a_conj blocks]. unfold a_dagger, a_transpose. cbn [a_conj blocks].
        rewrite !map_map. cbn [fst snd]. rewrite <- (map_id bl) at 2. apply map_ext_in.
        intros [s t] Hin. cbn [fst snd].
        destruct (awf_blocks _ Hw s t Hin) as [Hr Hd].
        assert (Hls : length s = ndim G R (mkA G R ixs q bl)).
        { apply Hl. unfold sectors. cbn [blocks]. apply in_map_iff. now exists (s, t). }
        set (n := ndim G R (mkA G R ixs q bl)) in *.
        f_equal.
        + rewrite (permuted_rev_axes (ident G) s n) by exact Hls.
          rewrite permuted_rev_axes by (now rewrite rev_length). apply rev_involutive.
        + unfold tconj. rewrite (ttranspose_tmap R (rconj R) t) by exact Hc0.
          change (tmap R (rconj R)) with (tconj R). rewrite (tconj_tconj R Hcc). rewrite <- Hr. now apply ttranspose_rev_rev.
    Qed.

    Lemma awf_lens b : awf b -> lens_ok b.
    Proof. intros Hw. exact (awf_len _ Hw). Qed.

    (* sign after two adjoints with independent options *)
    Lemma sgn_dagger_dagger x pd1 pd2 s :
      awf (fbase G R x) -> In s (fsectors G R x) ->
      sgn (f_dagger G R (f_dagger G R x pd1) pd2) s =
      xorb (sgn x s) (xorb (pd1 && Dc G (idual G) (indices G R (fbase G R x)) s)
                           (pd2 && Dc G (fun ix => negb (idual G ix)) (indices G R (fbase G R x)) s)).
    Proof.
      intros Hw Hin. pose proof (awf_charge _ Hw) as Hv. pose proof (awf_nodup _ Hw) as Hn.
      pose proof (awf_lens _ Hw) as Hl.
      rewrite <- (rev_involutive s) at 1.
      rewrite sgn_dagger.
      - rewrite sgn_dagger by assumption. rewrite glob_flag_dagger by exact Hv.
        rewrite dagger_indices. pose proof (Hl s Hin) as Hls. unfold ndim in Hls.
        rewrite (Dc_rev G) by (rewrite map_length; exact Hls). rewrite (Dc_iconj_dual G).
        destruct (sgn x s), pd1, pd2, (glob_flag x), (Dc G (idual G) (indices G R (fbase G R x)) s),
          (Dc G (fun ix => negb (idual G ix)) (indices G R (fbase G R x)) s); reflexivity.
      - rewrite dagger_charge. apply (gneg_valid G HG). exact Hv.
      - rewrite fsectors_dagger by exact Hl. now apply NoDup_map_rev.
      - rewrite fbase_dagger. now apply lens_ok_dagger.
      - rewrite fsectors_dagger by exact Hl. now apply in_map.
    Qed.

    Lemma fbase_dagger_dagger x pd1 pd2 : awf (fbase G R x) ->
      fbase G R (f_dagger G R (f_dagger G R x pd1) pd2) = fbase G R x.
    Proof. intros Hw. rewrite !fbase_dagger. now apply a_dagger_invol. Qed.

    Lemma foddpos_dagger_dagger x pd1 pd2 :
      foddpos G R (f_dagger G R (f_dagger G R x pd1) pd2) = foddpos G R x.
    Proof. rewrite !foddpos_dagger. apply oddpos_dag_involutive. Qed.

    Theorem dagger_dagger x :
      awf (fbase G R x) -> feq (f_dagger G R (f_dagger G R x false) false) x.
    Proof.
      intros Hw. split; [|apply foddpos_dagger_dagger].
      apply f_value_ext0; [now apply fbase_dagger_dagger|].
      intros s Hin. unfold fsectors in Hin. rewrite fbase_dagger_dagger in Hin by exact Hw.
      rewrite sgn_dagger_dagger by assumption. cbn [andb xorb]. now rewrite xorb_false_r.
    Qed.

    Theorem dagger_dagger_pd x :
      awf (fbase G R x) ->
      feq_sign (fparity G R x) (f_dagger G R (f_dagger G R x true) true) x.
    Proof.
      intros Hw. split; [|apply foddpos_dagger_dagger].
      apply (f_value_ext Hnn); [now apply fbase_dagger_dagger|].
      intros s Hin. unfold fsectors in Hin. rewrite fbase_dagger_dagger in Hin by exact Hw.
      rewrite sgn_dagger_dagger by assumption. cbn [andb]. f_equal.
      pose proof (awf_len _ Hw s Hin) as Hl. unfold ndim in Hl.
      rewrite (Dc_split G) by exact Hl. apply (awf_cons _ Hw s Hin).
    Qed.
  End DaggerLaws.

  (* ---------------------------------------------------------------- *)
  (* 10. the blocks of the conjugate: conjugated blocks of x, with the sign conj adds *)
  Lemma lookup_sign_map (c : sector -> bool) (f : tensor R -> tensor R) (s : sector) l :
    lookup keq s (map (fun sb : sector * tensor R => if c (fst sb) then (fst sb, f (snd sb)) else sb) l)
    = option_map (fun t => if c s then f t else t) (lookup keq s l).
  Proof.
    induction l as [|[s' t] l IH]; [reflexivity|]. cbn [map fst snd].
    destruct (c s') eqn:Ec; cbn [lookup]; destruct (keq s s') eqn:Es; try exact IH;
      apply (keq_eq G HG) in Es; subst s'; rewrite Ec; reflexivity.
  Qed.

  Definition conj_sign (x : fa) (pp pd : bool) (s : sector) : bool :=
    xorb (xorb (pp && perm_minus G s None) (pd && count_odd G s (dual_axes (fbase G R x)))) (pp && glob_flag x).

  Theorem conj_value
    (Hnn : forall a, rneg R (rneg R a) = a)
    (Hcn : forall a, rconj R (rneg R a) = rneg R (rconj R a)) x pp pd s :
    V (charge G R (fbase G R x)) -> NoDup (fsectors G R x) ->
    value (f_conj G R x pp pd) s =
    option_map (fun t => if conj_sign x pp pd s then tneg R (tconj R t) else tconj R t) (value x s).
  Proof.
    intros Hv Hn. unfold value. rewrite !f_value_eq. cbn [blocks]. rewrite !lookup_sign_map.
    rewrite fbase_conj. cbn [a_conj blocks].
    change (map (fun sb : sector * tensor R => (fst sb, tconj R (snd sb))) (blocks G R (fbase G R x)))
      with (dict_map R (tconj R) (blocks G R (fbase G R x))).
    unfold dict_map. rewrite (lookup_map_val keq).
    destruct (lookup keq s (blocks G R (fbase G R x))) as [t|] eqn:El; cbn [option_map]; [|reflexivity].
    assert (Hin : In s (fsectors G R x)).
    { apply (lookup_In keq (keq_eq G HG)) in El. unfold fsectors, sectors. apply in_map_iff. now exists (s, t). }
    assert (Es : sgn (f_conj G R x pp pd) s = xorb (sgn x s) (conj_sign x pp pd s)).
    { rewrite sgn_conj by assumption. unfold conj_sign. now rewrite xorb_assoc. }
    rewrite Es. f_equal. destruct (sgn x s), (conj_sign x pp pd s); cbn [xorb];
      rewrite ?(tconj_tneg R Hcn), ?(tneg_tneg R Hnn); reflexivity.
  Qed.
End Conj.

(* ------------------------------------------------------------------ *)
(* 11. the ring laws hold in the two exact rings of the correspondence *)
Lemma ZRing_conj_invol (a : RT ZRing) : rconj ZRing (rconj ZRing a) = a.
Proof. reflexivity. Qed.
Lemma ZRing_neg_invol (a : RT ZRing) : rneg ZRing (rneg ZRing a) = a.
Proof. apply Z.opp_involutive. Qed.
Lemma ZRing_conj_neg (a : RT ZRing) : rconj ZRing (rneg ZRing a) = rneg ZRing (rconj ZRing a).
Proof. reflexivity. Qed.
Lemma ZRing_conj_0 : rconj ZRing (r0 ZRing) = r0 ZRing.
Proof. reflexivity. Qed.
Lemma GRing_conj_invol (a : RT GRing) : rconj GRing (rconj GRing a) = a.
Proof. destruct a as [re im]. cbn [GRing rconj fst snd]. now rewrite Z.opp_involutive. Qed.
Lemma GRing_neg_invol (a : RT GRing) : rneg GRing (rneg GRing a) = a.
Proof. destruct a as [re im]. cbn [GRing rneg fst snd]. now rewrite !Z.opp_involutive. Qed.
Lemma GRing_conj_neg (a : RT GRing) : rconj GRing (rneg GRing a) = rneg GRing (rconj GRing a).
Proof. reflexivity. Qed.
Lemma GRing_conj_0 : rconj GRing (r0 GRing) = r0 GRing.
Proof. reflexivity. Qed.

(* ------------------------------------------------------------------ *)
(* 12. the statements with the executable validity predicate of C01 as premise *)
Section Final.
  Context (G : Symmetry) (HG : GroupLaws G) (R : Ring).
  Context (Hcc : forall a, rconj R (rconj R a) = a) (Hnn : forall a, rneg R (rneg R a) = a)
          (Hc0 : rconj R (r0 R) = r0 R).

  Theorem conj_conj_pd_wf (x : farray G R) pp : wf_array G R (fbase G R x) = true ->
    feq_sign G R (fparity G R x) (f_conj G R (f_conj G R x pp true) pp true) x.
  Proof. intros H. apply (conj_conj_pd G HG R Hcc Hnn). now apply wf_array_awf. Qed.

  Theorem dagger_eq_conj_transpose_wf (x : farray G R) pd : wf_array G R (fbase G R x) = true ->
    feq G R (f_dagger G R x pd)
        (f_transpose G R (f_conj G R x true pd) (rev_axes (ndim G R (fbase G R x))) true).
  Proof. intros H. apply (dagger_eq_conj_transpose G HG R). now apply wf_array_awf. Qed.

  Theorem dagger_dagger_wf (x : farray G R) : wf_array G R (fbase G R x) = true ->
    feq G R (f_dagger G R (f_dagger G R x false) false) x.
  Proof. intros H. apply (dagger_dagger G HG R Hcc Hc0). now apply wf_array_awf. Qed.

  Theorem dagger_dagger_pd_wf (x : farray G R) : wf_array G R (fbase G R x) = true ->
    feq_sign G R (fparity G R x) (f_dagger G R (f_dagger G R x true) true) x.
  Proof. intros H. apply (dagger_dagger_pd G HG R Hcc Hnn Hc0). now apply wf_array_awf. Qed.

  Theorem conj_bookkeeping (x : farray G R) pp pd : valid G (charge G R (fbase G R x)) = true ->
    duals G R (fbase G R (f_conj G R x pp pd)) = map negb (duals G R (fbase G R x)) /\
    indices G R (fbase G R (f_conj G R x pp pd)) = map (iconj G) (indices G R (fbase G R x)) /\
    charge G R (fbase G R (f_conj G R x pp pd)) = sign G (charge G R (fbase G R x)) true /\
    fparity G R (f_conj G R x pp pd) = fparity G R x /\
    foddpos G R (f_conj G R x pp pd) = rev (map fop_dag (foddpos G R x)) /\
    fsectors G R (f_conj G R x pp pd) = fsectors G R x.
  Proof.
    intros Hv. repeat split.
    - apply conj_flips_duals.
    - apply conj_indices.
    - apply conj_charge.
    - now apply conj_parity.
    - apply conj_labels.
    - apply fsectors_conj.
  Qed.

  Theorem dagger_bookkeeping (x : farray G R) pd : wf_array G R (fbase G R x) = true ->
    indices G R (fbase G R (f_dagger G R x pd)) = rev (map (iconj G) (indices G R (fbase G R x))) /\
    charge G R (fbase G R (f_dagger G R x pd)) = sign G (charge G R (fbase G R x)) true /\
    fparity G R (f_dagger G R x pd) = fparity G R x /\
    foddpos G R (f_dagger G R x pd) = rev (map fop_dag (foddpos G R x)) /\
    fsectors G R (f_dagger G R x pd) = map (@rev _) (fsectors G R x).
  Proof.
    intros H. pose proof (wf_array_awf G HG R _ H) as Hw. repeat split.
    - apply dagger_indices.
    - apply dagger_charge.
    - apply (dagger_parity G HG). exact (awf_charge _ _ _ Hw).
    - apply dagger_labels.
    - apply fsectors_dagger. exact (awf_len _ _ _ Hw).
  Qed.
End Final.

(* ------------------------------------------------------------------ *)
(* 13. Examples: the premises hold on concrete non-trivial instances, and the
   theorems instantiate there. *)
Section Examples.
  Local Open Scope Z_scope.

  (* Z2, Gaussian-integer data, rank 3, directions (ket, bra, ket), ODD charge, four sectors,
     two pending signs, one odd-position label *)
  Definition ex_x1 : farray Z2 GRing :=
    mkF Z2 GRing (mkA Z2 GRing
      [Index Z2 [(0, 1%nat); (1, 2%nat)] false None; Index Z2 [(0, 2%nat); (1, 1%nat)] true None;
       Index Z2 [(0, 1%nat); (1, 1%nat)] false None] 1
      [([1;0;0], @mkT GRing [2%nat;2%nat;1%nat] [(1,2);(3,-1);(0,5);(-2,7)]);
       ([0;1;0], @mkT GRing [1%nat;1%nat;1%nat] [(4,-3)]);
       ([1;1;1], @mkT GRing [2%nat;1%nat;1%nat] [(2,2);(-1,6)]);
       ([0;0;1], @mkT GRing [1%nat;2%nat;1%nat] [(7,1);(0,-9)])])
      [[0;1;0]; [1;1;1]] [([3], false)].

  (* U1, integer data, rank 2, directions (bra, ket), odd charge -1, pending sign, tuple label *)
  Definition ex_x2 : farray U1 ZRing :=
    mkF U1 ZRing (mkA U1 ZRing
      [Index U1 [(0, 1%nat); (1, 2%nat); (2, 1%nat)] true None; Index U1 [(-1, 1%nat); (0, 2%nat); (1, 1%nat)] false None] (-1)
      [([1;0], @mkT ZRing [2%nat;2%nat] [1;-2;3;4]);
       ([0;-1], @mkT ZRing [1%nat;1%nat] [5]);
       ([2;1], @mkT ZRing [1%nat;1%nat] [-6])])
      [[2;1]] [([0;7], true)].

  (* Z2, EVEN charge with two labels *)
  Definition ex_x3 : farray Z2 GRing :=
    mkF Z2 GRing (mkA Z2 GRing
      [Index Z2 [(0, 1%nat); (1, 2%nat)] true None; Index Z2 [(0, 2%nat); (1, 1%nat)] true None] 0
      [([1;1], @mkT GRing [2%nat;1%nat] [(1,2);(3,-1)]);
       ([0;0], @mkT GRing [1%nat;2%nat] [(4,-3);(0,1)])])
      [[1;1]] [([3], false); ([1], true)].

  Example ex_x1_wf : wf_array Z2 GRing (fbase _ _ ex_x1) = true. Proof. vm_compute. reflexivity. Qed.
  Example ex_x2_wf : wf_array U1 ZRing (fbase _ _ ex_x2) = true. Proof. vm_compute. reflexivity. Qed.
  Example ex_x3_wf : wf_array Z2 GRing (fbase _ _ ex_x3) = true. Proof. vm_compute. reflexivity. Qed.
  Example ex_x1_odd : fparity _ _ ex_x1 = true /\ Nat.odd (length (foddpos _ _ ex_x1)) = fparity _ _ ex_x1.
  Proof. vm_compute. split; reflexivity. Qed.
  Example ex_x2_odd : fparity _ _ ex_x2 = true /\ Nat.odd (length (foddpos _ _ ex_x2)) = fparity _ _ ex_x2.
  Proof. vm_compute. split; reflexivity. Qed.

  Example ex_x1_awf : awf Z2 GRing (fbase _ _ ex_x1). Proof. exact (wf_array_awf Z2 Z2_laws GRing _ ex_x1_wf). Qed.
  Example ex_x2_awf : awf U1 ZRing (fbase _ _ ex_x2). Proof. exact (wf_array_awf U1 U1_laws ZRing _ ex_x2_wf). Qed.

  (* the reversal sign on a parity list with three odd entries: both sides are -1 *)
  Example ex_phase_rev :
    calc_phase_permutation [1; 0; 1; 1] None = -1 /\
    calc_phase_permutation [1; 0; 1; 1] (Some (rev (zrange 4))) = -1.
  Proof. vm_compute. split; reflexivity. Qed.
  Example ex_phase_rev_thm :
    calc_phase_permutation [1; 0; 1; 1] None = calc_phase_permutation [1; 0; 1; 1] (Some (rev (zrange 4))).
  Proof. apply (phase_none_eq_reversal [1; 0; 1; 1]). repeat (apply Forall_cons; [lia|]). apply Forall_nil. Qed.
  (* outside {0,1} the equality fails: the premise is needed *)
  Example ex_phase_rev_premise :
    calc_phase_permutation [2] None <> calc_phase_permutation [2] (Some (rev (zrange 1))).
  Proof. vm_compute. discriminate. Qed.

  Example ex_oddpos : oddpos_dag [([3], false); ([1; 2], true)] = [([1; 2], false); ([3], true)].
  Proof. reflexivity. Qed.

  (* the theorems at the instances *)
  Example ex_conj_conj_1 : feq Z2 GRing (f_conj _ _ (f_conj _ _ ex_x1 true false) true false) ex_x1.
  Proof.
    apply (conj_conj Z2 Z2_laws GRing GRing_conj_invol);
      [exact (awf_charge _ _ _ ex_x1_awf) | exact (awf_nodup _ _ _ ex_x1_awf)].
  Qed.
  Example ex_conj_conj_pd_1 : feq_sign Z2 GRing true (f_conj _ _ (f_conj _ _ ex_x1 true true) true true) ex_x1.
  Proof. exact (conj_conj_pd_wf Z2 Z2_laws GRing GRing_conj_invol GRing_neg_invol ex_x1 true ex_x1_wf). Qed.
  Example ex_conj_conj_pd_3 : feq_sign Z2 GRing false (f_conj _ _ (f_conj _ _ ex_x3 true true) true true) ex_x3.
  Proof. exact (conj_conj_pd_wf Z2 Z2_laws GRing GRing_conj_invol GRing_neg_invol ex_x3 true ex_x3_wf). Qed.
  Example ex_dagger_eq_1 pd : feq Z2 GRing (f_dagger _ _ ex_x1 pd)
      (f_transpose _ _ (f_conj _ _ ex_x1 true pd) (rev_axes 3) true).
  Proof. exact (dagger_eq_conj_transpose_wf Z2 Z2_laws GRing ex_x1 pd ex_x1_wf). Qed.
  Example ex_dagger_eq_2 pd : feq U1 ZRing (f_dagger _ _ ex_x2 pd)
      (f_transpose _ _ (f_conj _ _ ex_x2 true pd) (rev_axes 2) true).
  Proof. exact (dagger_eq_conj_transpose_wf U1 U1_laws ZRing ex_x2 pd ex_x2_wf). Qed.
  Example ex_dagger_dagger_2 : feq U1 ZRing (f_dagger _ _ (f_dagger _ _ ex_x2 false) false) ex_x2.
  Proof. exact (dagger_dagger_wf U1 U1_laws ZRing ZRing_conj_invol ZRing_conj_0 ex_x2 ex_x2_wf). Qed.
  Example ex_dagger_dagger_pd_2 : feq_sign U1 ZRing true (f_dagger _ _ (f_dagger _ _ ex_x2 true) true) ex_x2.
  Proof.
    exact (dagger_dagger_pd_wf U1 U1_laws ZRing ZRing_conj_invol ZRing_neg_invol ZRing_conj_0 ex_x2 ex_x2_wf).
  Qed.

  (* and, independently of the theorems, by evaluation: the pd = true double conjugate /
     double adjoint of the odd arrays is NOT x but -x (the involution fails, the signed law holds) *)
  Definition ex_neg {G R} (x : farray G R) : farray G R := mkF G R (a_neg G R (f_value G R x)) [] (foddpos G R x).
  Example ex_eval_1 :
    farray_eqb _ _ (f_conj _ _ (f_conj _ _ ex_x1 true true) true true) ex_x1 = false /\
    farray_eqb _ _ (f_conj _ _ (f_conj _ _ ex_x1 true true) true true) (ex_neg ex_x1) = true /\
    farray_eqb _ _ (f_dagger _ _ (f_dagger _ _ ex_x1 true) true) (ex_neg ex_x1) = true /\
    farray_eqb _ _ (f_dagger _ _ (f_dagger _ _ ex_x2 true) true) ex_x2 = false /\
    farray_eqb _ _ (f_dagger _ _ (f_dagger _ _ ex_x2 true) true) (ex_neg ex_x2) = true /\
    farray_eqb _ _ (f_dagger _ _ ex_x2 true) (f_transpose _ _ (f_conj _ _ ex_x2 true true) (rev_axes 2) true) = true.
  Proof. vm_compute. repeat split; reflexivity. Qed.
End Examples.
