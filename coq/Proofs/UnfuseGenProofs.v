(* Proofs/UnfuseGenProofs.v — the GENERATED `AbelianArray.unfuse` (Gen/UnfuseGen.v, tr/gen_unfuse.py: slice
   table from `accum_for_split` over the extents, the pieces cut out of every stored block along the fused
   axis, new sector / new shape by `replace_with_seq`, the reshaped pieces stored in dict order, new index
   list) EQUALS the hand model `Array.a_unfuse` — Leibniz equality of the optional record, insertion order
   and every tensor included; `None` exactly when the model returns `None` (no sub-index information).
   Then the round-trip theorem of Props/C05b.v restated through the generated unfuse and the generated fuse. *)
From SV Require Import Base.Prelude Base.PyList Base.Sym Base.Tensor Model.Sectors Model.Array Model.Wf
  Gen.Helpers Gen.FuseGen Gen.UnfuseGen Proofs.OrderProofs Proofs.FuseProofs Proofs.FuseGroups Proofs.FuseGroupsWf
  Proofs.WfProofs Proofs.WfProofs2 Proofs.HelpersProofs Proofs.FuseGenProofs Proofs.FuseInsertGenProofs.
From Coq Require Import Lia Permutation.
Local Open Scope nat_scope.

(* ================================================================== *)
(* 1. generic list facts *)
Lemma fold_left_snoc_map {A B} (f : A -> B) (l : list A) (acc : list B) :
  fold_left (fun a x => a ++ [f x]) l acc = acc ++ map f l.
Proof.
  revert acc. induction l as [|x l IH]; intros acc; cbn [fold_left map]; [now rewrite app_nil_r|].
  rewrite IH, <- app_assoc. reflexivity.
Qed.

Lemma fold_left_combine_map {A K V W} (g : A -> K * W -> A) (P : V -> W) (ks : list K) (l : list V) (acc : A) :
  fold_left g (List.combine ks (map P l)) acc = fold_left (fun a q => g a (fst q, P (snd q))) (List.combine ks l) acc.
Proof.
  revert l acc. induction ks as [|k ks IH]; intros [|v l] acc; cbn [map List.combine fold_left fst snd]; try reflexivity.
  apply IH.
Qed.

Lemma fold_left_ext' {A B} (f g : A -> B -> A) (l : list B) (a : A) :
  (forall x y, f x y = g x y) -> fold_left f l a = fold_left g l a.
Proof.
  intros Hfg. revert a. induction l as [|y l IH]; intros a; cbn [fold_left]; [reflexivity|].
  rewrite Hfg. apply IH.
Qed.

(* ================================================================== *)
(* 2. the selector  (slice(None),) * axis + (slice(a, b),)  cuts along `axis` *)
Section Select.
  Context (R : Ring).

  Lemma g_tselect_nones (ks : list nat) (l : list Z) (t : tensor R) :
    fold_left (fun acc (p : nat * option (Z * Z)) =>
                 match snd p with
                 | Some (a, b) => tslice R acc (fst p) (Z.to_nat a) (Z.to_nat (Z.sub b a))
                 | None => acc
                 end) (List.combine ks (map (fun _ => @None (Z * Z)) l)) t = t.
  Proof.
    revert ks. induction l as [|z l IH]; intros [|k ks]; cbn [map List.combine fold_left snd]; try reflexivity.
    apply IH.
  Qed.

  Lemma g_tselect_axis (t : tensor R) (axis : nat) (a b : Z) :
    g_tselect R t (map (fun _ => None) (zrange (Z.of_nat axis)) ++ [Some (a, b)]) =
    tslice R t axis (Z.to_nat a) (Z.to_nat (Z.sub b a)).
  Proof.
    unfold g_tselect. rewrite enumerate_app, fold_left_app. unfold enumerate.
    rewrite g_tselect_nones. cbn [length seq List.combine map fold_left fst snd].
    rewrite map_length. unfold zrange. rewrite map_length, seq_length, Nat2Z.id, Nat.add_0_r. reflexivity.
  Qed.
End Select.

(* ================================================================== *)
(* 3. generated unfuse = a_unfuse *)
Section UnfuseEq.
  Context (G : Symmetry) (R : Ring) (Hceq : eqb_spec_on (ceqb G)).
  Notation sector := (list (C G)).
  Notation keq := (list_eqb (ceqb G)).

  (* the pieces of one block: what the model cuts out with tslice *)
  Lemma pieces_eq (t : tensor R) (axis : nat) (sizes : list nat) :
    fold_left (fun acc sl => acc ++ [g_tselect R t (map (fun _ => None) (zrange (Z.of_nat axis)) ++ [sl])])
      (map Some (accum_for_split (map Z.of_nat sizes))) [] =
    map (fun p => tslice R t axis (fst p) (snd p)) (List.combine (starts_from 0 sizes) sizes).
  Proof.
    rewrite fold_left_snoc_map. cbn [app]. rewrite map_map.
    change (map Z.of_nat sizes) with (zl sizes). rewrite gen_accum_for_split, map_map.
    apply map_ext. intros [st d]. cbn [fst snd]. rewrite g_tselect_axis. f_equal; lia.
  Qed.

  (* slice table: with pairwise distinct keys, reading the dict comprehension = reading the extents *)
  Lemma slices_lookup (ext : list (C G * list (sector * nat))) (c : C G) :
    NoDup (map fst ext) ->
    dget (ceqb G) []
      (g_dict_of (ceqb G)
         (map (fun '(c0, e0) => (c0, map Some (accum_for_split (map Z.of_nat (map snd e0))))) ext)) c =
    map Some (accum_for_split (map Z.of_nat (map snd (dget (ceqb G) [] ext c)))).
  Proof.
    intros Hnd.
    set (f := fun p : C G * list (sector * nat) =>
                (fst p, map (@Some (Z * Z)) (accum_for_split (map Z.of_nat (map snd (snd p)))))).
    assert (Hf : map (fun '(c0, e0) => (c0, map (@Some (Z * Z)) (accum_for_split (map Z.of_nat (map snd e0))))) ext = map f ext).
    { apply map_ext. intros [c0 e0]. reflexivity. }
    rewrite Hf. rewrite (g_dict_of_nodup (ceqb G) Hceq).
    2:{ rewrite map_map. cbn [f fst]. exact Hnd. }
    unfold dget. rewrite (lookup_map_vals (ceqb G) Hceq f (fun p => eq_refl)).
    destruct (lookup (ceqb G) c ext) as [e|]; reflexivity.
  Qed.

  Definition ext_keys_distinct (x : aarray G R) (axis : nat) : Prop :=
    forall subs ext, isub G (nth axis (indices G R x) (dflt_index G)) = Some (subs, ext) -> NoDup (map fst ext).

  Theorem gen_unfuse_eq_model (x : aarray G R) (axis : nat) (inplace : bool) :
    ext_keys_distinct x axis ->
    gen_unfuse G R x (Z.of_nat axis) inplace = a_unfuse G R x axis.
  Proof.
    intros Hk. unfold gen_unfuse, a_unfuse. rewrite py_nth_nat.
    destruct (isub G (nth axis (indices G R x) (dflt_index G))) as [[subs ext]|] eqn:Esub; [|reflexivity].
    specialize (Hk subs ext Esub). cbn [fst snd].
    assert (E : forall b1 b2 : list (sector * tensor R), b1 = b2 ->
              (if inplace then Some (mkA G R (Helpers.replace_with_seq (indices G R x) (Z.of_nat axis) subs) (charge G R x) b1)
               else Some (mkA G R (Helpers.replace_with_seq (indices G R x) (Z.of_nat axis) subs) (charge G R x) b1)) =
              Some (mkA G R (Array.replace_with_seq (indices G R x) axis subs) (charge G R x) b2)).
    { intros b1 b2 ->. rewrite gen_replace_with_seq. now destruct inplace. }
    apply E. clear E.
    apply fold_left_ext'. intros acc [s t]. cbn [fst snd].
    rewrite py_nth_nat. rewrite (slices_lookup ext (nth axis s (ident G)) Hk).
    rewrite pieces_eq.
    unfold dget. destruct (lookup (ceqb G) (nth axis s (ident G)) ext) as [e|]; [|reflexivity].
    rewrite fold_left_combine_map.
    apply fold_left_ext'. intros acc2 [ss [st len]]. cbn [fst snd].
    rewrite !gen_replace_with_seq. f_equal. f_equal. f_equal.
    apply map_ext. intros [ix c]. reflexivity.
  Qed.

  (* None exactly when the model returns None (whatever the tables) *)
  Theorem gen_unfuse_none_iff (x : aarray G R) (axis : nat) (inplace : bool) :
    gen_unfuse G R x (Z.of_nat axis) inplace = None <-> a_unfuse G R x axis = None.
  Proof.
    unfold gen_unfuse, a_unfuse. rewrite py_nth_nat.
    destruct (isub G (nth axis (indices G R x) (dflt_index G))) as [[subs ext]|]; [|tauto].
    destruct inplace; split; discriminate.
  Qed.

  Lemma wf_index_keys (ix : index G) subs ext :
    wf_index G ix = true -> isub G ix = Some (subs, ext) -> NoDup (map fst ext).
  Proof.
    intros Hw Hs. destruct ix as [cm d sub]. cbn [isub] in Hs. subst sub.
    rewrite (wf_index_unfold G) in Hw. rewrite !andb_true_iff in Hw.
    destruct Hw as (_ & (((_ & Hn) & _) & _)).
    apply (nodupb_NoDup (ceqb G) Hceq). exact Hn.
  Qed.

  Lemma wf_array_keys (x : aarray G R) (axis : nat) : wf_array G R x = true -> ext_keys_distinct x axis.
  Proof.
    intros Hw subs ext Hs. unfold wf_array in Hw. rewrite !andb_true_iff in Hw.
    destruct Hw as (((Hix & _) & _) & _). rewrite forallb_forall in Hix.
    destruct (Nat.lt_ge_cases axis (length (indices G R x))) as [Hlt|Hge].
    - apply (wf_index_keys (nth axis (indices G R x) (dflt_index G)) subs ext); [|exact Hs].
      apply Hix. now apply nth_In.
    - rewrite nth_overflow in Hs by exact Hge. discriminate Hs.
  Qed.

  Corollary gen_unfuse_eq_model_wf (x : aarray G R) (axis : nat) (inplace : bool) :
    wf_array G R x = true -> gen_unfuse G R x (Z.of_nat axis) inplace = a_unfuse G R x axis.
  Proof. intros Hw. apply gen_unfuse_eq_model. now apply wf_array_keys. Qed.
End UnfuseEq.

(* ================================================================== *)
(* 4. unfusing the fused groups one after another through the generated unfuse *)
Section GenGroups.
  Context (G : Symmetry) (R : Ring) (GL : GroupLaws G) (OL : OrderLaws G).

  Definition gen_unfuse_step (pos : nat) (p : nat * list nat) (acc : option (aarray G R)) : option (aarray G R) :=
    match acc with
    | Some y => if is_singlet (snd p) then Some y else gen_unfuse G R y (Z.of_nat (pos + fst p)) false
    | None => None
    end.
  (* `for g in reversed(range(len(groups))): if len(groups[g]) > 1: z = z.unfuse(position + g)` *)
  Definition gen_unfuse_groups (y : aarray G R) (pos : nat) (gs : list (list nat)) : option (aarray G R) :=
    fold_right (gen_unfuse_step pos) (Some y) (enumerate gs).

  Lemma fold_step_wf pos E : forall acc,
    (match acc with Some y => wf_array G R y = true | None => True end) ->
    fold_right (gen_unfuse_step pos) acc E = fold_right (unfuse_step G R pos) acc E /\
    (match fold_right (unfuse_step G R pos) acc E with Some y => wf_array G R y = true | None => True end).
  Proof.
    induction E as [|p E IH]; intros acc Hacc; cbn [fold_right]; [split; [reflexivity|exact Hacc]|].
    destruct (IH acc Hacc) as [IH1 IH2]. rewrite IH1.
    destruct (fold_right (unfuse_step G R pos) acc E) as [y|]; [|split; [reflexivity|exact I]].
    unfold gen_unfuse_step, unfuse_step. destruct (is_singlet (snd p)); [split; [reflexivity|exact IH2]|].
    rewrite (gen_unfuse_eq_model_wf G R (ceqb_spec G GL) y (pos + fst p) false IH2). split; [reflexivity|].
    destruct (a_unfuse G R y (pos + fst p)) as [y'|] eqn:Ey; [|exact I].
    exact (unfuse_wf G GL R y y' (pos + fst p) IH2 Ey).
  Qed.

  Theorem gen_unfuse_groups_eq (y : aarray G R) (pos : nat) (gs : list (list nat)) :
    wf_array G R y = true -> gen_unfuse_groups y pos gs = unfuse_groups G R y pos gs.
  Proof. intros Hw. unfold gen_unfuse_groups, unfuse_groups. now apply (fold_step_wf pos (enumerate gs) (Some y)). Qed.

  (* ---- unfuse_all: every fused axis, from the last to the first, through the generated unfuse ---- *)
  Lemma gen_unfuse_all_go (inplace : bool) : forall (axes : list nat) (y : aarray G R),
    wf_array G R y = true ->
    fold_left (fun (v2 : aarray G R) (v3 : Z) =>
                 if negb (is_none (isub G (py_nth (dflt_index G) (indices G R v2) v3)))
                 then match gen_unfuse G R v2 v3 true with Some u => u | None => v2 end
                 else v2) (map Z.of_nat axes) y =
    unfuse_all_go G R axes y.
  Proof.
    induction axes as [|ax r IH]; intros y Hw; cbn [map fold_left unfuse_all_go]; [reflexivity|].
    rewrite py_nth_nat.
    destruct (isub G (nth ax (indices G R y) (dflt_index G))) as [si|] eqn:Es; cbn [is_none negb].
    - rewrite (gen_unfuse_eq_model_wf G R (ceqb_spec G GL) y ax true Hw).
      destruct (a_unfuse G R y ax) as [y'|] eqn:Ey; [|now apply IH].
      apply IH. exact (unfuse_wf G GL R y y' ax Hw Ey).
    - now apply IH.
  Qed.

  Theorem gen_unfuse_all_eq_model (x : aarray G R) (inplace : bool) :
    wf_array G R x = true -> gen_unfuse_all G R x inplace = a_unfuse_all G R x.
  Proof.
    intros Hw. unfold gen_unfuse_all, a_unfuse_all.
    rewrite zrange_nat. unfold zl. rewrite <- map_rev.
    assert (E : (if inplace then x else x) = x) by now destruct inplace. rewrite E.
    now apply gen_unfuse_all_go.
  Qed.

  (* the array `_fuse_core` (insert strategy) builds from the GENERATED tables and the GENERATED placement *)
  Definition gen_fuse_core (x : aarray G R) (groups : list (list nat)) : aarray G R :=
    mkA G R (cfbi_new_indices G R x (zg groups)) (charge G R x)
      (gen_fuse_blocks_via_insert G R (blocks G R x)
         (cfbi_num_groups G R x (zg groups)) (cfbi_group_singlets G R x (zg groups)) (cfbi_perm G R x (zg groups))
         (cfbi_position G R x (zg groups)) (cfbi_new_indices G R x (zg groups)) (cfbi_blockmap G R x (zg groups))).

  (* round trip: generated unfuse after generated fuse restores every block *)
  Theorem gen_unfuse_gen_fuse_groups (x : aarray G R) (groups : list (list nat)) :
    wf_array G R x = true -> groups_ok (ndim G R x) groups ->
    let perm := fuse_perm (length (indices G R x)) groups in
    exists y,
      gen_unfuse_groups (gen_fuse_core x groups) (fuse_position groups) groups = Some y /\
      indices G R y = Tensor.permuted (dflt_index G) (indices G R x) perm /\
      charge G R y = charge G R x /\
      (forall s b, In (s, b) (blocks G R x) ->
         lookup (list_eqb (ceqb G)) (Tensor.permuted (ident G) s perm) (blocks G R y) = Some (ttranspose R b perm)) /\
      (forall k t, In (k, t) (blocks G R y) ->
         (exists s b, In (s, b) (blocks G R x) /\ k = Tensor.permuted (ident G) s perm /\ t = ttranspose R b perm) \/
         Forall (fun v => v = r0 R) (tdata t)) /\
      (forall cs, coords_ok G (indices G R x) cs = true ->
         sem G R y (Tensor.permuted (ident G, 0) cs perm) = sem G R x cs).
  Proof.
    intros Hwf Hok perm. pose proof Hok as (Hne & Hrng & Hnd).
    unfold gen_fuse_core. rewrite (gen_fuse_core_eq_model G R GL OL x groups Hwf Hok).
    destruct (fuse_groups_wf G GL OL R x groups Hwf Hne Hnd Hrng) as [_ Hwf'].
    rewrite (gen_unfuse_groups_eq _ _ _ Hwf').
    unfold ndim in Hrng.
    exact (unfuse_fuse_groups_thm G R GL OL x groups Hwf Hne Hnd Hrng).
  Qed.
End GenGroups.

(* ================================================================== *)
(* 5. the hypotheses are satisfiable; the generated function on a concrete fused array *)
From SV Require Import Model.SymInst Proofs.SymLaws.

Example ex_unfuse_hyps :
  GroupLaws U1 /\ OrderLaws U1 /\ wf_array U1 ZRing ex_x = true /\ groups_ok (ndim U1 ZRing ex_x) ex_groups /\
  ext_keys_distinct U1 ZRing (fuse_core U1 ZRing ex_x ex_groups) (fuse_position ex_groups).
Proof.
  split; [exact U1_laws|]. split; [exact U1_order|]. split; [vm_compute; reflexivity|]. split; [exact ex_groups_ok|].
  apply (wf_array_keys U1 ZRing (ceqb_spec U1 U1_laws)). vm_compute. reflexivity.
Qed.

Example ex_gen_unfuse_some :
  is_none (gen_unfuse U1 ZRing (fuse_core U1 ZRing ex_x ex_groups) (Z.of_nat (fuse_position ex_groups)) false) = false.
Proof. vm_compute. reflexivity. Qed.
Example ex_gen_unfuse_eq :
  gen_unfuse U1 ZRing (fuse_core U1 ZRing ex_x ex_groups) (Z.of_nat (fuse_position ex_groups)) true =
  a_unfuse U1 ZRing (fuse_core U1 ZRing ex_x ex_groups) (fuse_position ex_groups).
Proof. vm_compute. reflexivity. Qed.
Example ex_gen_unfuse_none : gen_unfuse U1 ZRing ex_x 0%Z false = None.
Proof. vm_compute. reflexivity. Qed.
Example ex_gen_unfuse_all_eq :
  gen_unfuse_all U1 ZRing (fuse_core U1 ZRing ex_x ex_groups) false = a_unfuse_all U1 ZRing (fuse_core U1 ZRing ex_x ex_groups).
Proof. vm_compute. reflexivity. Qed.
Example ex_gen_unfuse_all_changes :
  Nat.ltb (ndim U1 ZRing (fuse_core U1 ZRing ex_x ex_groups))
          (ndim U1 ZRing (gen_unfuse_all U1 ZRing (fuse_core U1 ZRing ex_x ex_groups) true)) = true.
Proof. vm_compute. reflexivity. Qed.
