(* Proofs/HelpersProofs.v — the GENERATED index helpers of Gen/Helpers.v
   (translated on every run from symmray/abelian_core.py by tr/gen_helpers.py)
   equal the hand-written definitions the C05 theorems are stated over
   (Base/Tensor.v, Model/Array.v).  Python ints are Z on the generated side and
   nat on the model side; `zl` converts.  Everything is unbounded (all ranks,
   all groupings), by induction. *)
From SV Require Import Base.Prelude Base.PyList Base.Sym Base.Tensor Model.Sectors Model.Array
  Gen.Helpers Proofs.OrderProofs Proofs.FuseProofs.
From Coq Require Import Lia Permutation.
Local Open Scope nat_scope.

Definition zl (l : list nat) : list Z := map Z.of_nat l.

(* ------------------------------------------------------------------ *)
(* Python list primitives on non-negative arguments *)

Lemma py_nth_nat {A} (d : A) l i : py_nth d l (Z.of_nat i) = nth i l d.
Proof.
  unfold py_nth. destruct (Z.ltb_spec (Z.of_nat i) 0) as [H|H]; [lia|].
  now rewrite Nat2Z.id.
Qed.

Lemma py_nth_last {A} (d : A) l x : py_nth d (l ++ [x]) (-1) = x.
Proof.
  unfold py_nth. rewrite app_length. cbn [length].
  destruct (Z.ltb_spec (-1) 0) as [_|H]; [|lia].
  destruct (Z.ltb_spec (Z.of_nat (length l + 1) + -1) 0) as [H|_]; [lia|].
  replace (Z.to_nat (Z.of_nat (length l + 1) + -1)) with (length l) by lia.
  now rewrite nth_middle.
Qed.

Lemma py_nth_last2 {A} (d : A) l x y : py_nth d ((l ++ [x]) ++ [y]) (-2) = x.
Proof.
  unfold py_nth. rewrite !app_length. cbn [length].
  destruct (Z.ltb_spec (-2) 0) as [_|H]; [|lia].
  destruct (Z.ltb_spec (Z.of_nat (length l + 1 + 1) + -2) 0) as [H|_]; [lia|].
  replace (Z.to_nat (Z.of_nat (length l + 1 + 1) + -2)) with (length l) by lia.
  rewrite <- app_assoc. cbn [app]. now rewrite nth_middle.
Qed.

Lemma mem_zl k l : mem Z.eqb (Z.of_nat k) (zl l) = mem Nat.eqb k l.
Proof.
  induction l as [|a l IH]; [reflexivity|]. cbn [zl map mem]. fold (zl l). rewrite IH. f_equal.
  destruct (Nat.eqb_spec k a) as [->|Hn]; [apply Z.eqb_refl|].
  apply Z.eqb_neq. lia.
Qed.

Lemma zrange_nat n : zrange (Z.of_nat n) = zl (seq 0 n).
Proof. unfold zrange, zl. now rewrite Nat2Z.id. Qed.

Lemma zl_seq_shift p m s : map (fun i => (Z.of_nat p + i)%Z) (zl (seq s m)) = zl (seq (p + s) m).
Proof.
  revert s. induction m as [|m IH]; intros s; [reflexivity|].
  cbn [seq zl map]. fold (zl (seq (S s) m)). fold (zl (seq (S (p + s)) m)).
  rewrite IH. f_equal; [lia|]. now replace (p + S s) with (S (p + s)) by lia.
Qed.

Lemma zrange2_nat p n : zrange2 (Z.of_nat p) (Z.of_nat n) = zl (seq p (n - p)).
Proof.
  unfold zrange2, zrange.
  replace (Z.to_nat (Z.of_nat n - Z.of_nat p)) with (n - p) by lia.
  fold (zl (seq 0 (n - p))). rewrite zl_seq_shift. now rewrite Nat.add_0_r.
Qed.

Lemma filter_zl (P : Z -> bool) (Q : nat -> bool) l :
  (forall x, In x l -> P (Z.of_nat x) = Q x) -> filter P (zl l) = zl (filter Q l).
Proof.
  induction l as [|a l IH]; intros H; [reflexivity|].
  cbn [zl map filter]. fold (zl l). rewrite (H a) by now left.
  rewrite IH by (intros x Hx; apply H; now right).
  destruct (Q a); reflexivity.
Qed.

Lemma fold_min_zl l a : fold_left Z.min (zl l) (Z.of_nat a) = Z.of_nat (fold_left Nat.min l a).
Proof.
  revert a. induction l as [|b l IH]; intros a; [reflexivity|].
  cbn [zl map fold_left]. fold (zl l). rewrite <- Nat2Z.inj_min. apply IH.
Qed.

Lemma py_min_zl l : py_min (zl l) = Z.of_nat (list_min l).
Proof. destruct l as [|a l]; [reflexivity|]. cbn [zl map py_min list_min]. apply fold_min_zl. Qed.

(* ------------------------------------------------------------------ *)
(* permuted / without / replace_with_seq / accum_for_split *)

Theorem gen_permuted {A} (d : A) (l : list A) (perm : list nat) :
  Helpers.permuted d l (zl perm) = Tensor.permuted d l perm.
Proof.
  unfold Helpers.permuted, Tensor.permuted, zl. rewrite map_map.
  apply map_ext. intros p. apply py_nth_nat.
Qed.

Lemma without_from {A} (l : list A) (axes : list nat) k :
  map (fun '(_, el) => el)
      (filter (fun '(i, _) => negb (mem Z.eqb i (zl axes))) (py_enum_from (Z.of_nat k) l)) =
  map snd (filter (fun p => negb (mem Nat.eqb (fst p) axes)) (List.combine (seq k (length l)) l)).
Proof.
  revert k. induction l as [|x l IH]; intros k; [reflexivity|].
  cbn [py_enum_from length seq List.combine filter fst].
  rewrite mem_zl. replace (Z.of_nat k + 1)%Z with (Z.of_nat (S k)) by lia.
  destruct (mem Nat.eqb k axes); cbn [negb map snd]; [apply IH|].
  f_equal. apply IH.
Qed.

Theorem gen_without {A} (l : list A) (axes : list nat) :
  Helpers.without l (zl axes) = without_axes l axes.
Proof. unfold Helpers.without, without_axes, py_enumerate. apply (without_from l axes 0). Qed.

Lemma py_slice_to {A} (l : list A) i : py_slice l None (Some (Z.of_nat i)) = firstn i l.
Proof.
  unfold py_slice, py_clamp. destruct (Z.ltb_spec (Z.of_nat i) 0) as [H|_]; [lia|].
  cbn [skipn Z.to_nat]. rewrite Z.sub_0_r.
  destruct (Nat.le_gt_cases i (length l)) as [Hle|Hgt].
  - rewrite Z.min_l by lia. now rewrite Nat2Z.id.
  - rewrite Z.min_r by lia. rewrite Nat2Z.id.
    rewrite firstn_all. symmetry. apply firstn_all2. lia.
Qed.

Lemma py_slice_from {A} (l : list A) i : py_slice l (Some (Z.of_nat i)) None = skipn i l.
Proof.
  unfold py_slice, py_clamp. destruct (Z.ltb_spec (Z.of_nat i) 0) as [H|_]; [lia|].
  destruct (Nat.le_gt_cases i (length l)) as [Hle|Hgt].
  - rewrite Z.min_l by lia. rewrite Nat2Z.id.
    apply firstn_all2. rewrite skipn_length. lia.
  - rewrite Z.min_r by lia. rewrite Nat2Z.id, Z.sub_diag. cbn [Z.to_nat firstn].
    symmetry. apply skipn_all2. lia.
Qed.

Theorem gen_replace_with_seq {A} (l : list A) (i : nat) (s : list A) :
  Helpers.replace_with_seq l (Z.of_nat i) s = Array.replace_with_seq l i s.
Proof.
  unfold Helpers.replace_with_seq, Array.replace_with_seq.
  rewrite py_slice_to. replace (Z.add (Z.of_nat i) 1) with (Z.of_nat (S i)) by lia.
  now rewrite py_slice_from.
Qed.

(* the (start, stop) pairs of consecutive extents *)
Fixpoint spans (a : Z) (sizes : list Z) : list (Z * Z) :=
  match sizes with [] => [] | d :: r => (a, (a + d)%Z) :: spans (a + d)%Z r end.

Lemma accum_fold (F : list Z * list (Z * Z) -> Z -> list Z * list (Z * Z)) :
  (forall x s size, F (x, s) size =
     ((x ++ [(py_nth 0%Z x (-1) + size)%Z]),
      s ++ [(py_nth 0%Z (x ++ [(py_nth 0%Z x (-1) + size)%Z]) (-2),
             py_nth 0%Z (x ++ [(py_nth 0%Z x (-1) + size)%Z]) (-1))])) ->
  forall sizes x0 last s,
    snd (fold_left F sizes (x0 ++ [last], s)) = s ++ spans last sizes.
Proof.
  intros HF. induction sizes as [|d r IH]; intros x0 last s; cbn [fold_left spans].
  - now rewrite app_nil_r.
  - rewrite HF. rewrite py_nth_last, py_nth_last2, py_nth_last.
    rewrite IH. now rewrite <- app_assoc.
Qed.

Lemma gen_accum_spans sizes : accum_for_split sizes = spans 0 sizes.
Proof.
  unfold accum_for_split. cbv zeta.
  match goal with |- context [fold_left ?F sizes ?init] =>
    pose proof (accum_fold F (fun x s size => eq_refl) sizes [] 0%Z []) as H;
    change (snd (fold_left F sizes init) = spans 0 sizes) end.
  exact H.
Qed.

Lemma spans_nat a sizes :
  spans (Z.of_nat a) (zl sizes) =
  map (fun p => (Z.of_nat (fst p), Z.of_nat (fst p + snd p))) (List.combine (starts_from a sizes) sizes).
Proof.
  revert a. induction sizes as [|d r IH]; intros a; [reflexivity|].
  cbn [zl map spans starts_from List.combine fst snd]. fold (zl r).
  replace (Z.of_nat a + Z.of_nat d)%Z with (Z.of_nat (a + d)) by lia.
  now rewrite IH.
Qed.

(* slice k of accum_for_split is [start_k, start_k + size_k) with start = Array.starts_from 0 *)
Theorem gen_accum_for_split (sizes : list nat) :
  accum_for_split (zl sizes) =
  map (fun p => (Z.of_nat (fst p), Z.of_nat (fst p + snd p))) (List.combine (starts_from 0 sizes) sizes).
Proof. rewrite gen_accum_spans. apply (spans_nat 0). Qed.

Lemma map_fst_combine_starts a sizes : map fst (List.combine (starts_from a sizes) sizes) = starts_from a sizes.
Proof.
  revert a. induction sizes as [|d r IH]; intros a; [reflexivity|].
  cbn [starts_from List.combine map fst]. now rewrite IH.
Qed.

Corollary gen_accum_starts (sizes : list nat) :
  map fst (accum_for_split (zl sizes)) = zl (starts_from 0 sizes).
Proof.
  rewrite gen_accum_for_split, map_map. cbn [fst].
  rewrite <- (map_fst_combine_starts 0 sizes) at 2. unfold zl. now rewrite map_map.
Qed.

(* ------------------------------------------------------------------ *)
(* calc_fuse_group_info *)

Definition zg (groups : list (list nat)) : list (list Z) := map zl groups.

Lemma Nateqb_spec : eqb_spec_on Nat.eqb.
Proof. intros a b. apply Nat.eqb_eq. Qed.

(* ---- association-list folds ---- *)
Lemma lookup_fold_dset {V} (f : Z -> V) l d k :
  lookup Z.eqb k (fold_left (fun acc a => dset Z.eqb a (f a) acc) l d) =
  if mem Z.eqb k l then Some (f k) else lookup Z.eqb k d.
Proof.
  revert d. induction l as [|a l IH]; intros d; [reflexivity|].
  cbn [fold_left mem]. rewrite IH, (lookup_dset Z.eqb Zeqb_spec).
  destruct (Z.eqb_spec k a) as [->|Hn]; cbn [orb]; [|reflexivity].
  destruct (mem Z.eqb a l); reflexivity.
Qed.

Lemma lookup_fold_dset_const {V} (v : V) l d k :
  lookup Z.eqb k (fold_left (fun acc a => dset Z.eqb a v acc) l d) =
  if mem Z.eqb k l then Some v else lookup Z.eqb k d.
Proof. exact (lookup_fold_dset (fun _ => v) l d k). Qed.

Lemma lookup_dsetdefault {V} k k' (v : V) d :
  lookup Z.eqb k' (dsetdefault Z.eqb k v d) =
  match lookup Z.eqb k' d with Some x => Some x | None => if Z.eqb k' k then Some v else None end.
Proof.
  unfold dsetdefault, dhas. destruct (lookup Z.eqb k d) eqn:E.
  - destruct (lookup Z.eqb k' d) eqn:E'; [reflexivity|].
    destruct (Z.eqb_spec k' k) as [->|_]; [congruence|reflexivity].
  - rewrite (lookup_dset Z.eqb Zeqb_spec).
    destruct (Z.eqb_spec k' k) as [->|_]; [now rewrite E|].
    destruct (lookup Z.eqb k' d); reflexivity.
Qed.

Lemma lookup_fold_setdefault {V} (v : V) l d k :
  lookup Z.eqb k (fold_left (fun acc i => dsetdefault Z.eqb i v acc) l d) =
  match lookup Z.eqb k d with Some x => Some x | None => if mem Z.eqb k l then Some v else None end.
Proof.
  revert d. induction l as [|a l IH]; intros d; cbn [fold_left mem].
  - destruct (lookup Z.eqb k d); reflexivity.
  - rewrite IH, lookup_dsetdefault. destruct (lookup Z.eqb k d); [reflexivity|].
    destruct (Z.eqb k a); reflexivity.
Qed.

(* ---- first / last group containing an axis ---- *)
Fixpoint gof (k : nat) (groups : list (list nat)) (ax : nat) : option nat :=
  match groups with
  | [] => None
  | g :: r => if mem Nat.eqb ax g then Some k else gof (S k) r ax
  end.

Fixpoint lgf (k : nat) (groups : list (list nat)) (ax : nat) : option nat :=
  match groups with
  | [] => None
  | g :: r => match lgf (S k) r ax with
              | Some j => Some j
              | None => if mem Nat.eqb ax g then Some k else None
              end
  end.

Lemma group_of_gof groups ax : group_of groups ax = gof 0 groups ax.
Proof.
  unfold group_of. generalize 0. induction groups as [|g r IH]; intros k; [reflexivity|].
  cbn [gof]. destruct (mem Nat.eqb ax g); [reflexivity|apply IH].
Qed.

Lemma gof_None k groups ax : gof k groups ax = None <-> ~ In ax (concat groups).
Proof.
  revert k. induction groups as [|g r IH]; intros k; cbn [gof concat].
  - split; [intros _ []|reflexivity].
  - destruct (mem Nat.eqb ax g) eqn:E.
    + apply (mem_In Nat.eqb Nateqb_spec) in E. split; [discriminate|].
      intros H. exfalso. apply H. apply in_or_app. now left.
    + rewrite IH. split.
      * intros H Hin. apply in_app_or in Hin. destruct Hin as [Hin|Hin]; [|now apply H].
        apply (mem_In Nat.eqb Nateqb_spec) in Hin. congruence.
      * intros H Hin. apply H. apply in_or_app. now right.
Qed.

Lemma lgf_None k groups ax : lgf k groups ax = None <-> ~ In ax (concat groups).
Proof.
  revert k. induction groups as [|g r IH]; intros k; cbn [lgf concat].
  - split; [intros _ []|reflexivity].
  - destruct (lgf (S k) r ax) eqn:E.
    + split; [discriminate|]. intros H. exfalso.
      assert (Hn : lgf (S k) r ax = None) by (apply IH; intros Hin; apply H; apply in_or_app; now right).
      congruence.
    + apply IH in E. destruct (mem Nat.eqb ax g) eqn:Em.
      * apply (mem_In Nat.eqb Nateqb_spec) in Em. split; [discriminate|].
        intros H. exfalso. apply H. apply in_or_app. now left.
      * split; [|reflexivity]. intros _ Hin. apply in_app_or in Hin. destruct Hin as [Hin|Hin]; [|now apply E].
        apply (mem_In Nat.eqb Nateqb_spec) in Hin. congruence.
Qed.

Lemma is_none_lgf_gof k groups ax : is_none (lgf k groups ax) = is_none (gof k groups ax).
Proof.
  destruct (lgf k groups ax) eqn:E1, (gof k groups ax) eqn:E2; try reflexivity; exfalso.
  - apply gof_None in E2. apply (lgf_None k) in E2. congruence.
  - apply lgf_None in E1. apply (gof_None k) in E1. congruence.
Qed.

Lemma NoDup_app_elim {A} (l1 l2 : list A) :
  NoDup (l1 ++ l2) -> NoDup l1 /\ NoDup l2 /\ (forall x, In x l1 -> ~ In x l2).
Proof.
  induction l1 as [|a l1 IH]; cbn [app]; intros H.
  - split; [constructor|]. split; [exact H|intros x []].
  - inversion H as [|? ? Hna H']; subst. destruct (IH H') as (H1 & H2 & Hd).
    split; [constructor; [intros Hin; apply Hna; apply in_or_app; now left|exact H1]|].
    split; [exact H2|]. intros x [<-|Hx]; [intros Hin; apply Hna; apply in_or_app; now right|now apply Hd].
Qed.

Lemma lgf_gof k groups ax : NoDup (concat groups) -> lgf k groups ax = gof k groups ax.
Proof.
  revert k. induction groups as [|g r IH]; intros k Hnd; [reflexivity|].
  cbn [lgf gof concat] in *. destruct (mem Nat.eqb ax g) eqn:Em.
  - apply (mem_In Nat.eqb Nateqb_spec) in Em.
    assert (Hn : lgf (S k) r ax = None).
    { apply lgf_None. intros Hin. apply NoDup_app_elim in Hnd.
      destruct Hnd as (_ & _ & Hdis). exact (Hdis ax Em Hin). }
    now rewrite Hn.
  - rewrite IH by (apply NoDup_app_elim in Hnd; tauto).
    destruct (gof (S k) r ax); reflexivity.
Qed.

(* ---- the loops of calc_fuse_group_info, in closed form ---- *)
Definition set_group {V} (val : Z -> V) : list (Z * V) -> Z * list Z -> list (Z * V) :=
  fun d '(g, gaxes) => fold_left (fun acc ax => dset Z.eqb ax (val g) acc) gaxes d.

Lemma loop1_fold (duals : list bool)
  (F : list bool * list (Z * option Z) * list Z -> Z * list Z -> list bool * list (Z * option Z) * list Z) :
  (forall gd a2g gs g gaxes, F (gd, a2g, gs) (g, gaxes) =
     (gd ++ [py_nth false duals (py_nth 0%Z gaxes 0%Z)],
      fold_left (fun acc ax => dset Z.eqb ax (Some g) acc) gaxes a2g,
      if Z.eqb (Z.of_nat (length gaxes)) 1 then gs ++ [g] else gs)) ->
  forall l gd a2g gs,
  fold_left F l (gd, a2g, gs) =
    (gd ++ map (fun '(_, gaxes) => py_nth false duals (py_nth 0%Z gaxes 0%Z)) l,
     fold_left (set_group Some) l a2g,
     gs ++ map fst (filter (fun '(_, gaxes) => Z.eqb (Z.of_nat (length gaxes)) 1) l)).
Proof.
  intros HF. induction l as [|[g gaxes] l IH]; intros gd a2g gs; cbn [fold_left map filter].
  - now rewrite !app_nil_r.
  - rewrite HF, IH. cbn [set_group]. f_equal; [f_equal|].
    + now rewrite <- app_assoc.
    + destruct (Z.eqb (Z.of_nat (length gaxes)) 1); cbn [map fst]; [now rewrite <- app_assoc|reflexivity].
Qed.

Definition a2g1 (groups : list (list nat)) : list (Z * option Z) :=
  fold_left (set_group Some) (py_enumerate (zg groups)) [].
Definition a2g (groups : list (list nat)) (n : nat) : list (Z * option Z) :=
  fold_left (fun acc i => dsetdefault Z.eqb i None acc) (zrange (Z.of_nat n)) (a2g1 groups).
Definition z_pos (groups : list (list nat)) : Z := py_min (map (fun g => py_min g) (zg groups)).
Definition z_unl (groups : list (list nat)) (n : nat) (ax : Z) : bool := is_none (dget Z.eqb None (a2g groups n) ax).
Definition z_before groups n : list Z :=
  map (fun ax : Z => ax) (filter (z_unl groups n) (zrange (z_pos groups))).
Definition z_after groups n : list Z :=
  map (fun ax : Z => ax) (filter (z_unl groups n) (zrange2 (z_pos groups) (Z.of_nat n))).
Definition z_perm groups n : list Z :=
  z_before groups n ++ flat_map (fun g => map (fun ax : Z => ax) g) (zg groups) ++ z_after groups n.
Definition z_gduals (groups : list (list nat)) (duals : list bool) : list bool :=
  map (fun '(_, gaxes) => py_nth false duals (py_nth 0%Z gaxes 0%Z)) (py_enumerate (zg groups)).
Definition z_singlets (groups : list (list nat)) : list Z :=
  map fst (filter (fun '(_, gaxes) => Z.eqb (Z.of_nat (length gaxes)) 1) (py_enumerate (zg groups))).
Definition z_num (groups : list (list nat)) : Z := Z.of_nat (length (zg groups)).
Definition z_newaxes groups n : list (Z * Z) :=
  fold_left (fun acc '(g, ax) => dset Z.eqb ax (z_pos groups + z_num groups + g)%Z acc) (py_enumerate (z_after groups n))
    (fold_left (set_group (fun g => (z_pos groups + g)%Z)) (py_enumerate (zg groups))
       (fold_left (fun acc ax => dset Z.eqb ax ax acc) (z_before groups n) [])).
Definition z_ndim groups n : Z :=
  (Z.of_nat (length (z_before groups n)) + z_num groups + Z.of_nat (length (z_after groups n)))%Z.

(* the generated function, loop by loop (no hypothesis on the input) *)
Lemma cfgi_unfold groups duals :
  calc_fuse_group_info (zg groups) duals =
  (z_num groups, z_singlets groups, z_ndim groups (length duals), z_perm groups (length duals),
   z_pos groups, z_before groups (length duals), z_after groups (length duals),
   a2g groups (length duals), z_gduals groups duals, z_newaxes groups (length duals)).
Proof.
  unfold calc_fuse_group_info. cbv zeta.
  erewrite loop1_fold by (intros; reflexivity).
  cbv beta iota. cbn [app].
  reflexivity.
Qed.

(* the ten projections of the generated function *)
Lemma cfgi_projections groups duals :
  cfgi_num_groups (zg groups) duals = z_num groups /\
  cfgi_group_singlets (zg groups) duals = z_singlets groups /\
  cfgi_new_ndim (zg groups) duals = z_ndim groups (length duals) /\
  cfgi_perm (zg groups) duals = z_perm groups (length duals) /\
  cfgi_position (zg groups) duals = z_pos groups /\
  cfgi_axes_before (zg groups) duals = z_before groups (length duals) /\
  cfgi_axes_after (zg groups) duals = z_after groups (length duals) /\
  cfgi_ax2group (zg groups) duals = a2g groups (length duals) /\
  cfgi_group_duals (zg groups) duals = z_gduals groups duals /\
  cfgi_new_axes (zg groups) duals = z_newaxes groups (length duals).
Proof.
  unfold cfgi_num_groups, cfgi_group_singlets, cfgi_new_ndim, cfgi_perm, cfgi_position, cfgi_axes_before,
    cfgi_axes_after, cfgi_ax2group, cfgi_group_duals, cfgi_new_axes.
  rewrite cfgi_unfold. repeat split.
Qed.

(* ---- position ---- *)
Lemma list_min_unique l m : In m l -> Forall (fun b => m <= b) l -> list_min l = m.
Proof.
  intros Hin Hle. assert (Hne : l <> []) by (intros ->; destruct Hin).
  destruct (list_min_spec l Hne) as [H1 H2].
  rewrite Forall_forall in Hle, H2. specialize (Hle _ H1). specialize (H2 _ Hin). lia.
Qed.

Lemma list_min_concat groups :
  Forall (fun g => g <> []) groups -> list_min (map list_min groups) = list_min (concat groups).
Proof.
  intros Hne. destruct groups as [|g0 r] eqn:Eg; [reflexivity|]. rewrite <- Eg in *.
  assert (Hm : map list_min groups <> []) by (rewrite Eg; discriminate).
  destruct (list_min_spec _ Hm) as [H1 H2]. symmetry. apply list_min_unique.
  - apply in_map_iff in H1. destruct H1 as (g & Hg & Hin). rewrite <- Hg.
    apply in_concat. exists g. split; [exact Hin|].
    rewrite Forall_forall in Hne. apply (list_min_spec g (Hne g Hin)).
  - apply Forall_forall. intros x Hx. apply in_concat in Hx. destruct Hx as (g & Hg & Hx).
    rewrite Forall_forall in H2, Hne. specialize (H2 (list_min g) (in_map list_min _ _ Hg)).
    destruct (list_min_spec g (Hne g Hg)) as [_ H3]. rewrite Forall_forall in H3. specialize (H3 _ Hx). lia.
Qed.

Lemma z_pos_nat groups :
  Forall (fun g => g <> []) groups -> z_pos groups = Z.of_nat (fuse_position groups).
Proof.
  intros Hne. unfold z_pos, zg, fuse_position. rewrite map_map.
  rewrite (map_ext _ (fun g => Z.of_nat (list_min g))) by (intros g; apply py_min_zl).
  rewrite <- (map_map list_min Z.of_nat). fold (zl (map list_min groups)).
  rewrite py_min_zl. now rewrite list_min_concat.
Qed.

(* ---- ax2group ---- *)
Lemma lookup_set_groups {V} (val : Z -> V) groups k d ax :
  lookup Z.eqb (Z.of_nat ax) (fold_left (set_group val) (py_enum_from (Z.of_nat k) (zg groups)) d) =
  match lgf k groups ax with
  | Some j => Some (val (Z.of_nat j))
  | None => lookup Z.eqb (Z.of_nat ax) d
  end.
Proof.
  revert k d. induction groups as [|g r IH]; intros k d; [reflexivity|].
  cbn [zg map py_enum_from fold_left lgf]. fold (zg r).
  replace (Z.of_nat k + 1)%Z with (Z.of_nat (S k)) by lia.
  rewrite IH. destruct (lgf (S k) r ax); [reflexivity|].
  cbn [set_group]. rewrite lookup_fold_dset_const, mem_zl.
  destruct (mem Nat.eqb ax g); reflexivity.
Qed.

Lemma lookup_a2g groups n ax :
  lookup Z.eqb (Z.of_nat ax) (a2g groups n) =
  match lgf 0 groups ax with
  | Some j => Some (Some (Z.of_nat j))
  | None => if Nat.ltb ax n then Some None else None
  end.
Proof.
  unfold a2g, a2g1, py_enumerate. rewrite lookup_fold_setdefault.
  change 0%Z with (Z.of_nat 0). rewrite lookup_set_groups. cbn [lookup].
  destruct (lgf 0 groups ax); [reflexivity|].
  rewrite zrange_nat, mem_zl.
  destruct (Nat.ltb_spec ax n) as [Hlt|Hge].
  - assert (H : mem Nat.eqb ax (seq 0 n) = true) by (apply (mem_In Nat.eqb Nateqb_spec); apply in_seq; lia).
    now rewrite H.
  - destruct (mem Nat.eqb ax (seq 0 n)) eqn:E; [|reflexivity].
    apply (mem_In Nat.eqb Nateqb_spec) in E. apply in_seq in E. lia.
Qed.

Lemma z_unl_nat groups n ax : z_unl groups n (Z.of_nat ax) = is_none (group_of groups ax).
Proof.
  unfold z_unl, dget. rewrite lookup_a2g, group_of_gof, <- (is_none_lgf_gof 0).
  destruct (lgf 0 groups ax); [reflexivity|]. destruct (Nat.ltb ax n); reflexivity.
Qed.

(* ---- axes_before / axes_after / perm ---- *)
Lemma map_idZ (l : list Z) : map (fun ax : Z => ax) l = l.
Proof. apply map_id. Qed.

Lemma z_before_nat groups n :
  Forall (fun g => g <> []) groups -> z_before groups n = zl (axes_before n groups).
Proof.
  intros Hne. unfold z_before, axes_before. rewrite map_idZ, (z_pos_nat groups Hne), zrange_nat.
  apply filter_zl. intros x _. apply z_unl_nat.
Qed.

Lemma z_after_nat groups n :
  Forall (fun g => g <> []) groups -> z_after groups n = zl (axes_after n groups).
Proof.
  intros Hne. unfold z_after, axes_after. rewrite map_idZ, (z_pos_nat groups Hne), zrange2_nat.
  apply filter_zl. intros x _. apply z_unl_nat.
Qed.

Lemma flat_groups groups : flat_map (fun g => map (fun ax : Z => ax) g) (zg groups) = zl (concat groups).
Proof.
  induction groups as [|g r IH]; [reflexivity|].
  cbn [zg map flat_map concat]. fold (zg r). rewrite IH, map_idZ. unfold zl. now rewrite map_app.
Qed.

Lemma z_perm_nat groups n :
  Forall (fun g => g <> []) groups -> z_perm groups n = zl (fuse_perm n groups).
Proof.
  intros Hne. unfold z_perm, fuse_perm. rewrite (z_before_nat groups n Hne), (z_after_nat groups n Hne), flat_groups.
  unfold zl. now rewrite !map_app.
Qed.

(* ---- group_duals / group_singlets / counts ---- *)
Lemma gduals_from (G : Symmetry) (ixs : list (index G)) groups k :
  map (fun '(_, gaxes) => py_nth false (map (idual G) ixs) (py_nth 0%Z gaxes 0%Z)) (py_enum_from k (zg groups)) =
  map (group_dual G ixs) groups.
Proof.
  revert k. induction groups as [|g r IH]; intros k; [reflexivity|].
  cbn [zg map py_enum_from]. fold (zg r). rewrite IH. f_equal.
  unfold group_dual. assert (H0 : py_nth 0%Z (zl g) 0%Z = Z.of_nat (hd 0 g)).
  { destruct g as [|a g]; reflexivity. }
  rewrite H0, py_nth_nat. change false with (idual G (dflt_index G)). apply map_nth.
Qed.

Lemma z_gduals_nat (G : Symmetry) (ixs : list (index G)) groups :
  z_gduals groups (map (idual G) ixs) = map (group_dual G ixs) groups.
Proof. apply gduals_from. Qed.

Lemma singlet_zl g : Z.eqb (Z.of_nat (length (zl g))) 1 = is_singlet g.
Proof.
  unfold is_singlet, zl. rewrite map_length.
  destruct (Nat.eqb_spec (length g) 1) as [->|Hn]; [reflexivity|]. apply Z.eqb_neq. lia.
Qed.

Lemma singlets_from groups k :
  map fst (filter (fun '(_, gaxes) => Z.eqb (Z.of_nat (length gaxes)) 1) (py_enum_from (Z.of_nat k) (zg groups))) =
  zl (map fst (filter (fun p => is_singlet (snd p)) (List.combine (seq k (length groups)) groups))).
Proof.
  revert k. induction groups as [|g r IH]; intros k; [reflexivity|].
  cbn [zg map py_enum_from length seq List.combine filter snd]. fold (zg r).
  replace (Z.of_nat k + 1)%Z with (Z.of_nat (S k)) by lia. rewrite singlet_zl.
  destruct (is_singlet g); cbn [map fst zl]; [f_equal|]; apply IH.
Qed.

Lemma z_singlets_nat groups :
  z_singlets groups = zl (map fst (filter (fun p => is_singlet (snd p)) (enumerate groups))).
Proof. unfold z_singlets, py_enumerate, enumerate. apply (singlets_from groups 0). Qed.

Lemma z_num_nat groups : z_num groups = Z.of_nat (length groups).
Proof. unfold z_num, zg. now rewrite map_length. Qed.

Lemma z_ndim_nat groups n :
  Forall (fun g => g <> []) groups ->
  z_ndim groups n = Z.of_nat (length (axes_before n groups) + length groups + length (axes_after n groups)).
Proof.
  intros Hne. unfold z_ndim. rewrite (z_before_nat groups n Hne), (z_after_nat groups n Hne), z_num_nat.
  unfold zl. rewrite !map_length. lia.
Qed.

(* ---- new_axes ---- *)
Lemma lookup_fold_dset_id l d k :
  lookup Z.eqb k (fold_left (fun acc ax => dset Z.eqb ax ax acc) l d) =
  if mem Z.eqb k l then Some k else lookup Z.eqb k d.
Proof. exact (lookup_fold_dset (fun a => a) l d k). Qed.

Lemma lookup_fold_enum {V} (val : Z -> V) l s d k : NoDup l ->
  lookup Z.eqb (Z.of_nat k)
    (fold_left (fun acc '(i, a) => dset Z.eqb a (val i) acc) (py_enum_from s (zl l)) d) =
  if mem Nat.eqb k l then Some (val (s + Z.of_nat (index_of k l))%Z) else lookup Z.eqb (Z.of_nat k) d.
Proof.
  revert s d. induction l as [|a l IH]; intros s d Hnd; [reflexivity|].
  inversion Hnd as [|? ? Hna Hnd']; subst.
  cbn [zl map py_enum_from fold_left mem index_of]. fold (zl l).
  rewrite (IH _ _ Hnd'), (lookup_dset Z.eqb Zeqb_spec).
  destruct (Nat.eqb_spec k a) as [->|Hn]; cbn [orb].
  - rewrite Nat.eqb_refl, Z.eqb_refl.
    destruct (mem Nat.eqb a l) eqn:E; [apply (mem_In Nat.eqb Nateqb_spec) in E; contradiction|].
    now rewrite Z.add_0_r.
  - assert (E1 : Nat.eqb a k = false) by (apply Nat.eqb_neq; congruence). rewrite E1.
    assert (E2 : Z.eqb (Z.of_nat k) (Z.of_nat a) = false) by (apply Z.eqb_neq; lia). rewrite E2.
    destruct (mem Nat.eqb k l); [|reflexivity]. do 2 f_equal. lia.
Qed.

Lemma gof_shift k m groups ax : gof (k + m) groups ax = option_map (Nat.add k) (gof m groups ax).
Proof.
  revert m. induction groups as [|g r IH]; intros m; [reflexivity|]. cbn [gof].
  destruct (mem Nat.eqb ax g); [reflexivity|]. replace (S (k + m)) with (k + S m) by lia. apply IH.
Qed.

Lemma gof_shift0 k groups ax : gof k groups ax = option_map (Nat.add k) (gof 0 groups ax).
Proof. rewrite <- (gof_shift k 0). now rewrite Nat.add_0_r. Qed.

Lemma gof_app k X Y ax :
  gof k (X ++ Y) ax = match gof k X ax with Some j => Some j | None => gof (k + length X) Y ax end.
Proof.
  revert k. induction X as [|g X IH]; intros k; cbn [app gof length].
  - now rewrite Nat.add_0_r.
  - destruct (mem Nat.eqb ax g); [reflexivity|]. rewrite IH. now replace (S k + length X) with (k + S (length X)) by lia.
Qed.

Lemma gof_singles k l ax :
  gof k (map (fun a => [a]) l) ax = if mem Nat.eqb ax l then Some (k + index_of ax l) else None.
Proof.
  revert k. induction l as [|a l IH]; intros k; [reflexivity|]. cbn [map gof mem index_of].
  rewrite (Nat.eqb_sym a ax). destruct (Nat.eqb ax a); cbn [orb]; [now rewrite Nat.add_0_r|].
  rewrite IH. destruct (mem Nat.eqb ax l); [|reflexivity]. f_equal. lia.
Qed.

Lemma index_of_seq s m i : i < m -> index_of (s + i) (seq s m) = i.
Proof.
  revert s i. induction m as [|m IH]; intros s i Hi; [lia|]. cbn [seq index_of].
  destruct i as [|i].
  - now rewrite Nat.add_0_r, Nat.eqb_refl.
  - assert (E : Nat.eqb s (s + S i) = false) by (apply Nat.eqb_neq; lia). rewrite E.
    replace (s + S i) with (S s + i) by lia. rewrite IH by lia. reflexivity.
Qed.

Lemma below_position_ungrouped groups ax : ax < fuse_position groups -> ~ In ax (concat groups).
Proof.
  unfold fuse_position. intros Hlt Hin.
  assert (Hne : concat groups <> []) by (intros E; rewrite E in Hin; destruct Hin).
  destruct (list_min_spec _ Hne) as [_ H]. rewrite Forall_forall in H. specialize (H _ Hin). lia.
Qed.

Lemma axes_before_seq n groups : axes_before n groups = seq 0 (fuse_position groups).
Proof.
  unfold axes_before. apply filter_all. intros x Hx. apply in_seq in Hx.
  rewrite group_of_gof. assert (H : gof 0 groups x = None); [|now rewrite H].
  apply gof_None. apply below_position_ungrouped. lia.
Qed.

Lemma In_axes_after n groups ax :
  In ax (axes_after n groups) -> fuse_position groups <= ax < n /\ gof 0 groups ax = None.
Proof.
  unfold axes_after. intros H. apply filter_In in H. destruct H as [H1 H2]. apply in_seq in H1.
  split; [lia|]. rewrite group_of_gof in H2. destruct (gof 0 groups ax); [discriminate|reflexivity].
Qed.

Lemma NoDup_axes_after n groups : NoDup (axes_after n groups).
Proof. unfold axes_after. apply NoDup_filter. apply seq_NoDup. Qed.

Lemma lookup_newaxes groups n ax :
  Forall (fun g => g <> []) groups ->
  lookup Z.eqb (Z.of_nat ax) (z_newaxes groups n) =
  if mem Nat.eqb ax (axes_after n groups)
  then Some (Z.of_nat (fuse_position groups + length groups + index_of ax (axes_after n groups)))
  else match lgf 0 groups ax with
       | Some j => Some (Z.of_nat (fuse_position groups + j))
       | None => if mem Nat.eqb ax (axes_before n groups) then Some (Z.of_nat ax) else None
       end.
Proof.
  intros Hne. unfold z_newaxes, py_enumerate.
  rewrite (z_after_nat groups n Hne), (z_before_nat groups n Hne), (z_pos_nat groups Hne), z_num_nat.
  rewrite (lookup_fold_enum _ _ _ _ _ (NoDup_axes_after n groups)).
  destruct (mem Nat.eqb ax (axes_after n groups)); [f_equal; lia|].
  change (py_enum_from 0%Z (zg groups)) with (py_enum_from (Z.of_nat 0) (zg groups)).
  rewrite lookup_set_groups. destruct (lgf 0 groups ax); [f_equal; lia|].
  rewrite lookup_fold_dset_id, mem_zl. reflexivity.
Qed.

(* the cells of the fused array: kept axes before, one cell per group, kept axes after *)
Definition fused_layout (n : nat) (groups : list (list nat)) : list (list nat) :=
  map (fun a => [a]) (axes_before n groups) ++ groups ++ map (fun a => [a]) (axes_after n groups).

Lemma concat_singles {A} (l : list A) : concat (map (fun a => [a]) l) = l.
Proof. induction l as [|a l IH]; [reflexivity|]. cbn [map concat app]. now rewrite IH. Qed.

Lemma concat_fused_layout n groups : concat (fused_layout n groups) = fuse_perm n groups.
Proof. unfold fused_layout, fuse_perm. now rewrite !concat_app, !concat_singles. Qed.

Definition groups_ok (n : nat) (groups : list (list nat)) : Prop :=
  Forall (fun g => g <> []) groups /\ Forall (fun ax => ax < n) (concat groups) /\ NoDup (concat groups).

Lemma newaxes_layout groups n ax : groups_ok n groups ->
  lookup Z.eqb (Z.of_nat ax) (z_newaxes groups n) = option_map Z.of_nat (group_of (fused_layout n groups) ax).
Proof.
  intros (Hne & Hrng & Hnd). rewrite (lookup_newaxes groups n ax Hne), group_of_gof.
  unfold fused_layout. rewrite !gof_app, !gof_singles, !map_length. cbn [Nat.add].
  rewrite (gof_shift0 (length (axes_before n groups)) groups ax).
  pose proof (axes_before_seq n groups) as Hb. rewrite Hb, seq_length.
  rewrite <- (lgf_gof 0 groups ax Hnd).
  destruct (mem Nat.eqb ax (axes_after n groups)) eqn:Ea.
  - apply (mem_In Nat.eqb Nateqb_spec) in Ea. apply In_axes_after in Ea. destruct Ea as [Hr Hg].
    rewrite <- (lgf_gof 0 groups ax Hnd) in Hg. rewrite Hg.
    destruct (mem Nat.eqb ax (seq 0 (fuse_position groups))) eqn:Eb.
    + apply (mem_In Nat.eqb Nateqb_spec) in Eb. apply in_seq in Eb. lia.
    + cbn [option_map]. reflexivity.
  - destruct (lgf 0 groups ax) as [j|] eqn:El.
    + destruct (mem Nat.eqb ax (seq 0 (fuse_position groups))) eqn:Eb.
      * apply (mem_In Nat.eqb Nateqb_spec) in Eb. apply in_seq in Eb.
        assert (Hn : lgf 0 groups ax = None) by (apply lgf_None; apply below_position_ungrouped; lia).
        congruence.
      * cbn [option_map]. reflexivity.
    + destruct (mem Nat.eqb ax (seq 0 (fuse_position groups))) eqn:Eb.
      * apply (mem_In Nat.eqb Nateqb_spec) in Eb. apply in_seq in Eb.
        cbn [option_map]. rewrite <- (index_of_seq 0 (fuse_position groups) ax) at 1 by lia.
        reflexivity.
      * cbn [option_map]. reflexivity.
Qed.

(* ---- new_ndim: rank after fusing ---- *)
Lemma filter_length_split {A} (f : A -> bool) l :
  length (filter f l) + length (filter (fun x => negb (f x)) l) = length l.
Proof. induction l as [|a l IH]; [reflexivity|]. cbn [filter]. destruct (f a); cbn [negb length]; lia. Qed.

Lemma position_le n groups : Forall (fun ax => ax < n) (concat groups) -> fuse_position groups <= n.
Proof.
  intros Hrng. unfold fuse_position.
  destruct (list_eq_dec Nat.eq_dec (concat groups) []) as [E|Hne]; [rewrite E; cbn; lia|].
  destruct (list_min_spec _ Hne) as [H _]. rewrite Forall_forall in Hrng.
  specialize (Hrng _ H). lia.
Qed.

Lemma kept_axes_count n groups : groups_ok n groups ->
  length (axes_before n groups) + length (axes_after n groups) + length (concat groups) = n.
Proof.
  intros (Hne & Hrng & Hnd). pose proof (position_le n groups Hrng) as Hp.
  unfold axes_before, axes_after. rewrite <- app_length, <- filter_app, <- seq_app.
  replace (fuse_position groups + (n - fuse_position groups)) with n by lia.
  rewrite <- (seq_length n 0) at 2.
  rewrite <- (filter_length_split (fun ax => is_none (group_of groups ax)) (seq 0 n)). f_equal.
  apply Permutation_length. apply NoDup_Permutation; [exact Hnd|apply NoDup_filter, seq_NoDup|].
  intros x. rewrite filter_In, in_seq, group_of_gof. split.
  - intros Hin. split; [rewrite Forall_forall in Hrng; specialize (Hrng _ Hin); lia|].
    destruct (gof 0 groups x) eqn:E; [reflexivity|]. apply gof_None in E. contradiction.
  - intros [_ H]. destruct (gof 0 groups x) eqn:E; [|discriminate].
    destruct (in_dec Nat.eq_dec x (concat groups)) as [Hin|Hnin]; [exact Hin|].
    apply (gof_None 0) in Hnin. congruence.
Qed.

(* ---- membership in the enumerated singlet list ---- *)
Lemma In_combine_seq {A} (l : list A) k j x d :
  In (j, x) (List.combine (seq k (length l)) l) <-> (k <= j < k + length l /\ nth (j - k) l d = x).
Proof.
  revert k. induction l as [|a l IH]; intros k; cbn [length seq List.combine In].
  - split; [intros []|intros [H _]; lia].
  - split.
    + intros [H|H].
      * inversion H; subst. split; [lia|]. now rewrite Nat.sub_diag.
      * apply IH in H. destruct H as [H1 H2]. split; [lia|].
        replace (j - k) with (S (j - S k)) by lia. exact H2.
    + intros [H1 H2]. destruct (Nat.eq_dec j k) as [->|Hn].
      * left. rewrite Nat.sub_diag in H2. cbn [nth] in H2. now subst.
      * right. apply IH. split; [lia|]. replace (j - k) with (S (j - S k)) in H2 by lia. exact H2.
Qed.

Lemma In_singlets groups j :
  In (Z.of_nat j) (zl (map fst (filter (fun p => is_singlet (snd p)) (enumerate groups)))) <->
  j < length groups /\ is_singlet (nth j groups []) = true.
Proof.
  unfold zl, enumerate. rewrite in_map_iff. split.
  - intros (j' & Hj & Hin). apply Nat2Z.inj in Hj. subst j'.
    apply in_map_iff in Hin. destruct Hin as ([j' g] & Hj & Hin). cbn [fst] in Hj. subst j'.
    apply filter_In in Hin. destruct Hin as [Hin Hs]. cbn [snd] in Hs.
    apply (In_combine_seq groups 0 j g []) in Hin. destruct Hin as [H1 H2].
    rewrite Nat.sub_0_r in H2. split; [lia|now rewrite H2].
  - intros [Hlt Hs]. exists j. split; [reflexivity|]. apply in_map_iff.
    exists (j, nth j groups []). split; [reflexivity|]. apply filter_In. split; [|exact Hs].
    apply (In_combine_seq groups 0 j _ []). rewrite Nat.sub_0_r. split; [lia|reflexivity].
Qed.

(* ================================================================== *)
(* The theorems: GENERATED calc_fuse_group_info (axes as Z) = hand model (axes as nat).
   `groups_ok n groups`: non-empty groups of in-range, pairwise distinct axes. *)

Theorem gen_cfgi_num_groups groups duals :
  cfgi_num_groups (zg groups) duals = Z.of_nat (length groups).
Proof. destruct (cfgi_projections groups duals) as (H & _). rewrite H. apply z_num_nat. Qed.

Theorem gen_cfgi_position groups duals :
  Forall (fun g => g <> []) groups ->
  cfgi_position (zg groups) duals = Z.of_nat (fuse_position groups).
Proof.
  intros Hne. destruct (cfgi_projections groups duals) as (_ & _ & _ & _ & H & _). rewrite H.
  now apply z_pos_nat.
Qed.

Theorem gen_cfgi_axes_before groups duals :
  Forall (fun g => g <> []) groups ->
  cfgi_axes_before (zg groups) duals = zl (axes_before (length duals) groups).
Proof.
  intros Hne. destruct (cfgi_projections groups duals) as (_ & _ & _ & _ & _ & H & _). rewrite H.
  now apply z_before_nat.
Qed.

Theorem gen_cfgi_axes_after groups duals :
  Forall (fun g => g <> []) groups ->
  cfgi_axes_after (zg groups) duals = zl (axes_after (length duals) groups).
Proof.
  intros Hne. destruct (cfgi_projections groups duals) as (_ & _ & _ & _ & _ & _ & H & _). rewrite H.
  now apply z_after_nat.
Qed.

Theorem gen_cfgi_perm groups duals :
  Forall (fun g => g <> []) groups ->
  cfgi_perm (zg groups) duals = zl (fuse_perm (length duals) groups).
Proof.
  intros Hne. destruct (cfgi_projections groups duals) as (_ & _ & _ & H & _). rewrite H.
  now apply z_perm_nat.
Qed.

(* group_duals[g] is the direction of the group's FIRST axis = Array.group_dual *)
Theorem gen_cfgi_group_duals (G : Symmetry) (ixs : list (index G)) groups :
  cfgi_group_duals (zg groups) (map (idual G) ixs) = map (group_dual G ixs) groups.
Proof.
  destruct (cfgi_projections groups (map (idual G) ixs)) as (_ & _ & _ & _ & _ & _ & _ & _ & H & _).
  rewrite H. apply z_gduals_nat.
Qed.

(* group_singlets lists, in order, exactly the group numbers with Array.is_singlet *)
Theorem gen_cfgi_group_singlets groups duals :
  cfgi_group_singlets (zg groups) duals =
    zl (map fst (filter (fun p => is_singlet (snd p)) (enumerate groups))) /\
  (forall j, In (Z.of_nat j) (cfgi_group_singlets (zg groups) duals) <->
             j < length groups /\ is_singlet (nth j groups []) = true).
Proof.
  destruct (cfgi_projections groups duals) as (_ & H & _). rewrite H, z_singlets_nat.
  split; [reflexivity|]. intros j. apply In_singlets.
Qed.

Theorem gen_cfgi_new_ndim groups duals :
  groups_ok (length duals) groups ->
  cfgi_new_ndim (zg groups) duals =
    Z.of_nat (length (axes_before (length duals) groups) + length groups + length (axes_after (length duals) groups)) /\
  cfgi_new_ndim (zg groups) duals = Z.of_nat (length duals - length (concat groups) + length groups).
Proof.
  intros Hok. destruct (cfgi_projections groups duals) as (_ & _ & H & _). rewrite H.
  pose proof (kept_axes_count _ _ Hok) as Hc. destruct Hok as (Hne & _ & _).
  rewrite (z_ndim_nat groups _ Hne). split; [reflexivity|]. f_equal. lia.
Qed.

(* ax2group on range(ndim): the number of the group containing the axis, None for kept axes *)
Theorem gen_cfgi_ax2group groups duals ax :
  NoDup (concat groups) -> ax < length duals ->
  lookup Z.eqb (Z.of_nat ax) (cfgi_ax2group (zg groups) duals) =
    Some (option_map Z.of_nat (group_of groups ax)).
Proof.
  intros Hnd Hlt. destruct (cfgi_projections groups duals) as (_ & _ & _ & _ & _ & _ & _ & H & _). rewrite H.
  rewrite lookup_a2g, group_of_gof, (lgf_gof 0 groups ax Hnd).
  destruct (gof 0 groups ax); [reflexivity|].
  destruct (Nat.ltb_spec ax (length duals)); [reflexivity|lia].
Qed.

(* new_axes: every axis is sent to the number of the cell of the fused layout
   (kept axes before, one cell per group, kept axes after) that contains it;
   the concatenation of the cells is fuse_perm *)
Theorem gen_cfgi_new_axes groups duals :
  groups_ok (length duals) groups ->
  concat (fused_layout (length duals) groups) = fuse_perm (length duals) groups /\
  forall ax, lookup Z.eqb (Z.of_nat ax) (cfgi_new_axes (zg groups) duals) =
             option_map Z.of_nat (group_of (fused_layout (length duals) groups) ax).
Proof.
  intros Hok. split; [apply concat_fused_layout|]. intros ax.
  destruct (cfgi_projections groups duals) as (_ & _ & _ & _ & _ & _ & _ & _ & _ & H). rewrite H.
  now apply newaxes_layout.
Qed.

(* the hypotheses are satisfiable on a non-trivial instance: rank 6, groups (4,1) and (3),
   axis 0 kept before, axes 2 and 5 kept after *)
Example groups_ok_example : groups_ok 6 [[4; 1]; [3]].
Proof.
  split; [repeat constructor; discriminate|]. split; [repeat constructor|].
  cbn [concat app]. repeat constructor; cbn [In]; intuition discriminate.
Qed.

Example cfgi_example :
  calc_fuse_group_info (zg [[4; 1]; [3]]) [true; false; false; true; true; false] =
  (2, [1], 5, [0; 4; 1; 3; 2; 5], 1, [0], [2; 5],
   [(4, Some 0); (1, Some 0); (3, Some 1); (0, None); (2, None); (5, None)],
   [true; true], [(0, 0); (4, 1); (1, 1); (3, 2); (2, 3); (5, 4)])%Z.
Proof. vm_compute. reflexivity. Qed.
