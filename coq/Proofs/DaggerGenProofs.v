(* Proofs/DaggerGenProofs.v — the function GENERATED from the current source of FermionicArray.dagger
   (Gen/PhasesGen.v: dagger_gen, tr/gen_phases.py) computes exactly the state of the hand model
   Model/Fermi.v: f_dagger — index directions, charge, the re-keyed blocks, the pending-sign table
   (equality of association lists, insertion order included) and the odd-position labels — for both
   settings of phase_dual.

   The source pops the old table entry by entry while it builds the new table and the new blocks under
   the reversed sectors; `dagger_loop` is the loop invariant (the not yet visited sectors still read
   their original entry in the popped table; the reversed sectors visited so far are the keys written).
   The hand model re-keys the blocks with `permuted s (rev_axes n)`; on stored sectors of the right
   length (lens_ok, part of C01's wf_array) that is `rev s`, the key the source computes.

   Then: the hand-level array rebuilt from the generated state (dagger_via_gen) IS f_dagger, so C10's
   laws of the adjoint hold of the generated function: adjoint = conjugate then fermionic reversal (through
   dagger_gen, conj_gen and transpose_gen) and the double adjoint. *)
From SV Require Import Base.Prelude Base.PyList Base.Sym Base.Tensor Gen.PhasePerm Gen.OpOrder Gen.PhasesGen
  Model.Sectors Model.Array Model.Arith Model.Wf Model.Fermi Model.SymInst Model.Graded
  Proofs.SymLaws Proofs.FermiProofs Proofs.LazyProofs Proofs.ConjProofs Proofs.PhasesGenProofs.
From Coq Require Import Permutation.
Local Open Scope Z_scope.

(* ------------------------------------------------------------------ *)
(* generic dict facts *)
Section Dict.
  Context {K : Type} (e : K -> K -> bool) (e_spec : forall a b, e a b = true <-> a = b).

  Lemma dset_fresh {V} k (v : V) d : ~ In k (keys d) -> dset e k v d = d ++ [(k, v)].
  Proof.
    unfold keys. induction d as [|[k' v'] d IH]; intro H; cbn [dset app]; [reflexivity|].
    cbn [map fst In] in H. rewrite (e_false e e_spec) by (intro E; apply H; left; now symmetry).
    f_equal. apply IH. intro Hin. apply H. now right.
  Qed.

  Lemma ghas_gdel_other s k p : s <> k -> ghas e s (gdel e k p) = ghas e s p.
  Proof.
    intro Hne. destruct (ghas e s p) eqn:E.
    - apply (ghas_In e e_spec). apply (in_gdel e e_spec). split; [now apply (ghas_In e e_spec) | exact Hne].
    - apply (ghas_notin e e_spec). intro Hin. apply (in_gdel e e_spec) in Hin. destruct Hin as [Hin _].
      apply (ghas_In e e_spec) in Hin. congruence.
  Qed.

  Lemma NoDup_flat_if {A} (c : A -> bool) (f : A -> K) l :
    NoDup (map f l) -> NoDup (flat_map (fun a => if c a then [f a] else []) l).
  Proof.
    induction l as [|a l IH]; intro H; cbn [flat_map]; [constructor|].
    cbn [map] in H. inversion H as [|? ? Hn Hnd]; subst.
    destruct (c a); cbn [app]; [|now apply IH]. constructor; [|now apply IH].
    intro Hin. apply Hn. apply in_flat_map in Hin. destruct Hin as [b [Hb Hin]].
    destruct (c b); [|destruct Hin]. destruct Hin as [<- | []]. now apply in_map.
  Qed.

  Lemma in_flat_if {A} (c : A -> bool) (f : A -> K) l k :
    In k (flat_map (fun a => if c a then [f a] else []) l) -> In k (map f l).
  Proof.
    intro Hin. apply in_flat_map in Hin. destruct Hin as [b [Hb Hin]].
    destruct (c b); [|destruct Hin]. destruct Hin as [<- | []]. now apply in_map.
  Qed.
End Dict.

Lemma rev_inj {A} (a b : list A) : rev a = rev b -> a = b.
Proof. intro H. rewrite <- (rev_involutive a), <- (rev_involutive b). now f_equal. Qed.

Lemma NoDup_map_rev_gen {A} (l : list (list A)) : NoDup l -> NoDup (map (@rev A) l).
Proof.
  induction l as [|s l IH]; intro H; cbn [map]; [constructor|].
  inversion H as [|? ? Hn Hnd]; subst. constructor; [|now apply IH].
  intro Hin. apply in_map_iff in Hin. destruct Hin as [t [E Ht]]. apply rev_inj in E. subst t. contradiction.
Qed.

Section DaggerGen.
  Context (G : Symmetry) (R : Ring).
  Context (ceqb_spec : forall a b : C G, ceqb G a b = true <-> a = b).
  Context (PO : parity_ok G).
  Notation sector := (list (C G)).
  Notation keq := (list_eqb (ceqb G)).
  Notation farr := (farray G R).
  Notation T := (tensor R).
  Notation kspec := (keq_spec G ceqb_spec).

  (* ---------------------------------------------------------------- *)
  (* the loop of dagger: `while old: sector, array = blocks.popitem-like walk` as the translator renders
     it — a fold over the items of the blocks with state (popped old table, new table, new blocks) *)
  Definition dagger_step {B} (g : B -> B)
      (st : list (sector * Z) * list (sector * Z) * list (sector * B)) (kv : sector * B) :=
    let '((v5, v6), v7) := st in
    let '(v8, v9) := kv in
    let v10 := rev v8 in
    let v11 := py_dict_get keq 1 v5 v8 in
    let v12 := dpop keq v8 v5 in
    let v14 := if v11 =? - (1) then dset keq v10 (- (1)) v6 else v6 in
    let v15 := dset keq v10 (g v9) v7 in
    ((v12, v14), v15).

  Definition rekey {B} (g : B -> B) (kv : sector * B) : sector * B := (rev (fst kv), g (snd kv)).

  Lemma keys_rekey {B} (g : B -> B) (l : list (sector * B)) : keys (map (rekey g) l) = map (@rev _) (keys l).
  Proof. unfold keys. rewrite !map_map. reflexivity. Qed.

  Lemma dagger_loop {B} (g : B -> B) (ph0 : list sector) : forall (l : list (sector * B)) p acc accb,
    NoDup (keys l) -> NoDup p ->
    (forall s, In s (keys l) -> ghas keq s p = ghas keq s ph0) ->
    (forall s, In s (keys l) -> ~ In (rev s) acc) ->
    (forall s, In s (keys l) -> ~ In (rev s) (keys accb)) ->
    fold_left (dagger_step g) l ((tbl_of p, tbl_of acc), accb)
    = ((tbl_of (fold_left (fun q s => gdel keq s q) (keys l) p),
        tbl_of (acc ++ flat_map (fun s => if ghas keq s ph0 then [rev s] else []) (keys l))),
       accb ++ map (rekey g) l).
  Proof.
    induction l as [|[k v] l IH]; intros p acc accb Hl Hp Hread Hacc Haccb.
    - cbn [fold_left keys map flat_map]. now rewrite !app_nil_r.
    - cbn [keys map fst] in Hl. fold (keys l) in Hl. inversion Hl as [|? ? Hk Hl']; subst.
      cbn [fold_left]. unfold dagger_step at 2. cbv zeta.
      rewrite (get_tbl keq), (dpop_tbl keq kspec) by exact Hp.
      rewrite (Hread k) by now left.
      rewrite (dset_fresh keq kspec (rev k) (g v) accb) by (apply Haccb; now left).
      assert (Hread' : forall s, In s (keys l) -> ghas keq s (gdel keq k p) = ghas keq s ph0).
      { intros s Hs. rewrite (ghas_gdel_other keq kspec) by (intro E; subst s; contradiction).
        apply Hread. now right. }
      assert (Haccb' : forall s, In s (keys l) -> ~ In (rev s) (keys (accb ++ [(rev k, g v)]))).
      { intros s Hs Hin. unfold keys in Hin. rewrite map_app in Hin. apply in_app_or in Hin.
        destruct Hin as [Hin | [E | []]].
        - apply (Haccb s); [now right | exact Hin].
        - cbn [fst] in E. apply rev_inj in E. subst s. contradiction. }
      cbn [keys map fst flat_map]. fold (keys l).
      destruct (ghas keq k ph0) eqn:Ek.
      + change (-1 =? - (1)) with true. cbv iota.
        change (- (1)) with (-1).
        rewrite (dset_tbl_notin keq) by (apply (ghas_notin keq kspec), Hacc; now left).
        rewrite IH; [ | exact Hl' | now apply (NoDup_gdel keq) | exact Hread' | | exact Haccb'].
        * cbn [rekey fst snd]. unfold rekey at 2. cbn [fst snd]. rewrite <- !app_assoc. reflexivity.
        * intros s Hs Hin. apply in_app_or in Hin. destruct Hin as [Hin | [E | []]].
          -- apply (Hacc s); [now right | exact Hin].
          -- apply rev_inj in E. subst s. contradiction.
      + change (1 =? - (1)) with false. cbv iota.
        rewrite IH; [ | exact Hl' | now apply (NoDup_gdel keq) | exact Hread' | | exact Haccb'].
        * unfold rekey at 2. cbn [fst snd app]. rewrite <- !app_assoc. reflexivity.
        * intros s Hs. apply Hacc. now right.
  Qed.

  (* ---------------------------------------------------------------- *)
  (* the axes the phase_dual part flips: the non-dual legs of the NEW (reversed, conjugated) index list *)
  Definition ket_axes (ix : list bool) : list nat := map fst (filter (fun p => negb (snd p)) (enumerate ix)).

  Lemma dagger_axes_gen (ix : list bool) :
    map (fun '(v39, _) => v39)
        (filter (fun '(_, v40) => negb (gindex_dual v40)) (py_enumerate (map (fun v1 => gindex_conj v1) (rev ix))))
    = map Z.of_nat (ket_axes (map negb (rev ix))).
  Proof.
    unfold py_enumerate, ket_axes, enumerate.
    pose proof (enum_filter_gen (fun b => negb (gindex_dual b)) (fun v1 => gindex_conj v1) (rev ix) 0%nat) as E.
    change (Z.of_nat 0) with 0 in E. cbv beta in E. etransitivity; [exact E|]. f_equal.
    exact (enum_map_filter negb negb (rev ix) 0%nat).
  Qed.

  Definition dagger_table (ix : list bool) (ch : C G) (secs : list sector) (odd : list fop) (ph : list sector)
      (pd : bool) : list sector :=
    let secs' := map (@rev _) secs in
    let ph0 := flat_map (fun s => if ph_has G s ph then [rev s] else []) secs in
    let ph1 := if parity G (sign G ch true) && Nat.odd (length (Fermi.oddpos_dag odd))
               then fold_left (ph_toggle G) secs' ph0 else ph0 in
    if pd then
      let axs := ket_axes (map negb (rev ix)) in
      if is_nil axs then ph1
      else fold_left (fun ph s => if count_odd G s axs then ph_toggle G ph s else ph) secs' ph1
    else ph1.

  Lemma bits_ok_rev secs : bits_ok G secs -> bits_ok G (map (@rev _) secs).
  Proof.
    intros H s c Hs Hc. apply in_map_iff in Hs. destruct Hs as [t [<- Ht]]. apply (H t c Ht). now apply in_rev.
  Qed.

  Lemma NoDup_dagger_ph0 secs ph : NoDup secs ->
    NoDup (flat_map (fun s => if ph_has G s ph then [rev s] else []) secs).
  Proof. intro H. apply NoDup_flat_if. now apply NoDup_map_rev_gen. Qed.

  Lemma NoDup_dagger_table ix ch secs odd ph pd : NoDup secs -> NoDup (dagger_table ix ch secs odd ph pd).
  Proof.
    intro H. unfold dagger_table. cbv zeta.
    set (ph0 := flat_map (fun s => if ph_has G s ph then [rev s] else []) secs).
    assert (H0 : NoDup ph0) by now apply NoDup_dagger_ph0.
    set (ph1 := if parity G (sign G ch true) && Nat.odd (length (Fermi.oddpos_dag odd))
                then fold_left (ph_toggle G) (map (@rev _) secs) ph0 else ph0).
    assert (H1 : NoDup ph1).
    { unfold ph1. destruct (parity G (sign G ch true) && Nat.odd (length (Fermi.oddpos_dag odd))); [|exact H0].
      now apply (NoDup_fold_toggle_all G ceqb_spec). }
    destruct pd; [|exact H1]. destruct (is_nil _); [exact H1|]. now apply (NoDup_fold_toggle G ceqb_spec).
  Qed.

  (* dagger: the WHOLE state, for any block type and any backend conj / transpose *)
  Lemma gen_dagger {B} (bconj btr : B -> B) ix ch (bl : list (sector * B)) odd ph (pd : bool) :
    NoDup ph -> NoDup (keys bl) -> bits_ok G (keys bl) ->
    dagger_gen G B bconj btr ix ch bl (tbl_of ph) odd pd
    = (map negb (rev ix), sign G ch true, map (rekey (fun v => btr (bconj v))) bl,
       tbl_of (dagger_table ix ch (keys bl) odd ph pd), Fermi.oddpos_dag odd).
  Proof.
    intros Hph Hbl Hb. unfold dagger_gen. rewrite dagger_axes_gen. cbv zeta.
    match goal with |- context [fold_left ?F bl ?i] =>
      rewrite (fold_left_ext F (dagger_step (fun v => btr (bconj v)))) by (intros [[a1 a2] a3] [k v]; reflexivity)
    end.
    change (@nil (sector * Z)) with (tbl_of (@nil sector)).
    rewrite (dagger_loop (fun v => btr (bconj v)) ph bl ph [] [] Hbl Hph (fun _ _ => eq_refl) (fun _ _ F => F) (fun _ _ F => F)).
    cbn [app]. cbv beta iota.
    set (ph0 := flat_map (fun s => if ghas keq s ph then [rev s] else []) (keys bl)).
    assert (H0 : NoDup ph0) by (apply NoDup_dagger_ph0; exact Hbl).
    set (bl' := map (rekey (fun v => btr (bconj v))) bl).
    assert (Hk : keys bl' = map (@rev _) (keys bl)) by apply keys_rekey.
    assert (Hb' : bits_ok G (keys bl')) by (rewrite Hk; now apply bits_ok_rev).
    rewrite odd_length_mod.
    unfold dagger_table. cbv zeta. fold ph0. rewrite <- Hk.
    set (cond := parity G (sign G ch true) && Nat.odd (length (Fermi.oddpos_dag odd))).
    repeat match goal with |- context [if ?c then _ else _] =>
      lazymatch c with
      | cond => fail
      | _ => change c with cond
      end end.
    destruct cond.
    - rewrite (gen_phase_global G ceqb_spec) by exact H0. cbv beta iota.
      destruct pd; [|reflexivity].
      rewrite (gen_phase_flip G ceqb_spec PO) by (try exact Hb'; now apply (NoDup_fold_toggle_all G ceqb_spec)).
      reflexivity.
    - cbv beta iota. destruct pd; [|reflexivity].
      rewrite (gen_phase_flip G ceqb_spec PO) by assumption. reflexivity.
  Qed.
End DaggerGen.

(* ------------------------------------------------------------------ *)
(* the generated dagger on the state of a hand-model array = the hand model's f_dagger *)
Section DaggerModel.
  Context (G : Symmetry) (R : Ring).
  Context (ceqb_spec : forall a b : C G, ceqb G a b = true <-> a = b).
  Context (PO : parity_ok G).
  Notation sector := (list (C G)).
  Notation keq := (list_eqb (ceqb G)).
  Notation farr := (farray G R).
  Notation T := (tensor R).

  Lemma idual_iconj (i : index G) : idual G (iconj G i) = negb (idual G i).
  Proof. now destruct i. Qed.

  Lemma duals_dagger (b : aarray G R) : duals G R (a_dagger G R b) = map negb (rev (duals G R b)).
  Proof.
    unfold duals. rewrite indices_dagger, <- !map_rev, !map_map. apply map_ext. intro i. apply idual_iconj.
  Qed.

  Lemma ket_axes_indices (ixs : list (index G)) :
    ket_axes (map (idual G) ixs) = map fst (filter (fun p => negb (idual G (snd p))) (enumerate ixs)).
  Proof. unfold ket_axes, enumerate. symmetry. apply (enum_map_filter negb (idual G) ixs 0%nat). Qed.

  (* the table dagger_gen computes is the hand model's *)
  Lemma dagger_table_model (x : farr) (pd : bool) : lens_ok G R (fbase G R x) ->
    dagger_table G (duals G R (fbase G R x)) (charge G R (fbase G R x)) (fsectors G R x) (foddpos G R x) (fphases G R x) pd
    = fphases G R (f_dagger G R x pd).
  Proof.
    intro Hl. unfold dagger_table, f_dagger. cbv zeta.
    rewrite <- duals_dagger. unfold duals at 1 2. rewrite !ket_axes_indices.
    unfold fparity. cbn [fbase foddpos].
    change (charge G R (a_dagger G R (fbase G R x))) with (sign G (charge G R (fbase G R x)) true).
    assert (Hs : forall ph od, fsectors G R (mkF G R (a_dagger G R (fbase G R x)) ph od) = map (@rev _) (fsectors G R x))
      by (intros; unfold fsectors; cbn [fbase]; now apply sectors_dagger).
    destruct (parity G (sign G (charge G R (fbase G R x)) true) && Nat.odd (length (Fermi.oddpos_dag (foddpos G R x))));
      unfold f_phase_global, f_phase_flip, with_phases; cbn [fbase fphases foddpos]; rewrite ?Hs;
      (destruct pd; [|reflexivity]); (destruct (is_nil _); [reflexivity|]); cbn [fbase fphases foddpos]; rewrite ?Hs; reflexivity.
  Qed.

  (* any block type: table, labels, charge, index directions, and the keys of the re-keyed blocks *)
  Lemma phases_dagger (x : farr) {B} (bconj btr : B -> B) (bl : list (sector * B)) (pd : bool) :
    keys bl = fsectors G R x ->
    NoDup (fphases G R x) -> NoDup (fsectors G R x) -> bits_ok G (fsectors G R x) -> lens_ok G R (fbase G R x) ->
    let st := dagger_gen G B bconj btr (duals G R (fbase G R x)) (charge G R (fbase G R x)) bl (tbl_of (fphases G R x))
                         (foddpos G R x) pd in
    st_phases st = tbl_of (fphases G R (f_dagger G R x pd)) /\
    st_oddpos st = foddpos G R (f_dagger G R x pd) /\
    st_charge st = charge G R (fbase G R (f_dagger G R x pd)) /\
    st_indices st = duals G R (fbase G R (f_dagger G R x pd)) /\
    keys (st_blocks st) = fsectors G R (f_dagger G R x pd) /\
    st_blocks st = map (rekey G (fun v => btr (bconj v))) bl.
  Proof.
    intros Hk Hph Hnd Hb Hl. cbv zeta. rewrite <- Hk in Hnd, Hb.
    rewrite (gen_dagger G ceqb_spec PO) by assumption.
    cbn [st_phases st_oddpos st_charge st_indices st_blocks].
    rewrite Hk, dagger_table_model by exact Hl.
    rewrite (foddpos_dagger G R), (fsectors_dagger G R) by exact Hl. rewrite (fbase_dagger G R), duals_dagger.
    rewrite keys_rekey, Hk. repeat split; reflexivity.
  Qed.

  (* the blocks themselves: conj and full-reversal transpose of the tensors, under the reversed sectors *)
  Lemma blocks_dagger (x : farr) (pd : bool) :
    NoDup (fphases G R x) -> NoDup (fsectors G R x) -> bits_ok G (fsectors G R x) -> lens_ok G R (fbase G R x) ->
    let b := fbase G R x in
    let st := dagger_gen G T (tconj R) (fun t => ttranspose R t (rev_axes (ndim G R b))) (duals G R b) (charge G R b)
                         (blocks G R b) (tbl_of (fphases G R x)) (foddpos G R x) pd in
    st_phases st = tbl_of (fphases G R (f_dagger G R x pd)) /\
    st_blocks st = blocks G R (fbase G R (f_dagger G R x pd)) /\
    st_oddpos st = foddpos G R (f_dagger G R x pd) /\
    st_charge st = charge G R (fbase G R (f_dagger G R x pd)) /\
    st_indices st = duals G R (fbase G R (f_dagger G R x pd)).
  Proof.
    intros Hph Hnd Hb Hl. cbv zeta.
    destruct (phases_dagger x (tconj R) (fun t => ttranspose R t (rev_axes (ndim G R (fbase G R x))))
                (blocks G R (fbase G R x)) pd eq_refl Hph Hnd Hb Hl) as (E1 & E2 & E3 & E4 & _ & E6).
    repeat split; try assumption.
    rewrite E6, (fbase_dagger G R). unfold a_dagger, a_transpose, a_conj. cbn [blocks]. rewrite map_map.
    apply map_ext_in. intros [s t] Hin. unfold rekey. cbn [fst snd]. f_equal.
    symmetry. apply permuted_rev_axes. apply Hl. unfold sectors. apply in_map_iff. now exists (s, t).
  Qed.
End DaggerModel.

(* ------------------------------------------------------------------ *)
(* The hand-level array rebuilt from the state the GENERATED dagger returns on the state of x: blocks,
   charge, sign table and labels are the generated function's; the index tables (of which the generated
   state knows only the directions) are the reversed conjugated ones. *)
Section DaggerVia.
  Context (G : Symmetry) (R : Ring).
  Notation sector := (list (C G)).
  Notation farr := (farray G R).
  Notation T := (tensor R).

  Definition dagger_state (x : farr) (pd : bool) :=
    let b := fbase G R x in
    dagger_gen G T (tconj R) (fun t => ttranspose R t (rev_axes (ndim G R b))) (duals G R b) (charge G R b)
               (blocks G R b) (tbl_of (fphases G R x)) (foddpos G R x) pd.

  Definition dagger_via_gen (x : farr) (pd : bool) : farr :=
    let st := dagger_state x pd in
    mkF G R (mkA G R (rev (map (iconj G) (indices G R (fbase G R x)))) (st_charge st) (st_blocks st))
        (minus_keys (st_phases st)) (st_oddpos st).

  Context (ceqb_spec : forall a b : C G, ceqb G a b = true <-> a = b).
  Context (PO : parity_ok G).

  (* the well-formedness the tie needs *)
  Definition dagger_ok (x : farr) : Prop :=
    NoDup (fphases G R x) /\ NoDup (fsectors G R x) /\ bits_ok G (fsectors G R x) /\ lens_ok G R (fbase G R x).

  Lemma dagger_via_gen_eq x pd : dagger_ok x -> dagger_via_gen x pd = f_dagger G R x pd.
  Proof.
    intros (Hph & Hnd & Hb & Hl). unfold dagger_via_gen, dagger_state. cbv zeta.
    destruct (blocks_dagger G R ceqb_spec PO x pd Hph Hnd Hb Hl) as (E1 & E2 & E3 & E4 & _).
    rewrite E1, E2, E3, E4, minus_keys_tbl, <- (dagger_indices G R x pd).
    destruct (f_dagger G R x pd) as [[i c bl] ph od]. reflexivity.
  Qed.

  (* the directions of the generated state are those of the rebuilt index tables *)
  Lemma dagger_via_gen_duals x pd : dagger_ok x ->
    st_indices (dagger_state x pd) = duals G R (fbase G R (dagger_via_gen x pd)).
  Proof.
    intros (Hph & Hnd & Hb & Hl). unfold dagger_via_gen, dagger_state. cbv zeta.
    destruct (blocks_dagger G R ceqb_spec PO x pd Hph Hnd Hb Hl) as (_ & _ & _ & _ & E5).
    rewrite E5, (fbase_dagger G R). cbn [fbase]. unfold duals. cbn [indices]. now rewrite indices_dagger.
  Qed.

  (* the adjoint of a well-formed array is well-formed (so the tie can be applied twice) *)
  Lemma dagger_ok_dagger x pd : dagger_ok x -> dagger_ok (f_dagger G R x pd).
  Proof.
    intros (Hph & Hnd & Hb & Hl). repeat split.
    - rewrite <- (dagger_table_model G R x pd Hl). now apply (NoDup_dagger_table G ceqb_spec).
    - rewrite (fsectors_dagger G R) by exact Hl. now apply NoDup_map_rev_gen.
    - rewrite (fsectors_dagger G R) by exact Hl. now apply bits_ok_rev.
    - rewrite (fbase_dagger G R). now apply lens_ok_dagger.
  Qed.
End DaggerVia.

(* C01's validity predicate gives the well-formedness (the sign table only has to have no key twice) *)
Lemma dagger_ok_of_wf (G : Symmetry) (GL : GroupLaws G) (R : Ring) (x : farray G R) :
  wf_array G R (fbase G R x) = true -> NoDup (fphases G R x) -> dagger_ok G R x.
Proof.
  intros Hwf Hph. pose proof (wf_array_awf G GL R _ Hwf) as Hw. repeat split.
  - exact Hph.
  - exact (awf_nodup G R _ Hw).
  - apply (bits_ok_of_valid G _ GL). intros s c Hs Hc.
    pose proof (awf_valid G R _ Hw s Hs) as Hf. rewrite Forall_forall in Hf. now apply Hf.
  - now apply awf_lens.
Qed.

(* ---- C10 through the generated functions ---- *)
(* adjoint = conjugate followed by the fermionic reversal of the axes: the array the generated dagger
   returns has the value and the labels of the generated transpose (reversal, phase=True) applied to
   the array the generated conj (phase_permutation=True, same phase_dual) returns *)
Lemma dagger_via_gen_conj_transpose (G : Symmetry) (GL : GroupLaws G) (R : Ring) (x : farray G R) (pd : bool) :
  wf_array G R (fbase G R x) = true -> NoDup (fphases G R x) ->
  feq G R (dagger_via_gen G R x pd)
          (transpose_via_gen G R (conj_via_gen G R x true pd) (rev_axes (ndim G R (fbase G R x))) true).
Proof.
  intros Hwf Hph.
  pose proof (dagger_ok_of_wf G GL R x Hwf Hph) as Hok. destruct Hok as (_ & Hnd & Hb & Hl).
  pose proof (parity_ok_of_laws G GL) as PO.
  rewrite (dagger_via_gen_eq G R (ceqb_eq G GL) PO) by (repeat split; assumption).
  rewrite (conj_via_gen_eq G R (ceqb_eq G GL) PO x true pd Hph Hb).
  rewrite (transpose_via_gen_eq G R (ceqb_eq G GL)).
  - now apply dagger_eq_conj_transpose_wf.
  - rewrite fsectors_f_conj. apply (NoDup_map_permuted G _ _ (ndim G R (fbase G R x))).
    + unfold rev_axes. apply Permutation_sym, Permutation_rev.
    + exact Hl.
    + exact Hnd.
Qed.

(* the double adjoint (default dual-leg option), and with the option: exactly the parity sign *)
Lemma dagger_via_gen_dagger (G : Symmetry) (GL : GroupLaws G) (R : Ring) :
  (forall a, rconj R (rconj R a) = a) -> rconj R (r0 R) = r0 R ->
  forall x : farray G R, wf_array G R (fbase G R x) = true -> NoDup (fphases G R x) ->
  feq G R (dagger_via_gen G R (dagger_via_gen G R x false) false) x.
Proof.
  intros Hcc Hc0 x Hwf Hph.
  pose proof (dagger_ok_of_wf G GL R x Hwf Hph) as Hok. pose proof (parity_ok_of_laws G GL) as PO.
  rewrite (dagger_via_gen_eq G R (ceqb_eq G GL) PO x false Hok).
  rewrite (dagger_via_gen_eq G R (ceqb_eq G GL) PO) by (apply (dagger_ok_dagger G R (ceqb_eq G GL)); exact Hok).
  now apply dagger_dagger_wf.
Qed.

Lemma dagger_via_gen_dagger_pd (G : Symmetry) (GL : GroupLaws G) (R : Ring) :
  (forall a, rconj R (rconj R a) = a) -> (forall a, rneg R (rneg R a) = a) -> rconj R (r0 R) = r0 R ->
  forall x : farray G R, wf_array G R (fbase G R x) = true -> NoDup (fphases G R x) ->
  feq_sign G R (fparity G R x) (dagger_via_gen G R (dagger_via_gen G R x true) true) x.
Proof.
  intros Hcc Hnn Hc0 x Hwf Hph.
  pose proof (dagger_ok_of_wf G GL R x Hwf Hph) as Hok. pose proof (parity_ok_of_laws G GL) as PO.
  rewrite (dagger_via_gen_eq G R (ceqb_eq G GL) PO x true Hok).
  rewrite (dagger_via_gen_eq G R (ceqb_eq G GL) PO) by (apply (dagger_ok_dagger G R (ceqb_eq G GL)); exact Hok).
  now apply dagger_dagger_pd_wf.
Qed.

(* ------------------------------------------------------------------ *)
(* the hypotheses hold and the generated function computes on concrete non-trivial instances:
   ConjProofs.ex_x1 (Z2, Gaussian-integer data, rank 3, directions ket/bra/ket, ODD charge, four sectors,
   two pending signs, one label: the global sign fires) and ex_x2 (U1, rank 2, bra/ket, charge -1) *)
Example ex_dagger_ok_1 : dagger_ok Z2 GRing ex_x1.
Proof. apply (dagger_ok_of_wf Z2 Z2_laws GRing ex_x1 ex_x1_wf). repeat constructor; cbn; intuition discriminate. Qed.
Example ex_dagger_ok_2 : dagger_ok U1 ZRing ex_x2.
Proof. apply (dagger_ok_of_wf U1 U1_laws ZRing ex_x2 ex_x2_wf). repeat constructor; cbn; intuition discriminate. Qed.

(* the generated state by evaluation, both option values: directions, charge, re-keyed sectors, table, labels *)
Example ex_dagger_state_1 :
  let st := dagger_state Z2 GRing ex_x1 false in
  st_indices st = [true; false; true] /\ st_charge st = 1 /\
  keys (st_blocks st) = [[0;0;1]; [0;1;0]; [1;1;1]; [1;0;0]] /\
  st_phases st = [([0;0;1], -1); ([1;0;0], -1)] /\ st_oddpos st = [([3], true)].
Proof. vm_compute. repeat split. Qed.
Example ex_dagger_state_1_pd :
  let st := dagger_state Z2 GRing ex_x1 true in
  st_phases st = [([0;0;1], -1); ([1;0;0], -1); ([0;1;0], -1); ([1;1;1], -1)].
Proof. vm_compute. reflexivity. Qed.
Example ex_dagger_state_2 :
  st_phases (dagger_state U1 ZRing ex_x2 false) = [([0;1], -1); ([-1;0], -1)] /\
  st_phases (dagger_state U1 ZRing ex_x2 true) = [([-1;0], -1)].
Proof. vm_compute. split; reflexivity. Qed.

(* and, independently of the theorem, by evaluation: the rebuilt array is the hand model's adjoint *)
Example ex_dagger_via_eval :
  farray_eqb_strict _ _ (dagger_via_gen Z2 GRing ex_x1 false) (f_dagger _ _ ex_x1 false) = true /\
  farray_eqb_strict _ _ (dagger_via_gen Z2 GRing ex_x1 true) (f_dagger _ _ ex_x1 true) = true /\
  farray_eqb_strict _ _ (dagger_via_gen U1 ZRing ex_x2 false) (f_dagger _ _ ex_x2 false) = true /\
  farray_eqb_strict _ _ (dagger_via_gen U1 ZRing ex_x2 true) (f_dagger _ _ ex_x2 true) = true.
Proof. vm_compute. repeat split. Qed.

(* the theorems at the instances *)
Example ex_dagger_via_eq_1 pd : dagger_via_gen Z2 GRing ex_x1 pd = f_dagger _ _ ex_x1 pd.
Proof. exact (dagger_via_gen_eq Z2 GRing (ceqb_eq Z2 Z2_laws) (parity_ok_of_laws Z2 Z2_laws) ex_x1 pd ex_dagger_ok_1). Qed.
Example ex_dagger_via_law_2 pd :
  feq U1 ZRing (dagger_via_gen U1 ZRing ex_x2 pd) (transpose_via_gen U1 ZRing (conj_via_gen U1 ZRing ex_x2 true pd) (rev_axes 2) true).
Proof.
  apply (dagger_via_gen_conj_transpose U1 U1_laws ZRing ex_x2 pd ex_x2_wf). repeat constructor; cbn; intuition discriminate.
Qed.
