(* Proofs/SymLaws.v — the group laws hold for the five GENERATED symmetries,
   for all integers (U1, U1U1) and all valid charges (Z2, Z4, Z2Z2). *)
From SV Require Import Base.Prelude Base.Sym Gen.Symmetries Model.SymInst.
From Coq Require Import Permutation ZifyBool.
Local Open Scope Z_scope.
Ltac Zify.zify_post_hook ::= Z.to_euclidean_division_equations.

(* ---------- generic facts ---------- *)
Lemma zsum_perm l1 l2 : Permutation l1 l2 -> zsum l1 = zsum l2.
Proof.
  induction 1 as [|x l l' _ IH|x y l|l l' l'' _ IH1 _ IH2]; rewrite ?zsum_cons in *; lia.
Qed.

Lemma forallb_single {A} (f : A -> bool) (l : list A) :
  forallb f l = true <-> Forall (fun c => forallb f [c] = true) l.
Proof.
  induction l as [|x l IH]; cbn [forallb].
  - split; [constructor | reflexivity].
  - rewrite andb_true_iff, IH. split.
    + intros [H1 H2]. constructor; [cbn; now rewrite H1 | exact H2].
    + intros H. inversion H as [|? ? H1 H2]; subst. cbn in H1. rewrite andb_true_r in H1. now split.
Qed.

Lemma odd_zsum l : Z.odd (zsum l) = xorb_list (map Z.odd l).
Proof.
  induction l as [|x l IH]; [reflexivity|].
  rewrite zsum_cons, Z.odd_add, IH. reflexivity.
Qed.

Lemma par_mod2 x : negb (Z.eqb (x mod 2) 0) = Z.odd x.
Proof. rewrite (Zmod_odd x). destruct (Z.odd x); reflexivity. Qed.

Lemma odd_mod_even x n : 0 < n -> Z.even n = true -> Z.odd (x mod n) = Z.odd x.
Proof.
  intros Hn He. rewrite (Z.div_mod x n) at 2 by lia.
  rewrite Z.odd_add, Z.odd_mul.
  assert (Ho : Z.odd n = false) by (rewrite <- Z.negb_even, He; reflexivity).
  rewrite Ho. cbn [andb]. now rewrite xorb_false_l.
Qed.

Lemma map_ext_Forall {A B} (f g : A -> B) (P : A -> Prop) l :
  Forall P l -> (forall x, P x -> f x = g x) -> map f l = map g l.
Proof. induction 1 as [|x l Hx _ IH]; intros H; cbn; [reflexivity | rewrite (H x Hx), IH; auto]. Qed.

(* ---------- Z2 ---------- *)
Lemma Z2_valid1 c : Z2_valid [c] = true <-> c = 0 \/ c = 1.
Proof. unfold Z2_valid. cbn [forallb mem]. lia. Qed.

Theorem Z2_laws : GroupLaws Z2.
Proof.
  constructor; unfold valid, parity, ident; cbn [C ceqb valid_all combine sign parityZ Z2].
  - intros a b. apply Z.eqb_eq.
  - intros l. unfold Z2_valid. apply forallb_single.
  - intros l _. apply Z2_valid1. unfold Z2_combine. generalize (zsum l). intros. lia.
  - intros l1 l2 _ _. unfold Z2_combine. rewrite zsum_app, !zsum_cons. cbn [zsum fold_right].
    generalize (zsum l1) (zsum l2). intros. lia.
  - intros l1 l2 H. unfold Z2_combine. now rewrite (zsum_perm _ _ H).
  - intros c H. apply Z2_valid1 in H. unfold Z2_combine. rewrite !zsum_cons. cbn [zsum fold_right]. lia.
  - intros c H. apply Z2_valid1 in H. unfold Z2_combine. rewrite !zsum_cons. cbn [zsum fold_right]. lia.
  - reflexivity.
  - intros c d H. exact H.
  - intros c H. apply Z2_valid1 in H. unfold Z2_combine, Z2_sign. rewrite !zsum_cons. cbn [zsum fold_right]. lia.
  - intros c H. apply Z2_valid1 in H. unfold Z2_parity. lia.
  - intros l _. unfold Z2_combine, Z2_parity. rewrite par_mod2, odd_mod_even by (reflexivity || lia).
    rewrite odd_zsum. f_equal. apply map_ext. intros x. symmetry. apply par_mod2.
Qed.

(* ---------- Z4 ---------- *)
Lemma Z4_valid1 c : Z4_valid [c] = true <-> 0 <= c < 4.
Proof. unfold Z4_valid. cbn [forallb mem]. lia. Qed.

Theorem Z4_laws : GroupLaws Z4.
Proof.
  constructor; unfold valid, parity, ident; cbn [C ceqb valid_all combine sign parityZ Z4].
  - intros a b. apply Z.eqb_eq.
  - intros l. unfold Z4_valid. apply forallb_single.
  - intros l _. apply Z4_valid1. unfold Z4_combine. generalize (zsum l). intros. lia.
  - intros l1 l2 _ _. unfold Z4_combine. rewrite zsum_app, !zsum_cons. cbn [zsum fold_right].
    generalize (zsum l1) (zsum l2). intros. lia.
  - intros l1 l2 H. unfold Z4_combine. now rewrite (zsum_perm _ _ H).
  - intros c H. apply Z4_valid1 in H. unfold Z4_combine. rewrite !zsum_cons. cbn [zsum fold_right]. lia.
  - intros c H. apply Z4_valid1 in H. unfold Z4_combine. rewrite !zsum_cons. cbn [zsum fold_right]. lia.
  - reflexivity.
  - intros c d H. apply Z4_valid1 in H. apply Z4_valid1. unfold Z4_sign. destruct d; lia.
  - intros c H. apply Z4_valid1 in H. unfold Z4_combine, Z4_sign. rewrite !zsum_cons. cbn [zsum fold_right]. lia.
  - intros c H. apply Z4_valid1 in H. unfold Z4_parity. lia.
  - intros l _. unfold Z4_combine, Z4_parity. rewrite par_mod2, odd_mod_even by (reflexivity || lia).
    rewrite odd_zsum. f_equal. apply map_ext. intros x. symmetry. apply par_mod2.
Qed.

(* ---------- U1 (all integers) ---------- *)
Lemma U1_valid_true l : U1_valid l = true.
Proof. unfold U1_valid. induction l; cbn; auto. Qed.

Theorem U1_laws : GroupLaws U1.
Proof.
  constructor; unfold valid, parity, ident; cbn [C ceqb valid_all combine sign parityZ U1].
  - intros a b. apply Z.eqb_eq.
  - intros l. unfold U1_valid. apply forallb_single.
  - intros l _. apply U1_valid_true.
  - intros l1 l2 _ _. unfold U1_combine. rewrite zsum_app, !zsum_cons. cbn [zsum fold_right]. lia.
  - intros l1 l2 H. unfold U1_combine. now rewrite (zsum_perm _ _ H).
  - intros c _. unfold U1_combine. rewrite !zsum_cons. cbn [zsum fold_right]. lia.
  - intros c _. unfold U1_combine. rewrite !zsum_cons. cbn [zsum fold_right]. lia.
  - reflexivity.
  - intros c d _. apply U1_valid_true.
  - intros c _. unfold U1_combine, U1_sign, sign_scalar. rewrite !zsum_cons. cbn [zsum fold_right]. lia.
  - intros c _. unfold U1_parity. lia.
  - intros l _. unfold U1_combine, U1_parity. rewrite par_mod2, odd_zsum. f_equal.
    apply map_ext. intros x. symmetry. apply par_mod2.
Qed.

(* ---------- pairs: componentwise folds ---------- *)
Definition lxor_list (l : list Z) : Z := fold_right Z.lxor 0 l.

Lemma fold_pair_lxor (l : list (Z * Z)) a b :
  fold_left (fun '(c0, c1) '(cl, cr) => (Z.lxor c0 cl, Z.lxor c1 cr)) l (a, b)
  = (Z.lxor a (lxor_list (map fst l)), Z.lxor b (lxor_list (map snd l))).
Proof.
  revert a b. induction l as [|[x y] l IH]; intros a b; cbn [fold_left map fst snd lxor_list fold_right].
  - now rewrite !Z.lxor_0_r.
  - rewrite IH. fold (lxor_list (map fst l)) (lxor_list (map snd l)). now rewrite !Z.lxor_assoc.
Qed.

Lemma fold_pair_add (l : list (Z * Z)) a b :
  fold_left (fun '(c0, c1) '(cl, cr) => (Z.add c0 cl, Z.add c1 cr)) l (a, b)
  = (a + zsum (map fst l), b + zsum (map snd l)).
Proof.
  revert a b. induction l as [|[x y] l IH]; intros a b; cbn [fold_left map fst snd].
  - cbn. f_equal; lia.
  - rewrite IH, !zsum_cons. f_equal; lia.
Qed.

Lemma Z2Z2_combine_eq l : Z2Z2_combine l = (lxor_list (map fst l), lxor_list (map snd l)).
Proof.
  unfold Z2Z2_combine. cbv zeta.
  match goal with |- (let '(x, y) := ?F in _) = _ =>
    replace F with (Z.lxor 0 (lxor_list (map fst l)), Z.lxor 0 (lxor_list (map snd l))) end.
  - now rewrite !Z.lxor_0_l.
  - symmetry. rewrite <- fold_pair_lxor. apply f_equal3; try reflexivity.
Qed.

Lemma U1U1_combine_eq l : U1U1_combine l = (zsum (map fst l), zsum (map snd l)).
Proof.
  unfold U1U1_combine. cbv zeta.
  match goal with |- (let '(x, y) := ?F in _) = _ =>
    replace F with (0 + zsum (map fst l), 0 + zsum (map snd l)) end.
  - f_equal; lia.
  - symmetry. rewrite <- fold_pair_add. apply f_equal3; try reflexivity.
Qed.

Lemma lxor_list_app l1 l2 : lxor_list (l1 ++ l2) = Z.lxor (lxor_list l1) (lxor_list l2).
Proof.
  induction l1 as [|x l1 IH]; cbn [app lxor_list fold_right]; [now rewrite Z.lxor_0_l|].
  fold (lxor_list (l1 ++ l2)) (lxor_list l1). now rewrite IH, Z.lxor_assoc.
Qed.

Lemma lxor_list_perm l1 l2 : Permutation l1 l2 -> lxor_list l1 = lxor_list l2.
Proof.
  induction 1 as [|x l l' _ IH|x y l|l l' l'' _ IH1 _ IH2]; cbn [lxor_list fold_right] in *.
  - reflexivity.
  - fold (lxor_list l) (lxor_list l'). now rewrite IH.
  - fold (lxor_list l). rewrite <- !Z.lxor_assoc. now rewrite (Z.lxor_comm y x).
  - congruence.
Qed.

Definition b01 (x : Z) : Prop := x = 0 \/ x = 1.
Lemma lxor_b01 a b : b01 a -> b01 b -> b01 (Z.lxor a b).
Proof. intros [->| ->] [->| ->]; cbn; unfold b01; auto. Qed.
Lemma lxor_list_b01 l : Forall b01 l -> b01 (lxor_list l).
Proof. induction 1 as [|x l Hx _ IH]; cbn [lxor_list fold_right]; [left; reflexivity | now apply lxor_b01]. Qed.
Lemma b01_par x : b01 x -> negb (Z.eqb x 0) = Z.odd x.
Proof. intros [->| ->]; reflexivity. Qed.
Lemma odd_lxor a b : Z.odd (Z.lxor a b) = xorb (Z.odd a) (Z.odd b).
Proof. rewrite <- !Z.bit0_odd. apply Z.lxor_spec. Qed.
Lemma odd_lxor_list l : Z.odd (lxor_list l) = xorb_list (map Z.odd l).
Proof. induction l as [|x l IH]; [reflexivity|]. cbn [lxor_list fold_right map xorb_list]. fold (lxor_list l). now rewrite odd_lxor, IH. Qed.

Lemma xorb_list_pair {A} (f g : A -> bool) l :
  xorb (xorb_list (map f l)) (xorb_list (map g l)) = xorb_list (map (fun c => xorb (f c) (g c)) l).
Proof.
  induction l as [|x l IH]; [reflexivity|]. cbn [map xorb_list fold_right].
  fold (xorb_list (map f l)) (xorb_list (map g l)) (xorb_list (map (fun c => xorb (f c) (g c)) l)).
  rewrite <- IH. destruct (f x), (g x), (xorb_list (map f l)), (xorb_list (map g l)); reflexivity.
Qed.

Lemma Z2Z2_valid1 c : Z2Z2_valid [c] = true <-> b01 (fst c) /\ b01 (snd c).
Proof. unfold Z2Z2_valid, b01. cbn [forallb mem]. lia. Qed.

Lemma Z2Z2_valid_forall l : Z2Z2_valid l = true -> Forall b01 (map fst l) /\ Forall b01 (map snd l).
Proof.
  unfold Z2Z2_valid. intros H. apply forallb_single in H.
  induction H as [|x l Hx _ IH]; cbn [map]; [split; constructor|].
  apply Z2Z2_valid1 in Hx. destruct Hx, IH. split; constructor; assumption.
Qed.

Lemma pair_eqb_eq (a b : Z * Z) : pair_eqb Z.eqb Z.eqb a b = true <-> a = b.
Proof.
  destruct a as [a1 a2], b as [b1 b2]. unfold pair_eqb. cbn [fst snd].
  rewrite andb_true_iff, !Z.eqb_eq. split; [intros [-> ->]; reflexivity | intros H; inversion H; auto].
Qed.

Theorem Z2Z2_laws : GroupLaws Z2Z2.
Proof.
  constructor; unfold valid, parity, ident; cbn [C ceqb valid_all combine sign parityZ Z2Z2].
  - apply pair_eqb_eq.
  - intros l. unfold Z2Z2_valid. apply forallb_single.
  - intros l H. apply Z2Z2_valid_forall in H. destruct H as [H1 H2].
    apply Z2Z2_valid1. rewrite Z2Z2_combine_eq. cbn [fst snd]. split; now apply lxor_list_b01.
  - intros l1 l2 _ _. rewrite !Z2Z2_combine_eq. cbn [map fst snd lxor_list fold_right].
    rewrite !map_app, !lxor_list_app, !Z.lxor_0_r. reflexivity.
  - intros l1 l2 H. rewrite !Z2Z2_combine_eq.
    now rewrite (lxor_list_perm _ _ (Permutation_map fst H)), (lxor_list_perm _ _ (Permutation_map snd H)).
  - intros [c1 c2] _. rewrite !Z2Z2_combine_eq. cbn [map fst snd lxor_list fold_right]. now rewrite !Z.lxor_0_r.
  - intros [c1 c2] _. rewrite !Z2Z2_combine_eq. cbn [map fst snd lxor_list fold_right]. now rewrite !Z.lxor_0_r.
  - reflexivity.
  - intros c d H. exact H.
  - intros [c1 c2] _. unfold Z2Z2_sign. rewrite !Z2Z2_combine_eq. cbn [map fst snd lxor_list fold_right].
    now rewrite !Z.lxor_0_r, !Z.lxor_nilpotent.
  - intros c H. apply Z2Z2_valid1 in H. destruct H as [H1 H2]. unfold Z2Z2_parity. now apply lxor_b01.
  - intros l H. pose proof (Z2Z2_valid_forall _ H) as [H1 H2].
    unfold Z2Z2_parity. rewrite Z2Z2_combine_eq. cbn [fst snd].
    rewrite b01_par by (apply lxor_b01; now apply lxor_list_b01).
    rewrite odd_lxor, !odd_lxor_list, !map_map, xorb_list_pair. f_equal.
    apply forallb_single in H.
    apply (map_ext_Forall _ _ _ _ H). intros x Hx. apply Z2Z2_valid1 in Hx. destruct Hx.
    rewrite b01_par by now apply lxor_b01. now rewrite odd_lxor.
Qed.

(* ---------- U1U1 (all integer pairs) ---------- *)
Lemma U1U1_valid_true l : U1U1_valid l = true.
Proof. unfold U1U1_valid. induction l; cbn; auto. Qed.

Theorem U1U1_laws : GroupLaws U1U1.
Proof.
  constructor; unfold valid, parity, ident; cbn [C ceqb valid_all combine sign parityZ U1U1].
  - apply pair_eqb_eq.
  - intros l. unfold U1U1_valid. apply forallb_single.
  - intros l _. apply U1U1_valid_true.
  - intros l1 l2 _ _. rewrite !U1U1_combine_eq. cbn [map fst snd]. rewrite !map_app, !zsum_app, !zsum_cons.
    cbn [zsum fold_right]. f_equal; lia.
  - intros l1 l2 H. rewrite !U1U1_combine_eq.
    now rewrite (zsum_perm _ _ (Permutation_map fst H)), (zsum_perm _ _ (Permutation_map snd H)).
  - intros [c1 c2] _. rewrite !U1U1_combine_eq. cbn [map fst snd]. rewrite !zsum_cons. cbn [zsum fold_right]. f_equal; lia.
  - intros [c1 c2] _. rewrite !U1U1_combine_eq. cbn [map fst snd]. rewrite !zsum_cons. cbn [zsum fold_right]. f_equal; lia.
  - intros [c1 c2]. reflexivity.
  - intros c d _. apply U1U1_valid_true.
  - intros [c1 c2] _. unfold U1U1_sign, sign_tuple, sign_scalar. rewrite !U1U1_combine_eq. cbn [map fst snd].
    rewrite !zsum_cons. cbn [zsum fold_right]. f_equal; lia.
  - intros c _. unfold U1U1_parity. lia.
  - intros l _. unfold U1U1_parity. rewrite U1U1_combine_eq. cbn [fst snd].
    rewrite par_mod2, Z.odd_add, !odd_zsum, !map_map, xorb_list_pair. f_equal.
    apply map_ext. intros x. now rewrite par_mod2, Z.odd_add.
Qed.
