(* Proofs/ReshapeArrayProofs3.v — property C07, ARRAY level, continuation of
   Proofs/ReshapeArrayProofs2.v: the round trip of `a_reshape` for SEVERAL merged
   runs of adjacent axes at once.

   The forward plan fuses adjacent runs in one fuse call and non-adjacent runs in
   successive calls; the way back unfuses the fused axes from the FIRST to the
   last, whereas the C05 round trip (`unfuse_fuse_groups_thm`) unfuses from the
   last group to the first.  The proof goes through a semantic pre-order
   `sem_ge z' z` (z' is z up to explicit zero blocks: both well-formed, same
   indices and charge, same value at every coordinate, every stored sector of z
   stored in z'):
     A. `sem_ge` is equivalent to `restores` between well-formed arrays;
     B. `a_unfuse` is monotone for `sem_ge` and two unfuse steps on different
        axes commute up to `sem_ge`, hence unfusing a set of fused axes first to
        last is `sem_ge` unfusing them last to first;
     C. the plans `calc_reshape_args` returns for merging several runs and for
        the way back;
     D. the fuse calls of the forward plan, undone last to first, restore the
        array (nesting the C05 round trip), hence by B the way back does — at the
        array level for ANY sizes (roundtrip_calls, reshape_roundtrip_of_forward_plan);
     E. reshapes that only insert size-one axes: the forward plan; the round trip
        insert-then-back is NOT exact (refuted with a witness);
     F. reshapes that only drop size-one axes: the squeeze phases of
        calc_reshape_args, the forward plan, and the round trip by D;
     G. the composite statement (merging and dropping mixed), not proved in general. *)
From SV Require Import Base.Prelude Base.Sym Base.Tensor Model.Sectors Model.Array Model.Wf Model.Arith
  Model.SymInst Proofs.SymLaws Proofs.TensorProofs Proofs.OrderProofs Proofs.FuseTensor Proofs.FuseProofs
  Proofs.GroupFacts Proofs.SectorsProofs Proofs.StructProofs Proofs.WfProofs Proofs.WfProofs2
  Proofs.FuseGroups Proofs.FuseGroupsWf.
From SV Require Model.ReshapeArgs Proofs.ReshapeArgsProofs Proofs.ReshapePlanProofs.
From SV Require Import Model.ReshapeArray Proofs.ReshapeArrayProofs Proofs.ReshapeArrayProofs2.
From Coq Require Import Permutation Sorting.
Local Open Scope nat_scope.

(* ------------------------------------------------------------------ *)
(* Part A: the semantic pre-order *)
Section SemOrder.
  Context (G : Symmetry) (R : Ring) (GL : GroupLaws G) (OL : OrderLaws G).
  Notation arr := (aarray G R).
  Notation keq := (list_eqb (ceqb G)).
  Notation sector := (list (C G)).
  Notation dflt := (dflt_index G).
  Notation idc := (ident G).

  Definition sem_ge (z' z : arr) : Prop :=
    wf_array G R z' = true /\ wf_array G R z = true /\
    indices G R z' = indices G R z /\ charge G R z' = charge G R z /\
    (forall cs, coords_ok G (indices G R z) cs = true -> sem G R z' cs = sem G R z cs) /\
    incl (sectors G R z) (sectors G R z').

  Lemma sem_ge_refl z : wf_array G R z = true -> sem_ge z z.
  Proof. intros H. repeat split; try assumption. apply incl_refl. Qed.

  Lemma sem_ge_trans z2 z1 z0 : sem_ge z2 z1 -> sem_ge z1 z0 -> sem_ge z2 z0.
  Proof.
    intros (W2 & W1 & I21 & Q21 & S21 & N21) (_ & W0 & I10 & Q10 & S10 & N10).
    split; [exact W2|]. split; [exact W0|]. split; [congruence|]. split; [congruence|]. split.
    - intros cs Hc. rewrite <- (S10 cs Hc). apply S21. now rewrite I10.
    - intros s Hs. apply N21, N10, Hs.
  Qed.

  Lemma Hkq3 : eqb_spec_on keq.
  Proof. apply (Hke G GL). Qed.

  (* a multi-index inside the block of a sector is a coordinate inside the tables *)
  Lemma coords_of_idx : forall (ixs : list (index G)) (s : sector) (idx : list nat),
    length s = length ixs -> inb (block_shape G ixs s) idx = true ->
    coords_ok G ixs (List.combine s idx) = true /\ map fst (List.combine s idx) = s /\
    map snd (List.combine s idx) = idx.
  Proof.
    induction ixs as [|ix ixs IH]; intros [|c s] idx Hl Hi; cbn [length] in Hl; try discriminate.
    - destruct idx; [|discriminate]. repeat split.
    - unfold block_shape in Hi. cbn [List.combine map fst snd] in Hi.
      destruct idx as [|o idx]; [discriminate|]. cbn [inb] in Hi. apply andb_true_iff in Hi. destruct Hi as [Ho Hi].
      destruct (IH s idx) as (H1 & H2 & H3); [lia|exact Hi|].
      cbn [List.combine map fst snd]. rewrite H2, H3. split; [|split; reflexivity].
      unfold coords_ok in *. cbn [length List.combine forallb fst snd].
      apply andb_true_iff in H1. destruct H1 as [H1a H1b].
      apply andb_true_iff. split; [exact H1a|]. rewrite Ho. exact H1b.
  Qed.

  Lemma wf_block (z : arr) s b : wf_array G R z = true -> In (s, b) (blocks G R z) ->
    length s = length (indices G R z) /\ tshape b = block_shape G (indices G R z) s /\
    length (tdata b) = shape_size (tshape b).
  Proof.
    intros W Hin. apply (wf_array_iff G GL R) in W. destruct W as [_ _ _ Hb].
    destruct (Hb s b Hin) as ((Hl & _) & Hsh & Hd). repeat split; assumption.
  Qed.

  Lemma wf_nodup (z : arr) : wf_array G R z = true -> NoDup (sectors G R z).
  Proof. intros W. apply (wf_array_iff G GL R) in W. now destruct W. Qed.

  Lemma sem_stored (z : arr) s b idx : wf_array G R z = true -> In (s, b) (blocks G R z) ->
    inb (tshape b) idx = true ->
    coords_ok G (indices G R z) (List.combine s idx) = true /\ sem G R z (List.combine s idx) = get R b idx.
  Proof.
    intros W Hin Hi. destruct (wf_block z s b W Hin) as (Hl & Hsh & _). rewrite Hsh in Hi.
    destruct (coords_of_idx _ s idx Hl Hi) as (H1 & H2 & H3). split; [exact H1|].
    unfold sem. rewrite H2, H3. now rewrite (In_lookup keq Hkq3 s b _ (wf_nodup z W) Hin).
  Qed.

  (* A1: the semantic pre-order gives `restores` *)
  Theorem restores_of_sem_ge x' x : sem_ge x' x -> restores G R x' x.
  Proof.
    intros (W' & W & HI & HQ & HS & HN).
    assert (Hown : forall s b, In (s, b) (blocks G R x) -> lookup keq s (blocks G R x') = Some b).
    { intros s b Hin.
      assert (Hs : In s (sectors G R x')) by (apply HN; unfold sectors; apply in_map_iff; exists (s, b); now split).
      unfold sectors in Hs. apply in_map_iff in Hs. destruct Hs as ([s' b'] & Es & Hin'). cbn [fst] in Es. subst s'.
      rewrite (In_lookup keq Hkq3 s b' _ (wf_nodup x' W') Hin'). f_equal.
      destruct (wf_block x s b W Hin) as (Hl & Hsh & Hd).
      destruct (wf_block x' s b' W' Hin') as (Hl' & Hsh' & Hd').
      apply (tensor_ext R); [now rewrite Hsh, Hsh', HI|exact Hd'|exact Hd|].
      intros idx Hidx.
      destruct (sem_stored x' s b' idx W' Hin' Hidx) as (_ & <-).
      assert (Hidx2 : inb (tshape b) idx = true) by (now rewrite Hsh, <- HI, <- Hsh').
      destruct (sem_stored x s b idx W Hin Hidx2) as (Hc & <-). now apply HS. }
    split; [exact HI|]. split; [exact HQ|]. split; [exact Hown|]. split; [|exact HS].
    intros k t Hin.
    destruct (lookup keq k (blocks G R x)) as [b|] eqn:E.
    - left. apply (lookup_In keq Hkq3) in E. pose proof (Hown k b E) as Hl.
      rewrite (In_lookup keq Hkq3 k t _ (wf_nodup x' W') Hin) in Hl. inversion Hl. subst b. exact E.
    - right. destruct (wf_block x' k t W' Hin) as (Hl & Hsh & Hd).
      apply (all_zero_of_get R t Hd). intros idx Hidx.
      destruct (sem_stored x' k t idx W' Hin Hidx) as (Hc & <-). rewrite HI in Hc.
      rewrite (HS _ Hc). unfold sem.
      rewrite Hsh in Hidx. destruct (coords_of_idx _ k idx Hl Hidx) as (_ & -> & _). now rewrite E.
  Qed.

  (* A2: and conversely *)
  Theorem sem_ge_of_restores x' x : wf_array G R x' = true -> wf_array G R x = true ->
    restores G R x' x -> sem_ge x' x.
  Proof.
    intros W' W (HI & HQ & Hown & _ & HS). repeat split; try assumption.
    intros s Hs. unfold sectors in Hs. apply in_map_iff in Hs. destruct Hs as ([s' b] & <- & Hin). cbn [fst].
    apply Hown in Hin. apply (lookup_In keq Hkq3) in Hin. unfold sectors. apply in_map_iff. exists (s', b). now split.
  Qed.
End SemOrder.

(* ------------------------------------------------------------------ *)
(* Part B0: coordinates of concatenated index lists *)
Section CoordsApp.
  Context (G : Symmetry).

  Lemma coords_ok_app (i1 i2 : list (index G)) (c1 c2 : list (coord G)) : length c1 = length i1 ->
    (coords_ok G (i1 ++ i2) (c1 ++ c2) = true <-> coords_ok G i1 c1 = true /\ coords_ok G i2 c2 = true).
  Proof.
    intros Hl. unfold coords_ok. rewrite !app_length, (combine_app i1 i2 c1 c2 (eq_sym Hl)), forallb_app.
    rewrite !andb_true_iff, !Nat.eqb_eq. split.
    - intros (H1 & H2 & H3). repeat split; try assumption; lia.
    - intros ((H1 & H2) & H3 & H4). repeat split; try assumption; lia.
  Qed.

  Lemma coords_ok_length ixs (cs : list (coord G)) : coords_ok G ixs cs = true -> length cs = length ixs.
  Proof. unfold coords_ok. intros H. apply andb_true_iff in H. destruct H as [H _]. now apply Nat.eqb_eq. Qed.

  Lemma coords_ok_split (i1 i2 : list (index G)) (cs : list (coord G)) : coords_ok G (i1 ++ i2) cs = true ->
    exists c1 c2, cs = c1 ++ c2 /\ length c1 = length i1 /\ coords_ok G i1 c1 = true /\ coords_ok G i2 c2 = true.
  Proof.
    intros H. pose proof (coords_ok_length _ _ H) as Hl. rewrite app_length in Hl.
    exists (firstn (length i1) cs), (skipn (length i1) cs).
    assert (L1 : length (firstn (length i1) cs) = length i1) by (rewrite firstn_length; lia).
    split; [symmetry; apply firstn_skipn|]. split; [exact L1|].
    apply (coords_ok_app i1 i2 _ _ L1). now rewrite firstn_skipn.
  Qed.

  Lemma coords_ok_one (ix : index G) (p : coord G) :
    coords_ok G [ix] [p] = true <-> snd p < size_of G ix (fst p).
  Proof.
    unfold coords_ok. cbn [length List.combine forallb fst snd Nat.eqb]. rewrite andb_true_r. cbn [andb].
    apply Nat.ltb_lt.
  Qed.
End CoordsApp.

(* ------------------------------------------------------------------ *)
(* Part B1: one unfuse step on an arbitrary well-formed array *)
Section WfUnfuse.
  Context (G : Symmetry) (R : Ring) (GL : GroupLaws G) (OL : OrderLaws G).
  Notation arr := (aarray G R).
  Notation keq := (list_eqb (ceqb G)).
  Notation sector := (list (C G)).
  Notation dflt := (dflt_index G).
  Notation idc := (ident G).

  Context (Y : arr) (ax : nat) (subs : list (index G)) (ext : list (C G * list (sector * nat))).
  Context (Hwf : wf_array G R Y = true).
  Context (Hsub : isub G (nth ax (indices G R Y) dflt) = Some (subs, ext)).
  Notation ixs := (indices G R Y).
  Notation fi := (nth ax (indices G R Y) dflt).

  Lemma wu_ax_lt : ax < length ixs.
  Proof. exact (ax_lt G R Y ax subs ext Hsub). Qed.

  Lemma wu_ext_nodup : NoDup (map fst ext).
  Proof.
    pose proof (fi_wf G R GL Y ax subs ext Hwf Hsub) as H.
    destruct fi as [cm dl sb]. cbn [isub] in Hsub. subst sb.
    rewrite wf_index_unfold in H. rewrite !andb_true_iff in H.
    destruct H as (_ & ((((_ & _) & Hn) & _) & _)).
    now apply (nodupb_NoDup (ceqb G) (Hce G GL)).
  Qed.

  Lemma wu_key_in c e : lookup (ceqb G) c ext = Some e -> In c (icharges G fi).
  Proof.
    intros He. pose proof (fi_wf G R GL Y ax subs ext Hwf Hsub) as H.
    pose proof wu_ext_nodup as Hnd.
    destruct fi as [cm dl sb]. cbn [isub] in Hsub. subst sb. unfold icharges. cbn [chargemap].
    rewrite wf_index_unfold in H. rewrite !andb_true_iff in H.
    destruct H as (Hcm & ((((_ & _) & _) & Hlen) & Hall)).
    apply Nat.eqb_eq in Hlen.
    assert (Hincl : incl (map fst cm) (map fst ext)).
    { intros c0 Hc0. apply in_map_iff in Hc0. destruct Hc0 as (p & <- & Hp).
      rewrite forallb_forall in Hall. specialize (Hall p Hp).
      destruct (lookup (ceqb G) (fst p) ext) as [e0|] eqn:E; [|discriminate].
      apply (lookup_In (ceqb G) (Hce G GL)) in E. apply in_map_iff. exists (fst p, e0). now split. }
    assert (Hrev : incl (map fst ext) (map fst cm)).
    { apply NoDup_length_incl; [apply (cm_keys_NoDup G OL cm Hcm)|rewrite !map_length; lia|exact Hincl]. }
    apply Hrev. apply (lookup_In (ceqb G) (Hce G GL)) in He. apply in_map_iff. exists (c, e). now split.
  Qed.

  Lemma wu_entry c e : lookup (ceqb G) c ext = Some e ->
    nsum (map snd e) = size_of G fi c /\ NoDup (map fst e) /\ Forall (EntOK G R Y ax subs c) e /\ valid G c = true.
  Proof.
    intros He. pose proof (wu_key_in c e He) as Hc.
    destruct (extent_spec G R GL OL Y ax subs ext Hwf Hsub c Hc) as (e' & He' & H1 & H2 & H3).
    rewrite He in He'. inversion He'. subst e'. repeat split; try assumption.
    apply (wf_index_charges_valid G fi c (fi_wf G R GL Y ax subs ext Hwf Hsub) Hc).
  Qed.

  Lemma wu_nd : NoDup (sectors G R Y).
  Proof. apply (wf_nodup G R GL Y Hwf). Qed.

  Lemma wu_shape K T : In (K, T) (blocks G R Y) -> length K = length ixs /\ tshape T = block_shape G ixs K.
  Proof. intros H. destruct (wf_block G R GL Y K T Hwf H) as (H1 & H2 & _). now split. Qed.

  Lemma wu_len K T : In (K, T) (blocks G R Y) -> ax < length K.
  Proof. intros H. destruct (wu_shape K T H) as [Hl _]. rewrite Hl. apply wu_ax_lt. Qed.

  Lemma wu_ext_nd c e : lookup (ceqb G) c ext = Some e -> NoDup (map fst e).
  Proof. intros H. apply (wu_entry c e H). Qed.

  Lemma wu_ext_len c e ss : lookup (ceqb G) c ext = Some e -> In ss (map fst e) -> length ss = length subs.
  Proof.
    intros H Hss. destruct (wu_entry c e H) as (_ & _ & Hall & _). apply in_map_iff in Hss.
    destruct Hss as (p & <- & Hp). rewrite Forall_forall in Hall. destruct (Hall p Hp) as ((Hl & _) & _). exact Hl.
  Qed.

  Lemma wu_ext_fun c c' e e' ss : lookup (ceqb G) c ext = Some e -> lookup (ceqb G) c' ext = Some e' ->
    In ss (map fst e) -> In ss (map fst e') -> c = c'.
  Proof.
    intros H H' Hss Hss'. destruct (wu_entry c e H) as (_ & _ & Hall & Vc). destruct (wu_entry c' e' H') as (_ & _ & Hall' & Vc').
    apply in_map_iff in Hss. destruct Hss as (p & Ep & Hp). apply in_map_iff in Hss'. destruct Hss' as (p' & Ep' & Hp').
    rewrite Forall_forall in Hall, Hall'. destruct (Hall p Hp) as (_ & _ & C1). destruct (Hall' p' Hp') as (_ & _ & C2).
    rewrite Ep in C1. rewrite Ep' in C2. apply (sign_inj G GL c c' (idual G fi) Vc Vc'). now rewrite <- C1, <- C2.
  Qed.

  Lemma wu_ext_sz ch e ss st len : lookup (ceqb G) ch ext = Some e -> In (ss, (st, len)) (ranges_from 0 e) ->
    shape_size (block_shape G subs ss) = len /\ st + len <= size_of G fi ch.
  Proof.
    intros H Hq. destruct (wu_entry ch e H) as (Hsum & _ & Hall & _).
    apply ranges_bounds in Hq. destruct Hq as (_ & Hb & Hin). rewrite Forall_forall in Hall.
    destruct (Hall _ Hin) as (_ & Hsz & _). cbn [fst snd] in Hsz. unfold subshape_of in Hsz. split; [now symmetry|lia].
  Qed.

  Notation Y' := (GY' G R Y ax subs ext).

  Lemma wu_eq : a_unfuse G R Y ax = Some Y'.
  Proof. exact (gunfuse G R GL Y ax subs ext Hsub wu_nd wu_len wu_ext_nd wu_ext_len wu_ext_fun). Qed.

  Lemma wu_wf : wf_array G R Y' = true.
  Proof. exact (unfuse_wf G GL R Y Y' ax Hwf wu_eq). Qed.

  Lemma wu_indices : indices G R Y' = firstn ax ixs ++ subs ++ skipn (S ax) ixs.
  Proof. reflexivity. Qed.

  Lemma wu_ixs_split : ixs = firstn ax ixs ++ fi :: skipn (S ax) ixs /\ length (firstn ax ixs) = ax.
  Proof. split; [apply split_at_nth; apply wu_ax_lt|rewrite firstn_length; pose proof wu_ax_lt; lia]. Qed.

  (* a recorded sub-sector: its coordinate inside the fused axis *)
  Lemma wu_sem_some (cL csub cR : list (coord G)) ch e st len :
    length cL = ax -> lookup (ceqb G) ch ext = Some e -> In (map fst csub, (st, len)) (ranges_from 0 e) ->
    coords_ok G (indices G R Y') (cL ++ csub ++ cR) = true ->
    let p : coord G := (ch, st + offset (block_shape G subs (map fst csub)) (map snd csub)) in
    sem G R Y' (cL ++ csub ++ cR) = sem G R Y (cL ++ p :: cR) /\
    coords_ok G ixs (cL ++ p :: cR) = true.
  Proof.
    intros HL He Hq Hc. cbn zeta. split.
    - apply (gunfuse_sem G R GL Y ax subs ext wu_nd wu_len wu_ext_nd wu_ext_len wu_ext_fun ixs wu_shape wu_ext_sz
               cL csub cR ch e st len HL He Hq). intros _. exact Hc.
    - destruct wu_ixs_split as (Eix & Lix). rewrite wu_indices in Hc.
      assert (Lsub : length csub = length subs).
      { transitivity (length (map fst csub)); [symmetry; apply map_length|]. apply (wu_ext_len ch e _ He). rewrite <- (ranges_keys 0 e).
        apply in_map_iff. exists (map fst csub, (st, len)). now split. }
      apply (coords_ok_app G) in Hc; [|rewrite Lix; exact HL]. destruct Hc as [HcL Hc].
      apply (coords_ok_app G) in Hc; [|exact Lsub]. destruct Hc as [Hcs HcR].
      rewrite Eix. apply (coords_ok_app G); [rewrite Lix; exact HL|]. split; [exact HcL|].
      apply (coords_ok_app G [fi] _ [_] cR); [reflexivity|]. split; [|exact HcR].
      apply coords_ok_one. cbn [fst snd].
      destruct (wu_ext_sz ch e _ st len He Hq) as (Hsz & Hle).
      pose proof (offset_lt _ _ (coords_inb_gen G subs csub Hcs)) as Ho. lia.
  Qed.

  Lemma wu_sem_none (cL csub cR : list (coord G)) :
    length cL = ax -> length csub = length subs ->
    (forall c e, lookup (ceqb G) c ext = Some e -> ~ In (map fst csub) (map fst e)) ->
    sem G R Y' (cL ++ csub ++ cR) = r0 R.
  Proof.
    intros HL Hs Hno.
    apply (gunfuse_sem_none G R GL Y ax subs ext wu_len wu_ext_nd wu_ext_len ixs wu_shape wu_ext_sz cL csub cR HL Hs).
    intros K T e _ He. exact (Hno _ e He).
  Qed.

  (* is the sub-sector recorded in the extent table of some fused charge? *)
  Lemma wu_recorded_dec (ss : sector) :
    (exists ch e st len, lookup (ceqb G) ch ext = Some e /\ In (ss, (st, len)) (ranges_from 0 e)) \/
    (forall c e, lookup (ceqb G) c ext = Some e -> ~ In ss (map fst e)).
  Proof.
    destruct (existsb (fun ce => mem keq ss (map fst (snd ce))) ext) eqn:E.
    - left. apply existsb_exists in E. destruct E as ([c e] & Hin & Hm). cbn [snd] in Hm.
      apply (OrderProofs.mem_In keq (Hkq3 G GL)) in Hm.
      rewrite <- (ranges_keys 0 e) in Hm. apply in_map_iff in Hm. destruct Hm as ([ss' [st len]] & Es & Hq).
      cbn [fst] in Es. subst ss'. exists c, e, st, len. split; [|exact Hq].
      apply (In_lookup (ceqb G) (Hce G GL)); [exact wu_ext_nodup|exact Hin].
    - right. intros c e He Hss. apply (lookup_In (ceqb G) (Hce G GL)) in He.
      assert (Ht : existsb (fun ce => mem keq ss (map fst (snd ce))) ext = true).
      { apply existsb_exists. exists (c, e). split; [exact He|]. cbn [snd]. now apply (OrderProofs.mem_In keq (Hkq3 G GL)). }
      rewrite Ht in E. discriminate.
  Qed.

  (* the stored sectors of the unfused array *)
  Lemma wu_sectors K' : In K' (sectors G R Y') <->
    exists K e ss, In K (sectors G R Y) /\ lookup (ceqb G) (nth ax K idc) ext = Some e /\ In ss (map fst e) /\
                   K' = replace_with_seq K ax ss.
  Proof.
    unfold sectors at 1. cbn [GY' blocks]. split.
    - intros H. apply in_map_iff in H. destruct H as ([K1 T1] & E1 & Hin). cbn [fst] in E1. subst K1.
      apply (GUB_In G R Y ax) in Hin. destruct Hin as (K & T & e & [ss [st len]] & HinY & He & Hq & Heq).
      exists K, e, ss. split; [unfold sectors; apply in_map_iff; exists (K, T); now split|]. split; [exact He|]. split.
      + rewrite <- (ranges_keys 0 e). apply in_map_iff. exists (ss, (st, len)). now split.
      + now inversion Heq.
    - intros (K & e & ss & HK & He & Hss & ->). unfold sectors in HK. apply in_map_iff in HK.
      destruct HK as ([K1 T] & E1 & HinY). cbn [fst] in E1. subst K1.
      rewrite <- (ranges_keys 0 e) in Hss. apply in_map_iff in Hss. destruct Hss as ([ss' [st len]] & Es & Hq).
      cbn [fst] in Es. subst ss'.
      apply in_map_iff. exists (gpiece G R ax subs (K, T) (ss, (st, len))). split; [reflexivity|].
      apply (GUB_In G R Y ax). exists K, T, e, (ss, (st, len)). now repeat split.
  Qed.
End WfUnfuse.

(* the same facts for any Y' with a_unfuse Y ax = Some Y' *)
Section WfUnfuse2.
  Context (G : Symmetry) (R : Ring) (GL : GroupLaws G) (OL : OrderLaws G).
  Context (Y Y' : aarray G R) (ax : nat) (subs : list (index G)) (ext : list (C G * list (list (C G) * nat))).
  Context (Hwf : wf_array G R Y = true).
  Context (Hsub : isub G (nth ax (indices G R Y) (dflt_index G)) = Some (subs, ext)).
  Context (HU : a_unfuse G R Y ax = Some Y').

  Lemma wv_eq : Y' = GY' G R Y ax subs ext.
  Proof. pose proof (wu_eq G R GL OL Y ax subs ext Hwf Hsub) as E. rewrite E in HU. now inversion HU. Qed.

  Lemma wv_wf : wf_array G R Y' = true.
  Proof. exact (unfuse_wf G GL R Y Y' ax Hwf HU). Qed.

  Lemma wv_indices : indices G R Y' = replace_with_seq (indices G R Y) ax subs.
  Proof. now rewrite wv_eq. Qed.

  Lemma wv_charge : charge G R Y' = charge G R Y.
  Proof. now rewrite wv_eq. Qed.

  Lemma wv_sem_some (cL csub cR : list (coord G)) ch e st len :
    length cL = ax -> lookup (ceqb G) ch ext = Some e -> In (map fst csub, (st, len)) (ranges_from 0 e) ->
    coords_ok G (indices G R Y') (cL ++ csub ++ cR) = true ->
    let p : coord G := (ch, st + offset (block_shape G subs (map fst csub)) (map snd csub)) in
    sem G R Y' (cL ++ csub ++ cR) = sem G R Y (cL ++ p :: cR) /\
    coords_ok G (indices G R Y) (cL ++ p :: cR) = true.
  Proof. rewrite wv_eq. apply (wu_sem_some G R GL OL Y ax subs ext Hwf Hsub). Qed.

  Lemma wv_sem_none (cL csub cR : list (coord G)) :
    length cL = ax -> length csub = length subs ->
    (forall c e, lookup (ceqb G) c ext = Some e -> ~ In (map fst csub) (map fst e)) ->
    sem G R Y' (cL ++ csub ++ cR) = r0 R.
  Proof. rewrite wv_eq. apply (wu_sem_none G R GL OL Y ax subs ext Hwf Hsub). Qed.

  Lemma wv_sectors K' : In K' (sectors G R Y') <->
    exists K e ss, In K (sectors G R Y) /\ lookup (ceqb G) (nth ax K (ident G)) ext = Some e /\ In ss (map fst e) /\
                   K' = replace_with_seq K ax ss.
  Proof. rewrite wv_eq. apply wu_sectors. Qed.
End WfUnfuse2.

(* ------------------------------------------------------------------ *)
(* Part B2: unfuse is monotone for the pre-order; unfuse steps on different axes commute *)
Lemma list_split_at {A} (l : list A) n m : length l = n + S m ->
  exists l1 x l2, l = l1 ++ x :: l2 /\ length l1 = n /\ length l2 = m.
Proof.
  intros H. destruct (skipn n l) as [|x l2] eqn:E.
  - pose proof (skipn_length n l) as Hs. rewrite E in Hs. cbn [length] in Hs. lia.
  - exists (firstn n l), x, l2. split; [rewrite <- E; symmetry; apply firstn_skipn|].
    split; [rewrite firstn_length; lia|]. pose proof (skipn_length n l) as Hs. rewrite E in Hs. cbn [length] in Hs. lia.
Qed.

Section UnfuseOrder.
  Context (G : Symmetry) (R : Ring) (GL : GroupLaws G) (OL : OrderLaws G).
  Notation arr := (aarray G R).
  Notation keq := (list_eqb (ceqb G)).
  Notation sector := (list (C G)).
  Notation dflt := (dflt_index G).
  Notation idc := (ident G).
  Notation sem_ge := (sem_ge G R).

  Lemma unfuse_isub (z w : arr) ax : a_unfuse G R z ax = Some w ->
    exists subs ext, isub G (nth ax (indices G R z) dflt) = Some (subs, ext).
  Proof.
    unfold a_unfuse. destruct (isub G (nth ax (indices G R z) dflt)) as [[subs ext]|]; [|discriminate].
    intros _. now exists subs, ext.
  Qed.

  Lemma unfuse_mono z' z ax w : sem_ge z' z -> a_unfuse G R z ax = Some w ->
    exists w', a_unfuse G R z' ax = Some w' /\ sem_ge w' w.
  Proof.
    intros (W' & W & HI & HQ & HS & HN) Hu.
    destruct (unfuse_isub z w ax Hu) as (subs & ext & Hsub).
    assert (Hsub' : isub G (nth ax (indices G R z') dflt) = Some (subs, ext)) by (now rewrite HI).
    pose proof (wu_eq G R GL OL z ax subs ext W Hsub) as E. rewrite E in Hu. inversion Hu. subst w. clear Hu.
    exists (GY' G R z' ax subs ext). split; [exact (wu_eq G R GL OL z' ax subs ext W' Hsub')|].
    split; [exact (wu_wf G R GL OL z' ax subs ext W' Hsub')|].
    split; [exact (wu_wf G R GL OL z ax subs ext W Hsub)|].
    split; [cbn [GY' indices]; now rewrite HI|]. split; [exact HQ|]. split.
    - intros cs Hc. rewrite wu_indices in Hc.
      destruct (coords_ok_split G _ _ cs Hc) as (cL & c2 & -> & LcL & HcL & Hc2).
      destruct (coords_ok_split G _ _ c2 Hc2) as (csub & cR & -> & Lcs & Hcs & HcR).
      assert (LcL' : length cL = ax).
      { rewrite LcL, firstn_length. pose proof (wu_ax_lt G R z ax subs ext Hsub). lia. }
      destruct (wu_recorded_dec G R GL z ax subs ext W Hsub (map fst csub)) as [(ch & e & st & len & He & Hq)|Hno].
      + assert (Hc' : coords_ok G (indices G R (GY' G R z' ax subs ext)) (cL ++ csub ++ cR) = true).
        { cbn [GY' indices]. rewrite HI. exact Hc. }
        destruct (wu_sem_some G R GL OL z ax subs ext W Hsub cL csub cR ch e st len LcL' He Hq Hc) as (-> & Hok).
        destruct (wu_sem_some G R GL OL z' ax subs ext W' Hsub' cL csub cR ch e st len LcL' He Hq Hc') as (-> & _).
        now apply HS.
      + rewrite (wu_sem_none G R GL OL z ax subs ext W Hsub cL csub cR LcL' Lcs Hno).
        now rewrite (wu_sem_none G R GL OL z' ax subs ext W' Hsub' cL csub cR LcL' Lcs Hno).
    - intros K' HK'. apply (wu_sectors G R z ax subs ext) in HK'.
      destruct HK' as (K & e & ss & HK & He & Hss & ->).
      apply (wu_sectors G R z' ax subs ext). exists K, e, ss. split; [now apply HN|]. now repeat split.
  Qed.

  Lemma unfuse_seq_mono axs : forall z' z w, sem_ge z' z -> unfuse_seq G R axs z = Some w ->
    exists w', unfuse_seq G R axs z' = Some w' /\ sem_ge w' w.
  Proof.
    induction axs as [|ax axs IH]; intros z' z w Hge Hu; cbn [unfuse_seq] in *.
    - inversion Hu. subst w. now exists z'.
    - destruct (a_unfuse G R z ax) as [y|] eqn:E; [|discriminate].
      destruct (unfuse_mono z' z ax y Hge E) as (y' & -> & Hge'). now apply (IH y' y w).
  Qed.

  Lemma unfuse_seq_app l1 l2 (z : arr) :
    unfuse_seq G R (l1 ++ l2) z = match unfuse_seq G R l1 z with Some y => unfuse_seq G R l2 y | None => None end.
  Proof.
    revert z. induction l1 as [|a l1 IH]; intros z; cbn [app unfuse_seq]; [reflexivity|].
    destruct (a_unfuse G R z a); [apply IH|reflexivity].
  Qed.

  Lemma unfuse_seq_wf axs : forall z w, wf_array G R z = true -> unfuse_seq G R axs z = Some w -> wf_array G R w = true.
  Proof.
    induction axs as [|ax axs IH]; intros z w W Hu; cbn [unfuse_seq] in Hu; [now inversion Hu; subst|].
    destruct (a_unfuse G R z ax) as [y|] eqn:E; [|discriminate].
    apply (IH y w); [exact (unfuse_wf G GL R z y ax W E)|exact Hu].
  Qed.

  (* two fused axes a < b: unfusing a then b (shifted) gives the same as b then a *)
  Lemma unfuse_commute (Y : arr) I1 A I2 B I3 sa ea sb eb :
    wf_array G R Y = true -> indices G R Y = I1 ++ A :: I2 ++ B :: I3 ->
    isub G A = Some (sa, ea) -> isub G B = Some (sb, eb) ->
    exists Ya Yab Yb Yba,
      a_unfuse G R Y (length I1) = Some Ya /\ a_unfuse G R Ya (length I1 + length sa + length I2) = Some Yab /\
      a_unfuse G R Y (length I1 + 1 + length I2) = Some Yb /\ a_unfuse G R Yb (length I1) = Some Yba /\
      sem_ge Yab Yba.
  Proof.
    intros W HI HA HB.
    set (a := length I1). set (b := length I1 + 1 + length I2). set (b' := length I1 + length sa + length I2).
    assert (HsA : isub G (nth a (indices G R Y) dflt) = Some (sa, ea)).
    { rewrite HI, (nth_middle_len I1 _ A dflt a eq_refl). exact HA. }
    assert (HI2 : indices G R Y = (I1 ++ A :: I2) ++ B :: I3) by (rewrite HI, <- app_assoc; reflexivity).
    assert (Lb : length (I1 ++ A :: I2) = b) by (rewrite app_length; cbn [length]; unfold b; lia).
    assert (HsB : isub G (nth b (indices G R Y) dflt) = Some (sb, eb)).
    { rewrite HI2, (nth_middle_len _ _ B dflt b Lb). exact HB. }
    pose proof (wu_eq G R GL OL Y a sa ea W HsA) as EYa. remember (GY' G R Y a sa ea) as Ya eqn:DYa. clear DYa.
    pose proof (wu_eq G R GL OL Y b sb eb W HsB) as EYb. remember (GY' G R Y b sb eb) as Yb eqn:DYb. clear DYb.
    pose proof (wv_wf G R GL Y Ya a W EYa) as WYa. pose proof (wv_wf G R GL Y Yb b W EYb) as WYb.
    assert (IYa : indices G R Ya = I1 ++ sa ++ I2 ++ B :: I3).
    { rewrite (wv_indices G R GL OL Y Ya a sa ea W HsA EYa), HI. now apply replace_with_seq_middle. }
    assert (IYb : indices G R Yb = (I1 ++ A :: I2) ++ sb ++ I3).
    { rewrite (wv_indices G R GL OL Y Yb b sb eb W HsB EYb), HI2. now apply replace_with_seq_middle. }
    assert (IYa2 : indices G R Ya = (I1 ++ sa ++ I2) ++ B :: I3) by (rewrite IYa, <- !app_assoc; reflexivity).
    assert (Lb' : length (I1 ++ sa ++ I2) = b') by (rewrite !app_length; unfold b'; lia).
    assert (HsBa : isub G (nth b' (indices G R Ya) dflt) = Some (sb, eb)).
    { rewrite IYa2, (nth_middle_len _ _ B dflt b' Lb'). exact HB. }
    assert (IYb2 : indices G R Yb = I1 ++ A :: I2 ++ sb ++ I3) by (rewrite IYb, <- app_assoc; reflexivity).
    assert (HsAb : isub G (nth a (indices G R Yb) dflt) = Some (sa, ea)).
    { rewrite IYb2, (nth_middle_len I1 _ A dflt a eq_refl). exact HA. }
    pose proof (wu_eq G R GL OL Ya b' sb eb WYa HsBa) as EYab. remember (GY' G R Ya b' sb eb) as Yab eqn:DYab. clear DYab.
    pose proof (wu_eq G R GL OL Yb a sa ea WYb HsAb) as EYba. remember (GY' G R Yb a sa ea) as Yba eqn:DYba. clear DYba.
    pose proof (wv_wf G R GL Ya Yab b' WYa EYab) as WYab. pose proof (wv_wf G R GL Yb Yba a WYb EYba) as WYba.
    assert (IYab : indices G R Yab = (I1 ++ sa ++ I2) ++ sb ++ I3).
    { rewrite (wv_indices G R GL OL Ya Yab b' sb eb WYa HsBa EYab), IYa2. now apply replace_with_seq_middle. }
    assert (IYba : indices G R Yba = I1 ++ sa ++ I2 ++ sb ++ I3).
    { rewrite (wv_indices G R GL OL Yb Yba a sa ea WYb HsAb EYba), IYb2. now apply replace_with_seq_middle. }
    exists Ya, Yab, Yb, Yba. do 4 (split; [assumption|]).
    split; [exact WYab|]. split; [exact WYba|]. split; [rewrite IYab, IYba, <- !app_assoc; reflexivity|].
    split.
    { rewrite (wv_charge G R GL OL Ya Yab b' sb eb WYa HsBa EYab), (wv_charge G R GL OL Y Ya a sa ea W HsA EYa).
      now rewrite (wv_charge G R GL OL Yb Yba a sa ea WYb HsAb EYba), (wv_charge G R GL OL Y Yb b sb eb W HsB EYb). }
    split.
    - intros cs Hc. rewrite IYba in Hc.
      destruct (coords_ok_split G _ _ cs Hc) as (c1 & r1 & -> & L1 & H1 & Hr1).
      destruct (coords_ok_split G _ _ r1 Hr1) as (ca & r2 & -> & La & Ha & Hr2).
      destruct (coords_ok_split G _ _ r2 Hr2) as (c2 & r3 & -> & L2 & H2 & Hr3).
      destruct (coords_ok_split G _ _ r3 Hr3) as (cb & c3 & -> & Lcb & Hb & H3).
      (* the two views of the coordinate *)
      assert (CYba : coords_ok G (indices G R Yba) (c1 ++ ca ++ (c2 ++ cb ++ c3)) = true) by (now rewrite IYba).
      assert (L12 : length (c1 ++ ca ++ c2) = b') by (rewrite !app_length; unfold b'; lia).
      assert (E1 : c1 ++ ca ++ c2 ++ cb ++ c3 = (c1 ++ ca ++ c2) ++ cb ++ c3) by (now rewrite <- !app_assoc).
      assert (CYab : coords_ok G (indices G R Yab) ((c1 ++ ca ++ c2) ++ cb ++ c3) = true).
      { rewrite IYab, <- E1, <- !app_assoc. exact Hc. }
      destruct (wu_recorded_dec G R GL Y a sa ea W HsA (map fst ca)) as [(cha & e1 & sta & lena & Hea & Hqa)|Hnoa];
      destruct (wu_recorded_dec G R GL Y b sb eb W HsB (map fst cb)) as [(chb & e2 & stb & lenb & Heb & Hqb)|Hnob].
      + (* both recorded *)
        rewrite E1.
        destruct (wv_sem_some G R GL OL Ya Yab b' sb eb WYa HsBa EYab _ cb c3 chb e2 stb lenb L12 Heb Hqb CYab) as (-> & Hok1).
        rewrite <- !app_assoc in Hok1 |- *.
        destruct (wv_sem_some G R GL OL Y Ya a sa ea W HsA EYa c1 ca _ cha e1 sta lena L1 Hea Hqa Hok1) as (-> & _).
        rewrite <- E1.
        destruct (wv_sem_some G R GL OL Yb Yba a sa ea WYb HsAb EYba c1 ca _ cha e1 sta lena L1 Hea Hqa CYba) as (-> & Hok2).
        set (pa := (cha, sta + offset (block_shape G sa (map fst ca)) (map snd ca)) : coord G) in *.
        assert (E2 : c1 ++ pa :: c2 ++ cb ++ c3 = (c1 ++ pa :: c2) ++ cb ++ c3) by (now rewrite <- app_assoc).
        rewrite E2 in Hok2 |- *.
        assert (Lp : length (c1 ++ pa :: c2) = b) by (rewrite app_length; cbn [length]; unfold b; lia).
        destruct (wv_sem_some G R GL OL Y Yb b sb eb W HsB EYb _ cb c3 chb e2 stb lenb Lp Heb Hqb Hok2) as (-> & _).
        now rewrite <- app_assoc.
      + (* a recorded, b not *)
        rewrite E1. rewrite (wv_sem_none G R GL OL Ya Yab b' sb eb WYa HsBa EYab _ cb c3 L12 Lcb Hnob). rewrite <- E1.
        destruct (wv_sem_some G R GL OL Yb Yba a sa ea WYb HsAb EYba c1 ca _ cha e1 sta lena L1 Hea Hqa CYba) as (-> & Hok2).
        set (pa := (cha, sta + offset (block_shape G sa (map fst ca)) (map snd ca)) : coord G) in *.
        assert (E2 : c1 ++ pa :: c2 ++ cb ++ c3 = (c1 ++ pa :: c2) ++ cb ++ c3) by (now rewrite <- app_assoc).
        rewrite E2.
        assert (Lp : length (c1 ++ pa :: c2) = b) by (rewrite app_length; cbn [length]; unfold b; lia).
        now rewrite (wv_sem_none G R GL OL Y Yb b sb eb W HsB EYb _ cb c3 Lp Lcb Hnob).
      + (* b recorded, a not *)
        rewrite (wv_sem_none G R GL OL Yb Yba a sa ea WYb HsAb EYba c1 ca _ L1 La Hnoa).
        rewrite E1.
        destruct (wv_sem_some G R GL OL Ya Yab b' sb eb WYa HsBa EYab _ cb c3 chb e2 stb lenb L12 Heb Hqb CYab) as (-> & _).
        rewrite <- !app_assoc.
        exact (wv_sem_none G R GL OL Y Ya a sa ea W HsA EYa c1 ca _ L1 La Hnoa).
      + rewrite (wv_sem_none G R GL OL Yb Yba a sa ea WYb HsAb EYba c1 ca _ L1 La Hnoa).
        rewrite E1. exact (wv_sem_none G R GL OL Ya Yab b' sb eb WYa HsBa EYab _ cb c3 L12 Lcb Hnob).
    - intros K HK. apply (wv_sectors G R GL OL Yb Yba a sa ea WYb HsAb EYba) in HK.
      destruct HK as (K1 & e1 & ssa & HK1 & He1 & Hssa & ->).
      apply (wv_sectors G R GL OL Y Yb b sb eb W HsB EYb) in HK1.
      destruct HK1 as (K0 & e2 & ssb & HK0 & He2 & Hssb & ->).
      unfold sectors in HK0. apply in_map_iff in HK0. destruct HK0 as ([K0' T0] & E0 & Hin0). cbn [fst] in E0. subst K0'.
      destruct (wf_block G R GL Y K0 T0 W Hin0) as (LK0 & _).
      rewrite HI in LK0. rewrite app_length in LK0. cbn [length] in LK0. rewrite app_length in LK0. cbn [length] in LK0.
      destruct (list_split_at K0 (length I1) (length I2 + S (length I3))) as (k1 & ka & r & -> & Lk1 & Lr); [lia|].
      destruct (list_split_at r (length I2) (length I3)) as (k2 & kb & k3 & -> & Lk2 & Lk3); [lia|].
      assert (HK0s : In (k1 ++ ka :: k2 ++ kb :: k3) (sectors G R Y)).
      { unfold sectors. apply in_map_iff. exists (k1 ++ ka :: k2 ++ kb :: k3, T0). now split. }
      assert (Eb : k1 ++ ka :: k2 ++ kb :: k3 = (k1 ++ ka :: k2) ++ kb :: k3) by (now rewrite <- app_assoc).
      assert (Lkb : length (k1 ++ ka :: k2) = b) by (rewrite app_length; cbn [length]; unfold b; lia).
      rewrite Eb in He2. rewrite (nth_middle_len _ _ kb idc b Lkb) in He2.
      rewrite Eb, (replace_with_seq_middle _ _ kb ssb b Lkb), <- app_assoc in He1 |- *. cbn [app] in He1 |- *.
      rewrite (nth_middle_len k1 _ ka idc a Lk1) in He1.
      rewrite (replace_with_seq_middle k1 _ ka ssa a Lk1).
      pose proof (wu_ext_len G R GL OL Y a sa ea W HsA _ _ _ He1 Hssa) as Lssa.
      apply (wv_sectors G R GL OL Ya Yab b' sb eb WYa HsBa EYab).
      exists (k1 ++ ssa ++ k2 ++ kb :: k3), e2, ssb.
      assert (Eb2 : k1 ++ ssa ++ k2 ++ kb :: k3 = (k1 ++ ssa ++ k2) ++ kb :: k3) by (now rewrite <- !app_assoc).
      assert (Lkb2 : length (k1 ++ ssa ++ k2) = b') by (rewrite !app_length; unfold b'; lia).
      split; [|split; [|split]].
      + apply (wv_sectors G R GL OL Y Ya a sa ea W HsA EYa). exists (k1 ++ ka :: k2 ++ kb :: k3), e1, ssa.
        split; [exact HK0s|]. split; [now rewrite (nth_middle_len k1 _ ka idc a Lk1)|]. split; [exact Hssa|].
        now rewrite (replace_with_seq_middle k1 _ ka ssa a Lk1).
      + rewrite Eb2, (nth_middle_len _ _ kb idc b' Lkb2). exact He2.
      + exact Hssb.
      + rewrite Eb2, (replace_with_seq_middle _ _ kb ssb b' Lkb2). now rewrite <- !app_assoc.
  Qed.
End UnfuseOrder.

(* ------------------------------------------------------------------ *)
(* Part B3: unfusing a set of fused axes first to last is `sem_ge` unfusing them last to first *)
Lemma nth_replace_lt {A} (d : A) (l s : list A) b c : c < b -> b < length l ->
  nth c (replace_with_seq l b s) d = nth c l d.
Proof.
  intros Hc Hb. rewrite (split_at_nth l b d Hb) at 2. unfold replace_with_seq.
  rewrite !app_nth1 by (rewrite firstn_length; lia). reflexivity.
Qed.

Lemma nth_replace_gt {A} (d : A) (l s : list A) b c : b < c -> b < length l -> 1 <= length s ->
  nth (c + (length s - 1)) (replace_with_seq l b s) d = nth c l d.
Proof.
  intros Hc Hb Hs. rewrite (split_at_nth l b d Hb) at 2. unfold replace_with_seq.
  assert (Lf : length (firstn b l) = b) by (rewrite firstn_length; lia).
  rewrite !app_nth2 by (rewrite ?Lf; lia). rewrite !Lf.
  replace (c - b) with (S (c - b - 1)) by lia. cbn [nth]. f_equal. lia.
Qed.

Lemma SS_snoc {A} (Q : A -> A -> Prop) a : forall m, StronglySorted Q m -> Forall (fun b => Q b a) m ->
  StronglySorted Q (m ++ [a]).
Proof.
  induction m as [|x m IH]; intros Hs Hall; cbn [app]; [constructor; constructor|].
  inversion Hs as [|? ? Hs' Hx]; subst. inversion Hall as [|? ? Hxa Hall']; subst.
  constructor; [now apply IH|]. apply Forall_app. split; [exact Hx|]. now constructor.
Qed.

Lemma SS_rev {A} (P : A -> A -> Prop) l : StronglySorted P l -> StronglySorted (fun a b => P b a) (rev l).
Proof.
  induction 1 as [|a l Hs IH Hall]; cbn [rev]; [constructor|].
  apply SS_snoc; [exact IH|]. apply Forall_rev. exact Hall.
Qed.

Section UnfuseFifo.
  Context (G : Symmetry) (R : Ring) (GL : GroupLaws G) (OL : OrderLaws G).
  Notation arr := (aarray G R).
  Notation dflt := (dflt_index G).
  Notation sem_ge := (sem_ge G R).

  (* the axis carries sub-index information for `snd p` >= 1 sub-indices *)
  Definition FusedAt (Y : arr) (p : nat * nat) : Prop :=
    exists subs ext, isub G (nth (fst p) (indices G R Y) dflt) = Some (subs, ext) /\ length subs = snd p /\ 1 <= snd p.

  Lemma FusedAt_below (Y Yb : arr) b sb c sc : wf_array G R Y = true ->
    FusedAt Y (b, sb) -> a_unfuse G R Y b = Some Yb -> c < b -> FusedAt Y (c, sc) -> FusedAt Yb (c, sc).
  Proof.
    intros W (subs & ext & Hs & _) HU Hc (s2 & e2 & Hs2 & Hl2). cbn [fst snd] in *.
    exists s2, e2. split; [|exact Hl2]. cbn [fst].
    rewrite (wv_indices G R GL OL Y Yb b subs ext W Hs HU).
    rewrite nth_replace_lt; [exact Hs2|exact Hc|exact (ax_lt G R Y b subs ext Hs)].
  Qed.

  Lemma FusedAt_above (Y Ya : arr) a sa c sc : wf_array G R Y = true ->
    FusedAt Y (a, sa) -> a_unfuse G R Y a = Some Ya -> a < c -> FusedAt Y (c, sc) -> FusedAt Ya (c + (sa - 1), sc).
  Proof.
    intros W (subs & ext & Hs & Hl & H1) HU Hc (s2 & e2 & Hs2 & Hl2). cbn [fst snd] in *.
    exists s2, e2. split; [|exact Hl2]. cbn [fst].
    rewrite (wv_indices G R GL OL Y Ya a subs ext W Hs HU). rewrite <- Hl.
    rewrite nth_replace_gt; [exact Hs2|exact Hc|exact (ax_lt G R Y a subs ext Hs)|lia].
  Qed.

  Lemma unfuse_push : forall (r : list (nat * nat)) (Y Yr Z : arr) a sa,
    wf_array G R Y = true -> FusedAt Y (a, sa) -> Forall (FusedAt Y) r -> Forall (fun p => a < fst p) r ->
    StronglySorted (fun p q => fst q < fst p) r ->
    unfuse_seq G R (map fst r) Y = Some Yr -> a_unfuse G R Yr a = Some Z ->
    exists Ya Z', a_unfuse G R Y a = Some Ya /\
      unfuse_seq G R (map (fun p => fst p + (sa - 1)) r) Ya = Some Z' /\ sem_ge Z' Z.
  Proof.
    induction r as [|[b sb] r2 IH]; intros Y Yr Z a sa W Fa Fr Hgt Hs Hu Hz.
    - cbn [map unfuse_seq] in *. inversion Hu. subst Yr. exists Z, Z. split; [exact Hz|]. split; [reflexivity|].
      apply (sem_ge_refl G R). exact (unfuse_wf G GL R Y Z a W Hz).
    - cbn [map unfuse_seq fst] in Hu. destruct (a_unfuse G R Y b) as [Yb|] eqn:EYb; [|discriminate].
      inversion Fr as [|? ? Fb Fr2]; subst. inversion Hgt as [|? ? Hab Hgt2]; subst. cbn [fst] in Hab.
      inversion Hs as [|? ? Hs2 Hlt2]; subst.
      destruct Fa as (subs_a & ext_a & HsA & HlA & H1A). destruct Fb as (subs_b & ext_b & HsB & HlB & H1B).
      cbn [fst snd] in *.
      pose proof (ax_lt G R Y b subs_b ext_b HsB) as Hb.
      destruct (list_split_at (indices G R Y) a (length (indices G R Y) - a - 1)) as (I1 & A & r1 & HI & LI1 & Lr1); [lia|].
      destruct (list_split_at r1 (b - a - 1) (length r1 - (b - a - 1) - 1)) as (I2 & B & I3 & -> & LI2 & LI3); [lia|].
      assert (EA : nth a (indices G R Y) dflt = A) by (rewrite HI; now apply nth_middle_len).
      assert (EB : nth b (indices G R Y) dflt = B).
      { rewrite HI. replace (I1 ++ A :: I2 ++ B :: I3) with ((I1 ++ A :: I2) ++ B :: I3) by (now rewrite <- app_assoc).
        apply nth_middle_len. rewrite app_length. cbn [length]. lia. }
      rewrite EA in HsA. rewrite EB in HsB.
      destruct (unfuse_commute G R GL OL Y I1 A I2 B I3 subs_a ext_a subs_b ext_b W HI HsA HsB)
        as (Ya & Yab & Yb' & Yba & EYa & EYab & EYb' & EYba & Hge).
      rewrite LI1 in EYa, EYba.
      replace (length I1 + 1 + length I2) with b in EYb' by lia. rewrite EYb in EYb'. inversion EYb'. subst Yb'. clear EYb'.
      replace (length I1 + length subs_a + length I2) with (b + (sa - 1)) in EYab by lia.
      assert (WYb : wf_array G R Yb = true) by exact (unfuse_wf G GL R Y Yb b W EYb).
      assert (FaY : FusedAt Y (a, sa)) by (exists subs_a, ext_a; cbn [fst snd]; rewrite EA; now repeat split).
      assert (FbY : FusedAt Y (b, sb)) by (exists subs_b, ext_b; cbn [fst snd]; rewrite EB; now repeat split).
      destruct (IH Yb Yr Z a sa WYb) as (Yba' & Z'' & EYba' & Hu2 & Hge2); try assumption.
      + exact (FusedAt_below Y Yb b sb a sa W FbY EYb Hab FaY).
      + rewrite Forall_forall in *. intros [c sc] Hc. apply (FusedAt_below Y Yb b sb c sc W FbY EYb); [|now apply Fr2].
        exact (Hlt2 _ Hc).
      + rewrite EYba in EYba'. inversion EYba'. subst Yba'. clear EYba'.
        destruct (unfuse_seq_mono G R GL OL _ Yab Yba Z'' Hge Hu2) as (Z' & Hu3 & Hge3).
        exists Ya, Z'. split; [exact EYa|]. split.
        * cbn [map unfuse_seq fst]. now rewrite EYab.
        * exact (sem_ge_trans G R _ _ _ Hge3 Hge2).
  Qed.

  (* positions at which the fused axes are found when unfused first to last *)
  Fixpoint fifo (off : nat) (l : list (nat * nat)) : list nat :=
    match l with [] => [] | p :: r => (fst p + off) :: fifo (off + (snd p - 1)) r end.

  Lemma fifo_shift d : forall l off, fifo off (map (fun p => (fst p + d, snd p)) l) = fifo (off + d) l.
  Proof.
    induction l as [|p r IH]; intros off; cbn [map fifo fst snd]; [reflexivity|].
    rewrite IH. f_equal; [lia|f_equal; lia].
  Qed.

  Lemma unfuse_fifo_len : forall n (l : list (nat * nat)) (Y ZL : arr), length l = n ->
    wf_array G R Y = true -> Forall (FusedAt Y) l -> StronglySorted (fun p q => fst p < fst q) l ->
    unfuse_seq G R (rev (map fst l)) Y = Some ZL ->
    exists ZF, unfuse_seq G R (fifo 0 l) Y = Some ZF /\ sem_ge ZF ZL.
  Proof.
    induction n as [|n IH]; intros [|[a sa] r] Y ZL Hn W Fl Hs Hu; cbn [length] in Hn; try discriminate.
    - cbn in Hu. inversion Hu. subst ZL. exists Y. split; [reflexivity|now apply (sem_ge_refl G R)].
    - cbn [map rev fst] in Hu. rewrite unfuse_seq_app in Hu.
      destruct (unfuse_seq G R (rev (map fst r)) Y) as [Yr|] eqn:EYr; [|discriminate].
      cbn [unfuse_seq] in Hu. destruct (a_unfuse G R Yr a) as [Z|] eqn:EZ; [|discriminate]. inversion Hu. subst Z. clear Hu.
      inversion Fl as [|? ? Fa Fr]; subst. inversion Hs as [|? ? Hs2 Hlt]; subst.
      destruct (unfuse_push (rev r) Y Yr ZL a sa W Fa) as (Ya & Z' & EYa & Hu2 & Hge); try assumption.
      + apply Forall_rev. exact Fr.
      + apply Forall_rev. exact Hlt.
      + exact (SS_rev _ _ Hs2).
      + now rewrite map_rev.
      + assert (WYa : wf_array G R Ya = true) by exact (unfuse_wf G GL R Y Ya a W EYa).
        destruct (IH (map (fun p => (fst p + (sa - 1), snd p)) r) Ya Z') as (ZF & Hu3 & Hge3).
        * rewrite map_length. lia.
        * exact WYa.
        * apply Forall_forall. intros p Hp. apply in_map_iff in Hp. destruct Hp as ([c sc] & <- & Hc).
          cbn [fst snd]. rewrite Forall_forall in Hlt, Fr.
          apply (FusedAt_above Y Ya a sa c sc W Fa EYa); [exact (Hlt _ Hc)|now apply Fr].
        * clear - Hs2. induction Hs2 as [|p m Hm IHm Hall]; cbn [map]; constructor; [exact IHm|].
          rewrite Forall_forall in *. intros q Hq. apply in_map_iff in Hq. destruct Hq as (q0 & <- & Hq0).
          cbn [fst]. specialize (Hall _ Hq0). lia.
        * rewrite map_map. cbn [fst]. rewrite <- map_rev. exact Hu2.
        * exists ZF. split; [|exact (sem_ge_trans G R _ _ _ Hge3 Hge)].
          cbn [fifo fst snd unfuse_seq]. rewrite Nat.add_0_r, EYa.
          rewrite fifo_shift in Hu3. exact Hu3.
  Qed.

  Theorem unfuse_fifo (l : list (nat * nat)) (Y ZL : arr) :
    wf_array G R Y = true -> Forall (FusedAt Y) l -> StronglySorted (fun p q => fst p < fst q) l ->
    unfuse_seq G R (rev (map fst l)) Y = Some ZL ->
    exists ZF, unfuse_seq G R (fifo 0 l) Y = Some ZF /\ sem_ge ZF ZL.
  Proof. exact (unfuse_fifo_len (length l) l Y ZL eq_refl). Qed.
End UnfuseFifo.

(* ------------------------------------------------------------------ *)
(* Part C: the plans `calc_reshape_args` returns for merging SEVERAL runs and for the way back *)
(* the groups of one fuse call: consecutive runs of the given lengths starting at p *)
Fixpoint runs (p : nat) (b : list nat) : list (list nat) :=
  match b with [] => [] | l :: r => seq p l :: runs (p + l) r end.

Definition flush (p : nat) (b : list nat) : list (list (list nat)) := if is_nil b then [] else [runs p b].

(* the fuse calls of the forward plan: `ls` = lengths of the runs still to come (1 = an axis that stays),
   `b` = lengths of the adjacent merged runs collected for the current call, which starts at axis p *)
Fixpoint calls_go (p : nat) (b : list nat) (ls : list nat) : list (list (list nat)) :=
  match ls with
  | [] => flush p b
  | l :: r => if Nat.eqb l 1 then flush p b ++ calls_go (p + length b + 1) [] r else calls_go p (b ++ [l]) r
  end.

(* the axes the way back unfuses, in order *)
Fixpoint back_pos (p : nat) (ls : list nat) : list nat :=
  match ls with
  | [] => []
  | l :: r => if Nat.eqb l 1 then back_pos (p + 1) r else p :: back_pos (p + l) r
  end.

Lemma runs_snoc b : forall p l, runs p (b ++ [l]) = runs p b ++ [seq (p + nsum b) l].
Proof.
  induction b as [|x b IH]; intros p l; cbn [app runs].
  - cbn [nsum fold_right]. now rewrite Nat.add_0_r.
  - rewrite IH. cbn [app]. change (nsum (x :: b)) with (x + nsum b). now rewrite Nat.add_assoc.
Qed.

Lemma runs_length p b : length (runs p b) = length b.
Proof. revert p. induction b as [|x b IH]; intros p; cbn [runs length]; [reflexivity|now rewrite IH]. Qed.

Lemma runs_sum b : forall p, ReshapeArgs.nat_sum (map (@length nat) (runs p b)) = nsum b.
Proof.
  induction b as [|x b IH]; intros p; cbn [runs map ReshapeArgs.nat_sum nsum fold_right]; [reflexivity|].
  rewrite seq_length. f_equal. apply IH.
Qed.

Lemma runs_nil p b : is_nil (runs p b) = is_nil b.
Proof. destruct b; reflexivity. Qed.

Lemma nsum_ge_length ls : Forall (fun k => 1 <= k) ls -> length ls <= nsum ls.
Proof. induction 1 as [|k ls Hk _ IH]; cbn [length nsum fold_right]; [lia|]. unfold nsum in IH. lia. Qed.

Section MergeRunsPlans.
  Import ReshapeArgs.

  Definition ne1 (l : nat) : bool := negb (Nat.eqb l 1).

  (* labels after the matching loop of the forward direction *)
  Fixpoint flabels (g : nat) (ls : list nat) : list label :=
    match ls with
    | [] => []
    | l :: r => if Nat.eqb l 1 then Lo :: flabels g r else repeat (Lg g) l ++ flabels (S g) r
    end.

  Lemma flabels_length ls : forall g, length (flabels g ls) = nsum ls.
  Proof.
    induction ls as [|l r IH]; intros g; cbn [flabels nsum fold_right]; [reflexivity|].
    destruct (Nat.eqb l 1) eqn:E.
    - apply Nat.eqb_eq in E. subst l. cbn [length]. now rewrite IH.
    - rewrite app_length, repeat_length, IH. reflexivity.
  Qed.

  Definition chunk_ok (c : list Z) : Prop := c <> [] /\ Forall (fun d => (2 <= d)%Z) c.

  Lemma match_loop_fwd : forall (cks : list (list Z)) extra st, Forall chunk_ok cks ->
    match_loop (length cks + S extra) (concat cks) (nones (concat cks)) (map zprod cks) st =
    Ok (MState (m_k st + length cks) (m_term st ++ flabels (length (m_fus st)) (map (@length Z) cks)) (m_unf st)
               (m_fus st ++ filter ne1 (map (@length Z) cks)) (m_exp st) (m_sing st)
               (m_fused st || existsb ne1 (map (@length Z) cks))).
  Proof.
    induction cks as [|c cks IH]; intros extra st Hok.
    - cbn [length Nat.add concat map match_loop nones flabels filter existsb repeat is_nil negb].
      rewrite !app_nil_r, !orb_false_r, Nat.add_0_r. now destruct st.
    - inversion Hok as [|? ? [Hne Hc] Hok']; subst.
      destruct c as [|d run]; [congruence|]. inversion Hc as [|? ? Hd Hrun]; subst.
      cbn [length Nat.add]. cbn [concat]. rewrite nones_app. cbn [map app].
      destruct run as [|d2 run'].
      + (* an axis that stays *)
        cbn [nones map app match_loop zprod fold_right]. rewrite Z.mul_1_r, Z.eqb_refl.
        change (map (fun _ : Z => @None (list Z)) (concat cks)) with (nones (concat cks)).
        rewrite IH by exact Hok'.
        cbn [m_k m_term m_unf m_fus m_exp m_sing m_fused length flabels Nat.eqb filter ne1 negb existsb orb].
        rewrite <- app_assoc. cbn [app]. do 2 f_equal. lia.
      + (* a merged run *)
        set (run := d2 :: run') in *.
        assert (Hrne : run <> []) by discriminate.
        pose proof (zprod_ge2 run Hrne Hrun) as Hp.
        cbn [nones map app match_loop].
        change (zprod (d :: run)) with (d * zprod run)%Z.
        replace (d =? d * zprod run)%Z with false by (symmetry; apply Z.eqb_neq; nia).
        replace (d =? 1)%Z with false by (symmetry; apply Z.eqb_neq; lia).
        replace (d * zprod run =? 1)%Z with false by (symmetry; apply Z.eqb_neq; nia).
        replace (d <? d * zprod run)%Z with true by (symmetry; apply Z.ltb_lt; nia).
        rewrite (fuse_scan_run (concat cks) run d 1) by (try assumption; lia).
        change (map (fun _ : Z => @None (list Z)) run) with (nones run).
        change (map (fun _ : Z => @None (list Z)) (concat cks)) with (nones (concat cks)).
        change (None :: nones run ++ nones (concat cks)) with (nones (d :: run) ++ nones (concat cks)).
        rewrite skipn_app, skipn_all2 by (unfold nones; rewrite map_length; cbn [length]; lia).
        replace (1 + length run - length (nones (d :: run))) with 0 by (unfold nones; rewrite map_length; cbn [length]; lia).
        cbn [skipn app].
        rewrite IH by exact Hok'.
        cbn [m_k m_term m_unf m_fus m_exp m_sing m_fused].
        assert (E1 : Nat.eqb (S (length run)) 1 = false) by (unfold run; reflexivity).
        assert (Ene : ne1 (S (length run)) = true) by (unfold ne1; now rewrite E1).
        change (length (d :: run)) with (S (length run)).
        cbn [flabels filter existsb]. rewrite E1, Ene. rewrite orb_true_r.
        rewrite app_length. cbn [length]. rewrite <- !app_assoc. cbn [app].
        replace (1 + length run) with (S (length run)) by lia.
        replace (length (m_fus st) + 1) with (S (length (m_fus st))) by lia.
        f_equal. f_equal. lia.
  Qed.

  (* ---- the fuse loop ---- *)
  Lemma nth_error_flabels_Lo pre g r i : length pre = i -> nth_error (pre ++ flabels g (1 :: r)) i = Some Lo.
  Proof. intros H. rewrite nth_error_app2 by lia. rewrite H, Nat.sub_diag. reflexivity. Qed.

  Lemma nth_error_flabels_Lg pre g l r i : length pre = i -> Nat.eqb l 1 = false -> 1 <= l ->
    nth_error (pre ++ flabels g (l :: r)) i = Some (Lg g).
  Proof.
    intros H E Hl. rewrite nth_error_app2 by lia. rewrite H, Nat.sub_diag. cbn [flabels]. rewrite E.
    destruct l; [lia|]. reflexivity.
  Qed.

  Lemma fuse_loop_calls : forall (ls : list nat) extra pre fpre b p acc fuel i term fus cur,
    Forall (fun k => 1 <= k) ls -> length pre = i ->
    fuel = 2 * length ls + 1 + extra -> i = p + nsum b -> term = pre ++ flabels (length fpre) ls ->
    fus = fpre ++ filter ne1 ls -> cur = runs p b ->
    fuse_loop fuel i term fus cur acc = Ok (acc ++ calls_go p b ls).
  Proof.
    induction ls as [|l r IH]; intros extra pre fpre b p acc fuel i term fus cur Hls Hpre -> Hi -> -> ->.
    - cbn [length Nat.mul Nat.add fuse_loop flabels calls_go]. rewrite app_nil_r.
      replace (nth_error pre i) with (@None label) by (symmetry; apply nth_error_None; lia).
      rewrite runs_nil. unfold flush. destruct (is_nil b); [now rewrite app_nil_r|reflexivity].
    - pose proof (Forall_inv Hls) as Hl. pose proof (Forall_inv_tail Hls) as Hr. cbn beta in Hl.
      replace (2 * length (l :: r) + 1 + extra) with (S (S (2 * length r + 1 + extra))) by (cbn [length]; lia).
      destruct (Nat.eqb l 1) eqn:E.
      + apply Nat.eqb_eq in E. subst l. cbn [calls_go Nat.eqb].
        remember (S (2 * length r + 1 + extra)) as F1 eqn:EF1. cbn [fuse_loop].
        rewrite (nth_error_flabels_Lo pre _ r _ Hpre).
        destruct b as [|x b'].
        * cbn [runs flush is_nil app].
          replace (p + length (@nil nat) + 1) with (S i) by (cbn [length nsum fold_right] in *; lia).
          apply (IH (S extra) (pre ++ [Lo]) fpre [] (S i) acc); try reflexivity.
          -- exact Hr.
          -- rewrite app_length. cbn [length]. lia.
          -- subst F1. lia.
          -- cbn [nsum fold_right length] in *. lia.
          -- rewrite <- app_assoc. reflexivity.
        * set (b := x :: b') in *.
          destruct (runs p b) as [|c0 cur'] eqn:Ecur; [discriminate|]. rewrite <- Ecur. clear c0 cur' Ecur.
          rewrite runs_sum, runs_length.
          replace (i - nsum b) with p by lia.
          subst F1. remember (2 * length r + 1 + extra) as F2 eqn:EF2.
          set (term' := firstn p (pre ++ flabels (length fpre) (1 :: r)) ++ repeat Lo (length b) ++
                        skipn i (pre ++ flabels (length fpre) (1 :: r))).
          assert (Ht : term' = (firstn p pre ++ repeat Lo (length b)) ++ flabels (length fpre) (1 :: r)).
          { unfold term'. rewrite firstn_app. replace (p - length pre) with 0 by lia. cbn [firstn]. rewrite app_nil_r.
            rewrite skipn_app, skipn_all2 by lia. replace (i - length pre) with 0 by lia.
            cbn [skipn app]. now rewrite <- app_assoc. }
          rewrite Ht. cbn [fuse_loop].
          assert (Lp : length (firstn p pre ++ repeat Lo (length b)) = p + length b).
          { rewrite app_length, firstn_length, repeat_length. lia. }
          rewrite (nth_error_flabels_Lo _ _ r _ Lp).
          unfold flush. cbn [is_nil]. rewrite app_assoc.
          apply (IH extra ((firstn p pre ++ repeat Lo (length b)) ++ [Lo]) fpre [] (p + length b + 1) (acc ++ [runs p b]));
            try reflexivity.
          -- exact Hr.
          -- rewrite app_length, Lp. cbn [length]. lia.
          -- exact EF2.
          -- cbn [nsum fold_right]. lia.
          -- rewrite <- (app_assoc _ [Lo]). reflexivity.
      + cbn [calls_go]. rewrite E.
        remember (S (2 * length r + 1 + extra)) as F1 eqn:EF1. cbn [fuse_loop].
        rewrite (nth_error_flabels_Lg pre _ l r _ Hpre E Hl).
        assert (Ef : filter ne1 (l :: r) = l :: filter ne1 r) by (cbn [filter]; unfold ne1 at 1; now rewrite E).
        rewrite Ef.
        rewrite nth_error_app2 by lia. rewrite Nat.sub_diag. cbn [nth_error].
        apply (IH (S extra) (pre ++ repeat (Lg (length fpre)) l) (fpre ++ [l]) (b ++ [l]) p acc).
        * exact Hr.
        * rewrite app_length, repeat_length. lia.
        * subst F1. lia.
        * rewrite nsum_app. cbn [nsum fold_right]. lia.
        * cbn [flabels]. rewrite E, app_length. cbn [length]. rewrite <- app_assoc. do 3 f_equal. lia.
        * now rewrite <- app_assoc.
        * rewrite runs_snoc. do 3 f_equal. lia.
  Qed.

  Lemma calls_go_ones : forall ls p, existsb ne1 ls = false -> calls_go p [] ls = [].
  Proof.
    induction ls as [|l r IH]; intros p H; [reflexivity|].
    cbn [existsb] in H. apply orb_false_iff in H. destruct H as [H1 H2].
    unfold ne1 in H1. apply negb_false_iff in H1. cbn [calls_go]. rewrite H1. cbn [flush is_nil app]. now apply IH.
  Qed.

  Theorem merge_runs_forward_plan (cks : list (list Z)) : Forall chunk_ok cks ->
    calc_reshape_args (concat cks) (map zprod cks) (nones (concat cks))
    = Ok ([], calls_go 0 [] (map (@length Z) cks), []).
  Proof.
    intros Hok. unfold calc_reshape_args, main_fuel.
    assert (Hls : Forall (fun k => 1 <= k) (map (@length Z) cks)).
    { apply Forall_forall. intros k Hk. apply in_map_iff in Hk. destruct Hk as (c & <- & Hc).
      rewrite Forall_forall in Hok. destruct (Hok c Hc) as [Hne _]. destruct c; [congruence|cbn [length]; lia]. }
    replace (S (length (concat cks) + length (map zprod cks)))
      with (length cks + S (length (concat cks))) by (rewrite map_length; lia).
    rewrite (match_loop_fwd cks _ mstate0 Hok).
    cbn [mstate0 bind m_k m_term m_unf m_fus m_exp m_sing m_fused unfuse_rewrite orb rev app length Nat.add].
    set (ls := map (@length Z) cks) in *.
    destruct (existsb ne1 ls) eqn:Ex.
    - rewrite flabels_length.
      pose proof (nsum_ge_length ls Hls) as Hge.
      match goal with |- context [fuse_loop ?f ?i ?t ?fu ?c ?a] =>
        assert (H : fuse_loop f i t fu c a = Ok (a ++ calls_go 0 [] ls)) by
          (apply (fuse_loop_calls ls (2 * nsum ls + 2 - (2 * length ls + 1)) [] [] [] 0);
           [exact Hls|reflexivity|lia|reflexivity|reflexivity|reflexivity|reflexivity]) end.
      rewrite H. reflexivity.
    - rewrite (calls_go_ones ls 0 Ex). reflexivity.
  Qed.

  (* ---- the way back: every merged axis carries the sizes of its run as sub-sizes ---- *)
  (* an item = (run of original sizes, size of the axis it became) *)
  Definition item_ok (it : list Z * Z) : Prop := fst it <> [] /\ (length (fst it) = 1 -> fst it = [snd it]).
  Definition item_sub (it : list Z * Z) : option (list Z) :=
    if Nat.eqb (length (fst it)) 1 then None else Some (fst it).

  Fixpoint ulabels (n : nat) (ls : list nat) : list label :=
    match ls with
    | [] => []
    | l :: r => if Nat.eqb l 1 then Lo :: ulabels n r else Lu n :: ulabels (S n) r
    end.

  Lemma match_loop_back : forall (items : list (list Z * Z)) extra st, Forall item_ok items ->
    match_loop (length items + S extra) (map snd items) (map item_sub items) (concat (map fst items)) st =
    Ok (MState (m_k st + nsum (map (fun it => length (fst it)) items))
               (m_term st ++ ulabels (length (m_unf st)) (map (fun it => length (fst it)) items))
               (m_unf st ++ filter ne1 (map (fun it => length (fst it)) items))
               (m_fus st) (m_exp st) (m_sing st) (m_fused st)).
  Proof.
    induction items as [|[c F] items IH]; intros extra st Hok.
    - cbn [length Nat.add concat map match_loop ulabels filter repeat is_nil negb nsum fold_right].
      rewrite !app_nil_r, !orb_false_r, Nat.add_0_r. now destruct st.
    - pose proof (Forall_inv Hok) as [Hne H1]. pose proof (Forall_inv_tail Hok) as Hok'. cbn [fst snd] in Hne, H1.
      cbn [length Nat.add map fst snd concat].
      destruct c as [|d run]; [congruence|].
      destruct run as [|d2 run'].
      + (* an axis that stayed *)
        specialize (H1 eq_refl). inversion H1. subst F.
        cbn [app match_loop item_sub fst length Nat.eqb]. rewrite Z.eqb_refl.
        rewrite IH by exact Hok'.
        cbn [m_k m_term m_unf m_fus m_exp m_sing m_fused ulabels filter ne1 negb Nat.eqb nsum fold_right].
        rewrite <- app_assoc. cbn [app]. do 2 f_equal. unfold nsum. lia.
      + (* a merged axis: its sub-sizes are spelled out by the target *)
        set (c := d :: d2 :: run') in *.
        assert (E1 : Nat.eqb (length c) 1 = false) by reflexivity.
        assert (Ene : ne1 (length c) = true) by (unfold ne1; now rewrite E1).
        unfold item_sub at 1. cbn [fst]. rewrite E1.
        assert (Hnw : exists x nw', c ++ concat (map fst items) = x :: nw') by (unfold c; cbn [app]; eauto).
        destruct Hnw as (x & nw' & Enw). rewrite Enw. cbn [match_loop]. rewrite <- Enw.
        rewrite prefix_eqb_app.
        rewrite skipn_app, skipn_all2 by lia. rewrite Nat.sub_diag. cbn [skipn app].
        rewrite IH by exact Hok'.
        cbn [m_k m_term m_unf m_fus m_exp m_sing m_fused]. cbn [ulabels filter nsum fold_right].
        rewrite E1, Ene. rewrite app_length. cbn [length].
        rewrite <- !app_assoc. cbn [app].
        replace (length (m_unf st) + 1) with (S (length (m_unf st))) by lia.
        f_equal. f_equal. unfold nsum. unfold c. cbn [length]. lia.
  Qed.

  Lemma index_of_Lu_gen n k rest : index_of (Lu n) (repeat Lo k ++ Lu n :: rest) = Some k.
  Proof.
    induction k as [|k IH]; cbn [repeat app index_of label_eqb]; [now rewrite Nat.eqb_refl|now rewrite IH].
  Qed.

  Lemma repeat_app' {A} (a : A) n m : repeat a n ++ repeat a m = repeat a (n + m).
  Proof. symmetry. apply repeat_app. Qed.

  Lemma unfuse_rewrite_back : forall (ls : list nat) n k acc, Forall (fun l => 1 <= l) ls ->
    unfuse_rewrite n (filter ne1 ls) (repeat Lo k ++ ulabels n ls) acc =
    Ok (acc ++ back_pos k ls, repeat Lo (k + nsum ls)).
  Proof.
    induction ls as [|l r IH]; intros n k acc Hls.
    - cbn [filter unfuse_rewrite ulabels back_pos nsum fold_right]. now rewrite !app_nil_r, Nat.add_0_r.
    - pose proof (Forall_inv Hls) as Hl. pose proof (Forall_inv_tail Hls) as Hr. cbn beta in Hl.
      cbn [filter ulabels back_pos]. unfold ne1 at 1. destruct (Nat.eqb l 1) eqn:E; cbn [negb].
      + apply Nat.eqb_eq in E. subst l.
        replace (repeat Lo k ++ Lo :: ulabels n r) with (repeat Lo (k + 1) ++ ulabels n r).
        2:{ rewrite <- repeat_app'. cbn [repeat]. now rewrite <- app_assoc. }
        rewrite IH by exact Hr.
        replace (k + nsum (1 :: r)) with (k + 1 + nsum r) by (change (nsum (1 :: r)) with (1 + nsum r); lia). reflexivity.
      + cbn [unfuse_rewrite]. rewrite index_of_Lu_gen.
        assert (Ef : firstn k (repeat Lo k ++ Lu n :: ulabels (S n) r) = repeat Lo k).
        { rewrite firstn_app, firstn_all2 by (rewrite repeat_length; lia). rewrite repeat_length, Nat.sub_diag.
          cbn [firstn]. apply app_nil_r. }
        assert (Es : skipn (S k) (repeat Lo k ++ Lu n :: ulabels (S n) r) = ulabels (S n) r).
        { rewrite skipn_app, skipn_all2 by (rewrite repeat_length; lia). rewrite repeat_length.
          replace (S k - k) with 1 by lia. reflexivity. }
        rewrite Ef, Es, app_assoc, repeat_app'.
        rewrite IH by exact Hr. rewrite <- app_assoc. cbn [app].
        replace (k + nsum (l :: r)) with (k + l + nsum r) by (change (nsum (l :: r)) with (l + nsum r); lia). reflexivity.
  Qed.

  Theorem merge_runs_backward_plan (items : list (list Z * Z)) : Forall item_ok items ->
    calc_reshape_args (map snd items) (concat (map fst items)) (map item_sub items)
    = Ok (back_pos 0 (map (fun it => length (fst it)) items), [], []).
  Proof.
    intros Hok. unfold calc_reshape_args, main_fuel.
    replace (S (length (map snd items) + length (concat (map fst items))))
      with (length items + S (length (concat (map fst items)))) by (rewrite map_length; lia).
    rewrite (match_loop_back items _ mstate0 Hok).
    cbn [mstate0 bind m_k m_term m_unf m_fus m_exp m_sing m_fused orb rev app length Nat.add].
    set (ls := map (fun it => length (fst it)) items).
    assert (Hls : Forall (fun l => 1 <= l) ls).
    { apply Forall_forall. intros k Hk. apply in_map_iff in Hk. destruct Hk as (it & <- & Hit).
      rewrite Forall_forall in Hok. destruct (Hok it Hit) as [Hne _]. destruct (fst it); [congruence|cbn [length]; lia]. }
    pose proof (unfuse_rewrite_back ls 0 0 [] Hls) as H. cbn [repeat app] in H. rewrite H. reflexivity.
  Qed.
End MergeRunsPlans.

(* examples: shape (2,3 | 4 | 5,2,2 | 3,3) merged to (6,4,20,9): one call for the first run, one call with the
   two adjacent runs; back: unfuse axes 0, 3, 6 *)
Example merge_runs_plans_example :
  calls_go 0 [] [2; 1; 3; 2] = [[[0; 1]]; [[2; 3; 4]; [5; 6]]] /\ back_pos 0 [2; 1; 3; 2] = [0; 3; 6] /\
  ReshapeArgs.calc_reshape_args [2; 3; 4; 5; 2; 2; 3; 3]%Z [6; 4; 20; 9]%Z (nones [2; 3; 4; 5; 2; 2; 3; 3]%Z)
    = ReshapeArgs.Ok ([], [[[0; 1]]; [[2; 3; 4]; [5; 6]]], []) /\
  ReshapeArgs.calc_reshape_args [6; 4; 20; 9]%Z [2; 3; 4; 5; 2; 2; 3; 3]%Z
    [Some [2; 3]%Z; None; Some [5; 2; 2]%Z; Some [3; 3]%Z] = ReshapeArgs.Ok ([0; 3; 6], [], []).
Proof. repeat split; vm_compute; reflexivity. Qed.

(* ------------------------------------------------------------------ *)
(* Part D1: one fuse call with adjacent runs *)
Lemma concat_runs b : forall p, concat (runs p b) = seq p (nsum b).
Proof.
  induction b as [|l r IH]; intros p; cbn [runs concat]; [reflexivity|].
  rewrite IH. change (nsum (l :: r)) with (l + nsum r). now rewrite seq_app.
Qed.

Lemma runs_ne p b : Forall (fun k => 1 <= k) b -> Forall (fun g : list nat => g <> []) (runs p b).
Proof.
  revert p. induction b as [|l r IH]; intros p H; cbn [runs]; [constructor|].
  pose proof (Forall_inv H) as Hl. cbn beta in Hl. constructor; [|apply IH; exact (Forall_inv_tail H)].
  destruct l; [lia|discriminate].
Qed.

Lemma nsum_pos_of b : b <> [] -> Forall (fun k => 1 <= k) b -> 0 < nsum b.
Proof.
  intros Hne H. destruct b as [|l r]; [congruence|]. pose proof (Forall_inv H) as Hl. cbn beta in Hl.
  change (nsum (l :: r)) with (l + nsum r). lia.
Qed.

Lemma ungrouped_runs p b ax : is_none (group_of (runs p b) ax) = negb (Nat.leb p ax && Nat.ltb ax (p + nsum b)).
Proof.
  destruct (is_none (group_of (runs p b) ax)) eqn:E.
  - apply ungrouped_iff' in E. rewrite concat_runs, in_seq in E. symmetry. apply negb_true_iff, andb_false_iff.
    destruct (Nat.leb p ax) eqn:E1; [right|now left]. apply Nat.leb_le in E1. apply Nat.ltb_ge. lia.
  - symmetry. apply negb_false_iff, andb_true_iff.
    destruct (Nat.leb p ax && Nat.ltb ax (p + nsum b)) eqn:E2; [apply andb_true_iff in E2; exact E2|].
    assert (Hn : is_none (group_of (runs p b) ax) = true).
    { apply ungrouped_iff'. rewrite concat_runs, in_seq. intros [H1 H2]. apply andb_false_iff in E2.
      destruct E2 as [E2|E2]; [apply Nat.leb_gt in E2|apply Nat.ltb_ge in E2]; lia. }
    rewrite Hn in E. discriminate.
Qed.

Lemma fuse_position_runs p b : 0 < nsum b -> fuse_position (runs p b) = p.
Proof. intros H. unfold fuse_position. rewrite concat_runs. now apply list_min_seq. Qed.

Lemma axes_before_runs n p b : 0 < nsum b -> axes_before n (runs p b) = seq 0 p.
Proof.
  intros H. unfold axes_before. rewrite (fuse_position_runs p b H). apply filter_all.
  intros ax Hax. apply in_seq in Hax. rewrite ungrouped_runs.
  replace (Nat.leb p ax) with false by (symmetry; apply Nat.leb_gt; lia). reflexivity.
Qed.

Lemma axes_after_runs n p b : 0 < nsum b -> p + nsum b <= n ->
  axes_after n (runs p b) = seq (p + nsum b) (n - p - nsum b).
Proof.
  intros H Hle. unfold axes_after. rewrite (fuse_position_runs p b H).
  assert (E : seq p (n - p) = seq p (nsum b) ++ seq (p + nsum b) (n - p - nsum b)) by (rewrite <- seq_app; f_equal; lia).
  rewrite E, filter_app.
  rewrite (filter_nil_all _ (seq p (nsum b))).
  2:{ intros ax Hax. apply in_seq in Hax. rewrite ungrouped_runs. apply negb_false_iff, andb_true_iff.
      split; [apply Nat.leb_le|apply Nat.ltb_lt]; lia. }
  cbn [app]. apply filter_all. intros ax Hax. apply in_seq in Hax. rewrite ungrouped_runs.
  apply negb_true_iff, andb_false_iff. right. apply Nat.ltb_ge. lia.
Qed.

Lemma fuse_perm_runs n p b : 0 < nsum b -> p + nsum b <= n -> fuse_perm n (runs p b) = seq 0 n.
Proof.
  intros H Hle. unfold fuse_perm. rewrite (axes_before_runs n p b H), (axes_after_runs n p b H Hle), concat_runs.
  rewrite <- !seq_app. f_equal. lia.
Qed.

Lemma map_add_seq p : forall m k0, map (fun k => p + k) (seq k0 m) = seq (p + k0) m.
Proof. induction m as [|m IH]; intros k0; cbn [seq map]; [reflexivity|]. rewrite IH. do 2 f_equal. lia. Qed.

Lemma chunks_app {A} (l1 l2 : list nat) : forall L : list A,
  chunks (l1 ++ l2) L = chunks l1 L ++ chunks l2 (skipn (nsum l1) L).
Proof.
  induction l1 as [|k l1 IH]; intros L; cbn [app chunks]; [reflexivity|].
  rewrite IH. change (nsum (k :: l1)) with (k + nsum l1). now rewrite skipn_add.
Qed.

Lemma chunks_map {A B} (f : A -> B) (ls : list nat) : forall L : list A,
  chunks ls (map f L) = map (map f) (chunks ls L).
Proof.
  induction ls as [|k ls IH]; intros L; cbn [chunks map]; [reflexivity|].
  now rewrite firstn_map, skipn_map, IH.
Qed.

Lemma concat_chunks {A} (ls : list nat) : forall L : list A, nsum ls = length L -> concat (chunks ls L) = L.
Proof.
  induction ls as [|k ls IH]; intros L H; cbn [chunks concat].
  - destruct L; [reflexivity|discriminate].
  - change (nsum (k :: ls)) with (k + nsum ls) in H. rewrite IH by (rewrite skipn_length; lia). apply firstn_skipn.
Qed.

Lemma chunks_lengths {A} (ls : list nat) : forall L : list A, nsum ls <= length L ->
  map (@length A) (chunks ls L) = ls.
Proof.
  induction ls as [|k ls IH]; intros L H; cbn [chunks map]; [reflexivity|].
  change (nsum (k :: ls)) with (k + nsum ls) in H.
  rewrite IH by (rewrite skipn_length; lia). f_equal. rewrite firstn_length. lia.
Qed.

Section FuseCall.
  Context (G : Symmetry) (R : Ring) (GL : GroupLaws G) (OL : OrderLaws G).
  Notation arr := (aarray G R).
  Notation dflt := (dflt_index G).
  Notation sem_ge := (sem_ge G R).

  (* how an axis of the reshaped array relates to the run of original axes it stands for *)
  Definition CR (ck : list (index G)) (i : index G) : Prop :=
    (length ck = 1 -> ck = [i] /\ isub G i = None) /\ (length ck <> 1 -> exists ext, isub G i = Some (ck, ext)).

  Lemma unfuse_groups_seq p : forall (gs : list (list nat)) (y : arr) k0,
    Forall (fun g => is_singlet g = false) gs ->
    fold_right (unfuse_step G R p) (Some y) (List.combine (seq k0 (length gs)) gs) =
    unfuse_seq G R (rev (seq (p + k0) (length gs))) y.
  Proof.
    induction gs as [|g gs IH]; intros y k0 H; [reflexivity|].
    pose proof (Forall_inv H) as Hg. pose proof (Forall_inv_tail H) as Hgs. cbn beta in Hg.
    cbn [length seq List.combine fold_right rev]. rewrite (IH y (S k0) Hgs).
    rewrite (unfuse_seq_app G R). replace (p + S k0) with (S (p + k0)) by lia.
    destruct (unfuse_seq G R (rev (seq (S (p + k0)) (length gs))) y) as [y'|]; [|reflexivity].
    unfold unfuse_step. cbn [fst snd unfuse_seq]. rewrite Hg. now destruct (a_unfuse G R y' (p + k0)).
  Qed.

  Lemma runs_nonsinglet p b : Forall (fun k => 2 <= k) b -> Forall (fun g => is_singlet g = false) (runs p b).
  Proof.
    revert p. induction b as [|l r IH]; intros p H; cbn [runs]; [constructor|].
    pose proof (Forall_inv H) as Hl. cbn beta in Hl. constructor; [|apply IH; exact (Forall_inv_tail H)].
    unfold is_singlet. rewrite seq_length. apply Nat.eqb_neq. lia.
  Qed.

  Lemma Forall_ge2_ge1 b : Forall (fun k => 2 <= k) b -> Forall (fun k => 1 <= k) b.
  Proof. intros H. eapply Forall_impl; [|exact H]. intros k Hk. cbn beta in *. lia. Qed.

  (* the indices after the call, and the sub-index information of the merged axes *)
  Lemma runs_CR (ixs : list (index G)) secs : forall b p, Forall (fun k => 2 <= k) b -> p + nsum b <= length ixs ->
    Forall2 CR (chunks b (skipn p ixs)) (map (fused_index G ixs secs) (runs p b)).
  Proof.
    induction b as [|l r IH]; intros p H Hle; cbn [chunks runs map]; [constructor|].
    pose proof (Forall_inv H) as Hl. cbn beta in Hl. change (nsum (l :: r)) with (l + nsum r) in Hle.
    constructor.
    - assert (Llen : length (firstn l (skipn p ixs)) = l) by (rewrite firstn_length, skipn_length; lia).
      split; [rewrite Llen; lia|]. intros _.
      exists (extF G (SI G ixs secs (seq p l))). rewrite fused_isub.
      + unfold subs_of. rewrite (map_nth_seq_seg dflt ixs l p) by lia. reflexivity.
      + unfold is_singlet. rewrite seq_length. apply Nat.eqb_neq. lia.
    - rewrite skipn_add. apply IH; [exact (Forall_inv_tail H)|lia].
  Qed.

  Theorem fuse_call_spec (z : arr) (p : nat) (b : list nat) :
    wf_array G R z = true -> b <> [] -> Forall (fun k => 2 <= k) b -> p + nsum b <= ndim G R z ->
    let y := fuse_core G R z (runs p b) in
    fuse_step G R z (runs p b) = Some y /\ wf_array G R y = true /\
    indices G R y = firstn p (indices G R z) ++
                    map (fused_index G (indices G R z) (sectors G R z)) (runs p b) ++
                    skipn (p + nsum b) (indices G R z) /\
    exists z', unfuse_seq G R (rev (seq p (length b))) y = Some z' /\ sem_ge z' z.
  Proof.
    intros W Hne Hb Hle. cbn zeta. unfold ndim in Hle. set (n := length (indices G R z)) in *.
    pose proof (Forall_ge2_ge1 b Hb) as Hb1. pose proof (nsum_pos_of b Hne Hb1) as Hpos.
    set (gs := runs p b).
    assert (Hgne : Forall (fun g : list nat => g <> []) gs) by (apply runs_ne; exact Hb1).
    assert (Hnd : NoDup (concat gs)) by (unfold gs; rewrite concat_runs; apply seq_NoDup).
    assert (Hrng : Forall (fun ax => ax < n) (concat gs)).
    { unfold gs. rewrite concat_runs. apply Forall_forall. intros ax Hax. apply in_seq in Hax. lia. }
    assert (Hgs : gs <> []) by (unfold gs; destruct b; [congruence|discriminate]).
    destruct (fuse_groups_wf G GL OL R z gs W Hgne Hnd Hrng) as [_ Wy].
    split; [|split; [exact Wy|split]].
    - unfold fuse_step, fuse_axes_ok. fold gs.
      rewrite (NoDup_nodupb_nat _ Hnd). cbn [andb].
      replace (forallb (fun ax => Nat.ltb ax (ndim G R z)) (concat gs)) with true.
      2:{ symmetry. apply forallb_forall. intros ax Hax. rewrite Forall_forall in Hrng. apply Nat.ltb_lt. now apply Hrng. }
      now rewrite (a_fuse_core G R z gs Hgne Hgs).
    - change (indices G R (fuse_core G R z gs)) with (fused_indices G (indices G R z) (sectors G R z) gs).
      unfold fused_indices. fold n. unfold gs. rewrite (axes_before_runs n p b Hpos), (axes_after_runs n p b Hpos Hle).
      rewrite (map_nth_seq_seg dflt (indices G R z) p 0) by (fold n; lia).
      rewrite (map_nth_seq_seg dflt (indices G R z) (n - p - nsum b) (p + nsum b)) by (fold n; lia).
      cbn [skipn]. rewrite (firstn_all2 (skipn (p + nsum b) (indices G R z))) by (rewrite skipn_length; fold n; lia).
      reflexivity.
    - destruct (unfuse_fuse_groups_thm G R GL OL z gs W Hgne Hnd Hrng) as (z' & Hu & Hix & Hq & Hown & Hall & Hsem).
      fold n in Hix, Hown, Hall, Hsem.
      assert (Hperm : fuse_perm n gs = seq 0 n) by (apply fuse_perm_runs; assumption). rewrite Hperm in *.
      unfold gs in Hu at 2. rewrite (fuse_position_runs p b Hpos) in Hu.
      unfold unfuse_groups, enumerate in Hu.
      rewrite (unfuse_groups_seq p gs _ 0 (runs_nonsinglet p b Hb)) in Hu.
      unfold gs in Hu at 1. rewrite runs_length, Nat.add_0_r in Hu.
      exists z'. split; [exact Hu|].
      assert (Wz' : wf_array G R z' = true) by exact (unfuse_seq_wf G R GL _ _ z' Wy Hu).
      apply (sem_ge_of_restores G R GL z' z Wz' W).
      destruct (wfp G R GL z W) as (_ & _ & Hblk).
      assert (Hid : forall s0 t, In (s0, t) (blocks G R z) ->
                permuted (ident G) s0 (seq 0 n) = s0 /\ ttranspose R t (seq 0 n) = t).
      { intros s0 t Hsb. destruct (Hblk s0 t Hsb) as (Hl & _ & Hsh & Hd). split; [now apply permuted_seq_id|].
        apply ttranspose_id; [|exact Hd]. rewrite Hsh. now apply block_shape_length. }
      split; [rewrite Hix; now apply permuted_seq_id|]. split; [exact Hq|]. split; [|split].
      + intros s0 t Hsb. destruct (Hid s0 t Hsb) as [E1 E2]. rewrite <- E1 at 1. rewrite <- E2 at 1. now apply Hown.
      + intros k t Hin. destruct (Hall k t Hin) as [(s0 & t0 & Hsb & -> & ->)|Hz]; [left|now right].
        destruct (Hid s0 t0 Hsb) as [-> ->]. exact Hsb.
      + intros cs Hc. rewrite <- (Hsem cs Hc). f_equal. symmetry. apply permuted_seq_id.
        unfold coords_ok in Hc. apply andb_true_iff in Hc. destruct Hc as [Hl _]. now apply Nat.eqb_eq in Hl.
  Qed.
End FuseCall.

(* ------------------------------------------------------------------ *)
(* Part D2: all the fuse calls of the forward plan, undone last to first *)
(* (position in the reshaped array, length of the run) of every merged run *)
Fixpoint fused_pairs (j : nat) (ls : list nat) : list (nat * nat) :=
  match ls with
  | [] => []
  | l :: r => if Nat.eqb l 1 then fused_pairs (S j) r else (j, l) :: fused_pairs (S j) r
  end.

Lemma fused_pairs_app l1 : forall j l2, fused_pairs j (l1 ++ l2) = fused_pairs j l1 ++ fused_pairs (j + length l1) l2.
Proof.
  induction l1 as [|l r IH]; intros j l2; cbn [app fused_pairs length]; [now rewrite Nat.add_0_r|].
  rewrite IH. replace (S j + length r) with (j + S (length r)) by lia. now destruct (Nat.eqb l 1).
Qed.

Lemma fused_pairs_ge2 b : forall j, Forall (fun k => 2 <= k) b -> map fst (fused_pairs j b) = seq j (length b).
Proof.
  induction b as [|l r IH]; intros j H; cbn [fused_pairs length seq]; [reflexivity|].
  pose proof (Forall_inv H) as Hl. cbn beta in Hl.
  replace (Nat.eqb l 1) with false by (symmetry; apply Nat.eqb_neq; lia).
  cbn [map fst]. f_equal. apply IH. exact (Forall_inv_tail H).
Qed.

Lemma fifo_fused_pairs ls : forall j off, Forall (fun k => 1 <= k) ls ->
  fifo off (fused_pairs j ls) = back_pos (j + off) ls.
Proof.
  induction ls as [|l r IH]; intros j off H; cbn [fused_pairs back_pos]; [reflexivity|].
  pose proof (Forall_inv H) as Hl. pose proof (Forall_inv_tail H) as Hr. cbn beta in Hl.
  destruct (Nat.eqb l 1).
  - rewrite IH by exact Hr. f_equal. lia.
  - cbn [fifo fst snd]. rewrite IH by exact Hr. do 2 f_equal. lia.
Qed.

Lemma fused_pairs_sorted ls : forall j,
  StronglySorted (fun p q : nat * nat => fst p < fst q) (fused_pairs j ls) /\ Forall (fun p => j <= fst p) (fused_pairs j ls).
Proof.
  induction ls as [|l r IH]; intros j; cbn [fused_pairs]; [split; constructor|].
  destruct (IH (S j)) as [H1 H2]. destruct (Nat.eqb l 1).
  - split; [exact H1|]. eapply Forall_impl; [|exact H2]. intros p Hp. cbn beta in *. lia.
  - split.
    + constructor; [exact H1|]. eapply Forall_impl; [|exact H2]. intros p Hp. cbn [fst] in *. lia.
    + constructor; [cbn; lia|]. eapply Forall_impl; [|exact H2]. intros p Hp. cbn beta in *. lia.
Qed.

Lemma Forall_skipn {A} (P : A -> Prop) k : forall l, Forall P l -> Forall P (skipn k l).
Proof.
  induction k as [|k IH]; intros l H; [exact H|]. destruct l as [|a l]; [constructor|].
  cbn [skipn]. apply IH. exact (Forall_inv_tail H).
Qed.

Section ForwardCalls.
  Context (G : Symmetry) (R : Ring) (GL : GroupLaws G) (OL : OrderLaws G).
  Notation arr := (aarray G R).
  Notation dflt := (dflt_index G).
  Notation sem_ge := (sem_ge G R).
  Notation plain := (fun ix : index G => isub G ix = None).
  Notation CR := (CR G).

  Lemma fuse_seq_app l1 l2 (z : arr) :
    fuse_seq G R (l1 ++ l2) z = match fuse_seq G R l1 z with Some y => fuse_seq G R l2 y | None => None end.
  Proof.
    revert z. induction l1 as [|a l1 IH]; intros z; cbn [app fuse_seq]; [reflexivity|].
    destruct (fuse_step G R z a); [apply IH|reflexivity].
  Qed.

  Lemma flush_spec (z : arr) p b :
    wf_array G R z = true -> Forall (fun k => 2 <= k) b -> p + nsum b <= ndim G R z ->
    exists z1 z', fuse_seq G R (flush p b) z = Some z1 /\ wf_array G R z1 = true /\
      indices G R z1 = firstn p (indices G R z) ++
                       map (fused_index G (indices G R z) (sectors G R z)) (runs p b) ++
                       skipn (p + nsum b) (indices G R z) /\
      unfuse_seq G R (rev (seq p (length b))) z1 = Some z' /\ sem_ge z' z.
  Proof.
    intros W Hb Hle. destruct b as [|l r].
    - exists z, z. cbn [flush is_nil fuse_seq runs map app nsum fold_right length seq rev unfuse_seq].
      rewrite Nat.add_0_r, firstn_skipn. split; [reflexivity|]. split; [exact W|]. split; [reflexivity|]. split; [reflexivity|].
      now apply (sem_ge_refl G R).
    - destruct (fuse_call_spec G R GL OL z p (l :: r) W ltac:(discriminate) Hb Hle) as (Hf & Wy & Iy & z' & Hu & Hge).
      exists (fuse_core G R z (runs p (l :: r))), z'. unfold flush. cbn [is_nil fuse_seq]. rewrite Hf.
      split; [reflexivity|]. split; [exact Wy|]. split; [exact Iy|]. split; [exact Hu|exact Hge].
  Qed.

  Theorem fwd_calls_spec : forall (ls : list nat) (p : nat) (b : list nat) (z : arr),
    wf_array G R z = true -> ndim G R z = p + nsum b + nsum ls ->
    Forall (fun k => 2 <= k) b -> Forall (fun k => 1 <= k) ls ->
    Forall plain (skipn p (indices G R z)) ->
    exists y Z T, fuse_seq G R (calls_go p b ls) z = Some y /\ wf_array G R y = true /\
      indices G R y = firstn p (indices G R z) ++ T /\
      Forall2 CR (chunks (b ++ ls) (skipn p (indices G R z))) T /\
      unfuse_seq G R (rev (map fst (fused_pairs p (b ++ ls)))) y = Some Z /\ sem_ge Z z.
  Proof.
    induction ls as [|l r IH]; intros p b z W Hn Hb Hls Hpl.
    - cbn [calls_go]. change (nsum []) with 0 in Hn.
      destruct (flush_spec z p b W Hb ltac:(lia)) as (z1 & z' & Hf & W1 & I1 & Hu & Hge).
      unfold ndim in Hn.
      exists z1, z', (map (fused_index G (indices G R z) (sectors G R z)) (runs p b)).
      rewrite app_nil_r. split; [exact Hf|]. split; [exact W1|]. split; [|split; [|split]].
      + rewrite I1, (skipn_all2 (indices G R z)) by lia. now rewrite app_nil_r.
      + apply runs_CR; [exact Hb|lia].
      + now rewrite (fused_pairs_ge2 b p Hb).
      + exact Hge.
    - pose proof (Forall_inv Hls) as Hl. pose proof (Forall_inv_tail Hls) as Hr. cbn beta in Hl.
      change (nsum (l :: r)) with (l + nsum r) in Hn. cbn [calls_go].
      destruct (Nat.eqb l 1) eqn:E.
      + apply Nat.eqb_eq in E. subst l.
        destruct (flush_spec z p b W Hb ltac:(lia)) as (z1 & z' & Hf & W1 & I1 & Hu & Hge).
        unfold ndim in Hn. set (ixs := indices G R z) in *.
        set (A := firstn p ixs) in *. set (B := map (fused_index G ixs (sectors G R z)) (runs p b)) in *.
        set (Cc := skipn (p + nsum b) ixs) in *.
        assert (LA : length A = p) by (unfold A; rewrite firstn_length; lia).
        assert (LB : length B = length b) by (unfold B; now rewrite map_length, runs_length).
        assert (LC : length Cc = 1 + nsum r) by (unfold Cc; rewrite skipn_length; lia).
        destruct Cc as [|c0 C'] eqn:ECc; [cbn [length] in LC; lia|].
        assert (Hc0 : plain c0).
        { assert (Hin : In c0 (skipn p ixs)).
          { replace (skipn p ixs) with (firstn (nsum b) (skipn p ixs) ++ c0 :: C').
            - apply in_or_app. right. now left.
            - rewrite <- ECc. unfold Cc. rewrite <- skipn_add. apply firstn_skipn. }
          rewrite Forall_forall in Hpl. now apply Hpl. }
        assert (HC' : C' = skipn (p + nsum b + 1) ixs).
        { replace (p + nsum b + 1) with ((p + nsum b) + 1) by lia. rewrite <- skipn_add. fold Cc. now rewrite ECc. }
        assert (Hsk : skipn (p + length b + 1) (indices G R z1) = C').
        { rewrite I1. replace (A ++ B ++ c0 :: C') with ((A ++ B ++ [c0]) ++ C') by (now rewrite <- !app_assoc).
          apply firstn_skipn_exact. rewrite !app_length. cbn [length]. lia. }
        assert (Hfi : firstn (p + length b + 1) (indices G R z1) = A ++ B ++ [c0]).
        { rewrite I1. replace (A ++ B ++ c0 :: C') with ((A ++ B ++ [c0]) ++ C') by (now rewrite <- !app_assoc).
          apply firstn_skipn_exact. rewrite !app_length. cbn [length]. lia. }
        destruct (IH (p + length b + 1) [] z1 W1) as (y & Z1 & T1 & Hfy & Wy & Iy & HT1 & HuZ1 & HgeZ1).
        * unfold ndim. rewrite I1, !app_length. cbn [length nsum fold_right] in *. lia.
        * constructor.
        * exact Hr.
        * rewrite Hsk, HC'. replace (p + nsum b + 1) with (p + (nsum b + 1)) by lia. rewrite <- skipn_add.
          now apply Forall_skipn.
        * cbn [app] in HT1, HuZ1. rewrite Hsk in HT1. rewrite Hfi in Iy.
          destruct (unfuse_seq_mono G R GL OL _ Z1 z1 z' HgeZ1 Hu) as (Z & HuZ & HgeZ).
          exists y, Z, (B ++ [c0] ++ T1).
          split; [rewrite fuse_seq_app, Hf; exact Hfy|]. split; [exact Wy|]. split; [|split; [|split]].
          -- rewrite Iy. now rewrite <- !app_assoc.
          -- rewrite chunks_app. apply Forall2_app.
             ++ apply runs_CR; [exact Hb|lia].
             ++ rewrite skipn_add. fold Cc. rewrite ECc. cbn [chunks firstn skipn app].
                constructor; [|exact HT1].
                split; [intros _; now split|intros H; cbn [length] in H; congruence].
          -- rewrite fused_pairs_app. cbn [fused_pairs Nat.eqb]. rewrite map_app, rev_app_distr.
             replace (S (p + length b)) with (p + length b + 1) by lia.
             rewrite (unfuse_seq_app G R), HuZ1. rewrite (fused_pairs_ge2 b p Hb). exact HuZ.
          -- exact (sem_ge_trans G R _ _ _ HgeZ Hge).
      + assert (Hl2 : 2 <= l) by (apply Nat.eqb_neq in E; lia).
        destruct (IH p (b ++ [l]) z W) as (y & Z & T & H1 & H2 & H3 & H4 & H5 & H6).
        * rewrite nsum_app. cbn [nsum fold_right]. lia.
        * apply Forall_app. split; [exact Hb|]. constructor; [exact Hl2|constructor].
        * exact Hr.
        * exact Hpl.
        * rewrite <- app_assoc in H4, H5. cbn [app] in H4, H5. exists y, Z, T.
          split; [exact H1|]. split; [exact H2|]. split; [exact H3|]. split; [exact H4|]. split; [exact H5|exact H6].
  Qed.
End ForwardCalls.

(* ------------------------------------------------------------------ *)
(* Part D3: the round trip of `a_reshape` for several merged runs *)
Section MergeRunsReshape.
  Context (G : Symmetry) (R : Ring) (GL : GroupLaws G) (OL : OrderLaws G).
  Notation arr := (aarray G R).
  Notation dflt := (dflt_index G).
  Notation sem_ge := (sem_ge G R).
  Notation plain := (fun ix : index G => isub G ix = None).
  Notation CR := (CR G).
  Notation szZ := (fun ix : index G => Z.of_nat (size_total G ix)).

  Definition mk_item (pr : list (index G) * index G) : list Z * Z := (map szZ (fst pr), szZ (snd pr)).

  Lemma CR_items : forall cks T, Forall2 CR cks T -> Forall (fun ck : list (index G) => ck <> []) cks ->
    let items := map mk_item (List.combine cks T) in
    map snd items = map szZ T /\ map item_sub items = map (index_subsizes G) T /\
    concat (map fst items) = map szZ (concat cks) /\ Forall item_ok items /\
    map (fun it => length (fst it)) items = map (@length (index G)) cks.
  Proof.
    induction 1 as [|ck i cks T Hci HF IH]; intros Hne; cbn zeta.
    - cbn. repeat split; constructor.
    - pose proof (Forall_inv Hne) as Hck. pose proof (Forall_inv_tail Hne) as Hne'. cbn beta in Hck.
      destruct (IH Hne') as (I1 & I2 & I3 & I4 & I5). clear IH.
      cbn [List.combine map concat]. rewrite I1, I2, I3, I5.
      destruct Hci as [Hone Hmul].
      split; [reflexivity|]. split; [|split; [|split]].
      + f_equal. unfold item_sub, index_subsizes, mk_item. cbn [fst snd]. rewrite map_length.
        destruct (Nat.eqb (length ck) 1) eqn:E.
        * apply Nat.eqb_eq in E. destruct (Hone E) as [_ ->]. reflexivity.
        * apply Nat.eqb_neq in E. destruct (Hmul E) as (ext & ->). reflexivity.
      + now rewrite map_app.
      + constructor; [|exact I4]. unfold mk_item. split; cbn [fst snd].
        * destruct ck; [congruence|discriminate].
        * rewrite map_length. intros E. destruct (Hone E) as [-> _]. reflexivity.
      + unfold mk_item. cbn [fst]. now rewrite map_length.
  Qed.

  Lemma CR_fused : forall ls L T pre, Forall2 CR (chunks ls L) T -> nsum ls <= length L ->
    Forall (fun k => 1 <= k) ls ->
    Forall (fun pq : nat * nat => exists subs ext, isub G (nth (fst pq) (pre ++ T) dflt) = Some (subs, ext) /\
                                    length subs = snd pq /\ 1 <= snd pq) (fused_pairs (length pre) ls).
  Proof.
    induction ls as [|l r IH]; intros L T pre HF Hle Hls; cbn [fused_pairs]; [constructor|].
    cbn [chunks] in HF. inversion HF as [|ck i cks T' Hci HF']; subst.
    pose proof (Forall_inv Hls) as Hl. pose proof (Forall_inv_tail Hls) as Hr. cbn beta in Hl.
    change (nsum (l :: r)) with (l + nsum r) in Hle.
    assert (Hrest : Forall (fun pq : nat * nat => exists subs ext, isub G (nth (fst pq) (pre ++ i :: T') dflt) = Some (subs, ext) /\
                                    length subs = snd pq /\ 1 <= snd pq) (fused_pairs (S (length pre)) r)).
    { replace (pre ++ i :: T') with ((pre ++ [i]) ++ T') by (now rewrite <- app_assoc).
      replace (S (length pre)) with (length (pre ++ [i])) by (rewrite app_length; cbn [length]; lia).
      apply (IH (skipn l L)); [exact HF'|rewrite skipn_length; lia|exact Hr]. }
    destruct (Nat.eqb l 1) eqn:E; [exact Hrest|]. constructor; [|exact Hrest].
    cbn [fst snd]. rewrite (nth_middle_len pre T' i dflt _ eq_refl).
    assert (Llen : length (firstn l L) = l) by (rewrite firstn_length; lia).
    destruct Hci as [_ Hmul]. apply Nat.eqb_neq in E. destruct (Hmul ltac:(lia)) as (ext & Hs).
    exists (firstn l L), ext. repeat split; try assumption.
  Qed.

  (* the array level, independent of sizes: the fuse calls `calls_go 0 [] ls` followed by the unfuse steps
     `back_pos 0 ls` restore any well-formed array without fused axes; and the unfuse steps ARE the plan of the
     way back *)
  Theorem roundtrip_calls (x : arr) (ls : list nat) :
    wf_array G R x = true -> Forall plain (indices G R x) ->
    Forall (fun k => 1 <= k) ls -> nsum ls = ndim G R x ->
    exists y x',
      fuse_seq G R (calls_go 0 [] ls) x = Some y /\ unfuse_seq G R (back_pos 0 ls) y = Some x' /\
      reshape_plan G R y (a_shape G R x) = ReshapeArgs.Ok (back_pos 0 ls, [], []) /\
      wf_array G R y = true /\ wf_array G R x' = true /\ restores G R x' x.
  Proof.
    intros W Hplain Hls Hn. unfold ndim in Hn. set (ixs := indices G R x) in *.
    set (sh := a_shape G R x).
    assert (Hsh : sh = map szZ ixs) by reflexivity.
    destruct (fwd_calls_spec G R GL OL ls 0 [] x W) as (y & Z & T & Hfy & Wy & Iy & HT & HuZ & HgeZ).
    { unfold ndim. fold ixs. cbn [nsum fold_right]. lia. }
    { constructor. }
    { exact Hls. }
    { exact Hplain. }
    cbn [firstn skipn app] in Iy, HT, HuZ. fold ixs in HT.
    assert (Hcne : Forall (fun ck : list (index G) => ck <> []) (chunks ls ixs)).
    { apply Forall_forall. intros c Hc.
      assert (Hlc : In (length c) ls) by (rewrite <- (chunks_lengths ls ixs) by lia; now apply in_map).
      rewrite Forall_forall in Hls. specialize (Hls _ Hlc). destruct c; [cbn in Hls; lia|discriminate]. }
    destruct (CR_items (chunks ls ixs) T HT Hcne) as (J1 & J2 & J3 & J4 & J5).
    set (items := map mk_item (List.combine (chunks ls ixs) T)) in *.
    rewrite (concat_chunks ls ixs) in J3 by lia. rewrite (chunks_lengths ls ixs) in J5 by lia.
    assert (P2 : reshape_plan G R y sh = ReshapeArgs.Ok (back_pos 0 ls, [], [])).
    { unfold reshape_plan, a_shape, a_subsizes. rewrite Iy, <- J1, <- J2, Hsh, <- J3, <- J5.
      now apply merge_runs_backward_plan. }
    destruct (unfuse_fifo G R GL OL (fused_pairs 0 ls) y Z Wy) as (ZF & HuF & HgeF).
    { pose proof (CR_fused ls ixs T [] HT ltac:(lia) Hls) as HF. cbn [length app] in HF.
      eapply Forall_impl; [|exact HF]. intros pq (subs & ext & H1 & H2 & H3).
      exists subs, ext. rewrite Iy. now repeat split. }
    { apply fused_pairs_sorted. }
    { exact HuZ. }
    rewrite (fifo_fused_pairs ls 0 0 Hls) in HuF. cbn [Nat.add] in HuF.
    exists y, ZF. split; [exact Hfy|]. split; [exact HuF|]. split; [exact P2|]. split; [exact Wy|]. split.
    - exact (unfuse_seq_wf G R GL _ _ ZF Wy HuF).
    - apply (restores_of_sem_ge G R GL). exact (sem_ge_trans G R _ _ _ HgeF HgeZ).
  Qed.

  (* hence: whenever the plan of the forward reshape is ([], calls_go 0 [] ls, []), reshaping and reshaping back
     restores the array *)
  Theorem reshape_roundtrip_of_forward_plan (x : arr) (ls : list nat) (shp : list Z) :
    wf_array G R x = true -> Forall plain (indices G R x) ->
    Forall (fun k => 1 <= k) ls -> nsum ls = ndim G R x ->
    reshape_plan G R x shp = ReshapeArgs.Ok ([], calls_go 0 [] ls, []) ->
    exists y x',
      a_reshape G R x shp = Some y /\ a_reshape G R y (a_shape G R x) = Some x' /\
      reshape_plan G R y (a_shape G R x) = ReshapeArgs.Ok (back_pos 0 ls, [], []) /\
      wf_array G R y = true /\ wf_array G R x' = true /\ restores G R x' x.
  Proof.
    intros W Hplain Hls Hn P1.
    destruct (roundtrip_calls x ls W Hplain Hls Hn) as (y & x' & Hf & Hu & P2 & Wy & Wx' & Hres).
    exists y, x'. split; [|split; [|split; [exact P2|split; [exact Wy|split; [exact Wx'|exact Hres]]]]].
    - unfold a_reshape. unfold reshape_plan in P1. rewrite P1.
      unfold a_exec_plan. cbn [unfuse_seq]. rewrite Hf. reflexivity.
    - unfold a_reshape. unfold reshape_plan in P2. rewrite P2.
      unfold a_exec_plan. rewrite Hu. reflexivity.
  Qed.

  Theorem reshape_roundtrip_merge_runs_plans (x : arr) (ls : list nat) :
    wf_array G R x = true -> Forall plain (indices G R x) ->
    Forall (fun k => 1 <= k) ls -> nsum ls = ndim G R x ->
    Forall (fun ix => 2 <= size_total G ix) (indices G R x) ->
    exists y x',
      a_reshape G R x (merged_runs (a_shape G R x) ls) = Some y /\
      a_reshape G R y (a_shape G R x) = Some x' /\
      reshape_plan G R x (merged_runs (a_shape G R x) ls) = ReshapeArgs.Ok ([], calls_go 0 [] ls, []) /\
      reshape_plan G R y (a_shape G R x) = ReshapeArgs.Ok (back_pos 0 ls, [], []) /\
      wf_array G R y = true /\ wf_array G R x' = true /\ restores G R x' x.
  Proof.
    intros W Hplain Hls Hn Hsz.
    assert (P1 : reshape_plan G R x (merged_runs (a_shape G R x) ls) = ReshapeArgs.Ok ([], calls_go 0 [] ls, [])).
    { unfold ndim in Hn. set (ixs := indices G R x) in *. set (sh := a_shape G R x).
      assert (Hsh : sh = map szZ ixs) by reflexivity.
      assert (Lsh : length sh = length ixs) by (rewrite Hsh; apply map_length).
      set (cks := chunks ls sh).
      assert (Hcat : concat cks = sh) by (apply concat_chunks; lia).
      assert (Hlen : map (@length Z) cks = ls) by (apply chunks_lengths; lia).
      assert (Hok : Forall chunk_ok cks).
      { apply Forall_forall. intros c Hc. split.
        - assert (Hlc : In (length c) ls) by (rewrite <- Hlen; now apply in_map).
          rewrite Forall_forall in Hls. specialize (Hls _ Hlc). destruct c; [cbn in Hls; lia|discriminate].
        - apply Forall_forall. intros d Hd.
          assert (Hin : In d sh) by (rewrite <- Hcat; apply in_concat; exists c; now split).
          rewrite Hsh in Hin. apply in_map_iff in Hin. destruct Hin as (ix & <- & Hix).
          rewrite Forall_forall in Hsz. specialize (Hsz ix Hix). lia. }
      assert (Hsub : a_subsizes G R x = nones sh) by (apply subsizes_plain; exact Hplain).
      unfold reshape_plan, merged_runs. fold sh cks. rewrite Hsub, <- Hcat, <- Hlen.
      now apply merge_runs_forward_plan. }
    destruct (reshape_roundtrip_of_forward_plan x ls _ W Hplain Hls Hn P1) as (y & x' & H1 & H2 & P2 & Wy & Wx' & Hres).
    exists y, x'. repeat (split; [assumption|]). exact Hres.
  Qed.
End MergeRunsReshape.

(* the statement left open in Proofs/ReshapeArrayProofs2.v *)
Theorem reshape_roundtrip_merge_runs_full_proved : reshape_roundtrip_merge_runs_full.
Proof.
  intros G R GL OL x ls W Hp Hls Hn Hsz.
  destruct (reshape_roundtrip_merge_runs_plans G R GL OL x ls W Hp Hls Hn Hsz) as (y & x' & H1 & H2 & _ & _ & _ & _ & H3).
  exists y, x'. split; [exact H1|split; [exact H2|exact H3]].
Qed.

(* ------------------------------------------------------------------ *)
(* Part E: reshapes that only INSERT size-one axes *)
Section InsertOnes.
  Import ReshapeArgs.

  (* `ins` = how many size-one axes are inserted in front of each axis, t = how many at the end *)
  Fixpoint ins_shape (sh : list Z) (ins : list nat) (t : nat) : list Z :=
    match sh, ins with
    | d :: sh', c :: ins' => repeat 1%Z c ++ d :: ins_shape sh' ins' t
    | _, _ => repeat 1%Z t
    end.

  (* the positions passed to expand_dims, in the order the matching loop collects them *)
  Fixpoint ins_pos (k : nat) (ins : list nat) : list nat :=
    match ins with [] => [] | c :: r => repeat k c ++ ins_pos (S k) r end.

  Lemma match_loop_ones (d : Z) sh subs nw : d <> 1%Z -> forall c fuel st,
    match_loop (c + fuel) (d :: sh) (None :: subs) (repeat 1%Z c ++ nw) st = match_loop fuel (d :: sh) (None :: subs) nw
      (MState (m_k st) (m_term st) (m_unf st) (m_fus st) (m_exp st ++ repeat (m_k st) c) (m_sing st) (m_fused st)).
  Proof.
    intros Hd. induction c as [|c IH]; intros fuel st.
    - cbn [Nat.add repeat app]. rewrite app_nil_r. now destruct st.
    - cbn [Nat.add repeat app match_loop].
      replace (d =? 1)%Z with false by (symmetry; now apply Z.eqb_neq).
      rewrite Z.eqb_refl. rewrite IH. cbn [m_k m_term m_unf m_fus m_exp m_sing m_fused].
      rewrite <- app_assoc. reflexivity.
  Qed.

  Lemma match_loop_ins : forall (sh : list Z) (ins : list nat) t extra st,
    length ins = length sh -> Forall (fun d => d <> 1%Z) sh ->
    match_loop (length sh + nsum ins + S extra) sh (nones sh) (ins_shape sh ins t) st =
    Ok (MState (m_k st + length sh) (m_term st ++ repeat Lo (length sh)) (m_unf st) (m_fus st)
               (m_exp st ++ ins_pos (m_k st) ins ++ repeat (m_k st + length sh) t) (m_sing st) (m_fused st)).
  Proof.
    induction sh as [|d sh IH]; intros ins t extra st Hl Hd.
    - destruct ins; [|discriminate]. cbn [length nsum fold_right Nat.add nones map ins_shape match_loop repeat ins_pos app is_nil negb].
      rewrite repeat_length, !app_nil_r, orb_false_r, Nat.add_0_r. now destruct st.
    - destruct ins as [|c ins]; [discriminate|]. cbn [length] in Hl.
      pose proof (Forall_inv Hd) as Hd1. pose proof (Forall_inv_tail Hd) as Hd2. cbn beta in Hd1.
      cbn [ins_shape nones map]. change (map (fun _ : Z => @None (list Z)) sh) with (nones sh).
      change (nsum (c :: ins)) with (c + nsum ins).
      replace (length (d :: sh) + (c + nsum ins) + S extra) with (c + S (length sh + nsum ins + S extra)) by (cbn [length]; lia).
      rewrite (match_loop_ones d sh (nones sh) _ Hd1).
      cbn [match_loop]. rewrite Z.eqb_refl.
      rewrite IH by (try assumption; lia).
      cbn [m_k m_term m_unf m_fus m_exp m_sing m_fused length ins_pos repeat].
      rewrite <- !app_assoc. cbn [app].
      replace (S (m_k st) + length sh) with (m_k st + S (length sh)) by lia. reflexivity.
  Qed.

  Lemma ins_shape_length : forall sh ins t, length ins = length sh -> length (ins_shape sh ins t) = length sh + nsum ins + t.
  Proof.
    induction sh as [|d sh IH]; intros [|c ins] t Hl; cbn [length] in Hl; try discriminate; cbn [ins_shape length nsum fold_right].
    - now rewrite repeat_length.
    - rewrite app_length, repeat_length. cbn [length]. rewrite IH by lia. unfold nsum. lia.
  Qed.

  Theorem insert_ones_forward_plan (sh : list Z) (ins : list nat) (t : nat) :
    length ins = length sh -> Forall (fun d => d <> 1%Z) sh ->
    calc_reshape_args sh (ins_shape sh ins t) (nones sh)
    = Ok ([], [], rev (ins_pos 0 ins ++ repeat (length sh) t)).
  Proof.
    intros Hl Hd. unfold calc_reshape_args, main_fuel. rewrite (ins_shape_length sh ins t Hl).
    replace (S (length sh + (length sh + nsum ins + t))) with (length sh + nsum ins + S (length sh + t)) by lia.
    rewrite (match_loop_ins sh ins t _ mstate0 Hl Hd).
    cbn [mstate0 bind m_k m_term m_unf m_fus m_exp m_sing m_fused unfuse_rewrite orb app Nat.add]. reflexivity.
  Qed.
End InsertOnes.

(* inserting size-one axes and reshaping back does NOT restore the array exactly: the size-one axes are removed
   by FUSING them into a neighbour, so the axis comes back with sub-index information, and its charge table is
   rebuilt from the stored sectors (charges that no block uses are lost: shape (3,3) comes back as (1,3)).
   The full statement, and its refutation *)
Definition reshape_roundtrip_insert_ones_full : Prop :=
  forall (G : Symmetry) (R : Ring), GroupLaws G -> OrderLaws G ->
  forall (x : aarray G R) (ins : list nat) (t : nat),
    wf_array G R x = true -> Forall (fun ix => isub G ix = None) (indices G R x) ->
    length ins = ndim G R x -> Forall (fun ix => size_total G ix <> 1) (indices G R x) ->
    exists y x',
      a_reshape G R x (ins_shape (a_shape G R x) ins t) = Some y /\
      a_reshape G R y (a_shape G R x) = Some x' /\ restores G R x' x.

Section InsertExamples.
  Local Open Scope Z_scope.

  (* Z2, shape (3,3), one stored block: the charge 1 of both tables is not used by any block *)
  Definition exu : aarray Z2 ZRing := mkA Z2 ZRing [i4; i4] 0 [([0; 0], zt [1; 1]%nat [7])].

  Example insert_ones_example :
    wf_array Z2 ZRing exu = true /\ Forall (fun ix => isub Z2 ix = None) (indices Z2 ZRing exu) /\
    Forall (fun ix => size_total Z2 ix <> 1%nat) (indices Z2 ZRing exu) /\
    ins_shape (a_shape Z2 ZRing exu) [0; 1]%nat 0 = [3; 1; 3] /\
    reshape_plan Z2 ZRing exu [3; 1; 3] = ReshapeArgs.Ok ([], [], [1%nat]) /\
    match a_reshape Z2 ZRing exu [3; 1; 3] with
    | Some y => (a_shape Z2 ZRing y, reshape_plan Z2 ZRing y [3; 3], option_map (a_shape Z2 ZRing) (a_reshape Z2 ZRing y [3; 3]),
                 option_map (fun x' => blocks_eqb_strict Z2 ZRing (blocks Z2 ZRing x') (blocks Z2 ZRing exu)) (a_reshape Z2 ZRing y [3; 3]),
                 option_map (a_subsizes Z2 ZRing) (a_reshape Z2 ZRing y [3; 3]))
    | None => ([], ReshapeArgs.ErrValue, None, None, None) end
    = ([3; 1; 3], ReshapeArgs.Ok ([], [[[0; 1]%nat]], []), Some [1; 3], Some true, Some [Some [3; 1]; None]).
  Proof.
    split; [vm_compute; reflexivity|]. split; [repeat constructor|]. split; [repeat constructor; cbn; lia|].
    repeat split; vm_compute; reflexivity.
  Qed.

  Theorem reshape_roundtrip_insert_ones_refuted : ~ reshape_roundtrip_insert_ones_full.
  Proof.
    intros H. destruct insert_ones_example as (W & Hp & Hs & _).
    destruct (H Z2 ZRing Z2_laws Z2_order exu [0; 1]%nat 0%nat W Hp eq_refl Hs) as (y & x' & H1 & H2 & HI & _).
    vm_compute in H1. inversion H1. subst y. clear H1.
    vm_compute in H2. inversion H2. subst x'. clear H2.
    vm_compute in HI. discriminate HI.
  Qed.

  (* several merged runs: the theorem applied (two fuse calls, two unfuse steps) *)
  Example merge_runs_applies :
    calls_go 0 [] [2; 1; 2]%nat = [[[0; 1]]; [[2; 3]]]%nat /\ back_pos 0 [2; 1; 2]%nat = [0; 3]%nat /\
    exists y x', a_reshape Z2 ZRing ex5 (merged_runs (a_shape Z2 ZRing ex5) [2; 1; 2]%nat) = Some y /\
                 a_reshape Z2 ZRing y (a_shape Z2 ZRing ex5) = Some x' /\ restores Z2 ZRing x' ex5.
  Proof.
    split; [reflexivity|]. split; [reflexivity|].
    apply (reshape_roundtrip_merge_runs_full_proved Z2 ZRing Z2_laws Z2_order ex5 [2; 1; 2]%nat).
    - vm_compute; reflexivity.
    - repeat constructor.
    - repeat constructor.
    - reflexivity.
    - repeat constructor.
  Qed.

  (* two adjacent runs in ONE fuse call, unfused first to last: (3,3,3,3) -> (9,9) -> (3,3,3,3) *)
  Example merge_runs_applies_adjacent :
    calls_go 0 [] [2; 2]%nat = [[[0; 1]; [2; 3]]]%nat /\ back_pos 0 [2; 2]%nat = [0; 2]%nat /\
    exists y x', a_reshape Z2 ZRing ex4 (merged_runs (a_shape Z2 ZRing ex4) [2; 2]%nat) = Some y /\
                 a_reshape Z2 ZRing y (a_shape Z2 ZRing ex4) = Some x' /\ restores Z2 ZRing x' ex4.
  Proof.
    split; [reflexivity|]. split; [reflexivity|].
    apply (reshape_roundtrip_merge_runs_full_proved Z2 ZRing Z2_laws Z2_order ex4 [2; 2]%nat).
    - vm_compute; reflexivity.
    - repeat constructor.
    - repeat constructor.
    - reflexivity.
    - repeat constructor; cbn; lia.
  Qed.
End InsertExamples.

(* ------------------------------------------------------------------ *)
(* Part F: reshapes that only DROP size-one axes (the squeeze phases of calc_reshape_args) *)
Section DropOnes.
  Import ReshapeArgs.

  (* a = number of leading size-one axes that are dropped; every (d, z) of `ds` is an axis of size d that is
     kept, followed by z size-one axes that are dropped *)
  Definition drop_tail (ds : list (Z * nat)) : list Z := concat (map (fun dz => fst dz :: repeat 1%Z (snd dz)) ds).
  Definition drop_shape (a : nat) (ds : list (Z * nat)) : list Z := repeat 1%Z a ++ drop_tail ds.
  Definition raw_labels (ds : list (Z * nat)) : list label := concat (map (fun dz => Lo :: repeat Ls (snd dz)) ds).
  Definition any_z (ds : list (Z * nat)) : bool := existsb (fun dz => negb (Nat.eqb (snd dz) 0)) ds.
  Definition tail_lens (ds : list (Z * nat)) : list nat := map (fun dz => 1 + snd dz) ds.
  Definition drop_lens (a : nat) (ds : list (Z * nat)) : list nat :=
    match ds with [] => [] | dz :: r => (a + 1 + snd dz) :: tail_lens r end.

  (* the matching loop is greedy: a dropped size-one axis must not be matched by a kept size-one axis *)
  Fixpoint chain_ok (ds : list (Z * nat)) : Prop :=
    match ds with
    | dz :: (dz' :: _) as r => (0 < snd dz -> fst dz' <> 1%Z) /\ chain_ok r
    | _ => True
    end.

  Lemma match_loop_skip_ones dj nw sh subs : forall z fuel st, (0 < z -> dj <> 1%Z) ->
    match_loop (z + fuel) (repeat 1%Z z ++ sh) (nones (repeat 1%Z z) ++ subs) (dj :: nw) st =
    match_loop fuel sh subs (dj :: nw)
      (MState (m_k st) (m_term st ++ repeat Ls z) (m_unf st) (m_fus st) (m_exp st)
              (m_sing st || negb (Nat.eqb z 0)) (m_fused st)).
  Proof.
    induction z as [|z IH]; intros fuel st Hz.
    - cbn [Nat.add repeat app nones map Nat.eqb negb]. rewrite app_nil_r, orb_false_r. now destruct st.
    - specialize (Hz ltac:(lia)). cbn [Nat.add repeat app nones map match_loop].
      replace (1 =? dj)%Z with false by (symmetry; apply Z.eqb_neq; congruence).
      cbn [Z.eqb Pos.eqb].
      change (map (fun _ : Z => @None (list Z)) (repeat 1%Z z)) with (nones (repeat 1%Z z)).
      rewrite IH by (intros _; exact Hz).
      cbn [m_k m_term m_unf m_fus m_exp m_sing m_fused Nat.eqb negb].
      rewrite <- app_assoc. cbn [app]. rewrite orb_true_r.
      destruct (m_sing st); reflexivity.
  Qed.

  Lemma match_loop_drop_tail : forall (ds : list (Z * nat)) extra st, chain_ok ds ->
    match_loop (length (drop_tail ds) + S extra) (drop_tail ds) (nones (drop_tail ds)) (map fst ds) st =
    Ok (MState (m_k st + length ds) (m_term st ++ raw_labels ds) (m_unf st) (m_fus st) (m_exp st)
               (m_sing st || any_z ds) (m_fused st)).
  Proof.
    induction ds as [|[d z] ds IH]; intros extra st Hc.
    - cbn [drop_tail map concat length Nat.add match_loop nones raw_labels any_z existsb repeat is_nil negb].
      rewrite !app_nil_r, !orb_false_r, Nat.add_0_r. now destruct st.
    - unfold drop_tail, raw_labels. cbn [map concat fst snd]. fold (drop_tail ds). fold (raw_labels ds).
      cbn [app length Nat.add]. unfold nones at 1. cbn [map match_loop]. rewrite Z.eqb_refl, map_app.
      change (map (fun _ : Z => @None (list Z)) (repeat 1%Z z)) with (nones (repeat 1%Z z)).
      change (map (fun _ : Z => @None (list Z)) (drop_tail ds)) with (nones (drop_tail ds)).
      destruct ds as [|[d' z'] ds'].
      + (* last kept axis: the remaining size-one axes are the trailing dimensions *)
        cbn [drop_tail map concat]. rewrite !app_nil_r. rewrite repeat_length.
        replace (z + S extra) with (S (z + extra)) by lia. cbn [match_loop].
        assert (Hnil : forall sh0 : list Z, match sh0, @nil Z with | _ :: _, _ :: _ => false | _, _ => true end = true)
          by (intros [|? ?]; reflexivity).
        destruct (repeat 1%Z z) as [|o os] eqn:Er.
        * assert (z = 0) by (destruct z; [reflexivity|discriminate]). subst z.
          cbn [length repeat is_nil negb m_k m_term m_unf m_fus m_exp m_sing m_fused any_z existsb snd Nat.eqb app].
          rewrite !app_nil_r, !orb_false_r. do 2 f_equal. lia.
        * assert (Hz : z <> 0) by (intros ->; discriminate).
          assert (Hlen : length (o :: os) = z) by (rewrite <- Er; apply repeat_length).
          rewrite Hlen. cbn [is_nil negb].
          cbn [m_k m_term m_unf m_fus m_exp m_sing m_fused any_z existsb snd length].
          replace (Nat.eqb z 0) with false by (symmetry; now apply Nat.eqb_neq).
          cbn [negb orb repeat]. rewrite !app_nil_r, <- app_assoc, !orb_true_r. cbn [app]. do 2 f_equal. lia.
      + destruct Hc as [Hz Hc]. cbn [fst snd] in Hz.
        cbn [map fst]. rewrite app_length, repeat_length.
        replace (z + length (drop_tail ((d', z') :: ds')) + S extra) with (z + (length (drop_tail ((d', z') :: ds')) + S extra)) by lia.
        rewrite (match_loop_skip_ones d' (map fst ds') _ _ z _ _ Hz).
        change (d' :: map fst ds') with (map fst ((d', z') :: ds')).
        rewrite IH by exact Hc.
        cbn [m_k m_term m_unf m_fus m_exp m_sing m_fused length].
        unfold any_z at 2. cbn [existsb snd]. fold (any_z ((d', z') :: ds')).
        rewrite <- !app_assoc. cbn [app]. rewrite <- !orb_assoc. do 2 f_equal. lia.
  Qed.

  (* ---- the squeeze phases ---- *)
  Lemma count_lead_s_raw z ds : count_lead_s (repeat Ls z ++ raw_labels ds) = z.
  Proof.
    induction z as [|z IH]; cbn [repeat app count_lead_s]; [|now rewrite IH].
    destruct ds as [|[d z'] ds]; reflexivity.
  Qed.

  Lemma set_nth_middle' {A} (P : list A) x y rest : set_nth (length P) y (P ++ x :: rest) = P ++ y :: rest.
  Proof. induction P as [|p P IH]; cbn [length app set_nth]; [reflexivity|now rewrite IH]. Qed.

  Lemma add_nth_last fus c z : add_nth (length fus) z (fus ++ [c]) = fus ++ [c + z].
  Proof. induction fus as [|f fus IH]; cbn [length app add_nth]; [reflexivity|now rewrite IH]. Qed.

  Lemma nth_error_middle {A} (P : list A) x rest : nth_error (P ++ x :: rest) (length P) = Some x.
  Proof. rewrite nth_error_app2 by lia. now rewrite Nat.sub_diag. Qed.

  Lemma flabels_single g l : Nat.eqb l 1 = false -> flabels g [l] = repeat (Lg g) l.
  Proof. intros E. cbn [flabels]. rewrite E. apply app_nil_r. Qed.

  Lemma raw_labels_cons dz ds : raw_labels (dz :: ds) = Lo :: repeat Ls (snd dz) ++ raw_labels ds.
  Proof. reflexivity. Qed.

  Lemma squeeze_rest_S fuel i term fus g :
    squeeze_rest (S fuel) i term fus g =
    match nth_error term i with
    | None => Ok (term, fus)
    | Some Ls =>
      match nth_error term (i - 1) with
      | None => ErrIndex
      | Some lft =>
        match pick_group lft (i - 1) term fus g with
        | (None, _, _) => ErrUnbound
        | (Some gn, term1, fus1) =>
          let r := count_lead_s (skipn i term1) in
          squeeze_rest fuel (i + r + 1)
                       (firstn i term1 ++ repeat (Lg gn) r ++ skipn (i + r) term1)
                       (add_nth gn r fus1) (Some gn)
        end
      end
    | Some _ => squeeze_rest fuel (S i) term fus g
    end.
  Proof. reflexivity. Qed.

  (* one run of z+1 squeezed axes right of position |P| (which holds the label C) is grouped with it *)
  Lemma squeeze_run (P : list label) C gn z rest term2 fus2 fuel fus g :
    pick_group C (length P) (P ++ C :: repeat Ls (S z) ++ rest) fus g = (Some gn, P ++ Lg gn :: repeat Ls (S z) ++ rest, fus2) ->
    count_lead_s (repeat Ls (S z) ++ rest) = S z ->
    term2 = (P ++ repeat (Lg gn) (1 + S z)) ++ rest ->
    squeeze_rest (S fuel) (S (length P)) (P ++ C :: repeat Ls (S z) ++ rest) fus g =
    squeeze_rest fuel (S (length (P ++ repeat (Lg gn) (1 + S z)))) term2 (add_nth gn (S z) fus2) (Some gn).
  Proof.
    intros Hpick Hcnt ->. rewrite squeeze_rest_S.
    replace (nth_error (P ++ C :: repeat Ls (S z) ++ rest) (S (length P))) with (Some Ls).
    2:{ symmetry. rewrite nth_error_app2 by lia. replace (S (length P) - length P) with 1 by lia. reflexivity. }
    replace (S (length P) - 1) with (length P) by lia. rewrite nth_error_middle, Hpick. cbn zeta.
    assert (Esplit : P ++ Lg gn :: repeat Ls (S z) ++ rest = (P ++ [Lg gn]) ++ repeat Ls (S z) ++ rest)
      by (now rewrite <- app_assoc).
    assert (LP1 : length (P ++ [Lg gn]) = S (length P)) by (rewrite app_length; cbn [length]; lia).
    rewrite Esplit.
    destruct (firstn_skipn_exact (P ++ [Lg gn]) (repeat Ls (S z) ++ rest) (S (length P)) LP1) as [Ef Es].
    rewrite Es, Ef, Hcnt.
    replace (skipn (S (length P) + S z) ((P ++ [Lg gn]) ++ repeat Ls (S z) ++ rest)) with rest.
    2:{ rewrite app_assoc. symmetry. apply firstn_skipn_exact. rewrite app_length, LP1, repeat_length. lia. }
    f_equal.
    - rewrite app_length, repeat_length. lia.
    - cbn [Nat.add repeat]. rewrite <- !app_assoc. reflexivity.
  Qed.

  (* from the label after a kept axis (at position |P|, still "o") onwards *)
  Lemma squeeze_rest_drop : forall (ds : list (Z * nat)) d z P fus g extra,
    squeeze_rest (length ds + 1 + S extra) (S (length P)) (P ++ raw_labels ((d, z) :: ds)) fus g =
    Ok (P ++ flabels (length fus) (tail_lens ((d, z) :: ds)), fus ++ filter ne1 (tail_lens ((d, z) :: ds))).
  Proof.
    induction ds as [|[d' z'] ds IH]; intros d z P fus g extra.
    - (* the last kept axis *)
      unfold raw_labels, tail_lens. cbn [map concat snd length]. rewrite app_nil_r.
      replace (0 + 1 + S extra) with (S (S extra)) by lia.
      destruct z as [|z].
      + rewrite squeeze_rest_S. cbn [repeat flabels Nat.add Nat.eqb filter ne1 negb].
        replace (nth_error (P ++ [Lo]) (S (length P))) with (@None label)
          by (symmetry; apply nth_error_None; rewrite app_length; cbn [length]; lia).
        now rewrite app_nil_r.
      + rewrite <- (app_nil_r (repeat Ls (S z))).
        rewrite (squeeze_run P Lo (length fus) z [] ((P ++ repeat (Lg (length fus)) (1 + S z)) ++ []) (fus ++ [1]) (S extra) fus g); [| |apply (count_lead_s_raw (S z) [])|reflexivity].
        2:{ cbn [pick_group]. now rewrite set_nth_middle'. }
        rewrite squeeze_rest_S.
        replace (nth_error ((P ++ repeat (Lg (length fus)) (1 + S z)) ++ []) (S (length (P ++ repeat (Lg (length fus)) (1 + S z))))) with (@None label)
          by (symmetry; apply nth_error_None; rewrite app_nil_r; lia).
        rewrite add_nth_last, !app_nil_r.
        assert (E : Nat.eqb (1 + S z) 1 = false) by reflexivity.
        assert (Ene : ne1 (1 + S z) = true) by reflexivity.
        rewrite (flabels_single _ _ E). cbn [filter]. rewrite Ene. reflexivity.
    - (* another kept axis follows *)
      change (length ((d', z') :: ds) + 1 + S extra) with (S (length ds + 1 + S extra)).
      rewrite (raw_labels_cons (d, z) ((d', z') :: ds)). cbn [snd].
      destruct z as [|z].
      + rewrite squeeze_rest_S. cbn [repeat app].
        replace (nth_error (P ++ Lo :: raw_labels ((d', z') :: ds)) (S (length P))) with (Some Lo).
        2:{ symmetry. rewrite nth_error_app2 by lia. replace (S (length P) - length P) with 1 by lia. reflexivity. }
        replace (P ++ Lo :: raw_labels ((d', z') :: ds)) with ((P ++ [Lo]) ++ raw_labels ((d', z') :: ds))
          by (now rewrite <- app_assoc).
        replace (S (S (length P))) with (S (length (P ++ [Lo]))) by (rewrite app_length; cbn [length]; lia).
        rewrite IH. unfold tail_lens. cbn [map snd Nat.add flabels Nat.eqb filter ne1 negb].
        now rewrite <- app_assoc.
      + cbn [app].
        rewrite (squeeze_run P Lo (length fus) z (raw_labels ((d', z') :: ds)) ((P ++ repeat (Lg (length fus)) (1 + S z)) ++ raw_labels ((d', z') :: ds)) (fus ++ [1]) (length ds + 1 + S extra) fus g);
          [| |apply count_lead_s_raw|reflexivity].
        2:{ cbn [pick_group]. now rewrite set_nth_middle'. }
        rewrite IH, add_nth_last.
        assert (E : Nat.eqb (1 + S z) 1 = false) by reflexivity.
        assert (Ene : ne1 (1 + S z) = true) by reflexivity.
        unfold tail_lens. cbn [map snd]. fold (tail_lens ((d', z') :: ds)).
        cbn [flabels filter]. rewrite E, Ene.
        rewrite app_length. cbn [length]. rewrite <- !app_assoc. cbn [app].
        replace (length fus + 1) with (S (length fus)) by lia. reflexivity.
  Qed.
  Lemma squeeze_rest_tail ds Pdone fus g extra :
    squeeze_rest (length ds + 1 + S extra) (S (length Pdone)) (Pdone ++ raw_labels ds) fus g =
    Ok (Pdone ++ flabels (length fus) (tail_lens ds), fus ++ filter ne1 (tail_lens ds)).
  Proof.
    destruct ds as [|[d z] ds].
    - cbn [length Nat.add raw_labels map concat tail_lens flabels filter]. rewrite squeeze_rest_S, !app_nil_r.
      now replace (nth_error Pdone (S (length Pdone))) with (@None label) by (symmetry; apply nth_error_None; lia).
    - replace (length ((d, z) :: ds) + 1 + S extra) with (length ds + 1 + S (S extra)) by (cbn [length]; lia).
      apply squeeze_rest_drop.
  Qed.

  Lemma squeeze_rest_tail0 ds Pdone fus g extra :
    squeeze_rest (S (length ds + 1 + S extra)) (length Pdone) (Pdone ++ raw_labels ds) fus g =
    Ok (Pdone ++ flabels (length fus) (tail_lens ds), fus ++ filter ne1 (tail_lens ds)).
  Proof.
    rewrite squeeze_rest_S. destruct ds as [|[d z] ds].
    - cbn [raw_labels map concat tail_lens flabels filter]. rewrite !app_nil_r.
      now replace (nth_error Pdone (length Pdone)) with (@None label) by (symmetry; apply nth_error_None; lia).
    - rewrite raw_labels_cons, nth_error_middle.
      rewrite <- (raw_labels_cons (d, z) ds).
      replace (length ((d, z) :: ds) + 1 + S extra) with (length ds + 1 + S (S extra)) by (cbn [length]; lia).
      apply squeeze_rest_drop.
  Qed.

  Lemma raw_labels_length ds : length (raw_labels ds) = nsum (tail_lens ds).
  Proof.
    induction ds as [|[d z] ds IH]; [reflexivity|]. rewrite raw_labels_cons. cbn [length tail_lens map snd].
    rewrite app_length, repeat_length, IH. change (nsum (1 + z :: map (fun dz => 1 + snd dz) ds)) with (1 + z + nsum (tail_lens ds)). lia.
  Qed.

  Lemma tail_lens_ge1 ds : Forall (fun k => 1 <= k) (tail_lens ds).
  Proof. unfold tail_lens. apply Forall_forall. intros k Hk. apply in_map_iff in Hk. destruct Hk as (dz & <- & _). lia. Qed.

  Lemma tail_lens_length ds : length (tail_lens ds) = length ds.
  Proof. apply map_length. Qed.

  Lemma squeeze_left_lead a z ds d :
    squeeze_left (repeat Ls (S a) ++ raw_labels ((d, z) :: ds)) [] =
    Ok (S a, repeat (Lg 0) (S a) ++ Lg 0 :: repeat Ls z ++ raw_labels ds, [1 + S a], Some 0).
  Proof.
    pose proof (count_lead_s_raw (S a) ((d, z) :: ds)) as Hcnt.
    rewrite raw_labels_cons in Hcnt |- *. cbn [snd] in Hcnt |- *.
    set (rest := repeat Ls z ++ raw_labels ds) in *.
    assert (LP : length (repeat Ls (S a)) = S a) by apply repeat_length.
    assert (Hnth : nth_error (repeat Ls (S a) ++ Lo :: rest) (S a) = Some Lo).
    { rewrite <- LP at 2. apply nth_error_middle. }
    assert (Hset : set_nth (S a) (Lg 0) (repeat Ls (S a) ++ Lo :: rest) = repeat Ls (S a) ++ Lg 0 :: rest).
    { rewrite <- LP at 1. apply set_nth_middle'. }
    assert (Hskip : skipn (S a) (repeat Ls (S a) ++ Lg 0 :: rest) = Lg 0 :: rest).
    { apply (firstn_skipn_exact (repeat Ls (S a)) (Lg 0 :: rest) (S a) LP). }
    unfold squeeze_left.
    change (repeat Ls (S a) ++ Lo :: rest) with (Ls :: (repeat Ls a ++ Lo :: rest)) at 1. cbv iota beta.
    rewrite Hcnt, Hnth. cbn [pick_group length app]. rewrite Hset, Hskip. reflexivity.
  Qed.

  (* the squeeze phases on the labels the matching loop produces *)
  Lemma squeeze_phase_drop a dz ds :
    squeeze_phase (repeat Ls a ++ raw_labels (dz :: ds)) [] =
    Ok (flabels 0 (drop_lens a (dz :: ds)), filter ne1 (drop_lens a (dz :: ds))).
  Proof.
    destruct dz as [d z]. unfold squeeze_phase.
    pose proof (nsum_ge_length _ (tail_lens_ge1 ds)) as Hge. rewrite tail_lens_length in Hge.
    destruct a as [|a].
    - (* no leading squeezed axis *)
      cbn [repeat app]. rewrite raw_labels_cons. cbn [squeeze_left]. rewrite <- raw_labels_cons.
      set (term := raw_labels ((d, z) :: ds)).
      assert (Lt : length term = 1 + z + nsum (tail_lens ds)).
      { unfold term. rewrite raw_labels_length. reflexivity. }
      replace (S (length term)) with (length ds + 1 + S (length term - length ds - 1)) by lia.
      pose proof (squeeze_rest_drop ds d z [] [] None (length term - length ds - 1)) as H.
      cbn [length app] in H. unfold term in H |- *. rewrite H. reflexivity.
    - (* leading squeezed axes: grouped into the first kept axis *)
      rewrite (squeeze_left_lead a z ds d).
      set (P := repeat (Lg 0) (S a)).
      assert (LPg : length P = S a) by apply repeat_length.
      assert (Lraw : length (raw_labels ds) = nsum (tail_lens ds)) by apply raw_labels_length.
      destruct z as [|z].
      + (* no squeezed axis right of the first kept axis *)
        cbn [repeat app].
        replace (P ++ Lg 0 :: raw_labels ds) with ((P ++ [Lg 0]) ++ raw_labels ds) by (now rewrite <- app_assoc).
        assert (EL : S (S a) = length (P ++ [Lg 0])) by (rewrite app_length, LPg; cbn [length]; lia).
        replace (S (length ((P ++ [Lg 0]) ++ raw_labels ds)))
          with (S (length ds + 1 + S (length ((P ++ [Lg 0]) ++ raw_labels ds) - length ds - 2)))
          by (rewrite !app_length, LPg, Lraw; cbn [length]; lia).
        rewrite EL. rewrite squeeze_rest_tail0. cbn [length drop_lens snd flabels filter].
        assert (E : Nat.eqb (S a + 1 + 0) 1 = false) by (apply Nat.eqb_neq; lia).
        assert (Ene : ne1 (S a + 1 + 0) = true) by (unfold ne1; now rewrite E).
        rewrite E, Ene. cbn [app].
        replace (S a + 1 + 0) with (S a + 1) by lia. rewrite repeat_app. cbn [repeat]. fold P.
        replace (1 + S a) with (S a + 1) by lia. reflexivity.
      + (* squeezed axes right of the first kept axis join the same group *)
        replace (S (length (P ++ Lg 0 :: repeat Ls (S z) ++ raw_labels ds)))
          with (S (length ds + 1 + S (length (P ++ Lg 0 :: repeat Ls (S z) ++ raw_labels ds) - length ds - 2)))
          by (rewrite !app_length, LPg; cbn [length]; rewrite app_length, repeat_length, Lraw; lia).
        replace (S (S a)) with (S (length P)) by (now rewrite LPg).
        rewrite (squeeze_run P (Lg 0) 0 z (raw_labels ds) ((P ++ repeat (Lg 0) (1 + S z)) ++ raw_labels ds) [1 + S a] _ [1 + S a] (Some 0));
          [|reflexivity|apply count_lead_s_raw|reflexivity].
        rewrite squeeze_rest_tail. cbn [add_nth length drop_lens snd flabels filter].
        assert (E : Nat.eqb (S a + 1 + S z) 1 = false) by (apply Nat.eqb_neq; lia).
        assert (Ene : ne1 (S a + 1 + S z) = true) by (unfold ne1; now rewrite E).
        rewrite E, Ene. cbn [app]. f_equal. f_equal; [|f_equal; lia].
        unfold P. f_equal. rewrite repeat_app'. f_equal. lia.
  Qed.

  Lemma any_z_false ds : any_z ds = false -> existsb ne1 (tail_lens ds) = false.
  Proof.
    induction ds as [|[d z] ds IH]; intros H; [reflexivity|].
    unfold any_z in H. cbn [existsb snd] in H. apply orb_false_iff in H. destruct H as [H1 H2].
    apply negb_false_iff, Nat.eqb_eq in H1. subst z. change (tail_lens ((d, 0) :: ds)) with (1 :: tail_lens ds).
    cbn [existsb]. rewrite IH by exact H2. reflexivity.
  Qed.

  Theorem drop_ones_forward_plan (a : nat) (dz : Z * nat) (ds : list (Z * nat)) :
    chain_ok (dz :: ds) -> (0 < a -> fst dz <> 1%Z) ->
    calc_reshape_args (drop_shape a (dz :: ds)) (map fst (dz :: ds)) (nones (drop_shape a (dz :: ds)))
    = Ok ([], calls_go 0 [] (drop_lens a (dz :: ds)), []).
  Proof.
    intros Hc Ha. unfold calc_reshape_args, main_fuel, drop_shape.
    rewrite nones_app, app_length, repeat_length, map_length.
    replace (S (a + length (drop_tail (dz :: ds)) + length (dz :: ds)))
      with (a + (length (drop_tail (dz :: ds)) + S (length (dz :: ds)))) by lia.
    cbn [map]. rewrite (match_loop_skip_ones (fst dz) (map fst ds) _ _ a _ mstate0 Ha).
    change (fst dz :: map fst ds) with (map fst (dz :: ds)).
    rewrite (match_loop_drop_tail (dz :: ds) _ _ Hc).
    cbn [mstate0 bind m_k m_term m_unf m_fus m_exp m_sing m_fused unfuse_rewrite orb rev app].
    destruct (negb (Nat.eqb a 0) || any_z (dz :: ds)) eqn:Es.
    - rewrite squeeze_phase_drop. cbn [bind].
      set (ls := drop_lens a (dz :: ds)).
      assert (Hls : Forall (fun k => 1 <= k) ls).
      { unfold ls. cbn [drop_lens]. constructor; [lia|apply tail_lens_ge1]. }
      rewrite flabels_length.
      pose proof (nsum_ge_length ls Hls) as Hge.
      match goal with |- context [fuse_loop ?f ?i ?t ?fu ?c ?acc] =>
        assert (H : fuse_loop f i t fu c acc = Ok (acc ++ calls_go 0 [] ls)) by
          (apply (fuse_loop_calls ls (2 * nsum ls + 2 - (2 * length ls + 1)) [] [] [] 0);
           [exact Hls|reflexivity|lia|reflexivity|reflexivity|reflexivity|reflexivity]) end.
      rewrite H. reflexivity.
    - apply orb_false_iff in Es. destruct Es as [E1 E2]. apply negb_false_iff, Nat.eqb_eq in E1. subst a.
      cbn [bind]. rewrite (calls_go_ones (drop_lens 0 (dz :: ds)) 0); [reflexivity|].
      exact (any_z_false (dz :: ds) E2).
  Qed.

End DropOnes.

Lemma drop_shape_length a dz ds : length (drop_shape a (dz :: ds)) = nsum (drop_lens a (dz :: ds)).
Proof.
  unfold drop_shape. rewrite app_length, repeat_length. cbn [drop_lens].
  change (nsum (a + 1 + snd dz :: tail_lens ds)) with (a + 1 + snd dz + nsum (tail_lens ds)).
  unfold drop_tail. cbn [map concat]. rewrite app_length. cbn [length]. rewrite repeat_length.
  fold (drop_tail ds).
  assert (H : forall l, length (drop_tail l) = nsum (tail_lens l)).
  { induction l as [|[d z] l IH]; [reflexivity|]. unfold drop_tail. cbn [map concat snd fst].
    fold (drop_tail l). rewrite app_length. cbn [length]. rewrite repeat_length, IH.
    change (nsum (tail_lens ((d, z) :: l))) with (1 + z + nsum (tail_lens l)). lia. }
  rewrite H. lia.
Qed.

Section DropOnesReshape.
  Context (G : Symmetry) (R : Ring) (GL : GroupLaws G) (OL : OrderLaws G).
  Notation arr := (aarray G R).

  (* dropping size-one axes (charged or not) and reshaping back restores the array: `a` leading size-one axes
     and, after every kept axis (d, z), z size-one axes are dropped; kept axes may have size one themselves as
     long as the greedy matching does not confuse them with dropped ones (chain_ok, and the first kept axis) *)
  Theorem reshape_roundtrip_drop_ones (x : arr) (a : nat) (dz : Z * nat) (ds : list (Z * nat)) :
    wf_array G R x = true -> Forall (fun ix => isub G ix = None) (indices G R x) ->
    a_shape G R x = drop_shape a (dz :: ds) -> chain_ok (dz :: ds) -> (0 < a -> fst dz <> 1%Z) ->
    exists y x',
      a_reshape G R x (map fst (dz :: ds)) = Some y /\ a_reshape G R y (a_shape G R x) = Some x' /\
      reshape_plan G R x (map fst (dz :: ds)) = ReshapeArgs.Ok ([], calls_go 0 [] (drop_lens a (dz :: ds)), []) /\
      reshape_plan G R y (a_shape G R x) = ReshapeArgs.Ok (back_pos 0 (drop_lens a (dz :: ds)), [], []) /\
      wf_array G R y = true /\ wf_array G R x' = true /\ restores G R x' x.
  Proof.
    intros W Hplain Hsh Hc Ha.
    assert (P1 : reshape_plan G R x (map fst (dz :: ds)) = ReshapeArgs.Ok ([], calls_go 0 [] (drop_lens a (dz :: ds)), [])).
    { unfold reshape_plan. unfold a_subsizes. rewrite (subsizes_plain G (indices G R x) Hplain).
      change (map (fun ix : index G => Z.of_nat (size_total G ix)) (indices G R x)) with (a_shape G R x).
      rewrite Hsh. now apply drop_ones_forward_plan. }
    assert (Hls : Forall (fun k => 1 <= k) (drop_lens a (dz :: ds))).
    { cbn [drop_lens]. constructor; [lia|apply tail_lens_ge1]. }
    assert (Hn : nsum (drop_lens a (dz :: ds)) = ndim G R x).
    { rewrite <- drop_shape_length, <- Hsh. unfold a_shape, ndim. apply map_length. }
    destruct (reshape_roundtrip_of_forward_plan G R GL OL x _ _ W Hplain Hls Hn P1) as (y & x' & H1 & H2 & P2 & Wy & Wx' & Hres).
    exists y, x'. repeat (split; [assumption|]). exact Hres.
  Qed.
End DropOnesReshape.

Section DropExamples.
  Local Open Scope Z_scope.

  (* Z2, shape (1,3,1,1,3): the first size-one axis carries charge 1, the other two charge 0 and 1 *)
  Definition u0 : index Z2 := Index Z2 [(0, 1%nat)] false None.
  Definition u1 : index Z2 := Index Z2 [(1, 1%nat)] false None.
  Definition exd : aarray Z2 ZRing := mkA Z2 ZRing [u1; i4; u0; u1; i4] 0
    [([1; 0; 0; 1; 0], zt [1; 1; 1; 1; 1]%nat [7]); ([1; 1; 0; 1; 1], zt [1; 2; 1; 1; 2]%nat [1; 2; 3; 4])].

  Example drop_ones_example :
    wf_array Z2 ZRing exd = true /\ Forall (fun ix => isub Z2 ix = None) (indices Z2 ZRing exd) /\
    a_shape Z2 ZRing exd = drop_shape 1 [(3, 2%nat); (3, 0%nat)] /\ chain_ok [(3, 2%nat); (3, 0%nat)] /\
    map fst [(3, 2%nat); (3, 0%nat)] = [3; 3] /\
    drop_lens 1 [(3, 2%nat); (3, 0%nat)] = [4; 1]%nat /\
    reshape_plan Z2 ZRing exd [3; 3] = ReshapeArgs.Ok ([], [[[0; 1; 2; 3]%nat]], []) /\
    rt_check exd [3; 3] [3; 3] ([0%nat], [], []) 2 true = true.
  Proof.
    split; [vm_compute; reflexivity|]. split; [repeat constructor|]. split; [vm_compute; reflexivity|].
    split; [cbn; split; [intros _; discriminate|exact I]|].
    repeat split; vm_compute; reflexivity.
  Qed.

  Example drop_ones_applies :
    exists y x', a_reshape Z2 ZRing exd [3; 3] = Some y /\ a_reshape Z2 ZRing y (a_shape Z2 ZRing exd) = Some x' /\
                 restores Z2 ZRing x' exd.
  Proof.
    destruct drop_ones_example as (W & Hp & Hs & Hc & _).
    destruct (reshape_roundtrip_drop_ones Z2 ZRing Z2_laws Z2_order exd 1 (3, 2%nat) [(3, 0%nat)] W Hp Hs Hc)
      as (y & x' & H1 & H2 & _ & _ & _ & _ & H3); [intros _; discriminate|].
    exists y, x'. split; [exact H1|split; [exact H2|exact H3]].
  Qed.
End DropExamples.

(* ------------------------------------------------------------------ *)
(* Part G: the composite statement — ANY target obtained by merging adjacent axes and dropping size-one axes
   (`ReshapeArgs.targets_of`), except the scalar shape (DESIGN F11).  NOT proved in general: proved for merges
   of axes of size >= 2 (reshape_roundtrip_merge_runs_plans) and for drops without merges
   (reshape_roundtrip_drop_ones); for every other target the array level is already settled by
   reshape_roundtrip_of_forward_plan, what is missing is that the forward plan is ([], calls_go 0 [] ls, [])
   for the run lengths ls the greedy matching loop chooses (the squeeze phases number the groups of a mixed
   target in a different order than the fuse loop meets them).  Decided on all 54 targets of a concrete array *)
Definition reshape_roundtrip_merge_drop_full : Prop :=
  forall (G : Symmetry) (R : Ring), GroupLaws G -> OrderLaws G ->
  forall (x : aarray G R) (nw : list Z),
    wf_array G R x = true -> Forall (fun ix => isub G ix = None) (indices G R x) ->
    Forall (fun ix => 1 <= size_total G ix) (indices G R x) ->
    In nw (ReshapeArgs.targets_of (a_shape G R x)) -> nw <> [] ->
    exists y x',
      a_reshape G R x nw = Some y /\ a_reshape G R y (a_shape G R x) = Some x' /\ restores G R x' x.

Definition rt_ok {G : Symmetry} (x : aarray G ZRing) (nw : list Z) : bool :=
  match a_reshape G ZRing x nw with
  | Some y => match a_reshape G ZRing y (a_shape G ZRing x) with Some x' => restores_b x' x | None => false end
  | None => false
  end.

Example merge_drop_example :
  length (ReshapeArgs.targets_of (a_shape Z2 ZRing exd)) = 54 /\
  forallb (rt_ok exd) (ReshapeArgs.targets_of (a_shape Z2 ZRing exd)) = true /\
  forallb (rt_ok ex5) (ReshapeArgs.targets_of (a_shape Z2 ZRing ex5)) = true.
Proof. repeat split; vm_compute; reflexivity. Qed.

(* the hypothesis "no fused axes" of the round-trip theorems cannot be dropped (DESIGN F12b): f12b has shape
   (2,2), its first axis is fused with recorded sub-sizes (2,2); with NO merge at all (ls = [1;1], target = own
   shape) the greedy unfuse branch fires: the result has shape (2,4) and the way back is rejected *)
Example merge_runs_needs_no_fused_axes :
  wf_array Z2 ZRing f12b = true /\ Forall (fun ix => 2 <= size_total Z2 ix) (indices Z2 ZRing f12b) /\
  Forall (fun k => 1 <= k) [1; 1] /\ nsum [1; 1] = ndim Z2 ZRing f12b /\
  merged_runs (a_shape Z2 ZRing f12b) [1; 1] = [2; 2]%Z /\ a_subsizes Z2 ZRing f12b = [Some [2; 2]%Z; None] /\
  option_map (a_shape Z2 ZRing) (a_reshape Z2 ZRing f12b [2; 2]%Z) = Some [2; 4]%Z /\
  ~ (exists y x', a_reshape Z2 ZRing f12b (merged_runs (a_shape Z2 ZRing f12b) [1; 1]) = Some y /\
                  a_reshape Z2 ZRing y (a_shape Z2 ZRing f12b) = Some x' /\ restores Z2 ZRing x' f12b).
Proof.
  split; [vm_compute; reflexivity|]. split; [repeat constructor|]. split; [repeat constructor|].
  split; [reflexivity|]. split; [vm_compute; reflexivity|]. split; [vm_compute; reflexivity|].
  split; [vm_compute; reflexivity|].
  intros (y & x' & H1 & H2 & _). vm_compute in H1. inversion H1. subst y. clear H1.
  vm_compute in H2. discriminate H2.
Qed.
