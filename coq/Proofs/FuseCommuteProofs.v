(* Proofs/FuseCommuteProofs.v -- property C06, the clause "fusing uncontracted
   indices before or after contraction is likewise equivalent".

   For operands a b of a contraction over (aa, ab) and a group g of free axes of
   one operand:   contract (fuse_core a [g]) b   against   fuse_core (contract a b) [g'].
   The two results carry the fused leg at the same position but with tables that
   are pruned differently (the left one is built from the sectors of a, the right
   one from the sectors of the product), so they are compared AFTER UNFUSING the
   fused leg, at every coordinate of the operands' free tables: both read the
   value of the plain contraction at the coordinate permuted by fuse_perm.

   Part 1  list combinatorics: position of an axis among the slots of a fused
           array, the free slots, the slot structure of the product's fuse.
   Part 2  one operand: the coordinates of the fused operand from the merged
           coordinate of the unfused one.
   Part 3  the group in the first operand;  Part 4  in the second operand.
   Part 5  any mode on either route (through C06 all_modes_agree).
   Part 6  statements for Props/C06c.v and examples. *)
From SV Require Import Base.Prelude Base.Sym Base.Tensor Model.Sectors Model.Array Model.Arith Model.Fermi
  Model.Wf Model.Valid Model.Fused Model.SymInst
  Proofs.FuseTensor Proofs.FuseProofs Proofs.SymLaws Proofs.GroupFacts Proofs.SectorsProofs Proofs.OrderProofs
  Proofs.TensorProofs Proofs.StructProofs Proofs.Tdot Proofs.WfProofs Proofs.FuseGroups Proofs.FuseGroupsWf
  Proofs.FusedProofs Proofs.FusedSem Proofs.FusedSemGen Proofs.FusedSemOuter Proofs.ModesProofs.
From Coq Require Import Permutation Sorting Lia.
Local Open Scope nat_scope.

(* ------------------------------------------------------------------ *)
(* Part 1: lists *)

(* position of the first slot that contains axis ax *)
Fixpoint slot_pos (SL : list (list nat)) (ax : nat) : nat :=
  match SL with
  | [] => 0
  | s :: r => if mem Nat.eqb ax s then 0 else S (slot_pos r ax)
  end.

Lemma nmem_In ax l : mem Nat.eqb ax l = true <-> In ax l.
Proof. apply (mem_In Nat.eqb). intros a b. apply Nat.eqb_eq. Qed.

Lemma nmem_false ax l : mem Nat.eqb ax l = false <-> ~ In ax l.
Proof.
  split.
  - intros E H. apply nmem_In in H. congruence.
  - intros H. destruct (mem Nat.eqb ax l) eqn:E; [|reflexivity]. apply nmem_In in E. contradiction.
Qed.

Lemma NoDup_app_disj {A} (l1 l2 : list A) : NoDup (l1 ++ l2) -> forall x, In x l1 -> In x l2 -> False.
Proof.
  induction l1 as [|a l1 IH]; intros H x H1 H2; [destruct H1|]. cbn [app] in H.
  inversion H as [|? ? Hna Hnd]; subst. destruct H1 as [->|H1].
  - apply Hna. apply in_or_app. now right.
  - exact (IH Hnd x H1 H2).
Qed.

Lemma NoDup_app_parts {A} (l1 l2 : list A) : NoDup (l1 ++ l2) -> NoDup l1 /\ NoDup l2.
Proof.
  induction l1 as [|a l1 IH]; cbn [app]; intros H; [split; [constructor|exact H]|].
  inversion H as [|? ? Hna Hnd]; subst. destruct (IH Hnd) as [H1 H2]. split; [|exact H2].
  constructor; [|exact H1]. intros Hin. apply Hna. apply in_or_app. now left.
Qed.

Lemma slot_pos_spec SL ax : In ax (concat SL) ->
  slot_pos SL ax < length SL /\ In ax (nth (slot_pos SL ax) SL []).
Proof.
  induction SL as [|s r IH]; intros H; [destruct H|]. cbn [concat] in H. cbn [slot_pos length].
  destruct (mem Nat.eqb ax s) eqn:E.
  - apply nmem_In in E. split; [lia|exact E].
  - apply nmem_false in E. apply in_app_or in H. destruct H as [H|H]; [contradiction|].
    destruct (IH H) as [H1 H2]. split; [lia|exact H2].
Qed.

Lemma slot_pos_unique SL ax : forall k, NoDup (concat SL) -> k < length SL -> In ax (nth k SL []) ->
  slot_pos SL ax = k.
Proof.
  induction SL as [|s r IH]; intros k Hnd Hk Hin; cbn [length] in Hk; [lia|].
  cbn [concat] in Hnd. cbn [slot_pos]. destruct k as [|k].
  - cbn [nth] in Hin. apply nmem_In in Hin. now rewrite Hin.
  - cbn [nth] in Hin.
    assert (Hc : In ax (concat r)).
    { apply in_concat. exists (nth k r []). split; [apply nth_In; lia|exact Hin]. }
    assert (E : mem Nat.eqb ax s = false).
    { apply nmem_false. intros Hs. exact (NoDup_app_disj _ _ Hnd ax Hs Hc). }
    rewrite E. f_equal. apply IH; [|lia|exact Hin]. exact (proj2 (NoDup_app_parts _ _ Hnd)).
Qed.

Lemma take_filter_seq_go {A} (d : A) (Q : A -> bool) (l : list A) : forall lo (P : nat -> bool),
  (forall k, k < length l -> P (lo + k) = Q (nth k l d)) ->
  map (fun i => nth (i - lo) l d) (filter P (seq lo (length l))) = filter Q l.
Proof.
  induction l as [|a l IH]; intros lo P H; [reflexivity|].
  cbn [length seq filter].
  assert (H0 : P lo = Q a). { specialize (H 0 ltac:(cbn [length]; lia)). now rewrite Nat.add_0_r in H. }
  assert (Hrest : map (fun i => nth (i - lo) (a :: l) d) (filter P (seq (S lo) (length l))) = filter Q l).
  { rewrite <- (IH (S lo) P).
    - apply map_ext_in. intros i Hi. apply filter_In in Hi. destruct Hi as [Hi _]. apply in_seq in Hi.
      replace (i - lo) with (S (i - S lo)) by lia. reflexivity.
    - intros k Hk. specialize (H (S k) ltac:(cbn [length]; lia)). cbn [nth] in H.
      now replace (S lo + k) with (lo + S k) by lia. }
  rewrite H0. destruct (Q a); cbn [map]; [rewrite Nat.sub_diag; cbn [nth]; f_equal|]; exact Hrest.
Qed.

Lemma take_filter_seq {A} (d : A) (l : list A) (P : nat -> bool) (Q : A -> bool) :
  (forall k, k < length l -> P k = Q (nth k l d)) ->
  take_axes d l (filter P (seq 0 (length l))) = filter Q l.
Proof.
  intros H. unfold take_axes. rewrite <- (take_filter_seq_go d Q l 0 P H).
  apply map_ext. intros i. now rewrite Nat.sub_0_r.
Qed.

Lemma filter_comm {A} (f h : A -> bool) l : filter f (filter h l) = filter h (filter f l).
Proof.
  induction l as [|a l IH]; [reflexivity|]. cbn [filter].
  destruct (h a) eqn:Eh, (f a) eqn:Ef; cbn [filter]; rewrite ?Eh, ?Ef, IH; reflexivity.
Qed.

Lemma filter_map_comm {A B} (f : B -> bool) (h : A -> B) l : filter f (map h l) = map h (filter (fun a => f (h a)) l).
Proof.
  induction l as [|a l IH]; [reflexivity|]. cbn [map filter]. destruct (f (h a)); cbn [map]; now rewrite IH.
Qed.

Lemma index_of_app_l x l1 l2 : In x l1 -> index_of x (l1 ++ l2) = index_of x l1.
Proof.
  induction l1 as [|a l1 IH]; intros H; [destruct H|]. cbn [app index_of].
  destruct (Nat.eqb a x) eqn:E; [reflexivity|]. f_equal. apply IH.
  destruct H as [->|H]; [rewrite Nat.eqb_refl in E; discriminate|exact H].
Qed.

Lemma index_of_app_r x l1 l2 : ~ In x l1 -> index_of x (l1 ++ l2) = length l1 + index_of x l2.
Proof.
  induction l1 as [|a l1 IH]; intros H; [reflexivity|]. cbn [app index_of length].
  destruct (Nat.eqb a x) eqn:E.
  - apply Nat.eqb_eq in E. subst. exfalso. apply H. now left.
  - rewrite IH; [lia|]. intros Hin. apply H. now right.
Qed.

Lemma map_index_of_shift (l0 l : list nat) : NoDup (l0 ++ l) ->
  map (fun x => index_of x (l0 ++ l)) l = seq (length l0) (length l).
Proof.
  revert l0. induction l as [|a l IH]; intros l0 Hnd; [reflexivity|]. cbn [map length seq]. f_equal.
  - rewrite index_of_app_r.
    + cbn [index_of]. rewrite Nat.eqb_refl. lia.
    + intros Hin. apply (NoDup_app_disj _ _ Hnd a Hin). now left.
  - replace (l0 ++ a :: l) with ((l0 ++ [a]) ++ l) in * by (rewrite <- app_assoc; reflexivity).
    rewrite (IH (l0 ++ [a]) Hnd). rewrite app_length. cbn [length]. f_equal. lia.
Qed.

Lemma NoDup_map_inj_on {A B} (f : A -> B) l : NoDup l ->
  (forall x y, In x l -> In y l -> f x = f y -> x = y) -> NoDup (map f l).
Proof.
  induction l as [|a l IH]; intros Hnd Hinj; [constructor|].
  inversion Hnd as [|? ? Hna Hnd']; subst. cbn [map]. constructor.
  - intros H. apply in_map_iff in H. destruct H as (y & Ey & Hy). apply Hna.
    rewrite (Hinj a y (or_introl eq_refl) (or_intror Hy) (eq_sym Ey)). exact Hy.
  - apply IH; [exact Hnd'|]. intros x y Hx Hy. apply Hinj; now right.
Qed.

(* ---- one operand: contracted axes cx, a group g of free axes ---- *)
Section OneOperand.
  Context (n : nat) (cx g : list nat).
  Context (Hcx_nd : NoDup cx) (Hcx_lt : forall i, In i cx -> i < n).
  Context (Hg_ne : g <> []) (Hg_nd : NoDup g) (Hg_free : forall ax, In ax g -> ax < n /\ ~ In ax cx).

  Notation pos := (fuse_position [g]).
  Notation SL := (slots n [g]).
  Notation after := (axes_after n [g]).
  Notation single := (fun ax : nat => [ax]).
  Notation fr := (rest_axes n cx).

  Definition freeb (ax : nat) : bool := negb (mem Nat.eqb ax cx).
  Definition fslot (s : list nat) : bool := forallb freeb s.
  Definition cxF : list nat := map (slot_pos SL) cx.
  Definition frF : list nat := rest_axes (length SL) cxF.
  Definition FS : list (list nat) := take_axes [] SL frF.
  Definition fr1 : list nat := filter freeb (seq 0 pos).
  Definition frB : list nat := filter freeb (seq pos (n - pos)).
  Definition fr2 : list nat := filter freeb after.

  Lemma G1 : Forall (fun g0 : list nat => g0 <> []) [g].
  Proof. constructor; [exact Hg_ne|constructor]. Qed.
  Lemma G2 : NoDup (concat [g]).
  Proof. cbn [concat]. now rewrite app_nil_r. Qed.
  Lemma G3 : Forall (fun ax => ax < n) (concat [g]).
  Proof. cbn [concat]. rewrite app_nil_r. apply Forall_forall. intros ax H. now apply Hg_free. Qed.
  Lemma G3' : Forall (fun ax => ax < n) g.
  Proof. apply Forall_forall. intros ax H. now apply Hg_free. Qed.

  Lemma SL_eq : SL = map single (seq 0 pos) ++ [g] ++ map single after.
  Proof. unfold slots. now rewrite (before_eq n g Hg_ne). Qed.

  Lemma SL_concat_nd : NoDup (concat SL).
  Proof. rewrite (concat_slots n [g]). exact (gperm_NoDup n [g] G2 G3). Qed.

  Lemma SL_concat_in ax : In ax (concat SL) <-> ax < n.
  Proof. rewrite (concat_slots n [g]). exact (gperm_In n [g] G3 ax). Qed.

  Lemma SL_cases s : In s SL -> s = g \/ exists ax, s = [ax].
  Proof.
    rewrite SL_eq. intros H. apply in_app_or in H. destruct H as [H|H].
    - apply in_map_iff in H. destruct H as (ax & <- & _). right. now exists ax.
    - apply in_app_or in H. destruct H as [[<-|[]]|H]; [now left|].
      apply in_map_iff in H. destruct H as (ax & <- & _). right. now exists ax.
  Qed.

  Lemma slot_of_cx ax : In ax cx -> slot_pos SL ax < length SL /\ nth (slot_pos SL ax) SL [] = [ax].
  Proof.
    intros Hax. assert (Hc : In ax (concat SL)) by (apply SL_concat_in; now apply Hcx_lt).
    destruct (slot_pos_spec SL ax Hc) as [Hk Hin]. split; [exact Hk|].
    destruct (SL_cases (nth (slot_pos SL ax) SL [])) as [E|(ax' & E)]; [now apply nth_In| |].
    - rewrite E in Hin. exfalso. now apply (proj2 (Hg_free ax Hin)).
    - rewrite E in Hin |- *. destruct Hin as [->|[]]. reflexivity.
  Qed.

  Lemma cxF_nth : map (fun k => nth k SL []) cxF = map single cx.
  Proof. unfold cxF. rewrite map_map. apply map_ext_in. intros ax Hax. now apply slot_of_cx. Qed.

  Lemma cxF_lt k : In k cxF -> k < length SL.
  Proof. unfold cxF. intros H. apply in_map_iff in H. destruct H as (ax & <- & Hax). now apply slot_of_cx. Qed.

  Lemma cxF_nd : NoDup cxF.
  Proof.
    apply (NoDup_map_inv (fun k => nth k SL [])). rewrite cxF_nth.
    apply FinFun.Injective_map_NoDup; [|exact Hcx_nd]. intros x y E. now inversion E.
  Qed.

  Lemma cxF_length : length cxF = length cx.
  Proof. unfold cxF. apply map_length. Qed.

  Lemma fslot_pos k : k < length SL -> negb (mem Nat.eqb k cxF) = fslot (nth k SL []).
  Proof.
    intros Hk. destruct (mem Nat.eqb k cxF) eqn:E; cbn [negb].
    - apply nmem_In in E. unfold cxF in E. apply in_map_iff in E. destruct E as (ax & <- & Hax).
      rewrite (proj2 (slot_of_cx ax Hax)). unfold fslot, freeb. cbn [forallb].
      rewrite (proj2 (nmem_In ax cx) Hax). reflexivity.
    - apply nmem_false in E. symmetry. unfold fslot. apply forallb_forall. intros ax Hax.
      unfold freeb. apply negb_true_iff. apply nmem_false. intros Hc. apply E.
      unfold cxF. apply in_map_iff. exists ax. split; [|exact Hc].
      now apply (slot_pos_unique SL ax k SL_concat_nd Hk).
  Qed.

  Lemma FS_filter : FS = filter fslot SL.
  Proof. unfold FS, frF, rest_axes. apply take_filter_seq. exact fslot_pos. Qed.

  Lemma filter_single l : filter fslot (map single l) = map single (filter freeb l).
  Proof.
    induction l as [|a l IH]; [reflexivity|]. cbn [map filter]. unfold fslot at 1. cbn [forallb].
    rewrite andb_true_r. destruct (freeb a); cbn [map]; now rewrite IH.
  Qed.

  Lemma fslot_g : fslot g = true.
  Proof.
    unfold fslot. apply forallb_forall. intros ax Hax. unfold freeb. apply negb_true_iff.
    apply nmem_false. now apply Hg_free.
  Qed.

  Lemma FS_eq : FS = map single fr1 ++ [g] ++ map single fr2.
  Proof.
    rewrite FS_filter, SL_eq, !filter_app, !filter_single. cbn [filter]. now rewrite fslot_g.
  Qed.

  Lemma pos_lt : pos < n.
  Proof. exact (pos_lt_n n g G3' Hg_ne). Qed.

  Lemma fr_split : fr = fr1 ++ frB.
  Proof.
    unfold rest_axes, fr1, frB. rewrite <- filter_app. pose proof pos_lt.
    replace n with (pos + (n - pos)) at 1 by lia. rewrite seq_app. reflexivity.
  Qed.

  Lemma frB_head : exists t, frB = pos :: t.
  Proof.
    unfold frB. pose proof pos_lt. replace (n - pos) with (S (n - pos - 1)) by lia. cbn [seq filter].
    assert (E : freeb pos = true).
    { unfold freeb. apply negb_true_iff. apply nmem_false. apply Hg_free. exact (pos_In g Hg_ne). }
    rewrite E. eexists. reflexivity.
  Qed.

  Lemma fr2_eq : fr2 = filter (fun ax => negb (mem Nat.eqb ax g)) frB.
  Proof.
    unfold fr2, frB, axes_after. rewrite filter_comm. apply filter_ext. intros ax.
    rewrite group_of_single. now destruct (mem Nat.eqb ax g).
  Qed.

  Lemma fr_nd : NoDup fr.
  Proof. unfold rest_axes. apply NoDup_filter, seq_NoDup. Qed.

  Lemma fr_In ax : In ax fr <-> ax < n /\ ~ In ax cx.
  Proof.
    unfold rest_axes. rewrite filter_In, in_seq, negb_true_iff, nmem_false. split; intros [H1 H2]; (split; [lia|exact H2]).
  Qed.

  Lemma g_in_fr ax : In ax g -> In ax fr.
  Proof. intros H. apply fr_In. now apply Hg_free. Qed.

  Lemma fr1_lt ax : In ax fr1 -> ax < pos.
  Proof. unfold fr1. rewrite filter_In, in_seq. lia. Qed.

  Lemma frB_In ax : In ax frB <-> pos <= ax /\ In ax fr.
  Proof.
    rewrite fr_In. unfold frB. rewrite filter_In, in_seq. unfold freeb. rewrite negb_true_iff, nmem_false.
    pose proof pos_lt. split; [intros [H1 H2]|intros [H1 [H2 H3]]]; repeat split; try lia; assumption.
  Qed.

  (* ---- the product's side: positions shifted by sh, m further legs behind ---- *)
  Context (sh m : nat).
  Definition iota (ax : nat) : nat := sh + index_of ax fr.
  Definition gW : list nat := map iota g.
  Definition nW : nat := sh + length fr + m.

  Lemma fr_parts_nd : NoDup (fr1 ++ frB).
  Proof. rewrite <- fr_split. exact fr_nd. Qed.

  Lemma iota_fr1 : map iota fr1 = seq sh (length fr1).
  Proof.
    unfold iota. rewrite fr_split.
    transitivity (map (fun k => sh + k) (map (fun x => index_of x (fr1 ++ frB)) fr1)); [now rewrite map_map|].
    assert (E : map (fun x => index_of x (fr1 ++ frB)) fr1 = seq 0 (length fr1)).
    { transitivity (map (fun x => index_of x ([] ++ fr1)) fr1).
      - apply map_ext_in. intros x Hx. cbn [app]. now apply index_of_app_l.
      - apply (map_index_of_shift [] fr1). cbn [app]. exact (proj1 (NoDup_app_parts _ _ fr_parts_nd)). }
    rewrite E, FuseTensor.map_add_seq. now rewrite Nat.add_0_r.
  Qed.
  Lemma iota_frB : map iota frB = seq (sh + length fr1) (length frB).
  Proof.
    unfold iota. rewrite fr_split.
    transitivity (map (fun k => sh + k) (map (fun x => index_of x (fr1 ++ frB)) frB)); [now rewrite map_map|].
    rewrite (map_index_of_shift fr1 frB fr_parts_nd), FuseTensor.map_add_seq. reflexivity.
  Qed.

  Lemma iota_lt ax : In ax fr -> iota ax < sh + length fr.
  Proof. intros H. unfold iota. pose proof (index_of_lt ax fr H). lia. Qed.

  Lemma iota_inj x y : In x fr -> In y fr -> iota x = iota y -> x = y.
  Proof.
    unfold iota. intros Hx Hy E. assert (E' : index_of x fr = index_of y fr) by lia.
    rewrite <- (nth_index_of x fr Hx), <- (nth_index_of y fr Hy). now rewrite E'.
  Qed.

  Lemma iota_mem x : In x fr -> mem Nat.eqb (iota x) gW = mem Nat.eqb x g.
  Proof.
    intros Hx. destruct (mem Nat.eqb x g) eqn:E.
    - apply nmem_In in E. apply nmem_In. unfold gW. now apply in_map.
    - apply nmem_false in E. apply nmem_false. intros H. unfold gW in H. apply in_map_iff in H.
      destruct H as (y & Ey & Hy). apply E. rewrite (iota_inj x y Hx (g_in_fr y Hy) (eq_sym Ey)). exact Hy.
  Qed.

  Lemma gW_ne : gW <> [].
  Proof. unfold gW. destruct g; [congruence|discriminate]. Qed.

  Lemma gW_length : length gW = length g.
  Proof. apply map_length. Qed.

  Lemma gW_nd : NoDup gW.
  Proof.
    unfold gW. apply NoDup_map_inj_on; [exact Hg_nd|].
    intros x y Hx Hy E. exact (iota_inj x y (g_in_fr x Hx) (g_in_fr y Hy) E).
  Qed.

  Lemma gW_lt : Forall (fun ax => ax < nW) gW.
  Proof.
    apply Forall_forall. intros y Hy. unfold gW in Hy. apply in_map_iff in Hy. destruct Hy as (ax & <- & Hax).
    pose proof (iota_lt ax (g_in_fr ax Hax)). unfold nW. lia.
  Qed.

  Lemma posW : fuse_position [gW] = sh + length fr1.
  Proof.
    destruct frB_head as (t & Et).
    assert (Hin : In (sh + length fr1) gW).
    { unfold gW. apply in_map_iff. exists pos. split; [|exact (pos_In g Hg_ne)].
      unfold iota. rewrite fr_split, Et. rewrite index_of_app_r.
      - cbn [index_of]. rewrite Nat.eqb_refl. lia.
      - intros H. apply fr1_lt in H. lia. }
    assert (Hall : forall y, In y gW -> sh + length fr1 <= y).
    { intros y Hy. unfold gW in Hy. apply in_map_iff in Hy. destruct Hy as (ax & <- & Hax).
      unfold iota. rewrite fr_split. rewrite index_of_app_r; [lia|].
      intros H. apply fr1_lt in H. pose proof (pos_le g Hg_ne ax Hax). lia. }
    pose proof (pos_In gW gW_ne) as H1. pose proof (pos_le gW gW_ne _ Hin) as H2.
    specialize (Hall _ H1). lia.
  Qed.

  Lemma fr_length : length fr = length fr1 + length frB.
  Proof. rewrite fr_split at 1. apply app_length. Qed.

  Lemma permW_eq : fuse_perm nW [gW] = seq 0 sh ++ map iota (fr1 ++ g ++ fr2) ++ seq (sh + length fr) m.
  Proof.
    rewrite perm_eq, (before_eq nW gW gW_ne), posW.
    rewrite !map_app, iota_fr1. fold gW.
    rewrite seq_app. cbn [Nat.add]. rewrite <- !app_assoc. f_equal. f_equal. f_equal.
    unfold axes_after. rewrite posW.
    assert (El : nW - (sh + length fr1) = length frB + m) by (unfold nW; rewrite fr_length; lia).
    rewrite El, seq_app, filter_app. f_equal.
    - rewrite <- iota_frB, filter_map_comm, fr2_eq. f_equal. apply filter_ext_in. intros ax Hax.
      rewrite group_of_single, iota_mem by (apply frB_In in Hax; tauto). now destruct (mem Nat.eqb ax g).
    - replace (sh + length fr1 + length frB) with (sh + length fr) by (rewrite fr_length; lia).
      apply filter_all. intros ax Hax. apply in_seq in Hax. rewrite group_of_single.
      destruct (mem Nat.eqb ax gW) eqn:E; [|reflexivity]. apply nmem_In in E. unfold gW in E.
      apply in_map_iff in E. destruct E as (y & Ey & Hy). pose proof (iota_lt y (g_in_fr y Hy)). lia.
  Qed.
End OneOperand.

(* ------------------------------------------------------------------ *)
(* Part 2: one operand x fused by a group g of free axes; cx = its contracted axes *)
Lemma take_map_lt {A B} (F : A -> B) (d : A) (d' : B) (L : list A) (axes : list nat) :
  (forall k, In k axes -> k < length L) -> take_axes d' (map F L) axes = map F (take_axes d L axes).
Proof.
  intros H. unfold take_axes. rewrite map_map. apply map_ext_in. intros k Hk.
  apply nth_map_lt. now apply H.
Qed.

Lemma axes_ok_intro n axes : NoDup axes -> (forall i, In i axes -> i < n) -> axes_ok n axes = true.
Proof.
  intros Hnd Hlt. unfold axes_ok. apply andb_true_iff. split.
  - clear Hlt. induction axes as [|a l IH]; [reflexivity|]. inversion Hnd as [|? ? Hna Hnd']; subst.
    cbn [nodupb]. apply andb_true_iff. split; [|now apply IH].
    apply negb_true_iff. now apply nmem_false.
  - apply forallb_forall. intros i Hi. apply Nat.ltb_lt. now apply Hlt.
Qed.

Section CoordsGeneric.
  Context (G : Symmetry).
  Notation dflt := (dflt_index G).
  Notation dc := (ident G, 0).

  Lemma coords_ok_take ixs (cs : list (coord G)) p :
    coords_ok G ixs cs = true -> (forall k, In k p -> k < length ixs) ->
    coords_ok G (take_axes dflt ixs p) (take_axes dc cs p) = true.
  Proof.
    intros Hc Hp. apply coords_ok_iff in Hc. destruct Hc as [Hl Hc].
    apply coords_ok_iff. rewrite !length_take_axes. split; [reflexivity|]. intros i Hi.
    unfold take_axes. rewrite (nth_map_lt _ _ _ 0) by exact Hi. rewrite (nth_map_lt _ _ _ 0) by exact Hi.
    apply Hc. apply Hp. now apply nth_In.
  Qed.

  Lemma coords_ok_cons ix ixs (c : coord G) cs :
    coords_ok G [ix] [c] = true -> coords_ok G ixs cs = true -> coords_ok G (ix :: ixs) (c :: cs) = true.
  Proof. intros H1 H2. exact (coords_ok_app G [ix] ixs [c] cs H1 H2). Qed.

  Lemma all_coords_ok (ixs : list (index G)) kc :
    (forall a b : C G, ceqb G a b = true <-> a = b) ->
    Forall (fun ix => NoDup (icharges G ix)) ixs ->
    In kc (all_coords G ixs) -> coords_ok G ixs kc = true.
  Proof.
    intros Hce Hnd Hin. unfold all_coords in Hin. apply In_product in Hin.
    revert kc Hin. induction ixs as [|ix ixs IH]; intros kc Hin.
    - inversion Hin. reflexivity.
    - cbn [map] in Hin. inversion Hin as [|c ? cs' ? Hc Hrest]; subst.
      inversion Hnd as [|? ? Hn1 Hn2]; subst.
      apply coords_ok_cons; [|now apply IH].
      destruct c as [ch o]. destruct (index_coords_In G ix ch o Hc) as (d & Hcd & Hod).
      unfold coords_ok. cbn [length Nat.eqb List.combine forallb fst snd andb]. rewrite andb_true_r.
      apply Nat.ltb_lt. now rewrite (size_of_in G Hce ix ch d Hn1 Hcd).
  Qed.
End CoordsGeneric.

Section OneSide.
  Context (G : Symmetry) (R : Ring) (GL : GroupLaws G) (OL : OrderLaws G).
  Context (x : aarray G R) (cx g : list nat).
  Context (Hwf : wf_array G R x = true).
  Context (Hcx_nd : NoDup cx) (Hcx_lt : forall i, In i cx -> i < ndim G R x).
  Context (Hg_ne : g <> []) (Hg_nd : NoDup g)
          (Hg_free : forall ax, In ax g -> ax < ndim G R x /\ ~ In ax cx).

  Notation n := (ndim G R x).
  Notation ixs := (indices G R x).
  Notation secs := (sectors G R x).
  Notation SL := (slots (ndim G R x) [g]).
  Notation FI := (fused_index G (indices G R x) (sectors G R x)).
  Notation dflt := (dflt_index G).
  Notation idc := (ident G).
  Notation dc := (ident G, 0).
  Notation fr := (rest_axes (ndim G R x) cx).
  Notation xf := (fuse_core G R x [g]).
  Notation cxF := (cxF (ndim G R x) cx g).
  Notation frF := (frF (ndim G R x) cx g).
  Notation FS := (FS (ndim G R x) cx g).
  Notation fr1 := (fr1 cx g).
  Notation fr2 := (fr2 (ndim G R x) cx g).
  Notation ix0 := (fun ax : nat => index_of ax (rest_axes (ndim G R x) cx)).

  Lemma P1 : Forall (fun g0 : list nat => g0 <> []) [g]. Proof. exact (G1 g Hg_ne). Qed.
  Lemma P2 : NoDup (concat [g]). Proof. exact (G2 g Hg_nd). Qed.
  Lemma P3 : Forall (fun ax => ax < length ixs) (concat [g]). Proof. exact (G3 n cx g Hg_free). Qed.

  Lemma xf_indices : indices G R xf = map FI SL.
  Proof. unfold fuse_core. cbn [indices]. apply fused_indices_slots. Qed.

  Lemma xf_ndim : ndim G R xf = length SL.
  Proof. unfold ndim. now rewrite xf_indices, map_length. Qed.

  Lemma xf_wf : wf_array G R xf = true.
  Proof. exact (proj2 (fuse_groups_wf G GL OL R x [g] Hwf P1 P2 P3)). Qed.

  Lemma cxF_lt' k : In k cxF -> k < length SL.
  Proof. exact (cxF_lt n cx g Hcx_lt Hg_ne Hg_free k). Qed.

  Lemma xf_axes_ok : axes_ok (ndim G R xf) cxF = true.
  Proof.
    apply axes_ok_intro; [exact (cxF_nd n cx g Hcx_nd Hcx_lt Hg_ne Hg_free)|].
    intros i Hi. rewrite xf_ndim. now apply cxF_lt'.
  Qed.

  Lemma xf_take_cx : take_axes dflt (indices G R xf) cxF = take_axes dflt ixs cx.
  Proof.
    rewrite xf_indices, (take_map_lt FI [] dflt SL cxF cxF_lt').
    unfold take_axes at 1. rewrite (cxF_nth n cx g Hcx_lt Hg_ne Hg_free), map_map. reflexivity.
  Qed.

  Lemma frF_lt k : In k frF -> k < length SL.
  Proof. unfold FuseCommuteProofs.frF, rest_axes. rewrite filter_In, in_seq. lia. Qed.

  Lemma xf_rest : rest_axes (ndim G R xf) cxF = frF.
  Proof. now rewrite xf_ndim. Qed.

  Lemma xf_without : without_axes (indices G R xf) cxF = map FI FS.
  Proof.
    rewrite (without_axes_take dflt). fold (ndim G R xf). rewrite xf_rest, xf_indices.
    exact (take_map_lt FI [] dflt SL frF frF_lt).
  Qed.

  Lemma FS_sub s : In s FS -> In s SL /\ forall ax, In ax s -> In ax fr.
  Proof.
    rewrite (FS_filter n cx g Hcx_lt Hg_ne Hg_nd Hg_free). rewrite filter_In. intros [Hs Hf]. split; [exact Hs|].
    intros ax Hax. apply (proj2 (fr_In n cx g Hcx_lt Hg_free ax)). split.
    - apply (proj1 (SL_concat_in n cx g Hg_free ax)). apply in_concat. now exists s.
    - unfold fslot in Hf. rewrite forallb_forall in Hf. specialize (Hf ax Hax). unfold freeb in Hf.
      apply negb_true_iff in Hf. now apply nmem_false.
  Qed.

  (* fused free coordinates from the free coordinates of x *)
  Definition fcl (cl : list (coord G)) : list (coord G) :=
    map (fun s => scoP G R x s (take_axes dc cl (map ix0 s))) FS.

  Lemma scoP_single_nth ax (M : list (coord G)) : scoP G R x [ax] (take_axes dc M [ax]) = nth ax M dc.
  Proof.
    assert (H : forall p : coord G, scoP G R x [ax] [p] = p) by (intros [c o]; apply scoP_singlet).
    unfold take_axes. cbn [map]. apply H.
  Qed.

  Lemma merge_free_nth (cl kc : list (coord G)) ax : length cl = length fr -> In ax fr ->
    nth ax (merge G n cx cl kc) dc = nth (index_of ax fr) cl dc.
  Proof.
    intros Hl Hax.
    rewrite <- (take_scatterA_rest dc n cx kc cl Hl) at 2. fold (merge G n cx cl kc).
    unfold take_axes. now rewrite (FuseTensor.nth_index_of_map _ ax fr dc Hax).
  Qed.

  Lemma fcoords_merge (cl kc : list (coord G)) : length cl = length fr -> length kc = length cx ->
    fcoords G R x [g] (merge G n cx cl kc) = merge G (length SL) cxF (fcl cl) kc.
  Proof.
    intros Hlcl Hlkc. symmetry. set (M := merge G n cx cl kc).
    apply (scatterA_eq_iff dc (length SL) cxF kc (fcl cl)).
    - exact (cxF_nd n cx g Hcx_nd Hcx_lt Hg_ne Hg_free).
    - exact cxF_lt'.
    - now rewrite cxF_length.
    - unfold fcl. rewrite map_length. unfold FuseCommuteProofs.FS. now rewrite length_take_axes.
    - unfold fcoords. apply map_length.
    - rewrite fcoords_scoP. fold n. split.
      + rewrite (take_map_lt _ [] dc SL cxF cxF_lt').
        change (take_axes [] SL cxF) with (map (fun k => nth k SL []) cxF).
        rewrite (cxF_nth n cx g Hcx_lt Hg_ne Hg_free), map_map.
        transitivity (take_axes dc M cx).
        * symmetry. unfold M, merge. now apply take_scatterA_axes.
        * unfold take_axes at 1. apply map_ext. intros ax. symmetry. apply scoP_single_nth.
      + fold frF. rewrite (take_map_lt _ [] dc SL frF frF_lt). fold FS. unfold fcl.
        apply map_ext_in. intros s Hs. f_equal. unfold take_axes. rewrite map_map.
        apply map_ext_in. intros ax Hax. symmetry. apply merge_free_nth; [exact Hlcl|].
        exact (proj2 (FS_sub s Hs) ax Hax).
  Qed.

  Lemma wfx_ix : Forall (fun ix => wf_index G ix = true) ixs.
  Proof. exact (proj1 (wf_parts G R GL x [0; 0] Hwf (le_n 2))). Qed.

  (* the fused operand at the merged fused coordinates *)
  Lemma xf_sem_merge (cl kc : list (coord G)) :
    coords_ok G (without_axes ixs cx) cl = true -> coords_ok G (take_axes dflt ixs cx) kc = true ->
    (is_singlet g = false -> exists s', In s' secs /\
       group_subsector G s' g = map fst (take_axes dc cl (map ix0 g))) ->
    sem G R xf (merge G (length SL) cxF (fcl cl) kc) = sem G R x (merge G n cx cl kc).
  Proof.
    intros Hcl Hkc Hrec.
    assert (Hlcl : length cl = length fr).
    { rewrite (coords_ok_length G _ _ Hcl), (without_axes_take dflt). apply length_take_axes. }
    assert (Hlkc : length kc = length cx).
    { rewrite (coords_ok_length G _ _ Hkc). apply length_take_axes. }
    rewrite <- (fcoords_merge cl kc Hlcl Hlkc).
    destruct (merge_facts G ixs cx cl kc Hcx_nd Hcx_lt Hcl Hkc) as (HM & _ & _).
    apply (fuse_core_sem G R GL OL x [g] Hwf P1 P2 P3 _ HM).
    intros s Hs Es.
    destruct (SL_cases n g Hg_ne s Hs) as [->|(ax & ->)]; [|discriminate Es].
    destruct (Hrec Es) as (s' & Hs' & E). exists s'. split; [exact Hs'|]. rewrite E.
    unfold group_subsector. rewrite <- (take_map fst dc). f_equal.
    unfold take_axes. rewrite map_map. apply map_ext_in. intros ax Hax. symmetry.
    apply merge_free_nth; [exact Hlcl|]. exact (g_in_fr n cx g Hcx_lt Hg_free ax Hax).
  Qed.

  Lemma coords_ok_fr (cl : list (coord G)) s :
    coords_ok G (without_axes ixs cx) cl = true -> (forall ax, In ax s -> In ax fr) ->
    coords_ok G (take_axes dflt ixs s) (take_axes dc cl (map ix0 s)) = true.
  Proof.
    intros Hcl Hs. rewrite (without_axes_take dflt) in Hcl. fold n in Hcl.
    replace (take_axes dflt ixs s) with (take_axes dflt (take_axes dflt ixs fr) (map ix0 s)).
    - apply coords_ok_take; [exact Hcl|]. intros k Hk. apply in_map_iff in Hk. destruct Hk as (ax & <- & Hax).
      rewrite length_take_axes. apply index_of_lt. now apply Hs.
    - unfold take_axes. rewrite map_map. apply map_ext_in. intros ax Hax.
      now rewrite (FuseTensor.nth_index_of_map _ ax fr dflt (Hs ax Hax)).
  Qed.

  Lemma fcl_ok (cl : list (coord G)) :
    coords_ok G (without_axes ixs cx) cl = true ->
    (is_singlet g = false -> exists s', In s' secs /\
       group_subsector G s' g = map fst (take_axes dc cl (map ix0 g))) ->
    coords_ok G (map FI FS) (fcl cl) = true.
  Proof.
    intros Hcl Hrec. unfold fcl.
    assert (Hall : forall s, In s FS -> coords_ok G [FI s] [scoP G R x s (take_axes dc cl (map ix0 s))] = true).
    { intros s Hs. destruct (FS_sub s Hs) as [HsSL Hsfr].
      apply (scoP_coords_ok G R GL OL x [g] Hwf P1 P2 P3 s _ HsSL (coords_ok_fr cl s Hcl Hsfr)).
      intros Es. destruct (SL_cases n g Hg_ne s HsSL) as [->|(ax & ->)]; [|discriminate Es]. now apply Hrec. }
    revert Hall. generalize FS. intros L. induction L as [|s L IH]; intros Hall; [reflexivity|].
    cbn [map]. apply coords_ok_cons; [apply Hall; now left|]. apply IH. intros s' Hs'. apply Hall. now right.
  Qed.

  Lemma fcl_split (cl : list (coord G)) :
    fcl cl = take_axes dc cl (map ix0 fr1) ++ [scoP G R x g (take_axes dc cl (map ix0 g))] ++
             take_axes dc cl (map ix0 fr2).
  Proof.
    unfold fcl. rewrite (FS_eq n cx g Hcx_lt Hg_ne Hg_nd Hg_free), !map_app. cbn [map app].
    assert (Hs : forall l, map (fun s => scoP G R x s (take_axes dc cl (map ix0 s))) (map (fun ax : nat => [ax]) l) =
                           take_axes dc cl (map ix0 l)).
    { intros l. unfold take_axes. rewrite !map_map. apply map_ext. intros ax. cbn [map].
      assert (H : forall p : coord G, scoP G R x [ax] [p] = p) by (intros [c o]; apply scoP_singlet).
      apply H. }
    now rewrite !Hs.
  Qed.

  Lemma FS_indices :
    map FI FS = take_axes dflt ixs fr1 ++ [FI g] ++ take_axes dflt ixs fr2.
  Proof.
    rewrite (FS_eq n cx g Hcx_lt Hg_ne Hg_nd Hg_free), !map_app. cbn [map app].
    unfold take_axes. now rewrite !map_map.
  Qed.
End OneSide.

(* ------------------------------------------------------------------ *)
(* Part 3a: arrays whose tables are pruned reference tables *)
Lemma take_app_l {A} (d : A) (l1 l2 : list A) p : (forall k, In k p -> k < length l1) ->
  take_axes d (l1 ++ l2) p = take_axes d l1 p.
Proof. intros H. unfold take_axes. apply map_ext_in. intros k Hk. apply app_nth1. now apply H. Qed.

Lemma take_app_r {A} (d : A) (l1 l2 : list A) : take_axes d (l1 ++ l2) (seq (length l1) (length l2)) = l2.
Proof.
  unfold take_axes. replace (seq (length l1) (length l2)) with (map (fun o => length l1 + o) (seq 0 (length l2)))
    by (rewrite FuseTensor.map_add_seq; f_equal; lia).
  rewrite map_map. rewrite <- (map_nth_seq l2 d) at 2. apply map_ext. intros k. rewrite app_nth2 by lia. f_equal. lia.
Qed.

Lemma take_app_both {A} (d : A) (l1 l2 : list A) p n1 n2 : n1 = length l1 -> n2 = length l2 ->
  (forall k, In k p -> k < n1) -> take_axes d (l1 ++ l2) (p ++ seq n1 n2) = take_axes d l1 p ++ l2.
Proof.
  intros -> -> H. unfold take_axes. rewrite map_app. f_equal; [exact (take_app_l d l1 l2 p H)|exact (take_app_r d l1 l2)].
Qed.

Lemma take_app_shift {A} (d : A) (l1 l2 : list A) p :
  take_axes d (l1 ++ l2) (map (fun k => length l1 + k) p) = take_axes d l2 p.
Proof.
  unfold take_axes. rewrite map_map. apply map_ext. intros k. rewrite app_nth2 by lia. f_equal. lia.
Qed.

Lemma take_app_pre_shift {A} (d : A) (l1 l2 : list A) n1 q : n1 = length l1 ->
  take_axes d (l1 ++ l2) (seq 0 n1 ++ map (fun k => n1 + k) q) = l1 ++ take_axes d l2 q.
Proof.
  intros ->. unfold take_axes. rewrite map_app. f_equal.
  - rewrite <- (take_seq d l1) at 2. apply (take_app_l d l1 l2). intros k Hk. apply in_seq in Hk. lia.
  - exact (take_app_shift d l1 l2 q).
Qed.

Section Pruned.
  Context (G : Symmetry) (R : Ring) (GL : GroupLaws G).
  Notation dflt := (dflt_index G).
  Notation idc := (ident G).
  Notation dc := (ident G, 0).
  Notation keq := (list_eqb (ceqb G)).

  Lemma icharges_drop_notin (ix : index G) D c : In c (icharges G (drop_charges G ix D)) -> ~ In c D.
  Proof.
    unfold icharges. rewrite chargemap_drop. intros H. apply in_map_iff in H. destruct H as ([c' d] & <- & H).
    apply filter_In in H. destruct H as [_ H]. cbn [fst] in *. apply negb_true_iff in H.
    now apply (mem_ceqb_false G GL).
  Qed.

  (* Y : a valid array whose tables are IX0 pruned by some sector list *)
  Context (Y : aarray G R) (IX0 : list (index G)) (S0 : list (list (C G))).
  Context (HYwf : wf_array G R Y = true) (HYix : indices G R Y = prune_indices G IX0 S0).

  Lemma PY_len : length (indices G R Y) = length IX0.
  Proof. rewrite HYix. apply length_prune_indices. Qed.

  Lemma PY_nth i : i < length IX0 ->
    nth i (indices G R Y) dflt =
    drop_charges G (nth i IX0 dflt)
      (filter (fun c => negb (mem (ceqb G) c (map (fun s => nth i s idc) S0))) (icharges G (nth i IX0 dflt))).
  Proof. intros Hi. rewrite HYix. now rewrite (nth_prune_indices G) by exact Hi. Qed.

  Lemma PY_block K T : In (K, T) (blocks G R Y) ->
    length K = length IX0 /\ tshape T = block_shape G IX0 K /\
    (forall i, i < length IX0 -> In (nth i K idc) (icharges G (nth i (indices G R Y) dflt))).
  Proof.
    intros Hin. destruct (wf_parts G R GL Y [0; 0] HYwf (le_n 2)) as (_ & _ & Hb).
    destruct (Hb K T Hin) as (Hl & Hm & Hsh & _). rewrite PY_len in Hl, Hm.
    assert (Hch : forall i, i < length IX0 -> In (nth i K idc) (icharges G (nth i (indices G R Y) dflt))).
    { intros i Hi. apply (mem_In (ceqb G) (Hce G GL)). now apply Hm. }
    split; [exact Hl|]. split; [|exact Hch].
    rewrite Hsh. rewrite (block_shape_seq G (indices G R Y) K) by (now rewrite PY_len).
    rewrite (block_shape_seq G IX0 K Hl). rewrite PY_len. apply map_ext_in. intros i Hi. apply in_seq in Hi.
    specialize (Hch i ltac:(lia)). rewrite (PY_nth i) in Hch |- * by lia.
    apply (size_of_drop G GL). exact (icharges_drop_notin _ _ _ Hch).
  Qed.

  Lemma PY_nd : NoDup (sectors G R Y).
  Proof. exact (proj1 (proj2 (wf_parts G R GL Y [0; 0] HYwf (le_n 2)))). Qed.

  (* a coordinate of the reference tables whose sector is stored lies in the pruned tables *)
  Lemma PY_stored_ok (cs : list (coord G)) T :
    coords_ok G IX0 cs = true -> In (map fst cs, T) (blocks G R Y) -> coords_ok G (indices G R Y) cs = true.
  Proof.
    intros Hc Hin. destruct (PY_block _ _ Hin) as (Hl & _ & Hch).
    apply coords_ok_iff in Hc. destruct Hc as [Hlc Hc]. apply coords_ok_iff. rewrite PY_len.
    split; [exact Hlc|]. intros i Hi. specialize (Hc i Hi). specialize (Hch i Hi).
    assert (E : nth i (map fst cs) idc = fst (nth i cs dc)).
    { change idc with (fst dc). apply map_nth. }
    rewrite E in Hch. rewrite (PY_nth i Hi) in Hch |- *.
    rewrite (size_of_drop G GL) by exact (icharges_drop_notin _ _ _ Hch). exact Hc.
  Qed.

  Lemma PY_sem_zero (cs : list (coord G)) :
    coords_ok G IX0 cs = true -> coords_ok G (indices G R Y) cs = false -> sem G R Y cs = r0 R.
  Proof.
    intros Hc Hno. unfold sem. destruct (lookup keq (map fst cs) (blocks G R Y)) as [T|] eqn:E; [|reflexivity].
    apply (OrderProofs.lookup_In keq (Hke G GL)) in E. rewrite (PY_stored_ok cs T Hc E) in Hno. discriminate.
  Qed.
End Pruned.

Lemma slots_length_single n0 g0 : g0 <> [] -> NoDup g0 -> Forall (fun ax => ax < n0) g0 ->
  length (slots n0 [g0]) + length g0 = n0 + 1.
Proof.
  intros Hne Hnd Hlt. rewrite (SL_eq n0 g0 Hne). rewrite <- (perm_length n0 g0 Hnd Hlt Hne) at 2.
  rewrite perm_eq, (before_eq n0 g0 Hne). rewrite !app_length, !map_length, seq_length. cbn [length]. lia.
Qed.


(* ------------------------------------------------------------------ *)
(* the contraction in a given mode, on explicit axis lists *)
Section ModeDef.
  Context (G : Symmetry) (R : Ring).
  Definition tdot_mode (m : tmode) (a b : aarray G R) (aa ab : list nat) : aarray G R :=
    let la := rest_axes (ndim G R a) aa in
    let rb := rest_axes (ndim G R b) ab in
    match m with
    | MBlockwise => tdot_blockwise G R a b la aa ab rb
    | MFused => tdot_fused2 G R a b la aa ab rb
    | MAuto => if is_nil aa then tdot_blockwise G R a b la aa ab rb else tdot_fused2 G R a b la aa ab rb
    end.

  Lemma norm_axes_nat n (l : list nat) : (forall i, In i l -> i < n) -> norm_axes n (map Z.of_nat l) = l.
  Proof.
    intros H. unfold norm_axes. rewrite map_map. rewrite <- (map_id l) at 2. apply map_ext_in. intros i Hi.
    specialize (H i Hi). rewrite Z.mod_small by lia. apply Nat2Z.id.
  Qed.

  (* the public front end on in-range natural axes is tdot_mode *)
  Lemma tensordot2_nat (m : tmode) (a b : aarray G R) (aa ab : list nat) :
    length aa = length ab -> (forall i, In i aa -> i < ndim G R a) -> (forall i, In i ab -> i < ndim G R b) ->
    a_tensordot2 G R a b (inr (map Z.of_nat aa, map Z.of_nat ab)) m = Some (tdot_mode m a b aa ab).
  Proof.
    intros Hl Ha Hb. unfold a_tensordot2, parse_axes. rewrite !map_length, Hl, Nat.eqb_refl.
    rewrite (norm_axes_nat _ aa Ha), (norm_axes_nat _ ab Hb). unfold tdot_mode.
    destruct m; [destruct (is_nil aa)| |]; reflexivity.
  Qed.

  Context (GL : GroupLaws G) (OL : OrderLaws G) (RL : SumLaws R).

  Lemma tdot_mode_spec (m : tmode) (a b : aarray G R) (aa ab : list nat) :
    wf_array G R a = true -> wf_array G R b = true ->
    axes_ok (ndim G R a) aa = true -> axes_ok (ndim G R b) ab = true -> legs_match G R a b aa ab ->
    let w := tdot_blockwise G R a b (rest_axes (ndim G R a) aa) aa ab (rest_axes (ndim G R b) ab) in
    wf_array G R (tdot_mode m a b aa ab) = true /\
    charge G R (tdot_mode m a b aa ab) = charge G R w /\
    indices G R (tdot_mode m a b aa ab) = indices G R w /\
    forall cs, sem G R (tdot_mode m a b aa ab) cs = sem G R w cs.
  Proof.
    intros Hwa Hwb Haa Hab Hlm w.
    destruct (axes_ok_spec _ _ Haa) as [N1 N2]. destruct (axes_ok_spec _ _ Hab) as [N3 N4].
    assert (Hlen : length aa = length ab) by apply Hlm.
    assert (Hdual : forall k, k < length aa ->
              idual G (nth (nth k aa 0) (indices G R a) (dflt_index G)) =
              negb (idual G (nth (nth k ab 0) (indices G R b) (dflt_index G)))).
    { intros k Hk. destruct Hlm as (_ & _ & _ & H). exact (proj1 (H k Hk)). }
    assert (Hb : wf_array G R w = true /\ charge G R w = charge G R w /\ indices G R w = indices G R w /\
                 forall cs, sem G R w cs = sem G R w cs).
    { split; [exact (tdot_blockwise_wf G GL R OL a b aa ab Hwa Hwb N1 N2 N3 N4 Hlen Hdual)|]. repeat split. }
    assert (Hf : let f := tdot_fused2 G R a b (rest_axes (ndim G R a) aa) aa ab (rest_axes (ndim G R b) ab) in
                 wf_array G R f = true /\ charge G R f = charge G R w /\ indices G R f = indices G R w /\
                 forall cs, sem G R f cs = sem G R w cs).
    { cbv zeta. split; [exact (tdot_fused2_wf G GL OL R a b aa ab Hwa Hwb N1 N2 N3 N4 Hlen Hdual)|].
      exact (fused_eq_blockwise_full_stmt G R GL OL RL a b _ aa ab _ Hwa Hwb Haa Hab Hlm eq_refl eq_refl). }
    unfold tdot_mode. destruct m; [destruct (is_nil aa)| |]; assumption.
  Qed.
End ModeDef.

(* ------------------------------------------------------------------ *)
(* Part 3b: the group is in the FIRST operand *)
Section GroupInA.
  Context (G : Symmetry) (R : Ring) (GL : GroupLaws G) (OL : OrderLaws G) (RL : SumLaws R).
  Context (a b : aarray G R) (aa ab g : list nat).
  Context (Hwa : wf_array G R a = true) (Hwb : wf_array G R b = true).
  Context (Haa : axes_ok (ndim G R a) aa = true) (Hab : axes_ok (ndim G R b) ab = true).
  Context (Hlm : legs_match G R a b aa ab).
  Context (Hg_len : 2 <= length g) (Hg_nd : NoDup g)
          (Hg_free : forall ax, In ax g -> ax < ndim G R a /\ ~ In ax aa).

  Notation na := (ndim G R a).
  Notation nb := (ndim G R b).
  Notation la := (rest_axes (ndim G R a) aa).
  Notation rb := (rest_axes (ndim G R b) ab).
  Notation dflt := (dflt_index G).
  Notation idc := (ident G).
  Notation dc := (ident G, 0).
  Notation keq := (list_eqb (ceqb G)).
  Notation FIa := (fused_index G (indices G R a) (sectors G R a)).
  Notation A' := (fuse_core G R a [g]).
  Notation aaF := (cxF (ndim G R a) aa g).
  Notation L := (tdot_blockwise G R (fuse_core G R a [g]) b
                   (rest_axes (ndim G R (fuse_core G R a [g])) (cxF (ndim G R a) aa g))
                   (cxF (ndim G R a) aa g) ab (rest_axes (ndim G R b) ab)).
  Notation W := (tdot_blockwise G R a b (rest_axes (ndim G R a) aa) aa ab (rest_axes (ndim G R b) ab)).
  Notation FSa := (FS (ndim G R a) aa g).
  Notation f1 := (fr1 aa g).
  Notation f2 := (fr2 (ndim G R a) aa g).
  Notation wa := (without_axes (indices G R a) aa).
  Notation wb := (without_axes (indices G R b) ab).
  Notation io := (fun ax : nat => index_of ax (rest_axes (ndim G R a) aa)).
  Notation p := (length (fr1 aa g)).
  Notation gP := (map (fun ax : nat => index_of ax (rest_axes (ndim G R a) aa)) g).

  Definition IX0a : list (index G) := map FIa FSa ++ wb.
  Definition freeT : list (index G) := wa ++ wb.

  Lemma Haa_s : NoDup aa /\ (forall i, In i aa -> i < na). Proof. now apply axes_ok_spec. Qed.
  Lemma Hab_s : NoDup ab /\ (forall i, In i ab -> i < nb). Proof. now apply axes_ok_spec. Qed.
  Lemma Hlen : length aa = length ab. Proof. apply Hlm. Qed.
  Lemma Hg_ne : g <> []. Proof. intros E. rewrite E in Hg_len. cbn in Hg_len. lia. Qed.
  Lemma Hg_sing : is_singlet g = false. Proof. unfold is_singlet. apply Nat.eqb_neq. lia. Qed.
  Lemma Hdual k : k < length aa ->
    idual G (nth (nth k aa 0) (indices G R a) dflt) = negb (idual G (nth (nth k ab 0) (indices G R b) dflt)).
  Proof. intros Hk. destruct Hlm as (_ & _ & _ & H). exact (proj1 (H k Hk)). Qed.

  Notation Q1 := (P1 g Hg_ne).
  Notation Q2 := (P2 g Hg_nd).
  Notation Q3 := (P3 G R a aa g Hg_free).

  Lemma A'_wf : wf_array G R A' = true.
  Proof. exact (xf_wf G R GL OL a aa g Hwa Hg_ne Hg_nd Hg_free). Qed.

  Lemma aaF_len : length aaF = length ab.
  Proof. rewrite cxF_length. exact Hlen. Qed.

  Lemma A'_legs : take_axes dflt (indices G R A') aaF = take_axes dflt (indices G R a) aa.
  Proof. exact (xf_take_cx G R a aa g (proj2 Haa_s) Hg_ne Hg_free). Qed.

  Lemma A'_axes : axes_ok (ndim G R A') aaF = true.
  Proof. exact (xf_axes_ok G R a aa g (proj1 Haa_s) (proj2 Haa_s) Hg_ne Hg_free). Qed.

  Lemma L_wf : wf_array G R L = true.
  Proof.
    destruct (axes_ok_spec _ _ A'_axes) as [N1 N2]. destruct Hab_s as [N3 N4].
    apply (tdot_blockwise_wf G GL R OL A' b aaF ab A'_wf Hwb N1 N2 N3 N4 aaF_len).
    intros k Hk. rewrite cxF_length in Hk. rewrite <- (Hdual k Hk). f_equal.
    pose proof A'_legs as E. unfold take_axes in E.
    apply (f_equal (fun l => nth k l dflt)) in E.
    rewrite (nth_map_lt _ _ _ 0) in E by (rewrite cxF_length; exact Hk).
    now rewrite (nth_map_lt _ _ _ 0) in E by exact Hk.
  Qed.

  Lemma W_wf : wf_array G R W = true.
  Proof.
    destruct Haa_s as [N1 N2]. destruct Hab_s as [N3 N4].
    exact (tdot_blockwise_wf G GL R OL a b aa ab Hwa Hwb N1 N2 N3 N4 Hlen Hdual).
  Qed.

  Lemma L_indices : indices G R L = prune_indices G IX0a (sectors G R L).
  Proof.
    unfold tdot_blockwise. cbn [indices sectors blocks]. unfold IX0a.
    now rewrite (xf_without G R a aa g (proj2 Haa_s) Hg_free).
  Qed.

  Lemma W_indices : indices G R W = prune_indices G freeT (sectors G R W).
  Proof. reflexivity. Qed.

  Lemma IX0a_eq : IX0a = take_axes dflt (indices G R a) f1 ++ FIa g :: take_axes dflt (indices G R a) f2 ++ wb.
  Proof.
    unfold IX0a. rewrite (FS_indices G R a aa g (proj2 Haa_s) Hg_ne Hg_nd Hg_free).
    rewrite <- !app_assoc. reflexivity.
  Qed.

  Lemma IX0a_p : nth p IX0a dflt = FIa g /\ p < length IX0a.
  Proof.
    rewrite IX0a_eq. split.
    - rewrite app_nth2 by (rewrite length_take_axes; lia). rewrite length_take_axes, Nat.sub_diag. reflexivity.
    - rewrite app_length, length_take_axes. cbn [length]. lia.
  Qed.

  Lemma g_in_SL : In g (slots (length (indices G R a)) [g]).
  Proof.
    change (length (indices G R a)) with na. rewrite (SL_eq na g Hg_ne).
    apply in_or_app. right. now left.
  Qed.

  (* ---- any valid array with the tables and the values of L ---- *)
  Section AnyLeft.
  Context (Y : aarray G R) (HYwf : wf_array G R Y = true)
          (HYix : indices G R Y = indices G R L) (HYsem : forall cs, sem G R Y cs = sem G R L cs).

  Definition droppedA : list (C G) :=
    filter (fun c => negb (mem (ceqb G) c (map (fun s => nth p s idc) (sectors G R L)))) (icharges G (FIa g)).

  Lemma HYix' : indices G R Y = prune_indices G IX0a (sectors G R L).
  Proof. rewrite HYix. exact L_indices. Qed.

  Lemma Y_nd : NoDup (sectors G R Y).
  Proof. exact (PY_nd G R GL Y HYwf). Qed.

  Lemma Y_shape K T : In (K, T) (blocks G R Y) -> length K = length IX0a /\ tshape T = block_shape G IX0a K.
  Proof.
    intros Hin. destruct (PY_block G R GL Y IX0a _ HYwf HYix' K T Hin) as (H1 & H2 & _). now split.
  Qed.

  Lemma Y_g : g <> [] ->
    nth p (indices G R Y) dflt = drop_charges G (FIa g) droppedA /\ nth p IX0a dflt = FIa g /\
    p < length IX0a /\ (forall K T, In (K, T) (blocks G R Y) -> ~ In (nth p K idc) droppedA).
  Proof.
    intros _. destruct IX0a_p as [E Hp].
    assert (Hn : nth p (indices G R Y) dflt = drop_charges G (FIa g) droppedA).
    { rewrite (PY_nth G R Y IX0a _ HYix' p Hp), E. reflexivity. }
    split; [exact Hn|]. split; [exact E|]. split; [exact Hp|].
    intros K T Hin. destruct (PY_block G R GL Y IX0a _ HYwf HYix' K T Hin) as (_ & _ & Hch).
    specialize (Hch p Hp). rewrite Hn in Hch. exact (icharges_drop_notin G GL _ _ _ Hch).
  Qed.

  Notation UL := (UY G R g Y p).

  Lemma UL_unfuse : a_unfuse G R Y p = Some UL.
  Proof.
    rewrite (UY_multi G R GL OL a [g] Hwa Q1 Q2 Q3 g (fun _ => g_in_SL) Y p droppedA IX0a Y_nd Y_shape Y_g Hg_len).
    exact (proj1 (PU G R GL OL a [g] Hwa Q1 Q2 Q3 g (fun _ => g_in_SL) Y p droppedA IX0a Y_nd Y_shape Y_g Hg_len)).
  Qed.

  Section Coords.
  Context (cl cr : list (coord G)).
  Context (Hcl : coords_ok G wa cl = true) (Hcr : coords_ok G wb cr = true).

  Notation cL := (take_axes dc cl (map io f1)).
  Notation csub := (take_axes dc cl (map io g)).
  Notation cR2 := (take_axes dc cl (map io f2)).

  Lemma len_cl : length cl = length la.
  Proof. rewrite (coords_ok_length G _ _ Hcl), (without_axes_take dflt). apply length_take_axes. Qed.

  Lemma f1_fr ax : In ax f1 -> In ax la.
  Proof.
    intros H. rewrite (fr_split na aa g (proj2 Haa_s) Hg_ne Hg_free). apply in_or_app. now left.
  Qed.
  Lemma f2_fr ax : In ax f2 -> In ax la.
  Proof.
    intros H. rewrite (fr2_eq na aa g) in H. apply filter_In in H. destruct H as [H _].
    apply (frB_In na aa g (proj2 Haa_s) Hg_ne Hg_free) in H. tauto.
  Qed.
  Lemma g_fr ax : In ax g -> In ax la.
  Proof. exact (g_in_fr na aa g (proj2 Haa_s) Hg_free ax). Qed.

  Lemma UIX_eq : UIX G R a g p IX0a =
    take_axes dflt (indices G R a) f1 ++ take_axes dflt (indices G R a) g ++ take_axes dflt (indices G R a) f2 ++ wb.
  Proof.
    unfold UIX. replace (Nat.ltb 1 (length g)) with true by (symmetry; apply Nat.ltb_lt; lia).
    rewrite IX0a_eq. rewrite (replace_with_seq_middle _ _ (FIa g) _ p) by apply length_take_axes. reflexivity.
  Qed.

  Lemma UIX_coords : coords_ok G (UIX G R a g p IX0a) (cL ++ csub ++ cR2 ++ cr) = true.
  Proof.
    rewrite UIX_eq.
    apply coords_ok_app; [exact (coords_ok_fr G R a aa cl f1 Hcl f1_fr)|].
    apply coords_ok_app; [exact (coords_ok_fr G R a aa cl g Hcl g_fr)|].
    apply coords_ok_app; [exact (coords_ok_fr G R a aa cl f2 Hcl f2_fr)|exact Hcr].
  Qed.

  Lemma W_formula_a : sem G R W (cl ++ cr) =
    rsum R (map (fun kc => rmul R (sem G R a (merge G na aa cl kc)) (sem G R b (merge G nb ab cr kc)))
                (all_coords G (take_axes dflt (indices G R a) aa))).
  Proof.
    apply (blockwise_sem_wf G R RL (ceqb_spec G GL) a b la aa ab rb cl cr); try assumption; try reflexivity;
      [apply OL|apply OL|exact Hlen].
  Qed.

  Lemma legs_nodup_a : Forall (fun ix => NoDup (icharges G ix)) (take_axes dflt (indices G R a) aa).
  Proof.
    apply Forall_forall. intros ix Hix. unfold take_axes in Hix. apply in_map_iff in Hix.
    destruct Hix as (ax & <- & Hax).
    apply (wf_index_nodup G); [apply OL|apply OL|].
    pose proof (wfx_ix G R GL a Hwa) as Hw. rewrite Forall_forall in Hw. apply Hw. apply nth_In.
    exact (proj2 Haa_s ax Hax).
  Qed.

  Lemma take_fst_merge kc : length kc = length aa ->
    take_axes idc (map fst (merge G na aa cl kc)) g = map fst csub.
  Proof.
    intros Hk. rewrite <- (take_map fst dc). f_equal. unfold take_axes. rewrite map_map.
    apply map_ext_in. intros ax Hax.
    apply (merge_free_nth G R a aa cl kc ax len_cl (g_fr ax Hax)).
  Qed.

  Theorem left_value : sem G R UL (cL ++ csub ++ cR2 ++ cr) = sem G R W (cl ++ cr).
  Proof.
    rewrite W_formula_a.
    destruct (rec_dec G R GL a g (map fst csub)) as [Hrec|Hno].
    - (* the sub-sector on g is recorded in the fused table *)
      assert (Hrec' : is_singlet g = false -> exists s', In s' (sectors G R a) /\ group_subsector G s' g = map fst csub)
        by (intros _; exact Hrec).
      assert (HU : sem G R UL (cL ++ csub ++ cR2 ++ cr) =
                   sem G R Y (cL ++ (if is_nil g then [] else [scoP G R a g csub]) ++ cR2 ++ cr)).
      { apply (UY_sem G R GL OL a [g] Hwa Q1 Q2 Q3 g (fun _ => g_in_SL) Y p droppedA IX0a Y_nd Y_shape Y_g
                 cL csub (cR2 ++ cr)).
        - rewrite length_take_axes. apply map_length.
        - rewrite length_take_axes. apply map_length.
        - intros _. destruct Hrec as (s' & Hs' & E). now exists s'.
        - intros _. exact UIX_coords. }
      rewrite HU. clear HU.
      replace (is_nil g) with false by (symmetry; apply is_nil_false; exact Hg_ne).
      rewrite HYsem.
      replace (cL ++ [scoP G R a g csub] ++ cR2 ++ cr) with (fcl G R a aa g cl ++ cr).
      2:{ rewrite (fcl_split G R a aa g (proj2 Haa_s) Hg_ne Hg_nd Hg_free cl). now rewrite <- !app_assoc. }
      rewrite (blockwise_sem_wf G R RL (ceqb_spec G GL) A' b _ aaF ab rb (fcl G R a aa g cl) cr).
      + rewrite A'_legs. apply rsum_ext. intros kc Hkc. f_equal.
        rewrite (xf_ndim G R a g).
        apply (xf_sem_merge G R GL OL a aa g Hwa (proj1 Haa_s) (proj2 Haa_s) Hg_ne Hg_nd Hg_free cl kc Hcl);
          [|exact Hrec'].
        exact (all_coords_ok G _ kc (ceqb_spec G GL) legs_nodup_a Hkc).
      + apply OL.
      + apply OL.
      + exact A'_wf.
      + exact Hwb.
      + exact A'_axes.
      + exact Hab.
      + exact aaF_len.
      + reflexivity.
      + reflexivity.
      + rewrite (xf_without G R a aa g (proj2 Haa_s) Hg_free).
        exact (fcl_ok G R GL OL a aa g Hwa (proj2 Haa_s) Hg_ne Hg_nd Hg_free cl Hcl Hrec').
      + exact Hcr.
    - (* not recorded: both sides are zero *)
      rewrite (rsum_zero R RL).
      + apply (UY_none G R GL OL a [g] Hwa Q1 Q2 Q3 g (fun _ => g_in_SL) Y p droppedA IX0a Y_nd Y_shape Y_g
                 cL csub (cR2 ++ cr) Hg_len).
        * rewrite length_take_axes. apply map_length.
        * rewrite length_take_axes. apply map_length.
        * exact Hno.
      + intros kc Hkc.
        assert (Hz : sem G R a (merge G na aa cl kc) = r0 R).
        { unfold sem.
          destruct (lookup keq (map fst (merge G na aa cl kc)) (blocks G R a)) as [t|] eqn:E; [exfalso|reflexivity].
          apply (OrderProofs.lookup_In keq (Hke G GL)) in E. apply (Hno _ (In_secs G R a _ t E)).
          unfold group_subsector. apply take_fst_merge.
          pose proof (all_coords_ok G _ kc (ceqb_spec G GL) legs_nodup_a Hkc) as Hk.
          rewrite (coords_ok_length G _ _ Hk). apply length_take_axes. }
        rewrite Hz. apply (rmul_0_l R RL).
  Qed.
  End Coords.
  End AnyLeft.

  (* ---- any valid array with the tables and the values of W, fused afterwards ---- *)
  Lemma len_wa : length wa = length la.
  Proof. rewrite (without_axes_take dflt). apply length_take_axes. Qed.
  Lemma len_wb : length wb = length rb.
  Proof. rewrite (without_axes_take dflt). apply length_take_axes. Qed.

  Lemma gP_eq : gP = gW na aa g 0.
  Proof. reflexivity. Qed.

  Section AnyRight.
  Context (Wm : aarray G R) (HWwf : wf_array G R Wm = true)
          (HWix : indices G R Wm = indices G R W) (HWsem : forall cs, sem G R Wm cs = sem G R W cs).

  Lemma ndimW : ndim G R Wm = nW na aa 0 (length rb).
  Proof.
    unfold ndim. rewrite HWix, W_indices, (length_prune_indices G). unfold freeT, nW.
    rewrite app_length, len_wa, len_wb. reflexivity.
  Qed.

  Lemma gP_nd : NoDup gP.
  Proof. rewrite gP_eq. exact (gW_nd na aa g (proj2 Haa_s) Hg_nd Hg_free 0). Qed.
  Lemma gP_lt : Forall (fun ax => ax < ndim G R Wm) gP.
  Proof. rewrite gP_eq, ndimW. exact (gW_lt na aa g (proj2 Haa_s) Hg_free 0 (length rb)). Qed.
  Lemma gP_len : 2 <= length gP.
  Proof. now rewrite map_length. Qed.
  Lemma gP_ne : gP <> [].
  Proof. intros E. pose proof gP_len as H. rewrite E in H. cbn in H. lia. Qed.
  Lemma gP_pos : fuse_position [gP] = p.
  Proof. rewrite gP_eq. exact (posW na aa g (proj2 Haa_s) Hg_ne Hg_nd Hg_free 0 0). Qed.

  Notation permW := (fuse_perm (ndim G R Wm) [gP]).

  Lemma permW_a : permW = map io (f1 ++ g ++ f2) ++ seq (length la) (length rb).
  Proof.
    rewrite ndimW, gP_eq.
    exact (permW_eq na aa g (proj2 Haa_s) Hg_ne Hg_nd Hg_free 0 (length rb)).
  Qed.

  Lemma HWix' : indices G R Wm = prune_indices G freeT (sectors G R W).
  Proof. rewrite HWix. exact W_indices. Qed.

  Lemma right_value y :
    (forall k t, In (k, t) (blocks G R y) ->
       (exists s b, In (s, b) (blocks G R Wm) /\ k = permuted idc s permW /\ t = ttranspose R b permW) \/
       Forall (fun v => v = r0 R) (tdata t)) ->
    (forall cs, coords_ok G (indices G R Wm) cs = true -> sem G R y (permuted dc cs permW) = sem G R Wm cs) ->
    forall cs, coords_ok G freeT cs = true -> sem G R y (permuted dc cs permW) = sem G R W cs.
  Proof.
    intros Hblk Hsem cs Hc. destruct (coords_ok G (indices G R Wm) cs) eqn:E.
    - rewrite (Hsem cs E). apply HWsem.
    - rewrite <- HWsem, (PY_sem_zero G R GL Wm freeT _ HWwf HWix' cs Hc E).
      unfold sem. destruct (lookup keq (map fst (permuted dc cs permW)) (blocks G R y)) as [t|] eqn:El; [|reflexivity].
      apply (OrderProofs.lookup_In keq (Hke G GL)) in El.
      destruct (Hblk _ _ El) as [(s & bb & Hin & Hk & _)|Hz].
      + exfalso.
        assert (Es : s = map fst cs).
        { apply (permuted_inj idc (ndim G R Wm) permW).
          - intros i Hi. apply (proj2 (perm_In (ndim G R Wm) gP gP_lt gP_ne i)). exact Hi.
          - destruct (wf_parts G R GL Wm [0; 0] HWwf (le_n 2)) as (_ & _ & Hb). exact (proj1 (Hb s bb Hin)).
          - pose proof (coords_ok_length G _ _ Hc) as Hlc. rewrite map_length, ndimW. unfold freeT, nW in *.
            rewrite app_length, len_wa, len_wb in Hlc. exact Hlc.
          - rewrite <- Hk. unfold permuted. rewrite map_map. apply map_ext. intros i.
            change idc with (fst dc). symmetry. apply map_nth. }
        subst s. rewrite (PY_stored_ok G R GL Wm freeT _ HWwf HWix' cs bb Hc Hin) in E. discriminate.
      + unfold get. rewrite Forall_forall in Hz.
        destruct (nth_in_or_default (offset (tshape t) (map snd (permuted dc cs permW))) (tdata t) (r0 R)) as [H|H];
          [now apply Hz|exact H].
  Qed.

  Lemma permuted_split (cl cr : list (coord G)) : length cl = length la -> length cr = length rb ->
    permuted dc (cl ++ cr) permW =
    take_axes dc cl (map io f1) ++ take_axes dc cl (map io g) ++ take_axes dc cl (map io f2) ++ cr.
  Proof.
    intros Hl Hr. rewrite permW_a.
    transitivity (take_axes dc cl (map io (f1 ++ g ++ f2)) ++ cr).
    - unfold permuted. apply (take_app_both dc cl cr); [now symmetry|now symmetry|].
      intros k Hk. apply in_map_iff in Hk. destruct Hk as (ax & <- & Hax). apply index_of_lt.
      apply in_app_or in Hax. destruct Hax as [H|H]; [now apply f1_fr|].
      apply in_app_or in H. destruct H as [H|H]; [now apply g_fr|now apply f2_fr].
    - unfold take_axes. rewrite !map_app. now rewrite <- !app_assoc.
  Qed.
  End AnyRight.

  Lemma A'_legs_match : legs_match G R A' b aaF ab.
  Proof.
    destruct Hlm as (H1 & H2 & H3 & H4). split; [exact aaF_len|]. split; [|split; [exact H3|]].
    - apply Forall_forall. intros k Hk. exact (proj2 (axes_ok_spec _ _ A'_axes) k Hk).
    - intros k Hk. rewrite cxF_length in Hk.
      assert (E : leg G (indices G R A') aaF k = leg G (indices G R a) aa k).
      { unfold leg. pose proof A'_legs as E. unfold take_axes in E. apply (f_equal (fun l => nth k l dflt)) in E.
        rewrite (nth_map_lt _ _ _ 0) in E by (rewrite cxF_length; exact Hk).
        now rewrite (nth_map_lt _ _ _ 0) in E by exact Hk. }
      rewrite E. exact (H4 k Hk).
  Qed.

  Lemma sizes_a : length f1 + length g + length f2 = length la.
  Proof.
    pose proof (permW_a W eq_refl) as E. apply (f_equal (@length nat)) in E.
    rewrite (perm_length (ndim G R W) gP gP_nd (gP_lt W eq_refl) (gP_ne W)) in E.
    rewrite (ndimW W eq_refl) in E. unfold nW in E.
    rewrite app_length, map_length, !app_length, seq_length in E. lia.
  Qed.

  Theorem group_in_a_core (Y Wm : aarray G R) :
    wf_array G R Y = true -> indices G R Y = indices G R L -> (forall cs, sem G R Y cs = sem G R L cs) ->
    wf_array G R Wm = true -> indices G R Wm = indices G R W -> (forall cs, sem G R Wm cs = sem G R W cs) ->
    exists UL UR,
      a_unfuse G R Y (fuse_position [gP]) = Some UL /\
      a_unfuse G R (fuse_core G R Wm [gP]) (fuse_position [gP]) = Some UR /\
      ndim G R Y = ndim G R (fuse_core G R Wm [gP]) /\
      forall cs, coords_ok G freeT cs = true ->
        sem G R UL (permuted dc cs (fuse_perm (ndim G R W) [gP])) = sem G R W cs /\
        sem G R UR (permuted dc cs (fuse_perm (ndim G R W) [gP])) = sem G R W cs.
  Proof.
    intros HYwf HYix HYsem HWwf HWix HWsem.
    assert (Hnd : ndim G R Wm = ndim G R W) by (unfold ndim; now rewrite HWix).
    destruct (stmt_C G R GL OL Wm gP HWwf gP_nd (gP_lt Wm HWix) gP_len)
      as (y & Hy & _ & _ & _ & Hblk & Hsem).
    exists (UY G R g Y p), y.
    split; [rewrite gP_pos; exact (UL_unfuse Y HYwf HYix)|]. split; [exact Hy|]. split.
    - unfold ndim at 1. rewrite HYix, L_indices, (length_prune_indices G), IX0a_eq.
      rewrite (xf_ndim G R Wm gP).
      pose proof (slots_length_single (ndim G R Wm) gP (gP_ne Wm) gP_nd (gP_lt Wm HWix)) as E.
      rewrite map_length in E. rewrite (ndimW Wm HWix) in E |- *. unfold nW in E |- *. pose proof sizes_a as E2.
      rewrite app_length. cbn [length]. rewrite app_length, !length_take_axes, len_wb. lia.
    - intros cs Hc. rewrite <- Hnd. split.
      + destruct (coords_ok_app_inv G wa wb cs Hc) as (Ecs & Hcl & Hcr).
        set (cl := firstn (length wa) cs) in *. set (cr := skipn (length wa) cs) in *. rewrite Ecs.
        rewrite (permuted_split Wm HWix cl cr (len_cl cl Hcl)).
        * exact (left_value Y HYwf HYix HYsem cl cr Hcl Hcr).
        * rewrite (coords_ok_length G _ _ Hcr). exact len_wb.
      + exact (right_value Wm HWwf HWix HWsem y Hblk Hsem cs Hc).
  Qed.
End GroupInA.

(* ------------------------------------------------------------------ *)
(* Part 4: the group is in the SECOND operand *)
Section GroupInB.
  Context (G : Symmetry) (R : Ring) (GL : GroupLaws G) (OL : OrderLaws G) (RL : SumLaws R).
  Context (a b : aarray G R) (aa ab g : list nat).
  Context (Hwa : wf_array G R a = true) (Hwb : wf_array G R b = true).
  Context (Haa : axes_ok (ndim G R a) aa = true) (Hab : axes_ok (ndim G R b) ab = true).
  Context (Hlm : legs_match G R a b aa ab).
  Context (Hg_len : 2 <= length g) (Hg_nd : NoDup g)
          (Hg_free : forall ax, In ax g -> ax < ndim G R b /\ ~ In ax ab).

  Notation na := (ndim G R a).
  Notation nb := (ndim G R b).
  Notation la := (rest_axes (ndim G R a) aa).
  Notation rb := (rest_axes (ndim G R b) ab).
  Notation dflt := (dflt_index G).
  Notation idc := (ident G).
  Notation dc := (ident G, 0).
  Notation keq := (list_eqb (ceqb G)).
  Notation FIb := (fused_index G (indices G R b) (sectors G R b)).
  Notation B' := (fuse_core G R b [g]).
  Notation abF := (cxF (ndim G R b) ab g).
  Notation L := (tdot_blockwise G R a (fuse_core G R b [g]) (rest_axes (ndim G R a) aa) aa
                   (cxF (ndim G R b) ab g)
                   (rest_axes (ndim G R (fuse_core G R b [g])) (cxF (ndim G R b) ab g))).
  Notation W := (tdot_blockwise G R a b (rest_axes (ndim G R a) aa) aa ab (rest_axes (ndim G R b) ab)).
  Notation FSb := (FS (ndim G R b) ab g).
  Notation f1 := (fr1 ab g).
  Notation f2 := (fr2 (ndim G R b) ab g).
  Notation wa := (without_axes (indices G R a) aa).
  Notation wb := (without_axes (indices G R b) ab).
  Notation io := (fun ax : nat => index_of ax (rest_axes (ndim G R b) ab)).
  Notation sh := (length (rest_axes (ndim G R a) aa)).
  Notation p := (length (rest_axes (ndim G R a) aa) + length (fr1 ab g)).
  Notation gP := (map (fun ax : nat => length (rest_axes (ndim G R a) aa) + index_of ax (rest_axes (ndim G R b) ab)) g).

  Definition IX0b : list (index G) := wa ++ map FIb FSb.

  Lemma B_Haa_s : NoDup aa /\ (forall i, In i aa -> i < na). Proof. now apply axes_ok_spec. Qed.
  Lemma B_Hab_s : NoDup ab /\ (forall i, In i ab -> i < nb). Proof. now apply axes_ok_spec. Qed.
  Lemma B_Hlen : length aa = length ab. Proof. apply Hlm. Qed.
  Lemma B_Hg_ne : g <> []. Proof. intros E. rewrite E in Hg_len. cbn in Hg_len. lia. Qed.
  Lemma B_Hdual k : k < length aa ->
    idual G (nth (nth k aa 0) (indices G R a) dflt) = negb (idual G (nth (nth k ab 0) (indices G R b) dflt)).
  Proof. intros Hk. destruct Hlm as (_ & _ & _ & H). exact (proj1 (H k Hk)). Qed.

  Notation Q1 := (P1 g B_Hg_ne).
  Notation Q2 := (P2 g Hg_nd).
  Notation Q3 := (P3 G R b ab g Hg_free).

  Lemma B'_wf : wf_array G R B' = true.
  Proof. exact (xf_wf G R GL OL b ab g Hwb B_Hg_ne Hg_nd Hg_free). Qed.

  Lemma abF_len : length aa = length abF.
  Proof. rewrite cxF_length. exact B_Hlen. Qed.

  Lemma B'_legs : take_axes dflt (indices G R B') abF = take_axes dflt (indices G R b) ab.
  Proof. exact (xf_take_cx G R b ab g (proj2 B_Hab_s) B_Hg_ne Hg_free). Qed.

  Lemma B'_axes : axes_ok (ndim G R B') abF = true.
  Proof. exact (xf_axes_ok G R b ab g (proj1 B_Hab_s) (proj2 B_Hab_s) B_Hg_ne Hg_free). Qed.

  Lemma B'_leg k : k < length ab -> leg G (indices G R B') abF k = leg G (indices G R b) ab k.
  Proof.
    intros Hk. unfold leg. pose proof B'_legs as E. unfold take_axes in E.
    apply (f_equal (fun l => nth k l dflt)) in E.
    rewrite (nth_map_lt _ _ _ 0) in E by (rewrite cxF_length; exact Hk).
    now rewrite (nth_map_lt _ _ _ 0) in E by exact Hk.
  Qed.

  Lemma B_L_wf : wf_array G R L = true.
  Proof.
    destruct (axes_ok_spec _ _ B'_axes) as [N3 N4]. destruct B_Haa_s as [N1 N2].
    apply (tdot_blockwise_wf G GL R OL a B' aa abF Hwa B'_wf N1 N2 N3 N4 abF_len).
    intros k Hk. rewrite (B_Hdual k Hk). f_equal. f_equal. symmetry.
    apply (B'_leg k). rewrite <- B_Hlen. exact Hk.
  Qed.

  Lemma B'_legs_match : legs_match G R a B' aa abF.
  Proof.
    destruct Hlm as (H1 & H2 & H3 & H4). split; [exact abF_len|]. split; [exact H2|]. split.
    - apply Forall_forall. intros k Hk. exact (proj2 (axes_ok_spec _ _ B'_axes) k Hk).
    - intros k Hk. rewrite (B'_leg k) by (rewrite <- H1; exact Hk). exact (H4 k Hk).
  Qed.

  Lemma B_W_wf : wf_array G R W = true.
  Proof.
    destruct B_Haa_s as [N1 N2]. destruct B_Hab_s as [N3 N4].
    exact (tdot_blockwise_wf G GL R OL a b aa ab Hwa Hwb N1 N2 N3 N4 B_Hlen B_Hdual).
  Qed.

  Lemma B_L_indices : indices G R L = prune_indices G IX0b (sectors G R L).
  Proof.
    unfold tdot_blockwise. cbn [indices sectors blocks]. unfold IX0b.
    now rewrite (xf_without G R b ab g (proj2 B_Hab_s) Hg_free).
  Qed.

  Lemma B_len_wa : length wa = length la.
  Proof. rewrite (without_axes_take dflt). apply length_take_axes. Qed.
  Lemma B_len_wb : length wb = length rb.
  Proof. rewrite (without_axes_take dflt). apply length_take_axes. Qed.

  Lemma IX0b_eq : IX0b = (wa ++ take_axes dflt (indices G R b) f1) ++ FIb g :: take_axes dflt (indices G R b) f2.
  Proof.
    unfold IX0b. rewrite (FS_indices G R b ab g (proj2 B_Hab_s) B_Hg_ne Hg_nd Hg_free).
    rewrite <- !app_assoc. reflexivity.
  Qed.

  Lemma IX0b_p : nth p IX0b dflt = FIb g /\ p < length IX0b.
  Proof.
    rewrite IX0b_eq. split.
    - rewrite app_nth2 by (rewrite app_length, length_take_axes, B_len_wa; lia).
      rewrite app_length, length_take_axes, B_len_wa, Nat.sub_diag. reflexivity.
    - rewrite !app_length, length_take_axes, B_len_wa. cbn [length]. lia.
  Qed.

  Lemma B_g_in_SL : In g (slots (length (indices G R b)) [g]).
  Proof.
    change (length (indices G R b)) with nb. rewrite (SL_eq nb g B_Hg_ne).
    apply in_or_app. right. now left.
  Qed.

  Section AnyLeft.
  Context (Y : aarray G R) (HYwf : wf_array G R Y = true)
          (HYix : indices G R Y = indices G R L) (HYsem : forall cs, sem G R Y cs = sem G R L cs).

  Definition droppedB : list (C G) :=
    filter (fun c => negb (mem (ceqb G) c (map (fun s => nth p s idc) (sectors G R L)))) (icharges G (FIb g)).

  Lemma B_HYix' : indices G R Y = prune_indices G IX0b (sectors G R L).
  Proof. rewrite HYix. exact B_L_indices. Qed.

  Lemma B_Y_nd : NoDup (sectors G R Y).
  Proof. exact (PY_nd G R GL Y HYwf). Qed.

  Lemma B_Y_shape K T : In (K, T) (blocks G R Y) -> length K = length IX0b /\ tshape T = block_shape G IX0b K.
  Proof.
    intros Hin. destruct (PY_block G R GL Y IX0b _ HYwf B_HYix' K T Hin) as (H1 & H2 & _). now split.
  Qed.

  Lemma B_Y_g : g <> [] ->
    nth p (indices G R Y) dflt = drop_charges G (FIb g) droppedB /\ nth p IX0b dflt = FIb g /\
    p < length IX0b /\ (forall K T, In (K, T) (blocks G R Y) -> ~ In (nth p K idc) droppedB).
  Proof.
    intros _. destruct IX0b_p as [E Hp].
    assert (Hn : nth p (indices G R Y) dflt = drop_charges G (FIb g) droppedB).
    { rewrite (PY_nth G R Y IX0b _ B_HYix' p Hp), E. reflexivity. }
    split; [exact Hn|]. split; [exact E|]. split; [exact Hp|].
    intros K T Hin. destruct (PY_block G R GL Y IX0b _ HYwf B_HYix' K T Hin) as (_ & _ & Hch).
    specialize (Hch p Hp). rewrite Hn in Hch. exact (icharges_drop_notin G GL _ _ _ Hch).
  Qed.

  Notation UL := (UY G R g Y p).

  Lemma B_UL_unfuse : a_unfuse G R Y p = Some UL.
  Proof.
    rewrite (UY_multi G R GL OL b [g] Hwb Q1 Q2 Q3 g (fun _ => B_g_in_SL) Y p droppedB IX0b B_Y_nd B_Y_shape B_Y_g Hg_len).
    exact (proj1 (PU G R GL OL b [g] Hwb Q1 Q2 Q3 g (fun _ => B_g_in_SL) Y p droppedB IX0b B_Y_nd B_Y_shape B_Y_g Hg_len)).
  Qed.

  Section Coords.
  Context (cl cr : list (coord G)).
  Context (Hcl : coords_ok G wa cl = true) (Hcr : coords_ok G wb cr = true).

  Notation cL := (take_axes dc cr (map io f1)).
  Notation csub := (take_axes dc cr (map io g)).
  Notation cR2 := (take_axes dc cr (map io f2)).

  Lemma B_len_cl : length cl = length la.
  Proof. rewrite (coords_ok_length G _ _ Hcl). exact B_len_wa. Qed.
  Lemma B_len_cr : length cr = length rb.
  Proof. rewrite (coords_ok_length G _ _ Hcr). exact B_len_wb. Qed.

  Lemma B_f1_fr ax : In ax f1 -> In ax rb.
  Proof.
    intros H. rewrite (fr_split nb ab g (proj2 B_Hab_s) B_Hg_ne Hg_free). apply in_or_app. now left.
  Qed.
  Lemma B_f2_fr ax : In ax f2 -> In ax rb.
  Proof.
    intros H. rewrite (fr2_eq nb ab g) in H. apply filter_In in H. destruct H as [H _].
    apply (frB_In nb ab g (proj2 B_Hab_s) B_Hg_ne Hg_free) in H. tauto.
  Qed.
  Lemma B_g_fr ax : In ax g -> In ax rb.
  Proof. exact (g_in_fr nb ab g (proj2 B_Hab_s) Hg_free ax). Qed.

  Lemma B_UIX_eq : UIX G R b g p IX0b =
    (wa ++ take_axes dflt (indices G R b) f1) ++ take_axes dflt (indices G R b) g ++ take_axes dflt (indices G R b) f2.
  Proof.
    unfold UIX. replace (Nat.ltb 1 (length g)) with true by (symmetry; apply Nat.ltb_lt; lia).
    rewrite IX0b_eq. rewrite (replace_with_seq_middle _ _ (FIb g) _ p); [reflexivity|].
    rewrite app_length, length_take_axes, B_len_wa. reflexivity.
  Qed.

  Lemma B_UIX_coords : coords_ok G (UIX G R b g p IX0b) ((cl ++ cL) ++ csub ++ cR2) = true.
  Proof.
    rewrite B_UIX_eq.
    apply coords_ok_app; [apply coords_ok_app; [exact Hcl|exact (coords_ok_fr G R b ab cr f1 Hcr B_f1_fr)]|].
    apply coords_ok_app; [exact (coords_ok_fr G R b ab cr g Hcr B_g_fr)|exact (coords_ok_fr G R b ab cr f2 Hcr B_f2_fr)].
  Qed.

  Lemma B_W_formula : sem G R W (cl ++ cr) =
    rsum R (map (fun kc => rmul R (sem G R a (merge G na aa cl kc)) (sem G R b (merge G nb ab cr kc)))
                (all_coords G (take_axes dflt (indices G R a) aa))).
  Proof.
    apply (blockwise_sem_wf G R RL (ceqb_spec G GL) a b la aa ab rb cl cr); try assumption; try reflexivity;
      [apply OL|apply OL|exact B_Hlen].
  Qed.

  Lemma B_legs_nodup : Forall (fun ix => NoDup (icharges G ix)) (take_axes dflt (indices G R b) ab).
  Proof.
    apply Forall_forall. intros ix Hix. unfold take_axes in Hix. apply in_map_iff in Hix.
    destruct Hix as (ax & <- & Hax).
    apply (wf_index_nodup G); [apply OL|apply OL|].
    pose proof (wfx_ix G R GL b Hwb) as Hw. rewrite Forall_forall in Hw. apply Hw. apply nth_In.
    exact (proj2 B_Hab_s ax Hax).
  Qed.

  Lemma B_all_coords : all_coords G (take_axes dflt (indices G R a) aa) = all_coords G (take_axes dflt (indices G R b) ab).
  Proof.
    apply all_coords_agree. unfold take_axes. rewrite !map_map.
    apply (nth_ext _ _ [] []); [rewrite !map_length; exact B_Hlen|].
    intros k Hk. rewrite map_length in Hk.
    rewrite (nth_map_lt _ aa k 0 []) by exact Hk.
    rewrite (nth_map_lt _ ab k 0 []) by (rewrite <- B_Hlen; exact Hk).
    destruct Hlm as (_ & _ & _ & H). exact (proj2 (H k Hk)).
  Qed.

  Lemma B_kc_ok kc : In kc (all_coords G (take_axes dflt (indices G R a) aa)) ->
    coords_ok G (take_axes dflt (indices G R b) ab) kc = true.
  Proof. rewrite B_all_coords. exact (all_coords_ok G _ kc (ceqb_spec G GL) B_legs_nodup). Qed.

  Lemma B_take_fst_merge kc :
    take_axes idc (map fst (merge G nb ab cr kc)) g = map fst csub.
  Proof.
    rewrite <- (take_map fst dc). f_equal. unfold take_axes. rewrite map_map.
    apply map_ext_in. intros ax Hax.
    apply (merge_free_nth G R b ab cr kc ax B_len_cr (B_g_fr ax Hax)).
  Qed.

  Theorem B_left_value : sem G R UL ((cl ++ cL) ++ csub ++ cR2) = sem G R W (cl ++ cr).
  Proof.
    rewrite B_W_formula.
    destruct (rec_dec G R GL b g (map fst csub)) as [Hrec|Hno].
    - assert (Hrec' : is_singlet g = false -> exists s', In s' (sectors G R b) /\ group_subsector G s' g = map fst csub)
        by (intros _; exact Hrec).
      assert (HU : sem G R UL ((cl ++ cL) ++ csub ++ cR2) =
                   sem G R Y ((cl ++ cL) ++ (if is_nil g then [] else [scoP G R b g csub]) ++ cR2)).
      { apply (UY_sem G R GL OL b [g] Hwb Q1 Q2 Q3 g (fun _ => B_g_in_SL) Y p droppedB IX0b B_Y_nd B_Y_shape B_Y_g
                 (cl ++ cL) csub cR2).
        - rewrite app_length, length_take_axes, map_length, B_len_cl. reflexivity.
        - rewrite length_take_axes. apply map_length.
        - intros _. destruct Hrec as (s' & Hs' & E). now exists s'.
        - intros _. exact B_UIX_coords. }
      rewrite HU. clear HU.
      replace (is_nil g) with false by (symmetry; apply is_nil_false; exact B_Hg_ne).
      rewrite HYsem.
      replace ((cl ++ cL) ++ [scoP G R b g csub] ++ cR2) with (cl ++ fcl G R b ab g cr).
      2:{ rewrite (fcl_split G R b ab g (proj2 B_Hab_s) B_Hg_ne Hg_nd Hg_free cr). now rewrite <- !app_assoc. }
      rewrite (blockwise_sem_wf G R RL (ceqb_spec G GL) a B' la aa abF _ cl (fcl G R b ab g cr)).
      + apply rsum_ext. intros kc Hkc. f_equal.
        rewrite (xf_ndim G R b g).
        apply (xf_sem_merge G R GL OL b ab g Hwb (proj1 B_Hab_s) (proj2 B_Hab_s) B_Hg_ne Hg_nd Hg_free cr kc Hcr);
          [exact (B_kc_ok kc Hkc)|exact Hrec'].
      + apply OL.
      + apply OL.
      + exact Hwa.
      + exact B'_wf.
      + exact Haa.
      + exact B'_axes.
      + exact abF_len.
      + reflexivity.
      + reflexivity.
      + exact Hcl.
      + rewrite (xf_without G R b ab g (proj2 B_Hab_s) Hg_free).
        exact (fcl_ok G R GL OL b ab g Hwb (proj2 B_Hab_s) B_Hg_ne Hg_nd Hg_free cr Hcr Hrec').
    - rewrite (rsum_zero R RL).
      + apply (UY_none G R GL OL b [g] Hwb Q1 Q2 Q3 g (fun _ => B_g_in_SL) Y p droppedB IX0b B_Y_nd B_Y_shape B_Y_g
                 (cl ++ cL) csub cR2 Hg_len).
        * rewrite app_length, length_take_axes, map_length, B_len_cl. reflexivity.
        * rewrite length_take_axes. apply map_length.
        * exact Hno.
      + intros kc Hkc.
        assert (Hz : sem G R b (merge G nb ab cr kc) = r0 R).
        { unfold sem.
          destruct (lookup keq (map fst (merge G nb ab cr kc)) (blocks G R b)) as [t|] eqn:E; [exfalso|reflexivity].
          apply (OrderProofs.lookup_In keq (Hke G GL)) in E. apply (Hno _ (In_secs G R b _ t E)).
          unfold group_subsector. apply B_take_fst_merge. }
        rewrite Hz. apply (rmul_0_r R RL).
  Qed.
  End Coords.
  End AnyLeft.

  Lemma B_gP_eq : gP = gW nb ab g sh.
  Proof. reflexivity. Qed.

  Section AnyRight.
  Context (Wm : aarray G R) (HWwf : wf_array G R Wm = true)
          (HWix : indices G R Wm = indices G R W) (HWsem : forall cs, sem G R Wm cs = sem G R W cs).

  Lemma B_ndimW : ndim G R Wm = nW nb ab sh 0.
  Proof.
    change (ndim G R Wm) with (length (indices G R Wm)).
    rewrite HWix. cbn [tdot_blockwise indices]. rewrite (length_prune_indices G). unfold nW.
    rewrite app_length, B_len_wa, B_len_wb. lia.
  Qed.

  Lemma B_gP_nd : NoDup gP.
  Proof. rewrite B_gP_eq. exact (gW_nd nb ab g (proj2 B_Hab_s) Hg_nd Hg_free sh). Qed.
  Lemma B_gP_lt : Forall (fun ax => ax < ndim G R Wm) gP.
  Proof. rewrite B_gP_eq, B_ndimW. exact (gW_lt nb ab g (proj2 B_Hab_s) Hg_free sh 0). Qed.
  Lemma B_gP_len : 2 <= length gP.
  Proof. now rewrite map_length. Qed.
  Lemma B_gP_ne : gP <> [].
  Proof. intros E. apply (f_equal (@length nat)) in E. rewrite map_length in E. cbn in E. lia. Qed.
  Lemma B_gP_pos : fuse_position [gP] = p.
  Proof. rewrite B_gP_eq. exact (posW nb ab g (proj2 B_Hab_s) B_Hg_ne Hg_nd Hg_free sh 0). Qed.

  Notation permW := (fuse_perm (ndim G R Wm) [gP]).

  Lemma B_permW : permW = seq 0 sh ++ map (fun ax => sh + io ax) (f1 ++ g ++ f2).
  Proof.
    rewrite B_ndimW, B_gP_eq.
    rewrite (permW_eq nb ab g (proj2 B_Hab_s) B_Hg_ne Hg_nd Hg_free sh 0). cbn [seq]. now rewrite app_nil_r.
  Qed.

  Lemma B_HWix' : indices G R Wm = prune_indices G (freeT G R a b aa ab) (sectors G R W).
  Proof. rewrite HWix. reflexivity. Qed.

  Lemma B_right_value y :
    (forall k t, In (k, t) (blocks G R y) ->
       (exists s bb, In (s, bb) (blocks G R Wm) /\ k = permuted idc s permW /\ t = ttranspose R bb permW) \/
       Forall (fun v => v = r0 R) (tdata t)) ->
    (forall cs, coords_ok G (indices G R Wm) cs = true -> sem G R y (permuted dc cs permW) = sem G R Wm cs) ->
    forall cs, coords_ok G (freeT G R a b aa ab) cs = true -> sem G R y (permuted dc cs permW) = sem G R W cs.
  Proof.
    intros Hblk Hsem cs Hc. destruct (coords_ok G (indices G R Wm) cs) eqn:E.
    - rewrite (Hsem cs E). apply HWsem.
    - rewrite <- HWsem, (PY_sem_zero G R GL Wm (freeT G R a b aa ab) _ HWwf B_HWix' cs Hc E).
      unfold sem. destruct (lookup keq (map fst (permuted dc cs permW)) (blocks G R y)) as [t|] eqn:El; [|reflexivity].
      apply (OrderProofs.lookup_In keq (Hke G GL)) in El.
      destruct (Hblk _ _ El) as [(s & bb & Hin & Hk & _)|Hz].
      + exfalso.
        assert (Es : s = map fst cs).
        { apply (permuted_inj idc (ndim G R Wm) permW).
          - intros i Hi. apply (proj2 (perm_In (ndim G R Wm) gP B_gP_lt B_gP_ne i)). exact Hi.
          - destruct (wf_parts G R GL Wm [0; 0] HWwf (le_n 2)) as (_ & _ & Hb). exact (proj1 (Hb s bb Hin)).
          - pose proof (coords_ok_length G _ _ Hc) as Hlc. rewrite map_length, B_ndimW. unfold freeT, nW in *.
            rewrite app_length, B_len_wa, B_len_wb in Hlc. rewrite Nat.add_0_r. exact Hlc.
          - rewrite <- Hk. unfold permuted. rewrite map_map. apply map_ext. intros i.
            change idc with (fst dc). symmetry. apply map_nth. }
        subst s. rewrite (PY_stored_ok G R GL Wm (freeT G R a b aa ab) _ HWwf B_HWix' cs bb Hc Hin) in E. discriminate.
      + unfold get. rewrite Forall_forall in Hz.
        destruct (nth_in_or_default (offset (tshape t) (map snd (permuted dc cs permW))) (tdata t) (r0 R)) as [H|H];
          [now apply Hz|exact H].
  Qed.

  Lemma B_permuted_split (cl cr : list (coord G)) : length cl = length la ->
    permuted dc (cl ++ cr) permW =
    (cl ++ take_axes dc cr (map io f1)) ++ take_axes dc cr (map io g) ++ take_axes dc cr (map io f2).
  Proof.
    intros Hl. rewrite B_permW.
    transitivity (cl ++ take_axes dc cr (map io (f1 ++ g ++ f2))).
    - unfold permuted. rewrite <- (map_map io (fun k => sh + k)).
      apply (take_app_pre_shift dc cl cr sh). now symmetry.
    - unfold take_axes. rewrite !map_app. now rewrite <- !app_assoc.
  Qed.
  End AnyRight.

  Lemma B_sizes : length f1 + length g + length f2 = length rb.
  Proof.
    pose proof (B_permW W eq_refl) as E. apply (f_equal (@length nat)) in E.
    rewrite (perm_length (ndim G R W) gP B_gP_nd (B_gP_lt W eq_refl) (B_gP_ne W)) in E.
    rewrite (B_ndimW W eq_refl) in E. unfold nW in E.
    rewrite app_length, map_length, !app_length, seq_length in E. lia.
  Qed.

  Theorem group_in_b_core (Y Wm : aarray G R) :
    wf_array G R Y = true -> indices G R Y = indices G R L -> (forall cs, sem G R Y cs = sem G R L cs) ->
    wf_array G R Wm = true -> indices G R Wm = indices G R W -> (forall cs, sem G R Wm cs = sem G R W cs) ->
    exists UL UR,
      a_unfuse G R Y (fuse_position [gP]) = Some UL /\
      a_unfuse G R (fuse_core G R Wm [gP]) (fuse_position [gP]) = Some UR /\
      ndim G R Y = ndim G R (fuse_core G R Wm [gP]) /\
      forall cs, coords_ok G (freeT G R a b aa ab) cs = true ->
        sem G R UL (permuted dc cs (fuse_perm (ndim G R W) [gP])) = sem G R W cs /\
        sem G R UR (permuted dc cs (fuse_perm (ndim G R W) [gP])) = sem G R W cs.
  Proof.
    intros HYwf HYix HYsem HWwf HWix HWsem.
    assert (Hnd : ndim G R Wm = ndim G R W) by (unfold ndim; now rewrite HWix).
    destruct (stmt_C G R GL OL Wm gP HWwf B_gP_nd (B_gP_lt Wm HWix) B_gP_len)
      as (y & Hy & _ & _ & _ & Hblk & Hsem).
    exists (UY G R g Y p), y.
    split; [rewrite B_gP_pos; exact (B_UL_unfuse Y HYwf HYix)|]. split; [exact Hy|]. split.
    - unfold ndim at 1. rewrite HYix, B_L_indices, (length_prune_indices G), IX0b_eq.
      rewrite (xf_ndim G R Wm gP).
      pose proof (slots_length_single (ndim G R Wm) gP (B_gP_ne Wm) B_gP_nd (B_gP_lt Wm HWix)) as E.
      rewrite map_length in E. rewrite (B_ndimW Wm HWix) in E |- *. unfold nW in E |- *. pose proof B_sizes as E2.
      rewrite !app_length. cbn [length]. rewrite !length_take_axes, B_len_wa. lia.
    - intros cs Hc. rewrite <- Hnd. split.
      + destruct (coords_ok_app_inv G wa wb cs Hc) as (Ecs & Hcl & Hcr).
        set (cl := firstn (length wa) cs) in *. set (cr := skipn (length wa) cs) in *. rewrite Ecs.
        rewrite (B_permuted_split Wm HWix cl cr (B_len_cl cl Hcl)).
        exact (B_left_value Y HYwf HYix HYsem cl cr Hcl Hcr).
      + exact (B_right_value Wm HWwf HWix HWsem y Hblk Hsem cs Hc).
  Qed.
End GroupInB.

(* the group in the first operand, any mode on either route *)
Theorem fuse_free_a :
  forall (G : Symmetry) (R : Ring), GroupLaws G -> OrderLaws G -> SumLaws R ->
  forall (a b : aarray G R) (aa ab g : list nat) (m1 m2 : tmode),
  wf_array G R a = true -> wf_array G R b = true ->
  axes_ok (ndim G R a) aa = true -> axes_ok (ndim G R b) ab = true -> legs_match G R a b aa ab ->
  2 <= length g -> NoDup g -> (forall ax, In ax g -> ax < ndim G R a /\ ~ In ax aa) ->
  let la := rest_axes (ndim G R a) aa in
  let rb := rest_axes (ndim G R b) ab in
  let W := tdot_blockwise G R a b la aa ab rb in
  let aa' := map (slot_pos (slots (ndim G R a) [g])) aa in
  let g' := map (fun ax => index_of ax la) g in
  let L := tdot_mode G R m1 (fuse_core G R a [g]) b aa' ab in
  let Rr := fuse_core G R (tdot_mode G R m2 a b aa ab) [g'] in
  let p := fuse_position [g'] in
  let perm := fuse_perm (ndim G R W) [g'] in
  exists UL UR,
    a_unfuse G R L p = Some UL /\ a_unfuse G R Rr p = Some UR /\
    charge G R L = charge G R Rr /\ ndim G R L = ndim G R Rr /\
    forall cs, coords_ok G (without_axes (indices G R a) aa ++ without_axes (indices G R b) ab) cs = true ->
      sem G R UL (permuted (ident G, 0) cs perm) = sem G R W cs /\
      sem G R UR (permuted (ident G, 0) cs perm) = sem G R W cs.
Proof.
  intros G R GL OL RL a b aa ab g m1 m2 Hwa Hwb Haa Hab Hlm Hgl Hgn Hgf. cbv zeta.
  destruct (tdot_mode_spec G R GL OL RL m1 (fuse_core G R a [g]) b (cxF (ndim G R a) aa g) ab
              (A'_wf G R GL OL a b aa ab g Hwa Hgl Hgn Hgf) Hwb (A'_axes G R a b aa ab g Haa Hgl Hgf) Hab
              (A'_legs_match G R a b aa ab g Haa Hlm Hgl Hgf)) as (Y1 & Y2 & Y3 & Y4).
  destruct (tdot_mode_spec G R GL OL RL m2 a b aa ab Hwa Hwb Haa Hab Hlm) as (W1 & W2 & W3 & W4).
  destruct (group_in_a_core G R GL OL RL a b aa ab g Hwa Hwb Haa Hab Hlm Hgl Hgn Hgf _ _ Y1 Y3 Y4 W1 W3 W4)
    as (UL & UR & H1 & H2 & H3 & H4).
  exists UL, UR. split; [exact H1|]. split; [exact H2|]. split; [|split; [exact H3|exact H4]].
  assert (Hc : forall x gs, charge G R (fuse_core G R x gs) = charge G R x) by reflexivity.
  unfold cxF in Y2. rewrite Y2, Hc, W2. unfold tdot_blockwise. cbn [charge]. now rewrite Hc.
Qed.

(* the group in the second operand, any mode on either route *)
Theorem fuse_free_b :
  forall (G : Symmetry) (R : Ring), GroupLaws G -> OrderLaws G -> SumLaws R ->
  forall (a b : aarray G R) (aa ab g : list nat) (m1 m2 : tmode),
  wf_array G R a = true -> wf_array G R b = true ->
  axes_ok (ndim G R a) aa = true -> axes_ok (ndim G R b) ab = true -> legs_match G R a b aa ab ->
  2 <= length g -> NoDup g -> (forall ax, In ax g -> ax < ndim G R b /\ ~ In ax ab) ->
  let la := rest_axes (ndim G R a) aa in
  let rb := rest_axes (ndim G R b) ab in
  let W := tdot_blockwise G R a b la aa ab rb in
  let ab' := map (slot_pos (slots (ndim G R b) [g])) ab in
  let g' := map (fun ax => length la + index_of ax rb) g in
  let L := tdot_mode G R m1 a (fuse_core G R b [g]) aa ab' in
  let Rr := fuse_core G R (tdot_mode G R m2 a b aa ab) [g'] in
  let p := fuse_position [g'] in
  let perm := fuse_perm (ndim G R W) [g'] in
  exists UL UR,
    a_unfuse G R L p = Some UL /\ a_unfuse G R Rr p = Some UR /\
    charge G R L = charge G R Rr /\ ndim G R L = ndim G R Rr /\
    forall cs, coords_ok G (without_axes (indices G R a) aa ++ without_axes (indices G R b) ab) cs = true ->
      sem G R UL (permuted (ident G, 0) cs perm) = sem G R W cs /\
      sem G R UR (permuted (ident G, 0) cs perm) = sem G R W cs.
Proof.
  intros G R GL OL RL a b aa ab g m1 m2 Hwa Hwb Haa Hab Hlm Hgl Hgn Hgf. cbv zeta.
  destruct (tdot_mode_spec G R GL OL RL m1 a (fuse_core G R b [g]) aa (cxF (ndim G R b) ab g)
              Hwa (B'_wf G R GL OL a b aa ab g Hwb Hgl Hgn Hgf) Haa (B'_axes G R a b aa ab g Hab Hgl Hgf)
              (B'_legs_match G R a b aa ab g Hab Hlm Hgl Hgf)) as (Y1 & Y2 & Y3 & Y4).
  destruct (tdot_mode_spec G R GL OL RL m2 a b aa ab Hwa Hwb Haa Hab Hlm) as (W1 & W2 & W3 & W4).
  destruct (group_in_b_core G R GL OL RL a b aa ab g Hwa Hwb Haa Hab Hlm Hgl Hgn Hgf _ _ Y1 Y3 Y4 W1 W3 W4)
    as (UL & UR & H1 & H2 & H3 & H4).
  exists UL, UR. split; [exact H1|]. split; [exact H2|]. split; [|split; [exact H3|exact H4]].
  assert (Hc : forall x gs, charge G R (fuse_core G R x gs) = charge G R x) by reflexivity.
  unfold cxF in Y2. rewrite Y2, Hc, W2. unfold tdot_blockwise. cbn [charge]. now rewrite Hc.
Qed.

(* the renumbered contracted axes point at the same legs, and the pre-fused leg stays fused:
   at the position of the group the result carries the fused index of a, pruned *)
Theorem renumbered_axes_a :
  forall (G : Symmetry) (R : Ring) (a : aarray G R) (aa g : list nat),
  axes_ok (ndim G R a) aa = true -> g <> [] -> (forall ax, In ax g -> ax < ndim G R a /\ ~ In ax aa) ->
  let aa' := map (slot_pos (slots (ndim G R a) [g])) aa in
  axes_ok (ndim G R (fuse_core G R a [g])) aa' = true /\
  take_axes (dflt_index G) (indices G R (fuse_core G R a [g])) aa' = take_axes (dflt_index G) (indices G R a) aa /\
  map (fun k => nth k (slots (ndim G R a) [g]) []) aa' = map (fun ax => [ax]) aa /\
  forall ax, In ax g -> nth (index_of ax (rest_axes (ndim G R a) aa)) (rest_axes (ndim G R a) aa) 0 = ax.
Proof.
  intros G R a aa g Haa Hne Hgf. cbv zeta. destruct (axes_ok_spec _ _ Haa) as [N1 N2].
  split; [exact (xf_axes_ok G R a aa g N1 N2 Hne Hgf)|]. split; [exact (xf_take_cx G R a aa g N2 Hne Hgf)|].
  split; [exact (cxF_nth (ndim G R a) aa g N2 Hne Hgf)|].
  intros ax Hax. apply nth_index_of. exact (g_in_fr (ndim G R a) aa g N2 Hgf ax Hax).
Qed.

Theorem prefused_leg_stays_fused_a :
  forall (G : Symmetry) (R : Ring), GroupLaws G -> OrderLaws G -> SumLaws R ->
  forall (a b : aarray G R) (aa ab g : list nat) (m1 : tmode),
  wf_array G R a = true -> wf_array G R b = true ->
  axes_ok (ndim G R a) aa = true -> axes_ok (ndim G R b) ab = true -> legs_match G R a b aa ab ->
  2 <= length g -> NoDup g -> (forall ax, In ax g -> ax < ndim G R a /\ ~ In ax aa) ->
  let aa' := map (slot_pos (slots (ndim G R a) [g])) aa in
  let g' := map (fun ax => index_of ax (rest_axes (ndim G R a) aa)) g in
  let L := tdot_mode G R m1 (fuse_core G R a [g]) b aa' ab in
  exists dropped,
    nth (fuse_position [g']) (indices G R L) (dflt_index G) =
    drop_charges G (fused_index G (indices G R a) (sectors G R a) g) dropped /\
    forall K T, In (K, T) (blocks G R L) -> ~ In (nth (fuse_position [g']) K (ident G)) dropped.
Proof.
  intros G R GL OL RL a b aa ab g m1 Hwa Hwb Haa Hab Hlm Hgl Hgn Hgf. cbv zeta.
  destruct (tdot_mode_spec G R GL OL RL m1 (fuse_core G R a [g]) b (cxF (ndim G R a) aa g) ab
              (A'_wf G R GL OL a b aa ab g Hwa Hgl Hgn Hgf) Hwb (A'_axes G R a b aa ab g Haa Hgl Hgf) Hab
              (A'_legs_match G R a b aa ab g Haa Hlm Hgl Hgf)) as (Y1 & Y2 & Y3 & Y4).
  assert (Hne : g <> []) by (intros E; rewrite E in Hgl; cbn in Hgl; lia).
  destruct (Y_g G R GL a b aa ab g Haa Hgl Hgn Hgf _ Y1 Y3 Hne) as (E1 & _ & _ & E4).
  exists (droppedA G R a b aa ab g).
  rewrite (gP_pos G R a b aa ab g Haa Hgl Hgn Hgf). split; [exact E1|exact E4].
Qed.

(* ------------------------------------------------------------------ *)
(* Part 4b: a group of ONE axis.  fuse_core x [[ax]] keeps every table and every
   value (it only rebuilds the blocks), so nothing has to be unfused. *)
Lemma slots_singlet n ax : ax < n -> slots n [[ax]] = map (fun k => [k]) (seq 0 n).
Proof.
  intros Hax. assert (Hne : [ax] <> []) by discriminate.
  rewrite (SL_eq n [ax] Hne).
  assert (Hpos : fuse_position [[ax]] = ax) by reflexivity. rewrite Hpos.
  assert (Haft : axes_after n [[ax]] = seq (S ax) (n - S ax)).
  { unfold axes_after. rewrite Hpos. replace (n - ax) with (S (n - S ax)) by lia. cbn [seq filter].
    rewrite group_of_single. cbn [mem]. rewrite Nat.eqb_refl. cbn [orb is_none].
    apply filter_all. intros k Hk. apply in_seq in Hk. rewrite group_of_single. cbn [mem].
    replace (Nat.eqb k ax) with false by (symmetry; apply Nat.eqb_neq; lia). reflexivity. }
  rewrite Haft.
  assert (E : seq 0 n = seq 0 ax ++ [ax] ++ seq (S ax) (n - S ax)).
  { replace n with (ax + S (n - S ax)) at 1 by lia. rewrite seq_app. cbn [seq Nat.add app]. reflexivity. }
  rewrite E, !map_app. reflexivity.
Qed.

Lemma slot_pos_singles l : NoDup l -> forall k, In k l -> slot_pos (map (fun k => [k]) l) k = index_of k l.
Proof.
  induction l as [|a l IH]; intros Hnd k Hk; [destruct Hk|]. inversion Hnd as [|? ? Hna Hnd']; subst.
  cbn [map slot_pos index_of mem]. rewrite Nat.eqb_sym. destruct (Nat.eqb a k) eqn:E; [reflexivity|].
  cbn [orb]. f_equal. apply IH; [exact Hnd'|]. destruct Hk as [->|Hk]; [rewrite Nat.eqb_refl in E; discriminate|exact Hk].
Qed.

Lemma index_of_seq0' n k : k < n -> index_of k (seq 0 n) = k.
Proof.
  assert (H : forall m s i, i < m -> index_of (s + i) (seq s m) = i).
  { induction m as [|m IH]; intros s i Hi; [lia|]. cbn [seq index_of]. destruct i as [|i].
    - now rewrite Nat.add_0_r, Nat.eqb_refl.
    - replace (Nat.eqb s (s + S i)) with false by (symmetry; apply Nat.eqb_neq; lia).
      f_equal. replace (s + S i) with (S s + i) by lia. apply IH. lia. }
  intros Hk. exact (H n 0 k Hk).
Qed.

Section SingletFuse.
  Context (G : Symmetry) (R : Ring) (GL : GroupLaws G) (OL : OrderLaws G).
  Context (x : aarray G R) (ax : nat).
  Context (Hwf : wf_array G R x = true) (Hax : ax < ndim G R x).
  Notation n := (ndim G R x).
  Notation dflt := (dflt_index G).
  Notation dc := (ident G, 0).
  Notation F := (fuse_core G R x [[ax]]).

  Lemma S1 : Forall (fun g0 : list nat => g0 <> []) [[ax]]. Proof. constructor; [discriminate|constructor]. Qed.
  Lemma S2 : NoDup (concat [[ax]]). Proof. cbn. constructor; [intros []|constructor]. Qed.
  Lemma S3 : Forall (fun k => k < length (indices G R x)) (concat [[ax]]).
  Proof. cbn. constructor; [exact Hax|constructor]. Qed.

  Lemma sing_indices : indices G R F = indices G R x.
  Proof.
    rewrite (xf_indices G R x [ax]), (slots_singlet n ax Hax), map_map.
    transitivity (take_axes dflt (indices G R x) (seq 0 (length (indices G R x)))); [reflexivity|apply take_seq].
  Qed.

  Lemma sing_wf : wf_array G R F = true.
  Proof. exact (proj2 (fuse_groups_wf G GL OL R x [[ax]] Hwf S1 S2 S3)). Qed.

  Lemma sing_charge : charge G R F = charge G R x.
  Proof. reflexivity. Qed.

  Lemma sing_sem (cs : list (coord G)) : coords_ok G (indices G R x) cs = true -> sem G R F cs = sem G R x cs.
  Proof.
    intros Hc. rewrite <- (fuse_core_sem G R GL OL x [[ax]] Hwf S1 S2 S3 cs Hc).
    - f_equal. rewrite fcoords_scoP. fold n. rewrite (slots_singlet n ax Hax), map_map.
      transitivity (take_axes dc cs (seq 0 n));
        [|unfold take_axes; apply map_ext; intros k; symmetry; apply (scoP_single_nth G R x)].
      assert (En : n = length cs) by (symmetry; exact (coords_ok_length G _ _ Hc)).
      rewrite En. symmetry. apply take_seq.
    - intros s Hs Es. fold n in Hs. rewrite (slots_singlet n ax Hax) in Hs. apply in_map_iff in Hs.
      destruct Hs as (k & <- & _). discriminate Es.
  Qed.

  Lemma sing_slot_pos (cx : list nat) : (forall i, In i cx -> i < n) -> map (slot_pos (slots n [[ax]])) cx = cx.
  Proof.
    intros H. rewrite (slots_singlet n ax Hax). rewrite <- (map_id cx) at 2. apply map_ext_in. intros k Hk.
    rewrite (slot_pos_singles (seq 0 n) (seq_NoDup n 0)) by (apply in_seq; specialize (H k Hk); lia).
    apply index_of_seq0'. now apply H.
  Qed.

  (* F agrees with x on the whole reference tables when x's tables are pruned reference tables *)
  Lemma sing_sem_ref (IX0 : list (index G)) S0 (cs : list (coord G)) :
    indices G R x = prune_indices G IX0 S0 -> coords_ok G IX0 cs = true -> sem G R F cs = sem G R x cs.
  Proof.
    intros Hix Hc. destruct (coords_ok G (indices G R x) cs) eqn:E; [now apply sing_sem|].
    rewrite (PY_sem_zero G R GL x IX0 S0 Hwf Hix cs Hc E).
    apply (PY_sem_zero G R GL F IX0 S0 sing_wf); [now rewrite sing_indices|exact Hc|now rewrite sing_indices].
  Qed.
End SingletFuse.

Theorem fuse_free_singlet_a :
  forall (G : Symmetry) (R : Ring), GroupLaws G -> OrderLaws G -> SumLaws R ->
  forall (a b : aarray G R) (aa ab : list nat) (ax : nat) (m1 m2 : tmode),
  wf_array G R a = true -> wf_array G R b = true ->
  axes_ok (ndim G R a) aa = true -> axes_ok (ndim G R b) ab = true -> legs_match G R a b aa ab ->
  ax < ndim G R a -> ~ In ax aa ->
  let la := rest_axes (ndim G R a) aa in
  let rb := rest_axes (ndim G R b) ab in
  let W := tdot_blockwise G R a b la aa ab rb in
  let aa' := map (slot_pos (slots (ndim G R a) [[ax]])) aa in
  let L := tdot_mode G R m1 (fuse_core G R a [[ax]]) b aa' ab in
  let Rr := fuse_core G R (tdot_mode G R m2 a b aa ab) [[index_of ax la]] in
  aa' = aa /\ charge G R L = charge G R Rr /\ indices G R Rr = indices G R W /\ ndim G R L = ndim G R Rr /\
  forall cs, coords_ok G (without_axes (indices G R a) aa ++ without_axes (indices G R b) ab) cs = true ->
    sem G R L cs = sem G R W cs /\ sem G R Rr cs = sem G R W cs.
Proof.
  intros G R GL OL RL a b aa ab ax m1 m2 Hwa Hwb Haa Hab Hlm Hax Hfree. cbv zeta.
  destruct (axes_ok_spec _ _ Haa) as [N1 N2]. destruct (axes_ok_spec _ _ Hab) as [N3 N4].
  assert (Haa' : map (slot_pos (slots (ndim G R a) [[ax]])) aa = aa) by exact (sing_slot_pos G R a ax Hax aa N2).
  rewrite Haa'.
  pose proof (sing_indices G R a ax Hax) as HFi. pose proof (sing_wf G R GL OL a ax Hwa Hax) as HFw.
  assert (HFn : ndim G R (fuse_core G R a [[ax]]) = ndim G R a) by (unfold ndim; now rewrite HFi).
  assert (HFlm : legs_match G R (fuse_core G R a [[ax]]) b aa ab).
  { destruct Hlm as (L1 & L2 & L3 & L4). split; [exact L1|]. split; [now rewrite HFn|]. split; [exact L3|].
    intros k Hk. unfold leg. rewrite HFi. exact (L4 k Hk). }
  assert (HFaa : axes_ok (ndim G R (fuse_core G R a [[ax]])) aa = true) by now rewrite HFn.
  destruct (tdot_mode_spec G R GL OL RL m1 _ b aa ab HFw Hwb HFaa Hab HFlm) as (Y1 & Y2 & Y3 & Y4).
  destruct (tdot_mode_spec G R GL OL RL m2 a b aa ab Hwa Hwb Haa Hab Hlm) as (W1 & W2 & W3 & W4).
  set (Wm := tdot_mode G R m2 a b aa ab) in *.
  set (W := tdot_blockwise G R a b (rest_axes (ndim G R a) aa) aa ab (rest_axes (ndim G R b) ab)) in *.
  assert (Hk : index_of ax (rest_axes (ndim G R a) aa) < ndim G R Wm).
  { unfold ndim. rewrite W3. unfold W. cbn [tdot_blockwise indices]. rewrite (length_prune_indices G), app_length.
    rewrite (without_axes_take (dflt_index G) (indices G R a)), length_take_axes.
    assert (Hin : In ax (rest_axes (ndim G R a) aa)).
    { unfold rest_axes. apply filter_In. split; [apply in_seq; lia|]. apply negb_true_iff. now apply nmem_false. }
    pose proof (index_of_lt ax _ Hin). unfold ndim in *. lia. }
  split; [reflexivity|].
  split; [rewrite Y2, (sing_charge G R Wm), W2; unfold tdot_blockwise; cbn [charge]; now rewrite (sing_charge G R a)|].
  split; [rewrite (sing_indices G R Wm _ Hk); exact W3|].
  split.
  - change (length (indices G R (tdot_mode G R m1 (fuse_core G R a [[ax]]) b aa ab)) =
            length (indices G R (fuse_core G R Wm [[index_of ax (rest_axes (ndim G R a) aa)]]))).
    rewrite (sing_indices G R Wm _ Hk), Y3, W3. unfold W. cbn [tdot_blockwise indices].
    rewrite !(length_prune_indices G), HFi. reflexivity.
  - intros cs Hc. split.
    + rewrite Y4.
      destruct (coords_ok_app_inv G (without_axes (indices G R a) aa) (without_axes (indices G R b) ab) cs Hc)
        as (Ecs & Hcl & Hcr). rewrite Ecs.
      assert (HW : sem G R W (firstn (length (without_axes (indices G R a) aa)) cs ++
                                skipn (length (without_axes (indices G R a) aa)) cs) = _)
        by (unfold W; apply (blockwise_sem_wf G R RL (ceqb_spec G GL) a b _ aa ab _ _ _);
            try assumption; try reflexivity; [apply OL|apply OL|exact (proj1 Hlm)]).
      rewrite HW. clear HW.
      rewrite (blockwise_sem_wf G R RL (ceqb_spec G GL) (fuse_core G R a [[ax]]) b _ aa ab _ _ _);
        try assumption; try reflexivity; [|apply OL|apply OL|exact (proj1 Hlm)|now rewrite HFi].
      rewrite HFi, HFn. apply rsum_ext. intros kc Hkc. f_equal.
      apply (sing_sem G R GL OL a ax Hwa Hax).
      apply (merge_facts G (indices G R a) aa _ kc N1 N2 Hcl).
      apply (all_coords_ok G _ kc (ceqb_spec G GL)); [|exact Hkc].
      apply Forall_forall. intros ix Hix. unfold take_axes in Hix. apply in_map_iff in Hix.
      destruct Hix as (k & <- & Hk'). apply (wf_index_nodup G); [apply OL|apply OL|].
      pose proof (wfx_ix G R GL a Hwa) as Hw. rewrite Forall_forall in Hw. apply Hw. apply nth_In. exact (N2 k Hk').
    + rewrite <- W4. apply (sing_sem_ref G R GL OL Wm _ W1 Hk (without_axes (indices G R a) aa ++ without_axes (indices G R b) ab)
               (sectors G R W) cs); [exact W3|exact Hc].
Qed.

Theorem fuse_free_singlet_b :
  forall (G : Symmetry) (R : Ring), GroupLaws G -> OrderLaws G -> SumLaws R ->
  forall (a b : aarray G R) (aa ab : list nat) (ax : nat) (m1 m2 : tmode),
  wf_array G R a = true -> wf_array G R b = true ->
  axes_ok (ndim G R a) aa = true -> axes_ok (ndim G R b) ab = true -> legs_match G R a b aa ab ->
  ax < ndim G R b -> ~ In ax ab ->
  let la := rest_axes (ndim G R a) aa in
  let rb := rest_axes (ndim G R b) ab in
  let W := tdot_blockwise G R a b la aa ab rb in
  let ab' := map (slot_pos (slots (ndim G R b) [[ax]])) ab in
  let L := tdot_mode G R m1 a (fuse_core G R b [[ax]]) aa ab' in
  let Rr := fuse_core G R (tdot_mode G R m2 a b aa ab) [[length la + index_of ax rb]] in
  ab' = ab /\ charge G R L = charge G R Rr /\ indices G R Rr = indices G R W /\ ndim G R L = ndim G R Rr /\
  forall cs, coords_ok G (without_axes (indices G R a) aa ++ without_axes (indices G R b) ab) cs = true ->
    sem G R L cs = sem G R W cs /\ sem G R Rr cs = sem G R W cs.
Proof.
  intros G R GL OL RL a b aa ab ax m1 m2 Hwa Hwb Haa Hab Hlm Hax Hfree. cbv zeta.
  destruct (axes_ok_spec _ _ Haa) as [N1 N2]. destruct (axes_ok_spec _ _ Hab) as [N3 N4].
  assert (Hab' : map (slot_pos (slots (ndim G R b) [[ax]])) ab = ab) by exact (sing_slot_pos G R b ax Hax ab N4).
  rewrite Hab'.
  pose proof (sing_indices G R b ax Hax) as HFi. pose proof (sing_wf G R GL OL b ax Hwb Hax) as HFw.
  assert (HFn : ndim G R (fuse_core G R b [[ax]]) = ndim G R b) by (unfold ndim; now rewrite HFi).
  assert (HFlm : legs_match G R a (fuse_core G R b [[ax]]) aa ab).
  { destruct Hlm as (L1 & L2 & L3 & L4). split; [exact L1|]. split; [exact L2|]. split; [now rewrite HFn|].
    intros k Hk. unfold leg. rewrite HFi. exact (L4 k Hk). }
  assert (HFab : axes_ok (ndim G R (fuse_core G R b [[ax]])) ab = true) by now rewrite HFn.
  destruct (tdot_mode_spec G R GL OL RL m1 a _ aa ab Hwa HFw Haa HFab HFlm) as (Y1 & Y2 & Y3 & Y4).
  destruct (tdot_mode_spec G R GL OL RL m2 a b aa ab Hwa Hwb Haa Hab Hlm) as (W1 & W2 & W3 & W4).
  set (Wm := tdot_mode G R m2 a b aa ab) in *.
  set (W := tdot_blockwise G R a b (rest_axes (ndim G R a) aa) aa ab (rest_axes (ndim G R b) ab)) in *.
  assert (Hk : length (rest_axes (ndim G R a) aa) + index_of ax (rest_axes (ndim G R b) ab) < ndim G R Wm).
  { unfold ndim. rewrite W3. unfold W. cbn [tdot_blockwise indices]. rewrite (length_prune_indices G), app_length.
    rewrite (without_axes_take (dflt_index G) (indices G R a)), (without_axes_take (dflt_index G) (indices G R b)),
      !length_take_axes.
    assert (Hin : In ax (rest_axes (ndim G R b) ab)).
    { unfold rest_axes. apply filter_In. split; [apply in_seq; lia|]. apply negb_true_iff. now apply nmem_false. }
    pose proof (index_of_lt ax _ Hin). unfold ndim in *. lia. }
  split; [reflexivity|].
  split; [rewrite Y2, (sing_charge G R Wm), W2; unfold tdot_blockwise; cbn [charge]; now rewrite (sing_charge G R b)|].
  split; [rewrite (sing_indices G R Wm _ Hk); exact W3|].
  split.
  - change (length (indices G R (tdot_mode G R m1 a (fuse_core G R b [[ax]]) aa ab)) =
            length (indices G R (fuse_core G R Wm
               [[length (rest_axes (ndim G R a) aa) + index_of ax (rest_axes (ndim G R b) ab)]]))).
    rewrite (sing_indices G R Wm _ Hk), Y3, W3. unfold W. cbn [tdot_blockwise indices].
    rewrite !(length_prune_indices G), HFi. reflexivity.
  - intros cs Hc. split.
    + rewrite Y4.
      destruct (coords_ok_app_inv G (without_axes (indices G R a) aa) (without_axes (indices G R b) ab) cs Hc)
        as (Ecs & Hcl & Hcr). rewrite Ecs.
      assert (HW : sem G R W (firstn (length (without_axes (indices G R a) aa)) cs ++
                                skipn (length (without_axes (indices G R a) aa)) cs) = _)
        by (unfold W; apply (blockwise_sem_wf G R RL (ceqb_spec G GL) a b _ aa ab _ _ _);
            try assumption; try reflexivity; [apply OL|apply OL|exact (proj1 Hlm)]).
      rewrite HW. clear HW.
      rewrite (blockwise_sem_wf G R RL (ceqb_spec G GL) a (fuse_core G R b [[ax]]) _ aa ab _ _ _);
        try assumption; try reflexivity; [|apply OL|apply OL|exact (proj1 Hlm)|now rewrite HFi].
      rewrite HFn. apply rsum_ext. intros kc Hkc. f_equal.
      apply (sing_sem G R GL OL b ax Hwb Hax).
      apply (merge_facts G (indices G R b) ab _ kc N3 N4 Hcr).
      apply (all_coords_ok G _ kc (ceqb_spec G GL)).
      * apply Forall_forall. intros ix Hix. unfold take_axes in Hix. apply in_map_iff in Hix.
        destruct Hix as (k & <- & Hk'). apply (wf_index_nodup G); [apply OL|apply OL|].
        pose proof (wfx_ix G R GL b Hwb) as Hw. rewrite Forall_forall in Hw. apply Hw. apply nth_In. exact (N4 k Hk').
      * rewrite <- (B_all_coords G R a b aa ab Hlm). exact Hkc.
    + rewrite <- W4. apply (sing_sem_ref G R GL OL Wm _ W1 Hk (without_axes (indices G R a) aa ++ without_axes (indices G R b) ab)
               (sectors G R W) cs); [exact W3|exact Hc].
Qed.

(* ------------------------------------------------------------------ *)
(* Part 5: the same through the public front ends a_fuse / a_tensordot2 *)
Theorem fuse_free_a_public :
  forall (G : Symmetry) (R : Ring), GroupLaws G -> OrderLaws G -> SumLaws R ->
  forall (a b : aarray G R) (aa ab g : list nat) (m1 m2 : tmode),
  wf_array G R a = true -> wf_array G R b = true ->
  axes_ok (ndim G R a) aa = true -> axes_ok (ndim G R b) ab = true -> legs_match G R a b aa ab ->
  2 <= length g -> NoDup g -> (forall ax, In ax g -> ax < ndim G R a /\ ~ In ax aa) ->
  let la := rest_axes (ndim G R a) aa in
  let rb := rest_axes (ndim G R b) ab in
  let W := tdot_blockwise G R a b la aa ab rb in
  let aa' := map (slot_pos (slots (ndim G R a) [g])) aa in
  let g' := map (fun ax => index_of ax la) g in
  let p := fuse_position [g'] in
  let perm := fuse_perm (ndim G R W) [g'] in
  exists L Wm UL UR,
    a_tensordot2 G R (a_fuse G R a [g]) b (inr (map Z.of_nat aa', map Z.of_nat ab)) m1 = Some L /\
    a_tensordot2 G R a b (inr (map Z.of_nat aa, map Z.of_nat ab)) m2 = Some Wm /\
    a_unfuse G R L p = Some UL /\ a_unfuse G R (a_fuse G R Wm [g']) p = Some UR /\
    charge G R L = charge G R (a_fuse G R Wm [g']) /\ ndim G R L = ndim G R (a_fuse G R Wm [g']) /\
    forall cs, coords_ok G (without_axes (indices G R a) aa ++ without_axes (indices G R b) ab) cs = true ->
      sem G R UL (permuted (ident G, 0) cs perm) = sem G R W cs /\
      sem G R UR (permuted (ident G, 0) cs perm) = sem G R W cs.
Proof.
  intros G R GL OL RL a b aa ab g m1 m2 Hwa Hwb Haa Hab Hlm Hgl Hgn Hgf. cbv zeta.
  destruct (fuse_free_a G R GL OL RL a b aa ab g m1 m2 Hwa Hwb Haa Hab Hlm Hgl Hgn Hgf)
    as (UL & UR & H1 & H2 & H3 & H4 & H5).
  assert (Hne : g <> []) by (intros E; rewrite E in Hgl; cbn in Hgl; lia).
  assert (Hne' : map (fun ax => index_of ax (rest_axes (ndim G R a) aa)) g <> [])
    by (intros E; apply Hne; destruct g; [reflexivity|discriminate]).
  rewrite (a_fuse_single G R a g Hne).
  pose proof (A'_axes G R a b aa ab g Haa Hgl Hgf) as HaxF. apply axes_ok_spec in HaxF.
  destruct (axes_ok_spec _ _ Haa) as [_ N2]. destruct (axes_ok_spec _ _ Hab) as [_ N4].
  assert (Hlen : length aa = length ab) by apply Hlm.
  eexists. eexists. exists UL, UR.
  split; [apply tensordot2_nat; [now rewrite map_length|exact (proj2 HaxF)|exact N4]|].
  split; [apply tensordot2_nat; assumption|].
  rewrite (a_fuse_single G R _ _ Hne'). repeat split; try assumption; apply H5; assumption.
Qed.

Theorem fuse_free_b_public :
  forall (G : Symmetry) (R : Ring), GroupLaws G -> OrderLaws G -> SumLaws R ->
  forall (a b : aarray G R) (aa ab g : list nat) (m1 m2 : tmode),
  wf_array G R a = true -> wf_array G R b = true ->
  axes_ok (ndim G R a) aa = true -> axes_ok (ndim G R b) ab = true -> legs_match G R a b aa ab ->
  2 <= length g -> NoDup g -> (forall ax, In ax g -> ax < ndim G R b /\ ~ In ax ab) ->
  let la := rest_axes (ndim G R a) aa in
  let rb := rest_axes (ndim G R b) ab in
  let W := tdot_blockwise G R a b la aa ab rb in
  let ab' := map (slot_pos (slots (ndim G R b) [g])) ab in
  let g' := map (fun ax => length la + index_of ax rb) g in
  let p := fuse_position [g'] in
  let perm := fuse_perm (ndim G R W) [g'] in
  exists L Wm UL UR,
    a_tensordot2 G R a (a_fuse G R b [g]) (inr (map Z.of_nat aa, map Z.of_nat ab')) m1 = Some L /\
    a_tensordot2 G R a b (inr (map Z.of_nat aa, map Z.of_nat ab)) m2 = Some Wm /\
    a_unfuse G R L p = Some UL /\ a_unfuse G R (a_fuse G R Wm [g']) p = Some UR /\
    charge G R L = charge G R (a_fuse G R Wm [g']) /\ ndim G R L = ndim G R (a_fuse G R Wm [g']) /\
    forall cs, coords_ok G (without_axes (indices G R a) aa ++ without_axes (indices G R b) ab) cs = true ->
      sem G R UL (permuted (ident G, 0) cs perm) = sem G R W cs /\
      sem G R UR (permuted (ident G, 0) cs perm) = sem G R W cs.
Proof.
  intros G R GL OL RL a b aa ab g m1 m2 Hwa Hwb Haa Hab Hlm Hgl Hgn Hgf. cbv zeta.
  destruct (fuse_free_b G R GL OL RL a b aa ab g m1 m2 Hwa Hwb Haa Hab Hlm Hgl Hgn Hgf)
    as (UL & UR & H1 & H2 & H3 & H4 & H5).
  assert (Hne : g <> []) by (intros E; rewrite E in Hgl; cbn in Hgl; lia).
  assert (Hne' : map (fun ax => length (rest_axes (ndim G R a) aa) + index_of ax (rest_axes (ndim G R b) ab)) g <> [])
    by (intros E; apply Hne; destruct g; [reflexivity|discriminate]).
  rewrite (a_fuse_single G R b g Hne).
  pose proof (B'_axes G R a b aa ab g Hab Hgl Hgf) as HaxF. apply axes_ok_spec in HaxF.
  destruct (axes_ok_spec _ _ Haa) as [_ N2]. destruct (axes_ok_spec _ _ Hab) as [_ N4].
  assert (Hlen : length aa = length ab) by apply Hlm.
  eexists. eexists. exists UL, UR.
  split; [apply tensordot2_nat; [now rewrite map_length|exact N2|exact (proj2 HaxF)]|].
  split; [apply tensordot2_nat; assumption|].
  rewrite (a_fuse_single G R _ _ Hne'). repeat split; try assumption; apply H5; assumption.
Qed.

(* ------------------------------------------------------------------ *)
(* Part 6: examples (vm_compute on sparse U1 operands) *)
Module ExC06c.
  (* a : legs (i+, j-, k+), charge 0, five valid sectors, (0,2,2) NOT stored;
     b : legs (k-, r+), its stored sectors use the k-charges 1 and 2 only, a's use 0 and 1:
     only k = 1 survives the contraction.  The group g = [1; 0] fuses the two free legs
     of a (different directions, listed against the axis order). *)
  Definition a3 : aarray U1 ZRing :=
    mkA U1 ZRing
      [Index U1 [(0%Z, 1); (1%Z, 2)] false None;
       Index U1 [(0%Z, 2); (1%Z, 1); (2%Z, 1)] true None;
       Index U1 [(0%Z, 1); (1%Z, 2); (2%Z, 1)] false None]
      0%Z
      [([0; 0; 0]%Z, zt [1; 2; 1] [1; 2]%Z);
       ([0; 1; 1]%Z, zt [1; 1; 2] [3; 4]%Z);
       ([1; 1; 0]%Z, zt [2; 1; 1] [5; 6]%Z);
       ([1; 2; 1]%Z, zt [2; 1; 2] [7; 8; 9; 10]%Z)].
  Definition b2 : aarray U1 ZRing :=
    mkA U1 ZRing
      [Index U1 [(0%Z, 1); (1%Z, 2); (2%Z, 1)] true None;
       Index U1 [(1%Z, 2); (2%Z, 1)] false None]
      0%Z
      [([1; 1]%Z, zt [2; 2] [1; 2; 3; 4]%Z);
       ([2; 2]%Z, zt [1; 1] [5]%Z)].

  Definition hyps (a b : aarray U1 ZRing) (aa ab : list nat) : Prop :=
    wf_array U1 ZRing a = true /\ wf_array U1 ZRing b = true /\
    axes_ok (ndim U1 ZRing a) aa = true /\ axes_ok (ndim U1 ZRing b) ab = true /\
    legs_match U1 ZRing a b aa ab.
  Definition free_group (n : nat) (cx g : list nat) : Prop :=
    2 <= length g /\ NoDup g /\ forall ax, In ax g -> ax < n /\ ~ In ax cx.

  Example a3b2_hyps : hyps a3 b2 [2] [0] /\ free_group 3 [2] [1; 0].
  Proof.
    split.
    - split; [vm_compute; reflexivity|]. split; [vm_compute; reflexivity|].
      split; [reflexivity|]. split; [reflexivity|].
      split; [reflexivity|]. split; [repeat constructor|]. split; [repeat constructor|].
      intros [|k] Hk; [split; reflexivity | cbn in Hk; lia].
    - split; [cbn; lia|]. split.
      + constructor; [intros [H|[]]; discriminate|]. constructor; [intros []|constructor].
      + intros ax [<-|[<-|[]]]; (split; [lia|intros [H|[]]; discriminate]).
  Qed.

  (* both routes, any modes, unfused and compared with the plain contraction at every coordinate of
     the operands' free tables (inA: the group is in the first operand; cx' = renumbered contracted
     axes of the fused operand; g' = the group's positions in the product) *)
  Definition routes_agree (a b : aarray U1 ZRing) (aa ab g cx' g' : list nat) (inA : bool) (m1 m2 : tmode) : bool :=
    let la := rest_axes (ndim U1 ZRing a) aa in
    let rb := rest_axes (ndim U1 ZRing b) ab in
    let W := tdot_blockwise U1 ZRing a b la aa ab rb in
    let L := if inA then tdot_mode U1 ZRing m1 (fuse_core U1 ZRing a [g]) b cx' ab
             else tdot_mode U1 ZRing m1 a (fuse_core U1 ZRing b [g]) aa cx' in
    let Rr := fuse_core U1 ZRing (tdot_mode U1 ZRing m2 a b aa ab) [g'] in
    let p := fuse_position [g'] in
    let perm := fuse_perm (ndim U1 ZRing W) [g'] in
    match a_unfuse U1 ZRing L p, a_unfuse U1 ZRing Rr p with
    | Some UL, Some UR =>
        forallb (fun cs => Z.eqb (sem U1 ZRing UL (permuted (0%Z, 0) cs perm)) (sem U1 ZRing W cs) &&
                           Z.eqb (sem U1 ZRing UR (permuted (0%Z, 0) cs perm)) (sem U1 ZRing W cs))
                (all_coords U1 (without_axes (indices U1 ZRing a) aa ++ without_axes (indices U1 ZRing b) ab))
    | _, _ => false
    end.

  Example a3b2_values :
    map (slot_pos (slots 3 [[1; 0]])) [2] = [1] /\ map (fun ax => index_of ax [0; 1]) [1; 0] = [1; 0] /\
    routes_agree a3 b2 [2] [0] [1; 0] [1] [1; 0] true MBlockwise MBlockwise = true /\
    routes_agree a3 b2 [2] [0] [1; 0] [1] [1; 0] true MFused MFused = true /\
    routes_agree a3 b2 [2] [0] [1; 0] [1] [1; 0] true MAuto MBlockwise = true /\
    (* the plain contraction is not zero: six non-zero entries among the 36 coordinates *)
    filter (fun v => negb (Z.eqb v 0))
      (map (sem U1 ZRing (tdot_blockwise U1 ZRing a3 b2 [0; 1] [2] [0] [1]))
           (all_coords U1 (without_axes (indices U1 ZRing a3) [2] ++ without_axes (indices U1 ZRing b2) [0])))
      = [15; 22; 31; 46; 39; 58]%Z.
  Proof. repeat split; vm_compute; reflexivity. Qed.

  (* the two fused results themselves are different arrays: the fused leg of the left route keeps
     the sub-index table built from a (first sub-leg with charges 0 1 2), the right route builds it
     from the product (charge 0 of that sub-leg pruned) *)
  Example a3b2_tables_differ :
    let L := tdot_blockwise U1 ZRing (fuse_core U1 ZRing a3 [[1; 0]]) b2 [0] [1] [0] [1] in
    let Rr := fuse_core U1 ZRing (tdot_blockwise U1 ZRing a3 b2 [0; 1] [2] [0] [1]) [[1; 0]] in
    aarray_eqb U1 ZRing L Rr = false /\ blocks_eqb U1 ZRing (blocks U1 ZRing L) (blocks U1 ZRing Rr) = true.
  Proof. split; vm_compute; reflexivity. Qed.

  (* a4 : legs (i+, j-, k1+, k2+); the fused charge 0 of (i, j) has the sub-sectors (0,0) and (1,1);
     only (1,1) survives the contraction with b4, so the SAME entry sits at offset 1 of the fused
     charge 0 on the left route and at offset 0 on the right route: the fused results cannot be
     compared coordinate by coordinate before unfusing *)
  Definition a4 : aarray U1 ZRing :=
    mkA U1 ZRing
      [Index U1 [(0%Z, 1); (1%Z, 1)] false None; Index U1 [(0%Z, 1); (1%Z, 1)] true None;
       Index U1 [(0%Z, 1); (1%Z, 1)] false None; Index U1 [((-1)%Z, 1); (0%Z, 1)] false None]
      0%Z
      [([0; 0; 0; 0]%Z, zt [1; 1; 1; 1] [2]%Z);
       ([0; 1; 1; 0]%Z, zt [1; 1; 1; 1] [5]%Z);
       ([1; 1; 1; -1]%Z, zt [1; 1; 1; 1] [3]%Z)].
  Definition b4 : aarray U1 ZRing :=
    mkA U1 ZRing
      [Index U1 [(0%Z, 1); (1%Z, 1)] true None; Index U1 [((-1)%Z, 1); (0%Z, 1)] true None;
       Index U1 [(0%Z, 2)] false None]
      0%Z
      [([1; -1; 0]%Z, zt [1; 1; 2] [7; 11]%Z)].

  Example a4b4_hyps : hyps a4 b4 [2; 3] [0; 1] /\ free_group 4 [2; 3] [0; 1].
  Proof.
    split.
    - split; [vm_compute; reflexivity|]. split; [vm_compute; reflexivity|].
      split; [reflexivity|]. split; [reflexivity|].
      split; [reflexivity|]. split; [repeat constructor|]. split; [repeat constructor|].
      intros [|[|k]] Hk; [split; reflexivity | split; reflexivity | cbn in Hk; lia].
    - split; [cbn; lia|]. split.
      + constructor; [intros [H|[]]; discriminate|]. constructor; [intros []|constructor].
      + intros ax [<-|[<-|[]]]; (split; [lia|intros [H|[H|[]]]; discriminate]).
  Qed.

  Example a4b4_values :
    let L := tdot_blockwise U1 ZRing (fuse_core U1 ZRing a4 [[0; 1]]) b4 [0] [1; 2] [0; 1] [2] in
    let Rr := fuse_core U1 ZRing (tdot_blockwise U1 ZRing a4 b4 [0; 1] [2; 3] [0; 1] [2]) [[0; 1]] in
    map (slot_pos (slots 4 [[0; 1]])) [2; 3] = [1; 2] /\
    routes_agree a4 b4 [2; 3] [0; 1] [0; 1] [1; 2] [0; 1] true MBlockwise MBlockwise = true /\
    routes_agree a4 b4 [2; 3] [0; 1] [0; 1] [1; 2] [0; 1] true MFused MBlockwise = true /\
    sem U1 ZRing L [(0%Z, 1); (0%Z, 0)] = 21%Z /\ sem U1 ZRing Rr [(0%Z, 0); (0%Z, 0)] = 21%Z /\
    sem U1 ZRing L [(0%Z, 0); (0%Z, 0)] = 0%Z /\
    size_of U1 (nth 0 (indices U1 ZRing L) (dflt_index U1)) 0%Z = 2 /\
    size_of U1 (nth 0 (indices U1 ZRing Rr) (dflt_index U1)) 0%Z = 1.
  Proof. repeat split; vm_compute; reflexivity. Qed.

  (* the group in the second operand: bt = b2 with its legs exchanged (r+, k-), at3 = a3 with the
     contracted leg first (k+, i+, j-); the group [2; 1] of at3 is fused *)
  Definition bt : aarray U1 ZRing := a_transpose U1 ZRing b2 [1; 0].
  Definition at3 : aarray U1 ZRing := a_transpose U1 ZRing a3 [2; 0; 1].

  Example btat3_hyps : hyps bt at3 [1] [0] /\ free_group 3 [0] [2; 1].
  Proof.
    split.
    - split; [vm_compute; reflexivity|]. split; [vm_compute; reflexivity|].
      split; [reflexivity|]. split; [reflexivity|].
      split; [reflexivity|]. split; [repeat constructor|]. split; [repeat constructor|].
      intros [|k] Hk; [split; reflexivity | cbn in Hk; lia].
    - split; [cbn; lia|]. split.
      + constructor; [intros [H|[]]; discriminate|]. constructor; [intros []|constructor].
      + intros ax [<-|[<-|[]]]; (split; [lia|intros [H|[]]; discriminate]).
  Qed.

  Example btat3_values :
    map (slot_pos (slots 3 [[2; 1]])) [0] = [0] /\ map (fun ax => 1 + index_of ax [1; 2]) [2; 1] = [2; 1] /\
    routes_agree bt at3 [1] [0] [2; 1] [0] [2; 1] false MBlockwise MBlockwise = true /\
    routes_agree bt at3 [1] [0] [2; 1] [0] [2; 1] false MFused MAuto = true /\
    filter (fun v => negb (Z.eqb v 0))
      (map (sem U1 ZRing (tdot_blockwise U1 ZRing bt at3 [0] [1] [0] [1; 2]))
           (all_coords U1 (without_axes (indices U1 ZRing bt) [1] ++ without_axes (indices U1 ZRing at3) [0])))
      = [15; 31; 39; 22; 46; 58]%Z.
  Proof. repeat split; vm_compute; reflexivity. Qed.

  (* the theorems apply to the instances *)
  Example theorems_apply :
    (exists UL UR,
       a_unfuse U1 ZRing (tdot_mode U1 ZRing MFused (fuse_core U1 ZRing a3 [[1; 0]]) b2 [1] [0]) 0 = Some UL /\
       a_unfuse U1 ZRing (fuse_core U1 ZRing (tdot_mode U1 ZRing MBlockwise a3 b2 [2] [0]) [[1; 0]]) 0 = Some UR /\
       forall cs, coords_ok U1 (without_axes (indices U1 ZRing a3) [2] ++ without_axes (indices U1 ZRing b2) [0]) cs = true ->
         sem U1 ZRing UL (permuted (0%Z, 0) cs [1; 0; 2]) = sem U1 ZRing UR (permuted (0%Z, 0) cs [1; 0; 2])) /\
    (exists UL UR,
       a_unfuse U1 ZRing (tdot_mode U1 ZRing MAuto bt (fuse_core U1 ZRing at3 [[2; 1]]) [1] [0]) 1 = Some UL /\
       a_unfuse U1 ZRing (fuse_core U1 ZRing (tdot_mode U1 ZRing MFused bt at3 [1] [0]) [[2; 1]]) 1 = Some UR /\
       forall cs, coords_ok U1 (without_axes (indices U1 ZRing bt) [1] ++ without_axes (indices U1 ZRing at3) [0]) cs = true ->
         sem U1 ZRing UL (permuted (0%Z, 0) cs [0; 2; 1]) = sem U1 ZRing UR (permuted (0%Z, 0) cs [0; 2; 1])).
  Proof.
    split.
    - destruct a3b2_hyps as ((H1 & H2 & H3 & H4 & H5) & (G1 & G2 & G3)).
      destruct (fuse_free_a U1 ZRing U1_laws U1_order ZRing_sum_laws a3 b2 [2] [0] [1; 0] MFused MBlockwise
                  H1 H2 H3 H4 H5 G1 G2 G3) as (UL & UR & E1 & E2 & _ & _ & Hs).
      exists UL, UR. split; [exact E1|]. split; [exact E2|]. intros cs Hc.
      destruct (Hs cs Hc) as [A1 A2]. etransitivity; [exact A1|symmetry; exact A2].
    - destruct btat3_hyps as ((H1 & H2 & H3 & H4 & H5) & (G1 & G2 & G3)).
      destruct (fuse_free_b U1 ZRing U1_laws U1_order ZRing_sum_laws bt at3 [1] [0] [2; 1] MAuto MFused
                  H1 H2 H3 H4 H5 G1 G2 G3) as (UL & UR & E1 & E2 & _ & _ & Hs).
      exists UL, UR. split; [exact E1|]. split; [exact E2|]. intros cs Hc.
      destruct (Hs cs Hc) as [A1 A2]. etransitivity; [exact A1|symmetry; exact A2].
  Qed.
End ExC06c.

(* the fermionic statement (Props/C06c.v, C06_fermi_fuse_free_commutes_full, not proved) evaluated on
   odd-parity Z2 operands with pending signs and odd-position labels: after f_unfuse both routes have
   the value of the fermionic transpose (by fuse_perm) of the plain contraction, and the same labels *)
Module ExC06cF.
  Import FermiProofs.Ex.
  Definition fagree (a b : farray Z2 ZRing) (aa ab g cx' g' : list nat) (inA : bool) (m1 m2 : tmode) : bool :=
    let A := fbase Z2 ZRing a in
    let B := fbase Z2 ZRing b in
    let zz := map Z.of_nat in
    let L := if inA then f_tensordot2 Z2 ZRing (f_fuse Z2 ZRing a [g]) b (inr (zz cx', zz ab)) m1
             else f_tensordot2 Z2 ZRing a (f_fuse Z2 ZRing b [g]) (inr (zz aa, zz cx')) m1 in
    match L, f_tensordot2 Z2 ZRing a b (inr (zz aa, zz ab)) m2 with
    | Some L, Some Wm =>
      let Rr := f_fuse Z2 ZRing Wm [g'] in
      let p := fuse_position [g'] in
      let perm := fuse_perm (ndim Z2 ZRing (fbase Z2 ZRing Wm)) [g'] in
      let Wt := f_transpose Z2 ZRing Wm perm true in
      match f_unfuse Z2 ZRing L p, f_unfuse Z2 ZRing Rr p with
      | Some UL, Some UR =>
          forallb (fun cs => Z.eqb (sem Z2 ZRing (f_value Z2 ZRing UL) cs) (sem Z2 ZRing (f_value Z2 ZRing Wt) cs) &&
                             Z.eqb (sem Z2 ZRing (f_value Z2 ZRing UR) cs) (sem Z2 ZRing (f_value Z2 ZRing Wt) cs))
                  (all_coords Z2 (permuted (dflt_index Z2)
                     (without_axes (indices Z2 ZRing A) aa ++ without_axes (indices Z2 ZRing B) ab) perm))
          && list_eqb (pair_eqb (list_eqb Z.eqb) Bool.eqb) (foddpos Z2 ZRing UL) (foddpos Z2 ZRing UR)
      | _, _ => false
      end
    | _, _ => false
    end.

  Example fermi_routes_agree :
    wf_fermi Z2 ZRing xA = true /\ wf_fermi Z2 ZRing xB = true /\
    fagree xA xB [2] [0] [0; 1] [1] [0; 1] true MBlockwise MBlockwise = true /\
    fagree xA xB [2] [0] [1; 0] [1] [1; 0] true MFused MBlockwise = true /\
    fagree xA xB [2] [0] [1; 2] (map (slot_pos (slots 3 [[1; 2]])) [0]) (map (fun ax => 2 + index_of ax [1; 2]) [1; 2])
           false MBlockwise MFused = true /\
    fagree xA xB [2] [0] [2; 1] (map (slot_pos (slots 3 [[2; 1]])) [0]) (map (fun ax => 2 + index_of ax [1; 2]) [2; 1])
           false MFused MFused = true.
  Proof. repeat split; vm_compute; reflexivity. Qed.
End ExC06cF.
