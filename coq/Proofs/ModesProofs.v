(* Proofs/ModesProofs.v — properties C03 / C04, continuation: every contraction
   MODE (auto / fused / blockwise) of the fermionic tensordot has the same
   values and labels.

   part 1   `Array.tdot_fused` (the library before the repair: every leg of the
            product of the fused pair that carries sub-index information is
            unfused) against `Fused.tdot_fused2` (only the legs fused by the
            routine are unfused): both are the same blockwise product of the
            fused pair followed by `unfuse_or_keep` at EVERY axis / at the axes
            of the groups with two or more members; they coincide when a free
            group with one member is not itself a fused leg.  Hence
            a_tensordot = a_tensordot2 and f_tensordot = f_tensordot2 there.
   part 2   the repaired routine returns valid arrays (tdot_fused2_wf); the sign
            formula for the current-code front end f_tensordot2; the two sign-
            adjusted operands are a valid contractible pair with matching legs;
            modes_agree: every mode of f_tensordot2 has the labels, charge, tables
            of the blockwise result and the same value at every coordinate list
            (C06 applied to the operands); the element theorem of C03 in all three
            modes, for f_tensordot2 and (un-fused free legs) for f_tensordot.
   part 3   observational equality (same tables, same value everywhere; stored
            all-zero blocks may differ) is preserved by the fermionic transpose;
            the route theorems of C04b (operand exchange, axis listing, transposed
            first / second operand) with any modes; associativity with any modes on
            the second-stage contractions (partial).
   part 4   one contraction over two pairs = contraction over one pair followed by
            the fermionic einsum trace of the other: statement, the label part,
            computed instances.
   examples Z2 instances; the counterexample to the element statement of
            Props/C03.v for a free leg that is a fused leg (old routine). *)
From SV Require Import Base.Prelude Base.Sym Base.Tensor Gen.PhasePerm Gen.OpOrder Model.SymInst Model.Sectors
  Model.Array Model.Arith Model.Fermi Model.Fused Model.Graded Model.Oddpos Model.Wf
  Proofs.SymLaws Proofs.GroupFacts Proofs.GradedProofs Proofs.OddposProofs Proofs.Tdot Proofs.StructProofs
  Proofs.SectorsProofs Proofs.OrderProofs Proofs.WfProofs Proofs.WfProofs2 Proofs.FermiProofs Proofs.FuseTensor Proofs.FuseProofs
  Proofs.FusedProofs Proofs.FusedSem Proofs.FusedSemOuter Proofs.RouteProofs.
From Coq Require Import Permutation Sorted.
Local Open Scope nat_scope.

(* ================================================================ part 1 *)
Section OldNew.
  Context (G : Symmetry) (R : Ring).
  Notation sector := (list (C G)).
  Notation arr := (aarray G R).
  Notation ix_d := (dflt_index G).
  Notation nonnil := (fun g : list nat => negb (is_nil g)).

  Lemma isub_drop_charges (ix : index G) cs : is_none (isub G (drop_charges G ix cs)) = is_none (isub G ix).
  Proof. destruct ix as [cm d [[subs ext]|]]; reflexivity. Qed.

  Lemma isub_prune1 (ix : index G) P : is_none (isub G (prune1 G ix P)) = is_none (isub G ix).
  Proof. apply isub_drop_charges. Qed.

  Lemma unfuse_or_keep_none (x : arr) ax :
    is_none (isub G (nth ax (indices G R x) ix_d)) = true -> unfuse_or_keep G R x ax = x.
  Proof.
    unfold unfuse_or_keep, a_unfuse. destruct (isub G (nth ax (indices G R x) ix_d)) as [[subs ext]|]; [discriminate|reflexivity].
  Qed.

  (* the old post-processing: `unfuse_or_keep` at every axis, last axis first *)
  Lemma unfuse_all_go_fold axes : forall x : arr,
    unfuse_all_go G R axes x = fold_left (unfuse_or_keep G R) axes x.
  Proof.
    induction axes as [|ax r IH]; intros x; cbn [unfuse_all_go fold_left]; [reflexivity|].
    unfold unfuse_or_keep at 2. unfold a_unfuse.
    destruct (isub G (nth ax (indices G R x) ix_d)) as [[subs ext]|]; apply IH.
  Qed.

  Theorem unfuse_all_is_every_axis (x : arr) :
    a_unfuse_all G R x = fold_left (unfuse_or_keep G R) (rev (seq 0 (ndim G R x))) x.
  Proof. apply unfuse_all_go_fold. Qed.

  (* the product of the fused pair, common to both routines *)
  Definition fused_product (a1 b1 : arr) (la aa ab rb : list nat) : arr :=
    let af := a_fuse_noexpand G R a1 [la; aa] in
    let bf := a_fuse_noexpand G R b1 [ab; rb] in
    let la' := if is_nil la then [] else [0] in
    let aa' := if is_nil aa then [] else if is_nil la then [0] else [1] in
    let ab' := if is_nil ab then [] else [0] in
    let rb' := if is_nil rb then [] else if is_nil ab then [0] else [1] in
    tdot_blockwise G R af bf la' aa' ab' rb'.

  (* GENERAL RELATION.  Both routines align the operands, return the same empty
     record when nothing is left, and otherwise post-process the same product:
     the old one unfuses at every axis, the repaired one at the axes of the
     groups with at least two members. *)
  Theorem tdot_fused_general (a b : arr) (la aa ab rb : list nat) :
    let a1 := al_a G R a b aa ab in
    let b1 := al_b G R a b aa ab in
    let empty := mkA G R (without_axes (indices G R a1) aa ++ without_axes (indices G R b1) ab)
                     (combine G [charge G R a; charge G R b]) [] in
    let c := fused_product a1 b1 la aa ab rb in
    tdot_fused G R a b la aa ab rb
    = (if is_nil (blocks G R a1) || is_nil (blocks G R b1) then empty
       else fold_left (unfuse_or_keep G R) (rev (seq 0 (ndim G R c))) c) /\
    tdot_fused2 G R a b la aa ab rb
    = (if is_nil (blocks G R a1) || is_nil (blocks G R b1) then empty
       else let c1 := if Nat.ltb 1 (length rb) then unfuse_or_keep G R c (ndim G R c - 1) else c in
            if Nat.ltb 1 (length la) then unfuse_or_keep G R c1 0 else c1).
  Proof.
    cbv zeta. split.
    - unfold tdot_fused. rewrite (drop_misaligned_pair G R a b aa ab).
      destruct (is_nil _ || is_nil _); [reflexivity|]. cbv zeta. apply unfuse_all_is_every_axis.
    - reflexivity.
  Qed.

  (* ---- the index tables of the product ---- *)
  Lemma fuse_two_indices (x : arr) (g1 g2 : list nat) :
    Permutation (g1 ++ g2) (seq 0 (ndim G R x)) ->
    indices G R (a_fuse_noexpand G R x [g1; g2])
    = map (fused_index G (indices G R x) (sectors G R x)) (filter nonnil [g1; g2]).
  Proof.
    intros HP.
    assert (Hc : concat [g1; g2] = g1 ++ g2) by (cbn [concat]; now rewrite app_nil_r).
    destruct (filter nonnil [g1; g2]) as [|g0 gs] eqn:E.
    - unfold a_fuse_noexpand. rewrite E. cbn [map].
      assert (Hn : ndim G R x = 0).
      { pose proof (Permutation_length HP) as HL. rewrite seq_length in HL. rewrite <- HL.
        destruct g1, g2; cbn [filter is_nil negb] in E; try discriminate E. reflexivity. }
      unfold ndim in Hn. now apply length_zero_iff_nil in Hn.
    - rewrite <- E. apply fuse_all_axes_indices.
      + intros ax Hax. rewrite Hc. apply (Permutation_in _ (Permutation_sym HP)). apply in_seq. lia.
      + rewrite Hc. apply Forall_forall. intros ax Hax. apply (Permutation_in _ HP), in_seq in Hax. lia.
      + rewrite E. discriminate.
  Qed.

  Lemma product_indices (a1 b1 : arr) (la aa ab rb : list nat) :
    Permutation (la ++ aa) (seq 0 (ndim G R a1)) -> Permutation (ab ++ rb) (seq 0 (ndim G R b1)) ->
    let c := fused_product a1 b1 la aa ab rb in
    indices G R c
    = prune_indices G
        (map (fused_index G (indices G R a1) (sectors G R a1)) (filter nonnil [la])
         ++ map (fused_index G (indices G R b1) (sectors G R b1)) (filter nonnil [rb]))
        (sectors G R c).
  Proof.
    intros Pa Pb. cbv zeta. unfold fused_product at 1. cbv zeta. unfold tdot_blockwise at 1. cbn [indices].
    rewrite (fuse_two_indices a1 la aa Pa), (fuse_two_indices b1 ab rb Pb).
    f_equal. f_equal.
    - destruct la, aa; reflexivity.
    - destruct ab, rb; reflexivity.
  Qed.

  Lemma isub_al_a (a b : arr) aa ab ax : ax < ndim G R a ->
    is_none (isub G (nth ax (indices G R (al_a G R a b aa ab)) ix_d)) = is_none (isub G (nth ax (indices G R a) ix_d)).
  Proof. intros H. rewrite indices_al_a, (nth_prune G) by exact H. apply isub_prune1. Qed.
  Lemma isub_al_b (a b : arr) aa ab ax : ax < ndim G R b ->
    is_none (isub G (nth ax (indices G R (al_b G R a b aa ab)) ix_d)) = is_none (isub G (nth ax (indices G R b) ix_d)).
  Proof. intros H. rewrite indices_al_b, (nth_prune G) by exact H. apply isub_prune1. Qed.

  Lemma nth0_unfuse_or_keep_1 (c : arr) : ndim G R c = 2 ->
    nth 0 (indices G R (unfuse_or_keep G R c 1)) ix_d = nth 0 (indices G R c) ix_d.
  Proof.
    intros Hn. unfold unfuse_or_keep, a_unfuse.
    destruct (isub G (nth 1 (indices G R c) ix_d)) as [[subs ext]|]; [|reflexivity].
    cbn [indices]. unfold ndim in Hn. destruct (indices G R c) as [|i0 [|i1 [|i2 r]]]; try discriminate Hn. reflexivity.
  Qed.

  (* the two routines coincide when a free group with ONE member is not itself
     a leg with sub-index information (a free group with two or more members is
     fused by the routine and unfused by both; its members stay as they are) *)
  Theorem tdot_fused_eq_fused2 (a b : arr) (la aa ab rb : list nat) :
    Permutation (la ++ aa) (seq 0 (ndim G R a)) -> Permutation (ab ++ rb) (seq 0 (ndim G R b)) ->
    (forall ax, la = [ax] -> isub G (nth ax (indices G R a) ix_d) = None) ->
    (forall ax, rb = [ax] -> isub G (nth ax (indices G R b) ix_d) = None) ->
    tdot_fused G R a b la aa ab rb = tdot_fused2 G R a b la aa ab rb.
  Proof.
    intros Pa Pb Hla Hrb.
    destruct (tdot_fused_general a b la aa ab rb) as [E1 E2]. cbv zeta in E1, E2. rewrite E1, E2. clear E1 E2.
    destruct (is_nil _ || is_nil _); [reflexivity|].
    set (a1 := al_a G R a b aa ab). set (b1 := al_b G R a b aa ab).
    assert (Pa1 : Permutation (la ++ aa) (seq 0 (ndim G R a1))) by (unfold a1; now rewrite ndim_al_a).
    assert (Pb1 : Permutation (ab ++ rb) (seq 0 (ndim G R b1))) by (unfold b1; now rewrite ndim_al_b).
    pose proof (product_indices a1 b1 la aa ab rb Pa1 Pb1) as EI. cbv zeta in EI.
    set (c := fused_product a1 b1 la aa ab rb) in *.
    assert (Hn : ndim G R c = length (filter nonnil [la]) + length (filter nonnil [rb])).
    { unfold ndim. rewrite EI, length_prune_indices, app_length, !map_length. reflexivity. }
    assert (HL : forall l0, la = [l0] -> is_none (isub G (nth 0 (indices G R c) ix_d)) = true).
    { intros l0 ->. rewrite EI, (nth_prune G) by (rewrite app_length; cbn [filter is_nil negb map length]; lia).
      rewrite isub_prune1. cbn [filter is_nil negb map app nth].
      change (fused_index G (indices G R a1) (sectors G R a1) [l0]) with (nth l0 (indices G R a1) ix_d).
      assert (Hl0 : l0 < ndim G R a).
      { assert (In l0 ([l0] ++ aa)) by (now left). apply (Permutation_in _ Pa), in_seq in H. lia. }
      unfold a1. rewrite isub_al_a by exact Hl0. now rewrite (Hla l0 eq_refl). }
    assert (HR : forall r0, rb = [r0] ->
              is_none (isub G (nth (length (filter nonnil [la])) (indices G R c) ix_d)) = true).
    { intros r0 ->. rewrite EI, (nth_prune G) by (rewrite app_length, !map_length; cbn [filter is_nil negb length]; lia).
      rewrite isub_prune1. rewrite app_nth2 by (rewrite map_length; lia). rewrite map_length, Nat.sub_diag.
      cbn [filter is_nil negb map nth].
      change (fused_index G (indices G R b1) (sectors G R b1) [r0]) with (nth r0 (indices G R b1) ix_d).
      assert (Hr0 : r0 < ndim G R b).
      { assert (In r0 (ab ++ [r0])) by (apply in_or_app; right; now left). apply (Permutation_in _ Pb), in_seq in H. lia. }
      unfold b1. rewrite isub_al_b by exact Hr0. now rewrite (Hrb r0 eq_refl). }
    clearbody c. clear EI.
    destruct la as [|l0 lr]; destruct rb as [|r0 rr]; cbn [filter is_nil negb length Nat.add] in Hn, HR |- *;
      rewrite Hn; cbn [seq rev app fold_left Nat.ltb Nat.leb Nat.sub length].
    - reflexivity.
    - destruct rr as [|r1 rr]; cbn [length Nat.ltb Nat.leb]; [|reflexivity].
      apply unfuse_or_keep_none. apply (HR r0 eq_refl).
    - destruct lr as [|l1 lr]; cbn [length Nat.ltb Nat.leb]; [|reflexivity].
      apply unfuse_or_keep_none. apply (HL l0 eq_refl).
    - assert (E1 : rr = [] -> unfuse_or_keep G R c 1 = c).
      { intros ->. apply unfuse_or_keep_none. apply (HR r0 eq_refl). }
      assert (E0 : lr = [] -> forall c1, nth 0 (indices G R c1) ix_d = nth 0 (indices G R c) ix_d ->
                                         unfuse_or_keep G R c1 0 = c1).
      { intros -> c1 Hc1. apply unfuse_or_keep_none. rewrite Hc1. apply (HL l0 eq_refl). }
      destruct rr as [|r1 rr]; destruct lr as [|l1 lr]; cbn [length Nat.ltb Nat.leb].
      + rewrite (E1 eq_refl). apply (E0 eq_refl). reflexivity.
      + now rewrite (E1 eq_refl).
      + apply (E0 eq_refl). apply nth0_unfuse_or_keep_1. exact Hn.
      + reflexivity.
  Qed.

  (* the front ends *)
  Definition free_unfused (x : arr) (free : list nat) : Prop :=
    forall ax, free = [ax] -> isub G (nth ax (indices G R x) ix_d) = None.

  Theorem a_tensordot_eq_tensordot2 (a b : arr) axes mode aa ab :
    parse_axes (ndim G R a) (ndim G R b) axes = Some (aa, ab) ->
    NoDup aa -> (forall i, In i aa -> i < ndim G R a) -> NoDup ab -> (forall i, In i ab -> i < ndim G R b) ->
    free_unfused a (rest_axes (ndim G R a) aa) -> free_unfused b (rest_axes (ndim G R b) ab) ->
    a_tensordot G R a b axes mode = a_tensordot2 G R a b axes mode.
  Proof.
    intros Hp NDa Ha NDb Hb Fa Fb. unfold a_tensordot, a_tensordot2. rewrite Hp. f_equal.
    assert (E : tdot_fused G R a b (rest_axes (ndim G R a) aa) aa ab (rest_axes (ndim G R b) ab)
                = tdot_fused2 G R a b (rest_axes (ndim G R a) aa) aa ab (rest_axes (ndim G R b) ab)).
    { apply tdot_fused_eq_fused2; try assumption.
      - apply perm_rest_axes; assumption.
      - apply perm_axes_rest; assumption. }
    destruct mode; [destruct (is_nil aa)| |]; first [reflexivity | exact E].
  Qed.
End OldNew.

(* ================================================================ part 2 *)
Section AllModes.
  Context (G : Symmetry) (GL : GroupLaws G) (OL : OrderProofs.OrderLaws G).
  Context (R : Ring) (NL : NegLaws R) (RL : SumLaws R).
  Notation sector := (list (C G)).
  Notation keq := (list_eqb (ceqb G)).
  Notation arr := (aarray G R).
  Notation farr := (farray G R).
  Notation ch_d := (ident G).
  Notation ix_d := (dflt_index G).
  Notation cspec := (ceqb_eq G GL).
  Notation rsg := (rsgn R).
  Notation V := (RouteProofs.V G R).

  (* ---------- the repaired fused routine returns valid arrays ---------- *)
  Lemma unfuse_or_keep_wf (x : arr) ax : wf_array G R x = true -> wf_array G R (unfuse_or_keep G R x ax) = true.
  Proof.
    intros Hw. unfold unfuse_or_keep. destruct (a_unfuse G R x ax) as [y|] eqn:E; [|exact Hw].
    exact (unfuse_wf G GL R x y ax Hw E).
  Qed.

  Theorem tdot_fused2_wf (a b : arr) (aa ab : list nat) :
    wf_array G R a = true -> wf_array G R b = true ->
    NoDup aa -> (forall i, In i aa -> i < ndim G R a) ->
    NoDup ab -> (forall i, In i ab -> i < ndim G R b) ->
    length aa = length ab ->
    (forall k, k < length aa ->
       idual G (nth (nth k aa 0) (indices G R a) ix_d) = negb (idual G (nth (nth k ab 0) (indices G R b) ix_d))) ->
    wf_array G R (tdot_fused2 G R a b (rest_axes (ndim G R a) aa) aa ab (rest_axes (ndim G R b) ab)) = true.
  Proof.
    intros Ha Hb C1 C2 C3 C4 C5 C6. unfold tdot_fused2.
    destruct (drop_misaligned_wf G GL R OL a b aa ab Ha Hb) as [W1 W2].
    destruct (drop_misaligned_frame G R a b aa ab) as (D1 & Q1 & D2 & Q2).
    destruct (drop_misaligned G R a b aa ab) as [a1 b1]. cbn [fst snd] in *.
    assert (Na : ndim G R a1 = ndim G R a).
    { unfold ndim. rewrite <- (map_length (idual G) (indices G R a1)), D1, map_length. reflexivity. }
    assert (Nb : ndim G R b1 = ndim G R b).
    { unfold ndim. rewrite <- (map_length (idual G) (indices G R b1)), D2, map_length. reflexivity. }
    destruct (is_nil (blocks G R a1) || is_nil (blocks G R b1)).
    - apply (wf_mk G GL). apply (wf_array_iff G GL) in W1. apply (wf_array_iff G GL) in W2. constructor.
      + rewrite (without_axes_take ix_d (indices G R a1)), (without_axes_take ix_d (indices G R b1)).
        unfold WfProofs.IxsOK. apply Forall_app. split; apply Forall_forall; intros ix Hin;
          apply in_map_iff in Hin; destruct Hin as (i & <- & Hi); apply In_rest_axes in Hi.
        * pose proof (wf_ix _ _ _ _ _ W1) as H. unfold WfProofs.IxsOK in H. rewrite Forall_forall in H. apply H. apply nth_In. exact Hi.
        * pose proof (wf_ix _ _ _ _ _ W2) as H. unfold WfProofs.IxsOK in H. rewrite Forall_forall in H. apply H. apply nth_In. exact Hi.
      + apply (gadd_valid G GL); [rewrite <- Q1; apply (wf_q _ _ _ _ _ W1)|rewrite <- Q2; apply (wf_q _ _ _ _ _ W2)].
      + constructor.
      + intros s t [].
    - cbv zeta.
      set (la := rest_axes (ndim G R a) aa). set (rb := rest_axes (ndim G R b) ab).
      assert (Pa : Permutation (la ++ aa) (seq 0 (ndim G R a1))) by (rewrite Na; apply perm_rest_axes; assumption).
      assert (Pb : Permutation (ab ++ rb) (seq 0 (ndim G R b1))) by (rewrite Nb; apply perm_axes_rest; assumption).
      destruct (fuse_noexpand_two G GL R OL a1 la aa W1 Pa) as (Wf & Nf & _ & _ & Df).
      destruct (fuse_noexpand_two G GL R OL b1 ab rb W2 Pb) as (Wg & Ng & _ & Dg & _).
      match goal with |- context [tdot_blockwise G R ?A ?B ?l1 ?l2 ?l3 ?l4] =>
        assert (Wc : wf_array G R (tdot_blockwise G R A B l1 l2 l3 l4) = true) end.
      { apply (tdot_fused_core G GL R OL); try assumption.
        + destruct aa, ab; try discriminate C5; reflexivity.
        + intros Hne. rewrite (Df Hne).
          assert (Hne' : ab <> []) by (destruct aa, ab; try discriminate C5; congruence).
          rewrite (Dg Hne'). rewrite !(idual_nth_map G), D1, D2, <- !(idual_nth_map G).
          destruct aa as [|a0 aa]; [congruence|]. destruct ab as [|b0 ab]; [congruence|]. cbn [hd].
          apply (C6 0). cbn [length]. lia. }
      destruct (Nat.ltb 1 (length la)), (Nat.ltb 1 (length rb)); repeat apply unfuse_or_keep_wf; exact Wc.
  Qed.

  (* ---------- multiplying blocks by signs keeps an array valid ---------- *)
  Definition sign_map (X : arr) (c : sector -> bool) : arr :=
    mkA G R (indices G R X) (charge G R X) (map (fun sb => (fst sb, sgn R (c (fst sb)) (snd sb))) (blocks G R X)).

  Lemma sign_map_wf X c : wf_array G R (sign_map X c) = wf_array G R X.
  Proof.
    unfold wf_array, sign_map, sectors. cbn [indices charge blocks]. rewrite map_map. cbn [fst].
    f_equal. rewrite forallb_map'. apply forallb_ext'. intros [k t]. cbn [fst snd].
    rewrite (tshape_sgn R). destruct (c k); cbn [sgn]; [|reflexivity].
    unfold tneg, tmap. cbn [tdata tshape]. now rewrite map_length.
  Qed.

  Lemma f_value_sign_map (x : farr) : f_value G R x = sign_map (fbase G R x) (fun s => ph_has G s (fphases G R x)).
  Proof.
    change (f_value G R x) with (mkA G R (indices G R (fbase G R x)) (charge G R (fbase G R x)) (blocks G R (f_value G R x))).
    unfold sign_map. now rewrite (blocks_f_value G R).
  Qed.

  Lemma signed_transpose_as X p sg : signed_transpose G R X p sg = a_transpose G R (sign_map X sg) p.
  Proof.
    unfold signed_transpose, a_transpose, sign_map. cbn [indices charge blocks]. f_equal.
    rewrite map_map. apply map_ext. intros [k t]. cbn [fst snd]. now rewrite (ttranspose_sgn R NL).
  Qed.

  Lemma wf_signed_transpose X p sg : wf_array G R X = true -> Permutation p (seq 0 (ndim G R X)) ->
    wf_array G R (signed_transpose G R X p sg) = true.
  Proof.
    intros W HP. rewrite signed_transpose_as. apply (transpose_wf G GL R); [now rewrite sign_map_wf|exact HP].
  Qed.

  Lemma wf_f_value (x : farr) : wf_array G R (fbase G R x) = true -> wf_array G R (f_value G R x) = true.
  Proof. intros W. now rewrite f_value_sign_map, sign_map_wf. Qed.

  Lemma wf_opA fl (a : farr) aa : wf_array G R (fbase G R a) = true ->
    NoDup aa -> (forall i, In i aa -> i < ndim G R (fbase G R a)) ->
    wf_array G R (tdot_opA G R fl a (rest_axes (ndim G R (fbase G R a)) aa) aa) = true.
  Proof.
    intros W ND Hlt. unfold tdot_opA. apply wf_signed_transpose; [now apply wf_f_value|].
    apply perm_rest_axes; assumption.
  Qed.
  Lemma wf_opB fl (b : farr) ab : wf_array G R (fbase G R b) = true ->
    NoDup ab -> (forall i, In i ab -> i < ndim G R (fbase G R b)) ->
    wf_array G R (tdot_opB G R fl b ab (rest_axes (ndim G R (fbase G R b)) ab)) = true.
  Proof.
    intros W ND Hlt. unfold tdot_opB. apply wf_signed_transpose; [now apply wf_f_value|].
    apply perm_axes_rest; assumption.
  Qed.

  (* ---------- the sign formula for the current-code front end ---------- *)
  Definition tdot_spec2 (a b : farr) (aa ab : list nat) (mode : tmode) : option farr :=
    let na := ndim G R (fbase G R a) in
    let nb := ndim G R (fbase G R b) in
    let la := rest_axes na aa in
    let rb := rest_axes nb ab in
    let ncon := length aa in
    let fl := tdot_flip_a G R a b aa ab in
    fermi_finish G R a b
      (a_tensordot2 G R (tdot_opA G R fl a la aa) (tdot_opB G R (negb fl) b ab rb)
         (inr (map Z.of_nat (seq (na - ncon) ncon), map Z.of_nat (seq 0 ncon))) mode).

  Theorem tensordot2_sign_formula (a b : farr) axes mode aa ab :
    parse_axes (ndim G R (fbase G R a)) (ndim G R (fbase G R b)) axes = Some (aa, ab) ->
    NoDup (fsectors G R a) -> sectors_len G R a -> NoDup (fsectors G R b) -> sectors_len G R b ->
    NoDup aa -> (forall i, In i aa -> i < ndim G R (fbase G R a)) ->
    NoDup ab -> (forall i, In i ab -> i < ndim G R (fbase G R b)) ->
    f_tensordot2 G R a b axes mode = tdot_spec2 a b aa ab mode.
  Proof.
    intros Hp NDa Hla NDb Hlb NDaa Haa NDab Hab.
    pose proof (parse_axes_length _ _ _ _ _ Hp) as Hlen.
    unfold f_tensordot2, tdot_spec2. rewrite Hp. cbv zeta.
    pose proof (fun fl => tdot_opA_correct G R NL cspec a aa fl NDa Hla NDaa Haa) as EA.
    pose proof (fun fl => tdot_opB_correct G R NL cspec b ab (length aa) fl NDb Hlb NDab Hab Hlen) as EB.
    cbv zeta in EA, EB.
    match goal with |- context [if ?c then _ else _] => change c with (tdot_flip_a G R a b aa ab) end.
    destruct (tdot_flip_a G R a b aa ab); cbn [negb].
    - pose proof (EA true) as EA1. pose proof (EB false) as EB1. cbv iota in EA1, EB1.
      match goal with |- context [a_tensordot2 G R (fbase G R (f_phase_sync G R ?x)) (fbase G R (f_phase_sync G R ?y))] =>
        change (fbase G R (f_phase_sync G R x)) with (f_value G R x);
        change (fbase G R (f_phase_sync G R y)) with (f_value G R y) end.
      rewrite EA1, EB1.
      match goal with |- context [a_tensordot2 G R ?A ?B ?ax ?m] => destruct (a_tensordot2 G R A B ax m) as [c|] end;
        [|reflexivity].
      apply finish_eq.
      + unfold fparity, f_phase_sync. cbn [fbase with_blocks charge]. now rewrite FermiProofs.fbase_flip.
      + cbn [f_phase_sync foddpos]. now rewrite FermiProofs.foddpos_flip.
      + reflexivity.
    - pose proof (EA false) as EA1. pose proof (EB true) as EB1. cbv iota in EA1, EB1.
      match goal with |- context [a_tensordot2 G R (fbase G R (f_phase_sync G R ?x)) (fbase G R (f_phase_sync G R ?y))] =>
        change (fbase G R (f_phase_sync G R x)) with (f_value G R x);
        change (fbase G R (f_phase_sync G R y)) with (f_value G R y) end.
      rewrite EA1, EB1.
      match goal with |- context [a_tensordot2 G R ?A ?B ?ax ?m] => destruct (a_tensordot2 G R A B ax m) as [c|] end;
        [|reflexivity].
      apply finish_eq.
      + reflexivity.
      + reflexivity.
      + cbn [f_phase_sync foddpos]. now rewrite FermiProofs.foddpos_flip.
  Qed.

  (* ---------- the two operands form a contractible pair of valid arrays ---------- *)
  Section Operands.
    Context (a b : farr) (aa ab : list nat).
    Context (NDaa : NoDup aa) (Haa : forall i, In i aa -> i < ndim G R (fbase G R a)).
    Context (NDab : NoDup ab) (Hab : forall i, In i ab -> i < ndim G R (fbase G R b)).
    Context (Hlen : length aa = length ab).
    Notation na := (ndim G R (fbase G R a)).
    Notation nb := (ndim G R (fbase G R b)).
    Notation la := (rest_axes (ndim G R (fbase G R a)) aa).
    Notation rb := (rest_axes (ndim G R (fbase G R b)) ab).
    Notation ncon := (length aa).
    Notation naa := (seq (ndim G R (fbase G R a) - length aa) (length aa)).
    Notation nab := (seq 0 (length aa)).

    Lemma op_lens : length la + ncon = na /\ ncon + length rb = nb.
    Proof.
      pose proof (Permutation_length (perm_rest_axes na aa NDaa Haa)) as H1. rewrite app_length, seq_length in H1.
      pose proof (Permutation_length (perm_axes_rest nb ab NDab Hab)) as H2. rewrite app_length, seq_length in H2.
      rewrite <- Hlen in H2. split; assumption.
    Qed.
    Lemma ndim_opA fl : ndim G R (tdot_opA G R fl a la aa) = na.
    Proof. unfold ndim at 1. rewrite indices_opA, permuted_length, app_length. apply op_lens. Qed.
    Lemma ndim_opB fl : ndim G R (tdot_opB G R fl b ab rb) = nb.
    Proof. unfold ndim at 1. rewrite indices_opB, permuted_length, app_length, <- Hlen. apply op_lens. Qed.

    Lemma leg_opA fl k : k < ncon ->
      nth (nth k naa 0) (indices G R (tdot_opA G R fl a la aa)) ix_d = nth (nth k aa 0) (indices G R (fbase G R a)) ix_d.
    Proof.
      intros Hk. destruct op_lens as [L1 L2]. rewrite seq_nth by exact Hk. rewrite indices_opA.
      rewrite (nth_permuted ix_d) by (rewrite app_length; lia).
      replace (na - ncon + k) with (length la + k) by lia. now rewrite app_nth2_plus.
    Qed.
    Lemma leg_opB fl k : k < ncon ->
      nth (nth k nab 0) (indices G R (tdot_opB G R fl b ab rb)) ix_d = nth (nth k ab 0) (indices G R (fbase G R b)) ix_d.
    Proof.
      intros Hk. destruct op_lens as [L1 L2]. rewrite seq_nth by exact Hk. cbn [Nat.add]. rewrite indices_opB.
      rewrite (nth_permuted ix_d) by (rewrite app_length, <- Hlen; lia).
      now rewrite app_nth1 by (rewrite <- Hlen; exact Hk).
    Qed.

    Context (Hd : opposite_dirs G R a b aa ab).

    Lemma op_duals fl fl' k : k < length naa ->
      idual G (nth (nth k naa 0) (indices G R (tdot_opA G R fl a la aa)) ix_d)
      = negb (idual G (nth (nth k nab 0) (indices G R (tdot_opB G R fl' b ab rb)) ix_d)).
    Proof.
      rewrite seq_length. intros Hk. rewrite leg_opA, leg_opB by exact Hk.
      apply (Forall2_nth_P _ aa ab 0 0 k Hd Hk).
    Qed.

    Lemma op_axes_ok fl fl' :
      axes_ok (ndim G R (tdot_opA G R fl a la aa)) naa = true /\ axes_ok (ndim G R (tdot_opB G R fl' b ab rb)) nab = true.
    Proof.
      destruct op_lens as [L1 L2]. rewrite ndim_opA, ndim_opB. unfold axes_ok. rewrite !andb_true_iff. repeat split.
      - apply (OrderProofs.nodupb_NoDup Nat.eqb Nat.eqb_eq). apply seq_NoDup.
      - apply forallb_forall. intros i Hi. apply in_seq in Hi. apply Nat.ltb_lt. lia.
      - apply (OrderProofs.nodupb_NoDup Nat.eqb Nat.eqb_eq). apply seq_NoDup.
      - apply forallb_forall. intros i Hi. apply in_seq in Hi. apply Nat.ltb_lt. lia.
    Qed.

    Lemma op_parse fl fl' :
      parse_axes (ndim G R (tdot_opA G R fl a la aa)) (ndim G R (tdot_opB G R fl' b ab rb))
        (inr (map Z.of_nat naa, map Z.of_nat nab)) = Some (naa, nab).
    Proof.
      destruct op_lens as [L1 L2]. rewrite ndim_opA, ndim_opB. unfold parse_axes.
      rewrite !map_length, !seq_length, Nat.eqb_refl.
      rewrite (norm_axes_of_nat na naa) by (intros i Hi; apply in_seq in Hi; lia).
      rewrite (norm_axes_of_nat nb nab) by (intros i Hi; apply in_seq in Hi; lia). reflexivity.
    Qed.

    Lemma op_contract_ok fl fl' :
      contract_ok G R (tdot_opA G R fl a la aa) (tdot_opB G R fl' b ab rb) naa nab = true.
    Proof.
      destruct op_lens as [L1 L2]. apply contract_ok_intro.
      - apply seq_NoDup.
      - intros i Hi. apply in_seq in Hi. rewrite ndim_opA. lia.
      - apply seq_NoDup.
      - intros i Hi. apply in_seq in Hi. rewrite ndim_opB. lia.
      - now rewrite !seq_length.
      - apply op_duals.
    Qed.

    Context (Htab : map (chargemap G) (take_axes ix_d (indices G R (fbase G R a)) aa)
                    = map (chargemap G) (take_axes ix_d (indices G R (fbase G R b)) ab)).

    Lemma op_legs_match fl fl' : legs_match G R (tdot_opA G R fl a la aa) (tdot_opB G R fl' b ab rb) naa nab.
    Proof.
      destruct op_lens as [L1 L2]. unfold legs_match. split; [now rewrite !seq_length|].
      split; [apply Forall_forall; intros i Hi; apply in_seq in Hi; rewrite ndim_opA; lia|].
      split; [apply Forall_forall; intros i Hi; apply in_seq in Hi; rewrite ndim_opB; lia|].
      intros k Hk. split; [apply op_duals; exact Hk|]. rewrite seq_length in Hk.
      unfold leg. rewrite leg_opA, leg_opB by exact Hk.
      apply (f_equal (fun l => nth k l [])) in Htab. unfold take_axes in Htab. rewrite !map_map in Htab.
      rewrite (nth_map_lt (fun x => chargemap G (nth x (indices G R (fbase G R a)) ix_d)) aa k 0 []) in Htab by exact Hk.
      rewrite (nth_map_lt (fun x => chargemap G (nth x (indices G R (fbase G R b)) ix_d)) ab k 0 []) in Htab
        by (rewrite <- Hlen; exact Hk).
      exact Htab.
    Qed.
  End Operands.

  (* every mode of the abelian front end returns a valid array *)
  Theorem tensordot2_wf (A B c : arr) axes mode aa ab :
    wf_array G R A = true -> wf_array G R B = true ->
    parse_axes (ndim G R A) (ndim G R B) axes = Some (aa, ab) -> contract_ok G R A B aa ab = true ->
    a_tensordot2 G R A B axes mode = Some c -> wf_array G R c = true.
  Proof.
    intros Ha Hb Hp Hc Ht. unfold a_tensordot2 in Ht. rewrite Hp in Ht. inversion Ht; subst c; clear Ht.
    destruct (contract_ok_spec G R _ _ _ _ Hc) as (C1 & C2 & C3 & C4 & C5 & C6).
    destruct mode; [destruct (is_nil aa)| |];
      first [apply (tdot_blockwise_wf G GL R OL); assumption | apply tdot_fused2_wf; assumption].
  Qed.

  Lemma wf_sectors_nodup (c : arr) : wf_array G R c = true -> NoDup (sectors G R c).
  Proof. intros W. apply (wf_array_iff G GL) in W. exact (wf_nd _ _ _ _ _ W). Qed.

  (* ---------- ALL MODES AGREE for the fermionic contraction ---------- *)
  (* what is compared: labels, total charge, index tables, and the value at
     EVERY coordinate list (stored sector sets may differ by all-zero blocks) *)
  Record same_result (y' y : farr) : Prop := {
    sr_odd : foddpos G R y' = foddpos G R y;
    sr_charge : charge G R (fbase G R y') = charge G R (fbase G R y);
    sr_indices : indices G R (fbase G R y') = indices G R (fbase G R y);
    sr_val : forall cs, V y' cs = V y cs }.

  Theorem modes_agree (a b : farr) axes aa ab (m : tmode) :
    wf_array G R (fbase G R a) = true -> wf_array G R (fbase G R b) = true ->
    parse_axes (ndim G R (fbase G R a)) (ndim G R (fbase G R b)) axes = Some (aa, ab) ->
    NoDup aa -> (forall i, In i aa -> i < ndim G R (fbase G R a)) ->
    NoDup ab -> (forall i, In i ab -> i < ndim G R (fbase G R b)) ->
    opposite_dirs G R a b aa ab ->
    map (chargemap G) (take_axes ix_d (indices G R (fbase G R a)) aa)
      = map (chargemap G) (take_axes ix_d (indices G R (fbase G R b)) ab) ->
    forall y, f_tensordot G R a b axes MBlockwise = Some y ->
    exists y', f_tensordot2 G R a b axes m = Some y' /\ same_result y' y /\ wf_array G R (fbase G R y') = true.
  Proof.
    intros Wa Wb Hp NDaa Haa NDab Hab Hd Htab y Hy.
    pose proof (parse_axes_length _ _ _ _ _ Hp) as Hlen.
    pose proof (wf_blocks_ok G R cspec _ Wa) as BOa. pose proof (wf_blocks_ok G R cspec _ Wb) as BOb.
    assert (NDa : NoDup (fsectors G R a)) by apply (bo_nodup _ _ _ BOa).
    assert (NDb : NoDup (fsectors G R b)) by apply (bo_nodup _ _ _ BOb).
    assert (La : sectors_len G R a).
    { intros t Ht. apply in_map_iff in Ht. destruct Ht as [sb [<- Hsb]]. apply (bo_len _ _ _ BOa sb Hsb). }
    assert (Lb : sectors_len G R b).
    { intros t Ht. apply in_map_iff in Ht. destruct Ht as [sb [<- Hsb]]. apply (bo_len _ _ _ BOb sb Hsb). }
    rewrite (tensordot_sign_formula G R NL cspec a b axes MBlockwise aa ab) in Hy by assumption.
    rewrite (tensordot2_sign_formula a b axes m aa ab) by assumption.
    unfold tdot_spec in Hy. unfold tdot_spec2. cbv zeta in Hy |- *.
    set (fl := tdot_flip_a G R a b aa ab) in *.
    set (A := tdot_opA G R fl a _ aa) in *. set (B := tdot_opB G R (negb fl) b ab _) in *.
    set (nax := inr (map Z.of_nat (seq (ndim G R (fbase G R a) - length aa) (length aa)), map Z.of_nat (seq 0 (length aa)))) in *.
    pose proof (wf_opA fl a aa Wa NDaa Haa) as WA. fold A in WA.
    pose proof (wf_opB (negb fl) b ab Wb NDab Hab) as WB. fold B in WB.
    pose proof (op_parse a b aa ab NDaa Haa NDab Hab Hlen fl (negb fl)) as HP. fold A B nax in HP.
    pose proof (op_contract_ok a b aa ab NDaa Haa NDab Hab Hlen Hd fl (negb fl)) as HC. fold A B in HC.
    destruct (op_axes_ok a b aa ab NDaa Haa NDab Hab Hlen fl (negb fl)) as [OKa OKb]. fold A B in OKa, OKb.
    pose proof (op_legs_match a b aa ab NDaa Haa NDab Hab Hlen Hd Htab fl (negb fl)) as LM. fold A B in LM.
    destruct (all_modes_agree_full_stmt G R GL OL RL A B nax _ _ m MBlockwise HP WA WB OKa OKb LM)
      as (r1 & r2 & E1 & E2 & Ech & Eix & Esem).
    assert (E2' : a_tensordot G R A B nax MBlockwise = Some r2) by exact E2.
    rewrite E2' in Hy. rewrite E1. unfold fermi_finish in Hy |- *.
    destruct (resolve_oddpos (fparity G R a) (foddpos G R a) (foddpos G R b)) as [[minus odd]|]; [|discriminate Hy].
    injection Hy as Hy. eexists. split; [reflexivity|].
    pose proof (tensordot2_wf A B r1 nax m _ _ WA WB HP HC E1) as W1.
    pose proof (tensordot2_wf A B r2 nax MBlockwise _ _ WA WB HP HC E2) as W2.
    split; [|destruct minus; exact W1].
    subst y. constructor.
    - destruct minus; reflexivity.
    - destruct minus; exact Ech.
    - destruct minus; exact Eix.
    - intros cs. unfold RouteProofs.V.
      rewrite !(sem_finish G R NL cspec) by (apply wf_sectors_nodup; assumption). now rewrite Esem.
  Qed.

  (* ---------- the model of the library BEFORE the repair: same function on un-fused free legs ---------- *)
  Theorem f_tensordot_eq_tensordot2 (a b : farr) axes mode aa ab :
    parse_axes (ndim G R (fbase G R a)) (ndim G R (fbase G R b)) axes = Some (aa, ab) ->
    NoDup (fsectors G R a) -> sectors_len G R a -> NoDup (fsectors G R b) -> sectors_len G R b ->
    NoDup aa -> (forall i, In i aa -> i < ndim G R (fbase G R a)) ->
    NoDup ab -> (forall i, In i ab -> i < ndim G R (fbase G R b)) ->
    free_unfused G R (fbase G R a) (rest_axes (ndim G R (fbase G R a)) aa) ->
    free_unfused G R (fbase G R b) (rest_axes (ndim G R (fbase G R b)) ab) ->
    f_tensordot G R a b axes mode = f_tensordot2 G R a b axes mode.
  Proof.
    intros Hp NDa La NDb Lb NDaa Haa NDab Hab Fa Fb.
    pose proof (parse_axes_length _ _ _ _ _ Hp) as Hlen.
    rewrite (tensordot_sign_formula G R NL cspec a b axes mode aa ab) by assumption.
    rewrite (tensordot2_sign_formula a b axes mode aa ab) by assumption.
    unfold tdot_spec, tdot_spec2. cbv zeta. f_equal.
    set (fl := tdot_flip_a G R a b aa ab).
    destruct (op_lens a b aa ab NDaa Haa NDab Hab Hlen) as [L1 L2].
    apply (a_tensordot_eq_tensordot2 G R _ _ _ mode _ _ (op_parse a b aa ab NDaa Haa NDab Hab Hlen fl (negb fl))).
    - apply seq_NoDup.
    - intros i Hi. apply in_seq in Hi. rewrite (ndim_opA a b aa ab NDaa Haa NDab Hab Hlen). lia.
    - apply seq_NoDup.
    - intros i Hi. apply in_seq in Hi. rewrite (ndim_opB a b aa ab NDaa Haa NDab Hab Hlen). lia.
    - intros ax E. rewrite (ndim_opA a b aa ab NDaa Haa NDab Hab Hlen) in E. rewrite rest_axes_tail in E by lia.
      assert (E1 : ndim G R (fbase G R a) - length aa = 1) by (apply (f_equal (@length nat)) in E; rewrite seq_length in E; exact E).
      rewrite E1 in E. injection E as <-. rewrite indices_opA.
      destruct (rest_axes (ndim G R (fbase G R a)) aa) as [|l0 [|l1 lr]] eqn:El; cbn [length] in L1; try lia.
      cbn [app permuted map nth]. apply (Fa l0 eq_refl).
    - intros ax E. rewrite (ndim_opB a b aa ab NDaa Haa NDab Hab Hlen) in E. rewrite rest_axes_head in E by lia.
      assert (E1 : ndim G R (fbase G R b) - length aa = 1) by (apply (f_equal (@length nat)) in E; rewrite seq_length in E; exact E).
      rewrite E1 in E. injection E as <-. rewrite indices_opB.
      destruct (rest_axes (ndim G R (fbase G R b)) ab) as [|r0 [|r1 rr]] eqn:Er; cbn [length] in L2; try lia.
      rewrite (nth_permuted ix_d) by (rewrite app_length; cbn [length]; lia).
      rewrite Hlen, app_nth2, Nat.sub_diag by lia. cbn [nth]. apply (Fb r0 eq_refl).
  Qed.

  (* ---------- C03: the element formula in ALL modes ---------- *)
  Section ElementAll.
    Context (mode : tmode) (a b : farr) (axes : nat + (list Z * list Z)) (aa ab : list nat) (minus : bool) (odd : list fop).
    Notation na := (ndim G R (fbase G R a)).
    Notation nb := (ndim G R (fbase G R b)).
    Notation cixs := (take_axes ix_d (indices G R (fbase G R a)) aa).
    Context (Hp : parse_axes na nb axes = Some (aa, ab)).
    Context (Wa : wf_array G R (fbase G R a) = true) (Wb : wf_array G R (fbase G R b) = true).
    Context (NDaa : NoDup aa) (Haa : forall i, In i aa -> i < na) (NDab : NoDup ab) (Hab : forall i, In i ab -> i < nb).
    Context (Hd : opposite_dirs G R a b aa ab).
    Context (Htab : map (chargemap G) cixs = map (chargemap G) (take_axes ix_d (indices G R (fbase G R b)) ab)).
    Context (Hres : resolve_oddpos (fparity G R a) (foddpos G R a) (foddpos G R b) = Some (minus, odd)).

    Lemma wf_ix_nodup (x : arr) axs : wf_array G R x = true ->
      Forall (fun ix => NoDup (icharges G ix)) (take_axes ix_d (indices G R x) axs).
    Proof.
      intros H. apply (wf_array_iff G GL R) in H. destruct H as [H1 _ _ _].
      apply Forall_forall. intros ix Hin. apply in_map_iff in Hin. destruct Hin as [i [<- _]].
      destruct (Nat.lt_ge_cases i (length (indices G R x))) as [Hi|Hi].
      - unfold IxsOK in H1. rewrite Forall_forall in H1.
        apply (wf_index_nodup G (OrderProofs.st_irrefl _ OL) (OrderProofs.st_trans _ OL)). apply H1, nth_In, Hi.
      - rewrite nth_overflow by exact Hi. constructor.
    Qed.

    Definition element_formula (y : farr) : Prop :=
      forall cl cr,
        coords_ok G (without_axes (indices G R (fbase G R a)) aa) cl = true ->
        coords_ok G (without_axes (indices G R (fbase G R b)) ab) cr = true ->
        sem G R (f_value G R y) (cl ++ cr)
        = rsg minus (rsum R (map (fun kc =>
            rmul R (rsg (sigma_a G R a aa (map fst (merge G na aa cl kc))) (sem G R (f_value G R a) (merge G na aa cl kc)))
                   (rsg (sigma_b G R b ab (map fst (merge G nb ab cr kc))) (sem G R (f_value G R b) (merge G nb ab cr kc))))
            (all_coords G cixs))).

    (* the model of the CURRENT code: no restriction on the free legs *)
    Theorem tensordot2_element_all_modes :
      exists y, f_tensordot2 G R a b axes mode = Some y /\ foddpos G R y = odd /\ element_formula y.
    Proof.
      destruct (tensordot_blockwise_element G R NL cspec RL a b axes aa ab minus odd Hp
                  (wf_blocks_ok G R cspec _ Wa) (wf_blocks_ok G R cspec _ Wb) NDaa Haa NDab Hab Hd
                  (wf_ix_nodup _ aa Wa) Htab Hres) as (y & Hy & Hodd & Hsem).
      destruct (modes_agree a b axes aa ab mode Wa Wb Hp NDaa Haa NDab Hab Hd Htab y Hy) as (y' & Hy' & SR & _).
      exists y'. split; [exact Hy'|]. split; [now rewrite (sr_odd _ _ SR)|].
      intros cl cr Hcl Hcr. rewrite <- (Hsem cl cr Hcl Hcr). apply (sr_val _ _ SR).
    Qed.

    (* the model of the code before the repair: free legs without sub-index information *)
    Theorem tensordot_element_all_modes :
      free_unfused G R (fbase G R a) (rest_axes na aa) -> free_unfused G R (fbase G R b) (rest_axes nb ab) ->
      exists y, f_tensordot G R a b axes mode = Some y /\ foddpos G R y = odd /\ element_formula y.
    Proof.
      intros Fa Fb. pose proof (wf_blocks_ok G R cspec _ Wa) as BOa. pose proof (wf_blocks_ok G R cspec _ Wb) as BOb.
      rewrite (f_tensordot_eq_tensordot2 a b axes mode aa ab Hp); try assumption.
      - apply tensordot2_element_all_modes.
      - apply (bo_nodup _ _ _ BOa).
      - intros t Ht. apply in_map_iff in Ht. destruct Ht as [sb [<- Hsb]]. apply (bo_len _ _ _ BOa sb Hsb).
      - apply (bo_nodup _ _ _ BOb).
      - intros t Ht. apply in_map_iff in Ht. destruct Ht as [sb [<- Hsb]]. apply (bo_len _ _ _ BOb sb Hsb).
    Qed.
  End ElementAll.
End AllModes.

(* ================================================================ part 3 *)
(* observational equality: two valid arrays over the same index tables with the
   same value at every coordinate store the same tensor under every sector both
   store, and an all-zero tensor under a sector only one of them stores *)
Section Obs.
  Context (G : Symmetry) (GL : GroupLaws G) (OL : OrderProofs.OrderLaws G).
  Context (R : Ring) (NL : NegLaws R) (RL : SumLaws R).
  Notation sector := (list (C G)).
  Notation keq := (list_eqb (ceqb G)).
  Notation arr := (aarray G R).
  Notation farr := (farray G R).
  Notation ch_d := (ident G).
  Notation ix_d := (dflt_index G).
  Notation cspec := (ceqb_eq G GL).
  Notation V := (RouteProofs.V G R).

  Definition allz (t : tensor R) : Prop := forall idx, get R t idx = r0 R.
  Definition bsim (o1 o2 : option (tensor R)) : Prop :=
    match o1, o2 with
    | Some t1, Some t2 => t1 = t2
    | Some t, None | None, Some t => allz t
    | None, None => True
    end.

  Lemma nth_map_const {A B} (f : A -> B) (d : B) l : (forall x, In x l -> f x = d) -> forall k, nth k (map f l) d = d.
  Proof.
    induction l as [|x l IH]; intros H k; [destruct k; reflexivity|].
    destruct k as [|k]; cbn [map nth]; [apply H; now left|]. apply IH. intros y Hy. apply H. now right.
  Qed.

  Lemma get_build_const sh (f : list nat -> RT R) idx :
    (forall i, In i (all_idx sh) -> f i = r0 R) -> get R (build R sh f) idx = r0 R.
  Proof. intros H. unfold get, build. cbn [tshape tdata]. now apply nth_map_const. Qed.

  Lemma allz_of_inrange t : length (tdata t) = shape_size (tshape t) ->
    (forall idx, inb (tshape t) idx = true -> get R t idx = r0 R) -> allz t.
  Proof.
    intros Hl H idx. rewrite <- (build_get_id R t Hl). apply get_build_const.
    intros i Hi. apply H. now apply FuseTensor.in_all_idx_inb.
  Qed.

  Lemma allz_sgn_transpose b p t : allz t -> allz (sgn R b (ttranspose R t p)).
  Proof.
    intros H idx. rewrite (get_sgn R NL). unfold ttranspose. rewrite get_build_const; [apply (rsgn_zero R NL)|].
    intros i _. apply H.
  Qed.

  Lemma bsim_map b p o1 o2 : bsim o1 o2 ->
    bsim (option_map (fun t => sgn R b (ttranspose R t p)) o1) (option_map (fun t => sgn R b (ttranspose R t p)) o2).
  Proof.
    destruct o1 as [t1|], o2 as [t2|]; cbn [bsim option_map]; [now intros ->|apply allz_sgn_transpose..|trivial].
  Qed.

  Lemma bsim_get o1 o2 idx : bsim o1 o2 ->
    match o1 with Some t => get R t idx | None => r0 R end = match o2 with Some t => get R t idx | None => r0 R end.
  Proof.
    destruct o1 as [t1|], o2 as [t2|]; cbn [bsim]; [now intros ->|intros H; apply H|intros H; symmetry; apply H|reflexivity].
  Qed.

  Lemma blocks_bsim (X' X : arr) :
    wf_array G R X' = true -> wf_array G R X = true -> indices G R X' = indices G R X ->
    (forall cs, sem G R X' cs = sem G R X cs) ->
    forall s, bsim (lookup keq s (blocks G R X')) (lookup keq s (blocks G R X)).
  Proof.
    intros W' W Eix Hs s. apply (wf_array_iff G GL) in W'. apply (wf_array_iff G GL) in W.
    assert (Hget : forall (Y : arr) t, WF G R (indices G R Y) (charge G R Y) (blocks G R Y) ->
              lookup keq s (blocks G R Y) = Some t ->
              length (tdata t) = shape_size (tshape t) /\ tshape t = block_shape G (indices G R Y) s /\
              forall idx, inb (tshape t) idx = true ->
                get R t idx = sem G R Y (List.combine s idx)).
    { intros Y t WY E. pose proof (OrderProofs.lookup_In keq (keq_spec G cspec) _ _ _ E) as Hin.
      destruct (wf_bl G R _ _ _ WY s t Hin) as ((Hl & _) & Hsh & Hd). split; [exact Hd|]. split; [exact Hsh|].
      intros idx Hi. rewrite Hsh in Hi.
      destruct (FusedSem.coords_ok_combine G (indices G R Y) s idx Hl Hi) as (_ & E1 & E2).
      unfold sem. now rewrite E1, E, E2. }
    destruct (lookup keq s (blocks G R X')) as [t'|] eqn:E'; destruct (lookup keq s (blocks G R X)) as [t|] eqn:E;
      cbn [bsim]; [| | |trivial].
    - destruct (Hget X' t' W' E') as (D' & S' & G'). destruct (Hget X t W E) as (D & S & G0).
      apply (tensor_ext R); [now rewrite S', S, Eix|exact D'|exact D|].
      intros idx Hi. rewrite (G' idx Hi), Hs. symmetry. apply G0. now rewrite S, <- Eix, <- S'.
    - destruct (Hget X' t' W' E') as (D' & S' & G'). apply (allz_of_inrange t' D').
      intros idx Hi. rewrite (G' idx Hi), Hs. unfold sem.
      assert (Hi2 : inb (block_shape G (indices G R X') s) idx = true) by (now rewrite <- S').
      assert (Hl : length s = length (indices G R X')).
      { pose proof (OrderProofs.lookup_In keq (keq_spec G cspec) _ _ _ E') as Hin.
        destruct (wf_bl G R _ _ _ W' s t' Hin) as ((Hl & _) & _). exact Hl. }
      destruct (FusedSem.coords_ok_combine G (indices G R X') s idx Hl Hi2) as (_ & E1 & _). now rewrite E1, E.
    - destruct (Hget X t W E) as (D & S & G0). apply (allz_of_inrange t D).
      intros idx Hi. rewrite (G0 idx Hi), <- Hs. unfold sem.
      assert (Hi2 : inb (block_shape G (indices G R X) s) idx = true) by (now rewrite <- S).
      assert (Hl : length s = length (indices G R X)).
      { pose proof (OrderProofs.lookup_In keq (keq_spec G cspec) _ _ _ E) as Hin.
        destruct (wf_bl G R _ _ _ W s t Hin) as ((Hl & _) & _). exact Hl. }
      destruct (FusedSem.coords_ok_combine G (indices G R X) s idx Hl Hi2) as (_ & E1 & _). now rewrite E1, E'.
  Qed.

  Lemma permuted_surj {A} (d : A) (s' : list A) p n :
    Permutation p (seq 0 n) -> length s' = n -> exists s, length s = n /\ permuted d s p = s'.
  Proof.
    intros HP Hl. exists (map (fun j => nth (index_of j p) s' d) (seq 0 n)).
    split; [now rewrite map_length, seq_length|].
    assert (Lp : length p = n) by (rewrite (Permutation_length HP); apply seq_length).
    assert (NDp : NoDup p) by (apply (Permutation_NoDup (Permutation_sym HP)), seq_NoDup).
    apply (nth_ext _ _ d d); [now rewrite permuted_length, Lp|].
    intros k Hk. rewrite permuted_length in Hk. rewrite (nth_permuted d) by exact Hk.
    assert (Hin : nth k p 0 < n) by (apply (perm_lt p n HP), nth_In, Hk).
    rewrite (nth_map_lt (fun j => nth (index_of j p) s' d) (seq 0 n) (nth k p 0) 0 d) by (now rewrite seq_length).
    rewrite seq_nth by exact Hin. cbn [Nat.add]. now rewrite (index_of_nth p k NDp Hk).
  Qed.

  Lemma lookup_len_none {Vv} (s : sector) (d : list (sector * Vv)) n :
    (forall t, In t (map fst d) -> length t = n) -> length s <> n -> lookup keq s d = None.
  Proof.
    intros H Hs. destruct (lookup keq s d) as [v|] eqn:E; [|reflexivity]. exfalso. apply Hs, H.
    apply (lookup_In_sectors G cspec _ _ _ E).
  Qed.

  (* the fermionic transpose cannot tell observationally equal arrays apart *)
  Theorem V_transpose_obs (x' x : farr) p :
    wf_array G R (fbase G R x') = true -> wf_array G R (fbase G R x) = true ->
    indices G R (fbase G R x') = indices G R (fbase G R x) ->
    (forall cs, V x' cs = V x cs) ->
    Permutation p (seq 0 (ndim G R (fbase G R x))) ->
    forall cs, V (f_transpose G R x' p true) cs = V (f_transpose G R x p true) cs.
  Proof.
    intros W' W Eix HV HP cs.
    assert (HP' : Permutation p (seq 0 (ndim G R (fbase G R x')))) by (unfold ndim; rewrite Eix; exact HP).
    assert (Facts : forall z : farr, wf_array G R (fbase G R z) = true ->
              NoDup (fsectors G R z) /\ sectors_len G R z).
    { intros z Wz. pose proof (wf_blocks_ok G R cspec _ Wz) as BO. split; [apply (bo_nodup _ _ _ BO)|].
      intros t Ht. apply in_map_iff in Ht. destruct Ht as [sb [<- Hsb]]. apply (bo_len _ _ _ BO sb Hsb). }
    destruct (Facts x' W') as [ND' L']. destruct (Facts x W) as [ND L].
    set (sg := fun s : sector => inv_parity (par_of G s) (map Z.of_nat p)).
    unfold RouteProofs.V.
    rewrite (f_value_signed G R NL x' (f_transpose G R x' p true) p sg eq_refl)
      by (intros s Hs; apply (ph_has_transpose G R cspec x' p s ND' L' HP' Hs)).
    rewrite (f_value_signed G R NL x (f_transpose G R x p true) p sg eq_refl)
      by (intros s Hs; apply (ph_has_transpose G R cspec x p s ND L HP Hs)).
    set (n := ndim G R (fbase G R x)) in *.
    assert (n' : ndim G R (fbase G R x') = n) by (unfold ndim, n; now rewrite Eix).
    assert (Lp : length p = n) by (rewrite (Permutation_length HP); apply seq_length).
    unfold sem.
    destruct (Nat.eq_dec (length (map fst cs)) n) as [El|Nl].
    - destruct (permuted_surj ch_d (map fst cs) p n HP El) as (s & Ls & Es). rewrite <- Es.
      rewrite (lookup_signed_transpose G R cspec (f_value G R x') p sg s n HP)
        by (try exact Ls; rewrite (sectors_f_value G R); intros t Ht; rewrite <- n'; now apply L').
      rewrite (lookup_signed_transpose G R cspec (f_value G R x) p sg s n HP)
        by (try exact Ls; rewrite (sectors_f_value G R); intros t Ht; now apply L).
      apply bsim_get, bsim_map.
      apply blocks_bsim; [now apply (wf_f_value G R)|now apply (wf_f_value G R)|exact Eix|exact HV].
    - rewrite !(lookup_len_none _ _ n); try exact Nl; try reflexivity.
      + intros t Ht. unfold signed_transpose in Ht. cbn [blocks] in Ht. rewrite map_map in Ht. cbn [fst] in Ht.
        apply in_map_iff in Ht. destruct Ht as (sb & <- & _). now rewrite permuted_length.
      + intros t Ht. unfold signed_transpose in Ht. cbn [blocks] in Ht. rewrite map_map in Ht. cbn [fst] in Ht.
        apply in_map_iff in Ht. destruct Ht as (sb & <- & _). now rewrite permuted_length.
  Qed.
End Obs.

Section Routes.
  Context (G : Symmetry) (GL : GroupLaws G) (OL : OrderProofs.OrderLaws G).
  Context (R : Ring) (NL : NegLaws R) (RL : SumLaws R).
  Notation sector := (list (C G)).
  Notation arr := (aarray G R).
  Notation farr := (farray G R).
  Notation ch_d := (ident G).
  Notation ix_d := (dflt_index G).
  Notation dcoord := (ident G, 0).
  Notation cspec := (ceqb_eq G GL).
  Notation V := (RouteProofs.V G R).

  Record obs_eq (y' y : farr) : Prop := {
    oe_res : same_result G R y' y;
    oe_wf' : wf_array G R (fbase G R y') = true;
    oe_wf : wf_array G R (fbase G R y) = true }.

  Lemma pair_contract_ok (a b : farr) aa ab : pair_ok G R a b aa ab ->
    contract_ok G R (fbase G R a) (fbase G R b) aa ab = true.
  Proof.
    intros [H1 H2 H3 H4 H5 H6 H7]. apply contract_ok_intro; try assumption.
    intros k Hk. apply (Forall2_nth_P _ aa ab 0 0 k H6 Hk).
  Qed.

  (* the result of any mode is observationally the blockwise result *)
  Lemma lift_mode (a b : farr) aa ab (m : tmode) y :
    wf_fermi G R a = true -> wf_fermi G R b = true -> pair_ok G R a b aa ab ->
    f_tensordot G R a b (naxes aa ab) MBlockwise = Some y ->
    exists y', f_tensordot2 G R a b (naxes aa ab) m = Some y' /\ obs_eq y' y.
  Proof.
    intros Wa Wb P Hy. pose proof (parse_naxes G R a b aa ab P) as Hp.
    destruct (modes_agree G GL OL R NL RL a b (naxes aa ab) aa ab m (WFF_base_wf G GL R a Wa) (WFF_base_wf G GL R b Wb) Hp
                (po_nda _ _ _ _ _ _ P) (po_lta _ _ _ _ _ _ P) (po_ndb _ _ _ _ _ _ P) (po_ltb _ _ _ _ _ _ P)
                (po_dirs _ _ _ _ _ _ P) (po_tabs _ _ _ _ _ _ P) y Hy) as (y' & Hy' & SR & W').
    exists y'. split; [exact Hy'|]. constructor; [exact SR|exact W'|].
    apply (WFF_base_wf G GL R). apply (f_tensordot_wf G GL R OL a b y (naxes aa ab) aa ab Wa Wb Hp (pair_contract_ok a b aa ab P) Hy).
  Qed.

  Lemma result_ndim (a b : farr) aa ab y :
    wf_fermi G R a = true -> wf_fermi G R b = true -> pair_ok G R a b aa ab ->
    distinct (foddpos G R a ++ foddpos G R b) ->
    f_tensordot G R a b (naxes aa ab) MBlockwise = Some y ->
    ndim G R (fbase G R y) = (ndim G R (fbase G R a) - length aa) + (ndim G R (fbase G R b) - length ab).
  Proof.
    intros Wa Wb P D Hy.
    destruct (tdot_main G GL OL R NL RL a b aa ab Wa Wb P D) as [y0 [m0 (E1 & _ & _ & _ & D1 & _)]].
    rewrite Hy in E1. injection E1 as <-.
    destruct (free_ixs_length G R a b aa ab P) as [Ll Lr].
    unfold ndim at 1. rewrite <- (map_length (idual G)), <- D1, map_length. unfold free_ixs. now rewrite app_length, Ll, Lr.
  Qed.

  Lemma obs_transpose (y' y : farr) p cs : obs_eq y' y -> Permutation p (seq 0 (ndim G R (fbase G R y))) ->
    V (f_transpose G R y' p true) cs = V (f_transpose G R y p true) cs.
  Proof.
    intros [SR W' W] HP.
    apply V_transpose_obs; try assumption; [exact (sr_indices _ _ _ _ SR)|exact (sr_val _ _ _ _ SR)].
  Qed.

  (* ---- which operand is passed first, any two modes ---- *)
  Theorem swap_operands_modes (CL : CommLaws R) (a b : farr) aa ab (m1 m2 : tmode) :
    wf_fermi G R a = true -> wf_fermi G R b = true -> pair_ok G R a b aa ab ->
    distinct (foddpos G R a ++ foddpos G R b) ->
    exists y1 y2,
      f_tensordot2 G R a b (naxes aa ab) m1 = Some y1
      /\ f_tensordot2 G R b a (naxes ab aa) m2 = Some y2
      /\ let nl := ndim G R (fbase G R a) - length aa in
         let nr := ndim G R (fbase G R b) - length ab in
         let t := f_transpose G R y1 (seq nl nr ++ seq 0 nl) true in
         foddpos G R y2 = foddpos G R t
         /\ forall cl cr,
              coords_ok G (without_axes (indices G R (fbase G R a)) aa) cl = true ->
              coords_ok G (without_axes (indices G R (fbase G R b)) ab) cr = true ->
              V y2 (cr ++ cl) = V t (cr ++ cl).
  Proof.
    intros Wa Wb P D.
    destruct (swap_operands G GL OL R NL RL CL a b aa ab Wa Wb P D) as (y1 & y2 & E1 & E2 & Ho & Hv). cbv zeta in Ho, Hv.
    destruct (lift_mode a b aa ab m1 y1 Wa Wb P E1) as (y1' & E1' & O1).
    destruct (lift_mode b a ab aa m2 y2 Wb Wa (pair_ok_sym G R a b aa ab P) E2) as (y2' & E2' & O2).
    exists y1', y2'. split; [exact E1'|]. split; [exact E2'|]. cbv zeta. split.
    - cbn [f_transpose foddpos] in Ho |- *. rewrite (sr_odd _ _ _ _ (oe_res _ _ O1)), (sr_odd _ _ _ _ (oe_res _ _ O2)). exact Ho.
    - intros cl cr Hcl Hcr. rewrite (sr_val _ _ _ _ (oe_res _ _ O2)), (Hv cl cr Hcl Hcr). symmetry.
      apply (obs_transpose y1' y1 _ _ O1). rewrite (result_ndim a b aa ab y1 Wa Wb P D E1). apply perm_swap_seq.
  Qed.

  (* ---- the order in which the contracted axis pairs are listed ---- *)
  Theorem axis_listing_modes (a b : farr) aa ab p (m1 m2 : tmode) :
    wf_fermi G R a = true -> wf_fermi G R b = true -> pair_ok G R a b aa ab ->
    distinct (foddpos G R a ++ foddpos G R b) -> Permutation p (seq 0 (length aa)) ->
    exists y y',
      f_tensordot2 G R a b (naxes aa ab) m1 = Some y
      /\ f_tensordot2 G R a b (naxes (permuted 0 aa p) (permuted 0 ab p)) m2 = Some y'
      /\ foddpos G R y' = foddpos G R y
      /\ forall cl cr,
           coords_ok G (without_axes (indices G R (fbase G R a)) aa) cl = true ->
           coords_ok G (without_axes (indices G R (fbase G R b)) ab) cr = true ->
           V y' (cl ++ cr) = V y (cl ++ cr).
  Proof.
    intros Wa Wb P D HP.
    destruct (axis_listing G GL OL R NL RL a b aa ab p Wa Wb P D HP) as (y & y' & E1 & E2 & Ho & Hv).
    destruct (lift_mode a b aa ab m1 y Wa Wb P E1) as (z & Ez & Oz).
    destruct (lift_mode a b _ _ m2 y' Wa Wb (pair_ok_permuted G R a b aa ab p P HP) E2) as (z' & Ez' & Oz').
    exists z, z'. split; [exact Ez|]. split; [exact Ez'|]. split.
    - now rewrite (sr_odd _ _ _ _ (oe_res _ _ Oz)), (sr_odd _ _ _ _ (oe_res _ _ Oz')).
    - intros cl cr Hcl Hcr. rewrite (sr_val _ _ _ _ (oe_res _ _ Oz)), (sr_val _ _ _ _ (oe_res _ _ Oz')). now apply Hv.
  Qed.

  (* ---- a fermionic transpose applied to an operand beforehand ---- *)
  Theorem pre_transpose_first_modes (a b : farr) aa ab p (m1 m2 : tmode) :
    wf_fermi G R a = true -> wf_fermi G R b = true -> pair_ok G R a b aa ab ->
    Permutation p (seq 0 (ndim G R (fbase G R a))) ->
    distinct (foddpos G R a ++ foddpos G R b) ->
    let na := ndim G R (fbase G R a) in
    let aa' := map (fun j => index_of j p) aa in
    let la := rest_axes na aa in
    let ql := map (fun j => index_of j la) (map (fun i => nth i p 0) (rest_axes na aa')) in
    exists y y',
      f_tensordot2 G R a b (naxes aa ab) m1 = Some y
      /\ f_tensordot2 G R (f_transpose G R a p true) b (naxes aa' ab) m2 = Some y'
      /\ let t := f_transpose G R y (ql ++ seq (length la) (ndim G R (fbase G R b) - length ab)) true in
         foddpos G R y' = foddpos G R t
         /\ forall cl cr,
              coords_ok G (without_axes (indices G R (fbase G R a)) aa) cl = true ->
              coords_ok G (without_axes (indices G R (fbase G R b)) ab) cr = true ->
              V y' (permuted dcoord cl ql ++ cr) = V t (permuted dcoord cl ql ++ cr).
  Proof.
    intros Wa Wb P HP D. cbv zeta.
    destruct (pre_transpose_a G GL OL R NL RL a b aa ab p Wa Wb P HP D) as (y & y' & E1 & E2 & Ho & Hv). cbv zeta in Ho, Hv.
    destruct (lift_mode a b aa ab m1 y Wa Wb P E1) as (z & Ez & Oz).
    destruct (lift_mode (f_transpose G R a p true) b _ ab m2 y' (f_transpose_wf G GL R a p true Wa HP) Wb
                (pt_pair_ok G R a b aa ab p P HP) E2) as (z' & Ez' & Oz').
    exists z, z'. split; [exact Ez|]. split; [exact Ez'|]. split.
    - cbn [f_transpose foddpos] in Ho |- *. rewrite (sr_odd _ _ _ _ (oe_res _ _ Oz)), (sr_odd _ _ _ _ (oe_res _ _ Oz')). exact Ho.
    - intros cl cr Hcl Hcr. rewrite (sr_val _ _ _ _ (oe_res _ _ Oz')), (Hv cl cr Hcl Hcr). symmetry.
      apply (obs_transpose z y _ _ Oz). rewrite (result_ndim a b aa ab y Wa Wb P D E1).
      rewrite <- (length_rest_axes _ aa (po_nda _ _ _ _ _ _ P) (po_lta _ _ _ _ _ _ P)).
      rewrite seq_app. apply Permutation_app; [apply (pt_perm_ql G R a b aa ab p P HP)|apply Permutation_refl].
  Qed.

  Theorem pre_transpose_second_modes (a b : farr) aa ab p (m1 m2 : tmode) :
    wf_fermi G R a = true -> wf_fermi G R b = true -> pair_ok G R a b aa ab ->
    Permutation p (seq 0 (ndim G R (fbase G R b))) ->
    distinct (foddpos G R a ++ foddpos G R b) ->
    let nb := ndim G R (fbase G R b) in
    let ab' := map (fun j => index_of j p) ab in
    let rb := rest_axes nb ab in
    let qr := map (fun j => index_of j rb) (map (fun i => nth i p 0) (rest_axes nb ab')) in
    let nl := ndim G R (fbase G R a) - length aa in
    exists y y',
      f_tensordot2 G R a b (naxes aa ab) m1 = Some y
      /\ f_tensordot2 G R a (f_transpose G R b p true) (naxes aa ab') m2 = Some y'
      /\ let t := f_transpose G R y (seq 0 nl ++ map (fun i => nl + i) qr) true in
         foddpos G R y' = foddpos G R t
         /\ forall cl cr,
              coords_ok G (without_axes (indices G R (fbase G R a)) aa) cl = true ->
              coords_ok G (without_axes (indices G R (fbase G R b)) ab) cr = true ->
              V y' (cl ++ permuted dcoord cr qr) = V t (cl ++ permuted dcoord cr qr).
  Proof.
    intros Wa Wb P HP D. cbv zeta.
    destruct (pre_transpose_b G GL OL R NL RL a b aa ab p Wa Wb P HP D) as (y & y' & E1 & E2 & Ho & Hv). cbv zeta in Ho, Hv.
    destruct (lift_mode a b aa ab m1 y Wa Wb P E1) as (z & Ez & Oz).
    destruct (lift_mode a (f_transpose G R b p true) aa _ m2 y' Wa (f_transpose_wf G GL R b p true Wb HP)
                (ptb_pair_ok G R a b aa ab p P HP) E2) as (z' & Ez' & Oz').
    exists z, z'. split; [exact Ez|]. split; [exact Ez'|]. split.
    - cbn [f_transpose foddpos] in Ho |- *. rewrite (sr_odd _ _ _ _ (oe_res _ _ Oz)), (sr_odd _ _ _ _ (oe_res _ _ Oz')). exact Ho.
    - intros cl cr Hcl Hcr. rewrite (sr_val _ _ _ _ (oe_res _ _ Oz')), (Hv cl cr Hcl Hcr). symmetry.
      apply (obs_transpose z y _ _ Oz). rewrite (result_ndim a b aa ab y Wa Wb P D E1).
      rewrite <- (length_rest_axes _ ab (po_ndb _ _ _ _ _ _ P) (po_ltb _ _ _ _ _ _ P)).
      apply (ptb_perm_q G R a b aa ab p P HP).
  Qed.

  (* ---- associativity: the second-stage contractions in any mode ---- *)
  Lemma f_tensordot2_blockwise (a b : farr) axes : f_tensordot2 G R a b axes MBlockwise = f_tensordot G R a b axes MBlockwise.
  Proof. reflexivity. Qed.

  (* FULL statement: every one of the four contractions in its own mode. *)
  Definition assoc_chain_modes_stmt (m1 m12 m2 m21 : tmode) : Prop :=
    CommLaws R ->
    forall (a b c : farr) (aa ab bb cb : list nat),
    wf_fermi G R a = true -> wf_fermi G R b = true -> wf_fermi G R c = true ->
    pair_ok G R a b aa ab -> pair_ok G R b c bb cb ->
    (forall j, In j ab -> ~ In j bb) ->
    distinct (foddpos G R a ++ foddpos G R b ++ foddpos G R c) ->
    let nl := length (rest_axes (ndim G R (fbase G R a)) aa) in
    let bb1 := map (fun j => nl + index_of j (rest_axes (ndim G R (fbase G R b)) ab)) bb in
    let ab2 := map (fun j => index_of j (rest_axes (ndim G R (fbase G R b)) bb)) ab in
    exists y1 y12 y2 y21,
      f_tensordot2 G R a b (naxes aa ab) m1 = Some y1
      /\ f_tensordot2 G R y1 c (naxes bb1 cb) m12 = Some y12
      /\ f_tensordot2 G R b c (naxes bb cb) m2 = Some y2
      /\ f_tensordot2 G R a y2 (naxes aa ab2) m21 = Some y21
      /\ foddpos G R y12 = foddpos G R y21
      /\ forall cl cm cr,
           coords_ok G (without_axes (indices G R (fbase G R a)) aa) cl = true ->
           coords_ok G (without_axes (indices G R (fbase G R b)) (ab ++ bb)) cm = true ->
           coords_ok G (without_axes (indices G R (fbase G R c)) cb) cr = true ->
           V y12 (cl ++ cm ++ cr) = V y21 (cl ++ cm ++ cr).

  (* PROVED: first-stage contractions block by block, second-stage contractions
     in ANY mode, for intermediates that keep every charge of their legs (no
     charge of a free leg of a / b / c disappears from the intermediate result).
     Missing for the full statement: (i) the contraction of an intermediate whose
     tables lost unused charges, in fused mode, against an operand with the full
     tables (C06 asks for equal tables on the contracted legs; needed is that
     tdot_fused2 only depends on the tables after the alignment pruned them);
     (ii) that contracting an intermediate with additional all-zero blocks (fused
     first stage) gives the same values. *)
  Theorem assoc_chain_modes_partial (CL : CommLaws R) (a b c : farr) (aa ab bb cb : list nat) (m12 m21 : tmode) :
    wf_fermi G R a = true -> wf_fermi G R b = true -> wf_fermi G R c = true ->
    pair_ok G R a b aa ab -> pair_ok G R b c bb cb ->
    (forall j, In j ab -> ~ In j bb) ->
    distinct (foddpos G R a ++ foddpos G R b ++ foddpos G R c) ->
    (forall y1, f_tensordot2 G R a b (naxes aa ab) MBlockwise = Some y1 ->
       indices G R (fbase G R y1) = free_ixs G R a b aa ab) ->
    (forall y2, f_tensordot2 G R b c (naxes bb cb) MBlockwise = Some y2 ->
       indices G R (fbase G R y2) = free_ixs G R b c bb cb) ->
    let nl := length (rest_axes (ndim G R (fbase G R a)) aa) in
    let bb1 := map (fun j => nl + index_of j (rest_axes (ndim G R (fbase G R b)) ab)) bb in
    let ab2 := map (fun j => index_of j (rest_axes (ndim G R (fbase G R b)) bb)) ab in
    exists y1 y12 y2 y21,
      f_tensordot2 G R a b (naxes aa ab) MBlockwise = Some y1
      /\ f_tensordot2 G R y1 c (naxes bb1 cb) m12 = Some y12
      /\ f_tensordot2 G R b c (naxes bb cb) MBlockwise = Some y2
      /\ f_tensordot2 G R a y2 (naxes aa ab2) m21 = Some y21
      /\ foddpos G R y12 = foddpos G R y21
      /\ forall cl cm cr,
           coords_ok G (without_axes (indices G R (fbase G R a)) aa) cl = true ->
           coords_ok G (without_axes (indices G R (fbase G R b)) (ab ++ bb)) cm = true ->
           coords_ok G (without_axes (indices G R (fbase G R c)) cb) cr = true ->
           V y12 (cl ++ cm ++ cr) = V y21 (cl ++ cm ++ cr).
  Proof.
    intros Wa Wb Wc Pab Pbc Hdisj D Hn1 Hn2. cbv zeta.
    destruct (assoc_chain G GL OL R NL RL CL a b c aa ab bb cb Wa Wb Wc Pab Pbc Hdisj D)
      as (y1 & y12 & y2 & y21 & E1 & E12 & E2 & E21 & Ho & Hv).
    pose proof (Hn1 y1 E1) as I1. pose proof (Hn2 y2 E2) as I2.
    pose proof (f_tensordot_wf G GL R OL a b y1 _ aa ab Wa Wb (parse_naxes G R a b aa ab Pab) (pair_contract_ok a b aa ab Pab) E1) as W1.
    pose proof (f_tensordot_wf G GL R OL b c y2 _ bb cb Wb Wc (parse_naxes G R b c bb cb Pbc) (pair_contract_ok b c bb cb Pbc) E2) as W2.
    destruct (lift_mode y1 c _ cb m12 y12 W1 Wc (as_pair1 G R a b c aa ab bb cb Pbc Hdisj y1 I1) E12) as (z12 & Ez12 & O12).
    destruct (lift_mode a y2 aa _ m21 y21 Wa W2 (as_pair2 G R a b c aa ab bb cb Pab Hdisj y2 I2) E21) as (z21 & Ez21 & O21).
    exists y1, z12, y2, z21. split; [exact E1|]. split; [exact Ez12|]. split; [exact E2|]. split; [exact Ez21|]. split.
    - now rewrite (sr_odd _ _ _ _ (oe_res _ _ O12)), (sr_odd _ _ _ _ (oe_res _ _ O21)).
    - intros cl cm cr Hcl Hcm Hcr. rewrite (sr_val _ _ _ _ (oe_res _ _ O12)), (sr_val _ _ _ _ (oe_res _ _ O21)). now apply Hv.
  Qed.
End Routes.

(* ================================================================ part 4 *)
(* several indices at once, or one after another: contracting over the pairs
   (i1, j1), (i2, j2) in one call = contracting over (i1, j1) and tracing the
   pair (i2, j2) of the result with the fermionic einsum "..x..x..->....". *)
Section OneByOne.
  Context (G : Symmetry) (R : Ring).
  Notation farr := (farray G R).

  (* einsum labels of the trace of the positions pa, pb of a rank-n array: the
     traced positions get the label n, the others 0, 1, ... in their order *)
  Definition trace_lhs (n pa pb : nat) : list nat :=
    map (fun k => if Nat.eqb k pa || Nat.eqb k pb then n
                  else k - (if Nat.ltb pa k then 1 else 0) - (if Nat.ltb pb k then 1 else 0)) (seq 0 n).
  Definition trace_rhs (n : nat) : list nat := seq 0 (n - 2).

  (* where the second pair sits in the result of the first contraction *)
  Definition second_pair (a b : farr) (i1 i2 j1 j2 : nat) : nat * nat * nat :=
    let la1 := rest_axes (ndim G R (fbase G R a)) [i1] in
    let rb1 := rest_axes (ndim G R (fbase G R b)) [j1] in
    (length la1 + length rb1, index_of i2 la1, length la1 + index_of j2 rb1).

  Definition one_by_one_stmt (m m1 : tmode) : Prop :=
    GroupLaws G -> OrderProofs.OrderLaws G -> NegLaws R -> SumLaws R -> CommLaws R ->
    forall (a b : farr) (i1 i2 j1 j2 : nat),
    wf_fermi G R a = true -> wf_fermi G R b = true -> pair_ok G R a b [i1; i2] [j1; j2] ->
    distinct (foddpos G R a ++ foddpos G R b) ->
    let '(n1, pa, pb) := second_pair a b i1 i2 j1 j2 in
    exists y y1 e,
      f_tensordot2 G R a b (naxes [i1; i2] [j1; j2]) m = Some y
      /\ f_tensordot2 G R a b (naxes [i1] [j1]) m1 = Some y1
      /\ f_einsum G R y1 (trace_lhs n1 pa pb) (trace_rhs n1) = Some e
      /\ foddpos G R y1 = foddpos G R y
      /\ forall cl cr,
           coords_ok G (without_axes (indices G R (fbase G R a)) [i1; i2]) cl = true ->
           coords_ok G (without_axes (indices G R (fbase G R b)) [j1; j2]) cr = true ->
           sem G R e (cl ++ cr) = RouteProofs.V G R y (cl ++ cr).
End OneByOne.

(* the labels (and the global sign) of a contraction of a with b do not depend on
   WHICH legs are contracted, nor on the mode: they are resolved from the two
   odd-position lists alone *)
Section Labels.
  Context (G : Symmetry) (GL : GroupLaws G) (OL : OrderProofs.OrderLaws G).
  Context (R : Ring) (NL : NegLaws R) (RL : SumLaws R).
  Notation farr := (farray G R).

  Theorem contraction_labels (a b : farr) axes axes' aa ab aa' ab' (m m' : tmode) y y' :
    wf_array G R (fbase G R a) = true -> wf_array G R (fbase G R b) = true ->
    parse_axes (ndim G R (fbase G R a)) (ndim G R (fbase G R b)) axes = Some (aa, ab) ->
    parse_axes (ndim G R (fbase G R a)) (ndim G R (fbase G R b)) axes' = Some (aa', ab') ->
    NoDup aa -> (forall i, In i aa -> i < ndim G R (fbase G R a)) ->
    NoDup ab -> (forall i, In i ab -> i < ndim G R (fbase G R b)) ->
    NoDup aa' -> (forall i, In i aa' -> i < ndim G R (fbase G R a)) ->
    NoDup ab' -> (forall i, In i ab' -> i < ndim G R (fbase G R b)) ->
    f_tensordot2 G R a b axes m = Some y -> f_tensordot2 G R a b axes' m' = Some y' ->
    foddpos G R y' = foddpos G R y.
  Proof.
    intros Wa Wb Hp Hp' N1 H1 N2 H2 N1' H1' N2' H2' Ey Ey'.
    pose proof (wf_blocks_ok G R (ceqb_eq G GL) _ Wa) as BOa. pose proof (wf_blocks_ok G R (ceqb_eq G GL) _ Wb) as BOb.
    assert (NDa : NoDup (fsectors G R a)) by apply (bo_nodup _ _ _ BOa).
    assert (NDb : NoDup (fsectors G R b)) by apply (bo_nodup _ _ _ BOb).
    assert (La : sectors_len G R a).
    { intros t Ht. apply in_map_iff in Ht. destruct Ht as [sb [<- Hsb]]. apply (bo_len _ _ _ BOa sb Hsb). }
    assert (Lb : sectors_len G R b).
    { intros t Ht. apply in_map_iff in Ht. destruct Ht as [sb [<- Hsb]]. apply (bo_len _ _ _ BOb sb Hsb). }
    rewrite (tensordot2_sign_formula G GL R NL a b axes m aa ab) in Ey by assumption.
    rewrite (tensordot2_sign_formula G GL R NL a b axes' m' aa' ab') in Ey' by assumption.
    unfold tdot_spec2, fermi_finish in Ey, Ey'. cbv zeta in Ey, Ey'.
    destruct (a_tensordot2 G R _ _ _ m) as [c|]; [|discriminate Ey].
    destruct (a_tensordot2 G R _ _ _ m') as [c'|]; [|discriminate Ey'].
    destruct (resolve_oddpos (fparity G R a) (foddpos G R a) (foddpos G R b)) as [[minus odd]|]; [|discriminate Ey].
    injection Ey as <-. injection Ey' as <-. destruct minus; reflexivity.
  Qed.
End Labels.

(* ---------------------------------------------------------------- *)
(* spelled-out statements for Props/C03b.v *)
Theorem modes_agree_stmt :
  forall (G : Symmetry), GroupLaws G -> OrderProofs.OrderLaws G -> forall (R : Ring), NegLaws R -> SumLaws R ->
  forall (a b : farray G R) (axes : nat + (list Z * list Z)) (aa ab : list nat) (m : tmode),
  wf_array G R (fbase G R a) = true -> wf_array G R (fbase G R b) = true ->
  parse_axes (ndim G R (fbase G R a)) (ndim G R (fbase G R b)) axes = Some (aa, ab) ->
  NoDup aa -> (forall i, In i aa -> i < ndim G R (fbase G R a)) ->
  NoDup ab -> (forall i, In i ab -> i < ndim G R (fbase G R b)) ->
  opposite_dirs G R a b aa ab ->
  map (chargemap G) (take_axes (dflt_index G) (indices G R (fbase G R a)) aa)
    = map (chargemap G) (take_axes (dflt_index G) (indices G R (fbase G R b)) ab) ->
  forall y, f_tensordot G R a b axes MBlockwise = Some y ->
  exists y', f_tensordot2 G R a b axes m = Some y'
    /\ foddpos G R y' = foddpos G R y
    /\ charge G R (fbase G R y') = charge G R (fbase G R y)
    /\ indices G R (fbase G R y') = indices G R (fbase G R y)
    /\ wf_array G R (fbase G R y') = true
    /\ forall cs, sem G R (f_value G R y') cs = sem G R (f_value G R y) cs.
Proof.
  intros G GL OL R NL RL a b axes aa ab m Wa Wb Hp N1 H1 N2 H2 Hd Ht y Hy.
  destruct (modes_agree G GL OL R NL RL a b axes aa ab m Wa Wb Hp N1 H1 N2 H2 Hd Ht y Hy) as (y' & E & [S1 S2 S3 S4] & W).
  exists y'. repeat split; assumption.
Qed.

(* ================================================================ examples *)
(* Z2, odd total charges, mixed directions, missing sectors, pending signs,
   distinct labels (the operands of Proofs/RouteProofs.v). *)
Module ModesEx.
  Import Ex RouteEx.
  Definition bD := fbase Z2 ZRing xD.
  Definition bB := fbase Z2 ZRing xB.
  (* xD with its legs 0 and 3 fused into one leg: legs [fused; 1; 2] *)
  Definition bDf : aarray Z2 ZRing := fuse_core Z2 ZRing bD [[0; 3]].

  (* part 1: hypotheses of tdot_fused_eq_fused2 on an instance, and the two results *)
  Example old_new_hyps :
    Permutation ([0; 3] ++ [2; 1]) (seq 0 (ndim Z2 ZRing bD)) /\ Permutation ([0; 2] ++ [1]) (seq 0 (ndim Z2 ZRing bB))
    /\ (forall ax, [0; 3] = [ax] -> isub Z2 (nth ax (indices Z2 ZRing bD) (dflt_index Z2)) = None)
    /\ (forall ax, [1] = [ax] -> isub Z2 (nth ax (indices Z2 ZRing bB) (dflt_index Z2)) = None)
    /\ aarray_eqb Z2 ZRing (tdot_fused Z2 ZRing bD bB [0; 3] [2; 1] [0; 2] [1]) (tdot_fused2 Z2 ZRing bD bB [0; 3] [2; 1] [0; 2] [1]) = true.
  Proof.
    split.
    { cbn. apply (perm_trans (l' := [0; 2; 3; 1])); [apply perm_skip, perm_swap|].
      apply (perm_trans (l' := [0; 2; 1; 3])); [apply perm_skip, perm_skip, perm_swap|]. apply perm_skip, perm_swap. }
    split; [cbn; apply perm_skip, perm_swap|].
    split; [intros ax E; discriminate E|]. split; [intros ax E; injection E as <-; reflexivity|]. vm_compute. reflexivity.
  Qed.

  (* ... and the restriction matters: a free leg that was fused BEFORE (group with
     one member, carrying sub-index information) is unfused by the old routine only:
     rank 3 against rank 2 *)
  Example old_new_differ :
    wf_array Z2 ZRing bDf = true
    /\ map (fun ix => is_none (isub Z2 ix)) (indices Z2 ZRing bDf) = [false; true; true]
    /\ ndim Z2 ZRing (tdot_fused Z2 ZRing bDf bB [0] [2; 1] [0; 2] [1]) = 3
    /\ ndim Z2 ZRing (tdot_fused2 Z2 ZRing bDf bB [0] [2; 1] [0; 2] [1]) = 2.
  Proof. vm_compute. repeat split; reflexivity. Qed.

  (* part 2: the hypotheses of the element theorem / modes_agree *)
  Example modes_hyps :
    GroupLaws Z2 /\ OrderProofs.OrderLaws Z2 /\ NegLaws ZRing /\ SumLaws ZRing
    /\ wf_array Z2 ZRing bD = true /\ wf_array Z2 ZRing bB = true
    /\ parse_axes (ndim Z2 ZRing bD) (ndim Z2 ZRing bB) (naxes [2; 1] [0; 2]) = Some ([2; 1], [0; 2])
    /\ opposite_dirs Z2 ZRing xD xB [2; 1] [0; 2]
    /\ map (chargemap Z2) (take_axes (dflt_index Z2) (indices Z2 ZRing bD) [2; 1])
       = map (chargemap Z2) (take_axes (dflt_index Z2) (indices Z2 ZRing bB) [0; 2])
    /\ resolve_oddpos (fparity Z2 ZRing xD) (foddpos Z2 ZRing xD) (foddpos Z2 ZRing xB)
       = Some (false, [([5%Z], false); ([7%Z], false)])
    /\ free_unfused Z2 ZRing bD (rest_axes 4 [2; 1]) /\ free_unfused Z2 ZRing bB (rest_axes 3 [0; 2]).
  Proof.
    split; [exact Z2_laws|]. split; [exact OrderProofs.Z2_order|]. split; [exact ZRing_neg_laws|]. split; [exact ZRing_sum_laws|].
    split; [reflexivity|]. split; [reflexivity|]. split; [reflexivity|].
    split; [exact (po_dirs _ _ _ _ _ _ pair_ok_ex)|]. split; [reflexivity|]. split; [reflexivity|].
    split; intros ax E; vm_compute in E; [discriminate E|injection E as <-; reflexivity].
  Qed.

  (* the three modes and the old model computed: same values, also with three free
     legs on one side and two on the other (one contracted pair) *)
  Example modes_values :
    match f_tensordot2 Z2 ZRing xD xB (naxes [2; 1] [0; 2]) MBlockwise, f_tensordot2 Z2 ZRing xD xB (naxes [2; 1] [0; 2]) MFused,
          f_tensordot2 Z2 ZRing xD xB (naxes [2; 1] [0; 2]) MAuto, f_tensordot Z2 ZRing xD xB (naxes [2; 1] [0; 2]) MFused,
          f_tensordot2 Z2 ZRing xD xB (naxes [2] [0]) MBlockwise, f_tensordot2 Z2 ZRing xD xB (naxes [2] [0]) MFused with
    | Some yb, Some yf, Some ya, Some yo, Some zb, Some zf =>
        farray_eqb Z2 ZRing yb yf = true /\ farray_eqb Z2 ZRing yf ya = true /\ farray_eqb Z2 ZRing yf yo = true
        /\ (length (blocks Z2 ZRing (fbase Z2 ZRing zb)), length (blocks Z2 ZRing (fbase Z2 ZRing zf)),
            farray_eqb Z2 ZRing zb zf) = (10, 10, true)
        /\ forallb (fun cs => Z.eqb (RouteProofs.V Z2 ZRing zb cs) (RouteProofs.V Z2 ZRing zf cs))
                   (all_coords Z2 (indices Z2 ZRing (fbase Z2 ZRing zb))) = true
    | _, _, _, _, _, _ => False
    end.
  Proof. vm_compute. repeat split; reflexivity. Qed.

  (* part 3: the route theorems with fused / auto contractions (hypotheses:
     RouteEx.route_hyps, RouteEx.assoc_hyps); with phase := false in the transposes
     the comparisons fail *)
  Example routes_modes_values :
    let y := f_tensordot2 Z2 ZRing xD xB (naxes [2; 1] [0; 2]) MFused in
    let ys := f_tensordot2 Z2 ZRing xB xD (naxes [0; 2] [2; 1]) MAuto in
    let yl := f_tensordot2 Z2 ZRing xD xB (naxes (permuted 0 [2; 1] [1; 0]) (permuted 0 [0; 2] [1; 0])) MFused in
    let p := [3; 1; 0; 2] in
    let yt := f_tensordot2 Z2 ZRing (f_transpose Z2 ZRing xD p true) xB (naxes (map (fun j => index_of j p) [2; 1]) [0; 2]) MFused in
    match y, ys, yl, yt with
    | Some y, Some ys, Some yl, Some yt =>
        farray_eqb Z2 ZRing (f_transpose Z2 ZRing y [2; 0; 1] true) ys = true
        /\ farray_eqb Z2 ZRing (f_transpose Z2 ZRing y [2; 0; 1] false) ys = false
        /\ farray_eqb Z2 ZRing yl y = true
        /\ farray_eqb Z2 ZRing (f_transpose Z2 ZRing y [1; 0; 2] true) yt = true
        /\ farray_eqb Z2 ZRing (f_transpose Z2 ZRing y [1; 0; 2] false) yt = false
    | _, _, _, _ => False
    end.
  Proof. vm_compute. repeat split; reflexivity. Qed.

  (* the additional hypotheses of assoc_chain_modes_partial hold on the instance:
     the two intermediates keep all the charges of their legs *)
  Example chain_hyps :
    (forall y1, f_tensordot2 Z2 ZRing xD xB (naxes [2; 1] [0; 2]) MBlockwise = Some y1 ->
       indices Z2 ZRing (fbase Z2 ZRing y1) = free_ixs Z2 ZRing xD xB [2; 1] [0; 2])
    /\ (forall y2, f_tensordot2 Z2 ZRing xB xC (naxes [1] [0]) MBlockwise = Some y2 ->
       indices Z2 ZRing (fbase Z2 ZRing y2) = free_ixs Z2 ZRing xB xC [1] [0]).
  Proof.
    split; intros y E.
    - assert (H : option_map (fun y => indices Z2 ZRing (fbase Z2 ZRing y)) (f_tensordot2 Z2 ZRing xD xB (naxes [2; 1] [0; 2]) MBlockwise)
                  = Some (free_ixs Z2 ZRing xD xB [2; 1] [0; 2])) by (vm_compute; reflexivity).
      rewrite E in H. cbn [option_map] in H. now injection H.
    - assert (H : option_map (fun y => indices Z2 ZRing (fbase Z2 ZRing y)) (f_tensordot2 Z2 ZRing xB xC (naxes [1] [0]) MBlockwise)
                  = Some (free_ixs Z2 ZRing xB xC [1] [0])) by (vm_compute; reflexivity).
      rewrite E in H. cbn [option_map] in H. now injection H.
  Qed.

  Example chain_modes_values :
    match f_tensordot2 Z2 ZRing xD xB (naxes [2; 1] [0; 2]) MBlockwise, f_tensordot2 Z2 ZRing xB xC (naxes [1] [0]) MBlockwise with
    | Some y1, Some y2 =>
        match f_tensordot2 Z2 ZRing y1 xC (naxes [2] [0]) MFused, f_tensordot2 Z2 ZRing xD y2 (naxes [2; 1] [0; 1]) MAuto with
        | Some y12, Some y21 =>
            farray_eqb Z2 ZRing y12 y21 = true
            /\ foddpos Z2 ZRing y12 = [([5%Z], false); ([7%Z], false); ([9%Z], false)]
        | _, _ => False
        end
    | _, _ => False
    end.
  Proof. vm_compute. repeat split; reflexivity. Qed.

  (* part 4: one contraction over two pairs = one pair by tensordot, the other by
     the fermionic einsum trace; both choices of the first pair (the traced pair is
     (bra of a, ket of b) in one and (ket of a, bra of b) in the other), fused and
     blockwise; same blocks, same index tables, same labels *)
  Definition one_by_one_check (i1 i2 j1 j2 : nat) (m m1 : tmode) : bool :=
    let '(n1, pa, pb) := second_pair Z2 ZRing xD xB i1 i2 j1 j2 in
    match f_tensordot2 Z2 ZRing xD xB (naxes [i1; i2] [j1; j2]) m, f_tensordot2 Z2 ZRing xD xB (naxes [i1] [j1]) m1 with
    | Some y, Some y1 =>
        match f_einsum Z2 ZRing y1 (trace_lhs n1 pa pb) (trace_rhs n1) with
        | Some e => aarray_eqb Z2 ZRing e (f_value Z2 ZRing y) && list_eqb fop_eqb (foddpos Z2 ZRing y1) (foddpos Z2 ZRing y)
                    && Nat.eqb (length (blocks Z2 ZRing e)) 4
        | None => false
        end
    | _, _ => false
    end.
  Example one_by_one_values :
    second_pair Z2 ZRing xD xB 2 1 0 2 = (5, 1, 4) /\ trace_lhs 5 1 4 = [0; 5; 1; 2; 5] /\ trace_rhs 5 = [0; 1; 2]
    /\ one_by_one_check 2 1 0 2 MBlockwise MBlockwise = true /\ one_by_one_check 2 1 0 2 MFused MFused = true
    /\ one_by_one_check 1 2 2 0 MBlockwise MFused = true /\ one_by_one_check 1 2 2 0 MAuto MBlockwise = true.
  Proof. vm_compute. repeat split; reflexivity. Qed.

  (* The full element statement of Props/C03.v (no condition on the free legs, all
     modes, model of the code BEFORE the repair) is FALSE: a free leg that is a
     fused leg is unfused by the old fused routine, so the result has one leg more
     than the coordinates cl ++ cr.  Instance: xD with legs 0 and 3 fused, contracted
     with xB over ([2; 1], [0; 2]) in fused mode, at cl = [(0, 0)], cr = [(0, 0)]:
     the formula gives 1580, the old model's result reads 0. *)
  Definition element_full_stmt : Prop :=
    forall (G : Symmetry) (R : Ring), NegLaws R ->
    (forall a b : C G, ceqb G a b = true <-> a = b) -> SumLaws R ->
    forall (mode : tmode) (a b : farray G R) (axes : nat + (list Z * list Z)) (aa ab : list nat) (minus : bool) (odd : list fop),
    let na := ndim G R (fbase G R a) in
    let nb := ndim G R (fbase G R b) in
    let cixs := take_axes (dflt_index G) (indices G R (fbase G R a)) aa in
    parse_axes na nb axes = Some (aa, ab) ->
    blocks_ok G R (fbase G R a) -> blocks_ok G R (fbase G R b) ->
    NoDup aa -> (forall i, In i aa -> i < na) -> NoDup ab -> (forall i, In i ab -> i < nb) ->
    opposite_dirs G R a b aa ab ->
    Forall (fun ix => NoDup (icharges G ix)) cixs ->
    map (chargemap G) cixs = map (chargemap G) (take_axes (dflt_index G) (indices G R (fbase G R b)) ab) ->
    resolve_oddpos (fparity G R a) (foddpos G R a) (foddpos G R b) = Some (minus, odd) ->
    exists y, f_tensordot G R a b axes mode = Some y /\ foddpos G R y = odd /\
      forall cl cr,
        coords_ok G (without_axes (indices G R (fbase G R a)) aa) cl = true ->
        coords_ok G (without_axes (indices G R (fbase G R b)) ab) cr = true ->
        sem G R (f_value G R y) (cl ++ cr)
        = rsgn R minus (rsum R (map (fun kc =>
            rmul R (rsgn R (sigma_a G R a aa (map fst (merge G na aa cl kc))) (sem G R (f_value G R a) (merge G na aa cl kc)))
                   (rsgn R (sigma_b G R b ab (map fst (merge G nb ab cr kc))) (sem G R (f_value G R b) (merge G nb ab cr kc))))
            (all_coords G cixs))).

  Definition xDf : farray Z2 ZRing := mkF Z2 ZRing bDf [] [([7%Z], false)].

  Theorem element_full_false : ~ element_full_stmt.
  Proof.
    intros H.
    destruct (H Z2 ZRing ZRing_neg_laws Z2_ceqb_spec ZRing_sum_laws MFused xDf xB (naxes [2; 1] [0; 2]) [2; 1] [0; 2]
                false [([5%Z], false); ([7%Z], false)]) as (y & Hy & _ & Hs).
    - reflexivity.
    - apply (wf_blocks_ok Z2 ZRing Z2_ceqb_spec). reflexivity.
    - apply (wf_blocks_ok Z2 ZRing Z2_ceqb_spec). reflexivity.
    - apply nodup_nats. reflexivity.
    - apply all_lt. reflexivity.
    - apply nodup_nats. reflexivity.
    - apply all_lt. reflexivity.
    - unfold opposite_dirs. repeat constructor.
    - assert (ND : NoDup [0%Z; 1%Z]) by (repeat constructor; cbn; intuition discriminate).
      apply Forall_forall. intros ix Hix. cbn in Hix. destruct Hix as [<-|[<-|[]]]; exact ND.
    - reflexivity.
    - reflexivity.
    - specialize (Hs [(0%Z, 0)] [(0%Z, 0)] eq_refl eq_refl).
      assert (E : option_map (fun y => sem Z2 ZRing (f_value Z2 ZRing y) ([(0%Z, 0)] ++ [(0%Z, 0)]))
                    (f_tensordot Z2 ZRing xDf xB (naxes [2; 1] [0; 2]) MFused) = Some 0%Z) by (vm_compute; reflexivity).
      rewrite Hy in E. cbn [option_map app] in E. injection E as E. pose proof (eq_trans (eq_sym E) Hs) as Hs'. vm_compute in Hs'. discriminate Hs'.
  Qed.
End ModesEx.
