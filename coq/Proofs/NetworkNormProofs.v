(* Proofs/NetworkNormProofs.v — property C10, the NETWORK clause for a chain of ANY length:
   "the same holds for a whole network conjugated tensor by tensor once the dangling legs that
    were bra-like are sign-flipped (none when all dangling legs are ket-like), along every
    contraction route."

   part 0   executable definitions: the left-to-right contraction of a chain (`chain_contract`),
            the conjugated network contracted in the reversed order (`conj_chain`), the closing
            contraction (`chain_norm`), the index tables / labels of the running result
   part 1   `same_val` (equal blocks, pending signs, labels, charge, leg directions) is preserved
            by conj, sign flips and the contraction (the result of tensordot carries pruned index
            tables; the theorems of C04b / C10c speak about the result with its full tables)
   part 2   the invariant `bra_of Y C` (C is, value by value, the conjugate of Y) and its step:
            conj(Y . t) = transpose(conj t . C)   from C10c's anti-homomorphism + congruence
   part 3   induction over the list of tensors; the closing contraction; the norm theorem
   part 4   route independence of the norm for a 3-chain (C04b's associativity)
   examples a Z2 3-chain (odd tensors, mixed directions, a missing block, pending signs) and a U1 3-chain *)
From SV Require Import Base.Prelude Base.Sym Base.Tensor Gen.PhasePerm Gen.OpOrder Model.SymInst Model.Sectors
  Model.Array Model.Arith Model.Graded Model.Oddpos Model.Wf Model.Fermi
  Proofs.SymLaws Proofs.GroupFacts Proofs.GradedProofs Proofs.OrderProofs Proofs.OddposProofs Proofs.Tdot Proofs.StructProofs
  Proofs.SectorsProofs Proofs.WfProofs Proofs.FermiProofs Proofs.ConjProofs Proofs.NormProofs Proofs.RouteProofs
  Proofs.ConjNetProofs.
From Coq Require Import Permutation Sorted.
Local Open Scope nat_scope.

(* ================================================================ part 0 *)
Section ChainDefs.
  Context (G : Symmetry) (R : Ring).
  Notation farr := (farray G R).

  (* one step of a chain: the next tensor, the axes of the running result, the axes of the tensor *)
  Definition cstep : Type := (farr * list nat * list nat)%type.

  (* y_k = tensordot(y_{k-1}, t_k, (aa_k, ab_k)), block by block *)
  Fixpoint chain_contract (y : farr) (l : list cstep) : option farr :=
    match l with
    | [] => Some y
    | (t, aa, ab) :: l' =>
        match f_tensordot G R y t (naxes aa ab) MBlockwise with
        | Some y' => chain_contract y' l'
        | None => None
        end
    end.

  (* the conjugated network in the reversed order:
       c_k = transpose(tensordot(conj t_k, c_{k-1}, (ab_k, aa_k)))
     the (fermionic) transpose only moves the free legs of conj t_k behind those of c_{k-1}, so that
     c_k lists its legs like y_k and the axes aa_{k+1} address the same legs in both *)
  Fixpoint conj_chain (c : farr) (l : list cstep) : option farr :=
    match l with
    | [] => Some c
    | (t, aa, ab) :: l' =>
        match f_tensordot G R (f_conj G R t true false) c (naxes ab aa) MBlockwise with
        | Some c2 =>
            let nl := ndim G R (fbase G R c) - length aa in
            let nr := ndim G R (fbase G R t) - length ab in
            conj_chain (f_transpose G R c2 (seq nr nl ++ seq 0 nr) true) l'
        | None => None
        end
    end.

  (* the sign flip of the dangling legs of the bra network that were bra-like in the ket network
     (they are ket-like in the conjugate) *)
  Definition bra_flip (c : farr) : farr :=
    f_phase_flip G R c (axes_where G (fun ix => negb (idual G ix)) (indices G R (fbase G R c))).

  (* <N|N>: the flipped bra network contracted with the ket network over all dangling legs *)
  Definition chain_norm (t1 : farr) (l : list cstep) : option farr :=
    match chain_contract t1 l, conj_chain (f_conj G R t1 true false) l with
    | Some y, Some c =>
        let n := ndim G R (fbase G R y) in
        f_tensordot G R (bra_flip c) y (naxes (seq 0 n) (seq 0 n)) MBlockwise
    | _, _ => None
    end.

  (* the (unpruned) index tables of the running result, and all labels of a chain *)
  Fixpoint chain_ixs (ixs : list (index G)) (l : list cstep) : list (index G) :=
    match l with
    | [] => ixs
    | (t, aa, ab) :: l' => chain_ixs (without_axes ixs aa ++ without_axes (indices G R (fbase G R t)) ab) l'
    end.
  Fixpoint chain_labels (l : list cstep) : list fop :=
    match l with
    | [] => []
    | (t, _, _) :: l' => foddpos G R t ++ chain_labels l'
    end.

  (* `pair_ok` (C04b) only reads the index tables of its operands *)
  Record ix_pair_ok (ixa ixb : list (index G)) (aa ab : list nat) : Prop := {
    ipo_nda : NoDup aa;
    ipo_lta : forall i, In i aa -> i < length ixa;
    ipo_ndb : NoDup ab;
    ipo_ltb : forall i, In i ab -> i < length ixb;
    ipo_len : length aa = length ab;
    ipo_dirs : Forall2 (fun i j => idual G (nth i ixa (dflt_index G)) = negb (idual G (nth j ixb (dflt_index G)))) aa ab;
    ipo_tabs : map (chargemap G) (take_axes (dflt_index G) ixa aa) = map (chargemap G) (take_axes (dflt_index G) ixb ab) }.

  Lemma pair_ok_ix (a b : farr) aa ab :
    pair_ok G R a b aa ab <-> ix_pair_ok (indices G R (fbase G R a)) (indices G R (fbase G R b)) aa ab.
  Proof.
    split; intros [H1 H2 H3 H4 H5 H6 H7]; constructor; assumption.
  Qed.

  (* every step: the next tensor is valid and contractible with the running result (whose tables
     are the free tables of the steps before) *)
  Fixpoint steps_ok (ixs : list (index G)) (l : list cstep) : Prop :=
    match l with
    | [] => True
    | (t, aa, ab) :: l' =>
        wf_fermi G R t = true
        /\ ix_pair_ok ixs (indices G R (fbase G R t)) aa ab
        /\ steps_ok (without_axes ixs aa ++ without_axes (indices G R (fbase G R t)) ab) l'
    end.
End ChainDefs.

(* ================================================================ part 1 *)
Section SameVal.
  Context (G : Symmetry) (GL : GroupLaws G) (OL : OrderProofs.OrderLaws G).
  Context (R : Ring) (NL : NegLaws R) (RL : SumLaws R).
  Notation sector := (list (C G)).
  Notation farr := (farray G R).
  Notation ix_d := (dflt_index G).
  Notation cspec := (ceqb_eq G GL).
  Notation sv := (same_val G R).

  Lemma same_val_trans x y z : sv x y -> sv y z -> sv x z.
  Proof. intros [A1 A2 A3 A4 A5] [B1 B2 B3 B4 B5]. constructor; congruence. Qed.

  Lemma same_val_flip x y axs : sv x y -> sv (f_phase_flip G R x axs) (f_phase_flip G R y axs).
  Proof.
    intros H. pose proof (same_val_fsectors G R x y H) as Hs. destruct H as [H1 H2 H3 H4 H5].
    unfold f_phase_flip. destruct (is_nil axs); [constructor; assumption|].
    unfold with_phases. constructor; cbn [fbase fphases foddpos]; try assumption.
    now rewrite Hs, H2.
  Qed.

  Lemma same_val_nondual x y : sv x y ->
    axes_where G (fun ix => negb (idual G ix)) (indices G R (fbase G R x))
    = axes_where G (fun ix => negb (idual G ix)) (indices G R (fbase G R y)).
  Proof. intros H. apply (axes_where_duals G negb). apply (sv_duals _ _ _ _ H). Qed.

  Lemma same_val_bra_flip x y : sv x y -> sv (bra_flip G R x) (bra_flip G R y).
  Proof. intros H. unfold bra_flip. rewrite (same_val_nondual x y H). now apply same_val_flip. Qed.

  Lemma same_val_cj x y : sv x y -> sv (cj G R x) (cj G R y).
  Proof.
    intros H. pose proof (same_val_fsectors G R x y H) as Hs. destruct H as [H1 H2 H3 H4 H5].
    unfold cj, f_conj. cbv zeta. cbn [andb]. unfold fparity. cbn [fbase foddpos a_conj charge].
    rewrite Hs, H2, H3, H4.
    match goal with |- sv (if ?c then _ else _) _ => destruct c end;
      constructor; unfold a_conj, f_phase_global, with_phases, fsectors, sectors;
      cbn [fbase fphases foddpos blocks charge indices];
      rewrite ?H1, ?H4, ?(map_idual_iconj G), ?H5; reflexivity.
  Qed.

  Lemma map_without_axes {A B} (f : A -> B) (d : A) (l : list A) axes :
    map f (without_axes l axes) = without_axes (map f l) axes.
  Proof.
    rewrite (without_axes_take d), (without_axes_take (f d)), map_length. unfold take_axes.
    rewrite map_map. apply map_ext. intros i. symmetry. apply map_nth.
  Qed.

  (* contracting arrays with the same blocks gives arrays with the same blocks *)
  Lemma same_val_tdot_sv a a' b b' axes aa ab y :
    sv a a' -> sv b b' ->
    parse_axes (ndim G R (fbase G R a)) (ndim G R (fbase G R b)) axes = Some (aa, ab) ->
    NoDup (fsectors G R a) -> sectors_len G R a -> NoDup (fsectors G R b) -> sectors_len G R b ->
    NoDup aa -> (forall i, In i aa -> i < ndim G R (fbase G R a)) ->
    NoDup ab -> (forall i, In i ab -> i < ndim G R (fbase G R b)) ->
    opposite_dirs G R a b aa ab ->
    f_tensordot G R a b axes MBlockwise = Some y ->
    exists y', f_tensordot G R a' b' axes MBlockwise = Some y' /\ sv y' y.
  Proof.
    intros Sa Sb Hp NDa La NDb Lb NDaa Haa NDab Hab Hd Hy.
    pose proof (same_val_ndim G R a a' Sa) as Na. pose proof (same_val_ndim G R b b' Sb) as Nb.
    pose proof (tensordot_blockwise_value G R NL cspec a b axes aa ab Hp NDa La NDb Lb NDaa Haa NDab Hab Hd) as E.
    cbv zeta in E. rewrite Hy in E.
    assert (Hp' : parse_axes (ndim G R (fbase G R a')) (ndim G R (fbase G R b')) axes = Some (aa, ab))
      by (rewrite <- Na, <- Nb; exact Hp).
    pose proof (tensordot_blockwise_value G R NL cspec a' b' axes aa ab Hp'
                  ltac:(rewrite <- (same_val_fsectors G R a a' Sa); exact NDa) (same_val_sectors_len G R a a' Sa La)
                  ltac:(rewrite <- (same_val_fsectors G R b b' Sb); exact NDb) (same_val_sectors_len G R b b' Sb Lb)
                  NDaa ltac:(rewrite <- Na; exact Haa) NDab ltac:(rewrite <- Nb; exact Hab)
                  (same_val_opposite G R a a' b b' aa ab Sa Sb Hd)) as E'.
    cbv zeta in E'. rewrite <- Na, <- Nb in E'. rewrite E'. unfold fermi_finish in *.
    rewrite <- (same_val_fparity G R a a' Sa), <- (sv_oddpos _ _ _ _ Sa), <- (sv_oddpos _ _ _ _ Sb).
    destruct (resolve_oddpos (fparity G R a) (foddpos G R a) (foddpos G R b)) as [[minus odd]|]; [|discriminate].
    injection E as E. eexists. split; [reflexivity|]. subst y.
    set (na := ndim G R (fbase G R a)). set (nb := ndim G R (fbase G R b)). set (ncon := length aa).
    set (la := rest_axes na aa). set (rb := rest_axes nb ab).
    set (C1 := tdot_blockwise G R (tdot_opA G R true a' la aa) (tdot_opB G R false b' ab rb) _ _ _ _).
    set (C0 := tdot_blockwise G R (tdot_opA G R true a la aa) (tdot_opB G R false b ab rb) _ _ _ _).
    assert (EB : blocks G R C1 = blocks G R C0).
    { unfold C1, C0, tdot_blockwise. cbn [blocks]. unfold tdot_pairs.
      now rewrite (same_val_opA G R true a a' _ aa Sa), (same_val_opB G R false b b' ab _ Sb). }
    assert (EC : charge G R C1 = charge G R C0).
    { unfold C1, C0. rewrite !(blockwise_charge G R), !(charge_opA G R), !(charge_opB G R).
      now rewrite (sv_charge _ _ _ _ Sa), (sv_charge _ _ _ _ Sb). }
    assert (ED : map (idual G) (indices G R C1) = map (idual G) (indices G R C0)).
    { unfold C1, C0, tdot_blockwise. cbn [indices]. rewrite !(map_idual_prune G), !map_app.
      rewrite !(map_without_axes (idual G) ix_d), !(indices_opA G R), !(indices_opB G R), !permuted_map.
      now rewrite (sv_duals _ _ _ _ Sa), (sv_duals _ _ _ _ Sb). }
    assert (S0 : sv (mkF G R C1 [] odd) (mkF G R C0 [] odd)) by (constructor; cbn [fbase fphases foddpos]; auto).
    destruct minus; [|exact S0].
    unfold f_phase_global, with_phases, fsectors, sectors. cbn [fbase fphases foddpos].
    constructor; cbn [fbase fphases foddpos]; auto. now rewrite EB.
  Qed.
End SameVal.

(* ================================================================ part 2 *)
Section Chain.
  Context (G : Symmetry) (GL : GroupLaws G) (OL : OrderProofs.OrderLaws G).
  Context (R : Ring) (NL : NegLaws R) (RL : SumLaws R) (CL : CommLaws R) (CJ : ConjLaws R).
  Notation sector := (list (C G)).
  Notation farr := (farray G R).
  Notation ch_d := (ident G).
  Notation ix_d := (dflt_index G).
  Notation dcoord := (ident G, 0).
  Notation cspec := (ceqb_eq G GL).
  Notation rsg := (rsgn R).
  Notation VV := (V G R).
  Notation sv := (same_val G R).
  Notation cjj := (cj G R).
  Notation wf := (fun x => wf_fermi G R x = true).

  (* Cb is the bra of Y: valid, the conjugated tables and labels, and at every coordinate the
     value of conj(Y) (default dual-leg option) *)
  Record bra_of (Y Cb : farr) : Prop := {
    br_wfY : wf_fermi G R Y = true;
    br_wfC : wf_fermi G R Cb = true;
    br_ix : indices G R (fbase G R Cb) = map (iconj G) (indices G R (fbase G R Y));
    br_odd : foddpos G R Cb = odag (foddpos G R Y);
    br_val : forall cs, coords_ok G (indices G R (fbase G R Y)) cs = true -> VV Cb cs = VV (cjj Y) cs }.

  Lemma bra_of_self t : wf_fermi G R t = true -> bra_of t (cjj t).
  Proof.
    intros W. constructor.
    - exact W.
    - apply (f_conj_wf G GL). exact W.
    - apply cj_indices.
    - apply cj_oddpos.
    - reflexivity.
  Qed.

  Lemma reindex_transpose (x : farr) (J : list (index G)) p :
    f_transpose G R (reindex G R x J) p true = reindex G R (f_transpose G R x p true) (permuted ix_d J p).
  Proof. reflexivity. Qed.

  (* one step: conj(Y . t) = transpose(conj t . Cb), with the full tables *)
  Lemma bra_step Y Cb t aa ab :
    bra_of Y Cb -> wf_fermi G R t = true -> pair_ok G R Y t aa ab ->
    distinct (foddpos G R Y ++ foddpos G R t) ->
    exists y1 c2,
      f_tensordot G R Y t (naxes aa ab) MBlockwise = Some y1
      /\ f_tensordot G R (cjj t) Cb (naxes ab aa) MBlockwise = Some c2
      /\ let ixs' := free_ixs G R Y t aa ab in
         let nl := ndim G R (fbase G R Y) - length aa in
         let nr := ndim G R (fbase G R t) - length ab in
         let c3 := f_transpose G R c2 (seq nr nl ++ seq 0 nr) true in
         bra_of (reindex G R y1 ixs') (reindex G R c3 (map (iconj G) ixs'))
         /\ sv (reindex G R y1 ixs') y1
         /\ sv (reindex G R c3 (map (iconj G) ixs')) c3
         /\ Permutation (foddpos G R y1) (foddpos G R Y ++ foddpos G R t)
         /\ StronglySorted lt_op (foddpos G R y1).
  Proof.
    intros [WY WC IC OC HV] Wt P D.
    destruct (conj_tdot_core G GL OL R NL RL CL CJ Y t aa ab WY Wt P D)
      as [y1 [y2 (E1 & E2 & W1 & W2 & D1 & D2 & Q1 & Q2 & Ew & SS1 & P1 & S)]].
    destruct (conj_tensordot_both G GL OL R NL RL CL CJ Y t aa ab WY Wt P D) as [y1' [y2' (E1' & E2' & HB)]].
    rewrite E1 in E1'. injection E1' as <-. rewrite E2 in E2'. injection E2' as <-.
    cbv zeta in HB. destruct HB as (_ & _ & HB).
    set (ct := cjj t) in *. set (cY := cjj Y) in *.
    assert (Wct : wf_fermi G R ct = true) by (apply (f_conj_wf G GL); exact Wt).
    assert (WcY : wf_fermi G R cY = true) by (apply (f_conj_wf G GL); exact WY).
    assert (Pc : pair_ok G R ct cY ab aa) by (apply pair_ok_cj; exact P).
    assert (Dc : distinct (foddpos G R ct ++ foddpos G R cY)).
    { unfold ct, cY, cj. rewrite !cj_oddpos, <- odag_app. apply distinct_odag, D. }
    destruct (tdot_main G GL OL R NL RL ct cY ab aa Wct WcY Pc Dc) as [y2'' [m2 (E2'' & R2 & _)]].
    rewrite E2 in E2''. injection E2'' as <-.
    assert (ICY : indices G R (fbase G R Cb) = indices G R (fbase G R cY)).
    { rewrite IC. symmetry. apply cj_indices. }
    assert (OCY : foddpos G R Cb = foddpos G R cY) by (rewrite OC; symmetry; apply cj_oddpos).
    assert (HVc : forall cs, coords_ok G (indices G R (fbase G R cY)) cs = true -> VV Cb cs = VV cY cs).
    { intros cs Hcs. apply HV. unfold cY, cj in Hcs. now rewrite cj_indices, coords_ok_iconj in Hcs. }
    destruct (tdot_congr G GL OL R NL RL ct ct cY Cb ab aa m2 (foddpos G R y2) Wct Wct WcY WC Pc eq_refl ICY eq_refl OCY
                (fun cs _ => eq_refl) HVc ltac:(rewrite resolve_oddpos_is_resolve; exact R2))
      as [z [c2 (Ez & Ec2 & Oz & Oc2 & Vz)]].
    rewrite E2 in Ez. injection Ez as <-.
    pose proof (pair_ok_same_ix G R ct ct cY Cb ab aa eq_refl ICY Pc) as P'.
    assert (D' : distinct (foddpos G R ct ++ foddpos G R Cb)) by (rewrite OCY; exact Dc).
    destruct (tdot_main G GL OL R NL RL ct Cb ab aa Wct WC P' D') as [c2' [m3 (E3 & _ & _ & W3 & D3 & _ & _)]].
    rewrite Ec2 in E3. injection E3 as <-.
    exists y1, c2. split; [exact E1|]. split; [exact Ec2|]. cbv zeta.
    destruct (free_ixs_length G R Y t aa ab P) as [Ll Lr].
    set (ixl := without_axes (indices G R (fbase G R Y)) aa) in *.
    set (ixr := without_axes (indices G R (fbase G R t)) ab) in *.
    set (nl := ndim G R (fbase G R Y) - length aa) in *. set (nr := ndim G R (fbase G R t) - length ab) in *.
    set (p := seq nr nl ++ seq 0 nr) in *.
    assert (EF : free_ixs G R Y t aa ab = ixl ++ ixr) by reflexivity. rewrite EF in *.
    assert (EFc : free_ixs G R ct Cb ab aa = map (iconj G) ixr ++ map (iconj G) ixl).
    { unfold free_ixs. rewrite IC. unfold ct, cj. now rewrite cj_indices, !without_iconj. }
    assert (EFy : free_ixs G R ct cY ab aa = map (iconj G) ixr ++ map (iconj G) ixl).
    { unfold ct, cY, cj. apply cj_free_ixs. }
    rewrite EFc in W3, D3. rewrite EFy in W2, D2.
    set (J := map (iconj G) ixr ++ map (iconj G) ixl) in *.
    assert (EJ : permuted ix_d J p = map (iconj G) (ixl ++ ixr)).
    { unfold J, p. rewrite <- Ll, <- Lr, <- (map_length (iconj G) ixr), <- (map_length (iconj G) ixl).
      rewrite (permuted_swap ix_d). now rewrite map_app. }
    set (Z' := reindex G R c2 J) in *. set (Y2 := reindex G R y2 J) in *.
    set (c3 := f_transpose G R c2 p true).
    assert (EC3 : reindex G R c3 (map (iconj G) (ixl ++ ixr)) = f_transpose G R Z' p true).
    { unfold Z', c3. now rewrite reindex_transpose, EJ. }
    assert (LJ : length J = nr + nl) by (unfold J; rewrite app_length, !map_length; lia).
    assert (HP : forall x : farr, Permutation p (seq 0 (ndim G R (fbase G R (reindex G R x J))))).
    { intros x. unfold reindex, ndim. cbn [fbase indices]. rewrite LJ. apply perm_swap_seq. }
    pose proof (same_val_reindex G R c2 J D3) as SVZ. fold Z' in SVZ.
    pose proof (same_val_reindex G R y2 J D2) as SVY2. fold Y2 in SVY2.
    pose proof (same_val_reindex G R y1 (ixl ++ ixr) D1) as SVY1.
    assert (WC3 : wf_fermi G R (reindex G R c3 (map (iconj G) (ixl ++ ixr))) = true).
    { rewrite EC3. apply (f_transpose_wf G GL); [exact W3|apply HP]. }
    split; [|split; [exact SVY1|split; [|split; [exact P1|exact SS1]]]].
    2:{ rewrite EC3. unfold c3. apply same_val_transpose. exact SVZ. }
    constructor.
    - exact W1.
    - exact WC3.
    - reflexivity.
    - cbn [reindex foddpos]. unfold c3. cbn [f_transpose foddpos]. now rewrite Oc2, Ew.
    - intros cs Hcs. cbn [reindex fbase indices] in Hcs.
      destruct (coords_ok_split G _ _ cs Hcs) as [cl [cr (-> & Hcl & Hcr)]].
      pose proof (Tdot.coords_ok_length G _ _ Hcl) as Lcl. pose proof (Tdot.coords_ok_length G _ _ Hcr) as Lcr.
      rewrite Ll in Lcl. rewrite Lr in Lcr. fold nl in Lcl. fold nr in Lcr.
      assert (Ep : cl ++ cr = permuted dcoord (cr ++ cl) p).
      { unfold p. rewrite <- Lcl, <- Lcr. symmetry. apply permuted_swap. }
      assert (HcJ : coords_ok G J (cr ++ cl) = true).
      { unfold J. apply coords_ok_app; now rewrite coords_ok_iconj. }
      rewrite (same_val_V G R _ _ (same_val_cj G R _ _ SVY1)).
      rewrite (proj1 (HB cl cr Hcl Hcr)).
      rewrite EC3.
      rewrite <- (same_val_V G R _ _ (same_val_transpose G R Y2 y2 p SVY2)).
      rewrite Ep.
      rewrite (V_transpose G GL R NL Z' p (cr ++ cl) W3 (HP c2) HcJ).
      rewrite (V_transpose G GL R NL Y2 p (cr ++ cl) W2 (HP y2) HcJ).
      rewrite (same_val_V G R Z' c2 SVZ), (same_val_V G R Y2 y2 SVY2). f_equal.
      apply Vz.
      + unfold ct, cj. now rewrite cj_indices, without_iconj, coords_ok_iconj.
      + unfold cY, cj. now rewrite cj_indices, without_iconj, coords_ok_iconj.
  Qed.

  (* ================================================================ part 3 *)
  Lemma sv_reindex_eq (Y y0 : farr) : sv Y y0 -> reindex G R y0 (indices G R (fbase G R Y)) = Y.
  Proof.
    intros [H1 H2 H3 H4 H5]. destruct Y as [[ix q bl] ph od]. unfold reindex. cbn [fbase fphases foddpos indices charge blocks] in *.
    now rewrite <- H1, <- H2, <- H3, <- H4.
  Qed.

  Lemma bra_pair_ok Y Cb t aa ab : bra_of Y Cb -> pair_ok G R Y t aa ab -> pair_ok G R (cjj t) Cb ab aa.
  Proof.
    intros B P. apply (pair_ok_same_ix G R (cjj t) (cjj t) (cjj Y) Cb ab aa eq_refl).
    - rewrite (br_ix _ _ B). symmetry. apply cj_indices.
    - apply pair_ok_cj. exact P.
  Qed.

  Lemma bra_ndim Y Cb : bra_of Y Cb -> ndim G R (fbase G R Cb) = ndim G R (fbase G R Y).
  Proof. intros B. unfold ndim. now rewrite (br_ix _ _ B), map_length. Qed.

  (* the induction over the list of steps *)
  Lemma chain_bra l : forall Y Cb y0 c0,
    bra_of Y Cb -> sv Y y0 -> sv Cb c0 ->
    steps_ok G R (indices G R (fbase G R Y)) l ->
    distinct (foddpos G R Y ++ chain_labels G R l) ->
    exists yn cn,
      chain_contract G R y0 l = Some yn /\ conj_chain G R c0 l = Some cn
      /\ let ixn := chain_ixs G R (indices G R (fbase G R Y)) l in
         bra_of (reindex G R yn ixn) (reindex G R cn (map (iconj G) ixn))
         /\ sv (reindex G R yn ixn) yn /\ sv (reindex G R cn (map (iconj G) ixn)) cn
         /\ Permutation (foddpos G R yn) (foddpos G R Y ++ chain_labels G R l)
         /\ (l <> [] -> StronglySorted lt_op (foddpos G R yn)).
  Proof.
    induction l as [|[[t aa] ab] l IH]; intros Y Cb y0 c0 B SY SC HS D.
    - exists y0, c0. split; [reflexivity|]. split; [reflexivity|]. cbv zeta. cbn [chain_ixs chain_labels].
      rewrite <- (br_ix _ _ B) at 1 2. rewrite (sv_reindex_eq Y y0 SY), (sv_reindex_eq Cb c0 SC).
      split; [exact B|]. split; [exact SY|]. split; [exact SC|]. split; [|intros H; now elim H].
      rewrite app_nil_r, (sv_oddpos _ _ _ _ SY). apply Permutation_refl.
    - cbn [steps_ok] in HS. destruct HS as (Wt & IP & HS). cbn [chain_labels] in D.
      pose proof (proj2 (pair_ok_ix G R Y t aa ab) IP) as P.
      assert (D1 : distinct (foddpos G R Y ++ foddpos G R t)) by (rewrite app_assoc in D; apply (distinct_app_l _ _ D)).
      destruct (bra_step Y Cb t aa ab B Wt P D1) as [y1 [c2 (E1 & E2 & HB)]]. cbv zeta in HB.
      destruct HB as (B' & SV1 & SV3 & P1 & SS1).
      pose proof (br_wfY _ _ B) as WY. pose proof (br_wfC _ _ B) as WC.
      assert (Wct : wf_fermi G R (cjj t) = true) by (apply (f_conj_wf G GL); exact Wt).
      pose proof (bra_pair_ok Y Cb t aa ab B P) as P'.
      destruct (same_val_tdot_sv G GL R NL Y y0 t t (naxes aa ab) aa ab y1 SY (same_val_refl G R t)
                  (parse_naxes G R Y t aa ab P) (wff_nodup G GL R Y WY) (wff_len G GL R Y WY)
                  (wff_nodup G GL R t Wt) (wff_len G GL R t Wt)
                  (po_nda _ _ _ _ _ _ P) (po_lta _ _ _ _ _ _ P) (po_ndb _ _ _ _ _ _ P) (po_ltb _ _ _ _ _ _ P)
                  (po_dirs _ _ _ _ _ _ P) E1) as [y1' [E1' S1']].
      destruct (same_val_tdot_sv G GL R NL (cjj t) (cjj t) Cb c0 (naxes ab aa) ab aa c2 (same_val_refl G R _) SC
                  (parse_naxes G R _ _ ab aa P') (wff_nodup G GL R _ Wct) (wff_len G GL R _ Wct)
                  (wff_nodup G GL R Cb WC) (wff_len G GL R Cb WC)
                  (po_nda _ _ _ _ _ _ P') (po_lta _ _ _ _ _ _ P') (po_ndb _ _ _ _ _ _ P') (po_ltb _ _ _ _ _ _ P')
                  (po_dirs _ _ _ _ _ _ P') E2) as [c2' [E2' S2']].
      set (ixs' := free_ixs G R Y t aa ab) in *.
      set (nl := ndim G R (fbase G R Y) - length aa) in *. set (nr := ndim G R (fbase G R t) - length ab) in *.
      set (p := seq nr nl ++ seq 0 nr) in *.
      set (Y' := reindex G R y1 ixs') in *. set (Cb' := reindex G R (f_transpose G R c2 p true) (map (iconj G) ixs')) in *.
      assert (SY' : sv Y' y1') by (apply (same_val_trans G R _ y1); [exact SV1|apply same_val_sym; exact S1']).
      assert (SC' : sv Cb' (f_transpose G R c2' p true)).
      { apply (same_val_trans G R _ (f_transpose G R c2 p true)); [exact SV3|].
        apply same_val_transpose, same_val_sym. exact S2'. }
      assert (D' : distinct (foddpos G R Y' ++ chain_labels G R l)).
      { change (foddpos G R Y') with (foddpos G R y1). rewrite app_assoc in D.
        apply (distinct_perm _ _ (Permutation_app_tail _ (Permutation_sym P1))). exact D. }
      destruct (IH Y' Cb' y1' (f_transpose G R c2' p true) B' SY' SC' HS D') as [yn [cn (En & Ecn & HI)]].
      cbv zeta in HI. destruct HI as (Bn & SVn & SVcn & Pn & SSn).
      exists yn, cn. split; [cbn [chain_contract]; rewrite E1'; exact En|].
      split.
      { cbn [conj_chain]. change (f_conj G R t true false) with (cjj t). rewrite E2'. cbv zeta.
        rewrite <- (same_val_ndim G R Cb c0 SC), (bra_ndim Y Cb B). exact Ecn. }
      cbv zeta. cbn [chain_ixs chain_labels].
      split; [exact Bn|]. split; [exact SVn|]. split; [exact SVcn|]. split.
      + apply (Permutation_trans Pn). change (foddpos G R Y') with (foddpos G R y1).
        rewrite app_assoc. apply Permutation_app_tail. exact P1.
      + intros _. destruct l as [|s l'].
        * cbn [chain_contract] in En. injection En as <-. rewrite (sv_oddpos _ _ _ _ S1'). exact SS1.
        * apply SSn. discriminate.
  Qed.

  (* the closing contraction: the bra (its ket-like legs sign-flipped) with the ket over all legs *)
  Lemma bra_closing Y Cb y0 c0 :
    bra_of Y Cb -> labels_ok (foddpos G R Y) -> sv Y y0 -> sv Cb c0 ->
    let n := ndim G R (fbase G R y0) in
    exists z,
      f_tensordot G R (bra_flip G R c0) y0 (naxes (seq 0 n) (seq 0 n)) MBlockwise = Some z
      /\ foddpos G R z = []
      /\ a_scalar G R (f_value G R z) = rsg (n_dual (foddpos G R Y)) (norm_sum_l G R Y).
  Proof.
    intros B Hlab SY SC n. destruct B as [WY WC IC OC HV].
    set (ixl := indices G R (fbase G R Y)) in *.
    set (Bf := bra_flip G R Cb).
    assert (WB : wf_fermi G R Bf = true) by (apply (f_phase_flip_wf G GL); exact WC).
    assert (IB : indices G R (fbase G R Bf) = map (iconj G) [] ++ map (iconj G) ixl).
    { unfold Bf, bra_flip. rewrite (fbase_flip G R). exact IC. }
    destruct (closing G GL OL R NL RL ixl [] Y Bf y0 (bra_flip G R c0) WY WB (eq_sym (app_nil_r ixl)) IB Hlab
                ltac:(unfold Bf, bra_flip; rewrite (foddpos_flip G R); exact OC)
                (same_val_bra_flip G R Cb c0 SC) SY) as [z (Ez & Oz & Hz)].
    { intros cl cr Hcl Hcr. destruct cr as [|c cr]; [|discriminate Hcr]. cbn [app]. rewrite app_nil_r.
      unfold Bf at 1, bra_flip. rewrite (V_phase_flip G GL R NL Cb _ cl (wff_nodup G GL R Cb WC)).
      rewrite (HV cl Hcl), (V_cj G GL R NL CJ Y cl WY), (rsgn_rsgn R NL).
      unfold Bf, bra_flip. rewrite (fbase_flip G R).
      destruct (V_zero_or G GL R Y cl) as [Z|Sy]; [rewrite Z, (rconj_0 R CJ), !(rsgn_r0 R NL); reflexivity|].
      f_equal. rewrite (perm_minus_revsg G GL _ (wff_valid_sec G GL R Y _ WY Sy)).
      cbn [map]. change (spar G []) with false. rewrite andb_false_r, xorb_false_r.
      now destruct (count_odd G (map fst cl) _), (revsg G (map fst cl)), (fparity G R Y). }
    cbn [length seq] in Ez. rewrite app_nil_r, Nat.add_0_r in Ez.
    assert (En : length ixl = n).
    { unfold n. rewrite <- (same_val_ndim G R Y y0 SY). reflexivity. }
    rewrite En in Ez. exists z. split; [exact Ez|]. split; [exact Oz|exact Hz].
  Qed.

  (* ---- the norm of a chain of any length ---- *)
  Theorem network_norm_chain t1 l :
    wf_fermi G R t1 = true -> steps_ok G R (indices G R (fbase G R t1)) l ->
    distinct (foddpos G R t1 ++ chain_labels G R l) ->
    (l = [] -> sorted_by fop_ltb (foddpos G R t1) = true) ->
    exists yn cn z,
      chain_contract G R t1 l = Some yn
      /\ conj_chain G R (f_conj G R t1 true false) l = Some cn
      /\ chain_norm G R t1 l = Some z
      /\ let ixn := chain_ixs G R (indices G R (fbase G R t1)) l in
         wf_fermi G R (reindex G R yn ixn) = true
         /\ map (idual G) ixn = map (idual G) (indices G R (fbase G R yn))
         /\ Permutation (foddpos G R yn) (foddpos G R t1 ++ chain_labels G R l)
         /\ foddpos G R cn = foddpos G R (f_conj G R yn true false)
         /\ (forall cs, coords_ok G ixn cs = true -> VV cn cs = VV (f_conj G R yn true false) cs)
         /\ foddpos G R z = []
         /\ a_scalar G R (f_value G R z)
            = rsg (n_dual (foddpos G R t1 ++ chain_labels G R l)) (norm_sum_l G R (reindex G R yn ixn)).
  Proof.
    intros W1 HS D Hs.
    destruct (chain_bra l t1 (cjj t1) t1 (cjj t1) (bra_of_self t1 W1) (same_val_refl G R _) (same_val_refl G R _) HS D)
      as [yn [cn (En & Ecn & HI)]].
    cbv zeta in HI. destruct HI as (Bn & SVn & SVcn & Pn & SSn).
    set (ixn := chain_ixs G R (indices G R (fbase G R t1)) l) in *.
    set (Yn := reindex G R yn ixn) in *. set (Cn := reindex G R cn (map (iconj G) ixn)) in *.
    assert (Hlab : labels_ok (foddpos G R Yn)).
    { change (foddpos G R Yn) with (foddpos G R yn). split.
      - destruct l as [|s l'].
        + cbn [chain_contract] in En. injection En as <-. now apply Hs.
        + apply SS_sorted_by, SSn. discriminate.
      - apply (distinct_perm _ _ (Permutation_sym Pn)), D. }
    destruct (bra_closing Yn Cn yn cn Bn Hlab SVn SVcn) as [z (Ez & Oz & Hz)].
    exists yn, cn, z. split; [exact En|]. split; [exact Ecn|].
    split; [unfold chain_norm; fold (cjj t1); rewrite En, Ecn; exact Ez|].
    cbv zeta. split; [exact (br_wfY _ _ Bn)|]. split; [exact (sv_duals _ _ _ _ SVn)|]. split; [exact Pn|].
    split.
    { fold (cjj yn). unfold cj. rewrite cj_oddpos. change (foddpos G R cn) with (foddpos G R Cn).
      rewrite (br_odd _ _ Bn). reflexivity. }
    split.
    { intros cs Hcs. rewrite <- (same_val_V G R Cn cn SVcn). rewrite (br_val _ _ Bn cs Hcs).
      apply (same_val_V G R _ _ (same_val_cj G R Yn yn SVn)). }
    split; [exact Oz|]. rewrite Hz. change (foddpos G R Yn) with (foddpos G R yn).
    now rewrite (n_dual_perm _ _ Pn).
  Qed.
End Chain.

(* ---- corollaries: the executable right-hand side, and constructor labels ---- *)
Section ChainCor.
  Context (G : Symmetry) (GL : GroupLaws G) (OL : OrderProofs.OrderLaws G).
  Context (R : Ring) (NL : NegLaws R) (RL : SumLaws R) (CL : CommLaws R) (CJ : ConjLaws R).
  Notation farr := (farray G R).

  Lemma norm2_reindex (y : farr) ixs : a_norm2 G R (f_value G R (reindex G R y ixs)) = a_norm2 G R (f_value G R y).
  Proof. unfold a_norm2. now rewrite !(blocks_f_value G R). Qed.

  Lemma norm_sum_l_wf (Y : farr) : wf_fermi G R Y = true -> norm_sum_l G R Y = a_norm2 G R (f_value G R Y).
  Proof.
    intros W. pose proof (wff_base G R Y W) as Wb.
    apply (norm_sum_l_norm2 G GL R RL (rmul_comm R CL) Y Wb).
    apply (StructProofs.wf_tables_nodup G GL R (OrderProofs.st_irrefl _ OL) (OrderProofs.st_trans _ OL) _ Wb).
  Qed.

  (* <N|N> = (-1)^(number of conjugated labels) |y_n|^2, |y_n|^2 = the sum over all stored entries *)
  Theorem network_norm_chain_norm2 (t1 : farr) (l : list (cstep G R)) :
    wf_fermi G R t1 = true -> steps_ok G R (indices G R (fbase G R t1)) l ->
    distinct (foddpos G R t1 ++ chain_labels G R l) ->
    (l = [] -> sorted_by fop_ltb (foddpos G R t1) = true) ->
    exists yn z,
      chain_contract G R t1 l = Some yn /\ chain_norm G R t1 l = Some z
      /\ foddpos G R z = []
      /\ a_scalar G R (f_value G R z)
         = rsgn R (n_dual (foddpos G R t1 ++ chain_labels G R l)) (a_norm2 G R (f_value G R yn)).
  Proof.
    intros W1 HS D Hs.
    destruct (network_norm_chain G GL OL R NL RL CL CJ t1 l W1 HS D Hs) as [yn [cn [z (En & _ & Ez & H)]]].
    cbv zeta in H. destruct H as (Wn & _ & _ & _ & _ & Oz & Hz).
    exists yn, z. split; [exact En|]. split; [exact Ez|]. split; [exact Oz|].
    rewrite Hz, (norm_sum_l_wf _ Wn). now rewrite norm2_reindex.
  Qed.

  (* all labels non-conjugated (what constructors produce): no sign *)
  Corollary network_norm_chain_ket (t1 : farr) (l : list (cstep G R)) :
    wf_fermi G R t1 = true -> steps_ok G R (indices G R (fbase G R t1)) l ->
    distinct (foddpos G R t1 ++ chain_labels G R l) -> labels_ket (foddpos G R t1 ++ chain_labels G R l) ->
    (l = [] -> sorted_by fop_ltb (foddpos G R t1) = true) ->
    exists yn z,
      chain_contract G R t1 l = Some yn /\ chain_norm G R t1 l = Some z
      /\ foddpos G R z = []
      /\ a_scalar G R (f_value G R z) = a_norm2 G R (f_value G R yn).
  Proof.
    intros W1 HS D K Hs.
    destruct (network_norm_chain_norm2 t1 l W1 HS D Hs) as [yn [z (En & Ez & Oz & Hz)]].
    exists yn, z. split; [exact En|]. split; [exact Ez|]. split; [exact Oz|].
    rewrite Hz, (n_dual_all_nondual _ K). reflexivity.
  Qed.
End ChainCor.

(* ================================================================ part 4 *)
(* Route independence of the norm for a 3-chain a - b - c (C04b's associativity): contracting
   (a . b) . c with the bra conj c, conj b, conj a absorbed in the reversed order, or a . (b . c)
   with the bra conj (b . c), conj a, gives the same number, (-1)^(#conjugated labels) |[[a b c]]|^2. *)
Section Route3.
  Context (G : Symmetry) (GL : GroupLaws G) (OL : OrderProofs.OrderLaws G).
  Context (R : Ring) (NL : NegLaws R) (RL : SumLaws R) (CL : CommLaws R) (CJ : ConjLaws R).
  Notation farr := (farray G R).
  Notation ix_d := (dflt_index G).
  Notation cspec := (ceqb_eq G GL).
  Notation VV := (V G R).

  Context (a b c : farr) (aa ab bb cb : list nat).
  Context (Wa : wf_fermi G R a = true) (Wb : wf_fermi G R b = true) (Wc : wf_fermi G R c = true).
  Context (Pab : pair_ok G R a b aa ab) (Pbc : pair_ok G R b c bb cb).
  Context (Hdisj : forall j, In j ab -> ~ In j bb).
  Context (D : distinct (foddpos G R a ++ foddpos G R b ++ foddpos G R c)).

  Let ixa := indices G R (fbase G R a).
  Let ixb := indices G R (fbase G R b).
  Let ixc := indices G R (fbase G R c).
  Let nl := length (rest_axes (ndim G R (fbase G R a)) aa).
  Let bb1 := map (fun j => nl + index_of j (rest_axes (ndim G R (fbase G R b)) ab)) bb.
  Let ab2 := map (fun j => index_of j (rest_axes (ndim G R (fbase G R b)) bb)) ab.
  Let y1ix := free_ixs G R a b aa ab.
  Let y2ix := free_ixs G R b c bb cb.
  Let ix3 := without_axes ixa aa ++ without_axes ixb (ab ++ bb) ++ without_axes ixc cb.

  Lemma route3_tables1 : without_axes y1ix bb1 ++ without_axes ixc cb = ix3.
  Proof.
    unfold ix3. rewrite app_assoc. f_equal.
    rewrite (without_axes_take ix_d y1ix).
    assert (Ly : length y1ix = nl + length (rest_axes (ndim G R (fbase G R b)) ab)).
    { unfold y1ix, free_ixs. rewrite app_length, !(without_axes_take ix_d), !(length_take_axes ix_d). reflexivity. }
    rewrite Ly. unfold bb1, nl. rewrite (as_rest1 G R a b c aa ab bb cb Pbc Hdisj). rewrite take_axes_app. f_equal.
    - assert (Ll : length (without_axes ixa aa) = length (rest_axes (ndim G R (fbase G R a)) aa)).
      { rewrite (without_axes_take ix_d), (length_take_axes ix_d). reflexivity. }
      rewrite <- Ll. unfold y1ix, free_ixs. fold ixa. apply (take_app_l ix_d).
    - unfold y1ix. rewrite (as_take_y1 G R a b a aa ab bb [] Hdisj _ (as_mb_in_rb G R b ab bb)).
      fold ixb. now rewrite (without_axes_take ix_d ixb).
  Qed.

  Lemma route3_tables2 : without_axes ixa aa ++ without_axes y2ix ab2 = ix3.
  Proof.
    unfold ix3. f_equal.
    rewrite (without_axes_take ix_d y2ix).
    assert (Ly : length y2ix = length (rest_axes (ndim G R (fbase G R b)) bb) + length (rest_axes (ndim G R (fbase G R c)) cb)).
    { unfold y2ix, free_ixs. rewrite app_length, !(without_axes_take ix_d), !(length_take_axes ix_d). reflexivity. }
    rewrite Ly. unfold ab2. rewrite (as_rest2 G R a b c aa ab bb cb Pab Hdisj). rewrite take_axes_app. f_equal.
    - unfold y2ix. rewrite (as_take_y2 G R b c bb cb _ (as_mb_in_lb G R b ab bb)).
      fold ixb. now rewrite (without_axes_take ix_d ixb).
    - assert (Ll : length (without_axes ixb bb) = length (rest_axes (ndim G R (fbase G R b)) bb)).
      { rewrite (without_axes_take ix_d), (length_take_axes ix_d). reflexivity. }
      assert (Lr : length (without_axes ixc cb) = length (rest_axes (ndim G R (fbase G R c)) cb)).
      { rewrite (without_axes_take ix_d), (length_take_axes ix_d). reflexivity. }
      rewrite <- Ll, <- Lr. unfold y2ix, free_ixs. fold ixb ixc. apply (take_app_r ix_d).
  Qed.

  Theorem network_norm_route3 :
    exists y12 y2 z1 z2,
      chain_contract G R a [(b, aa, ab); (c, bb1, cb)] = Some y12
      /\ f_tensordot G R b c (naxes bb cb) MBlockwise = Some y2
      /\ chain_norm G R a [(b, aa, ab); (c, bb1, cb)] = Some z1
      /\ chain_norm G R a [(reindex G R y2 y2ix, aa, ab2)] = Some z2
      /\ foddpos G R z1 = [] /\ foddpos G R z2 = []
      /\ a_scalar G R (f_value G R z1) = a_scalar G R (f_value G R z2)
      /\ a_scalar G R (f_value G R z1)
         = rsgn R (n_dual (foddpos G R a ++ foddpos G R b ++ foddpos G R c)) (a_norm2 G R (f_value G R y12)).
  Proof.
    (* ---- route 1 ---- *)
    set (l1 := [(b, aa, ab); (c, bb1, cb)] : list (cstep G R)).
    assert (HS1 : steps_ok G R (indices G R (fbase G R a)) l1).
    { cbn [steps_ok l1]. split; [exact Wb|]. split; [apply (proj1 (pair_ok_ix G R a b aa ab) Pab)|].
      split; [exact Wc|]. split; [|exact I].
      apply (proj1 (pair_ok_ix G R (reindex G R a y1ix) c bb1 cb)).
      apply (as_pair1 G R a b c aa ab bb cb Pbc Hdisj). reflexivity. }
    assert (D1 : distinct (foddpos G R a ++ chain_labels G R l1)).
    { cbn [chain_labels l1]. now rewrite app_nil_r. }
    destruct (network_norm_chain G GL OL R NL RL CL CJ a l1 Wa HS1 D1 ltac:(discriminate))
      as [yn1 [cn1 [z1 (En1 & _ & Ez1 & H1)]]]. cbv zeta in H1.
    destruct H1 as (Wn1 & Du1 & Pn1 & _ & _ & Oz1 & Hz1).
    (* ---- route 2 ---- *)
    destruct (tdot_main G GL OL R NL RL b c bb cb Wb Wc Pbc (as_D_bc G R a b c D))
      as [y2 [m2 (E2 & _ & PL2 & W2 & Du2 & _ & _)]].
    fold y2ix in W2, Du2. set (Y2 := reindex G R y2 y2ix) in *.
    set (l2 := [(Y2, aa, ab2)] : list (cstep G R)).
    pose proof (as_pair2 G R a b c aa ab bb cb Pab Hdisj Y2 eq_refl) as P2. fold ab2 in P2.
    assert (HS2 : steps_ok G R (indices G R (fbase G R a)) l2).
    { cbn [steps_ok l2]. split; [exact W2|]. split; [|exact I]. apply (proj1 (pair_ok_ix G R a Y2 aa ab2) P2). }
    assert (D2 : distinct (foddpos G R a ++ chain_labels G R l2)).
    { cbn [chain_labels l2]. rewrite app_nil_r. change (foddpos G R Y2) with (foddpos G R y2).
      apply (distinct_perm _ _ (Permutation_app_head _ (Permutation_sym PL2))). exact D. }
    destruct (network_norm_chain G GL OL R NL RL CL CJ a l2 Wa HS2 D2 ltac:(discriminate))
      as [yn2 [cn2 [z2 (En2 & _ & Ez2 & H2)]]]. cbv zeta in H2.
    destruct H2 as (Wn2 & Du2' & Pn2 & _ & _ & Oz2 & Hz2).
    (* ---- C04b: the two kets agree at every coordinate ---- *)
    destruct (assoc_chain G GL OL R NL RL CL a b c aa ab bb cb Wa Wb Wc Pab Pbc Hdisj D)
      as [y1 [y12 [y2' [y21 (F1 & F2 & F3 & F4 & _ & FV)]]]].
    fold nl bb1 ab2 in F2, F4.
    rewrite E2 in F3. injection F3 as <-.
    cbn [chain_contract l1] in En1. rewrite F1, F2 in En1. injection En1 as <-.
    cbn [chain_contract l2] in En2.
    destruct (f_tensordot G R a Y2 (naxes aa ab2) MBlockwise) as [yn2'|] eqn:En2'; [|discriminate En2].
    injection En2 as ->. rename En2' into En2.
    pose proof (same_val_reindex G R y2 y2ix Du2) as SV2. fold Y2 in SV2.
    destruct (same_val_tdot_sv G GL R NL a a Y2 y2 (naxes aa ab2) aa ab2 yn2 (same_val_refl G R a) SV2
                (parse_naxes G R a Y2 aa ab2 P2) (wff_nodup G GL R a Wa) (wff_len G GL R a Wa)
                (wff_nodup G GL R Y2 W2) (wff_len G GL R Y2 W2)
                (po_nda _ _ _ _ _ _ P2) (po_lta _ _ _ _ _ _ P2) (po_ndb _ _ _ _ _ _ P2) (po_ltb _ _ _ _ _ _ P2)
                (po_dirs _ _ _ _ _ _ P2) En2) as [y21' [F4' S21]].
    rewrite F4 in F4'. injection F4' as <-.
    (* ---- the tables of both results ---- *)
    set (ixn1 := chain_ixs G R (indices G R (fbase G R a)) l1) in *.
    set (ixn2 := chain_ixs G R (indices G R (fbase G R a)) l2) in *.
    assert (EI1 : ixn1 = ix3) by (unfold ixn1; cbn [chain_ixs l1]; fold ixa ixb ixc; apply route3_tables1).
    assert (EI2 : ixn2 = ix3) by (unfold ixn2; cbn [chain_ixs l2 Y2 reindex fbase indices]; fold ixa; apply route3_tables2).
    assert (HN : norm_sum_l G R (reindex G R y12 ixn1) = norm_sum_l G R (reindex G R yn2 ixn2)).
    { unfold norm_sum_l. cbn [reindex fbase indices]. rewrite EI1, EI2.
      assert (NDI : Forall (fun ix => NoDup (icharges G ix)) ix3).
      { pose proof (wff_ix_nodup G GL OL R _ (seq 0 (length ixn1)) Wn1) as H. cbn [reindex fbase indices] in H.
        rewrite take_axes_seq in H. now rewrite <- EI1. }
      apply (Tdot.rsum_ext R). intros cs Hcs.
      pose proof (In_all_coords G cspec _ cs NDI Hcs) as Hk. unfold ix3 in Hk.
      destruct (coords_ok_split G _ _ cs Hk) as [cl [cmr (-> & Hcl & Hcmr)]].
      destruct (coords_ok_split G _ _ cmr Hcmr) as [cm [cr (-> & Hcm & Hcr)]].
      fold (VV (reindex G R y12 ix3) (cl ++ cm ++ cr)) (VV (reindex G R yn2 ix3) (cl ++ cm ++ cr)).
      rewrite <- EI1 at 1 2. rewrite <- EI2.
      rewrite (same_val_V G R _ _ (same_val_reindex G R y12 ixn1 Du1)).
      rewrite (same_val_V G R _ _ (same_val_reindex G R yn2 ixn2 Du2')).
      rewrite <- (same_val_V G R _ _ S21).
      now rewrite (FV cl cm cr Hcl Hcm Hcr). }
    assert (EN : n_dual (foddpos G R a ++ chain_labels G R l2) = n_dual (foddpos G R a ++ chain_labels G R l1)).
    { cbn [chain_labels l1 l2]. rewrite !app_nil_r. change (foddpos G R Y2) with (foddpos G R y2).
      apply n_dual_perm, Permutation_app_head, PL2. }
    exists y12, y2, z1, z2. split; [cbn [chain_contract l1]; now rewrite F1, F2|]. split; [exact E2|]. split; [exact Ez1|]. split; [exact Ez2|].
    split; [exact Oz1|]. split; [exact Oz2|].
    split; [rewrite Hz1, Hz2, EN, HN; reflexivity|].
    rewrite Hz1. cbn [chain_labels l1]. rewrite app_nil_r. f_equal.
    rewrite (norm_sum_l_wf G GL OL R RL CL _ Wn1). apply norm2_reindex.
  Qed.
End Route3.

(* ================================================================ examples *)
(* Z2, Gaussian-integer data: the chain a - b - c of three ODD tensors (labels 7, 5, 3) with pending
   signs and missing blocks; a = ConjNetEx.ga (ket, bra, ket, bra), b = ConjNetEx.gb (bra, bra, ket),
   c = (bra, ket, bra); bonds a2-b0 and b2-c0; five dangling legs of both directions.
   U1, integer data: a = (bra, ket) charge -1, b = (bra, ket) charge +1, c = (bra, ket) charge +1. *)
Module ChainEx.
  Import Ex ConjNetEx.
  Definition ixc := [Index Z2 [(0%Z, 2); (1%Z, 1)] true None; Index Z2 [(0%Z, 1); (1%Z, 2)] false None;
                     Index Z2 [(0%Z, 1); (1%Z, 1)] true None].
  Definition gc : farray Z2 GRing :=
    mkF Z2 GRing (gmk ixc 1%Z [[1; 0; 0]; [0; 1; 0]; [1; 1; 1]]%Z 200) [[0; 1; 0]%Z] [([3%Z], false)].
  Definition l3 : list (cstep Z2 GRing) := [(gb, [2], [0]); (gc, [4], [0])].

  Lemma ipo_intro {G : Symmetry} (ixa ixb : list (index G)) aa ab :
    nodupb Nat.eqb aa = true -> forallb (fun i => Nat.ltb i (length ixa)) aa = true ->
    nodupb Nat.eqb ab = true -> forallb (fun i => Nat.ltb i (length ixb)) ab = true ->
    length aa = length ab ->
    Forall2 (fun i j => idual G (nth i ixa (dflt_index G)) = negb (idual G (nth j ixb (dflt_index G)))) aa ab ->
    map (chargemap G) (take_axes (dflt_index G) ixa aa) = map (chargemap G) (take_axes (dflt_index G) ixb ab) ->
    ix_pair_ok G ixa ixb aa ab.
  Proof.
    intros H1 H2 H3 H4 H5 H6 H7. constructor; try assumption.
    - apply nodup_nats, H1.
    - apply all_lt, H2.
    - apply nodup_nats, H3.
    - apply all_lt, H4.
  Qed.

  Example chain3_hyps :
    wf_fermi Z2 GRing ga = true
    /\ steps_ok Z2 GRing (indices Z2 GRing (fbase Z2 GRing ga)) l3
    /\ distinct (foddpos Z2 GRing ga ++ chain_labels Z2 GRing l3)
    /\ labels_ket (foddpos Z2 GRing ga ++ chain_labels Z2 GRing l3)
    /\ (l3 = [] -> sorted_by fop_ltb (foddpos Z2 GRing ga) = true).
  Proof.
    split; [reflexivity|]. split.
    { cbn [steps_ok l3]. split; [reflexivity|]. split; [apply ipo_intro; try reflexivity; repeat constructor|].
      split; [reflexivity|]. split; [apply ipo_intro; try reflexivity; repeat constructor|]. exact I. }
    split; [unfold distinct, labels; cbn; repeat constructor; cbn; intuition discriminate|].
    split; [|discriminate].
    intros c [<-|[<-|[<-|[]]]]; reflexivity.
  Qed.

  (* everything computed: the ket, the bra (= conj of the ket, value by value), the norm *)
  Definition chain_report {G : Symmetry} {R : Ring} (t1 : farray G R) (l : list (cstep G R)) :=
    match chain_contract G R t1 l, conj_chain G R (f_conj G R t1 true false) l, chain_norm G R t1 l with
    | Some yn, Some cn, Some z =>
        Some (farray_eqb G R cn (f_conj G R yn true false), foddpos G R yn, fparity G R yn,
              map (idual G) (indices G R (fbase G R yn)),
              a_scalar G R (f_value G R z), a_norm2 G R (f_value G R yn), foddpos G R z)
    | _, _, _ => None
    end.
  Example chain3_values :
    chain_report ga l3
    = Some (true, [([3], false); ([5], false); ([7], false)]%Z, true, [false; true; true; true; false; true],
            (43755998562908120, 0)%Z, (43755998562908120, 0)%Z, []).
  Proof. vm_compute. reflexivity. Qed.

  (* the theorem at the instance *)
  Example chain3_inst : exists yn z,
    chain_contract Z2 GRing ga l3 = Some yn /\ chain_norm Z2 GRing ga l3 = Some z
    /\ foddpos Z2 GRing z = []
    /\ a_scalar Z2 GRing (f_value Z2 GRing z) = a_norm2 Z2 GRing (f_value Z2 GRing yn).
  Proof.
    destruct chain3_hyps as (W & HS & D & K & Hs).
    exact (network_norm_chain_ket Z2 Z2_laws OrderProofs.Z2_order GRing GRing_neg_laws GRing_sum_laws GRing_comm_laws
             GRing_conj_laws ga l3 W HS D K Hs).
  Qed.

  (* without the sign flips of the bra-like dangling legs the number is wrong *)
  Example chain3_noflip :
    match chain_contract Z2 GRing ga l3, conj_chain Z2 GRing (f_conj Z2 GRing ga true false) l3 with
    | Some yn, Some cn =>
        option_map (fun z => a_scalar Z2 GRing (f_value Z2 GRing z))
          (f_tensordot Z2 GRing cn yn (naxes (seq 0 6) (seq 0 6)) MBlockwise)
    | _, _ => None
    end = Some (4786444034670696, 0)%Z.
  Proof. vm_compute. reflexivity. Qed.

  (* U1: three odd tensors, one conjugated label: the sign (-1)^1 *)
  Definition uc : farray U1 ZRing :=
    mkF U1 ZRing (mkA U1 ZRing
      [Index U1 [(0%Z, 1); (1%Z, 3)] true None; Index U1 [(1%Z, 2); (2%Z, 1)] false None] 1%Z
      [([0; 1]%Z, @mkT ZRing [1; 2] [2; -5]%Z); ([1; 2]%Z, @mkT ZRing [3; 1] [1; 4; -2]%Z)])
      [[1; 2]%Z] [([4]%Z, true)].
  Definition lu : list (cstep U1 ZRing) := [(ub, [1], [0]); (uc, [1], [0])].
  Example u1_chain_hyps :
    wf_fermi U1 ZRing ua = true
    /\ steps_ok U1 ZRing (indices U1 ZRing (fbase U1 ZRing ua)) lu
    /\ distinct (foddpos U1 ZRing ua ++ chain_labels U1 ZRing lu)
    /\ (lu = [] -> sorted_by fop_ltb (foddpos U1 ZRing ua) = true).
  Proof.
    split; [reflexivity|]. split.
    { cbn [steps_ok lu]. split; [reflexivity|]. split; [apply ipo_intro; try reflexivity; repeat constructor|].
      split; [reflexivity|]. split; [apply ipo_intro; try reflexivity; repeat constructor|]. exact I. }
    split; [unfold distinct, labels; cbn; repeat constructor; cbn; intuition discriminate|discriminate].
  Qed.
  Example u1_chain_values :
    chain_report ua lu
    = Some (true, [([4], true); ([0; 7], false); ([2], false)]%Z, true, [true; false], (-65975)%Z, 65975%Z, [])
    /\ n_dual (foddpos U1 ZRing ua ++ chain_labels U1 ZRing lu) = true.
  Proof. vm_compute. split; reflexivity. Qed.
  Example u1_chain_inst : exists yn z,
    chain_contract U1 ZRing ua lu = Some yn /\ chain_norm U1 ZRing ua lu = Some z
    /\ foddpos U1 ZRing z = []
    /\ a_scalar U1 ZRing (f_value U1 ZRing z)
       = rsgn ZRing (n_dual (foddpos U1 ZRing ua ++ chain_labels U1 ZRing lu)) (a_norm2 U1 ZRing (f_value U1 ZRing yn)).
  Proof.
    destruct u1_chain_hyps as (W & HS & D & Hs).
    exact (network_norm_chain_norm2 U1 U1_laws OrderProofs.U1_order ZRing ZRing_neg_laws ZRing_sum_laws ZRing_comm_laws
             ZRing_conj_laws ua lu W HS D Hs).
  Qed.

  (* route independence: (a . b) . c against a . (b . c), bra networks accordingly *)
  Example route3_hyps :
    pair_ok Z2 GRing ga gb [2] [0] /\ pair_ok Z2 GRing gb gc [2] [0] /\ (forall j, In j [0] -> ~ In j [2])
    /\ distinct (foddpos Z2 GRing ga ++ foddpos Z2 GRing gb ++ foddpos Z2 GRing gc).
  Proof.
    split; [apply (proj2 (pair_ok_ix Z2 GRing ga gb [2] [0])); apply ipo_intro; try reflexivity; repeat constructor|].
    split; [apply (proj2 (pair_ok_ix Z2 GRing gb gc [2] [0])); apply ipo_intro; try reflexivity; repeat constructor|].
    split; [intros j [<-|[]] [E|[]]; discriminate E|].
    unfold distinct, labels; cbn; repeat constructor; cbn; intuition discriminate.
  Qed.
  Example route3_values :
    match f_tensordot Z2 GRing gb gc (naxes [2] [0]) MBlockwise with
    | Some y2 =>
        match chain_norm Z2 GRing ga l3,
              chain_norm Z2 GRing ga [(reindex Z2 GRing y2 (free_ixs Z2 GRing gb gc [2] [0]), [2], [0])] with
        | Some z1, Some z2 => Some (a_scalar Z2 GRing (f_value Z2 GRing z1), a_scalar Z2 GRing (f_value Z2 GRing z2))
        | _, _ => None
        end
    | None => None
    end = Some ((43755998562908120, 0), (43755998562908120, 0))%Z.
  Proof. vm_compute. reflexivity. Qed.
  Example route3_inst : exists y12 y2 z1 z2,
    chain_contract Z2 GRing ga l3 = Some y12
    /\ f_tensordot Z2 GRing gb gc (naxes [2] [0]) MBlockwise = Some y2
    /\ chain_norm Z2 GRing ga l3 = Some z1
    /\ chain_norm Z2 GRing ga [(reindex Z2 GRing y2 (free_ixs Z2 GRing gb gc [2] [0]), [2], [0])] = Some z2
    /\ a_scalar Z2 GRing (f_value Z2 GRing z1) = a_scalar Z2 GRing (f_value Z2 GRing z2).
  Proof.
    destruct route3_hyps as (Pab & Pbc & Hd & D).
    destruct (network_norm_route3 Z2 Z2_laws OrderProofs.Z2_order GRing GRing_neg_laws GRing_sum_laws GRing_comm_laws
                GRing_conj_laws ga gb gc [2] [0] [2] [0] eq_refl eq_refl eq_refl Pab Pbc Hd D)
      as [y12 [y2 [z1 [z2 (E1 & E2 & E3 & E4 & _ & _ & H & _)]]]].
    exists y12, y2, z1, z2. split; [exact E1|]. split; [exact E2|]. split; [exact E3|]. split; [exact E4|exact H].
  Qed.
End ChainEx.
