(* Proofs/FusedProofs.v — property C06: the fused contraction strategy
   (`Model/Fused.v`, tdot_fused2) against the blockwise one.
   Part 1: sector alignment (drop_misaligned) never changes a blockwise
           contraction: same block pairs, same accumulated blocks, same charge,
           same pruned index tables (full record equality).
   Part 2: after alignment both operands see the same contracted sub-sectors, so
           the fused contracted index of the two operands has the same
           (sub-sector, fused charge, size) list, hence the same chargemap and
           the same extents; the two fused legs point in opposite directions.
   Part 2': the fused operands (one leg per group) are again a contractible pair.
   Part 3: the fused strategy: reduction to the aligned operands, charge, the
           empty case at value level.
   Part 4: mode selection of the front end. *)
From SV Require Import Base.Prelude Base.Sym Base.Tensor Model.Sectors Model.Array Model.Wf Model.Fused
  Model.SymInst Proofs.TensorProofs Proofs.SymLaws Proofs.Tdot Proofs.OrderProofs Proofs.FuseTensor
  Proofs.FuseProofs.
From Coq Require Import Permutation Sorting Lia.
Local Open Scope nat_scope.

(* ------------------------------------------------------------------ *)
(* generic list facts *)
Lemma flat_map_nil_all {A B} (f : A -> list B) l : (forall x, In x l -> f x = []) -> flat_map f l = [].
Proof.
  induction l as [|x l IH]; intros H; cbn [flat_map]; [reflexivity|].
  rewrite (H x) by (now left). cbn [app]. apply IH. intros y Hy. apply H. now right.
Qed.

Lemma flat_map_ext_on {A B} (f g : A -> list B) l : (forall x, In x l -> f x = g x) -> flat_map f l = flat_map g l.
Proof.
  induction l as [|x l IH]; intros H; cbn [flat_map]; [reflexivity|].
  rewrite (H x) by (now left). f_equal. apply IH. intros y Hy. apply H. now right.
Qed.

Lemma flat_map_filter_nil {A B} (f : A -> list B) (P : A -> bool) l :
  (forall x, In x l -> P x = false -> f x = []) -> flat_map f (filter P l) = flat_map f l.
Proof.
  induction l as [|x l IH]; intros H; cbn [filter flat_map]; [reflexivity|].
  assert (IH' : flat_map f (filter P l) = flat_map f l).
  { apply IH. intros y Hy. apply H. now right. }
  destruct (P x) eqn:E; cbn [flat_map].
  - now rewrite IH'.
  - rewrite (H x (or_introl eq_refl) E). cbn [app]. exact IH'.
Qed.

Lemma filter_filter_on {A} (f1 f2 f : A -> bool) l :
  (forall x, In x l -> f1 x && f2 x = f x) -> filter f2 (filter f1 l) = filter f l.
Proof.
  induction l as [|x l IH]; intros H; cbn [filter]; [reflexivity|].
  assert (IH' : filter f2 (filter f1 l) = filter f l).
  { apply IH. intros y Hy. apply H. now right. }
  pose proof (H x (or_introl eq_refl)) as Hx.
  destruct (f1 x); cbn [andb filter] in *.
  - rewrite Hx. destruct (f x); now rewrite IH'.
  - rewrite <- Hx. exact IH'.
Qed.

Lemma map_fst_filter {A B} (h : A -> bool) (l : list (A * B)) :
  map fst (filter (fun p => h (fst p)) l) = filter h (map fst l).
Proof.
  induction l as [|p l IH]; cbn [filter map]; [reflexivity|].
  destruct (h (fst p)); cbn [map]; now rewrite IH.
Qed.

Lemma mem_filter {K} (e : K -> K -> bool) (He : eqb_spec_on e) (g : K -> bool) x l :
  mem e x (filter g l) = mem e x l && g x.
Proof.
  induction l as [|y l IH]; cbn [filter mem]; [reflexivity|].
  destruct (e x y) eqn:E.
  - apply He in E. subst y. destruct (g x) eqn:Eg; cbn [mem orb andb].
    + now rewrite (keqb_refl e He).
    + rewrite IH. cbn [orb]. now rewrite !andb_false_r.
  - cbn [orb]. destruct (g y); cbn [mem]; [rewrite E; cbn [orb]|]; exact IH.
Qed.

Lemma mem_incl {K} (e : K -> K -> bool) (He : eqb_spec_on e) x l1 l2 :
  incl l1 l2 -> mem e x l1 = true -> mem e x l2 = true.
Proof. intros Hi H. apply (mem_In e He). apply Hi. now apply (mem_In e He). Qed.

(* ------------------------------------------------------------------ *)
(* Part 1: alignment does not change a blockwise contraction *)
Section Align.
  Context (G : Symmetry) (R : Ring).
  Context (Hc : eqb_spec_on (ceqb G)).
  Notation sector := (list (C G)).
  Notation keq := (list_eqb (ceqb G)).
  Notation idc := (ident G).
  Notation dflt := (dflt_index G).
  Notation arr := (aarray G R).

  Lemma Hkq : eqb_spec_on keq.
  Proof. apply list_eqb_spec, Hc. Qed.

  (* the two aligned operands *)
  Definition al_a (a b : arr) (aa ab : list nat) : arr := fst (drop_misaligned G R a b aa ab).
  Definition al_b (a b : arr) (aa ab : list nat) : arr := snd (drop_misaligned G R a b aa ab).

  Lemma drop_misaligned_pair a b aa ab : drop_misaligned G R a b aa ab = (al_a a b aa ab, al_b a b aa ab).
  Proof. reflexivity. Qed.

  (* contracted sub-sectors seen by an operand *)
  Definition con_subs (x : arr) (axes : list nat) : list sector :=
    map (fun s => take_axes idc s axes) (sectors G R x).
  Definition allowed (a b : arr) (aa ab : list nat) (s : sector) : bool :=
    mem keq s (con_subs a aa) && mem keq s (con_subs b ab).

  Lemma blocks_al_a a b aa ab :
    blocks G R (al_a a b aa ab) = filter (fun p => allowed a b aa ab (take_axes idc (fst p) aa)) (blocks G R a).
  Proof. reflexivity. Qed.
  Lemma blocks_al_b a b aa ab :
    blocks G R (al_b a b aa ab) = filter (fun p => allowed a b aa ab (take_axes idc (fst p) ab)) (blocks G R b).
  Proof. reflexivity. Qed.
  Lemma indices_al_a a b aa ab :
    indices G R (al_a a b aa ab) = prune_indices G (indices G R a) (sectors G R (al_a a b aa ab)).
  Proof. reflexivity. Qed.
  Lemma indices_al_b a b aa ab :
    indices G R (al_b a b aa ab) = prune_indices G (indices G R b) (sectors G R (al_b a b aa ab)).
  Proof. reflexivity. Qed.
  Lemma charge_al_a a b aa ab : charge G R (al_a a b aa ab) = charge G R a.
  Proof. reflexivity. Qed.
  Lemma charge_al_b a b aa ab : charge G R (al_b a b aa ab) = charge G R b.
  Proof. reflexivity. Qed.
  Lemma ndim_al_a a b aa ab : ndim G R (al_a a b aa ab) = ndim G R a.
  Proof. unfold ndim. rewrite indices_al_a. apply length_prune_indices. Qed.
  Lemma ndim_al_b a b aa ab : ndim G R (al_b a b aa ab) = ndim G R b.
  Proof. unfold ndim. rewrite indices_al_b. apply length_prune_indices. Qed.

  Lemma In_con_subs (x : arr) axes p : In p (blocks G R x) -> In (take_axes idc (fst p) axes) (con_subs x axes).
  Proof.
    intros H. unfold con_subs, sectors. rewrite map_map.
    apply in_map_iff. exists p. now split.
  Qed.

  (* a pair of blocks whose contracted sub-sectors agree survives the alignment *)
  Lemma partner_allowed a b aa ab sa sb :
    In sa (blocks G R a) -> In sb (blocks G R b) ->
    keq (take_axes idc (fst sa) aa) (take_axes idc (fst sb) ab) = true ->
    allowed a b aa ab (take_axes idc (fst sa) aa) = true /\
    allowed a b aa ab (take_axes idc (fst sb) ab) = true.
  Proof.
    intros Ha Hb E. apply Hkq in E.
    assert (H : allowed a b aa ab (take_axes idc (fst sa) aa) = true).
    { unfold allowed. apply andb_true_iff. split; apply (mem_In keq Hkq).
      - now apply In_con_subs.
      - rewrite E. now apply In_con_subs. }
    split; [exact H | now rewrite <- E].
  Qed.

  (* 1a. dropped blocks never meet a partner: the list of block pairs is unchanged *)
  Theorem drop_misaligned_pairs a b la aa ab rb :
    tdot_pairs G R (al_a a b aa ab) (al_b a b aa ab) la aa ab rb = tdot_pairs G R a b la aa ab rb.
  Proof.
    unfold tdot_pairs. rewrite blocks_al_a, blocks_al_b.
    rewrite flat_map_filter_nil.
    - apply flat_map_ext_on. intros sa Hsa. apply flat_map_filter_nil.
      intros sb Hsb Hdrop.
      destruct (keq (take_axes idc (fst sa) aa) (take_axes idc (fst sb) ab)) eqn:E; [|reflexivity].
      destruct (partner_allowed a b aa ab sa sb Hsa Hsb E) as [_ H]. congruence.
    - intros sa Hsa Hdrop. apply flat_map_nil_all. intros sb Hsb.
      apply filter_In in Hsb. destruct Hsb as [Hsb _].
      destruct (keq (take_axes idc (fst sa) aa) (take_axes idc (fst sb) ab)) eqn:E; [|reflexivity].
      destruct (partner_allowed a b aa ab sa sb Hsa Hsb E) as [H _]. congruence.
  Qed.

  (* keys of the accumulated dictionary come from the contributions *)
  Lemma acc_keys ps : forall acc k,
    In k (map fst (fold_left (acc_add G R) ps acc)) -> In k (map fst acc) \/ In k (map fst ps).
  Proof.
    induction ps as [|p ps IH]; intros acc k H; cbn [fold_left] in H; [now left|].
    apply IH in H. destruct H as [H|H]; [|right; now right].
    unfold acc_add in H. destruct (lookup keq (fst p) acc) as [t|] eqn:E.
    - rewrite (keys_dset_in keq Hkq) in H; [now left|].
      apply (OrderProofs.lookup_In keq Hkq) in E. apply (in_map fst) in E. exact E.
    - rewrite map_app in H. apply in_app_or in H. destruct H as [H|H]; [now left|].
      cbn [map In] in H. destruct H as [H|[]]. right. now left.
  Qed.

  (* ---- pruning an already pruned table ---- *)
  Definition prune1 (ix : index G) (present : list (C G)) : index G :=
    drop_charges G ix (filter (fun c => negb (mem (ceqb G) c present)) (icharges G ix)).

  Lemma nth_prune ixs secs i : i < length ixs ->
    nth i (prune_indices G ixs secs) dflt = prune1 (nth i ixs dflt) (map (fun s => nth i s idc) secs).
  Proof. intros Hi. now rewrite nth_prune_indices. Qed.

  Lemma prune1_prune1 ix P1 P2 : incl P2 P1 -> prune1 (prune1 ix P1) P2 = prune1 ix P2.
  Proof.
    intros Hinc. destruct ix as [cm d sub]. unfold prune1, icharges. cbn [drop_charges chargemap].
    set (I := map fst cm).
    set (h1 := fun c : C G => negb (mem (ceqb G) c (filter (fun c' => negb (mem (ceqb G) c' P1)) I))).
    assert (EI : map fst (filter (fun p : C G * nat => h1 (fst p)) cm) = filter h1 I)
      by (apply map_fst_filter).
    change (filter (fun p : C G * nat => negb (mem (ceqb G) (fst p) (filter (fun c' => negb (mem (ceqb G) c' P1)) I))) cm)
      with (filter (fun p : C G * nat => h1 (fst p)) cm).
    rewrite EI.
    assert (Hpt : forall c, h1 c && negb (mem (ceqb G) c (filter (fun c' => negb (mem (ceqb G) c' P2)) (filter h1 I)))
                        = negb (mem (ceqb G) c (filter (fun c' => negb (mem (ceqb G) c' P2)) I))).
    { intros c. unfold h1. rewrite !(mem_filter (ceqb G) Hc).
      destruct (mem (ceqb G) c P2) eqn:E2.
      - rewrite (mem_incl (ceqb G) Hc c P2 P1 Hinc E2). cbn [negb]. now rewrite !andb_false_r.
      - destruct (mem (ceqb G) c I), (mem (ceqb G) c P1); reflexivity. }
    f_equal.
    - apply filter_filter_on. intros p _. apply Hpt.
    - destruct sub as [[subs ext]|]; [|reflexivity]. f_equal. f_equal.
      apply (filter_filter_on (fun p : C G * list (sector * nat) => h1 (fst p))). intros p _. apply Hpt.
  Qed.

  Lemma prune_refine (X X' : list (index G)) (S2 : list sector) :
    length X' = length X ->
    (forall j, j < length X -> exists P1,
        nth j X' dflt = prune1 (nth j X dflt) P1 /\ incl (map (fun s => nth j s idc) S2) P1) ->
    prune_indices G X' S2 = prune_indices G X S2.
  Proof.
    intros Hlen H. apply (nth_ext _ _ dflt dflt).
    - now rewrite !length_prune_indices.
    - intros j Hj. rewrite length_prune_indices in Hj.
      rewrite nth_prune by exact Hj. rewrite nth_prune by (now rewrite <- Hlen).
      destruct (H j (eq_ind _ (fun m => j < m) Hj _ Hlen)) as (P1 & -> & Hinc).
      now apply prune1_prune1.
  Qed.

  Lemma nth_take_axes {A} (d : A) (l : list A) axes j : j < length axes ->
    nth j (take_axes d l axes) d = nth (nth j axes 0) l d.
  Proof. intros Hj. unfold take_axes. now rewrite (nth_map_lt _ axes j 0 d). Qed.

  (* 1b. the blockwise contraction of the aligned operands IS the blockwise
     contraction of the originals: blocks, charge and index tables *)
  Theorem drop_misaligned_blockwise a b la aa ab rb :
    la = rest_axes (ndim G R a) aa -> rb = rest_axes (ndim G R b) ab ->
    tdot_blockwise G R (al_a a b aa ab) (al_b a b aa ab) la aa ab rb = tdot_blockwise G R a b la aa ab rb.
  Proof.
    intros Hla Hrb. unfold tdot_blockwise.
    assert (Hkeys : forall s, In s (map fst (fold_left (acc_add G R)
                       (tdot_pairs G R (al_a a b aa ab) (al_b a b aa ab) la aa ab rb) [])) ->
              exists sa sb, In sa (blocks G R (al_a a b aa ab)) /\ In sb (blocks G R (al_b a b aa ab)) /\
                            s = take_axes idc (fst sa) la ++ take_axes idc (fst sb) rb).
    { intros s Hs. apply acc_keys in Hs. destruct Hs as [[]|Hs].
      apply in_map_iff in Hs. destruct Hs as (p & <- & Hp).
      unfold tdot_pairs in Hp. apply in_flat_map in Hp. destruct Hp as (sa & Hsa & Hp).
      apply in_flat_map in Hp. destruct Hp as (sb & Hsb & Hp).
      destruct (keq _ _); [|destruct Hp]. destruct Hp as [<-|[]]. now exists sa, sb. }
    rewrite (drop_misaligned_pairs a b la aa ab rb) in *.
    set (nb := fold_left (acc_add G R) (tdot_pairs G R a b la aa ab rb) []) in *.
    rewrite (charge_al_a a b aa ab), (charge_al_b a b aa ab). f_equal.
    rewrite !(without_axes_take dflt).
    rewrite indices_al_a, indices_al_b, !length_prune_indices.
    fold (ndim G R a) (ndim G R b). rewrite <- Hla, <- Hrb.
    set (a1 := al_a a b aa ab) in *. set (b1 := al_b a b aa ab) in *.
    set (SA := sectors G R a1). set (SB := sectors G R b1).
    apply prune_refine.
    - now rewrite !app_length, !length_take_axes.
    - intros j Hj. rewrite app_length, !length_take_axes in Hj.
      destruct (Nat.lt_ge_cases j (length la)) as [Hlt|Hge].
      + exists (map (fun s => nth (nth j la 0) s idc) SA).
        rewrite !app_nth1 by (now rewrite length_take_axes).
        rewrite !nth_take_axes by exact Hlt.
        assert (Hin : nth j la 0 < length (indices G R a)).
        { apply (In_rest_axes _ aa). fold (ndim G R a). rewrite <- Hla. now apply nth_In. }
        split; [now apply nth_prune|].
        intros c Hcin. apply in_map_iff in Hcin. destruct Hcin as (s & <- & Hs).
        destruct (Hkeys s Hs) as (sa & sb & Hsa & _ & ->).
        rewrite app_nth1 by (now rewrite length_take_axes). rewrite nth_take_axes by exact Hlt.
        apply in_map_iff. exists (fst sa). split; [reflexivity|]. unfold SA, sectors. now apply in_map.
      + assert (Hj' : j - length la < length rb) by lia.
        exists (map (fun s => nth (nth (j - length la) rb 0) s idc) SB).
        rewrite !app_nth2 by (now rewrite length_take_axes). rewrite !length_take_axes.
        rewrite !nth_take_axes by exact Hj'.
        assert (Hin : nth (j - length la) rb 0 < length (indices G R b)).
        { apply (In_rest_axes _ ab). fold (ndim G R b). rewrite <- Hrb. now apply nth_In. }
        split; [now apply nth_prune|].
        intros c Hcin. apply in_map_iff in Hcin. destruct Hcin as (s & <- & Hs).
        destruct (Hkeys s Hs) as (sa & sb & _ & Hsb & ->).
        rewrite app_nth2 by (now rewrite length_take_axes). rewrite length_take_axes.
        rewrite nth_take_axes by exact Hj'.
        apply in_map_iff. exists (fst sb). split; [reflexivity|]. unfold SB, sectors. now apply in_map.
  Qed.
End Align.

(* ------------------------------------------------------------------ *)
(* Part 2: after alignment both operands build the same fused contracted index *)
Lemma pairs_eq_by_key {K V} (L1 : list (K * V)) : forall L2,
  map fst L1 = map fst L2 ->
  (forall p q, In p L1 -> In q L2 -> fst p = fst q -> snd p = snd q) ->
  L1 = L2.
Proof.
  induction L1 as [|[k v] L1 IH]; intros [|[k' v'] L2] Hk Hv; cbn [map fst] in Hk; try discriminate; [reflexivity|].
  inversion Hk as [[Hk1 Hk2]]. subst k'.
  assert (v = v') by (apply (Hv (k, v) (k, v')); [now left | now left | reflexivity]). subst v'.
  f_equal. apply IH; [exact Hk2|]. intros p q Hp Hq. apply Hv; now right.
Qed.

Lemma hd_nth0 {A} (d : A) l : hd d l = nth 0 l d.
Proof. now destruct l. Qed.

Lemma lookup_filter_key {K V} (e : K -> K -> bool) (He : eqb_spec_on e) (h : K -> bool) k (d : list (K * V)) :
  lookup e k (filter (fun p => h (fst p)) d) = if h k then lookup e k d else None.
Proof.
  induction d as [|[k0 v0] d IH]; cbn [filter lookup fst]; [now destruct (h k)|].
  destruct (e k k0) eqn:E.
  - apply He in E. subst k0. destruct (h k) eqn:Eh; cbn [lookup].
    + now rewrite (keqb_refl e He).
    + exact IH.
  - destruct (h k0); cbn [lookup]; [rewrite E|]; exact IH.
Qed.

Section SameTables.
  Context (G : Symmetry) (GL : GroupLaws G) (OL : OrderLaws G).
  Notation sector := (list (C G)).
  Notation keq := (list_eqb (ceqb G)).
  Notation sec_ltb := (list_ltb (cltb G) (ceqb G)).
  Notation idc := (ident G).
  Notation dflt := (dflt_index G).

  (* the k-th leg of a group *)
  Definition leg (ixs : list (index G)) (g : list nat) (k : nat) : index G := nth (nth k g 0) ixs dflt.

  Section Core.
    Context (ixa ixb : list (index G)) (secsA secsB : list sector) (aa ab : list nat).
    Context (Hlen : length aa = length ab).
    Context (Hsame : forall ss, In ss (map (fun s => take_axes idc s aa) secsA) <->
                                In ss (map (fun s => take_axes idc s ab) secsB)).
    (* directions relative to the first leg of the group agree *)
    Context (Hrel : forall k, k < length aa ->
                Bool.eqb (idual G (leg ixa aa 0)) (idual G (leg ixa aa k)) =
                Bool.eqb (idual G (leg ixb ab 0)) (idual G (leg ixb ab k))).
    (* sizes agree on the charges that occur *)
    Context (Hsz : forall k ss, k < length aa -> In ss (map (fun s => take_axes idc s aa) secsA) ->
                size_of G (leg ixa aa k) (nth k ss idc) = size_of G (leg ixb ab k) (nth k ss idc)).

    Lemma SI_keys_iff ixs secs g k :
      In k (map fst (SI G ixs secs g)) <-> In k (map (fun s => take_axes idc s g) secs).
    Proof.
      split.
      - intros H. apply in_map_iff in H. destruct H as (p & <- & Hp).
        destruct (SI_entry G GL ixs secs g p Hp) as (s & Hs & ->). cbn [fst].
        apply in_map_iff. exists s. now split.
      - intros H. apply in_map_iff in H. destruct H as (s & <- & Hs).
        exact (SI_complete G GL ixs secs g s Hs).
    Qed.

    Lemma SI_keys_agree : map fst (SI G ixa secsA aa) = map fst (SI G ixb secsB ab).
    Proof.
      apply (SS_perm_eq sec_ltb); [exact (Hso G GL OL) | apply (SI_sorted G GL OL) | apply (SI_sorted G GL OL) |].
      apply NoDup_Permutation; [apply (SI_NoDup G GL OL) | apply (SI_NoDup G GL OL) |].
      intros k. rewrite !SI_keys_iff. apply Hsame.
    Qed.

    Lemma nth_sub (s : sector) g k : k < length g -> nth k (take_axes idc s g) idc = nth (nth k g 0) s idc.
    Proof. intros Hk. unfold take_axes. now rewrite (nth_map_lt _ g k 0 idc). Qed.

    Lemma group_values_agree sA sB : In sA secsA ->
      take_axes idc sA aa = take_axes idc sB ab ->
      group_charge G ixa sA aa = group_charge G ixb sB ab /\ group_size G ixa sA aa = group_size G ixb sB ab.
    Proof.
      intros HsA Heq.
      assert (Hch : forall k, k < length aa -> nth (nth k aa 0) sA idc = nth (nth k ab 0) sB idc).
      { intros k Hk. rewrite <- (nth_sub sA aa k Hk), Heq. apply nth_sub. now rewrite <- Hlen. }
      assert (Hin : In (take_axes idc sA aa) (map (fun s => take_axes idc s aa) secsA)).
      { apply in_map_iff. exists sA. now split. }
      split.
      - unfold group_charge, is_singlet. rewrite <- Hlen.
        destruct (Nat.eqb (length aa) 1) eqn:E1.
        + apply Nat.eqb_eq in E1. rewrite !hd_nth0. apply Hch. lia.
        + f_equal. apply (nth_ext _ _ idc idc); [now rewrite !map_length|].
          intros k Hk. rewrite map_length in Hk.
          rewrite (nth_map_lt _ aa k 0 idc) by exact Hk.
          rewrite (nth_map_lt _ ab k 0 idc) by (now rewrite <- Hlen).
          rewrite (Hch k Hk). f_equal. f_equal. unfold group_dual. rewrite !hd_nth0.
          exact (Hrel k Hk).
      - unfold group_size. f_equal. apply (nth_ext _ _ 0 0); [now rewrite !map_length|].
        intros k Hk. rewrite map_length in Hk.
        rewrite (nth_map_lt _ aa k 0 0) by exact Hk.
        rewrite (nth_map_lt _ ab k 0 0) by (now rewrite <- Hlen).
        rewrite <- (Hch k Hk). rewrite <- (nth_sub sA aa k Hk).
        exact (Hsz k _ Hk Hin).
    Qed.

    (* 2b. the sorted (sub-sector, fused charge, size) lists coincide *)
    Theorem subinfos_agree : group_subinfos G ixa secsA aa = group_subinfos G ixb secsB ab.
    Proof.
      change (SI G ixa secsA aa = SI G ixb secsB ab).
      apply pairs_eq_by_key; [exact SI_keys_agree|].
      intros p q Hp Hq Hk.
      destruct (SI_entry G GL ixa secsA aa p Hp) as (sA & HsA & ->).
      destruct (SI_entry G GL ixb secsB ab q Hq) as (sB & HsB & ->).
      cbn [fst snd] in *. destruct (group_values_agree sA sB HsA Hk) as [-> ->]. reflexivity.
    Qed.

    Context (Hsing : is_singlet aa = false).
    Notation fa := (fused_index G ixa secsA aa).
    Notation fb := (fused_index G ixb secsB ab).

    Lemma Hsing_b : is_singlet ab = false.
    Proof. unfold is_singlet in *. now rewrite <- Hlen. Qed.

    Theorem fused_tables_agree :
      chargemap G fa = chargemap G fb /\
      (exists ext, isub G fa = Some (map (fun ax => nth ax ixa dflt) aa, ext) /\
                   isub G fb = Some (map (fun ax => nth ax ixb dflt) ab, ext)) /\
      idual G fa = idual G (leg ixa aa 0) /\ idual G fb = idual G (leg ixb ab 0) /\
      (forall c, size_of G fa c = size_of G fb c) /\
      (forall c ss, sub_range G fa c ss = sub_range G fb c ss).
    Proof.
      rewrite (fused_index_unfold G ixa secsA aa Hsing), (fused_index_unfold G ixb secsB ab Hsing_b).
      unfold SI. rewrite subinfos_agree. cbn [chargemap isub idual].
      split; [reflexivity|]. split; [eexists; split; reflexivity|].
      unfold group_dual, leg. rewrite !hd_nth0.
      split; [reflexivity|]. split; [reflexivity|]. split; reflexivity.
    Qed.
  End Core.

  (* opposite directions on every contracted leg give equal relative directions *)
  Lemma opposite_relative ixa ixb aa ab :
    (forall k, k < length aa -> idual G (leg ixa aa k) = negb (idual G (leg ixb ab k))) ->
    forall k, k < length aa ->
      Bool.eqb (idual G (leg ixa aa 0)) (idual G (leg ixa aa k)) =
      Bool.eqb (idual G (leg ixb ab 0)) (idual G (leg ixb ab k)).
  Proof.
    intros H k Hk. rewrite (H k Hk), (H 0) by lia.
    now destruct (idual G (leg ixb ab 0)), (idual G (leg ixb ab k)).
  Qed.
End SameTables.

Section AlignedTables.
  Context (G : Symmetry) (R : Ring) (GL : GroupLaws G) (OL : OrderLaws G).
  Notation sector := (list (C G)).
  Notation keq := (list_eqb (ceqb G)).
  Notation idc := (ident G).
  Notation dflt := (dflt_index G).
  Notation arr := (aarray G R).
  Notation Hc := (ceqb_spec G GL).
  Notation Hk := (Hkq G Hc).

  Lemma allowed_iff (a b : arr) aa ab s :
    allowed G R a b aa ab s = true <-> In s (con_subs G R a aa) /\ In s (con_subs G R b ab).
  Proof. unfold allowed. now rewrite andb_true_iff, !(mem_In keq Hk). Qed.

  Lemma con_subs_al_a (a b : arr) aa ab s :
    In s (con_subs G R (al_a G R a b aa ab) aa) <-> In s (con_subs G R a aa) /\ In s (con_subs G R b ab).
  Proof.
    unfold con_subs at 1. unfold sectors. rewrite blocks_al_a, map_map. split.
    - intros H. apply in_map_iff in H. destruct H as (p & <- & Hp). apply filter_In in Hp.
      destruct Hp as [_ Hp]. now apply allowed_iff.
    - intros [Ha Hb]. pose proof Ha as Ha'. unfold con_subs, sectors in Ha'. rewrite map_map in Ha'.
      apply in_map_iff in Ha'. destruct Ha' as (p & <- & Hp). apply in_map_iff. exists p. split; [reflexivity|].
      apply filter_In. split; [exact Hp|]. now apply allowed_iff.
  Qed.

  Lemma con_subs_al_b (a b : arr) aa ab s :
    In s (con_subs G R (al_b G R a b aa ab) ab) <-> In s (con_subs G R a aa) /\ In s (con_subs G R b ab).
  Proof.
    unfold con_subs at 1. unfold sectors. rewrite blocks_al_b, map_map. split.
    - intros H. apply in_map_iff in H. destruct H as (p & <- & Hp). apply filter_In in Hp.
      destruct Hp as [_ Hp]. now apply allowed_iff.
    - intros [Ha Hb]. pose proof Hb as Hb'. unfold con_subs, sectors in Hb'. rewrite map_map in Hb'.
      apply in_map_iff in Hb'. destruct Hb' as (p & <- & Hp). apply in_map_iff. exists p. split; [reflexivity|].
      apply filter_In. split; [exact Hp|]. now apply allowed_iff.
  Qed.

  (* 2a. after alignment the two operands see the same set of contracted sub-sectors,
     namely the ones both originals had *)
  Theorem aligned_same_subsectors (a b : arr) aa ab s :
    In s (con_subs G R (al_a G R a b aa ab) aa) <-> In s (con_subs G R (al_b G R a b aa ab) ab).
  Proof. now rewrite con_subs_al_a, con_subs_al_b. Qed.

  (* alignment is idempotent on the block level: every kept block has a partner *)
  Theorem aligned_has_partner (a b : arr) aa ab sa :
    In sa (blocks G R (al_a G R a b aa ab)) ->
    exists sb, In sb (blocks G R (al_b G R a b aa ab)) /\
               take_axes idc (fst sa) aa = take_axes idc (fst sb) ab.
  Proof.
    intros Hsa.
    assert (H : In (take_axes idc (fst sa) aa) (con_subs G R (al_b G R a b aa ab) ab)).
    { apply aligned_same_subsectors. now apply In_con_subs. }
    unfold con_subs, sectors in H. rewrite map_map in H. apply in_map_iff in H.
    destruct H as (sb & E & Hsb). now exists sb.
  Qed.

  (* ---- the pruned tables of the aligned operands on charges that occur ---- *)
  Lemma idual_prune1 ix P : idual G (prune1 G ix P) = idual G ix.
  Proof. apply idual_drop. Qed.

  Lemma size_of_prune1 ix P c : mem (ceqb G) c P = true -> size_of G (prune1 G ix P) c = size_of G ix c.
  Proof.
    intros Hm. unfold size_of, prune1. rewrite chargemap_drop.
    rewrite (lookup_filter_key (ceqb G) Hc
               (fun c => negb (mem (ceqb G) c (filter (fun c' => negb (mem (ceqb G) c' P)) (icharges G ix))))).
    rewrite (mem_filter (ceqb G) Hc), Hm. cbn [negb]. now rewrite andb_false_r.
  Qed.

  (* contracted legs match: same table, opposite direction, axes in range *)
  Definition legs_match (a b : arr) (aa ab : list nat) : Prop :=
    length aa = length ab /\
    Forall (fun ax => ax < ndim G R a) aa /\ Forall (fun ax => ax < ndim G R b) ab /\
    forall k, k < length aa ->
      idual G (leg G (indices G R a) aa k) = negb (idual G (leg G (indices G R b) ab k)) /\
      chargemap G (leg G (indices G R a) aa k) = chargemap G (leg G (indices G R b) ab k).

  Lemma leg_al_a (a b : arr) aa ab k : nth k aa 0 < ndim G R a ->
    leg G (indices G R (al_a G R a b aa ab)) aa k =
    prune1 G (leg G (indices G R a) aa k) (map (fun s => nth (nth k aa 0) s idc) (sectors G R (al_a G R a b aa ab))).
  Proof. intros H. unfold leg. rewrite indices_al_a. now apply nth_prune. Qed.

  Lemma leg_al_b (a b : arr) aa ab k : nth k ab 0 < ndim G R b ->
    leg G (indices G R (al_b G R a b aa ab)) ab k =
    prune1 G (leg G (indices G R b) ab k) (map (fun s => nth (nth k ab 0) s idc) (sectors G R (al_b G R a b aa ab))).
  Proof. intros H. unfold leg. rewrite indices_al_b. now apply nth_prune. Qed.

  Lemma sub_charge_present (x : arr) axes k ss : k < length axes -> In ss (con_subs G R x axes) ->
    mem (ceqb G) (nth k ss idc) (map (fun s => nth (nth k axes 0) s idc) (sectors G R x)) = true.
  Proof.
    intros Hk0 Hin. apply (mem_In (ceqb G) Hc). unfold con_subs in Hin. apply in_map_iff in Hin.
    destruct Hin as (s & <- & Hs). rewrite (nth_sub G s axes k Hk0). apply in_map_iff. now exists s.
  Qed.

  (* 2c. both aligned operands build the same fused contracted index: same chargemap,
     same extents (sub-sectors in the same order with the same sizes under the same
     fused charge), hence the same sizes and the same sub-sector ranges; the two
     fused legs point in opposite directions; the fused CHARGES are equal (each side
     signs its sub-charges relative to its own first contracted leg, and those first
     legs are mutually opposite) *)
  Theorem aligned_fused_tables (a b : arr) aa ab :
    legs_match a b aa ab -> 2 <= length aa ->
    let a1 := al_a G R a b aa ab in
    let b1 := al_b G R a b aa ab in
    let fa := fused_index G (indices G R a1) (sectors G R a1) aa in
    let fb := fused_index G (indices G R b1) (sectors G R b1) ab in
    chargemap G fa = chargemap G fb /\
    (exists ext, isub G fa = Some (map (fun ax => nth ax (indices G R a1) dflt) aa, ext) /\
                 isub G fb = Some (map (fun ax => nth ax (indices G R b1) dflt) ab, ext)) /\
    idual G fa = negb (idual G fb) /\
    idual G fa = idual G (leg G (indices G R a) aa 0) /\
    (forall c, size_of G fa c = size_of G fb c) /\
    (forall c ss, sub_range G fa c ss = sub_range G fb c ss) /\
    (forall sa sb, In sa (sectors G R a1) -> take_axes idc sa aa = take_axes idc sb ab ->
       group_charge G (indices G R a1) sa aa = group_charge G (indices G R b1) sb ab /\
       group_size G (indices G R a1) sa aa = group_size G (indices G R b1) sb ab).
  Proof.
    intros (Hlen & Haa & Hab & Hlegs) Hlen2 a1 b1 fa fb.
    assert (Hsing : is_singlet aa = false) by (unfold is_singlet; apply Nat.eqb_neq; lia).
    rewrite Forall_forall in Haa, Hab.
    assert (Haak : forall k, k < length aa -> nth k aa 0 < ndim G R a) by (intros; apply Haa; now apply nth_In).
    assert (Habk : forall k, k < length aa -> nth k ab 0 < ndim G R b)
      by (intros; apply Hab; apply nth_In; now rewrite <- Hlen).
    assert (Hopp : forall k, k < length aa ->
              idual G (leg G (indices G R a1) aa k) = negb (idual G (leg G (indices G R b1) ab k))).
    { intros k Hk0. unfold a1, b1. rewrite leg_al_a, leg_al_b, !idual_prune1 by auto. now apply Hlegs. }
    assert (Hsame : forall ss, In ss (map (fun s => take_axes idc s aa) (sectors G R a1)) <->
                               In ss (map (fun s => take_axes idc s ab) (sectors G R b1))).
    { intros ss. exact (aligned_same_subsectors a b aa ab ss). }
    assert (Hrel := opposite_relative G (indices G R a1) (indices G R b1) aa ab Hopp).
    assert (Hsz : forall k ss, k < length aa -> In ss (map (fun s => take_axes idc s aa) (sectors G R a1)) ->
              size_of G (leg G (indices G R a1) aa k) (nth k ss idc) =
              size_of G (leg G (indices G R b1) ab k) (nth k ss idc)).
    { intros k ss Hk0 Hss. unfold a1, b1. rewrite leg_al_a, leg_al_b by auto.
      rewrite !size_of_prune1.
      - unfold size_of. now rewrite (proj2 (Hlegs k Hk0)).
      - apply sub_charge_present; [now rewrite <- Hlen|]. apply Hsame. exact Hss.
      - now apply sub_charge_present. }
    destruct (fused_tables_agree G GL OL (indices G R a1) (indices G R b1) (sectors G R a1) (sectors G R b1)
                aa ab Hlen Hsame Hrel Hsz Hsing) as (H1 & H2 & H3 & H4 & H5 & H6).
    fold fa fb in H1, H2, H3, H4, H5, H6.
    split; [exact H1|]. split; [exact H2|].
    split; [rewrite H3, H4; apply Hopp; lia|].
    split; [rewrite H3; unfold a1; rewrite leg_al_a by (apply Haak; lia); apply idual_prune1|].
    split; [exact H5|]. split; [exact H6|].
    intros sa sb Hsa Heq.
    eapply (group_values_agree G); [exact Hlen | exact Hsame | exact Hrel | exact Hsz | exact Hsa | exact Heq].
  Qed.
End AlignedTables.

(* ------------------------------------------------------------------ *)
(* Part 3: the fused strategy *)
Section FusedStrategy.
  Context (G : Symmetry) (R : Ring) (GL : GroupLaws G).
  Notation sector := (list (C G)).
  Notation keq := (list_eqb (ceqb G)).
  Notation idc := (ident G).
  Notation dflt := (dflt_index G).
  Notation arr := (aarray G R).
  Notation Hc := (ceqb_spec G GL).
  Notation a1_of := (al_a G R).
  Notation b1_of := (al_b G R).

  (* what runs after the alignment, on operands that both have blocks *)
  Definition fused_on (a1 b1 : arr) (la aa ab rb : list nat) : arr :=
    let af := a_fuse_noexpand G R a1 [la; aa] in
    let bf := a_fuse_noexpand G R b1 [ab; rb] in
    let la' := if is_nil la then [] else [0] in
    let aa' := if is_nil aa then [] else if is_nil la then [0] else [1] in
    let ab' := if is_nil ab then [] else [0] in
    let rb' := if is_nil rb then [] else if is_nil ab then [0] else [1] in
    let c := tdot_blockwise G R af bf la' aa' ab' rb' in
    let c1 := if Nat.ltb 1 (length rb) then unfuse_or_keep G R c (ndim G R c - 1) else c in
    if Nat.ltb 1 (length la) then unfuse_or_keep G R c1 0 else c1.

  Lemma tdot_fused2_unfold (a b : arr) la aa ab rb :
    tdot_fused2 G R a b la aa ab rb =
    if is_nil (blocks G R (a1_of a b aa ab)) || is_nil (blocks G R (b1_of a b aa ab)) then
      mkA G R (without_axes (indices G R (a1_of a b aa ab)) aa ++ without_axes (indices G R (b1_of a b aa ab)) ab)
          (combine G [charge G R a; charge G R b]) []
    else fused_on (a1_of a b aa ab) (b1_of a b aa ab) la aa ab rb.
  Proof. reflexivity. Qed.

  (* ---- charge ---- *)
  Lemma charge_unfuse_or_keep (x : arr) ax : charge G R (unfuse_or_keep G R x ax) = charge G R x.
  Proof.
    unfold unfuse_or_keep, a_unfuse. destruct (isub G (nth ax (indices G R x) dflt)) as [[subs ext]|]; reflexivity.
  Qed.

  Lemma charge_fuse_noexpand (x : arr) groups : charge G R (a_fuse_noexpand G R x groups) = charge G R x.
  Proof. unfold a_fuse_noexpand. destruct (filter _ groups); reflexivity. Qed.

  Lemma charge_fused_on (a1 b1 : arr) la aa ab rb :
    charge G R (fused_on a1 b1 la aa ab rb) = combine G [charge G R a1; charge G R b1].
  Proof.
    unfold fused_on. cbv zeta.
    destruct (Nat.ltb 1 (length la)), (Nat.ltb 1 (length rb));
      rewrite ?charge_unfuse_or_keep; cbn [tdot_blockwise charge]; now rewrite !charge_fuse_noexpand.
  Qed.

  Theorem fused_charge (a b : arr) la aa ab rb :
    charge G R (tdot_fused2 G R a b la aa ab rb) = charge G R (tdot_blockwise G R a b la aa ab rb).
  Proof.
    rewrite tdot_fused2_unfold. cbn [tdot_blockwise charge].
    destruct (is_nil _ || is_nil _); [reflexivity|]. now rewrite charge_fused_on.
  Qed.

  (* ---- the empty case: record equality ---- *)
  Lemma al_empty_iff (a b : arr) aa ab :
    blocks G R (a1_of a b aa ab) = [] <-> blocks G R (b1_of a b aa ab) = [].
  Proof.
    assert (E : forall (x y : arr) ax ay, (forall s, In s (con_subs G R x ax) <-> In s (con_subs G R y ay)) ->
              blocks G R x = [] -> blocks G R y = []).
    { intros x y ax ay H Hx. destruct (blocks G R y) as [|p l] eqn:Ey; [reflexivity|]. exfalso.
      assert (Hin : In (take_axes idc (fst p) ay) (con_subs G R y ay)) by (apply In_con_subs; rewrite Ey; now left).
      apply H in Hin. unfold con_subs, sectors in Hin. now rewrite Hx in Hin. }
    split; [apply (E _ _ aa ab) | apply (E _ _ ab aa)]; intros s; [|symmetry]; apply (aligned_same_subsectors G R GL).
  Qed.

  Lemma prune_nil (ixs : list (index G)) : prune_indices G ixs [] = map (fun ix => prune1 G ix []) ixs.
  Proof.
    apply (nth_ext _ _ dflt dflt); [now rewrite length_prune_indices, map_length|].
    intros j Hj. rewrite length_prune_indices in Hj. rewrite nth_prune by exact Hj.
    now rewrite (nth_map_lt _ ixs j dflt dflt) by exact Hj.
  Qed.

  Lemma take_axes_map {A B} (f : A -> B) (d : A) (d' : B) l axes :
    (forall ax, In ax axes -> ax < length l) ->
    take_axes d' (map f l) axes = map f (take_axes d l axes).
  Proof.
    intros H. unfold take_axes. rewrite map_map. apply map_ext_in. intros ax Hax.
    now apply nth_map_lt, H.
  Qed.

  Theorem fused_eq_blockwise_empty (a b : arr) la aa ab rb :
    la = rest_axes (ndim G R a) aa -> rb = rest_axes (ndim G R b) ab ->
    is_nil (blocks G R (a1_of a b aa ab)) || is_nil (blocks G R (b1_of a b aa ab)) = true ->
    tdot_fused2 G R a b la aa ab rb = tdot_blockwise G R a b la aa ab rb /\
    blocks G R (tdot_blockwise G R a b la aa ab rb) = [].
  Proof.
    intros Hla Hrb He. rewrite tdot_fused2_unfold, He.
    assert (Ha : blocks G R (a1_of a b aa ab) = [] /\ blocks G R (b1_of a b aa ab) = []).
    { apply orb_true_iff in He. destruct He as [He|He]; apply is_nil_true in He.
      - split; [exact He | now apply al_empty_iff].
      - split; [now apply al_empty_iff | exact He]. }
    destruct Ha as [Ha Hb].
    rewrite <- (drop_misaligned_blockwise G R Hc a b la aa ab rb Hla Hrb).
    unfold tdot_blockwise, tdot_pairs. rewrite Ha. cbn [flat_map fold_left map].
    split; [|reflexivity].
    rewrite charge_al_a, charge_al_b. f_equal.
    rewrite !(without_axes_take dflt), indices_al_a, indices_al_b, !length_prune_indices.
    unfold sectors. rewrite Ha, Hb. cbn [map]. rewrite !prune_nil.
    fold (ndim G R a) (ndim G R b). rewrite <- Hla, <- Hrb.
    rewrite map_app.
    rewrite (take_axes_map _ dflt dflt) by (intros ax Hax; subst la; now apply In_rest_axes in Hax).
    rewrite (take_axes_map _ dflt dflt) by (intros ax Hax; subst rb; now apply In_rest_axes in Hax).
    rewrite !map_map. f_equal; apply map_ext; intros ix; symmetry; apply (prune1_prune1 G Hc); apply incl_refl.
  Qed.

  (* ---- alignment is idempotent, so the fused strategy factors through the aligned pair ---- *)
  Lemma al_a_eta (a b : arr) aa ab :
    a1_of a b aa ab = mkA G R (indices G R (a1_of a b aa ab)) (charge G R a) (blocks G R (a1_of a b aa ab)).
  Proof. reflexivity. Qed.
  Lemma al_b_eta (a b : arr) aa ab :
    b1_of a b aa ab = mkA G R (indices G R (b1_of a b aa ab)) (charge G R b) (blocks G R (b1_of a b aa ab)).
  Proof. reflexivity. Qed.

  Lemma prune_idem ixs (S : list sector) : prune_indices G (prune_indices G ixs S) S = prune_indices G ixs S.
  Proof.
    apply (prune_refine G Hc); [apply length_prune_indices|].
    intros j Hj. eexists. split; [now apply nth_prune|]. apply incl_refl.
  Qed.

  Theorem drop_misaligned_idem (a b : arr) aa ab :
    drop_misaligned G R (a1_of a b aa ab) (b1_of a b aa ab) aa ab = (a1_of a b aa ab, b1_of a b aa ab).
  Proof.
    set (a1 := a1_of a b aa ab). set (b1 := b1_of a b aa ab).
    assert (Hfa : filter (fun p => allowed G R a1 b1 aa ab (take_axes idc (fst p) aa)) (blocks G R a1) = blocks G R a1).
    { apply filter_all. intros p Hp. apply (allowed_iff G R GL). split; [now apply In_con_subs|].
      apply (aligned_same_subsectors G R GL). now apply In_con_subs. }
    assert (Hfb : filter (fun p => allowed G R a1 b1 aa ab (take_axes idc (fst p) ab)) (blocks G R b1) = blocks G R b1).
    { apply filter_all. intros p Hp. apply (allowed_iff G R GL). split; [|now apply In_con_subs].
      apply (aligned_same_subsectors G R GL). now apply In_con_subs. }
    rewrite (drop_misaligned_pair G R a1 b1 aa ab). f_equal.
    - rewrite (al_a_eta a1 b1), blocks_al_a, Hfa, indices_al_a. unfold sectors at 1. rewrite blocks_al_a, Hfa.
      fold (sectors G R a1). unfold a1 at 1. rewrite indices_al_a. fold a1. now rewrite prune_idem.
    - rewrite (al_b_eta a1 b1), blocks_al_b, Hfb, indices_al_b. unfold sectors at 1. rewrite blocks_al_b, Hfb.
      fold (sectors G R b1). unfold b1 at 1. rewrite indices_al_b. fold b1. now rewrite prune_idem.
  Qed.

  (* both strategies factor through the aligned pair: C06 for (a, b) is C06 for the
     aligned operands (a1, b1), which have the same contracted sub-sectors *)
  Theorem fused_factors_through_aligned (a b : arr) la aa ab rb :
    tdot_fused2 G R a b la aa ab rb =
    tdot_fused2 G R (a1_of a b aa ab) (b1_of a b aa ab) la aa ab rb.
  Proof.
    unfold tdot_fused2 at 2. rewrite drop_misaligned_idem. reflexivity.
  Qed.

  Theorem strategies_factor_through_aligned (a b : arr) la aa ab rb :
    la = rest_axes (ndim G R a) aa -> rb = rest_axes (ndim G R b) ab ->
    tdot_fused2 G R a b la aa ab rb = tdot_fused2 G R (a1_of a b aa ab) (b1_of a b aa ab) la aa ab rb /\
    tdot_blockwise G R a b la aa ab rb = tdot_blockwise G R (a1_of a b aa ab) (b1_of a b aa ab) la aa ab rb.
  Proof.
    intros Hla Hrb. split; [apply fused_factors_through_aligned|].
    symmetry. now apply (drop_misaligned_blockwise G R Hc).
  Qed.

  (* ---------------------------------------------------------------- *)
  (* Part 4: mode selection of tensordot *)
  Theorem tensordot2_modes (a b : arr) axes aa ab :
    parse_axes (ndim G R a) (ndim G R b) axes = Some (aa, ab) ->
    let la := rest_axes (ndim G R a) aa in
    let rb := rest_axes (ndim G R b) ab in
    a_tensordot2 G R a b axes MBlockwise = Some (tdot_blockwise G R a b la aa ab rb) /\
    a_tensordot2 G R a b axes MFused = Some (tdot_fused2 G R a b la aa ab rb) /\
    a_tensordot2 G R a b axes MAuto =
      (if is_nil aa then a_tensordot2 G R a b axes MBlockwise else a_tensordot2 G R a b axes MFused).
  Proof.
    intros Hp la rb. unfold a_tensordot2. rewrite Hp. fold la rb.
    split; [reflexivity|]. split; [reflexivity|]. now destruct (is_nil aa).
  Qed.

  Theorem tensordot2_none (a b : arr) axes m :
    parse_axes (ndim G R a) (ndim G R b) axes = None -> a_tensordot2 G R a b axes m = None.
  Proof. intros Hp. unfold a_tensordot2. now rewrite Hp. Qed.
End FusedStrategy.

(* ------------------------------------------------------------------ *)
(* Part 2': the fused pair is again a contractible pair with matching legs *)
Lemma group_of_covered groups ax : In ax (concat groups) -> is_none (group_of groups ax) = false.
Proof.
  unfold group_of. generalize 0. induction groups as [|g gs IH]; intros k H; cbn [concat] in H; [destruct H|].
  simpl. destruct (mem Nat.eqb ax g) eqn:E; [reflexivity|]. apply IH.
  apply in_app_or in H. destruct H as [H|H]; [|exact H].
  apply (mem_In Nat.eqb Nat.eqb_eq) in H. congruence.
Qed.

Lemma concat_filter_nonnil {A} (gs : list (list A)) : concat (filter (fun g => negb (is_nil g)) gs) = concat gs.
Proof.
  induction gs as [|g gs IH]; [reflexivity|]. cbn [filter]. destruct g as [|x g]; cbn [is_nil negb concat app]; [exact IH|].
  now rewrite IH.
Qed.

Lemma filter_none {A} (f : A -> bool) l : (forall x, In x l -> f x = false) -> filter f l = [].
Proof.
  induction l as [|x l IH]; intros H; cbn [filter]; [reflexivity|].
  rewrite (H x) by (now left). apply IH. intros y Hy. apply H. now right.
Qed.

Section FusedPair.
  Context (G : Symmetry) (R : Ring).
  Notation dflt := (dflt_index G).
  Notation arr := (aarray G R).
  Notation nonnil := (fun g : list nat => negb (is_nil g)).

  (* when every axis belongs to a group, the fused array has exactly one leg per (non-empty) group *)
  Theorem fuse_all_axes_indices (x : arr) (groups : list (list nat)) :
    (forall ax, ax < ndim G R x -> In ax (concat groups)) ->
    Forall (fun ax => ax < ndim G R x) (concat groups) ->
    filter nonnil groups <> [] ->
    indices G R (a_fuse_noexpand G R x groups) =
    map (fused_index G (indices G R x) (sectors G R x)) (filter nonnil groups).
  Proof.
    intros Hcov Hrng Hne. unfold a_fuse_noexpand.
    destruct (filter nonnil groups) as [|g0 gs0] eqn:E; [congruence|]. rewrite <- E. clear Hne.
    cbn [fuse_core indices]. unfold fused_indices.
    set (gs := filter nonnil groups).
    assert (Hc : concat gs = concat groups) by apply concat_filter_nonnil.
    assert (Hcne : concat gs <> []).
    { unfold gs. rewrite E. intros Hnil.
      assert (Hg0 : In g0 (filter nonnil groups)) by (rewrite E; left; reflexivity).
      apply filter_In in Hg0. destruct Hg0 as [_ Hg0].
      destruct g0; [discriminate Hg0 | discriminate Hnil]. }
    assert (Hpos : fuse_position gs < ndim G R x).
    { unfold fuse_position. destruct (list_min_spec (concat gs) Hcne) as [Hin _].
      rewrite Hc in Hin |- *. rewrite Forall_forall in Hrng. now apply Hrng. }
    assert (Hb : axes_before (length (indices G R x)) gs = []).
    { unfold axes_before. apply filter_none. intros ax Hax. apply in_seq in Hax.
      apply group_of_covered. rewrite Hc. apply Hcov. lia. }
    assert (Ha : axes_after (length (indices G R x)) gs = []).
    { unfold axes_after. apply filter_none. intros ax Hax. apply in_seq in Hax.
      apply group_of_covered. rewrite Hc. apply Hcov. unfold ndim in *. lia. }
    rewrite Hb, Ha. cbn [map app]. now rewrite app_nil_r.
  Qed.

  Lemma rest_axes_cover n axes ax : ax < n -> In ax (rest_axes n axes ++ axes).
  Proof.
    intros H. apply in_or_app. destruct (mem Nat.eqb ax axes) eqn:E.
    - right. now apply (mem_In Nat.eqb Nat.eqb_eq).
    - left. unfold rest_axes. apply filter_In. split; [apply in_seq; lia | now rewrite E].
  Qed.

  (* the left operand: groups [free; contracted] *)
  Theorem fused_left_leg (x : arr) la aa :
    la = rest_axes (ndim G R x) aa -> Forall (fun ax => ax < ndim G R x) aa -> aa <> [] ->
    ndim G R (a_fuse_noexpand G R x [la; aa]) = (if is_nil la then 1 else 2) /\
    nth (if is_nil la then 0 else 1) (indices G R (a_fuse_noexpand G R x [la; aa])) dflt =
    fused_index G (indices G R x) (sectors G R x) aa.
  Proof.
    intros Hla Haa Hne. unfold ndim at 1. rewrite fuse_all_axes_indices.
    - destruct aa as [|a0 aa']; [congruence|]. destruct la; cbn; split; reflexivity.
    - intros ax Hax. cbn [concat]. rewrite app_nil_r, Hla. now apply rest_axes_cover.
    - cbn [concat]. rewrite app_nil_r. apply Forall_app. split; [|exact Haa].
      apply Forall_forall. intros ax Hax. rewrite Hla in Hax. now apply In_rest_axes in Hax.
    - destruct aa as [|a0 aa']; [congruence|]. destruct la; cbn; discriminate.
  Qed.

  (* the right operand: groups [contracted; free] *)
  Theorem fused_right_leg (y : arr) ab rb :
    rb = rest_axes (ndim G R y) ab -> Forall (fun ax => ax < ndim G R y) ab -> ab <> [] ->
    ndim G R (a_fuse_noexpand G R y [ab; rb]) = (if is_nil rb then 1 else 2) /\
    nth 0 (indices G R (a_fuse_noexpand G R y [ab; rb])) dflt =
    fused_index G (indices G R y) (sectors G R y) ab.
  Proof.
    intros Hrb Hab Hne. unfold ndim at 1. rewrite fuse_all_axes_indices.
    - destruct ab as [|a0 ab']; [congruence|]. destruct rb; cbn; split; reflexivity.
    - intros ax Hax. cbn [concat]. rewrite app_nil_r, Hrb.
      apply in_or_app. apply (rest_axes_cover _ ab) in Hax. apply in_app_or in Hax. tauto.
    - cbn [concat]. rewrite app_nil_r. apply Forall_app. split; [exact Hab|].
      apply Forall_forall. intros ax Hax. rewrite Hrb in Hax. now apply In_rest_axes in Hax.
    - destruct ab as [|a0 ab']; [congruence|]. cbn. discriminate.
  Qed.
End FusedPair.

Section FusedPairMatch.
  Context (G : Symmetry) (R : Ring) (GL : GroupLaws G) (OL : OrderLaws G).
  Notation arr := (aarray G R).

  (* 2d. the fused operands handed to the matrix product are again a contractible
     pair: their single contracted legs (position 1 or 0 on the left, 0 on the right)
     have the same chargemap and opposite directions *)
  Theorem fused_pair_legs_match (a b : arr) la aa ab rb :
    legs_match G R a b aa ab -> 2 <= length aa ->
    la = rest_axes (ndim G R a) aa -> rb = rest_axes (ndim G R b) ab ->
    let af := a_fuse_noexpand G R (al_a G R a b aa ab) [la; aa] in
    let bf := a_fuse_noexpand G R (al_b G R a b aa ab) [ab; rb] in
    legs_match G R af bf (if is_nil la then [0] else [1]) [0] /\
    ndim G R af = (if is_nil la then 1 else 2) /\ ndim G R bf = (if is_nil rb then 1 else 2).
  Proof.
    intros Hm Hlen2 Hla Hrb af bf.
    pose proof Hm as (Hlen & Haa & Hab & _).
    assert (Hne_a : aa <> []) by (destruct aa; [cbn in Hlen2; lia | discriminate]).
    assert (Hne_b : ab <> []) by (destruct ab; [cbn in Hlen; lia | discriminate]).
    destruct (fused_left_leg G R (al_a G R a b aa ab) la aa) as [Hna Hfa];
      [now rewrite ndim_al_a | now rewrite ndim_al_a | exact Hne_a |].
    destruct (fused_right_leg G R (al_b G R a b aa ab) ab rb) as [Hnb Hfb];
      [now rewrite ndim_al_b | now rewrite ndim_al_b | exact Hne_b |].
    fold af in Hna, Hfa. fold bf in Hnb, Hfb.
    destruct (aligned_fused_tables G R GL OL a b aa ab Hm Hlen2) as (Hcm & _ & Hdual & _).
    split; [|split; assumption].
    split; [now destruct (is_nil la)|].
    split; [rewrite Hna; destruct (is_nil la); repeat constructor|].
    split; [rewrite Hnb; destruct (is_nil rb); repeat constructor|].
    intros k Hk. assert (k = 0) by (destruct (is_nil la); cbn in Hk; lia). subst k.
    unfold leg. replace (nth 0 (if is_nil la then [0] else [1]) 0) with (if is_nil la then 0 else 1)
      by (now destruct (is_nil la)).
    cbn [nth]. rewrite Hfa, Hfb. split; assumption.
  Qed.
End FusedPairMatch.

(* ------------------------------------------------------------------ *)
(* Examples: sparse U1 operands whose stored sectors differ *)
Module ExC06.
  (* a : legs (l-, x+, y+), charge 0, the valid sector (1,1,0) is not stored;
     b : legs (x-, y-, r+), charge 0, the valid sector (0,1,1) is not stored.
     a sees the contracted sub-sectors (0,0) (0,1) (1,1), b sees (0,0) (1,0) (1,1). *)
  Definition xa : aarray U1 ZRing :=
    mkA U1 ZRing
      [Index U1 [(0%Z, 1); (1%Z, 2); (2%Z, 1)] true None;
       Index U1 [(0%Z, 1); (1%Z, 2)] false None;
       Index U1 [(0%Z, 2); (1%Z, 1)] false None]
      0%Z
      [([0; 0; 0]%Z, zt [1; 1; 2] [1; 2]%Z);
       ([1; 0; 1]%Z, zt [2; 1; 1] [3; 4]%Z);
       ([2; 1; 1]%Z, zt [1; 2; 1] [5; 6]%Z)].
  Definition xb : aarray U1 ZRing :=
    mkA U1 ZRing
      [Index U1 [(0%Z, 1); (1%Z, 2)] true None;
       Index U1 [(0%Z, 2); (1%Z, 1)] true None;
       Index U1 [(0%Z, 1); (1%Z, 1); (2%Z, 2)] false None]
      0%Z
      [([0; 0; 0]%Z, zt [1; 2; 1] [7; 8]%Z);
       ([1; 0; 1]%Z, zt [2; 2; 1] [1; 2; 3; 4]%Z);
       ([1; 1; 2]%Z, zt [2; 1; 2] [9; 10; 11; 12]%Z)].
  Definition la := [0]. Definition aa := [1; 2]. Definition ab := [0; 1]. Definition rb := [2].
  Definition a1 := al_a U1 ZRing xa xb aa ab.
  Definition b1 := al_b U1 ZRing xa xb aa ab.

  Example hyps_hold :
    wf_array U1 ZRing xa = true /\ wf_array U1 ZRing xb = true /\
    la = rest_axes (ndim U1 ZRing xa) aa /\ rb = rest_axes (ndim U1 ZRing xb) ab /\
    legs_match U1 ZRing xa xb aa ab /\ 2 <= length aa.
  Proof.
    split; [vm_compute; reflexivity|]. split; [vm_compute; reflexivity|].
    split; [reflexivity|]. split; [reflexivity|]. split; [|cbn; lia].
    split; [reflexivity|]. split; [repeat constructor|]. split; [repeat constructor|].
    intros [|[|k]] Hk; [split; reflexivity | split; reflexivity | cbn in Hk; lia].
  Qed.

  Example sectors_differ :
    con_subs U1 ZRing xa aa = [[0; 0]; [0; 1]; [1; 1]]%Z /\ con_subs U1 ZRing xb ab = [[0; 0]; [1; 0]; [1; 1]]%Z.
  Proof. split; vm_compute; reflexivity. Qed.

  (* alignment drops one block on each side and the charges that only it carried *)
  Example aligned_operands :
    sectors U1 ZRing a1 = [[0; 0; 0]; [2; 1; 1]]%Z /\ sectors U1 ZRing b1 = [[0; 0; 0]; [1; 1; 2]]%Z /\
    icharges U1 (nth 0 (indices U1 ZRing a1) (dflt_index U1)) = [0; 2]%Z /\
    con_subs U1 ZRing a1 aa = con_subs U1 ZRing b1 ab /\
    wf_array U1 ZRing a1 = true /\ wf_array U1 ZRing b1 = true.
  Proof. repeat split; vm_compute; reflexivity. Qed.

  (* the two fused contracted legs: same chargemap, same extents, opposite direction *)
  Example fused_legs :
    fused_index U1 (indices U1 ZRing a1) (sectors U1 ZRing a1) aa =
      Index U1 [(0%Z, 2); (2%Z, 2)] false
        (Some ([Index U1 [(0%Z, 1); (1%Z, 2)] false None; Index U1 [(0%Z, 2); (1%Z, 1)] false None],
               [(0%Z, [([0; 0]%Z, 2)]); (2%Z, [([1; 1]%Z, 2)])])) /\
    fused_index U1 (indices U1 ZRing b1) (sectors U1 ZRing b1) ab =
      Index U1 [(0%Z, 2); (2%Z, 2)] true
        (Some ([Index U1 [(0%Z, 1); (1%Z, 2)] true None; Index U1 [(0%Z, 2); (1%Z, 1)] true None],
               [(0%Z, [([0; 0]%Z, 2)]); (2%Z, [([1; 1]%Z, 2)])])).
  Proof. split; vm_compute; reflexivity. Qed.

  (* without the alignment the two layouts would NOT coincide *)
  Example unaligned_layouts_differ :
    chargemap U1 (fused_index U1 (indices U1 ZRing xa) (sectors U1 ZRing xa) aa) = [(0%Z, 2); (1%Z, 1); (2%Z, 2)] /\
    chargemap U1 (fused_index U1 (indices U1 ZRing xb) (sectors U1 ZRing xb) ab) = [(0%Z, 2); (1%Z, 4); (2%Z, 2)].
  Proof. split; vm_compute; reflexivity. Qed.

  Example theorems_apply :
    tdot_blockwise U1 ZRing a1 b1 la aa ab rb = tdot_blockwise U1 ZRing xa xb la aa ab rb /\
    tdot_fused2 U1 ZRing xa xb la aa ab rb = tdot_fused2 U1 ZRing a1 b1 la aa ab rb /\
    chargemap U1 (fused_index U1 (indices U1 ZRing a1) (sectors U1 ZRing a1) aa) =
    chargemap U1 (fused_index U1 (indices U1 ZRing b1) (sectors U1 ZRing b1) ab).
  Proof.
    destruct hyps_hold as (_ & _ & H3 & H4 & H5 & H6).
    split; [exact (drop_misaligned_blockwise U1 ZRing (ceqb_spec U1 U1_laws) xa xb la aa ab rb H3 H4)|].
    split; [exact (fused_factors_through_aligned U1 ZRing U1_laws xa xb la aa ab rb)|].
    exact (proj1 (aligned_fused_tables U1 ZRing U1_laws U1_order xa xb aa ab H5 H6)).
  Qed.

  (* the fused pair handed to the matrix product is a contractible pair *)
  Example fused_pair_matches :
    legs_match U1 ZRing (a_fuse_noexpand U1 ZRing a1 [la; aa]) (a_fuse_noexpand U1 ZRing b1 [ab; rb]) [1] [0] /\
    indices U1 ZRing (a_fuse_noexpand U1 ZRing a1 [la; aa]) =
      [Index U1 [(0%Z, 1); (2%Z, 1)] true None;
       fused_index U1 (indices U1 ZRing a1) (sectors U1 ZRing a1) aa].
  Proof.
    destruct hyps_hold as (_ & _ & H3 & H4 & H5 & H6).
    split; [exact (proj1 (fused_pair_legs_match U1 ZRing U1_laws U1_order xa xb la aa ab rb H5 H6 H3 H4))|].
    vm_compute. reflexivity.
  Qed.

  (* here (one free leg on each side) the two strategies return the same record *)
  Example fused_is_blockwise :
    tdot_fused2 U1 ZRing xa xb la aa ab rb = tdot_blockwise U1 ZRing xa xb la aa ab rb /\
    tdot_blockwise U1 ZRing xa xb la aa ab rb =
    mkA U1 ZRing [Index U1 [(0%Z, 1); (2%Z, 1)] true None; Index U1 [(0%Z, 1); (2%Z, 2)] false None] 0%Z
      [([0; 0]%Z, zt [1; 1] [23]%Z); ([2; 2]%Z, zt [1; 2] [111; 122]%Z)].
  Proof. split; vm_compute; reflexivity. Qed.

  (* full contraction (rank-0 result) with a partner that stores fewer sectors:
     conj(xa) without its middle block; 1 + 4 + 25 + 36 *)
  Definition xc : aarray U1 ZRing :=
    let c := a_conj U1 ZRing xa in
    mkA U1 ZRing (indices U1 ZRing c) (charge U1 ZRing c)
        (filter (fun p => negb (list_eqb Z.eqb (fst p) [1; 0; 1]%Z)) (blocks U1 ZRing c)).
  Example full_contraction :
    wf_array U1 ZRing xc = true /\ length (blocks U1 ZRing xc) = 2 /\
    sem U1 ZRing (tdot_fused2 U1 ZRing xa xc [] [0; 1; 2] [0; 1; 2] []) [] = 66%Z /\
    sem U1 ZRing (tdot_blockwise U1 ZRing xa xc [] [0; 1; 2] [0; 1; 2] []) [] = 66%Z.
  Proof. repeat split; vm_compute; reflexivity. Qed.

  (* Two free legs on each side: the fused strategy stores two extra blocks, both
     all-zero, that the blockwise strategy does not create (the product of the fused
     matrices is split along ALL sub-sectors of the fused free legs).  So the two
     results are equal as (indices, charge, values) but not as dictionaries. *)
  Definition ya : aarray U1 ZRing :=
    mkA U1 ZRing
      [Index U1 [(0%Z, 1); (1%Z, 2)] true None; Index U1 [(0%Z, 1); (1%Z, 1)] true None;
       Index U1 [(0%Z, 1); (1%Z, 2)] false None; Index U1 [(0%Z, 2); (1%Z, 1)] false None]
      0%Z
      [([0; 1; 0; 1]%Z, zt [1; 1; 1; 1] [2]%Z);
       ([1; 0; 1; 0]%Z, zt [2; 1; 2; 2] [1; 2; 3; 4; 5; 6; 7; 8]%Z)].
  Definition yb : aarray U1 ZRing :=
    mkA U1 ZRing
      [Index U1 [(0%Z, 1); (1%Z, 2)] true None; Index U1 [(0%Z, 2); (1%Z, 1)] true None;
       Index U1 [(0%Z, 1); (1%Z, 1)] false None; Index U1 [(0%Z, 2); (1%Z, 1)] false None]
      0%Z
      [([0; 1; 0; 1]%Z, zt [1; 1; 1; 1] [3]%Z);
       ([1; 0; 1; 0]%Z, zt [2; 2; 1; 2] [1; 2; 3; 4; 5; 6; 7; 8]%Z)].
  Definition yf := tdot_fused2 U1 ZRing ya yb [0; 1] [2; 3] [0; 1] [2; 3].
  Definition yw := tdot_blockwise U1 ZRing ya yb [0; 1] [2; 3] [0; 1] [2; 3].

  Example extra_zero_blocks :
    wf_array U1 ZRing ya = true /\ wf_array U1 ZRing yb = true /\
    sectors U1 ZRing yw = [[0; 1; 0; 1]; [1; 0; 1; 0]]%Z /\
    sectors U1 ZRing yf = [[0; 1; 0; 1]; [1; 0; 0; 1]; [0; 1; 1; 0]; [1; 0; 1; 0]]%Z /\
    lookup (list_eqb Z.eqb) [1; 0; 0; 1]%Z (blocks U1 ZRing yf) = Some (zt [2; 1; 1; 1] [0; 0]%Z) /\
    lookup (list_eqb Z.eqb) [0; 1; 1; 0]%Z (blocks U1 ZRing yf) = Some (zt [1; 1; 1; 2] [0; 0]%Z) /\
    indices U1 ZRing yf = indices U1 ZRing yw /\ charge U1 ZRing yf = charge U1 ZRing yw /\
    forallb (fun cs => Z.eqb (sem U1 ZRing yf cs) (sem U1 ZRing yw cs)) (all_coords U1 (indices U1 ZRing yw)) = true.
  Proof. repeat split; vm_compute; reflexivity. Qed.

  (* mode selection *)
  Example auto_is_fused :
    a_tensordot2 U1 ZRing xa xb (inr ([1; 2]%Z, [0; 1]%Z)) MAuto = Some (tdot_fused2 U1 ZRing xa xb la aa ab rb) /\
    a_tensordot2 U1 ZRing xa xb (inl 0) MAuto = a_tensordot2 U1 ZRing xa xb (inl 0) MBlockwise.
  Proof. split; vm_compute; reflexivity. Qed.
End ExC06.
