(* Proofs/PhasesGenProofs.v — the sign-table functions GENERATED from the current source of
   FermionicArray.{phase_global, phase_flip, phase_transpose, phase_sector, phase_sync, transpose,
   conj, dagger} (Gen/PhasesGen.v, tr/gen_phases.py) compute exactly the tables of the hand model
   Model/Fermi.v, on which the theorems of C03 / C09 / C10 are stated.

   The implementation's table is a dict sector -> +-1; the hand model keeps the list of the sectors
   carrying -1.  `tbl_of ph` is the dict that holds -1 for every sector of ph (in order); all
   statements are EQUALITIES OF ASSOCIATION LISTS including insertion order, under the dict invariant
   "no key twice" (NoDup).  parity_ok G: the parity of a charge is 0 or 1 and the identity is even
   (true of the five built-in symmetries: parity_ok_Z2 ... below). *)
From SV Require Import Base.Prelude Base.PyList Base.Sym Base.Tensor Gen.PhasePerm Gen.OpOrder Gen.PhasesGen
  Model.Sectors Model.Array Model.Arith Model.Fermi Model.SymInst Model.Graded
  Proofs.FermiProofs Proofs.LazyProofs Proofs.ConjProofs.
From Coq Require Import Permutation.
Local Open Scope Z_scope.
Ltac Zify.zify_post_hook ::= Z.to_euclidean_division_equations.

(* the identity charge is even *)
Definition parity_ok (G : Symmetry) : Prop := parityZ G (ident G) = 0.
(* every charge of the listed sectors has parity 0 or 1 *)
Definition bits_ok (G : Symmetry) (secs : list (list (C G))) : Prop :=
  forall s c, In s secs -> In c s -> parityZ G c = 0 \/ parityZ G c = 1.

Definition tbl_of {K} (ph : list K) : list (K * Z) := map (fun s => (s, -1)) ph.

Lemma tbl_of_app {K} (a b : list K) : tbl_of (a ++ b) = tbl_of a ++ tbl_of b.
Proof. apply map_app. Qed.

Lemma keys_tbl_of {K} (ph : list K) : keys (tbl_of ph) = ph.
Proof. unfold keys, tbl_of. rewrite map_map. cbn [fst]. apply map_id. Qed.

Lemma NoDup_snoc {A} (l : list A) a : NoDup l -> ~ In a l -> NoDup (l ++ [a]).
Proof.
  induction l as [|x l IH]; intros H Hn; cbn [app].
  - constructor; [intros []|constructor].
  - inversion H as [|? ? Hx Hl]; subst. constructor.
    + rewrite in_app_iff. intros [Hi|[Hi|[]]]; [contradiction | subst; apply Hn; now left].
    + apply IH; [assumption | intro; apply Hn; now right].
Qed.

(* ------------------------------------------------------------------ *)
(* dict operations on a table of -1 entries *)
Section Tbl.
  Context {K : Type} (e : K -> K -> bool) (e_spec : forall a b, e a b = true <-> a = b).

  Definition ghas (s : K) (ph : list K) : bool := mem e s ph.
  Definition gdel (s : K) (ph : list K) : list K := filter (fun t => negb (e s t)) ph.
  Definition gtog (ph : list K) (s : K) : list K := if ghas s ph then gdel s ph else ph ++ [s].

  Lemma e_refl a : e a a = true.
  Proof. now apply e_spec. Qed.

  Lemma e_false a b : a <> b -> e a b = false.
  Proof. intro H. destruct (e a b) eqn:E; [|reflexivity]. apply e_spec in E. contradiction. Qed.

  Lemma ghas_In s ph : ghas s ph = true <-> In s ph.
  Proof.
    unfold ghas. induction ph as [|t ph IH]; cbn [mem In]; [split; [discriminate|tauto]|].
    rewrite orb_true_iff, IH, e_spec. split; intros [H|H]; auto.
  Qed.

  Lemma ghas_notin s ph : ~ In s ph -> ghas s ph = false.
  Proof. intro H. destruct (ghas s ph) eqn:E; [|reflexivity]. apply ghas_In in E. contradiction. Qed.

  Lemma gdel_notin s ph : ~ In s ph -> gdel s ph = ph.
  Proof.
    unfold gdel. induction ph as [|t ph IH]; intro H; cbn [filter]; [reflexivity|].
    rewrite e_false by (intro E; apply H; left; now symmetry). cbn [negb]. f_equal. apply IH. intro; apply H; now right.
  Qed.

  Lemma in_gdel p s ph : In p (gdel s ph) <-> In p ph /\ p <> s.
  Proof.
    unfold gdel. rewrite filter_In. split; intros [H1 H2]; split; auto.
    - intro E. subst p. now rewrite e_refl in H2.
    - rewrite e_false; [reflexivity | intro E; apply H2; now symmetry].
  Qed.

  Lemma NoDup_gdel s ph : NoDup ph -> NoDup (gdel s ph).
  Proof. apply NoDup_filter. Qed.

  Lemma NoDup_gtog ph s : NoDup ph -> NoDup (gtog ph s).
  Proof.
    intro H. unfold gtog. destruct (ghas s ph) eqn:E; [now apply NoDup_gdel|].
    apply NoDup_snoc; [exact H|]. intro Hin. apply ghas_In in Hin. congruence.
  Qed.

  Lemma lookup_tbl s ph : lookup e s (tbl_of ph) = if ghas s ph then Some (-1) else None.
  Proof.
    unfold ghas. induction ph as [|t ph IH]; cbn [tbl_of map lookup mem]; [reflexivity|].
    destruct (e s t); cbn [orb]; [reflexivity | exact IH].
  Qed.

  Lemma get_tbl s ph : py_dict_get e 1 (tbl_of ph) s = if ghas s ph then -1 else 1.
  Proof. unfold py_dict_get. rewrite lookup_tbl. now destruct (ghas s ph). Qed.

  Lemma dpop_tbl s ph : NoDup ph -> dpop e s (tbl_of ph) = tbl_of (gdel s ph).
  Proof.
    induction ph as [|t ph IH]; intro H; [reflexivity|].
    inversion H as [|? ? Hn Hnd]; subst. cbn [tbl_of map dpop]. unfold gdel. cbn [filter].
    destruct (e s t) eqn:E; cbn [negb].
    - apply e_spec in E. subst t. fold (gdel s ph). now rewrite gdel_notin.
    - fold (gdel s ph). change (tbl_of (t :: gdel s ph)) with ((t, -1) :: tbl_of (gdel s ph)). f_equal. apply IH. exact Hnd.
  Qed.

  Lemma dset_tbl_in s ph : ghas s ph = true -> dset e s (-1) (tbl_of ph) = tbl_of ph.
  Proof.
    unfold ghas. induction ph as [|t ph IH]; cbn [mem tbl_of map dset]; [discriminate|].
    destruct (e s t) eqn:E; cbn [orb]; intro H; [reflexivity|]. f_equal. now apply IH.
  Qed.

  Lemma dset_tbl_notin s ph : ghas s ph = false -> dset e s (-1) (tbl_of ph) = tbl_of (ph ++ [s]).
  Proof.
    unfold ghas. induction ph as [|t ph IH]; cbn [mem tbl_of map dset app]; [reflexivity|].
    destruct (e s t) eqn:E; cbn [orb]; intro H; [discriminate|]. f_equal. now apply IH.
  Qed.

  (* one update "multiply the entry of s by sigma; drop it when it becomes +1" *)
  Lemma step_mul ph s sigma : NoDup ph -> sigma = 1 \/ sigma = -1 ->
    (if py_dict_get e 1 (tbl_of ph) s * sigma =? 1 then dpop e s (tbl_of ph)
     else dset e s (py_dict_get e 1 (tbl_of ph) s * sigma) (tbl_of ph))
    = tbl_of (if sigma =? -1 then gtog ph s else ph).
  Proof.
    intros Hnd Hs. rewrite get_tbl. unfold gtog.
    destruct (ghas s ph) eqn:Hh; destruct Hs as [-> | ->]; cbn [Z.mul Z.eqb Z.opp Pos.mul Pos.eqb].
    - now apply dset_tbl_in.
    - now apply dpop_tbl.
    - rewrite dpop_tbl by exact Hnd. f_equal. apply gdel_notin. intro Hi. apply ghas_In in Hi. congruence.
    - now apply dset_tbl_notin.
  Qed.

  (* "pop the entry, store -1 when the negated entry is -1" (phase_global, phase_sector) *)
  Lemma step_pop ph s : NoDup ph ->
    (if - py_dict_get e 1 (tbl_of ph) s =? -1 then dset e s (- py_dict_get e 1 (tbl_of ph) s) (dpop e s (tbl_of ph))
     else dpop e s (tbl_of ph))
    = tbl_of (gtog ph s).
  Proof.
    intros Hnd. rewrite get_tbl, dpop_tbl by exact Hnd. unfold gtog.
    destruct (ghas s ph) eqn:Hh; cbn [Z.opp Z.eqb Pos.eqb]; [reflexivity|].
    assert (Hn : ~ In s ph) by (intro Hi; apply ghas_In in Hi; congruence).
    rewrite gdel_notin by exact Hn. now apply dset_tbl_notin.
  Qed.

  Lemma fold_tbl (c : K -> bool) (F : list (K * Z) -> K -> list (K * Z)) l :
    (forall ph s, In s l -> NoDup ph -> F (tbl_of ph) s = tbl_of (if c s then gtog ph s else ph)) ->
    forall ph, NoDup ph ->
    fold_left F l (tbl_of ph) = tbl_of (fold_left (fun ph s => if c s then gtog ph s else ph) l ph).
  Proof.
    induction l as [|s l IH]; intros HF ph Hnd; cbn [fold_left]; [reflexivity|].
    rewrite HF; [| now left | exact Hnd].
    apply IH; [intros p t Ht; apply HF; now right|]. destruct (c s); [now apply NoDup_gtog | exact Hnd].
  Qed.

  (* building a table from distinct new keys *)
  Lemma fold_build {A} (c : A -> bool) (f : A -> K) l : forall acc,
    NoDup (map f l) -> (forall a, In a l -> ~ In (f a) acc) ->
    fold_left (fun t a => if c a then dset e (f a) (-1) t else t) l (tbl_of acc)
    = tbl_of (acc ++ flat_map (fun a => if c a then [f a] else []) l).
  Proof.
    induction l as [|a l IH]; intros acc Hnd Hacc; cbn [fold_left flat_map]; [now rewrite app_nil_r|].
    cbn [map] in Hnd. inversion Hnd as [|? ? Hn Hnd']; subst.
    destruct (c a).
    - rewrite dset_tbl_notin by (apply ghas_notin, Hacc; now left).
      rewrite IH; [now rewrite <- app_assoc | exact Hnd' |].
      intros b Hb Hin. apply in_app_or in Hin. destruct Hin as [Hin|[Hin|[]]].
      + apply (Hacc b); [now right | exact Hin].
      + apply Hn. rewrite Hin. now apply in_map.
    - cbn [app]. apply IH; [exact Hnd'|]. intros b Hb. apply Hacc. now right.
  Qed.

  Lemma fold_build_items (f : K -> K) l : forall acc,
    NoDup (map f l) -> (forall a, In a l -> ~ In (f a) acc) ->
    fold_left (fun t '(s, v) => dset e (f s) v t) (tbl_of l) (tbl_of acc) = tbl_of (acc ++ map f l).
  Proof.
    induction l as [|a l IH]; intros acc Hnd Hacc; cbn [fold_left tbl_of map]; [now rewrite app_nil_r|].
    cbn [map] in Hnd. inversion Hnd as [|? ? Hn Hnd']; subst.
    rewrite dset_tbl_notin by (apply ghas_notin, Hacc; now left).
    fold (tbl_of l). rewrite IH; [now rewrite <- app_assoc | exact Hnd' |].
    intros b Hb Hin. apply in_app_or in Hin. destruct Hin as [Hin|[Hin|[]]].
    - apply (Hacc b); [now right | exact Hin].
    - apply Hn. rewrite Hin. now apply in_map.
  Qed.

  (* ---- blocks: negating the entries named by a list of keys ---- *)
  Context {V : Type} (f : V -> V).
  Definition neg_at (s : K) (bl : list (K * V)) : list (K * V) :=
    match lookup e s bl with Some v => dset e s (f v) bl | None => bl end.
  Definition neg_where (L : list K) (sb : K * V) : K * V := if mem e (fst sb) L then (fst sb, f (snd sb)) else sb.

  Definition neg1 (s : K) (sb : K * V) : K * V := if e (fst sb) s then (fst sb, f (snd sb)) else sb.

  Lemma neg_where_single s sb : neg_where [s] sb = neg1 s sb.
  Proof. unfold neg_where, neg1. cbn [mem]. now rewrite orb_false_r. Qed.

  Lemma neg_at_map1 s bl : NoDup (map fst bl) -> neg_at s bl = map (neg1 s) bl.
  Proof.
    unfold neg_at. induction bl as [|[k v] bl IH]; intro Hnd; [reflexivity|].
    cbn [map fst] in Hnd. inversion Hnd as [|? ? Hn Hnd']; subst.
    cbn [lookup map]. unfold neg1 at 1. cbn [fst snd].
    destruct (e s k) eqn:E.
    - apply e_spec in E. subst k. cbn [dset]. rewrite !e_refl. f_equal.
      symmetry. rewrite <- (map_id bl) at 2. apply map_ext_in. intros [k' v'] Hin. unfold neg1. cbn [fst snd].
      rewrite e_false; [reflexivity|]. intro E. subst k'. apply Hn. now apply (in_map fst) in Hin.
    - assert (E' : e k s = false) by (apply e_false; intro; subst; now rewrite e_refl in E).
      rewrite E'. specialize (IH Hnd'). destruct (lookup e s bl) as [w|].
      + cbn [dset]. rewrite E. f_equal. exact IH.
      + f_equal. exact IH.
  Qed.

  Lemma neg_at_map s bl : NoDup (map fst bl) -> neg_at s bl = map (neg_where [s]) bl.
  Proof. intro H. rewrite neg_at_map1 by exact H. apply map_ext. intro sb. symmetry. apply neg_where_single. Qed.

  Lemma fst_neg_where L sb : fst (neg_where L sb) = fst sb.
  Proof. unfold neg_where. now destruct (mem e (fst sb) L). Qed.

  Lemma fold_neg_at L : NoDup L -> forall bl, NoDup (map fst bl) ->
    fold_left (fun bl s => neg_at s bl) L bl = map (neg_where L) bl.
  Proof.
    induction L as [|s L IH]; intros HL bl Hbl; cbn [fold_left].
    - unfold neg_where. cbn [mem]. symmetry. apply map_id.
    - inversion HL as [|? ? Hn HL']; subst. rewrite neg_at_map by exact Hbl.
      rewrite IH; [| exact HL' | rewrite map_map; erewrite map_ext; [exact Hbl | intro; apply fst_neg_where]].
      rewrite map_map. apply map_ext. intros [k v]. unfold neg_where. cbn [fst snd mem]. rewrite orb_false_r.
      destruct (e k s) eqn:E; cbn [fst snd orb].
      + apply e_spec in E. subst k. change (mem e s L) with (ghas s L). now rewrite ghas_notin.
      + reflexivity.
  Qed.

  Lemma mem_rev s L : mem e s (rev L) = mem e s L.
  Proof.
    change (ghas s (rev L) = ghas s L). destruct (ghas s L) eqn:E.
    - apply ghas_In. rewrite <- in_rev. now apply ghas_In.
    - apply ghas_notin. rewrite <- in_rev. intro H. apply ghas_In in H. congruence.
  Qed.
End Tbl.

(* ------------------------------------------------------------------ *)
(* small arithmetic facts *)
Lemma py_nth_of_nat {A} (d : A) l n : py_nth d l (Z.of_nat n) = nth n l d.
Proof. unfold py_nth. destruct (Z.of_nat n <? 0) eqn:E; [apply Z.ltb_lt in E; lia|]. now rewrite Nat2Z.id. Qed.

Lemma cpp_pm1 par perm : calc_phase_permutation par perm = 1 \/ calc_phase_permutation par perm = -1.
Proof.
  unfold calc_phase_permutation. destruct perm as [p|].
  - cbv zeta. match goal with |- context [fold_left ?F ?l ?a] => destruct (fold_left F l a) as [sw mv] end.
    destruct (negb (sw mod 2 =? 0)); auto.
  - destruct (negb ((zsum par / 2) mod 2 =? 0)); auto.
Qed.

Lemma odd_length_mod {A} (l0 : list A) : (Z.of_nat (length l0) mod 2 =? 1) = Nat.odd (length l0).
Proof.
  generalize (length l0). intro n.
  rewrite <- Nat.negb_even. destruct (Nat.even n) eqn:E.
  - apply Nat.even_spec in E. destruct E as [k ->]. rewrite Nat2Z.inj_mul. cbn [negb].
    replace (Z.of_nat 2 * Z.of_nat k) with (Z.of_nat k * 2) by lia. now rewrite Z.mod_mul.
  - assert (O : Nat.odd n = true) by (now rewrite <- Nat.negb_even, E). apply Nat.odd_spec in O. destruct O as [k ->].
    rewrite Nat2Z.inj_add, Nat2Z.inj_mul. cbn [negb].
    replace (Z.of_nat 2 * Z.of_nat k + Z.of_nat 1) with (1 + Z.of_nat k * 2) by lia. now rewrite Z.mod_add.
Qed.

Section Gen.
  Context (G : Symmetry) (R : Ring).
  Context (ceqb_spec : forall a b : C G, ceqb G a b = true <-> a = b).
  Context (PO : parity_ok G).
  Notation sector := (list (C G)).
  Notation keq := (list_eqb (ceqb G)).
  Notation farr := (farray G R).
  Notation T := (tensor R).

  Lemma keq_spec (a b : sector) : keq a b = true <-> a = b.
  Proof.
    revert b. induction a as [|x a IH]; intros [|y b]; cbn [list_eqb]; try (split; [discriminate|congruence]); [tauto|].
    rewrite andb_true_iff, ceqb_spec, IH. split; [intros [-> ->]; reflexivity | intro E; inversion E; auto].
  Qed.

  (* the hand model's table operations are the generic ones *)
  Lemma ph_toggle_gtog ph s : ph_toggle G ph s = gtog keq ph s.
  Proof. reflexivity. Qed.

  (* sum of parities modulo two = odd number of odd ones *)
  Lemma sum_parities_odd (g : nat -> C G) axs :
    (forall ax, In ax axs -> parityZ G (g ax) = 0 \/ parityZ G (g ax) = 1) ->
    negb ((zsum (map (fun ax => parityZ G (g ax)) axs)) mod 2 =? 0)
    = Nat.odd (length (filter (fun ax => parity G (g ax)) axs)).
  Proof.
    induction axs as [|a axs IH]; intro Hb; [reflexivity|].
    cbn [map filter]. rewrite zsum_cons. unfold parity at 1.
    specialize (IH (fun ax H => Hb ax (or_intror H))).
    destruct (Hb a (or_introl eq_refl)) as [E|E]; rewrite E; cbn [Z.eqb negb].
    - exact IH.
    - cbn [length]. rewrite Nat.odd_succ, <- Nat.negb_odd, <- IH.
      generalize (zsum (map (fun ax => parityZ G (g ax)) axs)). intro z.
      assert (H : (1 + z) mod 2 = 1 - z mod 2) by lia.
      rewrite H. assert (Hz : z mod 2 = 0 \/ z mod 2 = 1) by lia.
      destruct Hz as [-> | ->]; reflexivity.
  Qed.

  Definition sector_bits (s : sector) : Prop := forall c, In c s -> parityZ G c = 0 \/ parityZ G c = 1.

  Lemma nth_bit s ax : sector_bits s -> parityZ G (nth ax s (ident G)) = 0 \/ parityZ G (nth ax s (ident G)) = 1.
  Proof.
    intro Hs. destruct (nth_in_or_default ax s (ident G)) as [Hin | ->]; [now apply Hs | left; exact PO].
  Qed.

  Lemma count_odd_gen s (axs : list nat) : sector_bits s ->
    negb ((zsum (map (fun ax => parityZ G (py_nth (ident G) s ax)) (map Z.of_nat axs))) mod 2 =? 0) = count_odd G s axs.
  Proof.
    intro Hs. rewrite map_map. erewrite map_ext by (intro; rewrite py_nth_of_nat; reflexivity).
    apply (sum_parities_odd (fun ax => nth ax s (ident G))). intros ax _. now apply nth_bit.
  Qed.

  (* the same through the list of parities (conj): out-of-range axes read the even identity *)
  Lemma count_odd_gen_par s (axs : list nat) : sector_bits s ->
    negb ((zsum (map (fun ax => py_nth 0 (map (fun q => parityZ G q) s) ax) (map Z.of_nat axs))) mod 2 =? 0) = count_odd G s axs.
  Proof.
    intro Hs. rewrite map_map. erewrite map_ext.
    - apply (sum_parities_odd (fun ax => nth ax s (ident G))). intros ax _. now apply nth_bit.
    - intro a. cbv beta. rewrite py_nth_of_nat.
      unfold parity_ok in PO. rewrite <- PO at 1. apply map_nth.
  Qed.

  Lemma perm_minus_gen s (perm : option (list nat)) :
    (calc_phase_permutation (map (fun q => parityZ G q) s) (match perm with Some p => Some (map Z.of_nat p) | None => None end) =? -1)
    = perm_minus G s perm.
  Proof. reflexivity. Qed.

  Lemma permuted_gen_nat s (axes : list nat) : permuted_gen G s (map Z.of_nat axes) = permuted (ident G) s axes.
  Proof. unfold permuted_gen, permuted. rewrite map_map. apply map_ext. intro. apply py_nth_of_nat. Qed.

  Lemma keys_blocks (b : aarray G R) : keys (blocks G R b) = sectors G R b.
  Proof. reflexivity. Qed.

  (* ================================================================ *)
  (* phase_global *)
  Lemma gen_phase_global ix ch {B} (bl : list (sector * B)) odd ph :
    NoDup ph ->
    phase_global_gen G B ix ch bl (tbl_of ph) odd = (ix, ch, bl, tbl_of (fold_left (ph_toggle G) (keys bl) ph), odd).
  Proof.
    intro Hnd. unfold phase_global_gen. cbv zeta. repeat f_equal.
    rewrite (fold_tbl keq keq_spec (fun _ => true)) with (ph := ph); [reflexivity | | exact Hnd].
    intros p s _ Hp. cbv beta. apply (step_pop keq keq_spec); exact Hp.
  Qed.

  Lemma phases_phase_global (x : farr) ix ch odd :
    NoDup (fphases G R x) ->
    st_phases (phase_global_gen G T ix ch (blocks G R (fbase G R x)) (tbl_of (fphases G R x)) odd)
    = tbl_of (fphases G R (f_phase_global G R x)).
  Proof. intro H. rewrite gen_phase_global by exact H. reflexivity. Qed.

  (* phase_flip *)
  Lemma gen_phase_flip ix ch {B} (bl : list (sector * B)) odd ph (axs : list nat) :
    NoDup ph -> bits_ok G (keys bl) ->
    phase_flip_gen G B ix ch bl (tbl_of ph) odd (map Z.of_nat axs)
    = (ix, ch, bl, tbl_of (if is_nil axs then ph
                           else fold_left (fun ph s => if count_odd G s axs then ph_toggle G ph s else ph) (keys bl) ph), odd).
  Proof.
    intros Hnd Hb. unfold phase_flip_gen.
    assert (En : is_nil (map Z.of_nat axs) = is_nil axs) by now destruct axs. rewrite En.
    destruct (is_nil axs); [reflexivity|]. cbn [negb]. cbv zeta. repeat f_equal.
    rewrite (fold_tbl keq keq_spec (fun s => count_odd G s axs)) with (ph := ph); [reflexivity | | exact Hnd].
    intros p s Hin Hp. cbv beta. rewrite count_odd_gen by (intros c Hc; exact (Hb s c Hin Hc)).
    destruct (count_odd G s axs); [|reflexivity].
    pose proof (step_mul keq keq_spec p s (-1) Hp (or_intror eq_refl)) as H. cbn [Z.eqb Pos.eqb] in H.
    rewrite <- H. replace (py_dict_get keq 1 (tbl_of p) s * -1) with (- py_dict_get keq 1 (tbl_of p) s) by lia. reflexivity.
  Qed.

  Lemma phases_phase_flip (x : farr) ix ch odd (axs : list nat) :
    NoDup (fphases G R x) -> bits_ok G (fsectors G R x) ->
    st_phases (phase_flip_gen G T ix ch (blocks G R (fbase G R x)) (tbl_of (fphases G R x)) odd (map Z.of_nat axs))
    = tbl_of (fphases G R (f_phase_flip G R x axs)).
  Proof. intros H Hb. rewrite gen_phase_flip by assumption. unfold f_phase_flip. now destruct (is_nil axs). Qed.

  (* phase_transpose *)
  Definition zperm (perm : option (list nat)) : option (list Z) :=
    match perm with Some p => Some (map Z.of_nat p) | None => None end.

  Lemma gen_phase_transpose ix ch {B} (bl : list (sector * B)) odd ph (perm : option (list nat)) :
    NoDup ph ->
    phase_transpose_gen G B ix ch bl (tbl_of ph) odd (zperm perm)
    = (ix, ch, bl, tbl_of (fold_left (fun ph s => if perm_minus G s perm then ph_toggle G ph s else ph) (keys bl) ph), odd).
  Proof.
    intro Hnd. unfold phase_transpose_gen. cbv zeta. repeat f_equal.
    rewrite (fold_tbl keq keq_spec (fun s => perm_minus G s perm)) with (ph := ph); [reflexivity | | exact Hnd].
    intros p s _ Hp. cbv beta.
    rewrite (step_mul keq keq_spec p s _ Hp (cpp_pm1 _ _)). reflexivity.
  Qed.

  Lemma phases_phase_transpose (x : farr) ix ch odd perm :
    NoDup (fphases G R x) ->
    st_phases (phase_transpose_gen G T ix ch (blocks G R (fbase G R x)) (tbl_of (fphases G R x)) odd (zperm perm))
    = tbl_of (fphases G R (f_phase_transpose G R x perm)).
  Proof. intro H. rewrite gen_phase_transpose by exact H. reflexivity. Qed.

  (* phase_sector *)
  Lemma phases_phase_sector (x : farr) ix ch odd s :
    NoDup (fphases G R x) ->
    st_phases (phase_sector_gen G T ix ch (blocks G R (fbase G R x)) (tbl_of (fphases G R x)) odd s)
    = tbl_of (fphases G R (f_phase_sector G R x s)).
  Proof.
    intro H. unfold phase_sector_gen. cbv zeta. cbn [st_phases].
    pose proof (step_pop keq keq_spec (fphases G R x) s H) as E. cbv beta in E.
    change (- (1)) with (-1). unfold f_phase_sector, with_phases. cbn [fphases]. rewrite ph_toggle_gtog.
    destruct (- py_dict_get keq 1 (tbl_of (fphases G R x)) s =? -1) eqn:Q.
    - apply Z.eqb_eq in Q. rewrite Q in E. exact E.
    - exact E.
  Qed.

  (* phase_sync: the table is emptied and exactly the blocks of the signed sectors are negated *)
  Lemma gen_phase_sync ix ch {B} (bneg : B -> B) (bl : list (sector * B)) odd ph :
    NoDup ph -> NoDup (keys bl) ->
    phase_sync_gen G B bneg ix ch bl (tbl_of ph) odd
    = (ix, ch, map (fun sb => if ph_has G (fst sb) ph then (fst sb, bneg (snd sb)) else sb) bl, [], odd).
  Proof.
    intros Hph Hbl. unfold phase_sync_gen. cbv zeta. repeat f_equal.
    unfold tbl_of. rewrite <- map_rev.
    assert (E : forall L b0,
      fold_left (fun (v1 : list (sector * B)) '(v2, v3) =>
                   if v3 =? - (1) then match lookup keq v2 v1 with Some v4 => dset keq v2 (bneg v4) v1 | None => v1 end else v1)
                (map (fun s : sector => (s, -1)) L) b0
      = fold_left (fun b s => neg_at keq bneg s b) L b0).
    { induction L as [|s L IH]; intro b0; cbn [map fold_left]; [reflexivity|]. rewrite IH. reflexivity. }
    rewrite E, (fold_neg_at keq keq_spec bneg) by (try apply NoDup_rev; assumption).
    apply map_ext. intros [k v]. unfold neg_where, ph_has. cbn [fst snd]. now rewrite (mem_rev keq keq_spec).
  Qed.

  Lemma blocks_phase_sync (x : farr) ix ch odd :
    NoDup (fphases G R x) -> NoDup (fsectors G R x) ->
    let st := phase_sync_gen G T (tneg R) ix ch (blocks G R (fbase G R x)) (tbl_of (fphases G R x)) odd in
    st_blocks st = blocks G R (fbase G R (f_phase_sync G R x)) /\
    st_phases st = tbl_of (fphases G R (f_phase_sync G R x)).
  Proof. intros H1 H2. cbv zeta. rewrite gen_phase_sync by assumption. split; reflexivity. Qed.

  (* transpose *)
  Lemma py_range_down_rev n : py_range_down (Z.of_nat n - 1) (- (1)) = map Z.of_nat (rev (seq 0 n)).
  Proof.
    unfold py_range_down. replace (Z.of_nat n - 1 - - (1)) with (Z.of_nat n) by lia.
    unfold zrange. rewrite Nat2Z.id.
    induction n as [|n IH]; [reflexivity|].
    replace (rev (seq 0 (S n))) with (n :: rev (seq 0 n)) by (rewrite seq_S, rev_app_distr; reflexivity).
    replace (seq 0 (S n)) with (0%nat :: map S (seq 0 n)) by (rewrite seq_shift; reflexivity).
    cbn [map]. rewrite <- IH, !map_map. f_equal; [lia|]. apply map_ext. intro k. lia.
  Qed.

  Lemma gen_transpose_none {B} mv ix ch (bl : list (sector * B)) ph odd phase :
    transpose_gen G B mv ix ch bl ph odd None phase
    = transpose_gen G B mv ix ch bl ph odd (Some (map Z.of_nat (rev_axes (length ix)))) phase.
  Proof. unfold transpose_gen. cbv zeta. now rewrite py_range_down_rev. Qed.

  Lemma fold_left_ext {A B'} (f g : A -> B' -> A) l : (forall a b, f a b = g a b) -> forall a, fold_left f l a = fold_left g l a.
  Proof. intro H. induction l as [|b l IH]; intro a; cbn [fold_left]; [reflexivity|]. now rewrite H, IH. Qed.

  Lemma get_mul_minus ph s sigma : sigma = 1 \/ sigma = -1 ->
    (py_dict_get keq 1 (tbl_of ph) s * sigma =? -1) = xorb (ph_has G s ph) (sigma =? -1).
  Proof.
    intro Hs. rewrite (get_tbl keq). unfold ph_has. change (mem keq s ph) with (ghas keq s ph).
    destruct Hs as [-> | ->]; destruct (ghas keq s ph); reflexivity.
  Qed.

  Lemma phases_transpose (x : farr) {B} mv ix ch (bl : list (sector * B)) odd (axes : list nat) (phase : bool) :
    keys bl = fsectors G R x ->
    NoDup (map (fun s => permuted (ident G) s axes) (if phase then fsectors G R x else fphases G R x)) ->
    st_phases (transpose_gen G B mv ix ch bl (tbl_of (fphases G R x)) odd (Some (map Z.of_nat axes)) phase)
    = tbl_of (fphases G R (f_transpose G R x axes phase)).
  Proof.
    intros Hk Hnd. unfold transpose_gen. cbv zeta.
    destruct (mv ix bl (map Z.of_nat axes)) as [i2 b2]. cbn [st_phases]. unfold f_transpose. cbn [fphases].
    change (- (1)) with (-1).
    destruct phase.
    - rewrite Hk. change (@nil (sector * Z)) with (tbl_of (@nil sector)).
      rewrite (fold_left_ext _ (fun t s => if xorb (ph_has G s (fphases G R x)) (perm_minus G s (Some axes))
                                           then dset keq (permuted (ident G) s axes) (-1) t else t)).
      + rewrite (fold_build keq keq_spec _ _ (fsectors G R x) [] Hnd (fun _ _ F => F)). reflexivity.
      + intros t s. cbv beta. rewrite permuted_gen_nat, get_mul_minus by apply cpp_pm1. reflexivity.
    - change (@nil (sector * Z)) with (tbl_of (@nil sector)).
      rewrite (fold_left_ext _ (fun t '(s, v) => dset keq (permuted (ident G) s axes) v t)).
      + rewrite (fold_build_items keq keq_spec _ (fphases G R x) [] Hnd (fun _ _ F => F)). reflexivity.
      + intros t [s v]. now rewrite permuted_gen_nat.
  Qed.

  (* ================================================================ *)
  (* conj *)
  Lemma NoDup_fold_toggle (c : sector -> bool) l : forall ph, NoDup ph ->
    NoDup (fold_left (fun ph s => if c s then ph_toggle G ph s else ph) l ph).
  Proof.
    induction l as [|s l IH]; intros ph H; cbn [fold_left]; [exact H|].
    apply IH. destruct (c s); [apply (NoDup_gtog keq keq_spec); exact H | exact H].
  Qed.

  Lemma NoDup_fold_toggle_all l ph : NoDup ph -> NoDup (fold_left (ph_toggle G) l ph).
  Proof. intro H. apply (NoDup_fold_toggle (fun _ => true)). exact H. Qed.

  Lemma keys_dset_in {V} k (v : V) a : In k (keys a) -> keys (dset keq k v a) = keys a.
  Proof.
    unfold keys. induction a as [|[k' v'] a IH]; cbn [map fst In dset]; [tauto|].
    intros [E|Hin].
    - subst k'. assert (Ek : keq k k = true) by now apply keq_spec. rewrite Ek. reflexivity.
    - destruct (keq k k'); cbn [map fst]; [reflexivity|]. f_equal. now apply IH.
  Qed.

  Lemma fold_pair_tbl {A V} (F : A * list (sector * Z) -> sector * V -> A * list (sector * Z)) (c : sector -> bool) l :
    (forall a p k v, In k (map fst l) -> NoDup p -> snd (F (a, tbl_of p) (k, v)) = tbl_of (if c k then ph_toggle G p k else p)) ->
    forall a p, NoDup p ->
    snd (fold_left F l (a, tbl_of p)) = tbl_of (fold_left (fun p s => if c s then ph_toggle G p s else p) (map fst l) p).
  Proof.
    induction l as [|[k v] l IH]; intros HF a p Hp; cbn [fold_left map fst]; [reflexivity|].
    pose proof (HF a p k v (or_introl eq_refl) Hp) as H0. destruct (F (a, tbl_of p) (k, v)) as [a' q]. cbn [snd] in H0. subst q.
    apply IH; [intros a0 p0 k0 v0 Hk0; apply HF; now right|].
    destruct (c k); [apply (NoDup_gtog keq keq_spec); exact Hp | exact Hp].
  Qed.

  Lemma fold_pair_keys {A' V W} (F : list (sector * W) * A' -> sector * V -> list (sector * W) * A') :
    (forall a p k v, In k (keys a) -> keys (fst (F (a, p) (k, v))) = keys a) ->
    forall l a p, incl (map fst l) (keys a) -> keys (fst (fold_left F l (a, p))) = keys a.
  Proof.
    intros HF l. induction l as [|[k v] l IH]; intros a p Hi; cbn [fold_left]; [reflexivity|].
    assert (Hk : In k (keys a)) by (apply Hi; now left).
    specialize (HF a p k v Hk). destruct (F (a, p) (k, v)) as [a' q]. cbn [fst] in HF.
    rewrite IH; [exact HF|]. rewrite HF. intros t Ht. apply Hi. now right.
  Qed.

  (* the axes the generated code collects with enumerate/filter *)
  Lemma enum_filter_gen (P : bool -> bool) (g : bool -> bool) (ix : list bool) : forall k,
    map (fun '(a, _) => a) (filter (fun '(_, b) => P b) (py_enum_from (Z.of_nat k) (map g ix)))
    = map Z.of_nat (map fst (filter (fun p => P (g (snd p))) (List.combine (seq k (length ix)) ix))).
  Proof.
    induction ix as [|b ix IH]; intro k; [reflexivity|].
    cbn [map py_enum_from length seq List.combine filter snd].
    replace (Z.of_nat k + 1) with (Z.of_nat (S k)) by lia. specialize (IH (S k)).
    destruct (P (g b)); cbn [map fst]; rewrite IH; reflexivity.
  Qed.

  Lemma enum_map_filter {A} (Q : bool -> bool) (f : A -> bool) (l : list A) : forall k,
    map fst (filter (fun p => Q (f (snd p))) (List.combine (seq k (length l)) l))
    = map fst (filter (fun p => Q (snd p)) (List.combine (seq k (length (map f l))) (map f l))).
  Proof.
    induction l as [|a l IH]; intro k; [reflexivity|].
    cbn [map length seq List.combine filter snd]. specialize (IH (S k)). destruct (Q (f a)); cbn [map fst]; rewrite IH; reflexivity.
  Qed.

  Definition dual_axes (ix : list bool) : list nat := map fst (filter (fun p => snd p) (enumerate ix)).

  Lemma conj_axes_gen (ix : list bool) :
    map (fun '(v3, _) => v3) (filter (fun '(_, v4) => negb (gindex_dual v4)) (py_enumerate (map (fun v1 => gindex_conj v1) ix)))
    = map Z.of_nat (dual_axes ix).
  Proof.
    unfold py_enumerate, dual_axes, enumerate.
    pose proof (enum_filter_gen (fun b => negb (gindex_dual b)) (fun v1 => gindex_conj v1) ix 0%nat) as E.
    change (Z.of_nat 0) with 0 in E. cbv beta in E. etransitivity; [exact E|]. do 2 f_equal.
    apply filter_ext. intros [a b]. unfold gindex_dual, gindex_conj. cbn [snd]. apply negb_involutive.
  Qed.

  Lemma step_conj p s (pp pd : bool) (axs : list nat) : sector_bits s -> NoDup p ->
    (if pp || pd
     then
       let v13 := py_dict_get keq 1 (tbl_of p) s in
       let v15 := if pp then v13 * calc_phase_permutation (map (fun v11 => parityZ G v11) s) None else v13 in
       let v18 := if pd then v15 * (if negb (zsum (map (fun v16 => py_nth 0 (map (fun v11 => parityZ G v11) s) v16) (map Z.of_nat axs)) mod 2 =? 0)
                                    then -1 else 1) else v15 in
       if v18 =? 1 then dpop keq s (tbl_of p) else dset keq s v18 (tbl_of p)
     else tbl_of p)
    = tbl_of (if xorb (pp && perm_minus G s None) (pd && count_odd G s axs) then ph_toggle G p s else p).
  Proof.
    intros Hsb Hp. rewrite count_odd_gen_par by exact Hsb. cbv zeta.
    pose proof (cpp_pm1 (map (fun v11 => parityZ G v11) s) None) as Hc.
    change (perm_minus G s None) with (calc_phase_permutation (map (fun v11 => parityZ G v11) s) None =? -1).
    set (cp := calc_phase_permutation (map (fun v11 => parityZ G v11) s) None) in *.
    destruct pp, pd; cbn [orb andb xorb].
    - rewrite <- Z.mul_assoc.
      assert (Hs : cp * (if count_odd G s axs then -1 else 1) = 1 \/ cp * (if count_odd G s axs then -1 else 1) = -1)
        by (destruct Hc as [-> | ->]; destruct (count_odd G s axs); auto).
      rewrite (step_mul keq keq_spec p s _ Hp Hs). f_equal.
      destruct Hc as [-> | ->]; destruct (count_odd G s axs); reflexivity.
    - rewrite (step_mul keq keq_spec p s _ Hp Hc). now rewrite xorb_false_r.
    - assert (Hs : (if count_odd G s axs then -1 else 1) = 1 \/ (if count_odd G s axs then -1 else 1) = -1)
        by (destruct (count_odd G s axs); auto).
      rewrite (step_mul keq keq_spec p s _ Hp Hs). destruct (count_odd G s axs); reflexivity.
    - reflexivity.
  Qed.

  Definition conj_table (ix : list bool) (ch : C G) (secs : list sector) (odd : list fop) (ph : list sector) (pp pd : bool) : list sector :=
    let ph1 := fold_left (fun ph s => if xorb (pp && perm_minus G s None) (pd && count_odd G s (dual_axes ix)) then ph_toggle G ph s else ph) secs ph in
    if pp && parity G (sign G ch true) && Nat.odd (length (Fermi.oddpos_dag odd)) then fold_left (ph_toggle G) secs ph1 else ph1.

  Lemma gen_conj {B} (bconj : B -> B) ix ch (bl : list (sector * B)) odd ph (pp pd : bool) :
    NoDup ph -> bits_ok G (keys bl) ->
    let st := conj_gen G B bconj ix ch bl (tbl_of ph) odd pp pd in
    st_phases st = tbl_of (conj_table ix ch (keys bl) odd ph pp pd) /\
    st_indices st = map negb ix /\ st_charge st = sign G ch true /\ st_oddpos st = Fermi.oddpos_dag odd /\
    keys (st_blocks st) = keys bl.
  Proof.
    intros Hnd Hb. cbv zeta. unfold conj_gen. rewrite conj_axes_gen. cbv zeta.
    match goal with |- context [fold_left ?F bl (bl, tbl_of ph)] => set (F0 := F) end.
    pose proof (fold_pair_tbl F0 (fun s => xorb (pp && perm_minus G s None) (pd && count_odd G s (dual_axes ix))) bl) as H1.
    specialize (H1 (fun a p k v Hk Hp => step_conj p k pp pd (dual_axes ix) (fun c Hc => Hb k c Hk Hc) Hp) bl ph Hnd).
    pose proof (fold_pair_keys F0) as H2.
    specialize (H2 (fun a p k v Hk => keys_dset_in k (bconj v) a Hk) bl bl (tbl_of ph) (fun t Ht => Ht)).
    destruct (fold_left F0 bl (bl, tbl_of ph)) as [b1 p1]. cbn [fst snd] in H1, H2. subst p1.
    unfold conj_table. fold (keys bl).
    set (ph1 := fold_left (fun p s => if xorb (pp && perm_minus G s None) (pd && count_odd G s (dual_axes ix)) then ph_toggle G p s else p) (keys bl) ph).
    assert (Hn1 : NoDup ph1) by (apply NoDup_fold_toggle; exact Hnd).
    rewrite odd_length_mod.
    set (cond := pp && parity G (sign G ch true) && Nat.odd (length (Fermi.oddpos_dag odd))).
    repeat match goal with |- context [if ?c then _ else _] =>
      lazymatch c with cond => fail | _ => change c with cond end end.
    destruct cond.
    - rewrite gen_phase_global by exact Hn1. cbn [st_phases st_indices st_charge st_oddpos st_blocks]. rewrite H2.
      repeat split; reflexivity.
    - cbn [st_phases st_indices st_charge st_oddpos st_blocks]. repeat split; try reflexivity. exact H2.
  Qed.

  Lemma dual_axes_indices (ixs : list (index G)) :
    dual_axes (map (idual G) ixs) = map fst (filter (fun p => idual G (snd p)) (enumerate ixs)).
  Proof.
    unfold dual_axes, enumerate. symmetry.
    apply (enum_map_filter (fun b => b) (idual G) ixs 0%nat).
  Qed.

  Lemma sectors_a_conj (b : aarray G R) : sectors G R (a_conj G R b) = sectors G R b.
  Proof. unfold sectors, a_conj. cbn [blocks]. rewrite map_map. reflexivity. Qed.

  Lemma phases_conj (x : farr) {B} (bconj : B -> B) (bl : list (sector * B)) (pp pd : bool) :
    keys bl = fsectors G R x -> NoDup (fphases G R x) -> bits_ok G (fsectors G R x) ->
    let st := conj_gen G B bconj (duals G R (fbase G R x)) (charge G R (fbase G R x)) bl (tbl_of (fphases G R x)) (foddpos G R x) pp pd in
    st_phases st = tbl_of (fphases G R (f_conj G R x pp pd)) /\
    st_oddpos st = foddpos G R (f_conj G R x pp pd) /\
    st_charge st = charge G R (fbase G R (f_conj G R x pp pd)) /\
    st_indices st = duals G R (fbase G R (f_conj G R x pp pd)).
  Proof.
    intros Hk Hnd Hb. cbv zeta. rewrite <- Hk in Hb.
    destruct (gen_conj bconj (duals G R (fbase G R x)) (charge G R (fbase G R x)) bl (foddpos G R x) (fphases G R x) pp pd Hnd Hb)
      as (E1 & E2 & E3 & E4 & _).
    rewrite E1, E2, E3, E4. unfold conj_table, f_conj. rewrite Hk. unfold duals at 1 2. rewrite dual_axes_indices.
    unfold fparity. cbn [fbase foddpos].
    change (charge G R (a_conj G R (fbase G R x))) with (sign G (charge G R (fbase G R x)) true).
    destruct (pp && parity G (sign G (charge G R (fbase G R x)) true) && Nat.odd (length (Fermi.oddpos_dag (foddpos G R x)))).
    - unfold f_phase_global, with_phases, fsectors. cbn [fphases foddpos fbase]. rewrite sectors_a_conj.
      unfold duals, a_conj. cbn [indices charge]. rewrite !map_map.
      repeat split; try reflexivity. apply map_ext. intros [cm d sub]. reflexivity.
    - cbn [fphases foddpos fbase]. unfold duals, a_conj. cbn [indices charge]. rewrite !map_map.
      repeat split; try reflexivity. apply map_ext. intros [cm d sub]. reflexivity.
  Qed.
End Gen.

(* ------------------------------------------------------------------ *)
(* The hand-level arrays whose sign table (for phase_sync also the blocks, for conj also the labels)
   is what the GENERATED function returns on the state of x; each equals the hand model's operation, so
   every theorem of C03 / C09 / C10 about the hand model is a theorem about the generated functions. *)
Definition minus_keys {K} (t : list (K * Z)) : list K := map fst (filter (fun kv => snd kv =? -1) t).

Lemma minus_keys_tbl {K} (ph : list K) : minus_keys (tbl_of ph) = ph.
Proof. unfold minus_keys, tbl_of. induction ph as [|s ph IH]; [reflexivity|]. cbn [map filter snd Z.eqb Pos.eqb fst]. now rewrite IH. Qed.

Section ViaGen.
  Context (G : Symmetry) (R : Ring).
  Notation sector := (list (C G)).
  Notation farr := (farray G R).
  Notation T := (tensor R).
  Notation IX x := (duals G R (fbase G R x)).
  Notation CH x := (charge G R (fbase G R x)).
  Notation BL x := (blocks G R (fbase G R x)).
  Notation PH x := (tbl_of (fphases G R x)).
  Notation OD x := (foddpos G R x).

  Definition global_via_gen (x : farr) : farr :=
    with_phases G R x (minus_keys (st_phases (phase_global_gen G T (IX x) (CH x) (BL x) (PH x) (OD x)))).
  Definition flip_via_gen (x : farr) (axs : list nat) : farr :=
    with_phases G R x (minus_keys (st_phases (phase_flip_gen G T (IX x) (CH x) (BL x) (PH x) (OD x) (map Z.of_nat axs)))).
  Definition ptranspose_via_gen (x : farr) (perm : option (list nat)) : farr :=
    with_phases G R x (minus_keys (st_phases (phase_transpose_gen G T (IX x) (CH x) (BL x) (PH x) (OD x) (zperm perm)))).
  Definition sector_via_gen (x : farr) (s : sector) : farr :=
    with_phases G R x (minus_keys (st_phases (phase_sector_gen G T (IX x) (CH x) (BL x) (PH x) (OD x) s))).
  Definition sync_via_gen (x : farr) : farr :=
    let st := phase_sync_gen G T (tneg R) (IX x) (CH x) (BL x) (PH x) (OD x) in
    mkF G R (with_blocks G R (fbase G R x) (st_blocks st)) (minus_keys (st_phases st)) (OD x).
  (* the block / index movement of transpose and conj is the hand model's (a_transpose, a_conj) *)
  Definition transpose_via_gen (x : farr) (axes : list nat) (phase : bool) : farr :=
    mkF G R (a_transpose G R (fbase G R x) axes)
        (minus_keys (st_phases (transpose_gen G T (fun ix bl _ => (ix, bl)) (IX x) (CH x) (BL x) (PH x) (OD x)
                                              (Some (map Z.of_nat axes)) phase)))
        (OD x).
  Definition conj_via_gen (x : farr) (pp pd : bool) : farr :=
    let st := conj_gen G T (tconj R) (IX x) (CH x) (BL x) (PH x) (OD x) pp pd in
    mkF G R (a_conj G R (fbase G R x)) (minus_keys (st_phases st)) (st_oddpos st).

  Context (ceqb_spec : forall a b : C G, ceqb G a b = true <-> a = b).
  Context (PO : parity_ok G).

  Lemma with_phases_self (x : farr) : with_phases G R x (fphases G R x) = x.
  Proof. now destruct x. Qed.

  Lemma global_via_gen_eq x : NoDup (fphases G R x) -> global_via_gen x = f_phase_global G R x.
  Proof. intro H. unfold global_via_gen. rewrite (phases_phase_global G R ceqb_spec) by exact H. now rewrite minus_keys_tbl. Qed.

  Lemma flip_via_gen_eq x axs : NoDup (fphases G R x) -> bits_ok G (fsectors G R x) -> flip_via_gen x axs = f_phase_flip G R x axs.
  Proof.
    intros H Hb. unfold flip_via_gen. rewrite (phases_phase_flip G R ceqb_spec PO) by assumption. rewrite minus_keys_tbl.
    unfold f_phase_flip. destruct (is_nil axs); [apply with_phases_self | reflexivity].
  Qed.

  Lemma ptranspose_via_gen_eq x perm : NoDup (fphases G R x) -> ptranspose_via_gen x perm = f_phase_transpose G R x perm.
  Proof. intro H. unfold ptranspose_via_gen. rewrite (phases_phase_transpose G R ceqb_spec) by exact H. now rewrite minus_keys_tbl. Qed.

  Lemma sector_via_gen_eq x s : NoDup (fphases G R x) -> sector_via_gen x s = f_phase_sector G R x s.
  Proof. intro H. unfold sector_via_gen. rewrite (phases_phase_sector G R ceqb_spec) by exact H. now rewrite minus_keys_tbl. Qed.

  Lemma sync_via_gen_eq x : NoDup (fphases G R x) -> NoDup (fsectors G R x) -> sync_via_gen x = f_phase_sync G R x.
  Proof.
    intros H1 H2. unfold sync_via_gen. cbv zeta.
    destruct (blocks_phase_sync G R ceqb_spec x (IX x) (CH x) (OD x) H1 H2) as [Eb Ep]. rewrite Eb, Ep, minus_keys_tbl.
    reflexivity.
  Qed.

  Lemma transpose_via_gen_eq (x : farr) (axes : list nat) (phase : bool) :
    NoDup (map (fun s => permuted (ident G) s axes) (if phase then fsectors G R x else fphases G R x)) ->
    transpose_via_gen x axes phase = f_transpose G R x axes phase.
  Proof.
    intro H. unfold transpose_via_gen. rewrite (phases_transpose G R ceqb_spec x) by (try reflexivity; exact H).
    rewrite minus_keys_tbl. unfold f_transpose. reflexivity.
  Qed.

  Lemma fbase_f_conj x pp pd : fbase G R (f_conj G R x pp pd) = a_conj G R (fbase G R x).
  Proof. unfold f_conj. cbv zeta. match goal with |- context [if ?c then _ else _] => destruct c end; reflexivity. Qed.

  Lemma fsectors_f_conj x pp pd : fsectors G R (f_conj G R x pp pd) = fsectors G R x.
  Proof. unfold fsectors. rewrite fbase_f_conj. apply sectors_a_conj. Qed.

  Lemma conj_via_gen_eq x pp pd : NoDup (fphases G R x) -> bits_ok G (fsectors G R x) -> conj_via_gen x pp pd = f_conj G R x pp pd.
  Proof.
    intros H Hb. unfold conj_via_gen. cbv zeta.
    destruct (phases_conj G R ceqb_spec PO x (tconj R) (BL x) pp pd eq_refl H Hb) as (E1 & E2 & _).
    rewrite E1, E2, minus_keys_tbl, <- fbase_f_conj with (pp := pp) (pd := pd). now destruct (f_conj G R x pp pd).
  Qed.

  Lemma NoDup_fphases_f_conj x pp pd : NoDup (fphases G R x) -> NoDup (fphases G R (f_conj G R x pp pd)).
  Proof.
    intro H. unfold f_conj. cbv zeta.
    match goal with |- context [fold_left ?F ?l ?a] => assert (Hn : NoDup (fold_left F l a)) by (apply (NoDup_fold_toggle G ceqb_spec); exact H) end.
    match goal with |- context [if ?c then _ else _] => destruct c end; [|exact Hn].
    unfold f_phase_global, with_phases. cbn [fphases]. apply (NoDup_fold_toggle_all G ceqb_spec). exact Hn.
  Qed.

  (* ---- one representative corollary per property, through the generated functions ---- *)
  (* C09: synchronising (table and negated blocks as the generated phase_sync computes them) keeps the value *)
  Lemma sync_via_gen_value x : NoDup (fphases G R x) -> NoDup (fsectors G R x) ->
    f_value G R (sync_via_gen x) = f_value G R x /\ fphases G R (sync_via_gen x) = [].
  Proof. intros H1 H2. rewrite sync_via_gen_eq by assumption. split; [apply sync_value | reflexivity]. Qed.

  (* C03: transposing multiplies each block by the Koszul sign of its odd indices, with the sign table
     the generated transpose computes *)
  Lemma transpose_via_gen_value (NL : NegLaws R) x axes s :
    NoDup (fsectors G R x) -> sectors_len G R x ->
    Permutation axes (seq 0 (ndim G R (fbase G R x))) -> length s = ndim G R (fbase G R x) ->
    vblock G R (transpose_via_gen x axes true) (permuted (ident G) s axes)
    = option_map (fun t => FermiProofs.sgn R (inv_parity (par_of G s) (map Z.of_nat axes)) (ttranspose R t axes)) (vblock G R x s).
  Proof.
    intros Hnd Hlen Hp Hs. rewrite transpose_via_gen_eq; [now apply transpose_value|].
    apply (NoDup_map_permuted G (fsectors G R x) axes (ndim G R (fbase G R x))); assumption.
  Qed.
End ViaGen.

(* C10: conjugating twice (sign tables and labels as the generated conj computes them) returns the original *)
Lemma conj_via_gen_conj (G : Symmetry) (GL : GroupLaws G) (R : Ring) :
  (forall a, rconj R (rconj R a) = a) ->
  forall (x : farray G R) (pp : bool),
  valid G (charge G R (fbase G R x)) = true -> NoDup (fsectors G R x) ->
  NoDup (fphases G R x) -> bits_ok G (fsectors G R x) ->
  feq G R (conj_via_gen G R (conj_via_gen G R x pp false) pp false) x.
Proof.
  intros Hc x pp Hv Hnd Hph Hb.
  assert (PO : parity_ok G).
  { unfold parity_ok. pose proof (parity_combine G GL []) as H. unfold parity, ident in *.
    assert (Hv0 : valid_all G [] = true) by (apply (valid_all_forall G GL); constructor).
    specialize (H Hv0). cbn [map xorb_list fold_right] in H. apply negb_false_iff in H. now apply Z.eqb_eq in H. }
  rewrite (conj_via_gen_eq G R (ceqb_eq G GL) PO x pp false Hph Hb).
  rewrite (conj_via_gen_eq G R (ceqb_eq G GL) PO).
  - now apply conj_conj.
  - apply (NoDup_fphases_f_conj G R (ceqb_eq G GL)). exact Hph.
  - rewrite fsectors_f_conj. exact Hb.
Qed.

(* the side conditions from the group laws *)
Lemma parity_ok_of_laws (G : Symmetry) : GroupLaws G -> parity_ok G.
Proof.
  intro GL. unfold parity_ok. pose proof (parity_combine G GL []) as H. unfold parity, ident in *.
  assert (Hv0 : valid_all G [] = true) by (apply (valid_all_forall G GL); constructor).
  specialize (H Hv0). cbn [map xorb_list fold_right] in H. apply negb_false_iff in H. now apply Z.eqb_eq in H.
Qed.

Lemma bits_ok_of_valid (G : Symmetry) (secs : list (list (C G))) : GroupLaws G ->
  (forall s c, In s secs -> In c s -> valid G c = true) -> bits_ok G secs.
Proof. intros GL H s c Hs Hc. apply (parity_01 G GL). now apply (H s c). Qed.

(* ---- the hypotheses hold and the functions compute on a concrete non-trivial instance (Z2, rank 2,
        two stored sectors, one pending sign) ---- *)
Definition ex_x : farray Z2 ZRing :=
  mkF Z2 ZRing
      (mkA Z2 ZRing [Index Z2 [(0, 1%nat); (1, 1%nat)] false None; Index Z2 [(0, 1%nat); (1, 1%nat)] true None] 0
           [([1; 1], @mkT ZRing [1%nat; 1%nat] [5]); ([0; 0], @mkT ZRing [1%nat; 1%nat] [7])])
      [[1; 1]] [].

Example ex_hyps : NoDup (fphases Z2 ZRing ex_x) /\ NoDup (fsectors Z2 ZRing ex_x) /\ bits_ok Z2 (fsectors Z2 ZRing ex_x) /\ parity_ok Z2.
Proof.
  repeat split.
  - repeat constructor; intros [].
  - repeat constructor; cbn; intuition discriminate.
  - intros s c Hs Hc. cbn in Hs. destruct Hs as [<- | [<- | []]]; cbn in Hc; destruct Hc as [<- | [<- | []]]; cbn; auto.
Qed.

Example ex_flip : st_phases (phase_flip_gen Z2 (tensor ZRing) [false; true] 0 (blocks Z2 ZRing (fbase Z2 ZRing ex_x))
                                          (tbl_of (fphases Z2 ZRing ex_x)) [] [1]) = []
  /\ st_phases (transpose_gen Z2 (tensor ZRing) (fun ix bl _ => (ix, bl)) [false; true] 0 (blocks Z2 ZRing (fbase Z2 ZRing ex_x))
                              (tbl_of (fphases Z2 ZRing ex_x)) [] (Some [1; 0]) true) = []
  /\ st_phases (conj_gen Z2 (tensor ZRing) (tconj ZRing) [false; true] 0 (blocks Z2 ZRing (fbase Z2 ZRing ex_x))
                         (tbl_of (fphases Z2 ZRing ex_x)) [] true true) = [([1; 1], -1)].
Proof. vm_compute. repeat split. Qed.
